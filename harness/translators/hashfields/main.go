// hashfields: translator for C29 / C30 / C47.
//
// Reads, from the repository working tree (VERIF_REPO or /repo):
//   - chaincore/block/entity.go        Block.getHashData, Block.GetMerkleTree, Block.GetReceiptsMerkleTree
//   - chaincore/transaction/*.go       Transaction.HashData, Transaction.GetHash, NewTransactionReceipt, TxnReceipt.GetHash
//   - core/common/time.go              TimeToString
//   - chaincore/client/entity.go       GetIDFromPublicKey, Client.computePublicKeyBytes, Client.Validate
//   - core/encryption/signature_scheme.go  VerifyPublicKeyClientID
//
// and emits coq/Gen/HashFields.v: for each hashed entity the ordered list of
// (field path, encoder, nil-guard, lazy initialiser) that is concatenated with ":" and fed to
// encryption.Hash; for the client id the form of every derivation site.
//
// The program recognises exactly the statement shapes present in those functions and exits
// non-zero ("fails closed") on anything else, so that a change of the hashing code can never be
// silently mistranslated. The output file is rewritten only when its content changes.
package main

import (
	"bytes"
	"fmt"
	"go/ast"
	"go/build/constraint"
	"go/parser"
	"go/printer"
	"go/token"
	"os"
	"path/filepath"
	"sort"
	"strings"
)

func repo() string {
	if r := os.Getenv("VERIF_REPO"); r != "" {
		return r
	}
	return "/repo"
}

func die(f string, a ...interface{}) {
	fmt.Fprintf(os.Stderr, "hashfields: "+f+"\n", a...)
	os.Exit(1)
}

var fset = token.NewFileSet()

func src(n ast.Node) string {
	var b bytes.Buffer
	_ = printer.Fprint(&b, fset, n)
	return b.String()
}

func pos(n ast.Node) string {
	p := fset.Position(n.Pos())
	return fmt.Sprintf("%s:%d", filepath.Base(p.Filename), p.Line)
}

// ---------- package loading (syntax only; build constraints honoured) ----------

type pkg struct {
	dir   string
	funcs map[string]*ast.FuncDecl // "Name" or "Recv.Name"
}

func fileEnabled(f *ast.File) bool {
	for _, cg := range f.Comments {
		if cg.Pos() >= f.Package {
			break
		}
		for _, c := range cg.List {
			if !constraint.IsGoBuild(c.Text) {
				continue
			}
			e, err := constraint.Parse(c.Text)
			if err != nil {
				die("bad build constraint %q", c.Text)
			}
			return e.Eval(func(tag string) bool {
				switch tag {
				case "verif", "linux", "amd64", "cgo", "unix", "gc":
					return true
				}
				return strings.HasPrefix(tag, "go1.")
			})
		}
	}
	return true
}

func recvName(fd *ast.FuncDecl) string {
	if fd.Recv == nil || len(fd.Recv.List) != 1 {
		return ""
	}
	t := fd.Recv.List[0].Type
	if s, ok := t.(*ast.StarExpr); ok {
		t = s.X
	}
	if id, ok := t.(*ast.Ident); ok {
		return id.Name
	}
	return "?"
}

func load(rel string) *pkg {
	dir := filepath.Join(repo(), "code/go/0chain.net", rel)
	ents, err := os.ReadDir(dir)
	if err != nil {
		die("%v", err)
	}
	p := &pkg{dir: rel, funcs: map[string]*ast.FuncDecl{}}
	for _, e := range ents {
		n := e.Name()
		if e.IsDir() || !strings.HasSuffix(n, ".go") || strings.HasSuffix(n, "_test.go") {
			continue
		}
		f, err := parser.ParseFile(fset, filepath.Join(dir, n), nil, parser.ParseComments)
		if err != nil {
			die("%v", err)
		}
		if !fileEnabled(f) {
			continue
		}
		for _, d := range f.Decls {
			fd, ok := d.(*ast.FuncDecl)
			if !ok || fd.Body == nil {
				continue
			}
			k := fd.Name.Name
			if r := recvName(fd); r != "" {
				k = r + "." + k
			}
			if _, dup := p.funcs[k]; dup {
				die("%s: two enabled definitions of %s", rel, k)
			}
			p.funcs[k] = fd
		}
	}
	return p
}

func (p *pkg) fn(key string) *ast.FuncDecl {
	fd := p.funcs[key]
	if fd == nil {
		die("%s: function %s not found", p.dir, key)
	}
	return fd
}

func recvVar(fd *ast.FuncDecl) string {
	if fd.Recv == nil || len(fd.Recv.List) != 1 || len(fd.Recv.List[0].Names) != 1 {
		die("%s: receiver of %s not named", pos(fd), fd.Name.Name)
	}
	return fd.Recv.List[0].Names[0].Name
}

// selPath returns the dotted field path of a selector chain rooted at identifier root.
func selPath(e ast.Expr, root string) (string, bool) {
	var parts []string
	for {
		switch x := e.(type) {
		case *ast.SelectorExpr:
			parts = append([]string{x.Sel.Name}, parts...)
			e = x.X
		case *ast.Ident:
			if x.Name != root || len(parts) == 0 {
				return "", false
			}
			return strings.Join(parts, "."), true
		case *ast.ParenExpr:
			e = x.X
		default:
			return "", false
		}
	}
}

func isPkgCall(e ast.Expr, pkgName, fn string) (*ast.CallExpr, bool) {
	c, ok := e.(*ast.CallExpr)
	if !ok {
		return nil, false
	}
	s, ok := c.Fun.(*ast.SelectorExpr)
	if !ok || s.Sel.Name != fn {
		return nil, false
	}
	id, ok := s.X.(*ast.Ident)
	return c, ok && id.Name == pkgName
}

func isLit(e ast.Expr, v string) bool {
	l, ok := e.(*ast.BasicLit)
	return ok && l.Value == v
}

// ---------- model of what is recognised ----------

type entry struct {
	path, enc, guard, lazy string
}

type ctx struct {
	home     *pkg   // package of the hashing function
	txnPkg   *pkg   // chaincore/transaction
	common   *pkg   // core/common
	recvType string // e.g. Block
	recv     string // receiver variable
	trees    map[string]string // local var -> leaf path of the merkle tree it holds
	roots    map[string]string // local var -> leaf path whose merkle root it holds
	builder  string
}

// accessor resolves `recv.M()` where M's body is a single return of a receiver field,
// optionally through atomic.LoadInt64(&r.F).
func (c *ctx) accessor(call *ast.CallExpr) (string, bool) {
	s, ok := call.Fun.(*ast.SelectorExpr)
	if !ok || len(call.Args) != 0 {
		return "", false
	}
	if id, ok := s.X.(*ast.Ident); !ok || id.Name != c.recv {
		return "", false
	}
	var fd *ast.FuncDecl
	for k, f := range c.home.funcs {
		if strings.HasSuffix(k, "."+s.Sel.Name) {
			if fd != nil {
				die("%s: accessor %s is ambiguous", pos(call), s.Sel.Name)
			}
			fd = f
		}
	}
	if fd == nil || len(fd.Body.List) != 1 {
		return "", false
	}
	ret, ok := fd.Body.List[0].(*ast.ReturnStmt)
	if !ok || len(ret.Results) != 1 {
		return "", false
	}
	r := recvVar(fd)
	e := ret.Results[0]
	if ld, ok := isPkgCall(e, "atomic", "LoadInt64"); ok && len(ld.Args) == 1 {
		if u, ok := ld.Args[0].(*ast.UnaryExpr); ok && u.Op == token.AND {
			e = u.X
		}
	}
	return selPath(e, r)
}

func (c *ctx) fieldOrAccessor(e ast.Expr) (string, bool) {
	if p, ok := selPath(e, c.recv); ok {
		return p, true
	}
	if call, ok := e.(*ast.CallExpr); ok {
		// conversions int64(x) / uint64(x)
		if id, ok := call.Fun.(*ast.Ident); ok && (id.Name == "int64" || id.Name == "uint64" || id.Name == "int") && len(call.Args) == 1 {
			return c.fieldOrAccessor(call.Args[0])
		}
		return c.accessor(call)
	}
	return "", false
}

// checkTimeToString makes sure common.TimeToString is still decimal formatting of the int64.
func (c *ctx) checkTimeToString() {
	fd := c.common.fn("TimeToString")
	if len(fd.Type.Params.List) != 1 || len(fd.Type.Params.List[0].Names) != 1 || len(fd.Body.List) != 1 {
		die("%s: TimeToString shape not recognised", pos(fd))
	}
	p := fd.Type.Params.List[0].Names[0].Name
	ret, ok := fd.Body.List[0].(*ast.ReturnStmt)
	if !ok || len(ret.Results) != 1 {
		die("%s: TimeToString shape not recognised", pos(fd))
	}
	call, ok := isPkgCall(ret.Results[0], "strconv", "FormatInt")
	if !ok || len(call.Args) != 2 || !isLit(call.Args[1], "10") || src(call.Args[0]) != "int64("+p+")" {
		die("%s: TimeToString is no longer strconv.FormatInt(int64(ts), 10): %s", pos(fd), src(ret))
	}
}

// value classifies the argument of a WriteString that is not the ":" separator.
func (c *ctx) value(e ast.Expr) entry {
	if id, ok := e.(*ast.Ident); ok {
		if leaf, ok := c.roots[id.Name]; ok {
			return entry{path: leaf, enc: "EncMerkle"}
		}
		die("%s: identifier %s is not a merkle root computed in this function", pos(e), id.Name)
	}
	if p, ok := selPath(e, c.recv); ok {
		return entry{path: p, enc: "EncRaw"}
	}
	if call, ok := isPkgCall(e, "strconv", "FormatInt"); ok && len(call.Args) == 2 && isLit(call.Args[1], "10") {
		if p, ok := c.fieldOrAccessor(call.Args[0]); ok {
			return entry{path: p, enc: "EncDec"}
		}
	}
	if call, ok := isPkgCall(e, "strconv", "FormatUint"); ok && len(call.Args) == 2 && isLit(call.Args[1], "10") {
		if p, ok := c.fieldOrAccessor(call.Args[0]); ok {
			return entry{path: p, enc: "EncDec"}
		}
	}
	if call, ok := isPkgCall(e, "strconv", "Itoa"); ok && len(call.Args) == 1 {
		if p, ok := c.fieldOrAccessor(call.Args[0]); ok {
			return entry{path: p, enc: "EncDec"}
		}
	}
	if call, ok := isPkgCall(e, "common", "TimeToString"); ok && len(call.Args) == 1 {
		c.checkTimeToString()
		if p, ok := selPath(call.Args[0], c.recv); ok {
			return entry{path: p, enc: "EncDec"}
		}
	}
	if call, ok := isPkgCall(e, "encryption", "Hash"); ok && len(call.Args) == 1 {
		if p, ok := selPath(call.Args[0], c.recv); ok {
			return entry{path: p, enc: "EncHashOf"}
		}
	}
	die("%s: hashed expression not recognised: %s", pos(e), src(e))
	return entry{}
}

// leafOf resolves what Hashable.GetHash() returns for a leaf expression built from the loop
// variable `v` (a *transaction.Transaction).
func (c *ctx) leafOf(e ast.Expr, v string) string {
	single := func(fd *ast.FuncDecl) ast.Expr {
		if len(fd.Body.List) != 1 {
			die("%s: %s is not a single return", pos(fd), fd.Name.Name)
		}
		r, ok := fd.Body.List[0].(*ast.ReturnStmt)
		if !ok || len(r.Results) != 1 {
			die("%s: %s is not a single return", pos(fd), fd.Name.Name)
		}
		return r.Results[0]
	}
	if id, ok := e.(*ast.Ident); ok && id.Name == v {
		fd := c.txnPkg.fn("Transaction.GetHash")
		p, ok := selPath(single(fd), recvVar(fd))
		if !ok {
			die("%s: Transaction.GetHash does not return a field", pos(fd))
		}
		return p
	}
	if call, ok := isPkgCall(e, "transaction", "NewTransactionReceipt"); ok && len(call.Args) == 1 {
		if id, ok := call.Args[0].(*ast.Ident); !ok || id.Name != v {
			die("%s: receipt of something else than the loop transaction", pos(e))
		}
		ctor := c.txnPkg.fn("NewTransactionReceipt")
		param := ctor.Type.Params.List[0].Names[0].Name
		if got, want := src(single(ctor)), "&TxnReceipt{Transaction: "+param+"}"; got != want {
			die("%s: NewTransactionReceipt returns %s, expected %s", pos(ctor), got, want)
		}
		gh := c.txnPkg.fn("TxnReceipt.GetHash")
		p, ok := selPath(single(gh), recvVar(gh))
		if !ok || !strings.HasPrefix(p, "Transaction.") {
			die("%s: TxnReceipt.GetHash does not return a transaction field", pos(gh))
		}
		return strings.TrimPrefix(p, "Transaction.")
	}
	die("%s: merkle leaf not recognised: %s", pos(e), src(e))
	return ""
}

// treeLeaf analyses a method `func (b *T) M() *util.MerkleTree` of the fixed shape used by
// GetMerkleTree / GetReceiptsMerkleTree and returns "<slice>[].<leaf field>".
func (c *ctx) treeLeaf(method string) string {
	fd := c.home.fn(c.recvType + "." + method)
	r := recvVar(fd)
	L := fd.Body.List
	bad := func(i int) { die("%s: statement %d of %s not recognised: %s", pos(fd), i, method, src(L[i])) }
	if len(L) != 5 {
		die("%s: %s has %d statements, expected 5", pos(fd), method, len(L))
	}
	// 0: var hashables = make([]util.Hashable, len(r.Txns))
	ds, ok := L[0].(*ast.DeclStmt)
	if !ok {
		bad(0)
	}
	vs := ds.Decl.(*ast.GenDecl).Specs[0].(*ast.ValueSpec)
	if len(vs.Names) != 1 || len(vs.Values) != 1 {
		bad(0)
	}
	hs := vs.Names[0].Name
	mk, ok := vs.Values[0].(*ast.CallExpr)
	if !ok || src(mk.Fun) != "make" || len(mk.Args) != 2 || src(mk.Args[0]) != "[]util.Hashable" {
		bad(0)
	}
	ln, ok := mk.Args[1].(*ast.CallExpr)
	if !ok || src(ln.Fun) != "len" || len(ln.Args) != 1 {
		bad(0)
	}
	slice, ok := selPath(ln.Args[0], r)
	if !ok {
		bad(0)
	}
	// 1: for idx, txn := range r.Txns { hashables[idx] = <leaf> }
	rs, ok := L[1].(*ast.RangeStmt)
	if !ok || rs.Key == nil || rs.Value == nil || len(rs.Body.List) != 1 {
		bad(1)
	}
	if p, ok := selPath(rs.X, r); !ok || p != slice {
		bad(1)
	}
	as, ok := rs.Body.List[0].(*ast.AssignStmt)
	if !ok || len(as.Lhs) != 1 || len(as.Rhs) != 1 || src(as.Lhs[0]) != hs+"["+src(rs.Key)+"]" {
		bad(1)
	}
	save := c.recv
	c.recv = r
	leaf := c.leafOf(as.Rhs[0], src(rs.Value))
	c.recv = save
	// 2: var mt util.MerkleTree ; 3: mt.ComputeTree(hashables) ; 4: return &mt
	ds2, ok := L[2].(*ast.DeclStmt)
	if !ok {
		bad(2)
	}
	vs2 := ds2.Decl.(*ast.GenDecl).Specs[0].(*ast.ValueSpec)
	if len(vs2.Names) != 1 || vs2.Type == nil || src(vs2.Type) != "util.MerkleTree" || len(vs2.Values) != 0 {
		bad(2)
	}
	mt := vs2.Names[0].Name
	if es, ok := L[3].(*ast.ExprStmt); !ok || src(es.X) != mt+".ComputeTree("+hs+")" {
		bad(3)
	}
	if ret, ok := L[4].(*ast.ReturnStmt); !ok || len(ret.Results) != 1 || src(ret.Results[0]) != "&"+mt {
		bad(4)
	}
	return slice + "[]." + leaf
}

// writeArg returns the argument if stmt is `<builder>.WriteString(arg)`.
func (c *ctx) writeArg(s ast.Stmt) (ast.Expr, bool) {
	es, ok := s.(*ast.ExprStmt)
	if !ok {
		return nil, false
	}
	call, ok := es.X.(*ast.CallExpr)
	if !ok || len(call.Args) != 1 {
		return nil, false
	}
	sel, ok := call.Fun.(*ast.SelectorExpr)
	if !ok || sel.Sel.Name != "WriteString" {
		return nil, false
	}
	id, ok := sel.X.(*ast.Ident)
	if !ok || c.builder == "" || id.Name != c.builder {
		return nil, false
	}
	return call.Args[0], true
}

// hashData translates a function of the shape of Block.getHashData / Transaction.HashData.
func hashData(home, txnPkg, common *pkg, recvType, method string) []entry {
	fd := home.fn(recvType + "." + method)
	c := &ctx{home: home, txnPkg: txnPkg, common: common, recvType: recvType, recv: recvVar(fd),
		trees: map[string]string{}, roots: map[string]string{}}
	var out []entry
	wantSep := false // next WriteString must be the separator
	first := true
	returned := false
	emit := func(e ast.Expr, guard, lazy string) {
		if isLit(e, `":"`) {
			if !wantSep {
				die("%s: separator where a field was expected", pos(e))
			}
			wantSep = false
			return
		}
		if wantSep || (!first && false) {
			die("%s: two fields written without a \":\" separator: %s", pos(e), src(e))
		}
		en := c.value(e)
		en.guard, en.lazy = guard, lazy
		out = append(out, en)
		wantSep = true
		first = false
	}
	for i, s := range fd.Body.List {
		if returned {
			die("%s: statement after return", pos(s))
		}
		switch st := s.(type) {
		case *ast.AssignStmt:
			if st.Tok != token.DEFINE || len(st.Lhs) != 1 || len(st.Rhs) != 1 {
				die("%s: assignment not recognised: %s", pos(s), src(s))
			}
			name := src(st.Lhs[0])
			switch r := st.Rhs[0].(type) {
			case *ast.CompositeLit:
				if src(r) != "strings.Builder{}" || c.builder != "" {
					die("%s: assignment not recognised: %s", pos(s), src(s))
				}
				c.builder = name
			case *ast.CallExpr:
				sel, ok := r.Fun.(*ast.SelectorExpr)
				if !ok || len(r.Args) != 0 {
					die("%s: assignment not recognised: %s", pos(s), src(s))
				}
				x, ok := sel.X.(*ast.Ident)
				if !ok {
					die("%s: assignment not recognised: %s", pos(s), src(s))
				}
				if x.Name == c.recv {
					c.trees[name] = c.treeLeaf(sel.Sel.Name)
				} else if leaf, ok := c.trees[x.Name]; ok && sel.Sel.Name == "GetRoot" {
					c.roots[name] = leaf
				} else {
					die("%s: assignment not recognised: %s", pos(s), src(s))
				}
			default:
				die("%s: assignment not recognised: %s", pos(s), src(s))
			}
		case *ast.ExprStmt:
			arg, ok := c.writeArg(s)
			if !ok {
				die("%s: statement not recognised: %s", pos(s), src(s))
			}
			emit(arg, "", "")
		case *ast.IfStmt:
			// if recv.P != nil { [if recv.P.F == "" { recv.P.F = recv.P.M() }] WriteString(":") WriteString(recv.P.F) }
			if st.Init != nil || st.Else != nil {
				die("%s: if statement not recognised", pos(s))
			}
			be, ok := st.Cond.(*ast.BinaryExpr)
			if !ok || be.Op != token.NEQ || src(be.Y) != "nil" {
				die("%s: if condition not recognised: %s", pos(s), src(st.Cond))
			}
			guard, ok := selPath(be.X, c.recv)
			if !ok {
				die("%s: if condition not recognised: %s", pos(s), src(st.Cond))
			}
			lazyOf := map[string]string{}
			alwaysOf := map[string]string{} // field unconditionally overwritten with a method result before it is written
			for _, bs := range st.Body.List {
				// recv.P.F = recv.P.M()
				if as, ok := bs.(*ast.AssignStmt); ok {
					if as.Tok != token.ASSIGN || len(as.Lhs) != 1 || len(as.Rhs) != 1 {
						die("%s: assignment not recognised: %s", pos(bs), src(bs))
					}
					f, ok := selPath(as.Lhs[0], c.recv)
					call, ok2 := as.Rhs[0].(*ast.CallExpr)
					if !ok || !ok2 || !strings.HasPrefix(f, guard+".") || len(call.Args) != 0 {
						die("%s: assignment not recognised: %s", pos(bs), src(bs))
					}
					sel, ok := call.Fun.(*ast.SelectorExpr)
					if !ok {
						die("%s: assignment not recognised: %s", pos(bs), src(bs))
					}
					if gp, ok := selPath(sel.X, c.recv); !ok || gp != guard {
						die("%s: assignment not recognised: %s", pos(bs), src(bs))
					}
					alwaysOf[f] = sel.Sel.Name
					continue
				}
				if inner, ok := bs.(*ast.IfStmt); ok {
					ie, ok := inner.Cond.(*ast.BinaryExpr)
					if !ok || inner.Init != nil || inner.Else != nil || ie.Op != token.EQL || !isLit(ie.Y, `""`) || len(inner.Body.List) != 1 {
						die("%s: inner if not recognised: %s", pos(inner), src(inner))
					}
					f, ok := selPath(ie.X, c.recv)
					if !ok || !strings.HasPrefix(f, guard+".") {
						die("%s: inner if not recognised: %s", pos(inner), src(inner))
					}
					as, ok := inner.Body.List[0].(*ast.AssignStmt)
					if !ok || as.Tok != token.ASSIGN || len(as.Lhs) != 1 || len(as.Rhs) != 1 || src(as.Lhs[0]) != src(ie.X) {
						die("%s: inner if not recognised: %s", pos(inner), src(inner))
					}
					call, ok := as.Rhs[0].(*ast.CallExpr)
					if !ok || len(call.Args) != 0 {
						die("%s: inner if not recognised: %s", pos(inner), src(inner))
					}
					sel := call.Fun.(*ast.SelectorExpr)
					if p, ok := selPath(sel.X, c.recv); !ok || p != guard {
						die("%s: inner if not recognised: %s", pos(inner), src(inner))
					}
					lazyOf[f] = sel.Sel.Name
					continue
				}
				arg, ok := c.writeArg(bs)
				if !ok {
					die("%s: statement not recognised: %s", pos(bs), src(bs))
				}
				if isLit(arg, `":"`) {
					emit(arg, "", "")
					continue
				}
				// recv.P.M(): the method result is written directly (no stored copy involved)
				if call, ok := arg.(*ast.CallExpr); ok && len(call.Args) == 0 {
					if sel, ok := call.Fun.(*ast.SelectorExpr); ok {
						if gp, ok := selPath(sel.X, c.recv); ok && gp == guard {
							if wantSep {
								die("%s: two fields written without a \":\" separator: %s", pos(bs), src(arg))
							}
							out = append(out, entry{path: guard + "." + sel.Sel.Name + "()", enc: "EncRaw", guard: guard})
							wantSep = true
							first = false
							continue
						}
					}
				}
				p, ok := selPath(arg, c.recv)
				if !ok || !strings.HasPrefix(p, guard+".") {
					die("%s: guarded field must be under %s: %s", pos(bs), guard, src(arg))
				}
				if m, ok := alwaysOf[p]; ok { // same as writing the method result
					if wantSep {
						die("%s: two fields written without a \":\" separator: %s", pos(bs), src(arg))
					}
					out = append(out, entry{path: guard + "." + m + "()", enc: "EncRaw", guard: guard})
					wantSep = true
					first = false
					continue
				}
				emit(arg, guard, lazyOf[p])
			}
			if !wantSep {
				die("%s: guarded block ends with a separator", pos(s))
			}
		case *ast.ReturnStmt:
			if len(st.Results) != 1 || src(st.Results[0]) != c.builder+".String()" {
				die("%s: return not recognised: %s", pos(s), src(s))
			}
			returned = true
		default:
			die("%s: statement %d not recognised: %s", pos(s), i, src(s))
		}
	}
	if !returned || !wantSep || len(out) == 0 {
		die("%s: %s.%s does not end with a field followed by return", pos(fd), recvType, method)
	}
	// guarded entries must be a suffix of the list (the model's injectivity argument needs it)
	seenGuard := false
	for _, e := range out {
		if e.guard != "" {
			seenGuard = true
		} else if seenGuard {
			die("unguarded field %s after a guarded one", e.path)
		}
	}
	return out
}

// hashWrapper checks that T.ComputeHash is `encryption.Hash(recv.<method>())` (possibly through
// one local variable) so that the table really describes the preimage of the entity hash.
func hashWrapper(p *pkg, recvType, compute, method string) {
	fd := p.fn(recvType + "." + compute)
	r := recvVar(fd)
	want := "encryption.Hash(" + r + "." + method + "())"
	body := src(fd.Body)
	norm := strings.Join(strings.Fields(body), " ")
	okShapes := []string{
		"{ return " + want + " }",
		"{ hashData := " + r + "." + method + "() hash := encryption.Hash(hashData) return hash }",
	}
	for _, s := range okShapes {
		if norm == s {
			return
		}
	}
	die("%s: %s.%s is not encryption.Hash of %s(): %s", pos(fd), recvType, compute, method, norm)
}

// ---------- client id derivation sites ----------

type idrule struct{ fn, arg, form string }

func clientIDRules(cl, enc *pkg) []idrule {
	var out []idrule
	norm := func(n ast.Node) string { return strings.Join(strings.Fields(src(n)), " ") }
	// client.GetIDFromPublicKey(pubkey)
	{
		fd := cl.fn("GetIDFromPublicKey")
		p := fd.Type.Params.List[0].Names[0].Name
		want := "{ b, err := hex.DecodeString(" + p + ") if err != nil { return \"\", err } return encryption.Hash(b), nil }"
		if norm(fd.Body) != want {
			die("%s: GetIDFromPublicKey not recognised: %s", pos(fd), norm(fd.Body))
		}
		out = append(out, idrule{"client.GetIDFromPublicKey", p, "IdHashOfHexDecode"})
	}
	// (*Client).computePublicKeyBytes
	{
		fd := cl.fn("Client.computePublicKeyBytes")
		r := recvVar(fd)
		want := "{ b, err := hex.DecodeString(" + r + ".PublicKey) if err != nil { return err } " + r + ".PublicKeyBytes = b " + r + ".ID = encryption.Hash(b) return nil }"
		if norm(fd.Body) != want {
			die("%s: computePublicKeyBytes not recognised: %s", pos(fd), norm(fd.Body))
		}
		out = append(out, idrule{"client.Client.computePublicKeyBytes", "PublicKey", "IdHashOfHexDecode"})
	}
	// (*Client).Validate: ID must equal Hash(PublicKeyBytes)
	{
		fd := cl.fn("Client.Validate")
		r := recvVar(fd)
		if !strings.Contains(norm(fd.Body), "if !datastore.IsEqual("+r+".ID, datastore.ToKey(encryption.Hash("+r+".PublicKeyBytes))) { return") {
			die("%s: Client.Validate no longer compares ID with Hash(PublicKeyBytes): %s", pos(fd), norm(fd.Body))
		}
		out = append(out, idrule{"client.Client.Validate", "PublicKeyBytes", "IdHashOfBytes"})
	}
	// encryption.VerifyPublicKeyClientID(pubKey, clientID)
	{
		fd := enc.fn("VerifyPublicKeyClientID")
		a := fd.Type.Params.List[0].Names[0].Name
		b := fd.Type.Params.List[1].Names[0].Name
		want := "{ pubKeyBytes, err := hex.DecodeString(" + a + ") if err != nil { return fmt.Errorf(\"invalid public key: %v\", err) } if Hash(pubKeyBytes) != " + b + " { return fmt.Errorf(\"mismatched public key and client ID\") } return nil }"
		if norm(fd.Body) != want {
			die("%s: VerifyPublicKeyClientID not recognised: %s", pos(fd), norm(fd.Body))
		}
		out = append(out, idrule{"encryption.VerifyPublicKeyClientID", a, "IdHashOfHexDecode"})
	}
	sort.SliceStable(out, func(i, j int) bool { return out[i].fn < out[j].fn })
	return out
}

// ---------- writes to the key / id fields of a Client ----------

type keyWrite struct{ fn, field, rhs, kind string }

// clientKeyWrites lists every assignment to PublicKey / PublicKeyBytes / ID / IDField of the
// receiver in the methods of Client (computePublicKeyBytes itself excluded: its shape is checked
// above) and classifies it: PkThenRecompute (computePublicKeyBytes or SetPublicKey is called later
// in the same method), PkRollback (restores a value saved from the same field at the start of the
// method), PkDecode (a generated decoder; the datastore calls ComputeProperties after decoding) or
// PkStale (the field is left without recomputing the id from it).
func clientKeyWrites(cl *pkg) []keyWrite {
	var out []keyWrite
	var names []string
	for k := range cl.funcs {
		if strings.HasPrefix(k, "Client.") && k != "Client.computePublicKeyBytes" {
			names = append(names, k)
		}
	}
	sort.Strings(names)
	tracked := map[string]bool{"PublicKey": true, "PublicKeyBytes": true, "ID": true, "IDField": true}
	for _, name := range names {
		fd := cl.funcs[name]
		if fd.Recv == nil || len(fd.Recv.List[0].Names) != 1 {
			continue
		}
		r := fd.Recv.List[0].Names[0].Name
		type ev struct {
			write      bool
			field, rhs string
			pos        token.Pos
		}
		var evs []ev
		saved := map[string]string{} // local var -> field it was saved from
		ast.Inspect(fd.Body, func(n ast.Node) bool {
			switch x := n.(type) {
			case *ast.AssignStmt:
				for i, l := range x.Lhs {
					if f, ok := selPath(l, r); ok && tracked[strings.SplitN(f, ".", 2)[0]] {
						rhs := "?"
						if len(x.Rhs) == len(x.Lhs) {
							rhs = src(x.Rhs[i])
						}
						evs = append(evs, ev{true, f, rhs, x.Pos()})
					}
					if id, ok := l.(*ast.Ident); ok && x.Tok == token.DEFINE && len(x.Rhs) == len(x.Lhs) {
						if f, ok := selPath(x.Rhs[i], r); ok && tracked[f] {
							saved[id.Name] = f
						}
					}
				}
			case *ast.IncDecStmt:
				if f, ok := selPath(x.X, r); ok && tracked[f] {
					evs = append(evs, ev{true, f, "++", x.Pos()})
				}
			case *ast.CallExpr:
				if sel, ok := x.Fun.(*ast.SelectorExpr); ok {
					if id, ok := sel.X.(*ast.Ident); ok && id.Name == r &&
						(sel.Sel.Name == "computePublicKeyBytes" || sel.Sel.Name == "SetPublicKey") {
						evs = append(evs, ev{false, "", "", x.Pos()})
					}
				}
				// taking the address of a tracked field hides writes
			case *ast.UnaryExpr:
				if x.Op == token.AND {
					if f, ok := selPath(x.X, r); ok && tracked[f] {
						die("%s: address of %s.%s taken in %s", pos(x), r, f, name)
					}
				}
			}
			return true
		})
		sort.SliceStable(evs, func(i, j int) bool { return evs[i].pos < evs[j].pos })
		for i, e := range evs {
			if !e.write {
				continue
			}
			kind := "PkStale"
			if strings.HasSuffix(name, ".UnmarshalMsg") || strings.HasSuffix(name, ".DecodeMsg") || strings.HasSuffix(name, ".UnmarshalJSON") {
				kind = "PkDecode"
			} else if f, ok := saved[e.rhs]; ok && f == e.field {
				kind = "PkRollback"
			} else {
				for _, later := range evs[i+1:] {
					if !later.write {
						kind = "PkThenRecompute"
					}
				}
			}
			out = append(out, keyWrite{"client." + name, e.field, e.rhs, kind})
		}
	}
	return out
}

// ---------- output ----------

func coqStr(s string) string { return "\"" + strings.ReplaceAll(s, "\"", "\"\"") + "\"" }

func table(name string, es []entry) string {
	var b strings.Builder
	fmt.Fprintf(&b, "Definition %s : list he_entry := [\n", name)
	for i, e := range es {
		fmt.Fprintf(&b, "  {| he_path := %s; he_enc_of := %s; he_guard := %s; he_lazy := %s |}", coqStr(e.path), e.enc, coqStr(e.guard), coqStr(e.lazy))
		if i+1 < len(es) {
			b.WriteString(";")
		}
		b.WriteString("\n")
	}
	b.WriteString("].\n")
	return b.String()
}

func main() {
	out := "/verif/coq/Gen/HashFields.v"
	if len(os.Args) > 1 {
		out = os.Args[1]
	}
	blk := load("chaincore/block")
	txn := load("chaincore/transaction")
	com := load("core/common")
	cl := load("chaincore/client")
	enc := load("core/encryption")

	bt := hashData(blk, txn, com, "Block", "getHashData")
	hashWrapper(blk, "Block", "ComputeHash", "getHashData")
	tt := hashData(txn, txn, com, "Transaction", "HashData")
	hashWrapper(txn, "Transaction", "ComputeHash", "HashData")
	ids := clientIDRules(cl, enc)
	kws := clientKeyWrites(cl)

	var b strings.Builder
	b.WriteString("(* GENERATED by harness/translators/hashfields from chaincore/block/entity.go (Block.getHashData),\n")
	b.WriteString("   chaincore/transaction/entity.go (Transaction.HashData), chaincore/client/entity.go and\n")
	b.WriteString("   core/encryption/signature_scheme.go (client id derivation). Do not edit. *)\n")
	b.WriteString("From Coq Require Import List String.\nFrom ZC Require Import Model.HashEnc.\nImport ListNotations.\nOpen Scope string_scope.\n\n")
	b.WriteString("(* fields written by Block.getHashData, in order, separated by \":\"; Block.ComputeHash = Hash of that string *)\n")
	b.WriteString(table("hf_block", bt))
	b.WriteString("\n(* fields written by Transaction.HashData; Transaction.ComputeHash = Hash of that string *)\n")
	b.WriteString(table("hf_txn", tt))
	b.WriteString("\n(* every place that derives or checks a client id from a public key *)\n")
	b.WriteString("Definition hf_client_id : list he_idrule := [\n")
	for i, r := range ids {
		fmt.Fprintf(&b, "  {| idr_fn := %s; idr_arg := %s; idr_form := %s |}", coqStr(r.fn), coqStr(r.arg), r.form)
		if i+1 < len(ids) {
			b.WriteString(";")
		}
		b.WriteString("\n")
	}
	b.WriteString("].\n")
	b.WriteString("\n(* every assignment to the key / id fields of a Client outside computePublicKeyBytes *)\n")
	b.WriteString("Definition hf_client_key_writes : list he_pkrule := [\n")
	for i, w := range kws {
		fmt.Fprintf(&b, "  {| pkw_fn := %s; pkw_field := %s; pkw_rhs := %s; pkw_kind := %s |}", coqStr(w.fn), coqStr(w.field), coqStr(w.rhs), w.kind)
		if i+1 < len(kws) {
			b.WriteString(";")
		}
		b.WriteString("\n")
	}
	b.WriteString("].\n")
	text := b.String()

	// self-check: the emitted tables must contain exactly the entries computed above
	if n := strings.Count(text, "{| he_path :="); n != len(bt)+len(tt) {
		die("self-check failed: %d entries emitted, %d computed", n, len(bt)+len(tt))
	}
	if old, err := os.ReadFile(out); err == nil && string(old) == text {
		fmt.Printf("hashfields: %s unchanged (%d block fields, %d transaction fields, %d id rules)\n", out, len(bt), len(tt), len(ids))
		return
	}
	if err := os.MkdirAll(filepath.Dir(out), 0o755); err != nil {
		die("%v", err)
	}
	if err := os.WriteFile(out, []byte(text), 0o644); err != nil {
		die("%v", err)
	}
	fmt.Printf("hashfields: wrote %s (%d block fields, %d transaction fields, %d id rules)\n", out, len(bt), len(tt), len(ids))
}
