(* Correspondence for C27: a history of blocks finalized by the real chain.finalizeBlock on a
   RocksDB node DB and of chain.pruneClientState calls; per block the recorded
   AddChange/DeleteChange calls, the saved nodes, the nodes recorded dead and the node set of
   the state; per prune, for every finalized block whether its full state could be iterated. *)
From ZC Require Import Base.Corr Model.Prune.
Open Scope Z_scope.

Inductive prc_step :=
| PsBlock (r : Z) (micros : list pr_micro) (adds dels nodes : list pr_hash)
| PsSynced (r : Z) (adds dels nodes : list pr_hash)   (* state obtained by ApplyBlockStateChange: no collector calls *)
| PsPrune (readable : list bool) (ver : option Z)   (* one flag per block of the finalized chain, oldest first; the version passed to PruneBelowVersion *)
| PsRollback (r0 : Z).

Record prc_case := { prc_start : Z; prc_count : Z; prc_steps : list prc_step }.

Definition prc_seteq (a b : list pr_hash) : bool := pr_subset a b && pr_subset b a.

Fixpoint prc_go (count : Z) (s : pr_state) (steps : list prc_step) : bool :=
  match steps with
  | [] => true
  | PsBlock r micros adds dels nodes :: tl =>
      let prev := pr_prev_nodes s in
      let c := cc_run micros in
      (* the collector model against the real collector *)
      prc_seteq (map fst (cc_changes c)) adds && prc_seteq (cc_deletes c) dels &&
      (* the calls are meaningful for the live set, which ends as the state's node set *)
      pr_micros_ok prev micros && prc_seteq (pr_live_run prev micros) nodes &&
      (* the hypotheses of the safety theorem *)
      (ps_lfb s <? r) && forallb (fun rd => (fst rd <=? ps_lfb s) || (r <=? fst rd)) (ps_dead s) &&
      forallb (fun h => Z.eqb (fst h) r) adds &&
      forallb (fun h => pr_mem h prev || pr_mem h adds) nodes &&
      pr_disjoint dels nodes && forallb (fun h => fst h <=? r) dels &&
      prc_go count (pr_finalize s r adds dels nodes) tl
  | PsSynced r adds dels nodes :: tl =>
      let prev := pr_prev_nodes s in
      (ps_lfb s <? r) && forallb (fun rd => (fst rd <=? ps_lfb s) || (r <=? fst rd)) (ps_dead s) &&
      forallb (fun h => Z.eqb (fst h) r) adds &&
      forallb (fun h => pr_mem h prev || pr_mem h adds) nodes &&
      pr_disjoint dels nodes && forallb (fun h => fst h <=? r) dels &&
      prc_go count (pr_finalize s r adds dels nodes) tl
  | PsPrune readable ver :: tl =>
      let s' := pr_prune s count in
      option_eqb Z.eqb (pr_version s count) ver &&
      list_eqb Bool.eqb (map (pr_readable s') (rev (ps_blocks s'))) readable &&
      prc_go count s' tl
  | PsRollback r0 :: tl =>
      pr_op_ok s (OpRollback r0) && prc_go count (pr_rollback s r0) tl
  end.

Definition prc_check (c : prc_case) : bool :=
  prc_go (prc_count c) (pr_init (prc_start c - 1)) (prc_steps c).
