(* C20: The query database records every finalized bridge and pool event.
   Only statements; each is closed by [exact] of a lemma in Proof/EventMerge.v. The merger table is
   Gen/EventMergers.v (regenerated from smartcontract/dbs/event on every run). *)
From ZC Require Import Model.EventMerge Proof.EventMerge.
Open Scope Z_scope.

(* additive tags (withEventMerge): merging the events of a block keeps the total amount *)
Theorem C20_additive_tags_preserve_sum :
  forall es, Forall em_single es -> em_all_sum (em_merge es) = em_all_sum es.
Proof. exact em_merge_sum. Qed.
Print Assumptions C20_additive_tags_preserve_sum.

(* tags without middleware keep every event *)
Theorem C20_keep_tags_keep_all : forall es, em_apply EmKeep es = es.
Proof. exact em_keep_all. Qed.
Print Assumptions C20_keep_tags_keep_all.

(* the three bridge tags (burn ticket, authorizer burn, bridge mint) are merged without middleware: nothing
   is overwritten or folded *)
Theorem C20_bridge_tags_keep_every_event :
  map (em_kind_of gen_event_mergers) em_bridge_tags = [Some EmKeep; Some EmKeep; Some EmKeep] /\ em_bridge_rows_keep = true.
Proof. exact em_bridge_tags_keep. Qed.
Print Assumptions C20_bridge_tags_keep_every_event.

(* merging never drops an event of a bridge tag (append-only rows / additive totals): the merged event carries
   one item per event of the block, also when several events share an Ethereum address or a client *)
Theorem C20_no_append_only_event_dropped :
  forall tag events, In tag em_bridge_tags ->
    Forall (fun e => ev_type e = EtStats /\ exists i, ev_data e = [i]) events ->
    forall items, In (tag, items) (fst (em_merge_events gen_event_mergers events)) ->
    List.length items = List.length (filter (em_taken tag) events).
Proof. exact em_no_bridge_event_dropped. Qed.
Print Assumptions C20_no_append_only_event_dropped.

(* the idempotent-upsert tags still use the overwrite middleware; with pairwise distinct indices it keeps every event *)
Theorem C20_overwrite_keeps_distinct_indices :
  forall es, NoDup (map ev_index es) -> List.length (em_overwrite es) = List.length es.
Proof. exact em_overwrite_nodup_keeps_count. Qed.
Print Assumptions C20_overwrite_keeps_distinct_indices.

(* the handler turns every ticket of the merged event into a row *)
Theorem C20_every_burn_ticket_stored : forall merged, em_burn_tickets_stored merged = merged.
Proof. exact em_all_tickets_stored. Qed.
Print Assumptions C20_every_burn_ticket_stored.

(* Non-vacuity: one block with three burns (two to one Ethereum address, two by one client) through the
   generated table: three tickets, three authorizer burns (client 7 totals 12), three rows *)
Example C20_example :
  fst (em_merge_events gen_event_mergers ew_block) =
    [("TagAddBurnTicket", [(101, 5); (102, 7); (103, 9)]); ("TagAuthorizerBurn", [(7, 5); (7, 7); (8, 9)])] /\
  List.length (snd (em_merge_events gen_event_mergers ew_block)) = 1%nat /\
  em_burn_tickets_stored [(101, 5); (102, 7); (103, 9)] = [(101, 5); (102, 7); (103, 9)] /\
  em_total 7 [(7, 5); (7, 7); (8, 9)] = 12.
Proof. exact ew_merge_result. Qed.

Example C20_example_additive :
  fst (em_merge_events gen_event_mergers [ew_lock 7 5; ew_lock 8 9; ew_lock 7 7]) = [("TagLockStakePool", [(7, 12); (8, 9)])].
Proof. exact ew_additive_example. Qed.

Example C20_example_overwrite :
  map ev_data (em_overwrite [ew_lock 7 5; ew_lock 8 9; ew_lock 7 7]) = [[(7, 7)]; [(8, 9)]].
Proof. exact ew_overwrite_example. Qed.
