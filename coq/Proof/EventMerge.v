(* Lemmas about the event merge model (property C20). *)
From ZC Require Import Model.EventMerge.
Open Scope Z_scope.

Definition em_all_sum (es : list em_event) : Z := em_sum (flat_map ev_data es).
Definition em_single (e : em_event) : Prop := exists i, ev_data e = [i].

Lemma em_sum_app : forall a b, em_sum (a ++ b) = em_sum a + em_sum b.
Proof.
  induction a as [|x tl IH]; intro b; [reflexivity|].
  change (em_sum ((x :: tl) ++ b)) with (snd x + em_sum (tl ++ b)). change (em_sum (x :: tl)) with (snd x + em_sum tl).
  rewrite IH. lia.
Qed.

(* ---------- Keep ---------- *)
Lemma em_keep_all : forall es, em_apply EmKeep es = es.
Proof. reflexivity. Qed.

(* ---------- Merge: the total amount survives ---------- *)

(* total of the single-datum events with index idx *)
Fixpoint em_idx_sum (idx : Z) (es : list em_event) : Z :=
  match es with
  | [] => 0
  | e :: tl => (if Z.eqb (ev_index e) idx then em_sum (ev_data e) else 0) + em_idx_sum idx tl
  end.

Lemma em_add_items_single : forall a b, (exists i, a = [i]) -> (exists j, b = [j]) ->
  (exists k, em_add_items a b = [k]) /\ em_sum (em_add_items a b) = em_sum a + em_sum b.
Proof.
  intros a b [[ka xa] Ha] [[kb xb] Hb]. subst. cbn. split; [eexists; reflexivity|lia].
Qed.

Lemma em_fold_index_sum : forall idx es acc,
  Forall em_single es -> (forall a, acc = Some a -> em_single a) ->
  match em_fold_index idx es acc with
  | Some r => em_single r /\ em_sum (ev_data r) = (match acc with Some a => em_sum (ev_data a) | None => 0 end) + em_idx_sum idx es
  | None => acc = None /\ em_idx_sum idx es = 0
  end.
Proof.
  intros idx es. induction es as [|e tl IH]; intros acc F A.
  - cbn. destruct acc as [a|]; [split; [apply A; reflexivity|lia] | split; reflexivity].
  - inversion F as [|x l Fe Ft]; subst. cbn [em_fold_index em_idx_sum].
    destruct (Z.eqb (ev_index e) idx).
    + destruct acc as [a|].
      * destruct (em_add_items_single (ev_data a) (ev_data e) (A a eq_refl) Fe) as [S1 S2].
        specialize (IH (Some {| ev_type := ev_type a; ev_tag := ev_tag a; ev_index := ev_index a;
                                ev_data := em_add_items (ev_data a) (ev_data e) |}) Ft).
        cbn [ev_data] in IH.
        assert (P : forall a0, Some {| ev_type := ev_type a; ev_tag := ev_tag a; ev_index := ev_index a;
                                       ev_data := em_add_items (ev_data a) (ev_data e) |} = Some a0 -> em_single a0).
        { intros a0 E. inversion E; subst. exact S1. }
        specialize (IH P). destruct (em_fold_index idx tl _) as [r|].
        -- destruct IH as [I1 I2]. split; [exact I1|]. rewrite I2, S2. lia.
        -- destruct IH as [I1 _]. discriminate.
      * specialize (IH (Some e) Ft). assert (P : forall a0, Some e = Some a0 -> em_single a0) by (intros a0 E; inversion E; subst; exact Fe).
        specialize (IH P). destruct (em_fold_index idx tl (Some e)) as [r|].
        -- destruct IH as [I1 I2]. split; [exact I1|]. rewrite I2. lia.
        -- destruct IH as [I1 _]. discriminate.
    + specialize (IH acc Ft A). destruct (em_fold_index idx tl acc) as [r|].
      * destruct IH as [I1 I2]. split; [exact I1|]. rewrite I2. lia.
      * destruct IH as [I1 I2]. split; [exact I1|]. rewrite I2. lia.
Qed.

(* sum over the distinct indices of the per-index sums = total sum *)
Lemma em_mem_in : forall x l, existsb (Z.eqb x) l = true <-> In x l.
Proof.
  intros x l. rewrite existsb_exists. split.
  - intros [y [I E]]. apply Z.eqb_eq in E. subst. exact I.
  - intro I. exists x. split; [exact I|apply Z.eqb_refl].
Qed.

Lemma em_indices_spec : forall es seen,
  NoDup (em_indices es seen) /\ (forall i, In i (em_indices es seen) -> ~ In i seen) /\ (forall e, In e es -> In (ev_index e) seen \/ In (ev_index e) (em_indices es seen)).
Proof.
  induction es as [|e tl IH]; intro seen.
  - cbn. repeat split; [constructor | intros i [] | intros e []].
  - cbn [em_indices]. destruct (existsb (Z.eqb (ev_index e)) seen) eqn:S.
    + destruct (IH seen) as [N [D C]]. repeat split; [exact N|exact D|].
      intros x [X|X]; [subst; left; apply em_mem_in; exact S | apply C; exact X].
    + destruct (IH (ev_index e :: seen)) as [N [D C]]. repeat split.
      * constructor; [|exact N]. intro I. apply (D _ I). left. reflexivity.
      * intros i [I|I].
        -- subst. intro J. apply em_mem_in in J. rewrite J in S. discriminate.
        -- intro J. apply (D _ I). right. exact J.
      * intros x [X|X]; [subst; right; left; reflexivity|].
        destruct (C x X) as [[Y|Y]|Y]; [right; left; exact Y | left; exact Y | right; right; exact Y].
Qed.

Lemma em_pick_once : forall (c idx : Z) l, NoDup l -> In idx l ->
  fold_right (fun i s => (if Z.eqb idx i then c else 0) + s) 0 l = c.
Proof.
  induction l as [|i l IH]; intros N I; [destruct I|]. inversion N as [|x y Hn N']; subst. cbn [fold_right].
  destruct I as [I|I].
  - subst. rewrite Z.eqb_refl.
    assert (Z0 : fold_right (fun i s => (if Z.eqb idx i then c else 0) + s) 0 l = 0).
    { clear -Hn. induction l as [|j l IHl]; [reflexivity|]. cbn [fold_right].
      destruct (Z.eqb_spec idx j) as [E|_]; [exfalso; apply Hn; left; symmetry; exact E|].
      rewrite IHl; [reflexivity|]. intro X. apply Hn. right. exact X. }
    lia.
  - destruct (Z.eqb_spec idx i) as [E|_]; [subst; contradiction|]. rewrite (IH N' I). reflexivity.
Qed.

Lemma em_cover_sum : forall es l, NoDup l -> (forall e, In e es -> In (ev_index e) l) ->
  fold_right (fun i s => em_idx_sum i es + s) 0 l = em_all_sum es.
Proof.
  induction es as [|e tl IH]; intros l N C.
  - unfold em_all_sum. cbn. induction l as [|i l IHl]; [reflexivity|]. cbn [fold_right em_idx_sum].
    inversion N; subst. rewrite IHl; [reflexivity|assumption|intros x []].
  - assert (S : forall l0, fold_right (fun i s => em_idx_sum i (e :: tl) + s) 0 l0 =
                fold_right (fun i s => (if Z.eqb (ev_index e) i then em_sum (ev_data e) else 0) + s) 0 l0 +
                fold_right (fun i s => em_idx_sum i tl + s) 0 l0).
    { induction l0 as [|i l0 IHl]; [reflexivity|]. cbn [fold_right]. rewrite IHl.
      change (em_idx_sum i (e :: tl)) with ((if Z.eqb (ev_index e) i then em_sum (ev_data e) else 0) + em_idx_sum i tl). lia. }
    rewrite S, (em_pick_once _ _ l N (C e (or_introl eq_refl))), (IH l N).
    + unfold em_all_sum. cbn [flat_map]. rewrite em_sum_app. reflexivity.
    + intros x X. apply C. right. exact X.
Qed.

Lemma em_merge_sum : forall es, Forall em_single es -> em_all_sum (em_merge es) = em_all_sum es.
Proof.
  intros es F. unfold em_merge.
  assert (H : forall l, em_all_sum (flat_map (fun i => match em_fold_index i es None with Some e => [e] | None => [] end) l)
                        = fold_right (fun i s => em_idx_sum i es + s) 0 l).
  { induction l as [|i l IH]; [reflexivity|]. cbn [flat_map fold_right]. unfold em_all_sum in *. rewrite flat_map_app, em_sum_app, IH.
    pose proof (em_fold_index_sum i es None F) as P.
    assert (Q : forall a, None = Some a -> em_single a) by (intros a E; discriminate). specialize (P Q).
    destruct (em_fold_index i es None) as [r|].
    - destruct P as [_ P2]. cbn [flat_map]. rewrite app_nil_r, P2. lia.
    - destruct P as [_ P2]. cbn. rewrite P2. lia. }
  rewrite H. destruct (em_indices_spec es []) as [N [_ C]]. apply em_cover_sum; [exact N|].
  intros e I. destruct (C e I) as [[]|X]. exact X.
Qed.

(* ---------- Overwrite ---------- *)

Lemma em_overwrite_length : forall es, List.length (em_overwrite es) = List.length (em_indices es []).
Proof. intro es. unfold em_overwrite. destruct es; [reflexivity|]. apply map_length. Qed.

Lemma em_indices_nodup_length : forall es seen,
  NoDup (map ev_index es) -> (forall e, In e es -> existsb (Z.eqb (ev_index e)) seen = false) ->
  List.length (em_indices es seen) = List.length es.
Proof.
  induction es as [|e tl IH]; intros seen ND D; [reflexivity|].
  cbn [em_indices]. rewrite (D e (or_introl eq_refl)). cbn [List.length]. f_equal.
  cbn [map] in ND. inversion ND as [|x l Hn ND']; subst.
  apply IH; [exact ND'|]. intros x I. cbn [existsb]. rewrite (D x (or_intror I)).
  destruct (Z.eqb_spec (ev_index x) (ev_index e)) as [E|]; [|reflexivity].
  exfalso. apply Hn. rewrite <- E. apply in_map. exact I.
Qed.

(* with pairwise distinct indices nothing is overwritten *)
Lemma em_overwrite_nodup_keeps_count : forall es, NoDup (map ev_index es) ->
  List.length (em_overwrite es) = List.length es.
Proof.
  intros es ND. rewrite em_overwrite_length. apply em_indices_nodup_length; [exact ND|]. intros; reflexivity.
Qed.

(* ---------- the bridge tags in the generated table ---------- *)

Fixpoint em_kind_of (tbl : list (string * em_kind)) (tag : string) : option em_kind :=
  match tbl with
  | [] => None
  | (t, k) :: tl => if String.eqb t tag then Some k else em_kind_of tl tag
  end.

(* in the generated table every merger of a bridge tag has no middleware *)
Definition em_bridge_rows_keep : bool :=
  forallb (fun m => if existsb (String.eqb (fst m)) em_bridge_tags
                    then match snd m with EmKeep => true | _ => false end else true) gen_event_mergers.

Lemma em_bridge_tags_keep :
  map (em_kind_of gen_event_mergers) em_bridge_tags = [Some EmKeep; Some EmKeep; Some EmKeep] /\ em_bridge_rows_keep = true.
Proof. vm_compute. split; reflexivity. Qed.

Lemma em_single_length : forall es, Forall em_single es -> List.length (flat_map ev_data es) = List.length es.
Proof.
  induction es as [|e tl IH]; intro F; [reflexivity|]. inversion F as [|x l [i E] Ft]; subst.
  cbn [flat_map]. rewrite E. cbn. f_equal. apply IH. exact Ft.
Qed.

Lemma em_merged_in : forall tbl events tag items,
  In (tag, items) (flat_map (em_merged_of events) tbl) ->
  exists k, In (tag, k) tbl /\ items = flat_map ev_data (em_apply k (filter (em_taken tag) events)).
Proof.
  induction tbl as [|[t k] tl IH]; intros events tag items I; [destruct I|].
  cbn [flat_map] in I. apply in_app_or in I as [I|I].
  - unfold em_merged_of in I. cbn [fst snd] in I.
    destruct (filter (em_taken t) events) as [|e es] eqn:F; [destruct I|].
    destruct I as [I|[]]. inversion I; subst. exists k. split; [left; reflexivity|]. rewrite F. reflexivity.
  - destruct (IH _ _ _ I) as [k' [J E]]. exists k'. split; [right; exact J|exact E].
Qed.

(* no event of a bridge tag is dropped by the merge *)
Lemma em_no_bridge_event_dropped : forall tag events, In tag em_bridge_tags ->
  Forall (fun e => ev_type e = EtStats /\ exists i, ev_data e = [i]) events ->
  forall items, In (tag, items) (fst (em_merge_events gen_event_mergers events)) ->
  List.length items = List.length (filter (em_taken tag) events).
Proof.
  intros tag events B F items I. unfold em_merge_events in I. cbn [fst] in I.
  destruct (em_merged_in _ _ _ _ I) as [k [J E]].
  assert (K : k = EmKeep).
  { destruct em_bridge_tags_keep as [_ R]. unfold em_bridge_rows_keep in R. rewrite forallb_forall in R.
    specialize (R _ J). cbn [fst snd] in R.
    assert (X : existsb (String.eqb tag) em_bridge_tags = true).
    { apply existsb_exists. exists tag. split; [exact B|apply String.eqb_refl]. }
    rewrite X in R. destruct k; try discriminate. reflexivity. }
  subst k. rewrite E. cbn [em_apply]. apply em_single_length.
  apply Forall_forall. intros e Ie. apply filter_In in Ie as [Ie _].
  rewrite Forall_forall in F. destruct (F e Ie) as [_ S]. exact S.
Qed.

Lemma em_all_tickets_stored : forall merged, em_burn_tickets_stored merged = merged.
Proof. reflexivity. Qed.

(* ---------- examples ---------- *)

Definition ew_burn (idx hash amount : Z) : em_event :=
  {| ev_type := EtStats; ev_tag := "TagAddBurnTicket"; ev_index := idx; ev_data := [(hash, amount)] |}.
Definition ew_aburn (client amount : Z) : em_event :=
  {| ev_type := EtStats; ev_tag := "TagAuthorizerBurn"; ev_index := client; ev_data := [(client, amount)] |}.

(* one block: two burns to Ethereum address 1, one to address 2, two by client 7 and one by client 8 *)
Definition ew_block : list em_event :=
  [ew_burn 1 101 5; ew_aburn 7 5; ew_burn 1 102 7; ew_aburn 7 7; ew_burn 2 103 9; ew_aburn 8 9;
   {| ev_type := EtChain; ev_tag := "TagFinalizeBlock"; ev_index := 0; ev_data := [] |}].

Lemma ew_merge_result :
  fst (em_merge_events gen_event_mergers ew_block) =
    [("TagAddBurnTicket", [(101, 5); (102, 7); (103, 9)]); ("TagAuthorizerBurn", [(7, 5); (7, 7); (8, 9)])] /\
  List.length (snd (em_merge_events gen_event_mergers ew_block)) = 1%nat /\
  em_burn_tickets_stored [(101, 5); (102, 7); (103, 9)] = [(101, 5); (102, 7); (103, 9)] /\
  em_total 7 [(7, 5); (7, 7); (8, 9)] = 12.
Proof. vm_compute. repeat split. Qed.

(* an additive tag on the same block shape: both locks of client 7 count *)
Definition ew_lock (client amount : Z) : em_event :=
  {| ev_type := EtStats; ev_tag := "TagLockStakePool"; ev_index := client; ev_data := [(client, amount)] |}.
Lemma ew_additive_example :
  fst (em_merge_events gen_event_mergers [ew_lock 7 5; ew_lock 8 9; ew_lock 7 7]) = [("TagLockStakePool", [(7, 12); (8, 9)])].
Proof. vm_compute. reflexivity. Qed.

(* the overwrite middleware (still used for idempotent upserts such as TagAddOrOverwriteUser) keeps the last event per index *)
Lemma ew_overwrite_example :
  map ev_data (em_overwrite [ew_lock 7 5; ew_lock 8 9; ew_lock 7 7]) = [[(7, 7)]; [(8, 9)]].
Proof. vm_compute. reflexivity. Qed.

(* ---------- field-wise additive merge: every field, every subkey, every index keeps its total ---------- *)

Lemma emf_map_add1_total : forall k a k' v,
  emf_total k (emf_map_add1 a k' v) = emf_total k a + (if Z.eqb k' k then v else 0).
Proof.
  intros k a k' v. induction a as [|[k0 x] tl IH].
  - cbn. lia.
  - cbn [emf_map_add1]. destruct (Z.eqb_spec k0 k') as [E|N].
    + subst k0. cbn [emf_total]. destruct (Z.eqb k' k); lia.
    + cbn [emf_total]. rewrite IH. lia.
Qed.

Lemma emf_map_add_total : forall k b a, emf_total k (emf_map_add a b) = emf_total k a + emf_total k b.
Proof.
  intros k b. unfold emf_map_add. induction b as [|[k' v] tl IH]; intro a.
  - cbn. lia.
  - cbn [fold_left fst snd]. rewrite IH, emf_map_add1_total. cbn [emf_total]. lia.
Qed.

(* the merge function adds field by field, whatever is zero or empty in either event *)
Lemma emf_add_total : forall f k a b, List.length a = List.length b ->
  emf_total k (emf_field f (emf_add a b)) = emf_total k (emf_field f a) + emf_total k (emf_field f b).
Proof.
  unfold emf_field. intros f k a. revert f. induction a as [|fa ta IH]; intros f b L.
  - destruct b; [|discriminate]. destruct f; cbn; lia.
  - destruct b as [|fb tb]; [discriminate|]. cbn [emf_add]. destruct f as [|f].
    + cbn [nth]. apply emf_map_add_total.
    + cbn [nth]. apply IH. cbn in L. lia.
Qed.

Lemma emf_add_length : forall a b, List.length (emf_add a b) = List.length a.
Proof.
  induction a as [|fa ta IH]; intro b; [reflexivity|]. destruct b; [reflexivity|]. cbn. f_equal. apply IH.
Qed.

Definition emf_shaped (n : nat) (e : emf_event) : Prop := List.length (fe_fields e) = n.

Lemma emf_fold_total : forall n f k idx es acc,
  Forall (emf_shaped n) es -> (forall a, acc = Some a -> emf_shaped n a /\ fe_index a = idx) ->
  match emf_fold idx es acc with
  | Some r => emf_shaped n r /\ fe_index r = idx /\
              emf_total k (emf_field f (fe_fields r)) =
                (match acc with Some a => emf_total k (emf_field f (fe_fields a)) | None => 0 end) + emf_idx_total f k idx es
  | None => acc = None /\ emf_idx_total f k idx es = 0
  end.
Proof.
  intros n f k idx es. induction es as [|e tl IH]; intros acc F A.
  - cbn. destruct acc as [a|]; [destruct (A a eq_refl) as [A1 A2]; repeat split; [exact A1|exact A2|lia] | split; reflexivity].
  - inversion F as [|x l Fe Ft]; subst. cbn [emf_fold emf_idx_total].
    destruct (Z.eqb_spec (fe_index e) idx) as [E|N].
    + destruct acc as [a|].
      * destruct (A a eq_refl) as [A1 A2].
        set (m := {| fe_index := fe_index a; fe_fields := emf_add (fe_fields a) (fe_fields e) |}).
        assert (P : forall a0, Some m = Some a0 -> emf_shaped n a0 /\ fe_index a0 = idx).
        { intros a0 X. inversion X; subst a0. split; [|exact A2]. unfold emf_shaped, m. cbn [fe_fields]. rewrite emf_add_length. exact A1. }
        specialize (IH (Some m) Ft P). destruct (emf_fold idx tl (Some m)) as [r|].
        -- destruct IH as [I1 [I2 I3]]. repeat split; [exact I1|exact I2|]. rewrite I3. unfold m. cbn [fe_fields].
           rewrite emf_add_total; [lia|]. unfold emf_shaped in A1, Fe. lia.
        -- destruct IH as [I1 _]. discriminate.
      * assert (P : forall a0, Some e = Some a0 -> emf_shaped n a0 /\ fe_index a0 = idx).
        { intros a0 X. inversion X; subst a0. split; [exact Fe|exact E]. }
        specialize (IH (Some e) Ft P). destruct (emf_fold idx tl (Some e)) as [r|].
        -- destruct IH as [I1 [I2 I3]]. repeat split; [exact I1|exact I2|]. rewrite I3. lia.
        -- destruct IH as [I1 _]. discriminate.
    + specialize (IH acc Ft A). destruct (emf_fold idx tl acc) as [r|].
      * destruct IH as [I1 [I2 I3]]. repeat split; [exact I1|exact I2|]. rewrite I3. lia.
      * destruct IH as [I1 I2]. split; [exact I1|]. rewrite I2. lia.
Qed.

Lemma emf_indices_spec : forall es seen,
  NoDup (emf_indices es seen) /\ (forall i, In i (emf_indices es seen) -> ~ In i seen) /\
  (forall e, In e es -> In (fe_index e) seen \/ In (fe_index e) (emf_indices es seen)).
Proof.
  induction es as [|e tl IH]; intro seen.
  - cbn. repeat split; [constructor | intros i [] | intros e []].
  - cbn [emf_indices]. destruct (existsb (Z.eqb (fe_index e)) seen) eqn:S.
    + destruct (IH seen) as [N [D C]]. repeat split; [exact N|exact D|].
      intros x [X|X]; [subst; left; apply em_mem_in; exact S | apply C; exact X].
    + destruct (IH (fe_index e :: seen)) as [N [D C]]. repeat split.
      * constructor; [|exact N]. intro I. apply (D _ I). left. reflexivity.
      * intros i [I|I].
        -- subst. intro J. apply em_mem_in in J. rewrite J in S. discriminate.
        -- intro J. apply (D _ I). right. exact J.
      * intros x [X|X]; [subst; right; left; reflexivity|].
        destruct (C x X) as [[Y|Y]|Y]; [right; left; exact Y | left; exact Y | right; right; exact Y].
Qed.

Lemma emf_idx_total_absent : forall f k idx es, (forall e, In e es -> fe_index e <> idx) -> emf_idx_total f k idx es = 0.
Proof.
  induction es as [|e tl IH]; intro A; [reflexivity|]. cbn [emf_idx_total].
  destruct (Z.eqb_spec (fe_index e) idx) as [E|_]; [exfalso; exact (A e (or_introl eq_refl) E)|].
  rewrite IH; [reflexivity|]. intros x X. apply A. right. exact X.
Qed.

(* the merged events carry, per index, per field and per subkey, exactly the total of the events of the block *)
Lemma emf_merge_total : forall n f k idx es, Forall (emf_shaped n) es ->
  emf_idx_total f k idx (emf_merge es) = emf_idx_total f k idx es.
Proof.
  intros n f k idx es F. unfold emf_merge.
  assert (H : forall l, emf_idx_total f k idx (flat_map (fun i => match emf_fold i es None with Some e => [e] | None => [] end) l)
                        = fold_right (fun i s => (if Z.eqb idx i then emf_idx_total f k idx es else 0) + s) 0 l).
  { induction l as [|i l IH]; [reflexivity|]. cbn [flat_map fold_right].
    assert (App : forall a b, emf_idx_total f k idx (a ++ b) = emf_idx_total f k idx a + emf_idx_total f k idx b).
    { induction a as [|x a IHa]; intro b; [reflexivity|]. cbn [app emf_idx_total]. rewrite IHa. lia. }
    rewrite App, IH.
    pose proof (emf_fold_total n f k i es None F) as P.
    assert (Q : forall a, None = Some a -> emf_shaped n a /\ fe_index a = i) by (intros a E; discriminate). specialize (P Q).
    destruct (emf_fold i es None) as [r|].
    - destruct P as [_ [P2 P3]]. cbn [emf_idx_total]. rewrite P2.
      destruct (Z.eqb_spec idx i) as [E|N].
      + rewrite <- E, Z.eqb_refl, P3, <- E. lia.
      + destruct (Z.eqb_spec i idx) as [E|_]; [exfalso; apply N; symmetry; exact E|]. lia.
    - destruct P as [_ P2]. cbn [emf_idx_total].
      destruct (Z.eqb_spec idx i) as [E|N]; [rewrite E, P2|]; lia. }
  rewrite H. destruct (emf_indices_spec es []) as [N [_ C]].
  destruct (in_dec Z.eq_dec idx (emf_indices es [])) as [I|NI].
  - apply em_pick_once; assumption.
  - assert (Z0 : emf_idx_total f k idx es = 0).
    { apply emf_idx_total_absent. intros e Ie E. destruct (C e Ie) as [[]|X]. apply NI. rewrite <- E. exact X. }
    rewrite Z0. clear. induction (emf_indices es []) as [|i l IH]; [reflexivity|]. cbn [fold_right]. rewrite IH. destruct (Z.eqb idx i); reflexivity.
Qed.

(* the generated table: every tag of the spec is merged by exactly the listed additions, and every
   withEventMerge merger is in the spec or replaces by key *)
Lemma em_spec_table : em_spec_holds gen_event_mergers gen_merge_fns = true /\ em_merge_tags_covered gen_event_mergers = true.
Proof. vm_compute. split; reflexivity. Qed.

Lemma em_spec_in : forall tag fields, In (tag, fields) em_additive_spec ->
  exists fs, em_fn_of gen_merge_fns tag = Some (MfAdd fs) /\ em_fields_eqb fs fields = true.
Proof.
  intros tag fields I. destruct em_spec_table as [S _]. unfold em_spec_holds in S.
  apply andb_prop in S as [S _]. rewrite forallb_forall in S.
  specialize (S _ I). cbn [fst snd] in S. apply andb_prop in S as [_ S].
  destruct (em_fn_of gen_merge_fns tag) as [[fs|]|]; try discriminate. exists fs. split; [reflexivity|exact S].
Qed.

(* stake pool reward events of one provider and reward type: the second has no provider share (service charge
   rounds to 0) but delegate rewards; a third carries only a penalty *)
Definition ew_reward (idx reward : Z) (drew dpen : emf_map) : emf_event :=
  {| fe_index := idx; fe_fields := [[(0, reward)]; drew; dpen] |}.
Definition ew_rewards : list emf_event :=
  [ew_reward 1 10 [(21, 90)] []; ew_reward 2 3 [] []; ew_reward 1 0 [(21, 5); (22, 4)] []; ew_reward 1 0 [] [(22, 1)]].

Lemma ew_reward_example :
  emf_merge ew_rewards = [ew_reward 1 10 [(21, 95); (22, 4)] [(22, 1)]; ew_reward 2 3 [] []] /\
  emf_idx_total 1 21 1 (emf_merge ew_rewards) = 95 /\ emf_idx_total 1 22 1 (emf_merge ew_rewards) = 4.
Proof. vm_compute. repeat split. Qed.

Lemma em_reward_fn :
  em_fn_of gen_merge_fns "TagStakePoolReward" = Some (MfAdd [("Reward", FScalar); ("DelegateRewards", FMap); ("DelegatePenalties", FMap)]).
Proof. vm_compute. reflexivity. Qed.
