(* C25: Partitions behave as a set under any operation sequence.
   Only statements; each is closed by [exact] of a lemma in Proof/Partitions.v.

   [pt_run (pt_init size) ops] runs any history of Add / Get / UpdateItem / Update / Remove /
   Exist / Size / ForEach / GetRandomItems / Save / commit / reload on the model of the real data
   structure (Last, cached and persisted partitions, location index, working and committed trie).
   [sp_run] runs the same history on a finite map id -> payload (current set, committed set).
   [sp_ops_ok] only says that every recorded random draw idx is r.Intn(total), i.e. idx < total. *)
From ZC Require Import Model.Partitions Model.PartitionsSpec Proof.PartitionsStep Proof.Partitions.
From Coq Require Import Sorting.Permutation.
Open Scope Z_scope.

(* Every history over every partition size >= 1 (size 1 included), with removals from any
   position, saves/commits/reloads anywhere and reuse of removed ids, answers exactly like the set:
   the result class of every call, the payload of every lookup, membership, the size, full
   iteration (a duplicate-free enumeration of the set) and sampling agree with the finite map; the
   set represented after the history and the committed set are the map's. *)
Theorem C25_refines_finite_map :
  forall size ops, (1 <= size)%nat -> sp_ops_ok ([], []) ops ->
  let st := fst (pt_run (pt_init size) ops) in
  let outs := snd (pt_run (pt_init size) ops) in
  let s := fst (sp_run ([], []) ops) in
  let souts := snd (sp_run ([], []) ops) in
  Forall2 (pt_out_match size) souts outs /\
  Permutation (pt_abs (ps_ws st)) (fst s) /\ NoDup (map fst (fst s)) /\
  Permutation (pt_abs_commit st) (snd s).
Proof. exact pt_history_refines_map. Qed.
Print Assumptions C25_refines_finite_map.

(* No call of any history ends in an internal error of the package (missing partition node,
   missing location, "item not present", empty tail ...) and the sampling loop terminates. *)
Theorem C25_no_internal_error :
  forall size ops, (1 <= size)%nat -> sp_ops_ok ([], []) ops ->
  ~ In PInternal (snd (pt_run (pt_init size) ops)) /\ ~ In PFuel (snd (pt_run (pt_init size) ops)).
Proof. exact pt_history_no_internal. Qed.
Print Assumptions C25_no_internal_error.

(* In every reachable state: ids are unique across all partitions; every partition except the
   last holds exactly [size] items; the last holds at most [size] and is empty only for the empty
   set; the reported size is exact; an id has a location l exactly when it sits in packed
   partition l. *)
Theorem C25_structure :
  forall size ops, (1 <= size)%nat -> sp_ops_ok ([], []) ops ->
  let ws := ps_ws (fst (pt_run (pt_init size) ops)) in
  NoDup (map fst (pt_abs ws)) /\
  (forall i, (i < pt_loc ws)%nat -> length (pt_eff ws i) = size) /\
  (length (pp_items (pt_last ws)) <= size)%nat /\
  ((0 < pt_loc ws)%nat -> pp_items (pt_last ws) <> []) /\
  pt_size size ws = length (pt_abs ws) /\
  (forall id l, pt_get_loc ws id = Some l <-> ((l < pt_loc ws)%nat /\ In id (map fst (pt_eff ws l)))).
Proof. exact pt_reachable_structure. Qed.
Print Assumptions C25_structure.

(* Full iteration in any reachable state lists every member exactly once and nothing else. *)
Theorem C25_foreach_no_dups :
  forall size ops, (1 <= size)%nat -> sp_ops_ok ([], []) ops ->
  let st := fst (pt_run (pt_init size) ops) in
  exists l, snd (pt_step st PForEach) = PItems l /\
            Permutation l (pt_abs (ps_ws st)) /\ NoDup (map fst l) /\
            pt_abs (ps_ws (fst (pt_step st PForEach))) = pt_abs (ps_ws st).
Proof. exact pt_reachable_foreach. Qed.
Print Assumptions C25_foreach_no_dups.

(* Sampling in any reachable non-empty state returns min(size, total) distinct members. *)
Theorem C25_random_items_distinct_members :
  forall size ops idx, (1 <= size)%nat -> sp_ops_ok ([], []) ops ->
  let st := fst (pt_run (pt_init size) ops) in
  (idx < length (pt_abs (ps_ws st)))%nat ->
  exists l, snd (pt_step st (PRandom idx)) = PItems l /\
            NoDup (map fst l) /\ (forall it, In it l -> In it (pt_abs (ps_ws st))) /\
            length l = Nat.min size (length (pt_abs (ps_ws st))) /\
            pt_abs (ps_ws (fst (pt_step st (PRandom idx)))) = pt_abs (ps_ws st).
Proof. exact pt_reachable_random. Qed.
Print Assumptions C25_random_items_distinct_members.

(* Save + commit + reload is the identity on the set; reload alone restores the committed set. *)
Theorem C25_save_reload_id :
  forall size ops, (1 <= size)%nat -> sp_ops_ok ([], []) ops ->
  let st := fst (pt_run (pt_init size) ops) in
  pt_abs (ps_ws (fst (pt_step (fst (pt_step st PCommit)) PReload))) = pt_abs (ps_ws st) /\
  pt_abs (ps_ws (fst (pt_step st PReload))) = pt_abs_commit st.
Proof. exact pt_reachable_commit_reload. Qed.
Print Assumptions C25_save_reload_id.

(* Non-vacuity: size 2; five adds (two packed partitions + tail), commit, removal from the middle
   of partition 0 (the tail moves in and Last is refilled from partition 1), a rejected duplicate,
   reload of uncommitted changes, id reuse, sampling across the wrap-around. *)
Example C25_example :
  let ops := [PAdd 1 10; PAdd 2 20; PAdd 3 30; PAdd 4 40; PAdd 5 50; PCommit; PRemove 1; PAdd 5 0;
              PSize; PForEach; PReload; PSize; PRemove 2; PRemove 5; PAdd 2 21; PRandom 3%nat; PExist 5] in
  sp_ops_ok ([], []) ops /\
  snd (pt_run (pt_init 2) ops) =
    [POk; POk; POk; POk; POk; POk; POk; PErrExists; PNat 4; PItems [(2, 20); (5, 50); (3, 30); (4, 40)];
     POk; PNat 5; POk; POk; POk; PItems [(2, 21); (1, 10)]; PBool false] /\
  pt_abs (ps_ws (fst (pt_run (pt_init 2) ops))) = [(1, 10); (4, 40); (3, 30); (2, 21)].
Proof. vm_compute. repeat split; try lia; auto. Qed.
