(* Proofs for C37 over Model/RoundSM.v. *)
From ZC Require Import Model.RoundSM.
Open Scope Z_scope.

Ltac sm_unf := unfold sm_set_phase, sm_inc_timeout, sm_check_cap, sm_finalized in *.
Ltac sm_if :=
  repeat match goal with
  | |- context [if ?c then _ else _] => destruct c eqn:?
  | H : context [if ?c then _ else _] |- _ => destruct c eqn:?
  end.

(* ------------------------------------------------------------------------------------------ *)
(* generic: invariants along a run *)
Lemma sm_run_inv : forall (fx : sm_fix) (P : sm_state -> Prop) (Q : sm_op -> Prop),
  (forall s o, P s -> Q o -> P (fst (sm_step fx s o))) ->
  forall ops s, P s -> Forall Q ops -> Forall (fun sr => P (fst sr)) (sm_run fx s ops).
Proof.
  intros fx P Q Hstep. induction ops as [|o t IH]; intros s Hs Hq; cbn; [constructor|].
  inversion Hq as [|? ? Ho Ht]; subst. destruct (sm_step fx s o) as [s1 r] eqn:E.
  assert (P s1) as Hs1 by (specialize (Hstep s o Hs Ho); now rewrite E in Hstep).
  constructor; [assumption|]. now apply IH.
Qed.

(* ------------------------------------------------------------------------------------------ *)
(* 1. phase moves forward except by ResetPhase or an accepted Restart (which needs phase < Share) *)
Lemma sm_set_phase_ge : forall s p, sm_phase s <= sm_phase (sm_set_phase s p).
Proof. intros. unfold sm_set_phase. destruct (Z.ltb_spec (sm_phase s) p); cbn; lia. Qed.

Lemma sm_phase_forward : forall fx s o,
  sm_phase (fst (sm_step fx s o)) < sm_phase s ->
  (exists p, o = SmResetPhase p) \/ (o = SmRestart /\ sm_phase s < sm_Share).
Proof.
  intros fx s o H. unfold sm_step in H.
  destruct (sm_needs_lock o && sm_held s); [cbn in H; lia|].
  destruct o; try (cbn in H; lia); try (left; eauto; fail).
  - cbn in H. pose proof (sm_set_phase_ge s p). lia.
  - right. split; [reflexivity|]. destruct (Z.leb_spec sm_Share (sm_phase s)); [cbn in H; lia|assumption].
  - sm_if; cbn in H; try lia. pose proof (sm_set_phase_ge s 0). lia.
  - cbn in H. pose proof (sm_set_phase_ge s sm_Share). lia.
  - sm_if; cbn in H; lia.
  - unfold sm_inc_timeout in H. sm_if; cbn in H; lia.
  - sm_if; cbn in H; lia.
  - sm_if; cbn in H; lia.
Qed.

(* over a whole history: between consecutive states the phase only drops at a ResetPhase or at
   an accepted Restart (before sharing) *)
Lemma sm_phase_forward_history : forall fx ops s i a b o,
  nth_error (s :: map fst (sm_run fx s ops)) i = Some a ->
  nth_error (map fst (sm_run fx s ops)) i = Some b ->
  nth_error ops i = Some o ->
  sm_phase b < sm_phase a ->
  (exists p, o = SmResetPhase p) \/ (o = SmRestart /\ sm_phase a < sm_Share).
Proof.
  intros fx. induction ops as [|o' t IH]; intros s i a b o Ha Hb Ho Hlt; [destruct i; discriminate|].
  cbn [sm_run] in Ha, Hb. destruct (sm_step fx s o') as [s1 r] eqn:E. cbn [map fst] in Ha, Hb.
  destruct i as [|i]; cbn in Ha, Hb, Ho.
  - inversion Ha; inversion Hb; inversion Ho; subst. apply (sm_phase_forward fx). now rewrite E.
  - eapply IH; eassumption.
Qed.

(* ------------------------------------------------------------------------------------------ *)
(* 2. timeout count *)
Lemma sm_scan_votes_ge : forall perm self votes c, c <= sm_scan_votes perm self votes c.
Proof.
  induction perm as [|id t IH]; intros; cbn; [lia|].
  destruct (Z.eqb id self); [apply IH|].
  destruct (sm_vote_lookup id votes); [|apply IH].
  destruct (Z.ltb_spec c z); [lia|apply IH].
Qed.

Lemma sm_wrap64_small : forall z, - 2^63 <= z < 2^63 -> sm_wrap64 z = z.
Proof. intros z H. unfold sm_wrap64. rewrite Z.mod_small; lia. Qed.

(* one step never lowers the count, outside the two triggers: an increment while the count is
   above a positive cap, and an increment at MaxInt64 *)
Lemma sm_timeout_step_partial : forall fx s o,
  - 2^63 <= sm_tcount s < 2^63 - 1 ->
  (forall prrs perm self cap, o = SmIncTimeout prrs perm self cap -> cap <= 0 \/ sm_tcount s <= cap) ->
  sm_tcount s <= sm_tcount (fst (sm_step fx s o)).
Proof.
  intros fx s o Hr Hcap. unfold sm_step.
  destruct (sm_needs_lock o && sm_held s); [cbn; lia|].
  destruct o; try solve [cbn; unfold sm_set_phase; sm_if; cbn; lia].
  - specialize (Hcap _ _ _ _ eq_refl). cbn [fst]. unfold sm_inc_timeout.
    destruct (Z.eqb prrs 0); [lia|]. cbn [sm_tcount sm_with_timeout].
    set (perm' := match sm_tperm s with [] => perm | _ => _ end).
    pose proof (sm_scan_votes_ge perm' self (sm_votes s) (sm_tcount s)) as Hge.
    set (c1 := sm_scan_votes perm' self (sm_votes s) (sm_tcount s)) in *.
    unfold sm_check_cap.
    destruct (Z.eqb_spec c1 (sm_tcount s)) as [E|E].
    + rewrite E. destruct (Z.eqb_spec (sm_tcount s) (2^63 - 1)); [lia|]. rewrite andb_false_r.
      rewrite sm_wrap64_small by lia.
      destruct (Z.ltb_spec 0 cap); destruct (Z.ltb_spec cap (sm_tcount s + 1)); cbn; lia.
    + destruct (Z.ltb_spec 0 cap); destruct (Z.ltb_spec cap c1); cbn; lia.
Qed.

Definition sm_op_cap_ok (K : Z) (o : sm_op) : Prop :=
  match o with
  | SmIncTimeout _ _ _ cap => cap = K
  | SmSetTimeout c _ => c <= K
  | _ => True
  end.

Lemma sm_timeout_capped_step : forall fx K s o, 0 < K < 2^63 - 1 -> sm_op_cap_ok K o ->
  0 <= sm_tcount s <= K ->
  sm_tcount s <= sm_tcount (fst (sm_step fx s o)) <= K.
Proof.
  intros fx K s o HK Hok Hs.
  assert (sm_tcount s <= sm_tcount (fst (sm_step fx s o))) as Hmono.
  { apply sm_timeout_step_partial; [lia|]. intros prrs perm self cap ->. cbn in Hok. right. lia. }
  split; [assumption|]. clear Hmono. unfold sm_step.
  destruct (sm_needs_lock o && sm_held s); [cbn; lia|].
  destruct o; try solve [cbn in *; unfold sm_set_phase; sm_if; cbn; lia].
  - cbn in Hok. cbn. unfold sm_check_cap. sm_if; cbn; lia.
  - cbn in Hok. subst cap. cbn [fst]. unfold sm_inc_timeout.
    destruct (Z.eqb prrs 0); [lia|]. cbn [sm_tcount sm_with_timeout].
    unfold sm_check_cap. sm_if; lia.
Qed.

Fixpoint sm_nondecreasing (prev : Z) (l : list Z) : Prop :=
  match l with
  | [] => True
  | x :: t => prev <= x /\ sm_nondecreasing x t
  end.

Definition sm_tcounts (fx : sm_fix) (s : sm_state) (ops : list sm_op) : list Z :=
  map (fun sr => sm_tcount (fst sr)) (sm_run fx s ops).

(* with a constant positive cap and SetTimeoutCount arguments within it, the count of every
   reachable state is within the cap and the sequence of counts never decreases *)
Lemma sm_timeout_monotone_capped : forall fx K number ops, 0 < K < 2^63 - 1 ->
  Forall (sm_op_cap_ok K) ops ->
  sm_nondecreasing 0 (sm_tcounts fx (sm_init number) ops) /\
  Forall (fun c => 0 <= c <= K) (sm_tcounts fx (sm_init number) ops).
Proof.
  intros fx K number ops HK Hok.
  assert (forall ops s, 0 <= sm_tcount s <= K -> Forall (sm_op_cap_ok K) ops ->
            sm_nondecreasing (sm_tcount s) (sm_tcounts fx s ops) /\
            Forall (fun c => 0 <= c <= K) (sm_tcounts fx s ops)) as G.
  { clear ops Hok. induction ops as [|o t IH]; intros s Hs Hq; cbn; [split; [exact I|constructor]|].
    inversion Hq; subst. unfold sm_tcounts. cbn [sm_run].
    destruct (sm_step fx s o) as [s1 r] eqn:E. cbn [map fst].
    pose proof (sm_timeout_capped_step fx K s o HK H1 Hs) as H. rewrite E in H. cbn [fst] in H.
    destruct (IH s1 ltac:(lia) H2) as [I1 I2]. split.
    - split; [lia|exact I1].
    - constructor; [lia|exact I2]. }
  apply (G ops (sm_init number)); [cbn; lia|assumption].
Qed.

(* the unconditional statement: counts never decrease along any history *)
Definition sm_timeout_never_decreases (fx : sm_fix) : Prop :=
  forall number ops, sm_nondecreasing 0 (sm_tcounts fx (sm_init number) ops).

Lemma sm_timeout_never_decreases_refuted : ~ sm_timeout_never_decreases sm_as_written.
Proof.
  intros H. specialize (H 5 [SmSetTimeout 3 1; SmIncTimeout 9 [] 0 1]).
  vm_compute in H. destruct H as (_ & H & _). apply H. reflexivity.
Qed.

(* with both timeout repairs (SetTimeoutCount clamps to the cap, the increment saturates) and a
   constant cap (0 = none) the counts of every history never decrease *)
Definition sm_int64 (z : Z) : Prop := - 2^63 <= z < 2^63.

Definition sm_op_cap_const (K : Z) (o : sm_op) : Prop :=
  match o with
  | SmIncTimeout _ _ _ cap => cap = K
  | SmSetTimeout c cap => cap = K /\ sm_int64 c
  | SmVote num _ => sm_int64 num
  | _ => True
  end.

Definition sm_tinv (K : Z) (s : sm_state) : Prop :=
  sm_int64 (sm_tcount s) /\ (0 < K -> sm_tcount s <= K) /\ Forall (fun kv => sm_int64 (snd kv)) (sm_votes s).

Lemma sm_vote_lookup_range : forall id votes v, Forall (fun kv => sm_int64 (snd kv)) votes ->
  sm_vote_lookup id votes = Some v -> sm_int64 v.
Proof.
  induction votes as [|[k w] t IH]; intros v Hf H; cbn in H; [discriminate|].
  inversion Hf; subst. destruct (Z.eqb k id); [inversion H; subst; assumption|auto].
Qed.

Lemma sm_scan_votes_range : forall perm self votes c, sm_int64 c ->
  Forall (fun kv => sm_int64 (snd kv)) votes -> sm_int64 (sm_scan_votes perm self votes c).
Proof.
  induction perm as [|id t IH]; intros self votes c Hc Hv; cbn; [assumption|].
  destruct (Z.eqb id self); [auto|].
  destruct (sm_vote_lookup id votes) eqn:E; [|auto].
  destruct (Z.ltb c z); [eapply sm_vote_lookup_range; eassumption|auto].
Qed.

Lemma sm_timeout_repaired_step : forall fx K s o, fx_clamp fx = true -> fx_saturate fx = true ->
  0 <= K < 2^63 -> sm_op_cap_const K o -> sm_tinv K s ->
  sm_tinv K (fst (sm_step fx s o)) /\ sm_tcount s <= sm_tcount (fst (sm_step fx s o)).
Proof.
  intros fx K s o Hc Hsat HK Hok (Hi & Hk & Hv). unfold sm_step.
  destruct (sm_needs_lock o && sm_held s);
    [cbn; unfold sm_tinv, sm_int64 in *; repeat split; auto; lia|].
  destruct o;
    try solve [cbn; unfold sm_set_phase; sm_if; cbn; unfold sm_tinv, sm_int64 in *; cbn; repeat split; auto; lia].
  - (* SetTimeoutCount *)
    cbn in Hok. destruct Hok as [-> Hc0]. cbn. rewrite Hc. unfold sm_check_cap, sm_int64 in *.
    sm_if; cbn; unfold sm_tinv, sm_int64; cbn; repeat split; auto; try lia.
  - (* IncrementTimeoutCount *)
    cbn in Hok. subst cap. cbn [fst]. unfold sm_inc_timeout.
    destruct (Z.eqb prrs 0); [unfold sm_tinv, sm_int64 in *; repeat split; auto; lia|].
    cbn [sm_tcount sm_with_timeout]. rewrite Hsat. cbn [andb].
    set (perm' := match sm_tperm s with [] => perm | _ => _ end).
    pose proof (sm_scan_votes_ge perm' self (sm_votes s) (sm_tcount s)) as Hge.
    pose proof (sm_scan_votes_range perm' self (sm_votes s) (sm_tcount s) Hi Hv) as Hrg.
    set (c1 := sm_scan_votes perm' self (sm_votes s) (sm_tcount s)) in *.
    unfold sm_tinv, sm_check_cap, sm_int64 in *. cbn [sm_tcount sm_votes sm_with_timeout].
    destruct (Z.eqb_spec c1 (sm_tcount s)) as [E|E].
    + destruct (Z.eqb_spec c1 (2^63 - 1)) as [E2|E2].
      * destruct (Z.ltb_spec 0 K); destruct (Z.ltb_spec K c1); cbn; repeat split; try constructor; lia.
      * rewrite sm_wrap64_small by lia.
        destruct (Z.ltb_spec 0 K); destruct (Z.ltb_spec K (c1 + 1)); cbn; repeat split; try constructor; lia.
    + destruct (Z.ltb_spec 0 K); destruct (Z.ltb_spec K c1); cbn; repeat split; try constructor; lia.
Qed.

Lemma sm_timeout_monotone_repaired : forall fx K number ops,
  fx_clamp fx = true -> fx_saturate fx = true -> 0 <= K < 2^63 ->
  Forall (sm_op_cap_const K) ops ->
  sm_nondecreasing 0 (sm_tcounts fx (sm_init number) ops).
Proof.
  intros fx K number ops Hc Hsat HK Hok.
  assert (forall ops s, sm_tinv K s -> Forall (sm_op_cap_const K) ops ->
            sm_nondecreasing (sm_tcount s) (sm_tcounts fx s ops)) as G.
  { clear ops Hok. induction ops as [|o t IH]; intros s Hs Hq; cbn; [exact I|].
    inversion Hq as [|? ? Ho Ht]; subst. unfold sm_tcounts. cbn [sm_run].
    destruct (sm_step fx s o) as [s1 r] eqn:E. cbn [map fst].
    destruct (sm_timeout_repaired_step fx K s o Hc Hsat HK Ho Hs) as [H1 H2].
    rewrite E in H1, H2. cbn [fst] in H1, H2. split; [assumption|]. now apply IH. }
  apply (G ops (sm_init number)); [|assumption].
  unfold sm_tinv, sm_int64. cbn. repeat split; try constructor; lia.
Qed.

(* ------------------------------------------------------------------------------------------ *)
(* 3. VRF shares *)
Definition sm_op_thr_ok (T : Z) (o : sm_op) : Prop :=
  match o with SmAddShare _ t => t <= T | _ => True end.

Definition sm_shares_inv (T : Z) (s : sm_state) : Prop :=
  NoDup (sm_shares s) /\ Z.of_nat (length (sm_shares s)) <= Z.max T 0.

Lemma sm_existsb_in : forall x l, existsb (Z.eqb x) l = true <-> In x l.
Proof.
  intros. rewrite existsb_exists. split.
  - intros (y & Hy & E). apply Z.eqb_eq in E. now subst.
  - intros H. exists x. split; [assumption|apply Z.eqb_refl].
Qed.

Lemma sm_shares_step : forall fx T s o, sm_op_thr_ok T o -> sm_shares_inv T s ->
  sm_shares_inv T (fst (sm_step fx s o)).
Proof.
  intros fx T s o Hok [Hn Hl]. unfold sm_step.
  destruct (sm_needs_lock o && sm_held s); [split; assumption|].
  destruct o; try (split; assumption); try (sm_if; split; assumption).
  - unfold sm_set_phase. sm_if; split; assumption.
  - sm_if; cbn [fst]; [split; assumption|]. unfold sm_shares_inv. cbn. split; [constructor|lia].
  - cbn in Hok.
    destruct (Z.leb_spec threshold (Z.of_nat (length (sm_shares s)))); [split; assumption|].
    destruct (existsb (Z.eqb party) (sm_shares s)) eqn:Ex; [split; assumption|].
    cbn [fst]. unfold sm_shares_inv. cbn [sm_shares sm_with_shares]. split.
    + assert (~ In party (sm_shares s)) as Hni by (rewrite <- sm_existsb_in; congruence).
      clear -Hn Hni. induction (sm_shares s) as [|x t IH]; cbn; [constructor; [tauto|constructor]|].
      inversion Hn; subst. constructor.
      * intros Hc. apply in_app_or in Hc. destruct Hc as [Hc|[Hc|[]]]; [contradiction|].
        apply Hni. now left.
      * apply IH; [assumption|]. intros Hc. apply Hni. now right.
    + rewrite app_length. cbn [length]. lia.
  - unfold sm_set_phase. sm_if; split; assumption.
  - unfold sm_inc_timeout. sm_if; split; assumption.
Qed.

(* at most threshold-many shares, at most one per miner, in every reachable state *)
Lemma sm_shares_bounded : forall fx T number ops, Forall (sm_op_thr_ok T) ops ->
  Forall (fun sr => NoDup (sm_shares (fst sr)) /\ Z.of_nat (length (sm_shares (fst sr))) <= Z.max T 0)
         (sm_run fx (sm_init number) ops).
Proof.
  intros fx T number ops Hok.
  apply (sm_run_inv fx (sm_shares_inv T) (sm_op_thr_ok T)).
  - intros s o Hs Ho. now apply sm_shares_step.
  - split; [constructor|cbn; lia].
  - assumption.
Qed.

(* an accepted AddVRFShare leaves at most [threshold] shares *)
Lemma sm_add_share_within_threshold : forall fx s party threshold,
  snd (sm_step fx s (SmAddShare party threshold)) = Ret (VBool true) ->
  Z.of_nat (length (sm_shares (fst (sm_step fx s (SmAddShare party threshold))))) <= threshold /\
  ~ In party (sm_shares s) /\ In party (sm_shares (fst (sm_step fx s (SmAddShare party threshold)))).
Proof.
  intros fx s party threshold. unfold sm_step. cbn [sm_needs_lock andb].
  destruct (sm_held s); [discriminate|].
  destruct (Z.leb_spec threshold (Z.of_nat (length (sm_shares s)))); [discriminate|].
  destruct (existsb (Z.eqb party) (sm_shares s)) eqn:Ex; [discriminate|].
  intros _. cbn. rewrite app_length. cbn. split; [lia|]. split.
  - rewrite <- sm_existsb_in. congruence.
  - apply in_or_app. right. now left.
Qed.

(* ------------------------------------------------------------------------------------------ *)
(* 4. every operation returns *)
Definition sm_all_return (fx : sm_fix) (number : Z) (ops : list sm_op) : Prop :=
  Forall (fun sr => snd sr <> Blocked) (sm_run fx (sm_init number) ops).

Definition sm_every_op_returns (fx : sm_fix) : Prop := forall number ops, sm_all_return fx number ops.

Lemma sm_every_op_returns_refuted : ~ sm_every_op_returns sm_as_written.
Proof.
  intros H. specialize (H 5 [SmAddNotarized; SmRestart; SmGetShares]).
  unfold sm_all_return in H. vm_compute in H.
  inversion H as [|? ? _ H1]; subst. inversion H1 as [|? ? _ H2]; subst.
  inversion H2 as [|? ? H3 _]; subst. now apply H3.
Qed.

Lemma sm_step_unheld : forall fx s o, sm_held s = false ->
  snd (sm_step fx s o) <> Blocked /\
  (sm_held (fst (sm_step fx s o)) = true -> fx_restart fx = false /\ snd (sm_step fx s o) = Ret VRestartRejected).
Proof.
  intros fx s o Hh. unfold sm_step. rewrite Hh. rewrite andb_false_r.
  destruct o; try solve [cbn; sm_unf; sm_if; cbn; (split; [discriminate|congruence])].
  destruct (Z.leb sm_Share (sm_phase s)); cbn.
  - split; [discriminate|]. destruct (fx_restart fx); cbn; intros; [discriminate|auto].
  - split; [discriminate|congruence].
Qed.

(* as written: every operation returns as long as no Restart was rejected *)
Lemma sm_all_return_partial : forall fx number ops,
  Forall (fun sr => snd sr <> Ret VRestartRejected) (sm_run fx (sm_init number) ops) ->
  sm_all_return fx number ops.
Proof.
  intros fx number ops. unfold sm_all_return.
  assert (forall ops s, sm_held s = false ->
            Forall (fun sr => snd sr <> Ret VRestartRejected) (sm_run fx s ops) ->
            Forall (fun sr => snd sr <> Blocked) (sm_run fx s ops)) as G.
  { clear ops. induction ops as [|o t IH]; intros s Hh Hn; cbn in *; [constructor|].
    destruct (sm_step fx s o) as [s1 r] eqn:E. inversion Hn as [|? ? Hnr Hnt]; subst.
    destruct (sm_step_unheld fx s o Hh) as [G1 G2]. rewrite E in G1, G2. cbn in G1, G2, Hnr.
    constructor; [assumption|]. apply IH; [|assumption].
    destruct (sm_held s1); [|reflexivity]. destruct (G2 eq_refl) as [_ Hr]. contradiction. }
  apply G. reflexivity.
Qed.

(* with the Unlock added on the rejected path every operation returns, always *)
Lemma sm_every_op_returns_repaired : forall fx, fx_restart fx = true -> sm_every_op_returns fx.
Proof.
  intros fx Hfx number ops. unfold sm_all_return.
  assert (forall ops s, sm_held s = false -> Forall (fun sr => snd sr <> Blocked) (sm_run fx s ops)) as G.
  { clear ops. induction ops as [|o t IH]; intros s Hh; cbn; [constructor|].
    destruct (sm_step fx s o) as [s1 r] eqn:E.
    destruct (sm_step_unheld fx s o Hh) as [G1 G2]. rewrite E in G1, G2. cbn in G1, G2.
    constructor; [assumption|]. apply IH.
    destruct (sm_held s1); [|reflexivity]. destruct (G2 eq_refl). congruence. }
  apply G. reflexivity.
Qed.

(* a rejected Restart itself returns (it is the later lock-taking operations that do not) *)
Lemma sm_rejected_restart_returns : forall fx s, sm_held s = false ->
  snd (sm_step fx s SmRestart) <> Blocked.
Proof. intros. now apply sm_step_unheld. Qed.

(* ------------------------------------------------------------------------------------------ *)
(* 5. a finalized round stays finalized, except by the unconditional ResetFinalizingState *)
Lemma sm_finalized_stays : forall fx s o, sm_finalized s = true -> o <> SmResetFin ->
  sm_finalized (fst (sm_step fx s o)) = true.
Proof.
  intros fx s o Hf Hne. unfold sm_step.
  destruct (sm_needs_lock o && sm_held s); [assumption|].
  destruct o; try contradiction;
    try solve [cbn; unfold sm_set_phase, sm_inc_timeout; sm_if; cbn; try assumption;
               unfold sm_finalized in *; cbn in *; try assumption; try reflexivity; try congruence].
  rewrite Hf. cbn. assumption.
Qed.

Lemma sm_conditional_reset_keeps_finalized : forall fx s, sm_finalized s = true ->
  fst (sm_step fx s SmResetFinIfNot) = s.
Proof.
  intros fx s Hf. unfold sm_step. cbn [sm_needs_lock andb].
  destruct (sm_held s); [reflexivity|]. now rewrite Hf.
Qed.

(* ------------------------------------------------------------------------------------------ *)
(* 6. setPhase under interleaving *)
Definition cs_phase_forward (cas : bool) : Prop :=
  forall mem args sched, cs_nondecreasing mem (cs_run cas mem (cs_threads args) sched) = true.

Lemma cs_lost_update_refuted : ~ cs_phase_forward false.
Proof.
  intros H. specialize (H 0 [3; 1] [0; 1; 0; 1]%nat). vm_compute in H. discriminate.
Qed.

Lemma cs_cas_step_ge : forall mem t, mem <= fst (cs_thread_step true mem t).
Proof.
  intros mem t. unfold cs_thread_step. destruct (cs_at t); cbn; try lia.
  destruct (Z.ltb_spec v (cs_arg t)); cbn; [|lia].
  destruct (Z.eqb_spec mem v); cbn; lia.
Qed.

Lemma cs_cas_run_forward : forall sched mem ts, cs_nondecreasing mem (cs_run true mem ts sched) = true.
Proof.
  induction sched as [|i tl IH]; intros mem ts; cbn; [reflexivity|].
  destruct (nth_error ts i) as [t|].
  - pose proof (cs_cas_step_ge mem t) as H. destruct (cs_thread_step true mem t) as [mem' t'].
    cbn in *. rewrite IH. rewrite andb_true_r. now apply Z.leb_le.
  - cbn. rewrite IH. rewrite Z.leb_refl. reflexivity.
Qed.

Lemma cs_phase_forward_cas : cs_phase_forward true.
Proof. intros mem args sched. apply cs_cas_run_forward. Qed.

(* sequentially (one thread at a time runs setPhase to completion) the code as written is fine *)
Lemma cs_sequential_forward : forall mem a,
  cs_nondecreasing mem (cs_run false mem (cs_threads [a]) [0; 0]%nat) = true.
Proof.
  intros mem a. cbn. destruct (Z.ltb_spec mem a); cbn; rewrite ?Z.leb_refl; cbn; try reflexivity.
  rewrite andb_true_r. apply Z.leb_le. lia.
Qed.

(* ------------------------------------------------------------------------------------------ *)
(* 7. the compare-and-swap loop ends: a failed swap means another thread moved the phase
   forward, which can happen only so often *)

(* how far the phase word is below the thread's argument *)
Definition cs_dist (arg mem : Z) : nat := Z.to_nat (Z.max 0 (arg - mem)).

(* steps the thread still needs at most, counted in its own turns *)
Definition cs_potential (mem : Z) (t : cs_thread) : nat :=
  match cs_at t with
  | CsDone => 0
  | CsStart => 2 * cs_dist (cs_arg t) mem + 2
  | CsLoaded v => if Z.ltb v (cs_arg t) then 2 * cs_dist (cs_arg t) v + 1 else 1
  end.

(* a loaded value is never above the phase word *)
Definition cs_wf (mem : Z) (ts : list cs_thread) : Prop :=
  forall t v, In t ts -> cs_at t = CsLoaded v -> v <= mem.

Lemma cs_update_in : forall i t ts x, In x (cs_update i t ts) -> x = t \/ In x ts.
Proof.
  induction i as [|i IH]; intros t [|y r] x H; cbn in H; try tauto.
  - destruct H; [now left|right; now right].
  - destruct H as [H|H]; [right; now left|]. destruct (IH _ _ _ H); [now left|right; now right].
Qed.

Lemma cs_update_nth_same : forall i t ts, (i < length ts)%nat -> nth_error (cs_update i t ts) i = Some t.
Proof. induction i as [|i IH]; intros t [|y r] H; cbn in *; try lia; [reflexivity|apply IH; lia]. Qed.

Lemma cs_update_nth_other : forall i j t ts, i <> j -> nth_error (cs_update i t ts) j = nth_error ts j.
Proof.
  induction i as [|i IH]; intros j t [|y r] H; cbn; try reflexivity.
  - destruct j; [congruence|reflexivity].
  - destruct j; [reflexivity|]. cbn. apply IH. congruence.
Qed.

Lemma cs_potential_mono : forall mem mem' t, mem <= mem' -> (cs_potential mem' t <= cs_potential mem t)%nat.
Proof.
  intros mem mem' t H. unfold cs_potential, cs_dist. destruct (cs_at t); try lia.
Qed.

(* the thread's own turn: the phase word does not go down, the thread stays well-formed, and
   its potential drops (unless it is done) *)
Lemma cs_own_step : forall mem t, (forall v, cs_at t = CsLoaded v -> v <= mem) ->
  let '(mem', t') := cs_thread_step true mem t in
  mem <= mem' /\ (forall v, cs_at t' = CsLoaded v -> v <= mem') /\
  (cs_at t = CsDone \/ (cs_potential mem' t' < cs_potential mem t)%nat).
Proof.
  intros mem t Hwf. unfold cs_thread_step, cs_potential, cs_dist. destruct (cs_at t) as [|v|] eqn:E; cbn.
  - split; [lia|]. split; [intros v Hv; inversion Hv; lia|]. right.
    destruct (Z.ltb_spec mem (cs_arg t)); lia.
  - specialize (Hwf v eq_refl). destruct (Z.ltb_spec v (cs_arg t)).
    + destruct (Z.eqb_spec mem v); cbn.
      * split; [lia|]. split; [discriminate|]. right. lia.
      * split; [lia|]. split; [discriminate|]. right. lia.
    + cbn. split; [lia|]. split; [discriminate|]. right. lia.
  - split; [lia|]. split; [intros v Hv; congruence|]. now left.
Qed.

Lemma cs_cas_terminates_gen : forall sched mem ts i t,
  cs_wf mem ts -> nth_error ts i = Some t ->
  (cs_potential mem t <= count_occ Nat.eq_dec sched i)%nat ->
  exists t', nth_error (snd (cs_final true mem ts sched)) i = Some t' /\ cs_at t' = CsDone /\ cs_arg t' = cs_arg t.
Proof.
  induction sched as [|j tl IH]; intros mem ts i t Hwf Hi Hc; cbn [cs_final].
  - cbn in Hc. exists t. split; [assumption|]. split; [|reflexivity].
    unfold cs_potential in Hc. destruct (cs_at t); [lia| |reflexivity]. destruct (Z.ltb v (cs_arg t)); lia.
  - destruct (nth_error ts j) as [tj|] eqn:Ej.
    + pose proof (cs_own_step mem tj (fun v Hv => Hwf tj v (nth_error_In _ _ Ej) Hv)) as Hs.
      destruct (cs_thread_step true mem tj) as [mem' tj'] eqn:Est. destruct Hs as (Hm & Hw' & Hp).
      assert (cs_arg tj' = cs_arg tj) as Harg.
      { unfold cs_thread_step in Est. destruct (cs_at tj) as [|w|]; try (inversion Est; reflexivity).
        destruct (Z.ltb w (cs_arg tj)); [destruct (Z.eqb mem w)|]; inversion Est; reflexivity. }
      assert (cs_wf mem' (cs_update j tj' ts)) as Hwf'.
      { intros x v Hx Hv. destruct (cs_update_in _ _ _ _ Hx) as [->|Hin]; [auto|].
        specialize (Hwf x v Hin Hv). lia. }
      assert (j < length ts)%nat as Hj by (apply nth_error_Some; congruence).
      destruct (Nat.eq_dec j i) as [->|Hne].
      * rewrite Hi in Ej. inversion Ej; subst tj.
        cbn [count_occ] in Hc. destruct (Nat.eq_dec i i); [|congruence].
        destruct (IH mem' (cs_update i tj' ts) i tj' Hwf' (cs_update_nth_same _ _ _ Hj)) as (t' & H1 & H2 & H3).
        { destruct Hp as [Hd|Hp]; [|lia].
          unfold cs_thread_step in Est. rewrite Hd in Est. inversion Est; subst.
          unfold cs_potential. rewrite Hd. lia. }
        exists t'. split; [assumption|]. split; [assumption|congruence].
      * cbn [count_occ] in Hc. destruct (Nat.eq_dec j i); [congruence|].
        apply (IH mem' (cs_update j tj' ts) i t Hwf').
        -- rewrite cs_update_nth_other by assumption. assumption.
        -- pose proof (cs_potential_mono mem mem' t Hm). lia.
    + cbn [count_occ] in Hc. destruct (Nat.eq_dec j i) as [->|Hne]; [congruence|].
      now apply IH.
Qed.

(* every schedule that gives thread i at least 2*(arg_i - phase)+2 turns leaves it finished,
   whatever the other threads do in between (they can only move the phase forward) *)
Lemma cs_cas_terminates : forall args mem sched i a,
  nth_error args i = Some a ->
  (2 * cs_dist a mem + 2 <= count_occ Nat.eq_dec sched i)%nat ->
  exists t', nth_error (snd (cs_final true mem (cs_threads args) sched)) i = Some t' /\ cs_at t' = CsDone.
Proof.
  intros args mem sched i a Ha Hc.
  destruct (cs_cas_terminates_gen sched mem (cs_threads args) i {| cs_arg := a; cs_at := CsStart |}) as (t' & H1 & H2 & _).
  - intros t v Hin Hv. unfold cs_threads in Hin. rewrite in_map_iff in Hin. destruct Hin as (x & <- & _). discriminate.
  - unfold cs_threads. rewrite nth_error_map, Ha. reflexivity.
  - exact Hc.
  - eauto.
Qed.

(* without the re-load a thread whose swap failed once never finishes, however often it runs *)
Lemma cs_stale_loop_spins : forall n,
  nth_error (snd (cs_stale_final 0 (cs_threads [1; 3]) ([0; 1; 1]%nat ++ repeat 0%nat n))) 0%nat
  = Some {| cs_arg := 1; cs_at := CsLoaded 0 |}.
Proof.
  intros n. cbn.
  induction n as [|n IH]; cbn; [reflexivity|exact IH].
Qed.

(* ------------------------------------------------------------------------------------------ *)
(* 8. Restart is atomic under the mutex *)
Lemma ra_atomic_restart_safe : forall phase,
  ra_safe (ra_run phase [RaCheck; RaAct; RaNotarize]) = true /\
  ra_safe (ra_run phase [RaNotarize; RaCheck; RaAct]) = true /\
  ra_safe (ra_run phase [RaCheck; RaAct; RaNotarize; RaCheck; RaAct]) = true.
Proof.
  intros phase. unfold ra_run, ra_safe. cbn. unfold sm_Share.
  repeat match goal with
         | |- context [Z.ltb ?a ?b] => destruct (Z.ltb_spec a b); cbn
         | |- context [Z.leb ?a ?b] => destruct (Z.leb_spec a b); cbn
         end; repeat split; try reflexivity; try lia.
Qed.

Lemma ra_check_then_act_refuted : ra_safe (ra_run 0 [RaCheck; RaNotarize; RaAct]) = false.
Proof. reflexivity. Qed.

(* ------------------------------------------------------------------------------------------ *)
(* 9. AddVRFShare is atomic under the mutex *)
Lemma av_atomic_pair : forall threshold i s,
  (length (av_shares s) <= threshold)%nat -> av_passed s = [] ->
  let s' := av_exec threshold (av_exec threshold s (AvCheck i)) (AvInsert i) in
  (length (av_shares s') <= threshold)%nat /\ av_passed s' = [].
Proof.
  intros threshold i [sh ps] Hl Hp. cbn in Hl, Hp. subst ps. unfold av_exec at 2. cbn [av_shares av_passed].
  destruct (Nat.ltb_spec (length sh) threshold).
  - unfold av_exec. cbn [av_shares av_passed existsb filter]. rewrite Nat.eqb_refl. cbn [orb andb negb].
    destruct (existsb (Nat.eqb i) sh); cbn; split; try reflexivity; lia.
  - unfold av_exec. cbn. split; [lia|reflexivity].
Qed.

Lemma av_atomic_bounded_gen : forall threshold threads s,
  (length (av_shares s) <= threshold)%nat -> av_passed s = [] ->
  let s' := fold_left (av_exec threshold) (av_atomic_schedule threads) s in
  (length (av_shares s') <= threshold)%nat /\ av_passed s' = [].
Proof.
  intros threshold. induction threads as [|i tl IH]; intros s Hl Hp; cbn [av_atomic_schedule flat_map app fold_left]; [auto|].
  destruct (av_atomic_pair threshold i s Hl Hp) as [H1 H2]. now apply IH.
Qed.

Lemma av_atomic_bounded : forall threshold threads,
  (length (av_shares (av_run threshold (av_atomic_schedule threads))) <= threshold)%nat.
Proof.
  intros. unfold av_run. apply (av_atomic_bounded_gen threshold threads); cbn; [lia|reflexivity].
Qed.

Lemma av_split_refuted :
  length (av_shares (av_run 1 [AvCheck 0; AvCheck 1; AvInsert 0; AvInsert 1])) = 2%nat.
Proof. reflexivity. Qed.
