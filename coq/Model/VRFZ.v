(* Executable instance of the VRF share verification of Model/VRF.v over Z (discrete logarithms
   relative to H(message), see Model/DKGZ.v), used by the correspondence check Corr/VRF.v;
   Proof/VRFLink.v proves that it is the image of vrf_verify in every field of characteristic p.
   Definitions only (stdlib style). *)
From Coq Require Import List ZArith Bool.
From ZC Require Import Model.DKGZ.
Import ListNotations.
Open Scope Z_scope.

(* a share event: timeout count matches, sender's party id, discrete logarithm of the signature
   (None = not a signature on this message: undecodable, or signed for another message) *)
Record vzc_ev := { vze_tc : bool; vze_id : Z; vze_dlog : option Z }.

(* members = (party id, aggregated secret key) of the magic block's miners *)
Definition vz_sk (members : list (Z * Z)) (id : Z) : option Z :=
  match find (fun m => Z.eqb (fst m) id) members with Some m => Some (snd m) | None => None end.

Definition vz_verify (members : list (Z * Z)) (ev : vzc_ev) : bool :=
  match vze_dlog ev, vz_sk members (vze_id ev) with
  | Some d, Some sk => dz_verify sk d
  | _, _ => false
  end.

Definition vz_same (a b : vzc_ev) : bool := Z.eqb (vze_id a) (vze_id b).
