(* Lemmas for C17 (faucet limits). *)
From ZC Require Import Model.Faucet.
Open Scope Z_scope.

Lemma fc_find_set_same : forall c u l, fc_find c (fc_set c u l) = Some u.
Proof.
  induction l as [|[k x] tl IH]; cbn [fc_set fc_find].
  - rewrite Z.eqb_refl. reflexivity.
  - destruct (k =? c) eqn:E; cbn [fc_find]; rewrite E; auto.
Qed.

Lemma fc_find_set_other : forall c c' u l, c' <> c -> fc_find c (fc_set c' u l) = fc_find c l.
Proof.
  induction l as [|[k x] tl IH]; intros Hne; cbn [fc_set fc_find].
  - destruct (c' =? c) eqn:E; [apply Z.eqb_eq in E; contradiction|reflexivity].
  - destruct (k =? c') eqn:E; cbn [fc_find].
    + apply Z.eqb_eq in E. subst k. destruct (c' =? c) eqn:E2; [apply Z.eqb_eq in E2; contradiction|reflexivity].
    + destruct (k =? c); auto.
Qed.

(* what the trace-level trackers should equal *)
Definition fc_cview (c : Z) (st : fc_state) : option (Z * Z) :=
  match fc_find c (fs_users st) with Some u => Some (fu_start u, fu_used u) | None => None end.
Definition fc_gview (st : fc_state) : Z * Z := (fs_gstart st, fs_gused st).

Lemma fc_globals_cfg : forall st now, fs_cfg (fc_globals st now) = fs_cfg st.
Proof. intros. unfold fc_globals. destruct (_ <=? _); reflexivity. Qed.
Lemma fc_globals_users : forall st now, fs_users (fc_globals st now) = fs_users st.
Proof. intros. unfold fc_globals. destruct (_ <=? _); reflexivity. Qed.

Lemma fc_validate_resets : forall g, fc_validate g = true -> fc_ireset g <= fc_greset g.
Proof.
  intros g H. unfold fc_validate in H.
  repeat (apply andb_prop in H; destruct H as [H ?]).
  destruct (fc_greset g <? fc_ireset g) eqn:E; [discriminate|]. apply Z.ltb_ge in E. exact E.
Qed.

Lemma fc_add_coin_some : forall a b r, fc_add_coin a b = Some r -> r = a + b.
Proof. intros a b r H. unfold fc_add_coin in H. destruct (_ <? _); inversion H; reflexivity. Qed.

Lemma fc_valid_facts : forall g u gused bal a,
  fc_valid g u gused bal a = true ->
  (exists b, bal = Some b /\ a <= b) /\
  a + fu_used u <= fc_plimit g /\ a + gused <= fc_glimit g.
Proof.
  intros g u gused bal a H. unfold fc_valid in H.
  destruct bal as [b|]; [|discriminate].
  destruct (b <? a) eqn:E1; [discriminate|]. apply Z.ltb_ge in E1.
  destruct (fc_add_coin a (fu_used u)) as [t|] eqn:E2; [|discriminate].
  apply fc_add_coin_some in E2. subst t.
  destruct (fc_plimit g <? _) eqn:E3; [discriminate|]. apply Z.ltb_ge in E3.
  destruct (fc_add_coin a gused) as [gt|] eqn:E4; [|discriminate].
  apply fc_add_coin_some in E4. subst gt.
  apply negb_true_iff in H. apply Z.ltb_ge in H.
  split; [exists b; split; [reflexivity|lia]|lia].
Qed.

(* the user's window restarts in the code exactly when the trace-level rule says so *)
Lemma fc_user_reset_iff : forall g e, fc_ireset g <= fc_greset g ->
  ((fc_ireset g <=? e) || (fc_greset g <=? e)) = (fc_ireset g <=? e).
Proof.
  intros g e H. destruct (fc_ireset g <=? e) eqn:E1; [reflexivity|].
  cbn [orb]. apply Z.leb_gt in E1. apply Z.leb_gt. lia.
Qed.

Lemma fc_step_valid : forall st o st1 out, fc_step st o = (st1, out) ->
  fc_validate (fs_cfg st) = true -> fc_validate (fs_cfg st1) = true.
Proof.
  intros st o st1 out H V. destruct o as [c now v bal|c now v bal|owner now parsed fields]; cbn [fc_step] in H.
  - cbv zeta in H. destruct (fc_valid _ _ _ _ _).
    + destruct (fc_add_coin _ _); [destruct (fc_add_coin _ _)|]; inversion H; subst; cbn [fs_cfg]; try assumption;
      rewrite fc_globals_cfg; assumption.
    + inversion H; subst; assumption.
  - destruct bal as [b|]; [destruct (v <=? b)|]; inversion H; subst; try assumption.
    rewrite fc_globals_cfg; assumption.
  - destruct (owner && parsed); [destruct (fc_validate (fold_left _ _ _)) eqn:E|]; inversion H; subst; cbn [fs_cfg]; assumption.
Qed.

Lemma fc_step_client : forall c st o st1 out, fc_step st o = (st1, out) ->
  fc_validate (fs_cfg st) = true ->
  let e := {| ev_cfg := fs_cfg st; ev_op := o; ev_out := out |} in
  fc_cview c st1 = fcs_client_step c (fc_cview c st) e /\
  (fcs_is_pour_by c e -> fcs_wsum (fc_cview c st1) <= fc_plimit (fs_cfg st)).
Proof.
  intros c st o st1 out H V e. subst e.
  destruct o as [c' now v bal|c' now v bal|owner now parsed fields]; cbn [fc_step] in H.
  - unfold fcs_client_step, fcs_is_pour_by. cbn [ev_op ev_out ev_cfg]. cbv zeta in H.
    destruct (fc_valid _ _ _ _ _) eqn:EV.
    2:{ inversion H; subst. split; [reflexivity|intros []]. }
    apply fc_valid_facts in EV. destruct EV as (_ & HP & _).
    rewrite fc_globals_cfg, fc_globals_users in *.
    set (u := fc_user_vars (fs_cfg st) (fs_users st) c' now) in *.
    destruct (fc_add_coin (fu_used u) _) as [u'|] eqn:E1.
    2:{ inversion H; subst. split; [reflexivity|intros []]. }
    destruct (fc_add_coin (fs_gused _) _) as [g'|] eqn:E2.
    2:{ inversion H; subst. split; [reflexivity|intros []]. }
    inversion H; subst st1 out. clear H.
    apply fc_add_coin_some in E1.
    unfold fc_cview. cbn [fs_users].
    destruct (c' =? c) eqn:EC.
    + apply Z.eqb_eq in EC. subst c'. rewrite fc_find_set_same. cbn [fu_start fu_used].
      assert (Hu : (fu_start u, fu_used u) =
                   match fc_find c (fs_users st) with
                   | Some x => if fc_ireset (fs_cfg st) <=? fc_sub now (fu_start x) then (now, 0) else (fu_start x, fu_used x)
                   | None => (now, 0)
                   end).
      { subst u. unfold fc_user_vars. destruct (fc_find c (fs_users st)) as [x|].
        - rewrite fc_user_reset_iff by (apply fc_validate_resets; exact V).
          destruct (_ <=? _); reflexivity.
        - cbn [fu_start fu_used]. destruct (_ || _); reflexivity. }
      split.
      * destruct (fc_find c (fs_users st)) as [x|].
        -- destruct (fc_ireset (fs_cfg st) <=? fc_sub now (fu_start x)); inversion Hu as [[Hs Hd]];
             rewrite E1, Hd; f_equal; f_equal; lia.
        -- inversion Hu as [[Hs Hd]]. rewrite E1, Hd. reflexivity.
      * intros _. cbn [fcs_wsum]. rewrite E1. lia.
    + apply Z.eqb_neq in EC. rewrite fc_find_set_other by exact EC.
      split; [reflexivity|intros Hc; contradiction].
  - unfold fcs_client_step, fcs_is_pour_by. cbn [ev_op ev_out].
    destruct bal as [b|]; [destruct (v <=? b)|]; inversion H; subst; (split; [|intros []]);
      unfold fc_cview; rewrite ?fc_globals_users; reflexivity.
  - unfold fcs_client_step, fcs_is_pour_by. cbn [ev_op ev_out].
    destruct (owner && parsed); [destruct (fc_validate (fold_left _ _ _))|]; inversion H; subst; (split; [|intros []]);
      unfold fc_cview; cbn [fs_users]; rewrite ?fc_globals_users; reflexivity.
Qed.

Lemma fc_globals_gview : forall st now,
  fc_gview (fc_globals st now) =
  if fc_greset (fs_cfg st) <=? fc_sub now (fst (fc_gview st)) then (now, 0) else fc_gview st.
Proof. intros. unfold fc_globals, fc_gview. cbn [fst]. destruct (_ <=? _); reflexivity. Qed.

Lemma fc_step_global : forall st o st1 out, fc_step st o = (st1, out) ->
  let e := {| ev_cfg := fs_cfg st; ev_op := o; ev_out := out |} in
  fc_gview st1 = fcs_global_step (fc_gview st) e /\
  ((exists a, out = FcPoured a) -> snd (fc_gview st1) <= fc_glimit (fs_cfg st)) /\
  fcs_pour_within_balance e.
Proof.
  intros st o st1 out H e. subst e.
  destruct o as [c' now v bal|c' now v bal|owner now parsed fields]; cbn [fc_step] in H;
    unfold fcs_global_step, fcs_pour_within_balance; cbn [ev_op ev_out ev_cfg fcs_op_now].
  - cbv zeta in H. destruct (fc_valid _ _ _ _ _) eqn:EV.
    2:{ inversion H; subst. repeat split; auto. intros [a Ha]; discriminate. }
    apply fc_valid_facts in EV. destruct EV as ((b & Hb & Hbal) & _ & HG).
    rewrite fc_globals_cfg in *.
    destruct (fc_add_coin (fu_used _) _) as [u'|] eqn:E1.
    2:{ inversion H; subst. repeat split; auto. intros [a Ha]; discriminate. }
    destruct (fc_add_coin (fs_gused _) _) as [g'|] eqn:E2.
    2:{ inversion H; subst. repeat split; auto. intros [a Ha]; discriminate. }
    inversion H; subst st1 out. clear H. apply fc_add_coin_some in E2.
    pose proof (fc_globals_gview st now) as HV. unfold fc_gview in *. cbn [fs_gstart fs_gused fst snd] in *.
    remember (fc_globals st now) as st' eqn:Est. clear Est.
    split; [|split].
    + destruct (fc_greset (fs_cfg st) <=? fc_sub now (fs_gstart st)); inversion HV as [[Hs Hu]];
        cbn [fst snd]; rewrite E2; reflexivity.
    + intros _. lia.
    + exists b. split; [exact Hb|lia].
  - destruct bal as [b|]; [destruct (v <=? b)|]; inversion H; subst; (split; [|split; [intros [a Ha]; discriminate|auto]]); try reflexivity.
    apply fc_globals_gview.
  - destruct (owner && parsed); [destruct (fc_validate (fold_left _ _ _))|]; inversion H; subst;
      (split; [|split; [intros [a Ha]; discriminate|auto]]); try reflexivity.
    pose proof (fc_globals_gview st now) as HV. unfold fc_gview in *. cbn [fs_gstart fs_gused fst] in *. exact HV.
Qed.

Lemma fc_run_cons : forall st o tl,
  fc_run st (o :: tl) =
  (fst (fc_run (fst (fc_step st o)) tl),
   {| ev_cfg := fs_cfg st; ev_op := o; ev_out := snd (fc_step st o) |} :: snd (fc_run (fst (fc_step st o)) tl)).
Proof.
  intros. cbn [fc_run]. destruct (fc_step st o) as [st1 out]. cbn [fst snd].
  destruct (fc_run st1 tl); reflexivity.
Qed.

Lemma fc_client_within_gen : forall c ops st,
  fc_validate (fs_cfg st) = true ->
  fcs_client_within c (fc_cview c st) (snd (fc_run st ops)).
Proof.
  induction ops as [|o tl IH]; intros st V; [exact I|].
  rewrite fc_run_cons in *. cbn [snd] in *.
  destruct (fc_step st o) as [st1 out] eqn:ES. cbn [fst snd] in *.
  destruct (fc_step_client c _ _ _ _ ES V) as [Hv Hb]. cbn [fcs_client_within].
  rewrite <- Hv. split.
  - intros Hp. cbn [ev_cfg]. apply Hb. exact Hp.
  - apply IH. eapply fc_step_valid; eauto.
Qed.

Lemma fc_global_within_gen : forall ops st,
  fcs_global_within (fc_gview st) (snd (fc_run st ops)) /\
  Forall fcs_pour_within_balance (snd (fc_run st ops)).
Proof.
  induction ops as [|o tl IH]; intros st; [split; [exact I|constructor]|].
  rewrite fc_run_cons in *. cbn [snd] in *.
  destruct (fc_step st o) as [st1 out] eqn:ES. cbn [fst snd] in *.
  destruct (fc_step_global _ _ _ _ ES) as (Hv & Hb & Hbal).
  destruct (IH st1) as [IH1 IH2].
  split.
  - cbn [fcs_global_within]. rewrite <- Hv. split; [|exact IH1].
    intros Hp. cbn [ev_cfg ev_out] in *. apply Hb; assumption.
  - constructor; [exact Hbal|exact IH2].
Qed.

(* ---------- statements used by Prop/C17.v ---------- *)

Lemma fc_full : forall cfg ops, fc_validate cfg = true ->
  let evs := snd (fc_run (fc_init cfg) ops) in
  (forall c, fcs_client_within c None evs) /\
  fcs_global_within (fc_zero_time, 0) evs /\
  Forall fcs_pour_within_balance evs.
Proof.
  intros cfg ops V evs. subst evs.
  split; [|exact (fc_global_within_gen ops (fc_init cfg))].
  intros c. exact (fc_client_within_gen c ops (fc_init cfg) V).
Qed.

(* the input on which the contract used to pour 149 tokens to one client in one window although the
   periodic limit is 100 (before the limits were checked with the poured amount); now the second
   request is refused *)
Definition fc_wit_cfg : fc_cfg :=
  {| fc_pour := 10; fc_max := 100; fc_plimit := 100; fc_glimit := 100;
     fc_ireset := 3600 * fc_second; fc_greset := 7200 * fc_second |}.
Definition fc_wit_ops : list fc_op := [FcPour 1 1000 50 (Some 50); FcPour 1 1001 99 (Some 50)].

Lemma fc_wit_trace : map ev_out (snd (fc_run (fc_init fc_wit_cfg) fc_wit_ops)) = [FcPoured 50; FcFail].
Proof. vm_compute. reflexivity. Qed.

(* update-settings never leaves an invalid configuration, and never touches the counters *)
Lemma fc_reachable_valid : forall ops cfg, fc_validate cfg = true ->
  fc_validate (fs_cfg (fst (fc_run (fc_init cfg) ops))) = true.
Proof.
  intros ops cfg V. change cfg with (fs_cfg (fc_init cfg)) in V. revert V.
  generalize (fc_init cfg). induction ops as [|o tl IH]; intros st V; [exact V|].
  rewrite fc_run_cons. cbn [fst]. apply IH.
  destruct (fc_step st o) as [st1 out] eqn:ES. eapply fc_step_valid; eauto.
Qed.

(* a refused request changes nothing *)
Lemma fc_fail_noop : forall st o st1, fc_step st o = (st1, FcFail) -> st1 = st.
Proof.
  intros st o st1 H. destruct o as [c now v bal|c now v bal|owner now parsed fields]; cbn [fc_step] in H.
  - cbv zeta in H. destruct (fc_valid _ _ _ _ _); [destruct (fc_add_coin _ _); [destruct (fc_add_coin _ _)|]|]; inversion H; reflexivity.
  - destruct bal as [b|]; [destruct (v <=? b)|]; inversion H; reflexivity.
  - destruct (owner && parsed); [destruct (fc_validate _)|]; inversion H; reflexivity.
Qed.
