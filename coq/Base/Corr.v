(* Helpers shared by the correspondence files: index the cases whose model result
   differs from the implementation's observed result. *)
From Coq Require Import List ZArith Bool.
Import ListNotations.

Fixpoint mismatches_from {A} (f : A -> bool) (i : nat) (l : list A) : list nat :=
  match l with
  | [] => []
  | x :: tl => if f x then mismatches_from f (S i) tl else i :: mismatches_from f (S i) tl
  end.

Definition mismatches {A} (f : A -> bool) (l : list A) : list nat := mismatches_from f 0 l.

Fixpoint list_eqb {A} (eqb : A -> A -> bool) (l1 l2 : list A) : bool :=
  match l1, l2 with
  | [], [] => true
  | x :: t1, y :: t2 => eqb x y && list_eqb eqb t1 t2
  | _, _ => false
  end.

Definition option_eqb {A} (eqb : A -> A -> bool) (o1 o2 : option A) : bool :=
  match o1, o2 with
  | None, None => true
  | Some x, Some y => eqb x y
  | _, _ => false
  end.

Definition pair_eqb {A B} (ea : A -> A -> bool) (eb : B -> B -> bool) (p q : A * B) : bool :=
  ea (fst p) (fst q) && eb (snd p) (snd q).

Definition zz_eqb : Z * Z -> Z * Z -> bool := pair_eqb Z.eqb Z.eqb.
