(* E-storage proofs, C09: kill_blobber / shutdown_blobber slash every delegate pool by a binary64
   fraction; with Flocq (Proof/StorageF64.v) the slashed balance never exceeds the old one for
   pools below 2^53, so the ledger theorem extends to every modelled operation.  The theorems of
   this file depend on the real-number axioms of the standard library (through Flocq). *)
From Coq Require Import ZArith List Bool Lia.
From Flocq Require Import IEEE754.BinarySingleNaN.
From ZC Require Import Model.F64 Model.Storage Proof.StorageUtil Proof.StorageFrame Proof.Storage Proof.StorageClose Proof.StorageOffers
  Proof.StorageLedger Proof.StorageF64.
Import ListNotations.
Open Scope Z_scope.

Section Bound.
Variable Bd : Z.
Hypothesis Bd53 : Bd <= 2 ^ 53.

Lemma pools_le_ok : forall ps ps', pools_le ps ps' -> Forall (fun p => 0 <= p < Bd) ps ->
  Forall (fun p => 0 <= p < Bd) ps' /\ ss_sum ps' <= ss_sum ps.
Proof.
  induction 1 as [|p p' tl tl' Hp Ht IH]; intros Hf; [split; [constructor | lia]|].
  inversion Hf; subst. destruct (IH H2) as [Hf' Hs]. cbn [ss_sum]. split; [constructor; [lia | exact Hf'] | lia].
Qed.

Lemma ss_sp_kill_owed : forall b (k : binary_float 53 1024) b', is_nan k = false -> bl_ok Bd b ->
  ss_sp_kill b (B2SF k) = Some b' -> bl_ok Bd b' /\ bl_owed b' <= bl_owed b /\ bl_id b' = bl_id b.
Proof.
  intros b k b' Hn Hok H.
  assert (Hp : Forall (fun p => 0 <= p < 2 ^ 53) (bl_pools b)).
  { unfold bl_ok in Hok. eapply Forall_impl; [|exact Hok]. cbn. intros; lia. }
  destruct (ss_sp_kill_le b k b' Hn Hp H) as [Hle [Hr Hi]].
  destruct (pools_le_ok _ _ Hle Hok) as [Hok' Hs].
  split; [exact Hok'|]. split; [|exact Hi]. unfold bl_owed, ss_stake. lia.
Qed.

Lemma ss_kill_backed : forall c s sender blobber s', f64_wf (cf_kill_slash c) -> st_ok Bd s ->
  ss_kill c s sender blobber = Some s' -> ss_backed c s s' /\ st_ok Bd s'.
Proof.
  unfold ss_kill; intros c s sender blobber s' Hwf Hok H. bind_as H b Eb. guard_inv H.
  destruct (bl_killed b || bl_shut b); [inversion H; subst; split; [apply backed_refl | exact Hok]|].
  bind_as H b1 E1. inversion H; subst. clear H.
  destruct (f64_wf_B _ Hwf) as [k [Ek Hn]]. rewrite Ek in E1.
  pose proof (find_ok _ _ _ _ Hok Eb) as Hb.
  apply ss_sp_kill_owed in E1; auto. destruct E1 as [Hok1 [Ho1 Hi1]].
  match goal with |- context [ss_set_blobber ?x _] => set (bn := x) end.
  assert (Hn' : bl_ok Bd bn /\ bl_owed bn = bl_owed b1 /\ bl_id bn = bl_id b1) by (subst bn; repeat split; auto).
  destruct Hn' as [Hokn [Hon Hin]]. split.
  - unfold ss_backed, ss_liab, L_allocs, L_blobbers, L_validators, L_rpools, ss_wallet, ss_bal.
    cbn [st_allocs st_blobbers st_validators st_rpools st_bals st_with_blobbers].
    rewrite (sum_set_blobber _ _ b); [lia | rewrite Hin, Hi1; eapply ss_find_blobber_self; eauto].
  - unfold st_ok. cbn [st_blobbers st_with_blobbers]. apply set_ok; auto.
Qed.

Lemma ss_shutdown_backed : forall c s sender blobber s', f64_wf (cf_kill_slash c) -> st_ok Bd s ->
  ss_shutdown c s sender blobber = Some s' -> ss_backed c s s' /\ st_ok Bd s'.
Proof.
  unfold ss_shutdown; intros c s sender blobber s' Hwf Hok H. bind_as H b Eb.
  destruct (bl_killed b || bl_shut b); [inversion H; subst; split; [apply backed_refl | exact Hok]|].
  guard_inv H. cbv zeta in H. bind_as H b1 E1. inversion H; subst. clear H.
  destruct (f64_wf_B _ Hwf) as [k [Ek Hn]]. rewrite Ek in E1.
  destruct (half_B k Hn) as [h [Eh Hnh]]. rewrite Eh in E1.
  pose proof (find_ok _ _ _ _ Hok Eb) as Hb.
  apply ss_sp_kill_owed in E1; auto. destruct E1 as [Hok1 [Ho1 Hi1]].
  match goal with |- context [ss_set_blobber ?x _] => set (bn := x) end.
  assert (Hn' : bl_ok Bd bn /\ bl_owed bn = bl_owed b1 /\ bl_id bn = bl_id b1) by (subst bn; repeat split; auto).
  destruct Hn' as [Hokn [Hon Hin]]. split.
  - unfold ss_backed, ss_liab, L_allocs, L_blobbers, L_validators, L_rpools, ss_wallet, ss_bal.
    cbn [st_allocs st_blobbers st_validators st_rpools st_bals st_with_blobbers].
    rewrite (sum_set_blobber _ _ b); [lia | rewrite Hin, Hi1; eapply ss_find_blobber_self; eauto].
  - unfold st_ok. cbn [st_blobbers st_with_blobbers]. apply set_ok; auto.
Qed.

(* every modelled operation except a free allocation that grants read tokens *)
Definition ss_c09_scope_full (c : ss_conf) (o : ss_op) : Prop :=
  match o with
  | OpFreeAlloc _ _ _ _ coin _ _ _ => ss_free_read_grant c coin = 0
  | _ => True
  end.

Theorem ss_apply_c09_full : forall c s now round o s',
  cf_owner c <> cf_sc c -> f64_wf (cf_kill_slash c) -> st_c09 Bd s -> ss_op_wf09 c o -> ss_c09_scope_full c o ->
  ss_apply c s now round o = Some s' -> ss_backed c s s' /\ st_c09 Bd s'.
Proof.
  intros c s now round o s' Hc Hk Hs Hwf Hsc H.
  assert (H12' : st_c12 s') by (destruct Hs as [H12 _]; destruct Hwf as [Hwf0 _]; eapply ss_apply_c12; eauto).
  assert (Hgen : ss_c09_scope c o -> ss_backed c s s' /\ st_c09 Bd s') by (intros Hx; eapply ss_apply_c09; eauto).
  destruct o; try (apply Hgen; exact I); try (apply Hgen; exact Hsc).
  - destruct Hs as [H12 [Hok Hrp]]. destruct Hwf as [Hwf _]. cbn [ss_apply] in H.
    destruct (ss_kill_backed _ _ _ _ _ Hk Hok H) as [Hb Hok']. split; auto. split; [exact H12'|].
    split; auto. eapply misc_rpools; [eapply ss_kill_misc; eauto | auto].
  - destruct Hs as [H12 [Hok Hrp]]. destruct Hwf as [Hwf _]. cbn [ss_apply] in H.
    destruct (ss_shutdown_backed _ _ _ _ _ Hk Hok H) as [Hb Hok']. split; auto. split; [exact H12'|].
    split; auto. eapply misc_rpools; [eapply ss_shutdown_misc; eauto | auto].
Qed.

Definition ss_c09_ok_full (c : ss_conf) (t : Z * Z * ss_op) : Prop := ss_op_wf09 c (snd t) /\ ss_c09_scope_full c (snd t).

Theorem ss_run_c09_full : forall c ts s, cf_owner c <> cf_sc c -> f64_wf (cf_kill_slash c) -> st_c09 Bd s ->
  Forall (ss_c09_ok_full c) ts -> ss_backed c s (fst (ss_run c s ts)) /\ st_c09 Bd (fst (ss_run c s ts)).
Proof.
  induction ts as [|[[now round] o] tl IH]; cbn [ss_run]; intros s Hc Hk Hs Hwf; [split; [apply backed_refl | exact Hs]|].
  inversion Hwf as [|? ? [Hw Hsc] Htl]; subst. cbn [snd] in *.
  unfold ss_step. destruct (ss_apply c s now round o) as [s1|] eqn:E.
  - destruct (ss_apply_c09_full _ _ _ _ _ _ Hc Hk Hs Hw Hsc E) as [Hb Hs1].
    specialize (IH s1 Hc Hk Hs1 Htl). destruct (ss_run c s1 tl) as [s2 oks]. cbn [fst] in *.
    destruct IH as [Hb2 Hs2]. split; [unfold ss_backed in *; lia | exact Hs2].
  - specialize (IH s Hc Hk Hs Htl). destruct (ss_run c s tl) as [s2 oks]. exact IH.
Qed.

Corollary ss_run_solvent_full : forall c ts s, cf_owner c <> cf_sc c -> f64_wf (cf_kill_slash c) -> st_c09 Bd s ->
  Forall (ss_c09_ok_full c) ts -> ss_liab s <= ss_wallet c s ->
  ss_liab (fst (ss_run c s ts)) <= ss_wallet c (fst (ss_run c s ts)).
Proof. intros c ts s Hc Hk Hs Hwf H0. destruct (ss_run_c09_full c ts s Hc Hk Hs Hwf) as [Hb _]. unfold ss_backed in Hb. lia. Qed.

End Bound.
