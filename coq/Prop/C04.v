(* C04: transactions debit only what their sender authorised - the chain layer.
   Only statements; each is closed by [exact] of a lemma in Proof/ChainStateC04.v.

   PARTIAL.  What is proved here is what Chain.updateState itself guarantees for an arbitrary
   contract behaviour: every debit is the exact net of the transfers the transaction carries
   (attribution), plain sends and data transactions never cost more than value + fee, and the
   two clauses of the property hold whenever the called contract queues transfers only out of the
   sender (at most the value in total) and out of its own wallet.  The full chain-level
   statement is false and refuted below: StateContext.Validate - the code that caps the sender's
   transfers at value + fee and verifies signed transfers - is called by updateState BEFORE the
   contract executes, when nothing is queued, and never again.  Which transfers the real
   contracts queue is the business of the per-contract properties (C09-C24); signed-transfer
   signatures and free-storage markers are outside this model. *)
From ZC Require Import Model.ChainState Proof.ChainState Proof.ChainStateC05 Proof.ChainStateC04.
Open Scope Z_scope.

(* Attribution: after an applied transaction every account holds exactly its old balance plus
   what the transaction's transfers (contract-queued or send, fee, signed) bring in minus what
   they take out.  Every configuration, state, transaction and contract oracle result. *)
Theorem C04_debits_attributed_exactly :
  forall cfg st round tx r st' status out evs,
    cs_canon_accts (st_accts st) -> cs_canon_txn cfg tx r ->
    cs_update_state cfg st round tx r = Applied st' status out evs ->
    forall id, cs_bal (st_accts st') id =
               cs_bal (st_accts st) id + cs_inflow (cs_queued cfg tx r) id - cs_outflow (cs_queued cfg tx r) id.
Proof. exact cs_c04_attribution. Qed.
Print Assumptions C04_debits_attributed_exactly.

(* An account whose balance fell is named as source by one of those transfers and fell by no
   more than they take from it. *)
Theorem C04_debits_attributed :
  forall cfg st round tx r st' status out evs,
    cs_canon_accts (st_accts st) -> cs_canon_txn cfg tx r -> cs_typed_txn cfg tx r ->
    cs_update_state cfg st round tx r = Applied st' status out evs ->
    forall id, cs_bal (st_accts st') id < cs_bal (st_accts st) id ->
               (exists t, In t (cs_queued cfg tx r) /\ tr_from t = id /\ 0 < tr_amt t) /\
               cs_bal (st_accts st) id - cs_bal (st_accts st') id <= cs_outflow (cs_queued cfg tx r) id.
Proof. exact cs_c04_debits_attributed. Qed.
Print Assumptions C04_debits_attributed.

(* Accounts no transfer names keep their leaf bit for bit. *)
Theorem C04_bystanders_untouched :
  forall cfg st round tx r st' status out evs,
    cs_canon_accts (st_accts st) -> cs_canon_txn cfg tx r ->
    cs_update_state cfg st round tx r = Applied st' status out evs ->
    forall id, id <> tx_from tx ->
               (forall t, In t (cs_queued cfg tx r) -> tr_amt t <> 0 -> id <> tr_from t /\ id <> tr_to t) ->
               cs_get id (st_accts st') = cs_get id (st_accts st).
Proof. exact cs_c04_untouched. Qed.
Print Assumptions C04_bystanders_untouched.

(* The cap, conditional on what is requested in the sender's name. *)
Theorem C04_sender_debit_le_value_fee :
  forall cfg st round tx r st' status out evs,
    cs_canon_accts (st_accts st) -> cs_canon_txn cfg tx r -> cs_typed_txn cfg tx r ->
    cs_update_state cfg st round tx r = Applied st' status out evs ->
    cs_outflow (cs_requested tx r) (tx_from tx) <= tx_value tx ->
    cs_bal (st_accts st) (tx_from tx) - cs_bal (st_accts st') (tx_from tx) <= tx_value tx + cs_fee_of cfg tx.
Proof. exact cs_c04_sender_cap. Qed.
Print Assumptions C04_sender_debit_le_value_fee.

(* Sends and data transactions: unconditionally. *)
Theorem C04_send_debit_le_value_fee :
  forall cfg st round tx r st' status out evs,
    cs_canon_accts (st_accts st) -> cs_canon_txn cfg tx r -> cs_typed_txn cfg tx r ->
    tx_type tx <> TSC -> 0 <= tx_value tx ->
    cs_update_state cfg st round tx r = Applied st' status out evs ->
    cs_bal (st_accts st) (tx_from tx) - cs_bal (st_accts st') (tx_from tx) <= tx_value tx + cs_fee_of cfg tx.
Proof. exact cs_c04_send_cap. Qed.
Print Assumptions C04_send_debit_le_value_fee.

(* The full chain-level statement (signatures and free-storage grants aside) ... *)
Definition C04_full_statement : Prop :=
  forall cfg st round tx r st' status out evs,
    cs_canon_accts (st_accts st) -> cs_canon_txn cfg tx r -> cs_typed_txn cfg tx r ->
    cs_wf (st_accts st) -> 0 <= tx_value tx ->
    cs_update_state cfg st round tx r = Applied st' status out evs ->
    (cs_bal (st_accts st) (tx_from tx) - cs_bal (st_accts st') (tx_from tx) <= tx_value tx + cs_fee_of cfg tx) /\
    (forall id, cs_bal (st_accts st') id < cs_bal (st_accts st) id -> id = tx_from tx \/ id = tx_to tx).

(* ... is false of the chain layer: a contract that queues 60 out of a sender whose transaction
   carries value 10 and fee 2, and 7 out of a bystander, gets both applied. *)
Theorem C04_chain_cap_refuted : ~ C04_full_statement.
Proof. exact cs_c04_refuted. Qed.
Print Assumptions C04_chain_cap_refuted.

Theorem C04_refutation_witness :
  exists st' s o e,
    cs_update_state cs_c04_cfg cs_c04_state 1 cs_c04_txn cs_c04_result = Applied st' s o e /\
    cs_bal (st_accts cs_c04_state) 3 - cs_bal (st_accts st') 3 = 62 /\
    cs_bal (st_accts st') 4 = 63.
Proof. exact cs_c04_witness. Qed.
Print Assumptions C04_refutation_witness.

(* ... and holds exactly outside that trigger: when every non-zero transfer the contract queued
   (or signed) comes out of the sender or out of the called contract's own wallet, and the
   sender's part does not exceed the value. *)
Theorem C04_authorised_partial :
  forall cfg st round tx r st' status out evs,
    cs_canon_accts (st_accts st) -> cs_canon_txn cfg tx r -> cs_typed_txn cfg tx r ->
    cs_update_state cfg st round tx r = Applied st' status out evs ->
    Forall (fun t => tr_amt t <> 0 -> cs_authorised tx t) (cs_requested tx r) ->
    cs_outflow (cs_requested tx r) (tx_from tx) <= tx_value tx ->
    (cs_bal (st_accts st) (tx_from tx) - cs_bal (st_accts st') (tx_from tx) <= tx_value tx + cs_fee_of cfg tx) /\
    (forall id, cs_bal (st_accts st') id < cs_bal (st_accts st) id -> id = tx_from tx \/ id = tx_to tx).
Proof. exact cs_c04_authorised. Qed.
Print Assumptions C04_authorised_partial.

(* Non-vacuity of the partial theorem's hypotheses: a well-behaved call (sender pays its value to
   the contract, the contract pays a third party out of its own wallet). *)
Example C04_example :
  let tx := cs_c04_txn in
  let r := SCOk [] [Build_cs_transfer 3 1 10; Build_cs_transfer 1 5 30] [] [] 0 in
  cs_is_applied (cs_update_state cs_c04_cfg cs_c04_state 1 tx r) = true /\
  forallb (fun t => (tr_from t =? tx_from tx) || (tr_from t =? tx_to tx)) (cs_requested tx r) = true /\
  cs_outflow (cs_requested tx r) (tx_from tx) = 10 /\
  map (fun p => (fst p, ac_bal (snd p))) (st_accts (cs_post cs_c04_state (cs_update_state cs_c04_cfg cs_c04_state 1 tx r)))
    = [(0, 2); (1, 30); (3, 88); (4, 70); (5, 30)].
Proof. vm_compute. repeat split; reflexivity. Qed.

(* ---- what the REAL storage contract queues (engine E-storage, model Model/Storage.v) ----
   The chain-level theorems above are conditional on what the called contract queues.  For the
   storagesc operations of Model/Storage.v (new / free allocation, write- and read-pool lock and
   unlock, commit connection, challenges, update / finalize / cancel allocation, read markers,
   kill / shutdown / settings of a blobber, assigners) the condition holds: the balances after a
   transaction are the balances before it with at most one transfer applied, and that transfer
   comes out of the contract's own wallet, or out of the sender (at most the transaction value),
   or - free_allocation_request under a valid, unredeemed assigner marker only - out of the
   configured owner wallet (at most the grant).  In particular update_allocation_request locks
   the attached value out of the SENDER, whoever the request names as owner_id.  Proofs in
   Proof/StorageAuth.v; the model is tied to the real contract by the storage engine, whose C04
   oracle checks the same rule on the transfers the real contract queued. *)
From ZC Require Import Model.F64 Model.Storage Proof.Storage Proof.StorageLedger Proof.StorageAuth.

Theorem C04_storage_ops_transfers_authorised :
  forall c s now round o s',
  ss_op_wf o -> ss_apply c s now round o = Some s' ->
  exists ms, st_bals s' = ss_moves_bals (st_bals s) ms /\ ss_moves_auth c s o ms /\
             (st_c12 s -> rp_nonneg s -> ss_moves_nonneg ms).
Proof. exact st_transfers_authorised. Qed.
Print Assumptions C04_storage_ops_transfers_authorised.

(* the same in terms of balances: whose balance a storagesc transaction can lower, and by how much *)
Theorem C04_storage_ops_debits_authorised :
  forall c s now round o s' id,
  st_c12 s -> rp_nonneg s -> ss_op_wf o -> ss_apply c s now round o = Some s' ->
  ss_bal s' id < ss_bal s id ->
  id = cf_sc c \/
  (id = ss_op_sender o /\ ss_bal s id - ss_bal s' id <= ss_op_value o) \/
  (id = cf_owner c /\ exists grant, ss_free_grant s o grant /\ ss_bal s id - ss_bal s' id <= grant).
Proof. exact ss_debits_authorised. Qed.
Print Assumptions C04_storage_ops_debits_authorised.
