// Translator "eventmergers" (property C20): emits coq/Gen/EventMergers.v from smartcontract/dbs/event of
// /repo (or $VERIF_REPO) with go/ast: the list `mergers = []eventsMerger{...}` of mergeEvents (process.go), in
// order, each resolved to (event tag, middleware kind):
//
//	Overwrite  withUniqueEventOverwrite(): of the events with one index only the last survives
//	Merge      withEventMerge(f) (directly or through a with...() helper that returns it): events with one
//	           index are folded into the first with f
//	Keep       no middleware: every event is kept
//
// For every Merge merger the body of f is read as well (gen_merge_fns, and coq/Gen/EventMergers.json for the engine):
//
//	MfAdd [fields]  the body is exactly a sequence of additions `a.F += b.F` (scalar) and loops
//	                `for k, v := range b.F { [_, ok := a.F[k]; if !ok { a.F[k] = v; continue }] a.F[k] += v }` (map)
//	                followed by `return a, nil`
//	MfOther         anything else (early return, condition, replacement by key, ...)
//
// Fails closed on any list element or middleware it cannot resolve.
package main

import (
	"encoding/json"
	"fmt"
	"go/ast"
	"go/parser"
	"go/token"
	"os"
	"path/filepath"
	"strings"
)

func die(f string, a ...interface{}) {
	fmt.Fprintf(os.Stderr, "eventmergers translator: "+f+"\n", a...)
	os.Exit(1)
}

var funcs = map[string]*ast.FuncDecl{}

func callName(e ast.Expr) (string, *ast.CallExpr) {
	c, ok := e.(*ast.CallExpr)
	if !ok {
		return "", nil
	}
	switch f := c.Fun.(type) {
	case *ast.Ident:
		return f.Name, c
	case *ast.IndexExpr: // generic instantiation f[T](...)
		if id, ok := f.X.(*ast.Ident); ok {
			return id.Name, c
		}
	case *ast.IndexListExpr:
		if id, ok := f.X.(*ast.Ident); ok {
			return id.Name, c
		}
	}
	return "", nil
}

func singleReturn(fd *ast.FuncDecl) ast.Expr {
	if fd == nil || fd.Body == nil || len(fd.Body.List) != 1 {
		return nil
	}
	r, ok := fd.Body.List[0].(*ast.ReturnStmt)
	if !ok || len(r.Results) != 1 {
		return nil
	}
	return r.Results[0]
}

// the function literal handed to the last withEventMerge seen by mwKind
var lastMergeFn *ast.FuncLit

// middleware kind of one middleware expression
func mwKind(e ast.Expr, depth int) string {
	name, c := callName(e)
	switch name {
	case "withUniqueEventOverwrite":
		return "EmOverwrite"
	case "withEventMerge":
		lastMergeFn = nil
		if len(c.Args) == 1 {
			lastMergeFn, _ = c.Args[0].(*ast.FuncLit)
		}
		if lastMergeFn == nil {
			die("withEventMerge: the merge function is not a function literal")
		}
		return "EmMerge"
	case "":
		die("middleware is not a call")
	}
	if depth > 3 {
		die("middleware %s: too many indirections", name)
	}
	ret := singleReturn(funcs[name])
	if ret == nil {
		die("middleware %s: cannot resolve (not a single-return function of this package)", name)
	}
	return mwKind(ret, depth+1)
}

// (tag, kind) of a call newEventsMerger[T](Tag, mws...) / mergeAddProviderEvents[T](Tag, mws...)
func mergerOf(c *ast.CallExpr, what string) (string, string) {
	if len(c.Args) == 0 {
		die("%s: no tag argument", what)
	}
	tag, ok := c.Args[0].(*ast.Ident)
	if !ok {
		die("%s: tag is not an identifier", what)
	}
	kind := "EmKeep"
	if len(c.Args) > 2 {
		die("%s: more than one middleware (the model handles one)", what)
	}
	if len(c.Args) == 2 {
		kind = mwKind(c.Args[1], 0)
	}
	return tag.Name, kind
}

func resolve(e ast.Expr) (string, string) {
	name, c := callName(e)
	if c == nil {
		die("mergers list: element is not a call")
	}
	if name == "newEventsMerger" || len(c.Args) > 0 {
		// direct construction or a generic helper taking (tag, middlewares...)
		if name != "newEventsMerger" {
			fd := funcs[name]
			ret := singleReturn(fd)
			rn, _ := callName(ret)
			if rn != "newEventsMerger" {
				die("%s: helper does not return newEventsMerger(tag, middlewares...)", name)
			}
		}
		return mergerOf(c, name)
	}
	ret := singleReturn(funcs[name])
	rn, rc := callName(ret)
	if rn != "newEventsMerger" {
		die("%s: does not return newEventsMerger(...)", name)
	}
	return mergerOf(rc, name)
}

type field struct {
	Name string `json:"name"`
	Kind string `json:"kind"` // scalar | map
}

type mergerOut struct {
	Tag      string  `json:"tag"`
	Kind     string  `json:"kind"`
	Type     string  `json:"type,omitempty"` // payload type of the merge function (as written)
	Additive bool    `json:"additive"`
	Fields   []field `json:"fields,omitempty"`
	Why      string  `json:"why,omitempty"` // why the merge function is not MfAdd
}

func exprStr(e ast.Expr) string {
	switch x := e.(type) {
	case *ast.Ident:
		return x.Name
	case *ast.SelectorExpr:
		return exprStr(x.X) + "." + x.Sel.Name
	case *ast.StarExpr:
		return exprStr(x.X)
	case *ast.ArrayType:
		return "[]" + exprStr(x.Elt)
	case *ast.IndexExpr:
		return exprStr(x.X) + "[" + exprStr(x.Index) + "]"
	}
	return "?"
}

// sel(e) = (receiver, field) of recv.Field
func sel(e ast.Expr) (string, string) {
	s, ok := e.(*ast.SelectorExpr)
	if !ok {
		return "", ""
	}
	id, ok := s.X.(*ast.Ident)
	if !ok {
		return "", ""
	}
	return id.Name, s.Sel.Name
}

// idx(e) = (receiver, field, key) of recv.Field[key]
func idx(e ast.Expr) (string, string, string) {
	ix, ok := e.(*ast.IndexExpr)
	if !ok {
		return "", "", ""
	}
	r, f := sel(ix.X)
	k, ok := ix.Index.(*ast.Ident)
	if !ok {
		return "", "", ""
	}
	return r, f, k.Name
}

func isIdent(e ast.Expr, n string) bool { id, ok := e.(*ast.Ident); return ok && id.Name == n }

// map addition loop over b.F; returns the field name or "" with a reason
func mapLoop(r *ast.RangeStmt, a, b string) (string, string) {
	rb, f := sel(r.X)
	k, okk := r.Key.(*ast.Ident)
	v, okv := r.Value.(*ast.Ident)
	if rb != b || f == "" || !okk || !okv || r.Tok != token.DEFINE {
		return "", "range is not `for k, v := range b.F`"
	}
	body := r.Body.List
	addAt := func(st ast.Stmt) bool {
		as, ok := st.(*ast.AssignStmt)
		if !ok || as.Tok != token.ADD_ASSIGN || len(as.Lhs) != 1 || len(as.Rhs) != 1 {
			return false
		}
		ra, fa, ka := idx(as.Lhs[0])
		return ra == a && fa == f && ka == k.Name && isIdent(as.Rhs[0], v.Name)
	}
	switch len(body) {
	case 1:
		if addAt(body[0]) {
			return f, ""
		}
	case 3:
		// _, ok := a.F[k]; if !ok { a.F[k] = v; continue }; a.F[k] += v
		as, ok := body[0].(*ast.AssignStmt)
		if !ok || as.Tok != token.DEFINE || len(as.Lhs) != 2 || len(as.Rhs) != 1 || !isIdent(as.Lhs[0], "_") {
			break
		}
		okv, isId := as.Lhs[1].(*ast.Ident)
		ra, fa, ka := idx(as.Rhs[0])
		if !isId || ra != a || fa != f || ka != k.Name {
			break
		}
		ifs, ok := body[1].(*ast.IfStmt)
		if !ok || ifs.Init != nil || ifs.Else != nil || len(ifs.Body.List) != 2 {
			break
		}
		un, ok := ifs.Cond.(*ast.UnaryExpr)
		if !ok || un.Op != token.NOT || !isIdent(un.X, okv.Name) {
			break
		}
		set, ok := ifs.Body.List[0].(*ast.AssignStmt)
		if !ok || set.Tok != token.ASSIGN || len(set.Lhs) != 1 || len(set.Rhs) != 1 {
			break
		}
		rs, fs, ks := idx(set.Lhs[0])
		br, ok := ifs.Body.List[1].(*ast.BranchStmt)
		if rs != a || fs != f || ks != k.Name || !isIdent(set.Rhs[0], v.Name) || !ok || br.Tok != token.CONTINUE {
			break
		}
		if addAt(body[2]) {
			return f, ""
		}
	}
	return "", "loop over b." + f + " is not a plain addition per key"
}

// shape of a merge function literal func(a, b *T) (*T, error)
func mergeShape(fl *ast.FuncLit) (typ string, fields []field, why string) {
	ps := fl.Type.Params.List
	var names []string
	for _, p := range ps {
		for _, n := range p.Names {
			names = append(names, n.Name)
		}
		typ = exprStr(p.Type)
	}
	if len(names) != 2 {
		return typ, nil, "merge function does not take (a, b)"
	}
	a, b := names[0], names[1]
	body := fl.Body.List
	if len(body) == 0 {
		return typ, nil, "empty body"
	}
	ret, ok := body[len(body)-1].(*ast.ReturnStmt)
	if !ok || len(ret.Results) != 2 || !isIdent(ret.Results[0], a) || !isIdent(ret.Results[1], "nil") {
		return typ, nil, "does not end with `return a, nil`"
	}
	seen := map[string]bool{}
	for _, st := range body[:len(body)-1] {
		switch x := st.(type) {
		case *ast.AssignStmt:
			if x.Tok != token.ADD_ASSIGN || len(x.Lhs) != 1 || len(x.Rhs) != 1 {
				return typ, nil, "statement is not an addition"
			}
			ra, fa := sel(x.Lhs[0])
			rb, fb := sel(x.Rhs[0])
			if ra != a || rb != b || fa == "" || fa != fb {
				return typ, nil, "addition is not a.F += b.F"
			}
			if seen[fa] {
				return typ, nil, "field " + fa + " added twice"
			}
			seen[fa] = true
			fields = append(fields, field{fa, "scalar"})
		case *ast.RangeStmt:
			f, w := mapLoop(x, a, b)
			if f == "" {
				return typ, nil, w
			}
			if seen[f] {
				return typ, nil, "field " + f + " added twice"
			}
			seen[f] = true
			fields = append(fields, field{f, "map"})
		default:
			return typ, nil, fmt.Sprintf("statement %T besides additions", st)
		}
	}
	if len(fields) == 0 {
		return typ, nil, "no addition"
	}
	return typ, fields, ""
}

func main() {
	repo := "/repo"
	if r := os.Getenv("VERIF_REPO"); r != "" {
		repo = r
	}
	dir := filepath.Join(repo, "code/go/0chain.net/smartcontract/dbs/event")
	fset := token.NewFileSet()
	pkgs, err := parser.ParseDir(fset, dir, func(fi os.FileInfo) bool {
		return !strings.HasSuffix(fi.Name(), "_test.go") && !strings.HasPrefix(fi.Name(), "verif_hooks_")
	}, 0)
	if err != nil {
		die("%v", err)
	}
	for _, p := range pkgs {
		for _, f := range p.Files {
			for _, d := range f.Decls {
				if fd, ok := d.(*ast.FuncDecl); ok && fd.Recv == nil {
					funcs[fd.Name.Name] = fd
				}
			}
		}
	}
	me := funcs["mergeEvents"]
	if me == nil {
		die("mergeEvents not found")
	}
	var list *ast.CompositeLit
	ast.Inspect(me.Body, func(n ast.Node) bool {
		vs, ok := n.(*ast.ValueSpec)
		if !ok {
			return true
		}
		for i, nm := range vs.Names {
			if nm.Name == "mergers" && i < len(vs.Values) {
				list, _ = vs.Values[i].(*ast.CompositeLit)
			}
		}
		return true
	})
	if list == nil {
		die("mergers list not found in mergeEvents")
	}
	var b strings.Builder
	b.WriteString("(* GENERATED by harness/translators/eventmergers from smartcontract/dbs/event; do not edit. *)\n" +
		"From ZC Require Import Model.EventMergeTypes.\nOpen Scope string_scope.\n\n" +
		"(* the mergers of mergeEvents, in list order: event tag, middleware kind *)\nDefinition gen_event_mergers : list (string * em_kind) := [\n")
	seen := map[string]bool{}
	var outs []mergerOut
	for i, el := range list.Elts {
		lastMergeFn = nil
		tag, kind := resolve(el)
		if seen[tag] {
			die("tag %s has two mergers", tag)
		}
		seen[tag] = true
		sep := ";"
		if i == len(list.Elts)-1 {
			sep = ""
		}
		fmt.Fprintf(&b, "  (\"%s\", %s)%s\n", tag, kind, sep)
		mo := mergerOut{Tag: tag, Kind: kind}
		if kind == "EmMerge" {
			if lastMergeFn == nil {
				die("tag %s: merge function not found", tag)
			}
			mo.Type, mo.Fields, mo.Why = mergeShape(lastMergeFn)
			mo.Additive = mo.Why == ""
		}
		outs = append(outs, mo)
	}
	b.WriteString("].\n\n(* the functions handed to withEventMerge, by tag *)\nDefinition gen_merge_fns : list (string * em_fn) := [\n")
	var rows []string
	for _, mo := range outs {
		if mo.Kind != "EmMerge" {
			continue
		}
		if !mo.Additive {
			rows = append(rows, fmt.Sprintf("  (\"%s\", MfOther) (* %s *)", mo.Tag, strings.ReplaceAll(mo.Why, "*", "x")))
			continue
		}
		var fs []string
		for _, f := range mo.Fields {
			k := "FScalar"
			if f.Kind == "map" {
				k = "FMap"
			}
			fs = append(fs, fmt.Sprintf("(\"%s\", %s)", f.Name, k))
		}
		rows = append(rows, fmt.Sprintf("  (\"%s\", MfAdd [%s])", mo.Tag, strings.Join(fs, "; ")))
	}
	// the comment of a row must stay behind the separator
	for i, r := range rows {
		sep := ";"
		if i == len(rows)-1 {
			sep = ""
		}
		if j := strings.Index(r, " (*"); j >= 0 {
			r = r[:j] + sep + r[j:]
		} else {
			r += sep
		}
		b.WriteString(r + "\n")
	}
	b.WriteString("].\n")
	js, _ := json.MarshalIndent(outs, "", " ")
	if err := os.WriteFile(filepath.Join("..", "coq", "Gen", "EventMergers.json"), append(js, '\n'), 0o644); err != nil {
		die("%v", err)
	}
	out := filepath.Join("..", "coq", "Gen", "EventMergers.v")
	old, _ := os.ReadFile(out)
	if string(old) == b.String() {
		fmt.Println("event mergers unchanged")
		return
	}
	if err := os.WriteFile(out, []byte(b.String()), 0o644); err != nil {
		die("%v", err)
	}
	fmt.Println("event mergers rewritten:", out, len(list.Elts), "mergers")
}
