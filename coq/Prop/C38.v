(* C38: The view-change phase machine follows its schedule.
   Only statements; each is closed by [exact] of a lemma in Proof/Phases.v. The phase tables are
   Gen/PhaseTable.v (regenerated from smartcontract/minersc on every run). *)
From ZC Require Import Model.Phases Proof.Phases.
Open Scope Z_scope.

(* the cycle Start -> Contribute -> Share -> Publish -> Wait -> Start, read off the generated tables *)
Theorem C38_phase_order :
  map ph_next [ph_Start; ph_Contribute; ph_Share; ph_Publish; ph_Wait] = [ph_Contribute; ph_Share; ph_Publish; ph_Wait; ph_Start].
Proof. exact ph_cycle. Qed.
Print Assumptions C38_phase_order.

(* setPhaseNode changes the phase only when view change is enabled and the current phase has run for its
   configured rounds; then either the move function and the phase function succeeded and the phase is the
   next of the cycle, or one of them failed and the phase is Start with one more restart *)
Theorem C38_phase_advances_only_on_schedule :
  forall rounds is_vc pn o pn' out kind,
    ph_set_phase_node rounds is_vc pn o = (pn', out, kind) ->
    pn_phase pn' <> pn_phase pn ->
    is_vc = true /\ rounds (pn_phase pn) <= pn_current pn - pn_start pn /\ pn_start pn' = pn_current pn /\
    ((pn_phase pn' = ph_next (pn_phase pn) /\ o_move o = FOk /\ (ph_has_func (pn_phase pn) = true -> o_func o = FOk)) \/
     (pn_phase pn' = ph_Start /\ pn_restarts pn' = pn_restarts pn + 1 /\
        (o_move o = FErr \/ (o_move o = FOk /\ o_func o = FErr)))).
Proof. exact ph_advances_only_on_schedule. Qed.
Print Assumptions C38_phase_advances_only_on_schedule.

(* the same over the stored node of consecutive blocks: a phase is left no earlier than its rounds after
   the block in which it was entered (pn_start) *)
Theorem C38_phase_dwell_time :
  forall rounds is_vc s b s' rs out pn pn',
    vc_block_step rounds is_vc s b = (s', rs, out) ->
    vs_pn s = Some pn -> vs_pn s' = Some pn' -> pn_phase pn' <> pn_phase pn ->
    is_vc = true /\ rounds (pn_phase pn) <= b_round b - pn_start pn /\ pn_start pn' = b_round b /\
    (pn_phase pn' = ph_next (pn_phase pn) \/ (pn_phase pn' = ph_Start /\ pn_restarts pn' = pn_restarts pn + 1)).
Proof. exact vc_block_phase_change. Qed.
Print Assumptions C38_phase_dwell_time.

(* when the schedule is due and everything succeeds the phase does advance *)
Theorem C38_due_and_ok_advances :
  forall rounds is_vc pn o,
    ph_due rounds is_vc pn = true -> ph_has_move (pn_phase pn) = true -> o_move o = FOk ->
    (ph_has_func (pn_phase pn) = true -> o_func o = FOk) ->
    ph_set_phase_node rounds is_vc pn o = (ph_advance pn, PSaved, KAdvance).
Proof. exact ph_success_advances. Qed.
Print Assumptions C38_due_and_ok_advances.

(* otherwise the key generation restarts at Start: phase Start from this round, one more restart, all lists emptied *)
Theorem C38_failed_move_restarts :
  forall rounds is_vc pn o,
    ph_due rounds is_vc pn = true -> ph_has_move (pn_phase pn) = true -> o_restart_ok o = true ->
    (o_move o = FErr \/ (o_move o = FOk /\ ph_has_func (pn_phase pn) = true /\ o_func o = FErr)) ->
    ph_set_phase_node rounds is_vc pn o = (ph_restart pn, PSaved, KRestart).
Proof. exact ph_failed_move_restarts. Qed.
Print Assumptions C38_failed_move_restarts.

Theorem C38_restart_clears_dkg : forall phase fresh d, dk_after_step phase KRestart fresh d = dk_cleared.
Proof. exact dk_restart_clears. Qed.
Print Assumptions C38_restart_clears_dkg.

(* a DKG transaction that is not accepted changes nothing *)
Theorem C38_rejected_dkg_txn_changes_nothing :
  forall phase d t d' r, dk_exec phase d t = (d', r) -> r <> DAccept -> d' = d.
Proof. exact dk_exec_not_accepted_unchanged. Qed.
Print Assumptions C38_rejected_dkg_txn_changes_nothing.

(* public keys: only in Contribute, only from a member of the DKG set, only with T entries, once per id *)
Theorem C38_mpk_accepted_only_in_phase_with_size :
  forall phase d s c dec n d',
    dk_contribute phase d s c dec n = (d', DAccept) ->
    phase = ph_Contribute /\ dk_mem s (dk_miners d) = true /\ dec = true /\ n = dk_T d /\
    dk_mem c (dk_mpks d) = false /\ dk_mpks d' = c :: dk_mpks d /\ dk_miners d' = dk_miners d /\ dk_T d' = dk_T d.
Proof. exact dk_contribute_accept. Qed.
Print Assumptions C38_mpk_accepted_only_in_phase_with_size.

Theorem C38_mpk_once_per_id :
  forall phase d s c dec n, dk_mem c (dk_mpks d) = true -> snd (dk_contribute phase d s c dec n) = DReject.
Proof. exact dk_contribute_once. Qed.
Print Assumptions C38_mpk_once_per_id.

(* full statement "once per participating miner": the key is recorded for the sender. Refuted: the id is read
   from the input after being preset to the sender, so a member can contribute under another member's id *)
Definition C38_mpk_recorded_for_sender_full_statement : Prop :=
  forall phase d s c dec n d', dk_contribute phase d s c dec n = (d', DAccept) -> c = s.
Theorem C38_mpk_recorded_for_sender_refuted : ~ C38_mpk_recorded_for_sender_full_statement.
Proof. exact pw_refute_contribution_for_sender. Qed.
Print Assumptions C38_mpk_recorded_for_sender_refuted.

(* shares: only in Publish, once per sender, at least K-1 entries, every non-null entry valid *)
Theorem C38_share_accepted_only_in_phase_partial :
  forall phase d s dec idk es d',
    dk_share phase d s dec idk es = (d', DAccept) ->
    phase = ph_Publish /\ dk_mem s (dk_gsos d) = false /\ dec = true /\ dk_K d - 1 <= Z.of_nat (List.length es) /\
    Forall so_entry_ok es /\ dk_gsos d' = s :: dk_gsos d.
Proof. exact dk_share_accept. Qed.
Print Assumptions C38_share_accepted_only_in_phase_partial.

Theorem C38_share_once_per_sender :
  forall phase d s dec idk es, dk_mem s (dk_gsos d) = true -> snd (dk_share phase d s dec idk es) = DReject.
Proof. exact dk_share_once. Qed.
Print Assumptions C38_share_once_per_sender.

(* full statement: the sender is a participating miner and every entry carries content. Refuted (F-38):
   shareSignsOrShares has no DKG-set membership test and Validate skips null entries *)
Definition C38_share_from_participating_miner_full_statement : Prop :=
  forall phase d s dec idk es d', dk_share phase d s dec idk es = (d', DAccept) ->
    dk_mem s (dk_miners d) = true /\ ~ In SoNil es.
Theorem C38_share_from_participating_miner_refuted : ~ C38_share_from_participating_miner_full_statement.
Proof. exact pw_refute_share_from_member. Qed.
Print Assumptions C38_share_from_participating_miner_refuted.

(* full statement: invalid DKG transactions are rejected, never fatal. Refuted: a revealed share under an id
   without MPK dereferences a nil *MPK *)
Definition C38_dkg_txn_never_panics_full_statement : Prop := forall phase d t, snd (dk_exec phase d t) <> DPanic.
Theorem C38_dkg_txn_never_panics_refuted : ~ C38_dkg_txn_never_panics_full_statement.
Proof. exact pw_refute_no_panic. Qed.
Print Assumptions C38_dkg_txn_never_panics_refuted.

Theorem C38_share_no_panic_partial : forall phase d s dec es, snd (dk_share phase d s dec true es) <> DPanic.
Proof. exact dk_share_no_panic_known_id. Qed.
Print Assumptions C38_share_no_panic_partial.

(* wait confirmations: only in Wait, once per sender *)
Theorem C38_wait_accepted_only_in_phase :
  forall phase d s d', dk_wait phase d s = (d', DAccept) ->
    phase = ph_Wait /\ dk_mem s (dk_waited d) = false /\ dk_waited d' = s :: dk_waited d.
Proof. exact dk_wait_accept. Qed.
Print Assumptions C38_wait_accepted_only_in_phase.

Theorem C38_wait_once_per_sender : forall phase d s, dk_mem s (dk_waited d) = true -> snd (dk_wait phase d s) = DReject.
Proof. exact dk_wait_once. Qed.
Print Assumptions C38_wait_once_per_sender.

(* the new magic block keeps a member of the previous set. Full statement: whenever the candidates contain a
   previous member (checked by reduceNodes / moveToShareOrPublish) the selection does too. Refuted when
   int(ceil(x_percent * maxNodes)) is not positive (x_percent is not validated by update_settings) *)
Definition C38_magic_block_keeps_prev_member_full_statement : Prop :=
  forall is_prev ceilx prev others, prev <> [] -> (forall p, In p prev -> is_prev p = true) ->
    exists l, rd_select ceilx prev others = Some l /\ rd_has_prev is_prev l = true.
Theorem C38_magic_block_keeps_prev_member_refuted : ~ C38_magic_block_keeps_prev_member_full_statement.
Proof. exact pw_refute_keeps_prev. Qed.
Print Assumptions C38_magic_block_keeps_prev_member_refuted.

Theorem C38_magic_block_keeps_prev_miner_partial :
  forall is_prev ceilx prev others, 1 <= ceilx -> prev <> [] -> (forall p, In p prev -> is_prev p = true) ->
    exists l, rd_select ceilx prev others = Some l /\ rd_has_prev is_prev l = true.
Proof. exact rd_select_keeps_prev. Qed.
Print Assumptions C38_magic_block_keeps_prev_miner_partial.

Theorem C38_magic_block_keeps_prev_sharder_partial :
  forall is_prev ceilx prev others, 1 <= ceilx -> prev <> [] -> (forall p, In p prev -> is_prev p = true) ->
    exists l, rd_sharders is_prev ceilx prev others = Some l /\ rd_has_prev is_prev l = true.
Proof. exact rd_sharders_ok. Qed.
Print Assumptions C38_magic_block_keeps_prev_sharder_partial.

(* for sharders the only other outcome is a panic: the fallback searches the already reduced list *)
Theorem C38_sharders_prev_or_panic :
  forall is_prev ceilx prev others l, rd_sharders is_prev ceilx prev others = Some l -> rd_has_prev is_prev l = true.
Proof. exact rd_sharders_has_prev. Qed.
Print Assumptions C38_sharders_prev_or_panic.

(* Non-vacuity: nine blocks over the generated tables: Start -> Contribute -> Share -> Publish with accepted,
   duplicate, out-of-set, wrong-size and out-of-phase transactions, then a failed move and the restart *)
Example C38_example :
  let '(s, l) := pw_run {| vs_pn := None; vs_dk := dk_cleared |} pw_history in
  map snd l = [PSaved; PSaved; PSaved; PSaved; PSaved; PSaved; PSaved; PSaved; PSaved] /\
  map fst l = [[]; [DReject]; []; [DAccept; DReject; DReject; DReject; DReject]; [DAccept]; []; []; [DAccept; DReject; DReject]; []] /\
  vs_pn s = Some {| pn_phase := 0; pn_start := 9; pn_current := 9; pn_restarts := 1 |} /\ vs_dk s = dk_cleared.
Proof. exact pw_history_result. Qed.

Example C38_example_stranger_share :
  snd (dk_share ph_Publish pw_dk 99 true false [SoNil; SoNil]) = DAccept /\ dk_mem 99 (dk_miners pw_dk) = false.
Proof. exact pw_stranger_share_accepted. Qed.

Example C38_example_nonpositive_x : rd_select (-1) [1] [2; 3] = None /\ rd_sharders pw_is_prev 0 [1] [2; 3] = None.
Proof. exact pw_negative_x_panics. Qed.
