(* Lemmas about the governance-settings model (property C48). *)
From ZC Require Import Model.Settings.
From Coq Require Import Sorting.Permutation Lia.
Open Scope Z_scope.

(* ---------- stores ---------- *)

Lemma st_get_set : forall s k v k',
  st_get (st_set s k v) k' = if String.eqb k k' then Some v else st_get s k'.
Proof.
  induction s as [|[k0 v0] tl IH]; intros k v k'; cbn [st_set st_get].
  - destruct (String.eqb_spec k k'); reflexivity.
  - destruct (String.eqb_spec k0 k) as [E|N]; cbn [st_get].
    + subst k0. destruct (String.eqb_spec k k'); reflexivity.
    + destruct (String.eqb_spec k0 k') as [E'|N'].
      * subst k0. destruct (String.eqb_spec k k'); [congruence|reflexivity].
      * apply IH.
Qed.

(* ---------- update = all entries evaluate, in any order ---------- *)

Definition st_eval_okb (sp : st_spec) (e : st_entry) : bool :=
  match st_eval sp e with ROk _ => true | _ => false end.

Definition st_skey (sp : st_spec) (e : st_entry) : string :=
  match st_eval sp e with ROk (k, _) => k | _ => EmptyString end.

(* value assigned to setting k by the first entry that assigns it *)
Fixpoint st_find (sp : st_spec) (es : list st_entry) (k : string) : option st_val :=
  match es with
  | [] => None
  | e :: tl => match st_eval sp e with
               | ROk (k', v) => if String.eqb k' k then Some v else st_find sp tl k
               | _ => st_find sp tl k
               end
  end.

(* the loop without the early return of faucetsc/vestingsc; equal to st_update when no entry is terminal *)
Fixpoint st_update_all (sp : st_spec) (s : st_store) (es : list st_entry) : st_res st_store :=
  match es with
  | [] => ROk s
  | e :: tl => match st_apply sp s e with
               | ROk s' => st_update_all sp s' tl
               | RReject => RReject
               | RPanic => RPanic
               end
  end.

Lemma st_update_no_terminal : forall sp es s,
  forallb (fun e => negb (st_terminal sp e)) es = true -> st_update sp s es = st_update_all sp s es.
Proof.
  induction es as [|e tl IH]; intros s H; [reflexivity|].
  cbn [forallb] in H. apply andb_prop in H as [H1 H2].
  cbn [st_update st_update_all]. destruct (st_apply sp s e); try reflexivity.
  destruct (st_terminal sp e); [discriminate|]. apply IH. exact H2.
Qed.

(* the entries the loop looks at: up to and including the first terminal one *)
Fixpoint st_reached (sp : st_spec) (es : list st_entry) : list st_entry :=
  match es with
  | [] => []
  | e :: tl => if st_terminal sp e then [e] else e :: st_reached sp tl
  end.

Lemma st_reached_all : forall sp es,
  (forall e, st_terminal sp e = false) -> st_reached sp es = es.
Proof.
  intros sp es H. induction es as [|e tl IH]; [reflexivity|].
  cbn [st_reached]. rewrite H, IH. reflexivity.
Qed.

Lemma st_update_reached_forall : forall sp es s s',
  st_update sp s es = ROk s' -> Forall (fun e => exists kv, st_eval sp e = ROk kv) (st_reached sp es).
Proof.
  induction es as [|e tl IH]; intros s s' H; [constructor|].
  cbn [st_update] in H. unfold st_apply in H. cbn [st_reached].
  destruct (st_eval sp e) as [[k v]| |] eqn:E; try discriminate.
  destruct (st_terminal sp e).
  - constructor; [eauto|constructor].
  - constructor; [eauto | eapply IH; eauto].
Qed.

Lemma st_update_all_ok_forall : forall sp es s s',
  st_update_all sp s es = ROk s' -> Forall (fun e => exists kv, st_eval sp e = ROk kv) es.
Proof.
  induction es as [|e tl IH]; intros s s' H; [constructor|].
  cbn [st_update_all] in H. unfold st_apply in H.
  destruct (st_eval sp e) as [[k v]| |] eqn:E; try discriminate.
  constructor; [eauto | eapply IH; eauto].
Qed.

Lemma st_update_all_ok_of_forall : forall sp es s,
  forallb (st_eval_okb sp) es = true -> exists s', st_update_all sp s es = ROk s'.
Proof.
  induction es as [|e tl IH]; intros s H; [eexists; reflexivity|].
  cbn [forallb] in H. apply andb_prop in H as [H1 H2].
  cbn [st_update_all]. unfold st_apply. unfold st_eval_okb in H1.
  destruct (st_eval sp e) as [[k v]| |]; try discriminate. apply IH; assumption.
Qed.

Lemma st_update_all_ok_forallb : forall sp es s s',
  st_update_all sp s es = ROk s' -> forallb (st_eval_okb sp) es = true.
Proof.
  intros sp es s s' H. apply forallb_forall. intros e He.
  pose proof (st_update_all_ok_forall _ _ _ _ H) as F. rewrite Forall_forall in F.
  destruct (F e He) as [kv E]. unfold st_eval_okb. rewrite E. reflexivity.
Qed.

Lemma st_find_none_notin : forall sp es k,
  forallb (st_eval_okb sp) es = true -> ~ In k (map (st_skey sp) es) -> st_find sp es k = None.
Proof.
  induction es as [|e tl IH]; intros k A N; [reflexivity|].
  cbn [forallb] in A. apply andb_prop in A as [A1 A2].
  cbn [st_find]. cbn [map In] in N. unfold st_eval_okb in A1. unfold st_skey in N at 1.
  destruct (st_eval sp e) as [[k' v]| |]; try discriminate.
  destruct (String.eqb_spec k' k) as [E|_]; [exfalso; apply N; left; exact E|].
  apply IH; [assumption | intro I; apply N; right; exact I].
Qed.

Lemma st_update_all_get : forall sp es s s',
  st_update_all sp s es = ROk s' -> NoDup (map (st_skey sp) es) ->
  forall k, st_get s' k = match st_find sp es k with Some v => Some v | None => st_get s k end.
Proof.
  induction es as [|e tl IH]; intros s s' H ND k.
  - cbn in H. inversion H. reflexivity.
  - pose proof (st_update_all_ok_forallb _ _ _ _ H) as AO.
    cbn [forallb] in AO. apply andb_prop in AO as [_ AOtl].
    cbn [st_update_all] in H. unfold st_apply in H. cbn [st_find].
    cbn [map] in ND. inversion ND as [|x l Hnin ND']; subst. unfold st_skey in Hnin at 1.
    destruct (st_eval sp e) as [[k1 v1]| |] eqn:E; try discriminate.
    rewrite (IH _ _ H ND' k).
    destruct (String.eqb_spec k1 k) as [Ek|Nk].
    + subst k1. rewrite (st_find_none_notin _ _ _ AOtl Hnin). rewrite st_get_set.
      rewrite String.eqb_refl. reflexivity.
    + destruct (st_find sp tl k); [reflexivity|]. rewrite st_get_set.
      destruct (String.eqb_spec k1 k); [contradiction|reflexivity].
Qed.

Lemma st_find_perm : forall sp es1 es2, Permutation es1 es2 ->
  forallb (st_eval_okb sp) es1 = true -> NoDup (map (st_skey sp) es1) ->
  forall k, st_find sp es1 k = st_find sp es2 k.
Proof.
  intros sp es1 es2 P. induction P as [|x l l' P IH|x y l|l l' l'' P1 IH1 P2 IH2]; intros A ND k.
  - reflexivity.
  - cbn [forallb] in A. apply andb_prop in A as [A1 A2]. cbn [map] in ND. inversion ND; subst.
    cbn [st_find]. rewrite (IH A2 H2 k). reflexivity.
  - cbn [forallb] in A. apply andb_prop in A as [Ay A']. apply andb_prop in A' as [Ax _].
    cbn [map] in ND. inversion ND as [|a b Hnin ND']; subst. cbn [In] in Hnin.
    cbn [st_find]. unfold st_eval_okb in Ax, Ay. unfold st_skey in Hnin.
    destruct (st_eval sp y) as [[ky vy]| |]; try discriminate.
    destruct (st_eval sp x) as [[kx vx]| |]; try discriminate.
    destruct (String.eqb_spec ky k) as [E1|N1]; destruct (String.eqb_spec kx k) as [E2|N2]; try reflexivity.
    exfalso. apply Hnin. left. congruence.
  - assert (A' : forallb (st_eval_okb sp) l' = true).
    { apply forallb_forall. intros e He. rewrite forallb_forall in A. apply A.
      eapply Permutation_in; [apply Permutation_sym; exact P1 | exact He]. }
    assert (ND' : NoDup (map (st_skey sp) l')).
    { eapply Permutation_NoDup; [apply Permutation_map; exact P1 | exact ND]. }
    rewrite (IH1 A ND k). apply IH2; assumption.
Qed.

(* outcome of two runs of the update loop: both fail, or both succeed with the same settings *)
Definition st_res_same (a b : st_res st_store) : Prop :=
  match a, b with
  | ROk x, ROk y => forall k, st_get x k = st_get y k
  | ROk _, _ | _, ROk _ => False
  | _, _ => True
  end.

Lemma st_update_all_perm : forall sp s es1 es2,
  Permutation es1 es2 -> NoDup (map (st_skey sp) es1) ->
  st_res_same (st_update_all sp s es1) (st_update_all sp s es2).
Proof.
  intros sp s es1 es2 P ND.
  destruct (forallb (st_eval_okb sp) es1) eqn:A.
  - assert (A2 : forallb (st_eval_okb sp) es2 = true).
    { apply forallb_forall. intros e He. rewrite forallb_forall in A. apply A.
      eapply Permutation_in; [apply Permutation_sym; exact P | exact He]. }
    destruct (st_update_all_ok_of_forall sp es1 s A) as [s1 H1].
    destruct (st_update_all_ok_of_forall sp es2 s A2) as [s2 H2].
    rewrite H1, H2. cbn. intro k.
    assert (ND2 : NoDup (map (st_skey sp) es2)).
    { eapply Permutation_NoDup; [apply Permutation_map; exact P | exact ND]. }
    rewrite (st_update_all_get _ _ _ _ H1 ND k), (st_update_all_get _ _ _ _ H2 ND2 k).
    rewrite (st_find_perm sp es1 es2 P A ND k). reflexivity.
  - assert (A2 : forallb (st_eval_okb sp) es2 = false).
    { destruct (forallb (st_eval_okb sp) es2) eqn:B; [|reflexivity].
      rewrite <- A. symmetry. apply forallb_forall. intros e He. rewrite forallb_forall in B. apply B.
      eapply Permutation_in; [exact P | exact He]. }
    destruct (st_update_all sp s es1) eqn:H1.
    + rewrite (st_update_all_ok_forallb _ _ _ _ H1) in A. discriminate.
    + destruct (st_update_all sp s es2) eqn:H2; cbn; auto.
      rewrite (st_update_all_ok_forallb _ _ _ _ H2) in A2. discriminate.
    + destruct (st_update_all sp s es2) eqn:H2; cbn; auto.
      rewrite (st_update_all_ok_forallb _ _ _ _ H2) in A2. discriminate.
Qed.

Lemma st_update_perm : forall sp s es1 es2,
  Permutation es1 es2 -> NoDup (map (st_skey sp) es1) ->
  forallb (fun e => negb (st_terminal sp e)) es1 = true ->
  st_res_same (st_update sp s es1) (st_update sp s es2).
Proof.
  intros sp s es1 es2 P ND T.
  assert (T2 : forallb (fun e => negb (st_terminal sp e)) es2 = true).
  { apply forallb_forall. intros e He. rewrite forallb_forall in T. apply T.
    eapply Permutation_in; [apply Permutation_sym; exact P | exact He]. }
  rewrite (st_update_no_terminal _ _ _ T), (st_update_no_terminal _ _ _ T2).
  apply st_update_all_perm; assumption.
Qed.

(* ---------- what an accepted entry is ---------- *)

(* the key names a row of the table whose flag is set, or a listed cost function *)
Definition st_listedb (sp : st_spec) (e : st_entry) : bool :=
  let k := st_ekey sp e in
  match st_lookup (sp_table sp) k with
  | Some r => st_row_flag r
  | None => match sp_cost sp with
            | CostListed fns => (prefix "cost" k &&
                                 existsb (fun f => String.eqb (st_lower (st_trim_prefix "cost." k)) (st_lower f)) fns)%bool
            | _ => false
            end
  end.

(* the escape hatch of minersc/storagesc: any key with the "cost." prefix *)
Definition st_any_costb (sp : st_spec) (e : st_entry) : bool :=
  match sp_cost sp with CostAny => st_is_cost (st_ekey sp e) | _ => false end.

Lemma st_eval_ok_listed : forall sp e kv,
  st_eval sp e = ROk kv -> st_listedb sp e = true \/ st_any_costb sp e = true.
Proof.
  intros sp e kv H. unfold st_eval in H. unfold st_listedb, st_any_costb.
  destruct (sp_cost sp) as [|fns|] eqn:C.
  - destruct (st_is_cost (st_ekey sp e)); [right; reflexivity|].
    destruct (st_lookup (sp_table sp) (st_ekey sp e)) as [r|]; [|discriminate].
    destruct (st_row_flag r); [left; reflexivity|discriminate].
  - destruct (st_lookup (sp_table sp) (st_ekey sp e)) as [r|].
    + destruct (st_row_flag r); [left; reflexivity|discriminate].
    + destruct (prefix "cost" (st_ekey sp e)); [|discriminate].
      destruct (existsb _ fns); [left; reflexivity|discriminate].
  - destruct (st_lookup (sp_table sp) (st_ekey sp e)) as [r|]; [|discriminate].
    destruct (st_row_flag r); [left; reflexivity|discriminate].
Qed.

Definition st_accepted (sp : st_spec) (e : st_entry) : Prop :=
  (st_listedb sp e = true \/ st_any_costb sp e = true) /\ exists kv, st_eval sp e = ROk kv.

Lemma st_update_ok_accepted : forall sp es s s',
  st_update sp s es = ROk s' -> Forall (st_accepted sp) (st_reached sp es).
Proof.
  intros sp es s s' H. pose proof (st_update_reached_forall _ _ _ _ H) as F.
  eapply Forall_impl; [|exact F]. intros e [kv E]. split; [eapply st_eval_ok_listed; eauto | eauto].
Qed.

(* ---------- pending-changes merge (storagesc) ---------- *)

Lemma st_pend_set_in : forall p e, In e (st_pend_set p e).
Proof.
  induction p as [|x tl IH]; intro e; cbn [st_pend_set]; [left; reflexivity|].
  destruct (String.eqb (e_key x) (e_key e)); [left; reflexivity | right; apply IH].
Qed.

Lemma st_pend_set_keeps : forall p e x, In x p -> e_key x <> e_key e -> In x (st_pend_set p e).
Proof.
  induction p as [|y tl IH]; intros e x I N; [destruct I|].
  cbn [st_pend_set]. destruct (String.eqb_spec (e_key y) (e_key e)) as [E|NE].
  - destruct I as [I|I]; [subst y; contradiction | right; exact I].
  - destruct I as [I|I]; [left; exact I | right; apply IH; assumption].
Qed.

Lemma st_merge_in : forall es p e,
  NoDup (map e_key es) -> In e es -> In e (st_merge p es).
Proof.
  unfold st_merge. induction es as [|x tl IH]; intros p e ND I; [destruct I|].
  cbn [fold_left]. cbn [map] in ND. inversion ND as [|a b Hnin ND']; subst.
  destruct I as [I|I].
  - subst x. clear IH ND. revert p Hnin. induction tl as [|y tl IH2]; intros p Hnin.
    + cbn. apply st_pend_set_in.
    + cbn [fold_left]. cbn [map In] in Hnin. inversion ND' as [|a b Hn2 ND2]; subst.
      assert (G : forall q, In e q -> In e (fold_left st_pend_set tl (st_pend_set q y))).
      { intros q Hq. revert q Hq. clear IH2. revert ND2.
        assert (Hny : e_key e <> e_key y) by (intro X; apply Hnin; left; symmetry; exact X).
        assert (Hntl : ~ In (e_key e) (map e_key tl)) by (intro X; apply Hnin; right; exact X).
        clear Hnin Hn2 ND'. revert y Hny. induction tl as [|z tl IH3]; intros y Hny ND2 q Hq.
        - cbn. apply st_pend_set_keeps; assumption.
        - cbn [fold_left]. cbn [map In] in Hntl. inversion ND2; subst.
          apply IH3.
          + intro X; apply Hntl; right; exact X.
          + intro X; apply Hntl; left; symmetry; exact X.
          + assumption.
          + apply st_pend_set_keeps; assumption. }
      apply G. apply st_pend_set_in.
  - apply IH; assumption.
Qed.

(* ---------- the step function ---------- *)

Lemma st_only_owner : forall k env s t,
  t_caller t <> st_owner k env s -> st_step k env s (OpUpdate t) = (s, OutErrOwner).
Proof.
  intros k env s t N. unfold st_step.
  destruct (String.eqb_spec (st_owner k env s) (t_caller t)) as [E|_]; [congruence|]. reflexivity.
Qed.

Ltac st_break :=
  repeat match goal with
         | |- context [match ?x with _ => _ end] =>
             lazymatch x with
             | st_spec_of _ => fail
             | _ => destruct x eqn:?
             end
         end.

Lemma st_rejected_keeps : forall k env s o,
  snd (st_step k env s o) <> OutOk -> fst (st_step k env s o) = s.
Proof.
  intros k env s o. unfold st_step.
  destruct o as [t|].
  - destruct (negb (String.eqb (st_owner k env s) (t_caller t))); [reflexivity|].
    destruct (negb (t_decodes t)); [reflexivity|].
    destruct k; cbn [st_spec_of sp_validate];
      repeat match goal with
             | |- context [st_update ?a ?b ?c] => destruct (st_update a b c) eqn:?
             | |- context [t_entries t] => destruct (t_entries t) eqn:?
             | |- context [if ?b then _ else _] => destruct b eqn:?
             end; cbn [fst snd]; intro H; try reflexivity; try (exfalso; apply H; reflexivity).
  - destruct k; cbn [fst snd]; try reflexivity.
    destruct (g_pend s); cbn [fst snd]; [reflexivity|].
    destruct (st_update _ _ _); cbn [fst snd]; try reflexivity.
    destruct (st_valid_storage a); cbn [fst snd]; intro H; [exfalso; apply H|]; reflexivity.
Qed.

(* accepted update: every entry of the request was accepted (storagesc: every entry of the merged pending map) *)
Definition st_applied (k : st_contract) (s : st_state) (o : st_op) : list st_entry :=
  match k, o with
  | KStorage, OpUpdate t => match t_entries t with [] => [] | _ => st_merge (g_pend s) (t_entries t) end
  | KStorage, OpCommit => g_pend s
  | _, OpUpdate t => t_entries t
  | _, OpCommit => []
  end.

Lemma st_step_ok_accepted : forall k env s o s',
  st_step k env s o = (s', OutOk) -> Forall (st_accepted (st_spec_of k)) (st_reached (st_spec_of k) (st_applied k s o)).
Proof.
  intros k env s o s' H. unfold st_step in H. unfold st_applied.
  destruct o as [t|].
  - destruct (negb (String.eqb (st_owner k env s) (t_caller t))); [discriminate|].
    destruct (negb (t_decodes t)); [discriminate|].
    destruct k.
    + destruct (st_update _ _ _) eqn:U; try discriminate. eapply st_update_ok_accepted; eauto.
    + destruct (st_update _ _ _) eqn:U; try discriminate. eapply st_update_ok_accepted; eauto.
    + destruct (t_entries t) eqn:T; [constructor|]. rewrite <- T in *.
      destruct (st_update _ _ _) eqn:U; try discriminate. eapply st_update_ok_accepted; eauto.
    + destruct (st_update _ _ _) eqn:U; try discriminate. eapply st_update_ok_accepted; eauto.
    + destruct (st_update _ _ _) eqn:U; try discriminate. eapply st_update_ok_accepted; eauto.
    + destruct (st_update _ _ _) eqn:U; try discriminate. eapply st_update_ok_accepted; eauto.
  - destruct k; try discriminate.
    destruct (g_pend s) eqn:P; [constructor|]. rewrite <- P in *.
    destruct (st_update _ _ _) eqn:U; try discriminate. eapply st_update_ok_accepted; eauto.
Qed.

Definition st_is_update (o : st_op) : bool := match o with OpUpdate _ => true | OpCommit => false end.

Lemma st_valid_after : forall k env s o s',
  st_valid_of k (g_conf s) = true ->
  st_step k env s o = (s', OutOk) ->
  k <> KVesting ->
  ~ (k = KStorage /\ env_demeter env = true /\ st_is_update o = true) ->
  st_valid_of k (g_conf s') = true.
Proof.
  intros k env s o s' V H NV ND. unfold st_step in H.
  destruct o as [t|].
  - destruct (negb (String.eqb (st_owner k env s) (t_caller t))); [discriminate|].
    destruct (negb (t_decodes t)); [discriminate|].
    destruct k; cbn [st_spec_of sp_validate] in H; try (exfalso; apply NV; reflexivity).
    + reflexivity.
    + destruct (st_update _ _ _) eqn:U; try discriminate.
      destruct (st_valid_miner a) eqn:W; inversion H; subst. exact W.
    + destruct (t_entries t); [inversion H; subst; exact V|].
      destruct (st_update _ _ _) eqn:U; try discriminate.
      destruct (env_demeter env) eqn:D.
      * exfalso. apply ND. auto.
      * inversion H; subst. exact V.
    + destruct (st_update _ _ _) eqn:U; try discriminate.
      destruct (st_valid_faucet a) eqn:W; inversion H; subst. exact W.
    + destruct (st_update _ _ _) eqn:U; try discriminate.
      destruct (st_valid_zcn a) eqn:W; inversion H; subst. exact W.
  - destruct k; try discriminate.
    destruct (g_pend s); [inversion H; subst; exact V|].
    destruct (st_update _ _ _) eqn:U; try discriminate.
    destruct (st_valid_storage a) eqn:W; inversion H; subst. exact W.
Qed.

(* ---------- panics ---------- *)

Definition st_ty_globals_ok (t : st_ty) : bool :=
  match t with
  | StInt | StInt64 | StInt32 | StDuration | StFloat | StBool | StString | StStrings | StCoin => true
  | _ => false
  end.

Lemma st_lookup_in : forall tbl k r, st_lookup tbl k = Some r -> In r tbl.
Proof.
  induction tbl as [|x tl IH]; intros k r H; [discriminate|].
  cbn [st_lookup] in H. destruct (String.eqb (st_row_name x) k); [inversion H; left; reflexivity | right; eauto].
Qed.

Lemma st_parse_globals_no_panic : forall t raw po,
  st_ty_globals_ok t = true -> st_parse true t raw po <> RPanic.
Proof.
  intros t raw po H. destruct t; try discriminate; cbn [st_parse]; unfold st_of_opt;
    repeat match goal with |- context [match ?x with _ => _ end] => destruct x end; discriminate.
Qed.

Lemma st_globals_table_types : forallb (fun r => st_ty_globals_ok (st_row_ty r)) gen_globals_table = true.
Proof. vm_compute. reflexivity. Qed.

Lemma st_eval_globals_no_panic : forall e, st_eval (st_spec_of KGlobals) e <> RPanic.
Proof.
  intro e. unfold st_eval. cbn [st_spec_of sp_cost sp_table sp_globals].
  destruct (st_lookup gen_globals_table _) as [r|] eqn:L; [|discriminate].
  destruct (st_row_flag r); [|discriminate].
  pose proof (st_lookup_in _ _ _ L) as I.
  pose proof st_globals_table_types as T. rewrite forallb_forall in T. specialize (T r I).
  pose proof (st_parse_globals_no_panic (st_row_ty r) (st_evalue (st_spec_of KGlobals) e) (e_po e) T).
  destruct (st_parse true (st_row_ty r) _ (e_po e)); [discriminate|discriminate|congruence].
Qed.

Lemma st_update_no_panic : forall sp es s,
  (forall e, In e es -> st_eval sp e <> RPanic) -> st_update sp s es <> RPanic.
Proof.
  induction es as [|e tl IH]; intros s H; [discriminate|].
  cbn [st_update]. unfold st_apply.
  destruct (st_eval sp e) as [[k v]| |] eqn:E.
  - destruct (st_terminal sp e); [discriminate|]. apply IH. intros x I. apply H. right. exact I.
  - discriminate.
  - exfalso. eapply H; [left; reflexivity|exact E].
Qed.

Lemma st_globals_never_panics : forall env s o, snd (st_step KGlobals env s o) <> OutPanic.
Proof.
  intros env s o. unfold st_step. destruct o as [t|]; [|cbn; discriminate].
  destruct (negb _); [cbn; discriminate|]. destruct (negb _); [cbn; discriminate|].
  pose proof (st_update_no_panic (st_spec_of KGlobals) (t_entries t) (g_conf s) (fun e _ => st_eval_globals_no_panic e)) as N.
  destruct (st_update _ _ _); cbn; try discriminate. congruence.
Qed.

Lemma st_parse_no_panic_contract : forall t raw po,
  po_zcn po <> ZcnPanic -> st_parse false t raw po <> RPanic.
Proof.
  intros t raw po H. destruct t; cbn [st_parse]; unfold st_of_opt;
    repeat match goal with |- context [match ?x with _ => _ end] => destruct x eqn:? end; try discriminate; congruence.
Qed.

Lemma st_update_contract_no_panic : forall sp es s,
  sp_globals sp = false ->
  (forall e, In e es -> po_zcn (e_po e) <> ZcnPanic) -> st_update sp s es <> RPanic.
Proof.
  intros sp es s G H. apply st_update_no_panic. intros e I. specialize (H e I).
  unfold st_eval. rewrite G.
  repeat match goal with |- context [match ?x with _ => _ end] =>
    lazymatch x with
    | st_parse _ _ _ _ => fail
    | _ => destruct x eqn:?
    end end; try discriminate.
  pose proof (st_parse_no_panic_contract (st_row_ty s0) (st_evalue sp e) (e_po e) H).
  destruct (st_parse false (st_row_ty s0) (st_evalue sp e) (e_po e)); try discriminate; congruence.
Qed.

(* contracts without the "any cost.* key" branch accept listed keys only *)
Lemma st_no_any_cost : forall k e, k <> KMiner -> k <> KStorage -> st_any_costb (st_spec_of k) e = false.
Proof. intros k e N1 N2. destruct k; try reflexivity; contradiction. Qed.

Lemma st_step_ok_listed : forall k env s o s',
  k <> KMiner -> k <> KStorage ->
  st_step k env s o = (s', OutOk) ->
  Forall (fun e => st_listedb (st_spec_of k) e = true /\ exists kv, st_eval (st_spec_of k) e = ROk kv)
         (st_reached (st_spec_of k) (st_applied k s o)).
Proof.
  intros k env s o s' N1 N2 H. pose proof (st_step_ok_accepted _ _ _ _ _ H) as F.
  eapply Forall_impl; [|exact F]. intros e [[L|A] E].
  - split; assumption.
  - rewrite (st_no_any_cost k e N1 N2) in A. discriminate.
Qed.

(* only faucetsc and vestingsc have the early return *)
Lemma st_no_terminal : forall k e, k <> KFaucet -> k <> KVesting -> st_terminal (st_spec_of k) e = false.
Proof. intros k e N1 N2. destruct k; try reflexivity; contradiction. Qed.

Lemma st_reached_all_contract : forall k es, k <> KFaucet -> k <> KVesting -> st_reached (st_spec_of k) es = es.
Proof. intros k es N1 N2. apply st_reached_all. intro e. apply st_no_terminal; assumption. Qed.
