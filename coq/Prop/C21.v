(* C21: Multisig proposals execute once, after enough distinct votes.
   Only statements; each is closed by [exact] of a lemma in Proof/Multisig.v.
   Whether a vote's signature verifies under the sender's registered key and whether the threshold
   signature could be reconstructed are inputs recorded from the real BLS library; that the
   reconstructed signature is a valid signature of the wallet is the algebra of C34 and is checked on
   the real results by the engine (SignedTransfer.VerifySignature), not proved here. *)
From ZC Require Import Model.Multisig Proof.Multisig.
Open Scope Z_scope.

(* Executes only after T distinct registered signers cast compatible, validly signed votes before
   expiry: whenever a request releases the transfer, in any history, the proposal holds exactly
   num_required (>= 2) pairwise distinct threshold ids, it is marked executed, the transfer is the
   proposal's, and every one of those ids was put there by a request of the history (this one
   included) that was well formed, carried a signature verifying under the key of a signer
   registered on that wallet, named the same recipient and amount, and arrived before the expiry. *)
Theorem C21_executes_only_after_T_distinct_valid_votes :
  forall ops signer now wallet pid to amount wf sig_ok rec,
    let st := fst (ms_run ms_init ops) in
    let tr := combine ops (snd (ms_run ms_init ops)) in
    let o := MsVote signer now wallet pid to amount wf sig_ok rec in
    forall st' f t a, ms_step st o = (st', MsExecuted f t a) ->
    exists w p', ms_wallet_get wallet (ms_wallets st') = Some w /\ ms_prop_get (wallet, pid) (ms_props st') = Some p' /\
      f = wallet /\ t = mp_to p' /\ a = mp_amount p' /\ mp_executed p' = true /\
      NoDup (mp_votes p') /\ Z.of_nat (length (mp_votes p')) = mw_required w /\ 2 <= mw_required w /\
      forall tid, In tid (mp_votes p') ->
        exists e, In e (tr ++ [(o, MsExecuted f t a)]) /\ ms_cast w wallet pid p' tid e.
Proof. exact ms_execution_justified. Qed.
Print Assumptions C21_executes_only_after_T_distinct_valid_votes.

(* Executes once: while an executed proposal is stored, a vote on it releases nothing *)
Theorem C21_executes_once :
  forall st signer now wallet pid to amount wf sig_ok rec p,
    ms_prop_get (wallet, pid) (ms_props (ms_prune_head st now)) = Some p -> mp_executed p = true ->
    let out := snd (ms_step st (MsVote signer now wallet pid to amount wf sig_ok rec)) in
    out = MsAlreadyExecuted \/ out = MsFail.
Proof. exact ms_executed_no_more. Qed.
Print Assumptions C21_executes_once.

(* ... and in every reachable state a proposal is marked executed exactly when it holds
   num_required distinct votes of registered signers, never more *)
Theorem C21_reachable_invariant :
  forall ops, ms_inv (fst (ms_run ms_init ops)).
Proof. exact (fun ops => ms_run_inv ops ms_init ms_inv_init). Qed.
Print Assumptions C21_reachable_invariant.

(* Repeated votes by the same signer do not count: the answer is "already voted" with the unchanged
   number of missing votes (or the request is refused), and no proposal changes *)
Theorem C21_repeat_votes_dont_count :
  forall st signer now wallet pid to amount wf sig_ok rec p w tid,
    ms_prop_get (wallet, pid) (ms_props (ms_prune_head st now)) = Some p ->
    ms_wallet_get wallet (ms_wallets st) = Some w -> ms_tid_of signer (mw_signers w) = Some tid ->
    In tid (mp_votes p) ->
    let r := ms_step st (MsVote signer now wallet pid to amount wf sig_ok rec) in
    (snd r = MsFail /\ fst r = st) \/
    ((snd r = MsAlreadyExecuted \/ snd r = MsAlreadyVoted (mw_required w - Z.of_nat (length (mp_votes p)))) /\
     fst r = ms_prune_head st now).
Proof. exact ms_repeat_vote. Qed.
Print Assumptions C21_repeat_votes_dont_count.

(* A vote counts only in the two outcomes "need n more" and "executed", and then it is well formed,
   validly signed by a registered signer who has not voted yet, compatible and in time *)
Theorem C21_only_valid_votes_count :
  forall st signer now wallet pid to amount wf sig_ok rec st' out,
    ms_inv st ->
    ms_step st (MsVote signer now wallet pid to amount wf sig_ok rec) = (st', out) ->
    (exists n, out = MsNeed n) \/ (exists f t a, out = MsExecuted f t a) ->
    let st1 := ms_prune_head st now in
    let p := ms_target st1 now wallet pid to amount in
    wf = true /\ sig_ok = true /\ now < mp_expire p /\ mp_to p = to /\ mp_amount p = amount /\
    mp_executed p = false /\
    exists w tid p', ms_wallet_get wallet (ms_wallets st) = Some w /\ ms_tid_of signer (mw_signers w) = Some tid /\
      ~ In tid (mp_votes p) /\
      ms_prop_get (wallet, pid) (ms_props st') = Some p' /\ mp_votes p' = mp_votes p ++ [tid] /\
      mp_expire p' = mp_expire p /\ mp_to p' = to /\ mp_amount p' = amount /\
      (forall r, r <> (wallet, pid) -> ms_prop_get r (ms_props st') = ms_prop_get r (ms_props st1)) /\
      ms_wallets st' = ms_wallets st /\
      ((exists n, out = MsNeed n /\ n = mw_required w - Z.of_nat (length (mp_votes p')) /\ 0 < n /\ mp_executed p' = false) \/
       (out = MsExecuted wallet to amount /\ Z.of_nat (length (mp_votes p')) = mw_required w /\ mp_executed p' = true /\ rec = true)).
Proof. exact ms_vote_counted. Qed.
Print Assumptions C21_only_valid_votes_count.

(* A vote on a stored proposal whose week is over is refused and changes nothing *)
Theorem C21_expired_not_executed :
  forall st signer now wallet pid to amount wf sig_ok rec p,
    ms_prop_get (wallet, pid) (ms_props (ms_prune_head st now)) = Some p -> mp_expire p <= now ->
    ms_step st (MsVote signer now wallet pid to amount wf sig_ok rec) = (st, MsFail).
Proof. exact ms_expired_refused. Qed.
Print Assumptions C21_expired_not_executed.

(* Non-vacuity: a 2-of-3 wallet; a repeat, an outsider, a bad signature, the execution, a vote after
   it, an incompatible vote, a vote exactly at expiry, and the proposal id used again after pruning *)
Example C21_example :
  let v s now pid amt ok := MsVote s now 1 pid 5 amt true ok true in
  snd (ms_run ms_init
    [MsRegister 1 1 [(11, 1); (12, 2); (13, 3)] 2 true; MsRegister 1 1 [(11, 1); (12, 2); (13, 3)] 2 true;
     v 11 1000 0 7 true; v 11 1001 0 7 true; v 99 1002 0 7 true; v 12 1003 0 7 false; v 12 1004 0 8 true;
     v 12 1005 0 7 true; v 13 1006 0 7 true;
     v 11 2000 1 7 true; v 12 (2000 + ms_week) 1 7 true; v 12 (1999 + ms_week) 1 7 true;
     v 13 (1000 + ms_week + 5) 0 7 true])
  = [MsRegistered; MsFail; MsNeed 1; MsAlreadyVoted 1; MsFail; MsFail; MsFail; MsExecuted 1 5 7; MsAlreadyExecuted;
     MsNeed 1; MsFail; MsExecuted 1 5 7; MsNeed 1].
Proof. vm_compute. reflexivity. Qed.
