package main

import (
	"fmt"
	"sort"
	"strings"

	"verifharness/vh"
)

type op struct {
	Kind     string  `json:"kind"`                // update | commit
	Caller   string  `json:"caller"`              // "owner" (resolved to the contract's current owner), or a literal client id
	RawInput bool    `json:"raw_input,omitempty"` // Raw holds the exact input bytes (malformed-input stream)
	Raw      string  `json:"raw,omitempty"`
	Entries  []entry `json:"entries,omitempty"` // otherwise {"fields":{...}} is built in this order
}

type hist struct {
	Contract int    `json:"contract"`
	Demeter  bool   `json:"demeter,omitempty"`
	Cached   bool   `json:"cached,omitempty"`
	Probe    string `json:"probe,omitempty"` // directed history (name), repeated more often
	Ops      []op   `json:"ops"`
}

const otherClient = "00ff00ff00ff00ff00ff00ff00ff00ff00ff00ff00ff00ff00ff00ff00ff00ff"

func names(k int) []string {
	ns := make([]string, 0, len(specs[k]))
	for n := range specs[k] {
		ns = append(ns, n)
	}
	sort.Strings(ns)
	return ns
}

func pick(r *vh.Rand, xs []string) string { return xs[r.Intn(len(xs))] }

// value generators by kind: good = parses and is usually in the valid range; odd = parses but likely
// fails validation or sits at a limit; bad = does not parse.
func genValue(r *vh.Rand, kind string, class int) string {
	switch kind {
	case "int", "int64", "cost", "cost+", "int32", "coinI", "coinU64":
		switch class {
		case 0:
			return fmt.Sprint(r.Range(1, 60))
		case 1:
			return pick(r, []string{"0", "-1", "-7", "1", "2147483647", "2147483648", "-2147483648", "-2147483649", "9007199254740993",
				"9223372036854775807", "+5", "007", "-0", "18446744073709551615"})
		default:
			return pick(r, []string{"x", "", "1.5", "9223372036854775808", "18446744073709551616", "0x10", "1e3", "1_000", "٣", " 5", "5 ", "--1", "true"})
		}
	case "duration":
		switch class {
		case 0:
			return pick(r, []string{"90m", "2h", "1h30m", "45m", "10h", "3h", "100s", "24h", "1.5h"})
		case 1:
			return pick(r, []string{"0", "0s", "1s", "999ms", "-5s", "1ns", "1000000h", "2562047h", "1us"})
		default:
			return pick(r, []string{"1", "1d", "h", "", "3000000h", "1 h", "ten", "1h-"})
		}
	case "float":
		switch class {
		case 0:
			return pick(r, []string{"0.5", "0.25", "0.125", "1", "0", "0.75", "1e-3", "0.1", "0.66", "5e-1", "0x1p-2"})
		case 1:
			return pick(r, []string{"-0.1", "1.0001", "1.5", "-1", "2", "NaN", "Inf", "-Inf", "-0", "1e308", "5e-324", "+0.5", "nan", "infinity"})
		default:
			return pick(r, []string{"abc", "", "1e400", "0.5.1", "1,5", "½", ".", "0x"})
		}
	case "coin", "coinCast", "coinMult":
		switch class {
		case 0:
			return pick(r, []string{"1", "10", "0.5", "100", "0.001", "1000", "25.5", "3", "200", "50000"})
		case 1:
			return pick(r, []string{"0", "0.0000000001", "922337203.6854775807", "1e-10", "-0", "900000000", "0.00000000009", "1e9", "1e300", "-1", "-0.5", "922337204", "1844674407.4"})
		default:
			return pick(r, []string{"abc", "", "1e400", "1 0", "0.5.1", "$5"})
		}
	case "bool":
		switch class {
		case 0, 1:
			return pick(r, []string{"true", "false", "1", "0", "T", "F", "TRUE", "False", "t"})
		default:
			return pick(r, []string{"yes", "no", "", "2", "tru", "on"})
		}
	case "key":
		switch class {
		case 0:
			return pick(r, []string{"1746b06bb09f55ee01b33b5e2e055d6cc7a900cb57c0a3a5eaabb8a0e7745802", "ab12", "00", "DEADBEEF"})
		case 1:
			return pick(r, []string{"", "a0"})
		default:
			return pick(r, []string{"zz", "abc", "0x12", "12 34", "g0"})
		}
	default: // string, strings
		return pick(r, []string{"static", "dynamic", "ed25519", "bls0chain", "a,b,c", "", "all_miners", "x y", "\"q\""})
	}
}

// nonfinite values for coin settings: only placed in requests whose other entries are all fine
var nonFinite = []string{"NaN", "Inf", "-Inf", "+Inf", "nan", "infinity"}

func genEntry(r *vh.Rand, k int, ns []string) entry {
	x := r.Intn(100)
	name := pick(r, ns)
	kind := specs[k][name].kind
	switch {
	case x < 58:
		return entry{name, genValue(r, kind, 0)}
	case x < 70:
		return entry{name, genValue(r, kind, 1)}
	case x < 80:
		return entry{name, genValue(r, kind, 2)}
	case x < 90:
		// unknown / misspelt keys
		switch r.Intn(8) {
		case 0:
			return entry{name + "x", genValue(r, kind, 0)}
		case 1:
			return entry{"nope", "1"}
		case 2:
			return entry{strings.ToUpper(name), genValue(r, kind, 0)}
		case 3:
			return entry{" " + name, genValue(r, kind, 0)} // storagesc trims: known there
		case 4:
			return entry{"cost.bogus", "5"}
		case 5:
			return entry{"cost", "5"}
		case 6:
			return entry{"", "1"}
		default:
			return entry{"cost.", "3"}
		}
	default:
		// a value with surrounding blanks (storagesc trims values)
		return entry{name, " " + genValue(r, kind, 0) + "\t"}
	}
}

func settingOf(k int, e entry) string { return specEval(k, e).setting }

func genRequest(r *vh.Rand, k int, ns []string) []entry {
	n := r.Range(0, 6)
	if r.Chance(1, 10) {
		n = r.Range(7, 12)
	}
	var es []entry
	seenKey, seenSetting := map[string]bool{}, map[string]bool{}
	for len(es) < n {
		e := genEntry(r, k, ns)
		s := settingOf(k, e)
		if seenKey[e.K] || seenSetting[s] { // Go map keys are distinct; aliases are exercised by the directed probes only
			n--
			continue
		}
		seenKey[e.K], seenSetting[s] = true, true
		es = append(es, e)
	}
	// occasionally: all entries fine plus one non-finite coin value
	if r.Chance(1, 25) {
		var coins []string
		for _, nm := range ns {
			if specs[k][nm].kind == "coin" && !seenSetting[nm] {
				coins = append(coins, nm)
			}
		}
		if len(coins) > 0 {
			good := []entry{}
			for _, e := range es {
				if specEval(k, e).status == stValid {
					good = append(good, e)
				}
			}
			es = append(good, entry{pick(r, coins), pick(r, nonFinite)})
		}
	}
	return es
}

var rawInputs = []string{
	`not json`, ``, `null`, `{}`, `{"fields":null}`, `{"fields":[]}`, `{"fields":{"max_n":7}}`, `[1,2]`, `"str"`,
	`{"fields":{"max_delegates":"7"},"extra":1}`, `{"fields":{"max_delegates":"7","max_delegates":"8"}}`, `{"fields":{"a":"b"}`,
	`{"Fields":{"max_delegates":"9"}}`, `{"fields":{"max_delegates":null}}`,
}

func genHist(r *vh.Rand, k int) hist {
	h := hist{Contract: k, Cached: r.Bool()}
	if k == kStorage {
		h.Demeter = r.Chance(1, 3)
	}
	ns := names(k)
	nops := r.Range(2, 7)
	prevOwner := ""
	// storagesc keeps every request in one pending map: the same setting must not arrive under two spellings
	// in a random history (aliases are order-dependent; the directed probes exercise them)
	spelt := map[string]string{}
	noAlias := func(es []entry) []entry {
		if k != kStorage {
			return es
		}
		var out []entry
		for _, e := range es {
			s := settingOf(k, e)
			if k0, ok := spelt[s]; ok && k0 != e.K {
				continue
			}
			spelt[s] = e.K
			out = append(out, e)
		}
		return out
	}
	for i := 0; i < nops; i++ {
		x := r.Intn(100)
		switch {
		case k == kStorage && x < 25:
			caller := "owner"
			if r.Bool() {
				caller = otherClient
			}
			h.Ops = append(h.Ops, op{Kind: "commit", Caller: caller})
		case x < 80:
			es := genRequest(r, k, ns)
			if _, ok := specs[k]["owner_id"]; ok && r.Chance(1, 14) {
				// hand the contract over to a new owner (valid change)
				no := fmt.Sprintf("%064x", r.U64())
				var es2 []entry
				for _, e := range es {
					if settingOf(k, e) != "owner_id" && specEval(k, e).status == stValid {
						es2 = append(es2, e)
					}
				}
				es = append(es2, entry{"owner_id", no})
				prevOwner = "1746b06bb09f55ee01b33b5e2e055d6cc7a900cb57c0a3a5eaabb8a0e7745802"
			}
			h.Ops = append(h.Ops, op{Kind: "update", Caller: "owner", Entries: noAlias(es)})
		case x < 90:
			c := otherClient
			if prevOwner != "" && r.Bool() {
				c = prevOwner
			}
			if r.Chance(1, 6) {
				c = ""
			}
			h.Ops = append(h.Ops, op{Kind: "update", Caller: c, Entries: noAlias(genRequest(r, k, ns))})
		default:
			h.Ops = append(h.Ops, op{Kind: "update", Caller: "owner", RawInput: true, Raw: pick(r, rawInputs)})
		}
	}
	return h
}

// directed histories: every trigger known from reading the code, plus a few regular ones, run on every check
func probes() []hist {
	fill := func(k int, n int) []entry { // harmless valid entries used to spread the Go map iteration start
		var out []entry
		for _, nm := range names(k) {
			if len(out) == n {
				break
			}
			sp := specs[k][nm]
			if nm == "owner_id" || strings.HasPrefix(nm, "cost.") || sp.kind == "key" {
				continue
			}
			switch sp.kind {
			case "float":
				out = append(out, entry{nm, "0.5"})
			case "bool":
				out = append(out, entry{nm, "true"})
			}
		}
		return out
	}
	upd := func(es ...entry) op { return op{Kind: "update", Caller: "owner", Entries: es} }
	join := func(a entry, mid []entry, b entry) op {
		return upd(append(append([]entry{a}, mid...), b)...)
	}
	var ps []hist
	// chain globals: every mutable key with the boundary values of its declared type (what is accepted must be read
	// back by every node: readback.go)
	bounds := map[string][]string{
		"int":      {"2147483647", "2147483648", "-2147483649", "9223372036854775807", "9223372036854775808", "-1", "x"},
		"int32":    {"2147483647", "2147483648", "-2147483648", "-2147483649", "9223372036854775807", "-1", "x"},
		"int64":    {"2147483648", "9223372036854775807", "9223372036854775808", "-9223372036854775808", "-1", "1.5", "x"},
		"coinI":    {"2147483648", "9223372036854775807", "9223372036854775808", "18446744073709551615", "-1", "x"},
		"duration": {"2562047h", "2562048h", "9223372036854775807ns", "-5s", "1000000h", "5", "x"},
		"float":    {"1e308", "1e309", "-1e308", "NaN", "Inf", "5e-324", "x"},
		"bool":     {"true", "T", "1", "yes", "2", ""},
	}
	for _, nm := range names(kGlobals) {
		sp := specs[kGlobals][nm]
		vals, ok := bounds[sp.kind]
		if !sp.mutable || !ok {
			continue
		}
		h := hist{Contract: kGlobals, Probe: "global-boundary-" + nm}
		for _, v := range vals {
			h.Ops = append(h.Ops, upd(entry{nm, v}))
		}
		ps = append(ps, h)
		if sp.kind == "float" {
			// non-finite spellings one by one (each fee key on its own: ConfigImpl.Update hands both to currency.ParseZCN)
			h2 := hist{Contract: kGlobals, Probe: "global-nonfinite-" + nm}
			for _, v := range []string{"NaN", "nan", "Inf", "+Inf", "-Inf", "infinity", "1e309", "-1e309"} {
				h2.Ops = append(h2.Ops, upd(entry{nm, v}))
			}
			ps = append(ps, h2)
		}
	}
	// duration pairs the validate() functions compare: values around the boundary with sub-second parts (equal in
	// seconds but different in ns, +-1ns, +-999ms)
	durPairs := []struct {
		k      int
		lo, hi string
		name   string
	}{{kVesting, "min_duration", "max_duration", "vestingsc"}, {kFaucet, "individual_reset", "global_rest", "faucetsc"}}
	for _, dp := range durPairs {
		for _, base := range []string{"2s", "1h"} {
			h := hist{Contract: dp.k, Probe: "duration-boundary-" + dp.name + "-" + base}
			for _, hiV := range []string{base + "900ms", base + "999ms", base + "1ns", base, base + "1000ms", base + "1001ms"} {
				h.Ops = append(h.Ops, upd(entry{dp.lo, base}, entry{dp.hi, hiV}))
			}
			// the lower one just below / above the upper one
			h.Ops = append(h.Ops, upd(entry{dp.hi, "3h"}, entry{dp.lo, "2h59m59s999ms"}), upd(entry{dp.hi, "3h"}, entry{dp.lo, "3h0m0s1ns"}), upd(entry{dp.lo, "999ms"}), upd(entry{dp.lo, "1s"}))
			ps = append(ps, h)
		}
	}
	// aliases: two distinct request keys that name one setting
	ps = append(ps, hist{Contract: kStorage, Probe: "alias-storagesc-blank", Ops: []op{
		join(entry{" max_delegates", "7"}, fill(kStorage, 6), entry{"max_delegates", "9"}), {Kind: "commit", Caller: otherClient}}})
	ps = append(ps, hist{Contract: kFaucet, Probe: "alias-faucetsc-cost-case", Ops: []op{
		upd(entry{"cost.POUR", "7"}, entry{"cost.refill", "1"}, entry{"cost.update-settings", "2"}, entry{"cost.pour", "9"})}})
	ps = append(ps, hist{Contract: kVesting, Probe: "alias-vestingsc-cost-case", Ops: []op{
		upd(entry{"cost.ADD", "7"}, entry{"cost.stop", "1"}, entry{"cost.delete", "2"}, entry{"cost.unlock", "3"}, entry{"cost.add", "9"})}})
	// unlisted cost keys
	ps = append(ps, hist{Contract: kMiner, Probe: "unknown-cost-minersc", Ops: []op{upd(entry{"cost.bogus", "5"})}})
	ps = append(ps, hist{Contract: kStorage, Probe: "unknown-cost-storagesc", Ops: []op{upd(entry{"cost.bogus", "5"}), {Kind: "commit", Caller: "owner"}}})
	// validation not run
	ps = append(ps, hist{Contract: kVesting, Probe: "vestingsc-invalid", Ops: []op{upd(entry{"max_destinations", "0"}), upd(entry{"min_duration", "0s"})}})
	ps = append(ps, hist{Contract: kStorage, Demeter: true, Probe: "storagesc-demeter-invalid", Ops: []op{upd(entry{"max_delegates", "0"}, entry{"validator_reward", "7.5"})}})
	ps = append(ps, hist{Contract: kStorage, Probe: "storagesc-invalid-commit", Ops: []op{upd(entry{"max_delegates", "0"}), {Kind: "commit", Caller: "owner"}, upd(entry{"max_delegates", "5"}), {Kind: "commit", Caller: otherClient}}})
	// non-finite coin values
	ps = append(ps, hist{Contract: kMiner, Probe: "nan-minersc", Ops: []op{upd(entry{"min_stake", "NaN"})}})
	ps = append(ps, hist{Contract: kStorage, Probe: "nan-storagesc", Ops: []op{upd(entry{"max_stake", "Inf"})}})
	ps = append(ps, hist{Contract: kFaucet, Probe: "nan-faucetsc", Ops: []op{upd(entry{"pour_amount", "-Inf"})}})
	ps = append(ps, hist{Contract: kZcn, Probe: "nan-zcnsc", Ops: []op{upd(entry{"min_mint", "nan"})}})
	// float -> coin casts without a range check
	ps = append(ps, hist{Contract: kVesting, Probe: "cast-vestingsc", Ops: []op{upd(entry{"min_lock", "1e300"}), upd(entry{"min_lock", "NaN"})}})
	ps = append(ps, hist{Contract: kZcn, Probe: "cast-zcnsc", Ops: []op{upd(entry{"max_fee", "-5"}), upd(entry{"max_fee", "NaN"})}})
	// a rejected request whose first (sorted) entries are cost writes, on a warm state cache, then a read in the same block
	ps = append(ps, hist{Contract: kMiner, Cached: true, Probe: "rejected-cost-write-warm-cache", Ops: []op{
		upd(entry{"max_n", "100"}),
		upd(entry{"cost.add_miner", "999999"}, entry{"min_n", "1000"}),
		upd(entry{"cost.add_sharder", "5"})}})
	ps = append(ps, hist{Contract: kStorage, Cached: true, Demeter: true, Probe: "rejected-cost-write-warm-cache-storagesc", Ops: []op{
		upd(entry{"cost.read_redeem", "999999"}, entry{"max_delegates", "0"}),
		upd(entry{"cost.add_blobber", "5"})}})
	// regular: several invalid at once, owner hand-over, old owner locked out
	for k := 0; k < nContracts; k++ {
		ns := names(k)
		var good entry
		for _, nm := range ns {
			if kd := specs[k][nm].kind; specs[k][nm].mutable && (kd == "int" || kd == "int64" || kd == "duration") && nm != "min_n" && nm != "min_s" {
				good = entry{nm, map[string]string{"int": "7", "int64": "7", "duration": "2h"}[kd]}
				break
			}
		}
		ps = append(ps, hist{Contract: k, Probe: "several-invalid-" + kName[k], Ops: []op{
			upd(good, entry{"nope", "1"}, entry{good.K + "_", "x"}, entry{"cost", "-1"}),
			{Kind: "update", Caller: otherClient, Entries: []entry{good}},
			upd(good)}})
		if _, ok := specs[k]["owner_id"]; ok && k != kZcn {
			ps = append(ps, hist{Contract: k, Probe: "handover-" + kName[k], Ops: []op{
				upd(entry{"owner_id", "ab12"}),
				{Kind: "update", Caller: "1746b06bb09f55ee01b33b5e2e055d6cc7a900cb57c0a3a5eaabb8a0e7745802", Entries: []entry{good}},
				{Kind: "update", Caller: "ab12", Entries: []entry{good}}}})
		}
	}
	return ps
}
