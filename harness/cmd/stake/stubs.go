package main

import (
	"fmt"
	"time"

	cstate "0chain.net/chaincore/chain/state"
	"0chain.net/smartcontract/provider"
	"0chain.net/smartcontract/stakepool"
	"0chain.net/smartcontract/stakepool/spenum"
	"0chain.net/smartcontract/storagesc"
	"github.com/0chain/common/core/currency"
	"verifharness/sc"
	"verifharness/vh"
)

func runC22(o vh.Opts) { panic("not yet") }
func runC23(o vh.Opts) {
	setupConfig(0.5, time.Second)
	e := newEnv()
	e.must(func(ctx *cstate.StateContext) error {
		if err := storagesc.InitConfig(ctx); err != nil {
			return err
		}
		return storagesc.InitPartitions(ctx)
	})
	bid := hexID(10)
	e.must(func(ctx *cstate.StateContext) error {
		sps := stakepool.Settings{DelegateWallet: hexID(11), MaxNumDelegates: 10, ServiceChargeRatio: 0.1}
		b := storagesc.VerifNewBlobberNode(bid, 5, sps, 1)
		if _, err := ctx.InsertTrieNode(b.GetKey(), b); err != nil {
			return err
		}
		sp := stakepool.NewStakePool()
		sp.Settings = sps
		sp.Minter = cstate.MinterStorage
		sp.Pools[hexID(20)] = &stakepool.DelegatePool{Balance: 1000, DelegateID: hexID(20)}
		return storagesc.VerifPutStakePool(spenum.Blobber, bid, sp, 0, ctx)
	})
	for _, caller := range []int{20, 11, ownerIdx} {
		r := e.exec(sc.Txn(hexID(2), hexID(caller), storagesc.ADDRESS, 0, 10), func(ctx *cstate.StateContext) (string, error) {
			return e.ssc.Execute(ctx.GetTransaction(), "shutdown_blobber", (&provider.ProviderRequest{ID: bid}).Encode(), ctx)
		})
		fmt.Println("caller", caller, "err", r.Err, "panic", r.Panic)
		e.view(func(ctx *cstate.StateContext) {
			for _, id := range []string{bid, hexID(caller)} {
				sp, off, err := storagesc.VerifGetStakePool(spenum.Blobber, id, ctx)
				if err != nil {
					fmt.Println("  pool", id[60:], "err", err)
					continue
				}
				fmt.Println("  pool", id[60:], "dead", sp.HasBeenKilled, "off", off, "bal", sp.Pools[hexID(20)].Balance)
			}
			k, s, err := storagesc.VerifBlobberFlags(bid, ctx)
			fmt.Println("  blobber killed", k, "shutdown", s, err)
		})
	}
	_ = currency.Coin(0)
}
