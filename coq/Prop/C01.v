(* C01: total token supply is conserved by every transaction.
   Only statements; each is closed by [exact] of a lemma in Proof/ChainStateC01.v.

   History of this file: with the lenient encryption.IsHash (upper-case hex accepted) the
   statement was false of the code - a transfer to the other-case spelling of an existing account
   id was applied and its credit never reached the trie ([cs_commit] in Model/ChainState.v).  That
   was repaired in /repo (IsHash accepts only the canonical lower-case spelling).  How IsHash
   treats other spellings is an input of the model ([cfg_strict_ids], probed on the real code every
   run); the theorems for the code as it is carry [cfg_strict_ids cfg = true].  The refutation for
   the lenient configuration is kept as the record of the repaired defect. *)
From ZC Require Import Model.ChainState Proof.ChainState Proof.ChainStateC01.
Open Scope Z_scope.

(* ---------- the code as it is: strict IsHash ---------- *)

(* Every transaction that can reach updateState - sender id derived from a public key, uint64
   amounts, destinations of queued transfers accepted by StateContext.AddTransfer (which refuses
   the others; signed transfers are unrestricted) - conserves the supply: every
   state with canonical leaves, every transaction type, value, fee and nonce, every contract
   oracle result (success with arbitrary writes / queued / signed transfers from ANY source,
   chargeable failure, internal failure), any Send destination whatsoever. *)
Theorem C01_update_state_conserves :
  forall cfg st round tx r,
    cfg_strict_ids cfg = true -> cs_canon_accts (st_accts st) -> cs_reachable_txn cfg tx r ->
    cs_total (st_accts (cs_post st (cs_update_state cfg st round tx r))) = cs_total (st_accts st).
Proof. exact cs_c01_update_reachable. Qed.
Print Assumptions C01_update_state_conserves.

(* ... hence every reachable history does, and its leaves stay canonical (so the hypothesis on
   the state is an invariant, established by genesis). *)
Theorem C01_history_conserves :
  forall cfg h st,
    cfg_strict_ids cfg = true -> cs_canon_accts (st_accts st) -> Forall (cs_reachable_item cfg) h ->
    cs_total (st_accts (cs_run cfg st h)) = cs_total (st_accts st) /\
    cs_canon_accts (st_accts (cs_run cfg st h)).
Proof. exact cs_c01_history_reachable. Qed.
Print Assumptions C01_history_conserves.

(* The supply is MaxTokenSupply in every state reachable from a genesis distribution. *)
Theorem C01_supply_is_max_token_supply :
  forall gs m cfg nodes h,
    cfg_strict_ids cfg = true ->
    NoDup (cs_gen_ids gs) -> cs_genesis gs = Some m ->
    cs_canon_accts m -> Forall (cs_reachable_item cfg) h ->
    cs_total (st_accts (cs_run cfg {| st_accts := m; st_nodes := nodes |} h)) = cs_max_supply.
Proof. exact cs_c01_reachable_supply_strict. Qed.
Print Assumptions C01_supply_is_max_token_supply.

(* A send to an upper-case spelling is now refused: not applied, state unchanged. *)
Theorem C01_uppercase_destination_rejected :
  forall cfg st round tx r,
    cfg_strict_ids cfg = true -> tx_type tx = TSend -> cs_upper_base <= tx_to tx ->
    cs_is_applied (cs_update_state cfg st round tx r) = false /\
    cs_post st (cs_update_state cfg st round tx r) = st.
Proof. exact cs_c01_uppercase_send_rejected. Qed.
Print Assumptions C01_uppercase_destination_rejected.

(* Signed transfers: updateState checks their destinations itself (repaired, 4b90b55): a call that
   signed a transfer to an id the strict IsHash refuses fails the whole transaction. *)
Theorem C01_signed_noncanonical_destination_rejected :
  forall cfg st round tx ws trs signed evs out,
    cfg_strict_ids cfg = true -> tx_type tx = TSC ->
    Exists (fun t => ~ cs_canon_id (tr_to t)) signed ->
    cs_is_applied (cs_update_state cfg st round tx (SCOk ws trs signed evs out)) = false /\
    cs_post st (cs_update_state cfg st round tx (SCOk ws trs signed evs out)) = st.
Proof. exact cs_c01_signed_noncanonical_rejected. Qed.
Print Assumptions C01_signed_noncanonical_destination_rejected.

Example C01_signed_example :
  let tx := {| tx_hash := 0; tx_type := TSC; tx_from := 3; tx_to := 1; tx_value := 0; tx_fee := 0; tx_nonce := 1 |} in
  let r := SCOk [] [] [Build_cs_transfer 3 (cs_upper_base + 4) 100] [] 0 in
  cs_update_state cs_c01_strict_cfg cs_c01_witness_state 7 tx r = Rejected ErrBadTo.
Proof. exact cs_c01_signed_example. Qed.

(* ---------- configuration-independent facts and the repaired defect ---------- *)

(* One applied transfer (transferAmountWithAssert) leaves the sum of all balances unchanged; a
   refused one returns an error (the caller then drops the transaction's trie); the assertion
   panic is unreachable. *)
Theorem C01_transfer_amount_sum :
  forall sp m t,
    (exists m', cs_transfer_assert sp m t = ROk m' /\ cs_total m' = cs_total m) \/
    (exists e, cs_transfer_assert sp m t = RErr e).
Proof. exact cs_c01_transfer_failure_keeps. Qed.
Print Assumptions C01_transfer_amount_sum.

(* The statement over every configuration, the lenient IsHash included ... *)
Definition C01_full_statement : Prop :=
  forall cfg st round tx r,
    cs_total (st_accts (cs_post st (cs_update_state cfg st round tx r))) = cs_total (st_accts st).

(* ... is false: this was the defect (witness below uses cfg_strict_ids := false). *)
Theorem C01_supply_refuted : ~ C01_full_statement.
Proof. exact cs_c01_refuted. Qed.
Print Assumptions C01_supply_refuted.

(* the witness: accounts 3 and 4 hold 1000 each; 3 sends 100 to the upper-case spelling of 4's
   id; the transaction is applied, 3 is debited, no leaf is credited: 2000 -> 1900 *)
Theorem C01_refutation_witness :
  let st' := cs_post cs_c01_witness_state
               (cs_update_state cs_c01_witness_cfg cs_c01_witness_state 7 cs_c01_witness_txn SCInternal) in
  cs_total (st_accts cs_c01_witness_state) = 2000 /\ cs_total (st_accts st') = 1900 /\
  map fst (st_accts st') = [3; 4].
Proof. exact cs_c01_witness. Qed.
Print Assumptions C01_refutation_witness.

(* Inside the transaction's own StateContext the supply is conserved for every id, every
   configuration, transaction and contract oracle result: the loss above happens exactly when
   the context's leaves are written into the trie. *)
Theorem C01_context_conserves :
  forall cfg st round tx r,
    cs_total (st_accts (cs_post st (cs_update_ideal cfg st round tx r))) = cs_total (st_accts st).
Proof. exact cs_c01_update_ideal. Qed.
Print Assumptions C01_context_conserves.

(* For either IsHash, when all ids are canonical: updateState conserves the supply for every
   configuration, state, transaction (type, value, fee, nonce) and every contract oracle result:
   success with arbitrary writes, queued and signed transfers, chargeable failure, internal
   failure. *)
Theorem C01_update_state_conserves_partial :
  forall cfg st round tx r,
    cs_canon_accts (st_accts st) -> cs_canon_txn cfg tx r ->
    cs_total (st_accts (cs_post st (cs_update_state cfg st round tx r))) = cs_total (st_accts st).
Proof. exact cs_c01_update. Qed.
Print Assumptions C01_update_state_conserves_partial.

(* ... hence so does every history of such transactions. *)
Theorem C01_history_conserves_partial :
  forall cfg h st,
    cs_canon_accts (st_accts st) -> Forall (cs_canon_item cfg) h ->
    cs_total (st_accts (cs_run cfg st h)) = cs_total (st_accts st).
Proof. exact cs_c01_history. Qed.
Print Assumptions C01_history_conserves_partial.

(* mustInitGBState either panics or produces leaves that sum to MaxTokenSupply, provided the
   configured ids are pairwise different. *)
Theorem C01_genesis_total :
  forall gs m, NoDup (cs_gen_ids gs) -> cs_genesis gs = Some m -> cs_total m = cs_max_supply.
Proof. exact cs_c01_genesis. Qed.
Print Assumptions C01_genesis_total.

(* The supply is MaxTokenSupply in every state reachable from a genesis distribution. *)
Theorem C01_supply_is_max_token_supply_partial :
  forall gs m cfg nodes h,
    NoDup (cs_gen_ids gs) -> cs_genesis gs = Some m ->
    cs_canon_accts m -> Forall (cs_canon_item cfg) h ->
    cs_total (st_accts (cs_run cfg {| st_accts := m; st_nodes := nodes |} h)) = cs_max_supply.
Proof. exact cs_c01_reachable_supply. Qed.
Print Assumptions C01_supply_is_max_token_supply_partial.

(* Non-vacuity: a genesis distribution, then a contract call that moves tokens between four
   accounts and pays a fee, a chargeable failure and a rejected overdraft; all ids canonical. *)
Example C01_example :
  let cfg := {| cfg_fee := true; cfg_events := false; cfg_miner := 0; cfg_strict_ids := true |} in
  let gs := [(1, 3999999999999999000, [(3, 500); (4, 70)]); (0, 1000, [])] in
  let tx n ty v f := {| tx_hash := n; tx_type := ty; tx_from := 3; tx_to := 1; tx_value := v;
                        tx_fee := f; tx_nonce := n |} in
  match cs_genesis gs with
  | Some m =>
      let st := {| st_accts := m; st_nodes := [] |} in
      let h := [(7, tx 2 TSC 10 2, SCOk [(5, Some 9)] [Build_cs_transfer 3 1 10; Build_cs_transfer 1 5 300] [] [1] 0);
                (7, tx 3 TSC 10 3, SCChargeable 6);
                (8, tx 4 TSend 600 1, SCInternal)] in
      map cs_is_applied (cs_outcomes cfg st h) = [true; true; false] /\
      map (fun p => (fst p, ac_bal (snd p))) (st_accts (cs_run cfg st h))
        = [(0, 1005); (1, 3999999999999998140); (3, 485); (4, 70); (5, 300)] /\
      cs_total (st_accts (cs_run cfg st h)) = cs_max_supply /\
      forallb (fun k => (0 <=? k) && (k <? cs_upper_base)) (map fst m) = true
  | None => False
  end.
Proof. vm_compute. repeat split; reflexivity. Qed.
