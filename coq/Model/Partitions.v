(* Model of smartcontract/partitions/{partitions,partition,location}.go (property C25).
   Definitions only; proofs are in Proof/Partitions*.v.

   What is modelled
   - the in-memory object: Last (Loc, Items, Changed), the partition cache p.Partitions with the
     Changed flag of every cached partition, the location cache p.locations;
   - the part of the state trie the package writes: the header node (Name -> Last.Loc, Last.Items),
     one node per packed partition (partitionKey(name,i) -> Items), one node per item of a packed
     partition (locKey(id) -> partition index);
   - two tries: the transaction's working trie and the trie as of the last committed transaction
     (PCommit = Save + successful end of the transaction; PReload = the transaction's changes are
     dropped (or it was just committed) and GetPartitions reads the header again).
   Ids and item payloads are integer tokens.  Keys of different kinds/indices are assumed distinct
   (hash of name+index / name+id).  Association lists, Coq stdlib only. *)
From Coq Require Export List ZArith Bool Arith Lia.
Export ListNotations.
Open Scope Z_scope.

(* ---------- association lists (one key per entry after pt_al_set) ---------- *)
Section PtAlist.
  Context {K V : Type} (eqb : K -> K -> bool).
  Fixpoint pt_al_get (k : K) (l : list (K * V)) : option V :=
    match l with
    | [] => None
    | (k', v) :: tl => if eqb k k' then Some v else pt_al_get k tl
    end.
  Fixpoint pt_al_del (k : K) (l : list (K * V)) : list (K * V) :=
    match l with
    | [] => []
    | (k', v) :: tl => if eqb k k' then pt_al_del k tl else (k', v) :: pt_al_del k tl
    end.
  Definition pt_al_set (k : K) (v : V) (l : list (K * V)) : list (K * V) := (k, v) :: pt_al_del k l.
  (* DeleteTrieNode on an absent key is an error (util.ErrValueNotPresent) *)
  Definition pt_al_del_checked (k : K) (l : list (K * V)) : option (list (K * V)) :=
    match pt_al_get k l with Some _ => Some (pt_al_del k l) | None => None end.
End PtAlist.

Notation "'do' x <- a ; b" := (match a with Some x => b | None => None end)
  (at level 200, x pattern, a at level 100, b at level 200, only parsing).

(* ---------- items and partitions ---------- *)
Definition pt_item : Type := (Z * Z)%type.          (* item{ID; Data} *)
Definition pt_dflt : pt_item := (0, 0).

Record pt_part := { pp_items : list pt_item; pp_changed : bool }.   (* partition{Items; Changed} *)

(* partition.find: first index with that ID *)
Fixpoint pt_find (id : Z) (l : list pt_item) : option (nat * Z) :=
  match l with
  | [] => None
  | (k, d) :: tl => if Z.eqb k id then Some (O, d)
                    else match pt_find id tl with Some (i, d') => Some (S i, d') | None => None end
  end.
Definition pt_has (id : Z) (l : list pt_item) : bool :=
  match pt_find id l with Some _ => true | None => false end.

(* Items[idx] = Items[len-1]; Items = Items[:len-1] *)
Fixpoint pt_swap_remove (idx : nat) (l : list pt_item) : list pt_item :=
  match l with
  | [] => []
  | x :: tl =>
      match idx with
      | O => match tl with [] => [] | _ => last tl x :: removelast tl end
      | S i => x :: pt_swap_remove i tl
      end
  end.

(* Items[idx].Data = d (partition.update / Partitions.Update write the slot in place) *)
Fixpoint pt_set_data (idx : nat) (d : Z) (l : list pt_item) : list pt_item :=
  match l with
  | [] => []
  | (k, d0) :: tl => match idx with O => (k, d) :: tl | S i => (k, d0) :: pt_set_data i d tl end
  end.

(* cutTail *)
Definition pt_cut_tail (l : list pt_item) : option (list pt_item * pt_item) :=
  match l with [] => None | x :: tl => Some (removelast l, last l x) end.

(* ---------- persisted and in-memory state ---------- *)
Record pt_trie := {
  tt_hdr : nat * list pt_item;                 (* Name -> (Last.Loc, Last.Items) *)
  tt_parts : list (nat * list pt_item);        (* partitionKey(i) -> Items *)
  tt_locs : list (Z * nat) }.                  (* locKey(id) -> location{Location} *)

Record pt_mem := {
  pm_loc : nat;                                (* Last.Loc *)
  pm_last : pt_part;                           (* Last.Items, Last.Changed *)
  pm_cache : list (nat * pt_part);             (* p.Partitions *)
  pm_lcache : list (Z * nat) }.                (* p.locations *)

Record pt_ws := { ws_trie : pt_trie; ws_mem : pt_mem }.

Definition pt_parts_get := @pt_al_get nat (list pt_item) Nat.eqb.
Definition pt_cache_get := @pt_al_get nat pt_part Nat.eqb.
Definition pt_locs_get := @pt_al_get Z nat Z.eqb.

Definition pt_with_mem (ws : pt_ws) (m : pt_mem) : pt_ws := {| ws_trie := ws_trie ws; ws_mem := m |}.
Definition pt_with_trie (ws : pt_ws) (t : pt_trie) : pt_ws := {| ws_trie := t; ws_mem := ws_mem ws |}.

Definition pt_set_last (ws : pt_ws) (p : pt_part) : pt_ws :=
  let m := ws_mem ws in
  pt_with_mem ws {| pm_loc := pm_loc m; pm_last := p; pm_cache := pm_cache m; pm_lcache := pm_lcache m |}.
Definition pt_set_cache (ws : pt_ws) (c : list (nat * pt_part)) : pt_ws :=
  let m := ws_mem ws in
  pt_with_mem ws {| pm_loc := pm_loc m; pm_last := pm_last m; pm_cache := c; pm_lcache := pm_lcache m |}.
Definition pt_set_lcache (ws : pt_ws) (c : list (Z * nat)) : pt_ws :=
  let m := ws_mem ws in
  pt_with_mem ws {| pm_loc := pm_loc m; pm_last := pm_last m; pm_cache := pm_cache m; pm_lcache := c |}.
Definition pt_set_tparts (ws : pt_ws) (ps : list (nat * list pt_item)) : pt_ws :=
  let t := ws_trie ws in
  pt_with_trie ws {| tt_hdr := tt_hdr t; tt_parts := ps; tt_locs := tt_locs t |}.
Definition pt_set_tlocs (ws : pt_ws) (ls : list (Z * nat)) : pt_ws :=
  let t := ws_trie ws in
  pt_with_trie ws {| tt_hdr := tt_hdr t; tt_parts := tt_parts t; tt_locs := ls |}.

Definition pt_loc (ws : pt_ws) : nat := pm_loc (ws_mem ws).
Definition pt_last (ws : pt_ws) : pt_part := pm_last (ws_mem ws).

(* getItemPartIndex: location cache first, then the trie *)
Definition pt_get_loc (ws : pt_ws) (id : Z) : option nat :=
  match pt_locs_get id (pm_lcache (ws_mem ws)) with
  | Some l => Some l
  | None => pt_locs_get id (tt_locs (ws_trie ws))
  end.

(* getPartition(i): i > Last.Loc is an error; i = Last.Loc is Last; otherwise the cached partition,
   else it is loaded from the trie (missing node = error) and cached with Changed = false *)
Definition pt_getpart (ws : pt_ws) (i : nat) : option (pt_ws * pt_part) :=
  if Nat.ltb (pt_loc ws) i then None
  else if Nat.eqb i (pt_loc ws) then Some (ws, pt_last ws)
  else match pt_cache_get i (pm_cache (ws_mem ws)) with
       | Some p => Some (ws, p)
       | None =>
           match pt_parts_get i (tt_parts (ws_trie ws)) with
           | Some items =>
               let p := {| pp_items := items; pp_changed := false |} in
               Some (pt_set_cache ws (pt_al_set Nat.eqb i p (pm_cache (ws_mem ws))), p)
           | None => None
           end
       end.

(* the partition objects are mutated through pointers; writing the new value back to the slot
   the pointer was taken from *)
Definition pt_putpart (ws : pt_ws) (i : nat) (p : pt_part) : pt_ws :=
  if Nat.eqb i (pt_loc ws) then pt_set_last ws p
  else pt_set_cache ws (pt_al_set Nat.eqb i p (pm_cache (ws_mem ws))).

(* saveItemLoc / removeItemLoc *)
Definition pt_save_loc (ws : pt_ws) (id : Z) (l : nat) : pt_ws :=
  let ws1 := pt_set_tlocs ws (pt_al_set Z.eqb id l (tt_locs (ws_trie ws))) in
  pt_set_lcache ws1 (pt_al_set Z.eqb id l (pm_lcache (ws_mem ws1))).
Definition pt_remove_loc (ws : pt_ws) (id : Z) : option pt_ws :=
  do ls <- pt_al_del_checked Z.eqb id (tt_locs (ws_trie ws));
  let ws1 := pt_set_tlocs ws ls in
  Some (pt_set_lcache ws1 (pt_al_del Z.eqb id (pm_lcache (ws_mem ws1)))).

Fixpoint pt_remove_locs (ws : pt_ws) (items : list pt_item) : option pt_ws :=
  match items with
  | [] => Some ws
  | (id, _) :: tl => do ws1 <- pt_remove_loc ws id; pt_remove_locs ws1 tl
  end.
Fixpoint pt_save_locs (ws : pt_ws) (items : list pt_item) (l : nat) : pt_ws :=
  match items with
  | [] => ws
  | (id, _) :: tl => pt_save_locs (pt_save_loc ws id l) tl l
  end.

(* loadLocations(idx): nothing for idx <= 0 or when the partition is not cached *)
Fixpoint pt_lcache_fill (c : list (Z * nat)) (items : list pt_item) (idx : nat) : list (Z * nat) :=
  match items with
  | [] => c
  | (id, _) :: tl => pt_lcache_fill (pt_al_set Z.eqb id idx c) tl idx
  end.
Definition pt_load_locations (ws : pt_ws) (idx : nat) : pt_ws :=
  match idx with
  | O => ws
  | _ => match pt_cache_get idx (pm_cache (ws_mem ws)) with
         | Some p => pt_set_lcache ws (pt_lcache_fill (pm_lcache (ws_mem ws)) (pp_items p) idx)
         | None => ws
         end
  end.

(* pack: save Last under its partition key, record the location of each of its items, keep the
   object in the cache, start a new empty Last *)
Definition pt_pack (ws : pt_ws) : pt_ws :=
  let loc := pt_loc ws in
  let lastp := pt_last ws in
  let ws1 := pt_set_tparts ws (pt_al_set Nat.eqb loc (pp_items lastp) (tt_parts (ws_trie ws))) in
  let ws2 := pt_save_locs ws1 (pp_items lastp) loc in
  let m := ws_mem ws2 in
  pt_with_mem ws2 {| pm_loc := S loc; pm_last := {| pp_items := []; pp_changed := false |};
                     pm_cache := pt_al_set Nat.eqb loc lastp (pm_cache m); pm_lcache := pm_lcache m |}.

(* loadLastFromPrev *)
Definition pt_load_last_from_prev (ws : pt_ws) : option pt_ws :=
  match pt_loc ws with
  | O => Some ws
  | S pl =>
      do (ws1, prev) <- pt_getpart ws pl;
      let ws2 := pt_set_last ws1 prev in
      do ws3 <- pt_remove_locs ws2 (pp_items prev);
      do ps <- pt_al_del_checked Nat.eqb pl (tt_parts (ws_trie ws3));
      let ws4 := pt_set_tparts ws3 ps in
      let m := ws_mem ws4 in
      Some (pt_with_mem ws4 {| pm_loc := pl; pm_last := pm_last m;
                               pm_cache := pt_al_del Nat.eqb pl (pm_cache m); pm_lcache := pm_lcache m |})
  end.

(* removeFromLast(idx): Last.Changed is not touched by the Go code *)
Definition pt_remove_from_last (ws : pt_ws) (idx : nat) : option pt_ws :=
  let lp := pt_last ws in
  let items := pt_swap_remove idx (pp_items lp) in
  let ws1 := pt_set_last ws {| pp_items := items; pp_changed := pp_changed lp |} in
  match items with
  | [] => pt_load_last_from_prev ws1
  | _ => Some ws1
  end.

(* removeItem(id, index) *)
Definition pt_remove_item (ws : pt_ws) (id : Z) (index : nat) : option pt_ws :=
  do (ws1, part) <- pt_getpart ws index;
  do (idx, _) <- pt_find id (pp_items part);
  let part1 := {| pp_items := pt_swap_remove idx (pp_items part); pp_changed := true |} in
  let ws2 := pt_putpart ws1 index part1 in
  if Nat.eqb index (pt_loc ws2) then Some ws2
  else
    do (rest, rep) <- pt_cut_tail (pp_items (pt_last ws2));
    let ws3 := pt_set_last ws2 {| pp_items := rest; pp_changed := true |} in
    if pt_has (fst rep) (pp_items part1) then None
    else
      let part2 := {| pp_items := pp_items part1 ++ [rep]; pp_changed := true |} in
      let ws4 := pt_putpart ws3 index part2 in
      let ws5 := pt_save_loc ws4 (fst rep) index in
      match rest with
      | [] => pt_load_last_from_prev ws5
      | _ => Some ws5
      end.

(* ---------- operations ---------- *)
Inductive pt_op :=
| PAdd (id d : Z) | PGet (id : Z) | PUpdateItem (id d : Z)
| PUpdate (id delta : Z) (ferr : bool)      (* Update(key, f): f adds delta, or fails when ferr *)
| PRemove (id : Z) | PExist (id : Z) | PSize | PForEach
| PRandom (idx : nat)                        (* GetRandomItems; idx = the recorded r.Intn(total) *)
| PSave | PCommit | PReload.

Inductive pt_out :=
| POk | PErrExists | PErrNotFound | PErrFn | PErrEmpty
| PInternal                                  (* any other error of the package *)
| PFuel                                      (* model loop bound exhausted *)
| PGot (d : Z) | PBool (b : bool) | PNat (n : nat) | PItems (l : list pt_item).

Definition pt_result (ws : pt_ws) (r : option pt_ws) (ok : pt_out) : pt_ws * pt_out :=
  match r with Some ws' => (ws', ok) | None => (ws, PInternal) end.

(* add (after the duplicate checks of Add) *)
Definition pt_add_raw (size : nat) (ws : pt_ws) (id d : Z) : option pt_ws :=
  let ws1 := if Nat.eqb (length (pp_items (pt_last ws))) size then pt_pack ws else ws in
  if pt_has id (pp_items (pt_last ws1)) then None
  else Some (pt_set_last ws1 {| pp_items := pp_items (pt_last ws1) ++ [(id, d)]; pp_changed := true |}).

Definition pt_add (size : nat) (ws : pt_ws) (id d : Z) : pt_ws * pt_out :=
  match pt_get_loc ws id with
  | Some _ => (ws, PErrExists)
  | None =>
      if pt_has id (pp_items (pt_last ws)) then (ws, PErrExists)
      else pt_result ws (pt_add_raw size ws id d) POk
  end.

Definition pt_get (ws : pt_ws) (id : Z) : pt_ws * pt_out :=
  match pt_find id (pp_items (pt_last ws)) with
  | Some (_, d) => (ws, PGot d)
  | None =>
      match pt_get_loc ws id with
      | None => (ws, PErrNotFound)
      | Some l =>
          match pt_getpart ws l with
          | None => (ws, PInternal)
          | Some (ws1, part) =>
              match pt_find id (pp_items part) with
              | None => (ws1, PInternal)
              | Some (_, d) => (pt_load_locations ws1 l, PGot d)
              end
          end
      end
  end.

(* shared by UpdateItem (partition.update sets Changed also on Last) and Update (does not touch
   Last.Changed); newd computes the new payload from the old one, None = the callback failed *)
Definition pt_update_gen (ws : pt_ws) (id : Z) (newd : Z -> option Z) (mark_last : bool) : pt_ws * pt_out :=
  let lp := pt_last ws in
  match pt_find id (pp_items lp) with
  | Some (idx, old) =>
      match newd old with
      | None => (ws, PErrFn)
      | Some d =>
          (pt_set_last ws {| pp_items := pt_set_data idx d (pp_items lp);
                             pp_changed := if mark_last then true else pp_changed lp |}, POk)
      end
  | None =>
      match pt_get_loc ws id with
      | None => (ws, PErrNotFound)
      | Some l =>
          match pt_getpart ws l with
          | None => (ws, PInternal)
          | Some (ws1, part) =>
              match pt_find id (pp_items part) with
              | None => (ws1, if mark_last then PInternal else PErrNotFound)
              | Some (idx, old) =>
                  match newd old with
                  | None => (ws1, PErrFn)
                  | Some d =>
                      let part1 := {| pp_items := pt_set_data idx d (pp_items part); pp_changed := true |} in
                      (pt_load_locations (pt_putpart ws1 l part1) l, POk)
                  end
              end
          end
      end
  end.

Definition pt_remove (ws : pt_ws) (id : Z) : pt_ws * pt_out :=
  match pt_find id (pp_items (pt_last ws)) with
  | Some (idx, _) => pt_result ws (pt_remove_from_last ws idx) POk
  | None =>
      match pt_get_loc ws id with
      | None => (ws, PErrNotFound)
      | Some l =>
          pt_result ws (do ws1 <- pt_remove_item ws id l;
                        pt_remove_loc (pt_load_locations ws1 l) id) POk
      end
  end.

Definition pt_exist (ws : pt_ws) (id : Z) : bool :=
  if pt_has id (pp_items (pt_last ws)) then true
  else match pt_get_loc ws id with Some _ => true | None => false end.

Definition pt_size (size : nat) (ws : pt_ws) : nat :=
  match pp_items (pt_last ws) with
  | [] => O
  | _ => (pt_loc ws * size + length (pp_items (pt_last ws)))%nat
  end.

(* ForEach with a callback that never stops: partitions 0..Last.Loc in order *)
Fixpoint pt_foreach_from (ws : pt_ws) (i n : nat) (acc : list pt_item) : option (pt_ws * list pt_item) :=
  match n with
  | O => Some (ws, acc)
  | S n' => do (ws1, part) <- pt_getpart ws i; pt_foreach_from ws1 (S i) n' (acc ++ pp_items part)
  end.
Definition pt_foreach (ws : pt_ws) : pt_ws * pt_out :=
  match pt_foreach_from ws O (S (pt_loc ws)) [] with
  | Some (ws1, l) => (ws1, PItems l)
  | None => (ws, PInternal)
  end.

(* GetRandomItems: the loop `for requiredCount != 0` with explicit fuel *)
Inductive pt_rand_res := RandOk (ws : pt_ws) (l : list pt_item) | RandFail | RandFuel.
Fixpoint pt_rand_loop (fuel : nat) (ws : pt_ws) (pi off rc : nat) (acc : list pt_item) : pt_rand_res :=
  match fuel with
  | O => RandFuel
  | S f =>
      if Nat.eqb rc 0 then RandOk ws acc
      else
        match pt_getpart ws pi with
        | None => RandFail
        | Some (ws1, part) =>
            let len := length (pp_items part) in
            if Nat.ltb len (off + rc) then
              if Nat.ltb len off then RandFail              (* itemRange: start > end *)
              else
                let res := skipn off (pp_items part) in
                let pi' := if Nat.eqb pi (pt_loc ws1) then O else S pi in
                pt_rand_loop f ws1 pi' O (rc - (len - off)) (acc ++ res)
            else RandOk ws1 (acc ++ firstn rc (skipn off (pp_items part)))
        end
  end.
Definition pt_random (size : nat) (ws : pt_ws) (idx : nat) : pt_ws * pt_out :=
  match pp_items (pt_last ws) with
  | [] => (ws, PErrEmpty)
  | _ =>
      let total := (pt_loc ws * size + length (pp_items (pt_last ws)))%nat in
      let rc := Nat.min size total in
      match pt_rand_loop (S (S rc)) ws (Nat.div idx size) (Nat.modulo idx size) rc [] with
      | RandOk ws1 l => (ws1, PItems l)
      | RandFail => (ws, PInternal)
      | RandFuel => (ws, PFuel)
      end
  end.

(* Save: `for _, k := range keys { part := p.Partitions[k]; if part.changed() { part.save } }`
   (flags stay), then the header *)
Fixpoint pt_save_parts (c0 : list (nat * pt_part)) (keys : list nat) (ps : list (nat * list pt_item))
  : list (nat * list pt_item) :=
  match keys with
  | [] => ps
  | k :: tl =>
      pt_save_parts c0 tl
        (match pt_cache_get k c0 with
         | Some p => if pp_changed p then pt_al_set Nat.eqb k (pp_items p) ps else ps
         | None => ps
         end)
  end.
Definition pt_save (ws : pt_ws) : pt_ws :=
  let t := ws_trie ws in
  let m := ws_mem ws in
  pt_with_trie ws {| tt_hdr := (pm_loc m, pp_items (pm_last m));
                     tt_parts := pt_save_parts (pm_cache m) (map fst (pm_cache m)) (tt_parts t);
                     tt_locs := tt_locs t |}.

(* GetPartitions: a fresh object decoded from the header node *)
Definition pt_load (t : pt_trie) : pt_mem :=
  {| pm_loc := fst (tt_hdr t); pm_last := {| pp_items := snd (tt_hdr t); pp_changed := false |};
     pm_cache := []; pm_lcache := [] |}.

Record pt_state := { ps_size : nat; ps_commit : pt_trie; ps_ws : pt_ws }.

Definition pt_empty_trie : pt_trie := {| tt_hdr := (O, []); tt_parts := []; tt_locs := [] |}.
(* CreateIfNotExists on an empty state, committed *)
Definition pt_init (size : nat) : pt_state :=
  {| ps_size := size; ps_commit := pt_empty_trie;
     ps_ws := {| ws_trie := pt_empty_trie; ws_mem := pt_load pt_empty_trie |} |}.

Definition pt_lift (st : pt_state) (r : pt_ws * pt_out) : pt_state * pt_out :=
  ({| ps_size := ps_size st; ps_commit := ps_commit st; ps_ws := fst r |}, snd r).

Definition pt_step (st : pt_state) (o : pt_op) : pt_state * pt_out :=
  let ws := ps_ws st in
  let size := ps_size st in
  match o with
  | PAdd id d => pt_lift st (pt_add size ws id d)
  | PGet id => pt_lift st (pt_get ws id)
  | PUpdateItem id d => pt_lift st (pt_update_gen ws id (fun _ => Some d) true)
  | PUpdate id delta ferr =>
      pt_lift st (pt_update_gen ws id (fun old => if ferr then None else Some (old + delta)) false)
  | PRemove id => pt_lift st (pt_remove ws id)
  | PExist id => (st, PBool (pt_exist ws id))
  | PSize => (st, PNat (pt_size size ws))
  | PForEach => pt_lift st (pt_foreach ws)
  | PRandom idx => pt_lift st (pt_random size ws idx)
  | PSave => pt_lift st (pt_save ws, POk)
  | PCommit =>
      let ws1 := pt_save ws in
      ({| ps_size := size; ps_commit := ws_trie ws1; ps_ws := ws1 |}, POk)
  | PReload =>
      ({| ps_size := size; ps_commit := ps_commit st;
          ps_ws := {| ws_trie := ps_commit st; ws_mem := pt_load (ps_commit st) |} |}, POk)
  end.

Fixpoint pt_run (st : pt_state) (ops : list pt_op) : pt_state * list pt_out :=
  match ops with
  | [] => (st, [])
  | o :: tl => let '(st1, out) := pt_step st o in
               let '(st2, outs) := pt_run st1 tl in (st2, out :: outs)
  end.

(* ---------- the set the structure stands for ---------- *)
(* effective content of partition i < Last.Loc: the cached object if any, else the trie node *)
Definition pt_eff_of (c : list (nat * pt_part)) (ps : list (nat * list pt_item)) (i : nat) : list pt_item :=
  match pt_cache_get i c with
  | Some p => pp_items p
  | None => match pt_parts_get i ps with Some x => x | None => [] end
  end.
Definition pt_eff (ws : pt_ws) : nat -> list pt_item :=
  pt_eff_of (pm_cache (ws_mem ws)) (tt_parts (ws_trie ws)).
Definition pt_abs (ws : pt_ws) : list pt_item :=
  flat_map (pt_eff ws) (seq 0 (pt_loc ws)) ++ pp_items (pt_last ws).
(* what a fresh reader of the committed trie would see *)
Definition pt_abs_commit (st : pt_state) : list pt_item :=
  pt_abs {| ws_trie := ps_commit st; ws_mem := pt_load (ps_commit st) |}.
