// Engine for C38 (view-change phase machine): drives the real miner contract block by block -
// generated DKG transactions (contributeMpk, shareSignsOrShares with real BLS shares/signatures, wait,
// sharder_keep) through MinerSmartContract.Execute, then the phase step of payFees (setPhaseNode,
// adjustViewChange, SetMagicBlock, save of the global node; via verif_hooks_gov.go) - judges every
// transaction and every block with the property, and emits the histories for the Coq model.
package main

import (
	"encoding/json"
	"fmt"
	"os"
	"sort"
	"strings"
	"time"

	"0chain.net/chaincore/block"
	cstate "0chain.net/chaincore/chain/state"
	"0chain.net/chaincore/node"
	"0chain.net/chaincore/threshold/bls"
	"0chain.net/chaincore/transaction"
	"0chain.net/core/config"
	"0chain.net/core/encryption"
	"0chain.net/core/viper"
	"0chain.net/smartcontract/minersc"
	"github.com/0chain/common/core/statecache"
	"github.com/0chain/common/core/util"
	"verifharness/sc"
	"verifharness/vh"
)

// ---------- history ----------

type sosEntry struct {
	To   int    `json:"to"`   // token of the miner the entry is keyed by (0: a key outside the DKG set)
	Kind string `json:"kind"` // sign | share | nil | badsign | badshare | badhex
}

type txn struct {
	Kind    string     `json:"kind"`              // contribute | share | wait | keep
	From    int        `json:"from"`              // token: miners 1.., sharders 51.., strangers 91..
	Claim   int        `json:"claim,omitempty"`   // contribute: "ID" put into the JSON (0: none)
	Len     int        `json:"len,omitempty"`     // contribute: number of MPK entries relative to T (value = T + Len)
	Garbage bool       `json:"garbage,omitempty"` // undecodable input
	SosID   int        `json:"sos_id,omitempty"`  // share: "id" put into the JSON (0: the sender)
	Entries []sosEntry `json:"entries,omitempty"`
}

type blk struct {
	Txns []txn `json:"txns"`
}

type hist struct {
	NMiners      int               `json:"n_miners"`
	NSharders    int               `json:"n_sharders"`
	PrevMiners   []int             `json:"prev_miners"`   // tokens in the previous magic block
	PrevSharders []int             `json:"prev_sharders"` // tokens (51..)
	Settings     map[string]string `json:"settings"`      // minersc update_settings before round 1
	Rounds       [5]int64          `json:"rounds"`
	IsVC         bool              `json:"is_vc"`
	Seed         int64             `json:"seed"` // RoundRandomSeed of the latest finalized magic block
	Blocks       []blk             `json:"blocks"`
}

// ---------- world ----------

type nd struct {
	tok      int
	id, pub  string
	sig      encryption.SignatureScheme
	dkg      *bls.DKG
	dkgCycle int
}

type world struct {
	h        *hist
	miners   []*nd
	sharders []*nd
	tokOf    map[string]int
	mpt      util.MerklePatriciaTrieI
	mbAll    *block.MagicBlock // current magic block used for registration
	lfmb     *block.MagicBlock // latest finalized = previous set
	prevM    map[string]bool   // the engine's own record of the previous set
	prevS    map[string]bool
	msc      *minersc.MinerSmartContract
	seq      int
	cycle    int
	ownMPK   map[int]int // miner token -> cycle in which its own MPK was recorded under its own id
}

func (w *world) node(tok int) *nd {
	switch {
	case tok >= 1 && tok <= len(w.miners):
		return w.miners[tok-1]
	case tok >= 51 && tok-51 < len(w.sharders):
		return w.sharders[tok-51]
	}
	return nil
}

func (w *world) idOf(tok int) string {
	if n := w.node(tok); n != nil {
		return n.id
	}
	return encryption.Hash(fmt.Sprintf("stranger-%d", tok))
}

func (w *world) tok(id string) int {
	if t, ok := w.tokOf[id]; ok {
		return t
	}
	for t := 91; t < 99; t++ {
		if w.idOf(t) == id {
			return t
		}
	}
	return 999
}

func mkNode(tok, keyIdx int) *nd {
	s := encryption.NewBLS0ChainScheme()
	if err := s.ReadKeys(strings.NewReader(keyPool[keyIdx][0] + "\n" + keyPool[keyIdx][1] + "\n")); err != nil {
		panic(err)
	}
	id, err := encryption.GetClientIDFromPublicKey(s.GetPublicKey())
	must(err)
	return &nd{tok: tok, id: id, pub: s.GetPublicKey(), sig: s}
}

func pool(t node.NodeType, ns []*nd) *node.Pool {
	p := node.NewPool(t)
	for i, x := range ns {
		n := node.Provider()
		n.ID = x.id
		n.PublicKey = x.pub
		n.Type = t
		n.Host = fmt.Sprintf("h%d", i)
		n.N2NHost = n.Host
		n.Port = 7000 + i
		must(p.AddNode(n))
	}
	return p
}

// fork: a transaction-level trie layered over m (as the chain does): writes and deletes stay in the layer
// and reach m only through adopt.
func fork(m util.MerklePatriciaTrieI) util.MerklePatriciaTrieI {
	db := util.NewLevelNodeDB(util.NewMemoryNodeDB(), m.GetNodeDB(), false)
	return util.NewMerklePatriciaTrie(db, 1, m.GetRoot(), statecache.NewEmpty())
}

func (w *world) adopt(f util.MerklePatriciaTrieI) {
	must(w.mpt.MergeMPTChanges(f))
}

func (w *world) ctx(m util.MerklePatriciaTrieI, round int64, t *transaction.Transaction) *cstate.StateContext {
	if m == w.mpt {
		// never read through the base trie's own transaction cache: it is not updated when a layer is merged
		m = fork(m)
	}
	bk := &block.Block{}
	bk.Round = round
	lfb := &block.Block{}
	lfb.MagicBlock = w.lfmb
	lfb.RoundRandomSeed = w.h.Seed
	sig := encryption.NewBLS0ChainScheme()
	if t == nil {
		t = sc.Txn(fmt.Sprintf("%064x", 700000+round), w.miners[0].id, minersc.ADDRESS, 0, 1700000000)
	}
	return cstate.NewStateContext(bk, m, t,
		func(int64) *block.MagicBlock { return w.mbAll },
		func() *block.Block { return lfb },
		func() *block.MagicBlock { return w.mbAll },
		func() encryption.SignatureScheme { return sig },
		func() *block.Block { return lfb }, nil)
}

func nodeJSON(x *nd, kind string) []byte {
	m := map[string]interface{}{
		"simple_miner": map[string]interface{}{"id": x.id, "n2n_host": fmt.Sprintf("%s%d.n2n", kind, x.tok), "host": fmt.Sprintf("%s%d.host", kind, x.tok),
			"port": 7000 + x.tok, "path": fmt.Sprintf("%s%d", kind, x.tok), "public_key": x.pub, "short_name": fmt.Sprintf("%s%d", kind, x.tok), "build_tag": "t"},
		"stake_pool": map[string]interface{}{"settings": map[string]interface{}{"delegate_wallet": encryption.Hash("dw" + x.id), "num_delegates": 10, "service_charge": 0.1}},
	}
	b, _ := json.Marshal(m)
	return b
}

// exec runs one contract call the way the chain does: on a copy of the state that is kept only on success.
// Returns the outcome class and the state the call left behind (for the "rejected => unchanged" check).
func (w *world) exec(round int64, client, fn string, in []byte) (res string, errText string, after util.MerklePatriciaTrieI) {
	w.seq++
	t := sc.Txn(fmt.Sprintf("%064x", w.seq), client, minersc.ADDRESS, 0, 1700000000)
	f := fork(w.mpt)
	func() {
		defer func() {
			if p := recover(); p != nil {
				res, errText = "DPanic", fmt.Sprint(p)
			}
		}()
		_, err := w.msc.Execute(t, fn, in, w.ctx(f, round, t))
		if err != nil {
			res, errText = "DReject", err.Error()
		} else {
			res = "DAccept"
		}
	}()
	if res == "DAccept" {
		w.adopt(f)
	}
	return res, errText, f
}

func newWorld(h *hist) *world {
	w := &world{h: h, tokOf: map[string]int{}, prevM: map[string]bool{}, prevS: map[string]bool{}, ownMPK: map[int]int{}}
	for i := 0; i < h.NMiners; i++ {
		n := mkNode(i+1, i)
		w.miners = append(w.miners, n)
		w.tokOf[n.id] = n.tok
	}
	for j := 0; j < h.NSharders; j++ {
		n := mkNode(51+j, 9+j)
		w.sharders = append(w.sharders, n)
		w.tokOf[n.id] = n.tok
	}
	w.mbAll = block.NewMagicBlock()
	w.mbAll.Miners, w.mbAll.Sharders = pool(node.NodeTypeMiner, w.miners), pool(node.NodeTypeSharder, w.sharders)
	var pm, ps []*nd
	for _, t := range h.PrevMiners {
		pm = append(pm, w.node(t))
		w.prevM[w.idOf(t)] = true
	}
	for _, t := range h.PrevSharders {
		ps = append(ps, w.node(t))
		w.prevS[w.idOf(t)] = true
	}
	w.lfmb = block.NewMagicBlock()
	w.lfmb.Miners, w.lfmb.Sharders = pool(node.NodeTypeMiner, pm), pool(node.NodeTypeSharder, ps)
	w.lfmb.Hash = w.lfmb.GetHash()
	w.msc = minersc.NewMinerSmartContract().(*minersc.MinerSmartContract)
	for p := 0; p < 5; p++ {
		minersc.PhaseRounds[minersc.Phase(p)] = h.Rounds[p]
	}
	w.mpt = sc.NewMPT()
	f0 := fork(w.mpt)
	must(minersc.InitConfig(w.ctx(f0, 1, nil)))
	w.adopt(f0)
	for _, m := range w.miners {
		if r, e, _ := w.exec(1, m.id, "add_miner", nodeJSON(m, "m")); r != "DAccept" {
			panic("add_miner: " + e)
		}
	}
	for _, s := range w.sharders {
		if r, e, _ := w.exec(1, s.id, "add_sharder", nodeJSON(s, "s")); r != "DAccept" {
			panic("add_sharder: " + e)
		}
	}
	if len(h.Settings) > 0 {
		gn, err := minersc.GetGlobalNode(w.ctx(w.mpt, 1, nil))
		must(err)
		in, _ := json.Marshal(map[string]interface{}{"fields": h.Settings})
		if r, e, _ := w.exec(1, gn.OwnerId, "update_settings", in); r != "DAccept" {
			// the contract refuses the request (e.g. a validated x_percent): go on with the accepted part
			rest := map[string]string{}
			for k, v := range h.Settings {
				if k != "x_percent" {
					rest[k] = v
				}
			}
			h.Settings = rest
			in, _ = json.Marshal(map[string]interface{}{"fields": rest})
			if r2, e2, _ := w.exec(1, gn.OwnerId, "update_settings", in); r2 != "DAccept" {
				panic("update_settings: " + e + " / " + e2)
			}
		}
	}
	return w
}

// ---------- observation ----------

type dkgObs struct {
	miners, mpks, gsos, waited []int
	T, K, N                    int
	mpksNode                   bool
}

func (w *world) toks(ids []string) []int {
	out := []int{}
	for _, id := range ids {
		out = append(out, w.tok(id))
	}
	sort.Ints(out)
	return out
}

func (w *world) observe(m util.MerklePatriciaTrieI, round int64) dkgObs {
	c := w.ctx(m, round, nil)
	var o dkgObs
	dmn, err := minersc.VerifGovDKGMiners(c)
	must(err)
	var ids []string
	for id := range dmn.SimpleNodes {
		ids = append(ids, id)
	}
	o.miners, o.T, o.K, o.N = w.toks(ids), dmn.T, dmn.K, dmn.N
	ids = nil
	for id, ok := range dmn.Waited {
		if ok {
			ids = append(ids, id)
		}
	}
	o.waited = w.toks(ids)
	if mp, err := minersc.VerifGovMPKs(c); err == nil {
		o.mpksNode = true
		ids = nil
		for id := range mp.Mpks {
			ids = append(ids, id)
		}
		o.mpks = w.toks(ids)
	} else {
		o.mpks = []int{}
	}
	ids = nil
	if gs, err := minersc.VerifGovGSoS(c); err == nil {
		for id := range gs.Shares {
			ids = append(ids, id)
		}
	}
	o.gsos = w.toks(ids)
	return o
}

func sameInts(a, b []int) bool {
	if len(a) != len(b) {
		return false
	}
	for i := range a {
		if a[i] != b[i] {
			return false
		}
	}
	return true
}

func (a dkgObs) same(b dkgObs) bool {
	return sameInts(a.miners, b.miners) && sameInts(a.mpks, b.mpks) && sameInts(a.gsos, b.gsos) && sameInts(a.waited, b.waited) &&
		a.T == b.T && a.K == b.K
}

func has(l []int, x int) bool {
	for _, y := range l {
		if y == x {
			return true
		}
	}
	return false
}

type pnObs struct {
	present                         bool
	phase, start, current, restarts int64
}

func (w *world) pn(m util.MerklePatriciaTrieI) pnObs {
	p := &minersc.PhaseNode{}
	err := w.ctx(m, 1, nil).GetTrieNode(p.GetKey(), p)
	if err != nil {
		return pnObs{}
	}
	return pnObs{true, int64(p.Phase), p.StartRound, p.CurrentRound, p.Restarts}
}

// ---------- building the real transaction inputs ----------

func (w *world) ensureDKG(m *nd, T, N int) {
	if m.dkg == nil || m.dkgCycle != w.cycle {
		if T < 1 {
			T = 1
		}
		if N < T {
			N = T
		}
		m.dkg = bls.MakeDKG(T, N, m.id)
		m.dkgCycle = w.cycle
	}
}

func (w *world) contributeInput(t txn, d dkgObs) []byte {
	if t.Garbage {
		return []byte(`{"Mpk": "not a list"`)
	}
	n := d.T + t.Len
	if n < 0 {
		n = 0
	}
	var mpk []string
	if m := w.node(t.From); m != nil && m.tok < 50 && n == d.T && d.T > 0 {
		w.ensureDKG(m, d.T, d.N)
		for _, pk := range m.dkg.GetMPKs() {
			mpk = append(mpk, pk.GetHexString())
		}
	} else {
		tmp := bls.MakeDKG(max(n, 1), max(n, 1), encryption.Hash("x"))
		for i := 0; i < n; i++ {
			mpk = append(mpk, tmp.GetMPKs()[i%len(tmp.GetMPKs())].GetHexString())
		}
	}
	v := map[string]interface{}{"Mpk": mpk}
	if t.Claim != 0 {
		v["ID"] = w.idOf(t.Claim)
	}
	b, _ := json.Marshal(v)
	return b
}

func max(a, b int) int {
	if a > b {
		return a
	}
	return b
}

func (w *world) shareInput(t txn, d dkgObs) []byte {
	if t.Garbage {
		return []byte(`{"share_or_sign": 5}`)
	}
	from := w.node(t.From)
	ents := map[string]interface{}{}
	for i, e := range t.Entries {
		key := w.idOf(e.To)
		if e.To == 0 {
			key = encryption.Hash(fmt.Sprintf("nokey-%d", i))
		}
		if e.Kind == "nil" {
			ents[key] = nil
			continue
		}
		// the share the sender computed for the target (a throw-away DKG when the sender has none)
		dk := bls.MakeDKG(max(d.T, 1), max(d.N, max(d.T, 1)), encryption.Hash("tmp"))
		if from != nil && from.dkg != nil && from.dkgCycle == w.cycle {
			dk = from.dkg
		}
		sh, err := dk.ComputeDKGKeyShare(bls.ComputeIDdkg(key))
		must(err)
		switch e.Kind {
		case "sign", "badsign":
			msg := encryption.Hash(sh.GetPublicKey().GetHexString())
			signer := w.node(e.To)
			if signer == nil || e.Kind == "badsign" {
				signer = w.miners[(e.To+1)%len(w.miners)] // somebody else's signature
				if e.To != 0 && signer.tok == e.To {
					signer = w.sharders[0]
				}
			}
			sg, err := signer.sig.Sign(msg)
			must(err)
			ents[key] = map[string]string{"message": msg, "sign": sg}
		case "share":
			ents[key] = map[string]string{"share": sh.GetHexString()}
		case "badshare":
			other := bls.MakeDKG(max(d.T, 1), max(d.N, max(d.T, 1)), encryption.Hash("other"))
			s2, _ := other.ComputeDKGKeyShare(bls.ComputeIDdkg(key))
			ents[key] = map[string]string{"share": s2.GetHexString()}
		case "badhex":
			ents[key] = map[string]string{"share": "zz-not-hex"}
		}
	}
	v := map[string]interface{}{"share_or_sign": ents}
	if t.SosID != 0 {
		v["id"] = w.idOf(t.SosID)
	} else {
		v["id"] = w.idOf(t.From)
	}
	b, _ := json.Marshal(v)
	return b
}

// ---------- one block ----------

type blockRes struct {
	round     int64
	phase     int64 // phase during the block
	txRes     []string
	txErr     []string
	txBefore  []dkgObs
	txLeft    []dkgObs // DKG lists in the state the call left behind (kept only when accepted)
	idKnown   []bool   // share: the MPKs node has an entry for the "id" of the input (what an unrepaired Validate looked up)
	senderMPK []bool   // share: the MPKs node has an entry for the sender (what Validate looks up)
	ownMPK    []bool   // share: the sender's own MPK of this DKG is recorded under its id
	moveRes   string   // FOk FErr FNodeNotFound (recorded on a copy of the state)
	funcRes   string
	fresh     dkgObs
	due       bool
	stepOut   string // PSaved PError PPanic
	stepErr   string
	atVC      bool
	pnBefore  pnObs
	pnAfter   pnObs
	dkgBefore dkgObs // before the phase step
	dkgAfter  dkgObs
	cond      bool // the engine's own evaluation of the move condition (from the lists and the true previous set)
	condWhy   string
	mbMiners  []int // magic block written by this block (Publish -> Wait), nil otherwise
	mbShard   []int
	prevLost  bool // gn.PrevMagicBlock has nodes but an empty node map
	panicText string
}

func classErr(err error) string {
	if err == nil {
		return "FOk"
	}
	if strings.Contains(err.Error(), util.ErrNodeNotFound.Error()) {
		return "FNodeNotFound"
	}
	return "FErr"
}

func poolIDs(p *node.Pool) []string {
	if p == nil {
		return nil
	}
	seen := map[string]bool{}
	var out []string
	for _, n := range p.Nodes {
		if !seen[n.ID] {
			seen[n.ID] = true
			out = append(out, n.ID)
		}
	}
	for id := range p.NodesMap {
		if !seen[id] {
			seen[id] = true
			out = append(out, id)
		}
	}
	return out
}

// the move condition of the phase, evaluated by the engine from the observable lists and its own record of the
// previous set (what the property calls "its condition holds")
func (w *world) condition(m util.MerklePatriciaTrieI, round int64, phase int64, d dkgObs) (bool, string) {
	c := w.ctx(m, round, nil)
	gn, err := minersc.GetGlobalNode(c)
	must(err)
	anyPrev := func(toks []int, prev map[string]bool) bool {
		for _, t := range toks {
			if prev[w.idOf(t)] {
				return true
			}
		}
		return false
	}
	switch minersc.Phase(phase) {
	case minersc.Start:
		var mt, st []int
		for _, x := range w.miners {
			mt = append(mt, x.tok)
		}
		for _, x := range w.sharders {
			st = append(st, x.tok)
		}
		switch {
		case len(st) < gn.MinS:
			return false, "fewer sharders than min_s"
		case !anyPrev(st, w.prevS):
			return false, "no sharder of the previous set registered"
		case !anyPrev(mt, w.prevM):
			return false, "no miner of the previous set registered"
		case len(mt) < d.K:
			return false, "fewer miners than K"
		case len(mt) < gn.MinN:
			return false, "fewer miners than min_n"
		}
	case minersc.Contribute, minersc.Share:
		keep, err := minersc.VerifGovShardersKeep(c)
		must(err)
		var kt []int
		for _, n := range keep.Nodes {
			kt = append(kt, w.tok(n.ID))
		}
		switch {
		case len(kt) < gn.MinS:
			return false, "fewer sharders in the keep list than min_s"
		case !anyPrev(kt, w.prevS):
			return false, "no previous sharder in the keep list"
		case len(d.mpks) == 0:
			return false, "no MPKs"
		case !anyPrev(d.mpks, w.prevM):
			return false, "no previous miner among the MPKs"
		case len(d.mpks) < d.K:
			return false, "fewer MPKs than K"
		}
		if minersc.Phase(phase) == minersc.Contribute {
			var both []int
			for _, t := range d.miners {
				if has(d.mpks, t) {
					both = append(both, t)
				}
			}
			if len(both) < gn.MinN || !anyPrev(both, w.prevM) {
				return false, "DKG miners with an MPK: fewer than min_n or none of the previous set"
			}
		}
	case minersc.Publish:
		switch {
		case len(d.gsos) == 0:
			return false, "no shares"
		case !anyPrev(d.gsos, w.prevM):
			return false, "no previous miner among the share senders"
		case len(d.gsos) < d.K:
			return false, "fewer share senders than K"
		}
		var both []int
		for _, t := range d.miners {
			if has(d.mpks, t) && has(d.gsos, t) || !has(d.mpks, t) {
				both = append(both, t)
			}
		}
		if len(both) < gn.MinN || !anyPrev(both, w.prevM) || len(both) < d.K {
			return false, "DKG miners with a share: fewer than min_n / K or none of the previous set"
		}
	}
	return true, ""
}

func (w *world) runBlock(round int64, b blk) blockRes {
	r := blockRes{round: round}
	r.pnBefore = w.pn(w.mpt)
	r.phase = r.pnBefore.phase
	// ---- DKG transactions ----
	for _, t := range b.Txns {
		d := w.observe(w.mpt, round)
		r.txBefore = append(r.txBefore, d)
		var fn string
		var in []byte
		known, senderMPK := true, true
		switch t.Kind {
		case "contribute":
			fn, in = "contributeMpk", w.contributeInput(t, d)
		case "share":
			fn, in = "shareSignsOrShares", w.shareInput(t, d)
			id := t.From
			if t.SosID != 0 {
				id = t.SosID
			}
			known = has(d.mpks, id)
			senderMPK = has(d.mpks, t.From)
		case "wait":
			fn, in = "wait", nil
		case "keep":
			fn = "sharder_keep"
			if s := w.node(t.From); s != nil {
				in = nodeJSON(s, "s")
			} else {
				in = nodeJSON(&nd{tok: t.From, id: w.idOf(t.From), pub: w.miners[0].pub}, "s")
			}
		}
		res, e, left := w.exec(round, w.idOf(t.From), fn, in)
		if t.Kind == "contribute" && res == "DAccept" {
			// the id the key was recorded under, as observed
			for _, x := range w.observe(left, round).mpks {
				if !has(d.mpks, x) {
					if x == t.From && t.Len == 0 {
						w.ownMPK[t.From] = w.cycle + 1
					} else {
						w.ownMPK[x] = 0 // somebody else's key now sits under that id
					}
				}
			}
		}
		r.ownMPK = append(r.ownMPK, w.ownMPK[t.From] == w.cycle+1)
		r.txRes, r.txErr, r.idKnown = append(r.txRes, res), append(r.txErr, e), append(r.idKnown, known)
		r.senderMPK = append(r.senderMPK, senderMPK)
		r.txLeft = append(r.txLeft, w.observe(left, round))
	}
	// ---- the phase step of payFees ----
	r.dkgBefore = w.observe(w.mpt, round)
	r.due = w.h.IsVC && round-r.pnBefore.start >= w.h.Rounds[r.phase] && r.pnBefore.present
	if !r.pnBefore.present {
		r.due = w.h.IsVC && 0 >= w.h.Rounds[0]
	}
	r.moveRes, r.funcRes = "FOk", "FOk"
	if r.due {
		r.cond, r.condWhy = w.condition(w.mpt, round, r.phase, r.dkgBefore)
		// record the oracle values on a copy of the state
		f := fork(w.mpt)
		c := w.ctx(f, round, nil)
		gn, err := minersc.GetGlobalNode(c)
		must(err)
		if gn.PrevMagicBlock != nil && gn.PrevMagicBlock.Miners != nil &&
			len(gn.PrevMagicBlock.Miners.NodesMap) == 0 && len(w.prevM) > 0 {
			// the magic block the chain adopted has members (the engine recorded them), the copy kept in the
			// global node has an empty node map: HasNode is false for everybody
			r.prevLost = true
		}
		pn, err := minersc.GetPhaseNode(c)
		must(err)
		moved := false
		func() {
			defer func() {
				if p := recover(); p != nil {
					r.funcRes, r.panicText = "panic", fmt.Sprint(p)
					if !moved {
						r.moveRes = "FPanic"
					}
				}
			}()
			r.moveRes = classErr(minersc.VerifGovMove(c, pn, gn))
			moved = true
			if r.moveRes == "FOk" {
				_, err := minersc.VerifGovPhaseFunc(pn.Phase, c, gn)
				r.funcRes = classErr(err)
				r.fresh = w.observe(f, round)
			}
		}()
	}
	f := fork(w.mpt)
	if r.funcRes == "panic" {
		// the phase function panicked on the copy. setPhaseNode would panic the same way while holding
		// lockPhaseFunctions[phase] (locked without defer), which would block every later call in this process:
		// the real step is not executed and the history ends here.
		r.stepOut, r.stepErr = "PPanic", r.panicText
		r.pnAfter = w.pn(w.mpt)
		r.dkgAfter = w.observe(w.mpt, round)
		return r
	}
	done := make(chan struct{})
	go func() {
		defer close(done)
		defer func() {
			if p := recover(); p != nil {
				r.stepOut, r.stepErr = "PPanic", fmt.Sprint(p)
			}
		}()
		c := w.ctx(f, round, nil)
		gn, err := minersc.GetGlobalNode(c)
		must(err)
		pn, err := minersc.GetPhaseNode(c)
		must(err)
		if err := minersc.VerifGovSetPhaseNode(w.msc, c, pn, gn, nil, w.h.IsVC); err != nil {
			r.stepOut, r.stepErr = "PError", err.Error()
			return
		}
		r.atVC = w.h.IsVC && round == gn.ViewChange
		if w.h.IsVC {
			if err := minersc.VerifGovAdjustViewChange(w.msc, gn, c); err != nil {
				r.stepOut, r.stepErr = "PError", err.Error()
				return
			}
		}
		if round == gn.ViewChange {
			if err := w.msc.SetMagicBlock(gn, c); err != nil {
				r.stepOut, r.stepErr = "PError", err.Error()
				return
			}
			// the chain adopts the magic block: it becomes the latest finalized one
			if mb, err := minersc.VerifGovMagicBlock(c); err == nil {
				w.lfmb = mb
				w.prevM, w.prevS = map[string]bool{}, map[string]bool{}
				for _, id := range poolIDs(mb.Miners) {
					w.prevM[id] = true
				}
				for _, id := range poolIDs(mb.Sharders) {
					w.prevS[id] = true
				}
			}
		}
		must(minersc.VerifGovSaveGlobalNode(gn, c))
		r.stepOut = "PSaved"
	}()
	select {
	case <-done:
	case <-time.After(20 * time.Second):
		// a lock of the contract is held for good (lockPhaseFunctions is taken without defer, so a panic of a phase
		// function that was recovered earlier in this process leaves it locked): nothing more can run here
		hung = true
		r.stepOut, r.stepErr = "PHang", "the phase step blocks on a contract mutex"
		r.pnAfter = r.pnBefore
		r.dkgAfter = r.dkgBefore
		return r
	}
	if r.stepOut == "PSaved" {
		w.adopt(f)
	}
	r.pnAfter = w.pn(w.mpt)
	r.dkgAfter = w.observe(w.mpt, round)
	if r.stepOut == "PSaved" && r.phase == int64(minersc.Publish) && r.pnAfter.phase == int64(minersc.Wait) {
		mb, err := minersc.VerifGovMagicBlock(w.ctx(w.mpt, round, nil))
		must(err)
		r.mbMiners, r.mbShard = w.toks(poolIDs(mb.Miners)), w.toks(poolIDs(mb.Sharders))
	}
	if r.pnAfter.phase == 0 && (r.pnAfter.restarts != r.pnBefore.restarts || r.phase == int64(minersc.Wait)) && r.pnAfter.start == round {
		w.cycle++
	}
	return r
}

// ---------- the property, evaluated on one block ----------

type viol struct{ sig, desc string }

var hung bool // a contract mutex is blocked for good: the engine stops

func (w *world) judge(b blk, r blockRes, count func(string)) []viol {
	var vs []viol
	add := func(sig, f string, a ...interface{}) {
		vs = append(vs, viol{"C38:" + sig, fmt.Sprintf("round %d: ", r.round) + fmt.Sprintf(f, a...)})
	}
	phaseName := minersc.Phase(r.phase).String()
	// ---- transactions ----
	for i, t := range b.Txns {
		d, res := r.txBefore[i], r.txRes[i]
		count("txn-" + t.Kind + "-" + res)
		if res != "DAccept" && !r.txLeft[i].same(d) && t.Kind != "keep" {
			add("rejected-dkg-txn-changed-state", "%s from %d was not accepted (%s) but the DKG lists changed", t.Kind, t.From, r.txErr[i])
		}
		member := has(d.miners, t.From)
		switch t.Kind {
		case "contribute":
			claimed := t.From
			if t.Claim != 0 {
				claimed = t.Claim
			}
			if res == "DAccept" {
				// the id the key was really recorded under
				for _, x := range r.txLeft[i].mpks {
					if !has(d.mpks, x) {
						claimed = x
					}
				}
			} else if has(d.mpks, t.From) && !has(d.mpks, claimed) {
				claimed = t.From // a contract that ignores the input's ID refuses because the sender already has a key
			}
			okIn := r.phase == int64(minersc.Contribute) && member && !t.Garbage && t.Len == 0
			switch {
			case res == "DPanic":
				add("panic", "contributeMpk panics: %s", r.txErr[i])
			case res == "DAccept" && !(okIn && !has(d.mpks, claimed)):
				add("mpk-accepted-against-the-rules", "contributeMpk from %d accepted in phase %s (member=%v, size offset %d, garbage=%v, id already has an MPK=%v)",
					t.From, phaseName, member, t.Len, t.Garbage, has(d.mpks, claimed))
			case res == "DAccept" && claimed != t.From:
				add("mpk-recorded-under-another-id", "miner %d contributed an MPK that was recorded for id %d (the \"ID\" of the input overrides the sender)", t.From, claimed)
			case res == "DReject" && okIn && !has(d.mpks, claimed):
				add("valid-mpk-rejected", "contributeMpk from member %d in phase contribute with T entries was rejected: %s", t.From, r.txErr[i])
			}
		case "share":
			allValid, anyNil, unknownShare := true, false, false
			for _, e := range t.Entries {
				switch e.Kind {
				case "nil":
					anyNil = true
				case "sign":
					if !has(d.miners, e.To) {
						allValid = false
					}
				case "share":
					if !r.idKnown[i] {
						unknownShare = true
					}
					if !r.ownMPK[i] {
						allValid = false // the sender's own MPK is not what is recorded under its id
					}
				default:
					allValid = false
				}
			}
			okIn := r.phase == int64(minersc.Publish) && !t.Garbage && len(t.Entries) >= d.K-1 && !has(d.gsos, t.From) && d.mpksNode
			switch {
			case res == "DPanic" && unknownShare:
				add("share-with-unknown-id-panics", "shareSignsOrShares from %d with a share entry and an \"id\" that has no MPK panics: %s", t.From, r.txErr[i])
			case res == "DPanic":
				add("panic", "shareSignsOrShares panics: %s", r.txErr[i])
			case res == "DAccept" && !okIn:
				add("share-accepted-against-the-rules", "shareSignsOrShares from %d accepted in phase %s (entries %d, K %d, already=%v)", t.From, phaseName, len(t.Entries), d.K, has(d.gsos, t.From))
			case res == "DAccept" && !member:
				add("share-from-non-dkg-member-accepted", "shareSignsOrShares from %d, which is not in the DKG miner set %v, was accepted", t.From, d.miners)
			case res == "DAccept" && anyNil:
				add("share-with-null-entries-accepted", "shareSignsOrShares from %d with null entries (no signature, no share) was accepted", t.From)
			case res == "DAccept" && !allValid:
				add("invalid-share-accepted", "shareSignsOrShares from %d with an invalid entry was accepted", t.From)
			case res == "DReject" && okIn && member && allValid && !anyNil && !unknownShare && (t.SosID == 0 || t.SosID == t.From):
				add("valid-share-rejected", "valid shareSignsOrShares from member %d was rejected: %s", t.From, r.txErr[i])
			}
		case "wait":
			okIn := r.phase == int64(minersc.Wait) && !has(d.waited, t.From)
			switch {
			case res == "DPanic":
				add("panic", "wait panics: %s", r.txErr[i])
			case res == "DAccept" && !okIn:
				add("wait-accepted-against-the-rules", "wait from %d accepted in phase %s (already=%v)", t.From, phaseName, has(d.waited, t.From))
			case res == "DAccept" && !member:
				count("wait-from-non-member-accepted")
			case res == "DReject" && okIn:
				add("valid-wait-rejected", "wait from %d in phase wait was rejected: %s", t.From, r.txErr[i])
			}
		}
	}
	// ---- schedule ----
	pb, pa := r.pnBefore, r.pnAfter
	if !pb.present {
		pb = pnObs{true, 0, r.round, r.round, 0}
	}
	xp := w.h.Settings["x_percent"]
	badX := xp != "" && (strings.HasPrefix(xp, "-") || xp == "0" || strings.EqualFold(xp, "nan"))
	switch r.stepOut {
	case "PHang":
		add("phase-step-blocked", "%s", r.stepErr)
		return vs
	case "PPanic":
		if badX && r.phase == int64(minersc.Publish) {
			add("nonpositive-x-percent-panics-member-selection", "x_percent=%s: the phase step panics while selecting the members of the new magic block: %s", xp, r.stepErr)
		} else {
			add("panic-in-phase-step", "the phase step panics: %s", r.stepErr)
		}
		return vs
	case "PError":
		count("step-error")
		if os.Getenv("GOVDEBUG") != "" {
			fmt.Fprintln(os.Stderr, "STEPERR", r.stepErr)
		}
		return vs
	}
	count("step-in-" + phaseName)
	if !r.due {
		if pa.phase != pb.phase || pa.start != pb.start || pa.restarts != pb.restarts {
			add("phase-moved-off-schedule", "phase %s started at %d with %d configured rounds, yet the node became phase %d start %d restarts %d",
				phaseName, pb.start, w.h.Rounds[r.phase], pa.phase, pa.start, pa.restarts)
		}
		return vs
	}
	advanced := pa.phase == (pb.phase+1)%5 && pa.start == r.round && (pa.restarts == pb.restarts || pa.phase == 0)
	restarted := pa.phase == 0 && pa.restarts == pb.restarts+1 && pa.start == r.round
	if pb.phase == 4 && advanced {
		restarted = false
	}
	switch {
	case advanced && !restarted:
		count("advance-from-" + phaseName)
		if !r.cond {
			add("advanced-without-condition", "phase %s advanced although its condition does not hold: %s", phaseName, r.condWhy)
		}
	case restarted:
		count("restart-from-" + phaseName)
		if len(r.dkgAfter.miners)+len(r.dkgAfter.mpks)+len(r.dkgAfter.gsos)+len(r.dkgAfter.waited) != 0 {
			add("restart-kept-dkg-state", "restart from %s left DKG lists behind: %+v", phaseName, r.dkgAfter)
		}
		if r.cond && r.moveRes == "FErr" {
			if r.prevLost {
				add("previous-magic-block-loses-its-nodes", "the condition of phase %s holds, but the move function fails: the previous magic block kept in the "+
					"global node has nodes and an empty node map (Pool.UnmarshalMsg does not restore NodesMap), so no node counts as a previous member; the DKG restarts forever", phaseName)
			} else {
				add("move-refused-although-condition-holds", "the condition of phase %s holds, but the move function failed and the DKG restarted", phaseName)
			}
		}
	default:
		add("phase-node-wrong-after-due-step", "phase %s was due at round %d; the node became phase %d start %d restarts %d (neither the next phase nor a restart)",
			phaseName, r.round, pa.phase, pa.start, pa.restarts)
	}
	// ---- magic block ----
	if r.mbMiners != nil {
		count("magic-block-created")
		okM, okS := false, false
		for _, t := range r.mbMiners {
			okM = okM || w.prevM[w.idOf(t)]
		}
		for _, t := range r.mbShard {
			okS = okS || w.prevS[w.idOf(t)]
		}
		if !okM || !okS {
			if badX {
				add("nonpositive-x-percent-drops-previous-members", "x_percent=%s: the new magic block (miners %v, sharders %v) keeps no miner/sharder of the previous set", xp, r.mbMiners, r.mbShard)
			} else {
				add("magic-block-without-previous-member", "the new magic block (miners %v, sharders %v) keeps no miner/sharder of the previous set", r.mbMiners, r.mbShard)
			}
		}
	}
	return vs
}

// ---------- generation (adaptive: the generator looks at the current phase and lists) ----------

type plan struct {
	lazy      bool // low participation in this cycle
	noKeep    bool
	fewShares bool
	fewWait   bool
	clean     bool // directed histories: everybody takes part, no faulty transactions
}

func genTxns(r *vh.Rand, w *world, round int64, p plan) []txn {
	pn := w.pn(w.mpt)
	d := w.observe(w.mpt, round)
	var out []txn
	stranger := func() int { return 91 + r.Intn(3) }
	otherMiner := func(not int) int {
		for {
			t := 1 + r.Intn(len(w.miners))
			if t != not || len(w.miners) == 1 {
				return t
			}
		}
	}
	sos := func(from int, flavour string) txn {
		t := txn{Kind: "share", From: from}
		for _, m := range d.miners {
			if m == from {
				continue
			}
			k := "sign"
			if r.Chance(1, 4) {
				k = "share"
			}
			t.Entries = append(t.Entries, sosEntry{To: m, Kind: k})
		}
		switch flavour {
		case "badsign", "badshare", "badhex":
			if len(t.Entries) > 0 {
				t.Entries[r.Intn(len(t.Entries))].Kind = flavour
			}
		case "few":
			if d.K >= 2 {
				t.Entries = t.Entries[:min(len(t.Entries), max(d.K-2, 0))]
			}
		case "nil":
			for i := range t.Entries {
				t.Entries[i].Kind = "nil"
			}
		case "unknown-id":
			t.SosID = 97
			for i := range t.Entries {
				t.Entries[i].Kind = "nil"
			}
			if len(t.Entries) == 0 {
				t.Entries = []sosEntry{{To: otherMiner(from), Kind: "nil"}}
			}
			t.Entries[0].Kind = "share"
		case "own-bad", "own-bad-k", "foreign-bad":
			// K-2 (own-bad-k: K-1) genuine entries for other members plus one entry with invalid content keyed by the
			// sender's own id (foreign-bad: by an id outside the DKG set): the count reaches K-1 (K) only with that entry
			keepN := max(d.K-2, 0)
			if flavour == "own-bad-k" {
				keepN = max(d.K-1, 0)
			}
			t.Entries = t.Entries[:min(len(t.Entries), keepN)]
			to := from
			if flavour == "foreign-bad" {
				to = 0
			}
			t.Entries = append(t.Entries, sosEntry{To: to, Kind: []string{"badshare", "badsign", "badhex"}[r.Intn(3)]})
		case "others-mpk":
			t.SosID = otherMiner(from)
			for i := range t.Entries {
				t.Entries[i].Kind = "share"
			}
		}
		return t
	}
	part := 70
	if p.lazy {
		part = 25
	}
	if p.clean {
		part = 100
		r = vh.NewRand(7) // fixed draws; the flavour switches below are bypassed through cleanOnly
	}
	cleanOnly := p.clean
	switch minersc.Phase(pn.phase) {
	case minersc.Contribute:
		for _, m := range d.miners {
			if m > 50 || has(d.mpks, m) || !r.Chance(part, 100) {
				continue
			}
			t := txn{Kind: "contribute", From: m}
			if cleanOnly {
				out = append(out, t)
				continue
			}
			switch x := r.Intn(40); {
			case x == 0:
				t.Len = 1
			case x == 1:
				t.Len = -1
			case x == 2:
				t.Garbage = true
			case x == 3:
				t.Claim = otherMiner(m)
			case x == 4:
				t.Claim = stranger()
			}
			out = append(out, t)
			if r.Chance(1, 8) {
				out = append(out, txn{Kind: "contribute", From: m}) // duplicate
			}
		}
		if !p.noKeep {
			for _, s := range w.sharders {
				if cleanOnly || r.Chance(part, 100) {
					out = append(out, txn{Kind: "keep", From: s.tok})
				}
			}
		}
		if !cleanOnly && r.Chance(1, 6) {
			out = append(out, txn{Kind: "contribute", From: stranger()})
		}
	case minersc.Publish:
		for _, m := range d.miners {
			if has(d.gsos, m) || !r.Chance(part, 100) || (p.fewShares && r.Bool()) {
				continue
			}
			if cleanOnly {
				t := txn{Kind: "share", From: m}
				for _, o := range d.miners {
					if o != m {
						t.Entries = append(t.Entries, sosEntry{To: o, Kind: "sign"})
					}
				}
				out = append(out, t)
				continue
			}
			fl := ""
			switch x := r.Intn(40); {
			case x == 0:
				fl = "badsign"
			case x == 1:
				fl = "badshare"
			case x == 2:
				fl = "badhex"
			case x == 3:
				fl = "few"
			case x == 4:
				fl = "nil"
			case x == 5:
				fl = "others-mpk"
			case x == 6 || x == 7:
				fl = "own-bad"
			case x == 8:
				fl = "own-bad-k"
			case x == 9:
				fl = "foreign-bad"
			}
			t := sos(m, fl)
			if r.Chance(1, 60) {
				t.Garbage = true
			}
			out = append(out, t)
			if r.Chance(1, 8) {
				out = append(out, sos(m, "")) // duplicate
			}
		}
		if cleanOnly {
			return out
		}
		if r.Chance(1, 6) {
			out = append(out, sos(stranger(), "nil"))
		}
		if r.Chance(1, 8) {
			out = append(out, sos(stranger(), "unknown-id"))
		}
		if r.Chance(1, 10) {
			out = append(out, sos(stranger(), ""))
		}
	case minersc.Wait:
		for _, m := range d.miners {
			if has(d.waited, m) || !r.Chance(part, 100) || (p.fewWait && r.Bool()) {
				continue
			}
			out = append(out, txn{Kind: "wait", From: m})
			if !cleanOnly && r.Chance(1, 8) {
				out = append(out, txn{Kind: "wait", From: m})
			}
		}
		if !cleanOnly && r.Chance(1, 5) {
			out = append(out, txn{Kind: "wait", From: stranger()})
		}
	}
	// out of phase
	if !cleanOnly && r.Chance(1, 7) && len(w.miners) > 0 {
		m := 1 + r.Intn(len(w.miners))
		switch r.Intn(3) {
		case 0:
			out = append(out, txn{Kind: "contribute", From: m})
		case 1:
			out = append(out, sos(m, ""))
		default:
			out = append(out, txn{Kind: "wait", From: m})
		}
	}
	return out
}

func min(a, b int) int {
	if a < b {
		return a
	}
	return b
}

func genSetup(r *vh.Rand) hist {
	h := hist{NMiners: r.Range(3, 6), NSharders: r.Range(1, 3), IsVC: !r.Chance(1, 12), Seed: int64(r.Intn(1000))}
	for i := range h.Rounds {
		h.Rounds[i] = int64(r.Range(1, 3))
	}
	if r.Chance(1, 10) {
		h.Rounds[r.Intn(5)] = 0
	}
	// previous set: usually most of the nodes
	for t := 1; t <= h.NMiners; t++ {
		if r.Chance(3, 4) {
			h.PrevMiners = append(h.PrevMiners, t)
		}
	}
	if len(h.PrevMiners) == 0 && !r.Chance(1, 6) {
		h.PrevMiners = []int{1 + r.Intn(h.NMiners)}
	}
	for j := 0; j < h.NSharders; j++ {
		if r.Chance(3, 4) {
			h.PrevSharders = append(h.PrevSharders, 51+j)
		}
	}
	if len(h.PrevSharders) == 0 && !r.Chance(1, 6) {
		h.PrevSharders = []int{51}
	}
	minN := r.Range(2, h.NMiners)
	if r.Chance(1, 8) {
		minN = h.NMiners + 1 // the move out of Start succeeds, createDKGMinersForContribute then fails: restart
	}
	maxN := r.Range(minN, h.NMiners+1)
	if maxN < minN {
		maxN = minN
	}
	h.Settings = map[string]string{"min_n": fmt.Sprint(minN), "max_n": fmt.Sprint(maxN), "min_s": "1", "max_s": fmt.Sprint(r.Range(1, 3))}
	if r.Chance(1, 4) {
		h.Settings["x_percent"] = []string{"0", "-1", "0.5", "1", "NaN", "0.01"}[r.Intn(6)]
	}
	if r.Chance(1, 4) {
		h.Settings["k_percent"] = []string{"0.5", "1", "0.34"}[r.Intn(3)]
		h.Settings["t_percent"] = []string{"0.5", "0.34", "0.67"}[r.Intn(3)]
	}
	return h
}

// ---------- Coq case ----------

func zl(xs []int) string {
	s := make([]string, len(xs))
	for i, x := range xs {
		s[i] = fmt.Sprint(x)
	}
	return vh.List(s)
}

func coqTxn(t txn, r blockRes, i int) (string, bool) {
	d := r.txBefore[i]
	switch t.Kind {
	case "contribute":
		claimed := t.From
		if t.Claim != 0 {
			claimed = t.Claim
		}
		return fmt.Sprintf("(TxContribute %d %d %s %s)", t.From, claimed, vh.Bool(!t.Garbage), vh.Z(int64(d.T+t.Len))), true
	case "share":
		var es []string
		for _, e := range t.Entries {
			switch e.Kind {
			case "nil":
				es = append(es, "SoNil")
			case "sign":
				es = append(es, "(SoSign "+vh.Bool(has(d.miners, e.To))+")")
			case "badsign":
				es = append(es, "(SoSign false)")
			case "share":
				es = append(es, "(SoShare true "+vh.Bool(r.ownMPK[i])+")")
			case "badshare":
				es = append(es, "(SoShare true false)")
			case "badhex":
				es = append(es, "(SoShare false false)")
			}
		}
		return fmt.Sprintf("(TxShare %d %s %s %s)", t.From, vh.Bool(!t.Garbage), vh.Bool(r.senderMPK[i]), vh.List(es)), true
	case "wait":
		return fmt.Sprintf("(TxWait %d)", t.From), true
	}
	return "", false // sharder_keep is not part of the model
}

func coqCase(h hist, rs []blockRes) string {
	var rounds []string
	for p, n := range h.Rounds {
		rounds = append(rounds, vh.Pair(fmt.Sprint(p), vh.Z(n)))
	}
	var blocks, obs []string
	for bi, r := range rs {
		if r.stepOut == "PHang" {
			break
		}
		var ts, res []string
		for i, t := range h.Blocks[bi].Txns {
			if s, ok := coqTxn(t, r, i); ok {
				ts = append(ts, s)
				res = append(res, r.txRes[i])
			}
		}
		fn := r.funcRes
		if fn == "panic" {
			fn = "FPanic"
		}
		orc := fmt.Sprintf("(Build_ph_oracle %s %s true)", r.moveRes, fn)
		fresh := fmt.Sprintf("(Build_dk_fresh %s %d %d)", zl(r.fresh.miners), r.fresh.T, r.fresh.K)
		blocks = append(blocks, fmt.Sprintf("(Build_vc_block %d %s %s %s %s)", r.round, vh.List(ts), orc, fresh, vh.Bool(r.atVC)))
		pn := "None"
		if r.pnAfter.present {
			pn = fmt.Sprintf("(Some (%d, %d, %d, %d))", r.pnAfter.phase, r.pnAfter.start, r.pnAfter.current, r.pnAfter.restarts)
		}
		d := r.dkgAfter
		obs = append(obs, fmt.Sprintf("(Build_vc_obs %s %s %s %s %d %d %s %s %s)", vh.List(res), r.stepOut, pn, zl(d.miners), d.T, d.K, zl(d.mpks), zl(d.gsos), zl(d.waited)))
	}
	return fmt.Sprintf("(Build_vc_case %s %s %s %s)", vh.List(rounds), vh.Bool(h.IsVC), vh.List(blocks), vh.List(obs))
}

// ---------- running ----------

// run executes a recorded history; gen != nil appends generated blocks (adaptive) up to nBlocks.
func run(h *hist, gen *vh.Rand, nBlocks int, count func(string), clean ...bool) ([]viol, []blockRes) {
	w := newWorld(h)
	var vs []viol
	var rs []blockRes
	p := plan{}
	for i := 0; i < nBlocks; i++ {
		round := int64(i + 1)
		if gen != nil {
			if i%8 == 0 {
				p = plan{lazy: gen.Chance(1, 5), noKeep: gen.Chance(1, 8), fewShares: gen.Chance(1, 6), fewWait: gen.Chance(1, 5)}
				if len(clean) > 0 && clean[0] {
					p = plan{clean: true}
				}
			}
			h.Blocks = append(h.Blocks, blk{Txns: genTxns(gen, w, round, p)})
		}
		if i >= len(h.Blocks) {
			break
		}
		r := w.runBlock(round, h.Blocks[i])
		rs = append(rs, r)
		if os.Getenv("GOVDEBUG") != "" {
			fmt.Fprintf(os.Stderr, "BLK %d phase %d due=%v cond=%v(%s) move=%s func=%s out=%s(%s) pn=%+v dkg=%+v tx=%v %v\n", round, r.phase, r.due, r.cond, r.condWhy, r.moveRes, r.funcRes, r.stepOut, r.stepErr, r.pnAfter, r.dkgBefore, r.txRes, r.txErr)
		}
		vs = append(vs, w.judge(h.Blocks[i], r, count)...)
		if r.stepOut == "PPanic" || r.stepOut == "PHang" {
			h.Blocks = h.Blocks[:i+1]
			break
		}
	}
	return vs, rs
}

func shrink(h hist, sig string) hist {
	fails := func(h2 hist) bool {
		vs, _ := run(&h2, nil, len(h2.Blocks), func(string) {})
		for _, v := range vs {
			if v.sig == sig {
				return true
			}
		}
		return false
	}
	// drop trailing blocks first (rounds are positions, so only a suffix can go), then transactions
	for len(h.Blocks) > 1 {
		h2 := h
		h2.Blocks = h.Blocks[:len(h.Blocks)-1]
		if !fails(h2) {
			break
		}
		h = h2
	}
	for bi := range h.Blocks {
		ts := h.Blocks[bi].Txns
		if len(ts) == 0 {
			continue
		}
		keep := vh.ShrinkIdx(len(ts), func(keep []int) bool {
			h2 := h
			h2.Blocks = append([]blk{}, h.Blocks...)
			var t2 []txn
			for _, i := range keep {
				t2 = append(t2, ts[i])
			}
			h2.Blocks[bi] = blk{Txns: t2}
			return fails(h2)
		})
		var t2 []txn
		for _, i := range keep {
			t2 = append(t2, ts[i])
		}
		h.Blocks = append([]blk{}, h.Blocks...)
		h.Blocks[bi] = blk{Txns: t2}
	}
	return h
}

func must(err error) {
	if err != nil {
		panic(err)
	}
}

func main() {
	o := vh.ParseFlags()
	rep := vh.NewReport("phases", "C38", o)
	rep.Rule = "histories of 25-50 blocks on the real miner contract with 3-6 registered miners and 1-3 sharders (a subset forms the previous magic block), " +
		"1-3 rounds per phase (sometimes 0), generated settings (min_n, max_n, max_s, t/k/x percent incl. 0, negative, NaN), view change on/off; per block generated " +
		"contributeMpk / shareSignsOrShares (real BLS shares and signatures; wrong size, bad signature, bad share, null entries, foreign ids, strangers, duplicates, " +
		"out of phase) / wait / sharder_keep, then the phase step of payFees; non-trivial = at least one phase advance, one restart or rejection, and one accepted DKG transaction; distinct by full history"
	sc.Init()
	repo := "/repo"
	if r := os.Getenv("VERIF_REPO"); r != "" {
		repo = r
	}
	must(viper.ReadConfigFile(repo + "/docker.local/config/0chain.yaml"))
	must(config.SmartContractConfig.ReadConfigFile(repo + "/docker.local/config/sc.yaml"))
	cf := &vh.CasesFile{Imports: []string{"Base.Corr", "Model.Phases", "Corr.Phases"}, CaseType: "vc_case", CheckFn: "vc_check", Shard: 10}

	handle := func(h hist, gen *vh.Rand, n int, clean ...bool) {
		local := map[string]int{}
		vs, rs := run(&h, gen, n, func(s string) { local[s]++ }, clean...)
		for s, c := range local {
			rep.CountN(s, c)
		}
		adv, rej, acc := 0, 0, 0
		for s, c := range local {
			switch {
			case strings.HasPrefix(s, "advance-from"):
				adv += c
			case strings.HasPrefix(s, "restart-from") || strings.HasSuffix(s, "-DReject"):
				rej += c
			case strings.HasSuffix(s, "-DAccept"):
				acc += c
			}
		}
		key, _ := json.Marshal(h)
		rep.Case(string(key), adv > 0 && rej > 0 && acc > 0, h)
		cf.Add(coqCase(h, rs))
		rep.CaseInputs = append(rep.CaseInputs, h)
		seen := map[string]bool{}
		for _, v := range vs {
			if seen[v.sig] {
				continue
			}
			seen[v.sig] = true
			dup := false
			for _, old := range rep.Violations {
				dup = dup || old.Signature == v.sig
			}
			if !dup {
				if hung {
					rep.Violate(v.sig, v.desc, h)
				} else {
					rep.Violate(v.sig, v.desc, shrink(h, v.sig))
				}
			}
		}
	}
	finish := func() {
		files, err := cf.Write(o.Out, "C38")
		must(err)
		rep.CaseFiles = files
		rep.ShardSize = 10
		rep.Write(o.Out)
	}
	var rh hist
	if o.LoadReplay(&rh) {
		handle(rh, nil, len(rh.Blocks))
		finish()
		return
	}
	// directed histories: a full, fault-free key generation with x_percent = 0 for every choice of the single
	// previous miner (the selection keeps 2 of 4 miners) and of the single previous sharder (1 of 2), a second
	// cycle after a completed view change, and the regular configuration
	for prev := 1; prev <= 4; prev++ {
		handle(hist{NMiners: 4, NSharders: 2, PrevMiners: []int{prev}, PrevSharders: []int{51 + prev%2}, IsVC: true, Seed: int64(prev),
			Rounds: [5]int64{1, 1, 1, 1, 1}, Settings: map[string]string{"min_n": "2", "max_n": "2", "min_s": "1", "max_s": "1", "x_percent": "0"}}, vh.NewRand(1), 8, true)
	}
	handle(hist{NMiners: 4, NSharders: 2, PrevMiners: []int{1, 2, 3}, PrevSharders: []int{51}, IsVC: true, Seed: 5,
		Rounds: [5]int64{1, 1, 1, 1, 1}, Settings: map[string]string{"min_n": "3", "max_n": "4", "min_s": "1", "max_s": "2"}}, vh.NewRand(1), 14, true)
	rnd := vh.NewRand(o.Seed)
	for i := 0; i < o.N(45, 600) && !hung; i++ {
		h := genSetup(rnd)
		handle(h, rnd.Fork(), rnd.Range(25, 50))
	}
	rep.Note("the phase step is setPhaseNode + adjustViewChange + SetMagicBlock + save of the global node in the order of payFees (the reward part of payFees is not driven)")
	rep.Note("every contract call runs on a copy of the state that is adopted only on success, as the chain does; the move / phase function results fed to the model are recorded on such a copy")
	finish()
}
