package sc

import "0chain.net/core/common"

func commonTimestamp(t int64) common.Timestamp { return common.Timestamp(t) }
