(* C25: Remove (from Last, or from a packed partition with the tail of Last moved into the
   freed slot, possibly emptying Last and pulling the previous partition back). *)
From ZC Require Import Model.Partitions Model.PartitionsSpec Proof.PartitionsUtil Proof.PartitionsInv
     Proof.PartitionsSem Proof.PartitionsPrim Proof.PartitionsOps.
From Coq Require Import Sorting.Permutation.
Open Scope Z_scope.

Lemma pt_remove_loc_obs ws id l0 :
  pt_T ws id = Some l0 ->
  exists ws', pt_remove_loc ws id = Some ws' /\
    pt_loc ws' = pt_loc ws /\ pt_last ws' = pt_last ws /\ pm_cache (ws_mem ws') = pm_cache (ws_mem ws) /\
    tt_parts (ws_trie ws') = tt_parts (ws_trie ws) /\
    (forall k, pt_T ws' k = if Z.eqb k id then None else pt_T ws k) /\
    (forall k, pt_C ws' k = if Z.eqb k id then None else pt_C ws k).
Proof.
  intros HT. unfold pt_remove_loc. unfold pt_T, pt_locs_get in HT.
  rewrite (al_del_checked_some Z.eqb id _ l0 HT). eexists. split; [reflexivity|].
  destruct ws as [[h ps ls] [n lp c lc]]. pt_red. conj_split; auto.
  - intros k. destruct (Z.eqb_spec k id) as [->|Hne]; [apply z_get_del_eq|apply z_get_del_ne; exact Hne].
  - intros k. destruct (Z.eqb_spec k id) as [->|Hne]; [apply z_get_del_eq|apply z_get_del_ne; exact Hne].
Qed.

(* ---------- from Last ---------- *)
Lemma pt_remove_from_last_ok size ws id idx d :
  pt_inv size ws -> pt_find id (pt_L ws) = Some (idx, d) ->
  exists ws', pt_remove_from_last ws idx = Some ws' /\ pt_inv size ws' /\
    Permutation (pt_abs ws) ((id, d) :: pt_abs ws').
Proof.
  intros [Hc Hne] Hf. destruct (pt_find_some _ _ _ _ Hf) as (X1 & X2 & HL & Hlen & _).
  unfold pt_remove_from_last. fold (pt_L ws). rewrite HL, <- Hlen.
  set (items := pt_swap_remove (length X1) (X1 ++ (id, d) :: X2)).
  assert (Hperm : Permutation items (X1 ++ X2)) by apply pt_swap_remove_split.
  clearbody items.
  set (ws1 := pt_set_last ws _).
  assert (H1 : pt_core_ws None size ws1 /\ Permutation (pt_abs ws) ((id, d) :: pt_abs ws1) /\
               pt_loc ws1 = pt_loc ws /\ pt_L ws1 = items).
  { subst ws1. destruct ws as [[h ps ls] [n lp c lc]]. pt_red.
    destruct (core_remove_last size n _ _ _ _ _ _ X1 X2 id d items Hc HL Hperm) as (Hc1 & Hp1).
    split; [exact Hc1|]. split; [|split; reflexivity]. rewrite !pt_abs_flat. pt_red. exact Hp1. }
  destruct H1 as (Hc1 & Hp1 & Hn1 & HL1). clearbody ws1.
  destruct items as [|x items'].
  - unfold pt_load_last_from_prev. destruct (pt_loc ws1) as [|pl] eqn:En.
    + exists ws1. split; [reflexivity|]. split; [split; [exact Hc1|]|exact Hp1].
      rewrite En. intros Hx. lia.
    + destruct (pt_load_last_from_prev_ok None size ws1 pl Hc1 En HL1) as (ws' & Hr & Hc' & Habs' & HL' & _).
      unfold pt_load_last_from_prev in Hr. rewrite En in Hr. exists ws'. split; [exact Hr|].
      split; [split; [exact Hc'|intros _; exact HL']|]. rewrite Habs'. exact Hp1.
  - exists ws1. split; [reflexivity|]. split; [split; [exact Hc1|]|exact Hp1].
    intros _. rewrite HL1. discriminate.
Qed.

(* ---------- the end of Remove from a packed partition: Last may have been emptied, the
   removed id still has its (stale) location entry ---------- *)
Lemma pt_remove_tail size ws id l :
  pt_core_ws (Some (id, l)) size ws -> (0 < pt_loc ws)%nat ->
  exists ws', (do ws1 <- (match pt_L ws with [] => pt_load_last_from_prev ws | _ => Some ws end);
               pt_remove_loc (pt_load_locations ws1 l) id) = Some ws' /\
    pt_inv size ws' /\ pt_abs ws' = pt_abs ws.
Proof.
  intros Hc Hpos.
  assert (H6 : exists ws6, (match pt_L ws with [] => pt_load_last_from_prev ws | _ => Some ws end) = Some ws6 /\
                 pt_core_ws (Some (id, l)) size ws6 /\ pt_abs ws6 = pt_abs ws /\
                 ((0 < pt_loc ws6)%nat -> pt_L ws6 <> [])).
  { destruct (pt_L ws) as [|x L'] eqn:EL.
    - destruct (pt_loc ws) as [|pl] eqn:En; [lia|].
      destruct (pt_load_last_from_prev_ok _ size ws pl Hc En EL) as (ws6 & Hr & Hc6 & Habs6 & HL6 & _).
      exists ws6. auto.
    - exists ws. split; [reflexivity|]. split; [exact Hc|]. split; [reflexivity|].
      intros _. rewrite EL. discriminate. }
  destruct H6 as (ws6 & Hr6 & Hc6 & Habs6 & Hne6). rewrite Hr6.
  destruct (pt_load_locations_ok _ size ws6 l Hc6) as (Hc7 & Ht7 & Hn7 & Hl7 & Hcache7).
  set (ws7 := pt_load_locations ws6 l) in *. clearbody ws7.
  assert (HT7 : pt_T ws7 id = Some l) by (apply (io_locs _ _ _ _ _ _ _ _ _ Hc7); right; reflexivity).
  destruct (pt_remove_loc_obs ws7 id l HT7) as (ws8 & Hr8 & Hn8 & Hl8 & Hcache8 & Hparts8 & HT8 & HC8).
  exists ws8. split; [exact Hr8|].
  assert (HE8 : forall i, pt_eff ws8 i = pt_eff ws6 i).
  { intros i. unfold pt_eff. rewrite Hcache8, Hparts8, Hcache7, Ht7. reflexivity. }
  assert (HL8 : pt_L ws8 = pt_L ws6) by (unfold pt_L; rewrite Hl8, Hl7; reflexivity).
  assert (Hloc8 : pt_loc ws8 = pt_loc ws6) by (rewrite Hn8, Hn7; reflexivity).
  assert (Hc7' : pt_core (Some (id, l)) size (pt_loc ws6) (pt_L ws6) (pt_eff ws7) (pt_T ws7) (pt_C ws7)
                   (pt_Pt ws7) (pt_Ch ws7)).
  { unfold pt_core_ws in Hc7. rewrite Hn7 in Hc7. unfold pt_L in *. rewrite Hl7 in Hc7. exact Hc7. }
  split; [split|].
  - unfold pt_core_ws. rewrite Hloc8, HL8.
    eapply pt_core_ext; [| | | | |
      eapply core_drop_stale with (T' := pt_T ws8) (C' := pt_C ws8); [exact Hc7'|exact HT8|exact HC8]].
    + intros i _. rewrite HE8. unfold pt_eff. rewrite Hcache7, Ht7. reflexivity.
    + reflexivity.
    + reflexivity.
    + intros i. unfold pt_Pt. rewrite Hparts8. reflexivity.
    + intros i. unfold pt_Ch. rewrite Hcache8. reflexivity.
  - rewrite Hloc8, HL8. exact Hne6.
  - rewrite <- Habs6. apply pt_abs_ext; auto.
Qed.

(* ---------- from a packed partition ---------- *)
Lemma pt_remove_part_ok size ws id d l idx :
  pt_inv size ws -> pt_T ws id = Some l -> (l < pt_loc ws)%nat ->
  pt_find id (pt_eff ws l) = Some (idx, d) ->
  exists ws', (do ws1 <- pt_remove_item ws id l; pt_remove_loc (pt_load_locations ws1 l) id) = Some ws' /\
    pt_inv size ws' /\ Permutation (pt_abs ws) ((id, d) :: pt_abs ws').
Proof.
  intros [Hc Hne] HT Hl Hfl.
  destruct (pt_getpart_lt None size ws l Hc Hl) as (ws1 & p & Hg & _ & HCh1 & Hitems & Hsame & Hc1).
  unfold pt_remove_item. rewrite Hg, Hitems, Hfl.
  destruct (pt_find_some _ _ _ _ Hfl) as (X1 & X2 & HEl & Hlen & _).
  pose proof (pt_same_but_cache_abs ws ws1 Hsame) as Habs1.
  destruct Hsame as (Htrie1 & Hn1 & Hl1 & Hlc1 & HE1).
  rewrite HEl, <- Hlen.
  set (Xr := pt_swap_remove (length X1) (X1 ++ (id, d) :: X2)).
  assert (Hperm : Permutation Xr (X1 ++ X2)) by apply pt_swap_remove_split.
  clearbody Xr.
  (* Last is not empty: cut its tail *)
  assert (HLne : pt_L ws <> []) by (apply Hne; lia).
  destruct (pt_cut_tail_some (pt_L ws) HLne) as (rest & rep & Hcut & HL).
  assert (HT1 : pt_T ws1 id = Some l) by (unfold pt_T; rewrite Htrie1; exact HT).
  assert (HEl1 : pt_eff ws1 l = X1 ++ (id, d) :: X2) by (rewrite HE1; exact HEl).
  assert (HL1 : pt_L ws1 = rest ++ [rep]) by (unfold pt_L; rewrite Hl1; exact HL).
  assert (Hl1' : (l < pt_loc ws1)%nat) by lia.
  (* the moved id is not in the partition *)
  assert (Hrep_not : pt_has (fst rep) Xr = false).
  { apply pt_has_false. intros Hin.
    assert (Hin' : In (fst rep) (pt_ids (pt_eff ws l))).
    { rewrite HEl, pt_ids_app. cbn. apply (in_ids_perm _ _ _ Hperm) in Hin. rewrite pt_ids_app in Hin.
      apply in_app_or in Hin. apply in_or_app. destruct Hin; [left|right; right]; assumption. }
    eapply flat_part_last_disjoint with (i := l); [apply (io_nodup _ _ _ _ _ _ _ _ _ Hc)|exact Hl|exact Hin'|].
    rewrite HL, pt_ids_app. apply in_or_app. right. left. reflexivity. }
  clear Hg Hc HT Hfl Hne HLne HEl HE1 Htrie1 Hlc1 Hitems.
  destruct ws1 as [[h1 ps1 ls1] [n1 lp1 c1 lc1]]. unfold pt_putpart, pt_save_loc. pt_red.
  destruct (Nat.eqb_spec l n1) as [Hx|_]; [lia|]. pt_red.
  destruct (Nat.eqb_spec l n1) as [Hx|_]; [lia|].
  unfold pt_L in HL. rewrite <- Hl1 in Hcut. cbn [pt_last ws_mem pm_last] in Hcut. rewrite Hcut.
  cbn [pp_items fst]. rewrite Hrep_not. pt_red.
  destruct (Nat.eqb_spec l n1) as [Hx|_]; [lia|]. pt_red.
  set (part2 := {| pp_items := Xr ++ [rep]; pp_changed := true |}).
  set (c5 := pt_al_set Nat.eqb l part2
               (pt_al_set Nat.eqb l {| pp_items := Xr; pp_changed := true |} c1)).
  set (ls5 := pt_al_set Z.eqb (fst rep) l ls1). set (lc5 := pt_al_set Z.eqb (fst rep) l lc1).
  set (ws5 := {| ws_trie := {| tt_hdr := h1; tt_parts := ps1; tt_locs := ls5 |};
                 ws_mem := {| pm_loc := n1; pm_last := {| pp_items := rest; pp_changed := true |};
                              pm_cache := c5; pm_lcache := lc5 |} |}).
  (* the state after the move *)
  assert (H5 : pt_core_ws (Some (id, l)) size ws5 /\
               Permutation (pt_flat (pt_eff_of c1 ps1) n1 (pp_items lp1)) ((id, d) :: pt_abs ws5)).
  { destruct (core_move size n1 (pp_items lp1) _ _ _ _ _ l X1 X2 id d rest rep Xr
                (pt_eff_of c5 ps1) (fun k => pt_al_get Z.eqb k ls5) (fun k => pt_al_get Z.eqb k lc5)
                (fun i => pt_al_get Nat.eqb i c5) Hc1 Hl1' HEl1 HL1 Hperm) as (Hc5 & Hp5).
    - subst c5. apply eff_cache_set_eq.
    - intros j Hj. subst c5. rewrite !eff_cache_set_ne by exact Hj. reflexivity.
    - intros k. subst ls5. destruct (Z.eqb_spec k (fst rep)) as [->|Hk];
        [apply z_get_set_eq|apply z_get_set_ne; exact Hk].
    - intros k. subst lc5. destruct (Z.eqb_spec k (fst rep)) as [->|Hk];
        [apply z_get_set_eq|apply z_get_set_ne; exact Hk].
    - intros j Hj. subst c5. rewrite !nat_get_set_ne by exact Hj. reflexivity.
    - intros q. subst c5. rewrite nat_get_set_eq. intros Hq; injection Hq as <-. reflexivity.
    - split; [exact Hc5|]. rewrite pt_abs_flat. exact Hp5. }
  destruct H5 as (Hc5 & Hp5).
  assert (Hpos : (0 < pt_loc ws5)%nat) by (cbn; lia).
  destruct (pt_remove_tail size ws5 id l Hc5 Hpos) as (ws' & Hr & Hinv' & Habs').
  exists ws'. split; [exact Hr|]. split; [exact Hinv'|].
  rewrite Habs', <- Habs1, pt_abs_flat. exact Hp5.
Qed.
