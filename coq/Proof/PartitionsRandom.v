(* C25: GetRandomItems returns [min size total] consecutive elements of the whole set, read
   cyclically from the drawn index: distinct members; the loop never runs out of fuel. *)
From ZC Require Import Model.Partitions Model.PartitionsSpec Proof.PartitionsUtil Proof.PartitionsInv
     Proof.PartitionsSem Proof.PartitionsPrim Proof.PartitionsOps.
From Coq Require Import Sorting.Permutation.
Open Scope nat_scope.

(* k elements of F read cyclically from position g *)
Definition pt_rot (F : list pt_item) (g k : nat) : list pt_item :=
  map (fun j => nth ((g + j) mod length F) F pt_dflt) (seq 0 k).

Lemma map_seq_shift {A} (f : nat -> A) a k : map f (seq a k) = map (fun j => f (a + j)) (seq 0 k).
Proof.
  revert a f. induction k as [|k IH]; intros a f; cbn [seq map]; [reflexivity|].
  rewrite Nat.add_0_r. f_equal. rewrite (IH (S a) f), (IH 1 (fun j => f (a + j))).
  apply map_ext. intros j. f_equal. lia.
Qed.

Lemma pt_rot_split F g a k : a <= k -> pt_rot F g k = pt_rot F g a ++ pt_rot F (g + a) (k - a).
Proof.
  intros H. unfold pt_rot. replace k with (a + (k - a)) at 1 by lia.
  rewrite seq_app, map_app. f_equal. cbn [Nat.add]. rewrite map_seq_shift.
  apply map_ext. intros j. f_equal. f_equal. lia.
Qed.

Lemma pt_rot_wrap F g k : pt_rot F (g + length F) k = pt_rot F g k.
Proof.
  unfold pt_rot. apply map_ext. intros j. f_equal.
  destruct (length F) as [|t] eqn:E; [rewrite Nat.add_0_r; reflexivity|].
  replace (g + S t + j) with (g + j + 1 * S t) by lia. apply Nat.mod_add. lia.
Qed.

Lemma skipn_S_tl {A} (l : list A) off x tl : skipn off l = x :: tl -> skipn (S off) l = tl.
Proof.
  revert l. induction off as [|off IH]; intros l H.
  - cbn in H. subst l. reflexivity.
  - destruct l as [|y l]; [discriminate|]. cbn [skipn] in H. cbn [skipn]. apply IH in H. exact H.
Qed.

Lemma firstn_skipn_nth {A} (l : list A) off k d :
  off + k <= length l -> firstn k (skipn off l) = map (fun j => nth (off + j) l d) (seq 0 k).
Proof.
  revert l off. induction k as [|k IH]; intros l off H; [reflexivity|].
  cbn [seq map]. rewrite map_seq_shift.
  destruct (skipn off l) as [|x tl] eqn:E.
  - exfalso. assert (Hl : length (skipn off l) = length l - off) by apply skipn_length.
    rewrite E in Hl. cbn in Hl. lia.
  - cbn [firstn]. f_equal.
    + rewrite Nat.add_0_r. rewrite <- (firstn_skipn off l) at 1. rewrite app_nth2; rewrite firstn_length; [|lia].
      replace (off - Nat.min off (length l)) with 0 by lia. rewrite E. reflexivity.
    + assert (Htl : tl = skipn (S off) l) by (symmetry; eapply skipn_S_tl; exact E).
      rewrite Htl, (IH l (S off)) by lia. apply map_ext. intros j. f_equal. lia.
Qed.

Section Rot.
  Context (size n : nat) (L : list pt_item) (E : nat -> list pt_item)
          (Hfull : forall i, i < n -> length (E i) = size).
  Let F := pt_flat E n L.
  Definition pt_part_at (pi : nat) : list pt_item := if Nat.eqb pi n then L else E pi.

  Lemma flat_prefix_len k : k <= n -> length (flat_map E (seq 0 k)) = k * size.
  Proof.
    induction k as [|k IH]; intros Hk; [reflexivity|].
    rewrite flat_map_seq_S, app_length, IH, Hfull by lia. lia.
  Qed.

  Lemma flat_len : length F = n * size + length L.
  Proof. unfold F, pt_flat. rewrite app_length, flat_prefix_len by lia. reflexivity. Qed.

  Lemma nth_flat pi o : pi <= n -> o < length (pt_part_at pi) -> nth (pi * size + o) F pt_dflt = nth o (pt_part_at pi) pt_dflt.
  Proof.
    intros Hpi Ho. unfold pt_part_at in *. destruct (Nat.eqb_spec pi n) as [->|Hne].
    - unfold F, pt_flat. rewrite app_nth2; rewrite flat_prefix_len by lia; [|lia]. f_equal. lia.
    - assert (Hlt : pi < n) by lia. unfold F. rewrite (flat_split E n L pi Hlt).
      rewrite app_nth2; rewrite flat_prefix_len by lia; [|lia].
      replace (pi * size + o - pi * size) with o by lia. apply app_nth1. exact Ho.
  Qed.

  Lemma rot_no_wrap pi off k :
    pi <= n -> off + k <= length (pt_part_at pi) ->
    pt_rot F (pi * size + off) k = firstn k (skipn off (pt_part_at pi)).
  Proof.
    intros Hpi Hk. rewrite (firstn_skipn_nth _ off k pt_dflt Hk). unfold pt_rot.
    apply map_ext_in. intros j Hj. apply in_seq in Hj.
    assert (Hlen : pi * size + length (pt_part_at pi) <= length F).
    { rewrite flat_len. unfold pt_part_at. destruct (Nat.eqb_spec pi n) as [->|Hne]; [lia|].
      rewrite Hfull by lia. assert (S pi <= n) by lia. nia. }
    rewrite Nat.mod_small by lia. rewrite <- Nat.add_assoc. apply nth_flat; [exact Hpi|lia].
  Qed.
End Rot.

(* ---------- the loop ---------- *)
Lemma pt_same_but_cache_refl ws : pt_same_but_cache ws ws.
Proof. unfold pt_same_but_cache. auto. Qed.

Lemma pt_same_but_cache_trans a b c : pt_same_but_cache a b -> pt_same_but_cache b c -> pt_same_but_cache a c.
Proof.
  intros (H1 & H2 & H3 & H4 & H5) (G1 & G2 & G3 & G4 & G5). unfold pt_same_but_cache.
  conj_split; try congruence; intros j; rewrite G5; apply H5.
Qed.

Lemma pt_getpart_any size ws pi :
  pt_core_ws None size ws -> pi <= pt_loc ws ->
  exists ws1 p, pt_getpart ws pi = Some (ws1, p) /\
    pp_items p = pt_part_at (pt_loc ws) (pt_L ws) (pt_eff ws) pi /\
    pt_same_but_cache ws ws1 /\ pt_core_ws None size ws1.
Proof.
  intros Hc Hpi. unfold pt_part_at. destruct (Nat.eqb_spec pi (pt_loc ws)) as [->|Hne].
  - exists ws, (pt_last ws). unfold pt_getpart. rewrite Nat.ltb_irrefl, Nat.eqb_refl.
    split; [reflexivity|]. split; [reflexivity|]. split; [apply pt_same_but_cache_refl|exact Hc].
  - destruct (pt_getpart_lt None size ws pi Hc) as (ws1 & p & Hg & _ & _ & Hit & Hs & Hc1); [lia|].
    exists ws1, p. auto.
Qed.

Lemma pt_rand_loop_ok size fuel : forall ws pi off rc acc,
  pt_core_ws None size ws -> pt_L ws <> [] ->
  pi <= pt_loc ws -> off < length (pt_part_at (pt_loc ws) (pt_L ws) (pt_eff ws) pi) -> rc < fuel ->
  exists ws', pt_rand_loop fuel ws pi off rc acc =
                RandOk ws' (acc ++ pt_rot (pt_abs ws) (pi * size + off) rc) /\
    pt_same_but_cache ws ws' /\ pt_core_ws None size ws'.
Proof.
  induction fuel as [|f IH]; intros ws pi off rc acc Hc HLne Hpi Hoff Hrc; [lia|].
  cbn [pt_rand_loop]. destruct (Nat.eqb_spec rc 0) as [->|Hrc0].
  - exists ws. unfold pt_rot. cbn. rewrite app_nil_r.
    split; [reflexivity|]. split; [apply pt_same_but_cache_refl|exact Hc].
  - destruct (pt_getpart_any size ws pi Hc Hpi) as (ws1 & p & Hg & Hit & Hs & Hc1).
    rewrite Hg, Hit.
    set (part := pt_part_at (pt_loc ws) (pt_L ws) (pt_eff ws) pi) in *.
    pose proof (io_full _ _ _ _ _ _ _ _ _ Hc) as Hfull.
    pose proof (io_size _ _ _ _ _ _ _ _ _ Hc) as Hsz.
    assert (Habs : pt_abs ws = pt_flat (pt_eff ws) (pt_loc ws) (pt_L ws)) by apply pt_abs_flat.
    destruct (Nat.ltb_spec (length part) (off + rc)) as [Hlt|Hge].
    + destruct (Nat.ltb_spec (length part) off) as [Hx|_]; [lia|].
      pose proof (pt_same_but_cache_abs _ _ Hs) as Habs1.
      destruct Hs as (Ht1 & Hn1 & Hl1 & Hlc1 & HE1).
      assert (HL1 : pt_L ws1 = pt_L ws) by (unfold pt_L; rewrite Hl1; reflexivity).
      set (pi' := if Nat.eqb pi (pt_loc ws1) then 0 else S pi).
      assert (Hpi' : pi' <= pt_loc ws1) by (subst pi'; destruct (Nat.eqb_spec pi (pt_loc ws1)); lia).
      assert (Hoff' : 0 < length (pt_part_at (pt_loc ws1) (pt_L ws1) (pt_eff ws1) pi')).
      { unfold pt_part_at. destruct (Nat.eqb_spec pi' (pt_loc ws1)) as [He|Hne'].
        - rewrite HL1. destruct (pt_L ws); [contradiction|cbn; lia].
        - rewrite HE1, Hfull by lia. lia. }
      destruct (IH ws1 pi' 0 (rc - (length part - off)) (acc ++ skipn off part) Hc1) as (ws' & Hr & Hs' & Hc');
        [rewrite HL1; exact HLne|exact Hpi'|exact Hoff'|lia|].
      exists ws'. split; [|split; [|exact Hc']].
      2:{ eapply pt_same_but_cache_trans; [|exact Hs']. unfold pt_same_but_cache. auto. }
      rewrite Hr. f_equal. rewrite <- app_assoc. f_equal.
      rewrite Habs1, Habs.
      rewrite (pt_rot_split _ (pi * size + off) (length part - off) rc) by lia.
      f_equal.
      * rewrite (rot_no_wrap size (pt_loc ws) (pt_L ws) (pt_eff ws) Hfull pi off (length part - off) Hpi)
          by (fold part; lia).
        fold part. symmetry. apply firstn_all2. rewrite skipn_length. lia.
      * rewrite Nat.add_0_r. subst pi'. rewrite Hn1.
        destruct (Nat.eqb_spec pi (pt_loc ws)) as [->|Hne].
        -- replace (pt_loc ws * size + off + (length part - off)) with (0 + length (pt_flat (pt_eff ws) (pt_loc ws) (pt_L ws))).
           ++ rewrite pt_rot_wrap. reflexivity.
           ++ rewrite (flat_len size (pt_loc ws) (pt_L ws) (pt_eff ws) Hfull).
              subst part. unfold pt_part_at in *. rewrite Nat.eqb_refl in *. lia.
        -- f_equal. subst part. unfold pt_part_at in *.
           destruct (Nat.eqb_spec pi (pt_loc ws)) as [Hx|_]; [contradiction|].
           rewrite Hfull in * by lia. lia.
    + exists ws1. split; [|split; [exact Hs|exact Hc1]]. f_equal. f_equal.
      rewrite Habs. symmetry. apply (rot_no_wrap size (pt_loc ws) (pt_L ws) (pt_eff ws) Hfull pi off rc Hpi).
      fold part. lia.
Qed.

(* ---------- properties of the sample ---------- *)
Lemma pt_rot_length F g k : length (pt_rot F g k) = k.
Proof. unfold pt_rot. rewrite map_length, seq_length. reflexivity. Qed.

Lemma pt_rot_incl F g k x : F <> [] -> In x (pt_rot F g k) -> In x F.
Proof.
  intros Hne Hin. unfold pt_rot in Hin. apply in_map_iff in Hin. destruct Hin as (j & <- & _).
  apply nth_In. apply Nat.mod_upper_bound. destruct F; [contradiction|cbn; lia].
Qed.

Lemma pt_rot_nodup F g k : NoDup (pt_ids F) -> k <= length F -> NoDup (pt_ids (pt_rot F g k)).
Proof.
  intros Hnd Hk. unfold pt_rot, pt_ids. rewrite map_map.
  destruct (length F) as [|t] eqn:Et.
  { assert (k = 0) by lia. subst k. constructor. }
  assert (Hinj : forall j1 j2, j1 < k -> j2 < k -> j1 <> j2 ->
             fst (nth ((g + j1) mod S t) F pt_dflt) <> fst (nth ((g + j2) mod S t) F pt_dflt)).
  { intros j1 j2 H1 H2 Hne Heq.
    assert (Hm1 : (g + j1) mod S t < S t) by (apply Nat.mod_upper_bound; lia).
    assert (Hm2 : (g + j2) mod S t < S t) by (apply Nat.mod_upper_bound; lia).
    assert (Hidx : (g + j1) mod S t = (g + j2) mod S t).
    { assert (Hlen : length (pt_ids F) = S t) by (unfold pt_ids; rewrite map_length; exact Et).
      apply (proj1 (NoDup_nth (pt_ids F) 0%Z) Hnd); [rewrite Hlen; exact Hm1|rewrite Hlen; exact Hm2|].
      unfold pt_ids. change 0%Z with (fst pt_dflt). rewrite !map_nth. exact Heq. }
    pose proof (Nat.div_mod (g + j1) (S t) ltac:(lia)) as D1.
    pose proof (Nat.div_mod (g + j2) (S t) ltac:(lia)) as D2.
    rewrite Hidx in D1.
    assert (Hq : (g + j1) / S t = (g + j2) / S t \/ (g + j1) / S t < (g + j2) / S t \/ (g + j2) / S t < (g + j1) / S t) by lia.
    destruct Hq as [Hq|[Hq|Hq]]; [rewrite Hq in D1; lia|nia|nia]. }
  clear Hnd. set (f := fun j => fst (nth ((g + j) mod S t) F pt_dflt)).
  assert (Hinj' : forall j1 j2, j1 < k -> j2 < k -> j1 <> j2 -> f j1 <> f j2) by exact Hinj.
  change (NoDup (map f (seq 0 k))). clear Hinj. rename Hinj' into Hinj. clearbody f.
  assert (Hgen : forall a m, a + m <= k -> NoDup (map f (seq a m))).
  { intros a m. revert a. induction m as [|m IH]; intros a Ham; cbn [seq map]; constructor.
    - intros Hin. apply in_map_iff in Hin. destruct Hin as (j & Hfj & Hj). apply in_seq in Hj.
      apply (Hinj j a); solve [lia | exact Hfj].
    - apply IH. lia. }
  apply Hgen. lia.
Qed.
