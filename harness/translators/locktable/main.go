// locktable: translator for C44 (data-race freedom of shared protocol structures).
//
// Reads, with full type information (go list -export + go/types; the working tree is VERIF_REPO
// or /repo):
//   - chaincore/round: every method of Round and of the embedded timeoutCounter
//   - chaincore/block: every method of Block and of the embedded UnverifiedBlockBody
//   - miner/protocol_block.go: every function that starts goroutines from function literals
//     (the batch validation of ValidateTransactions): the variables those literals share
//
// and emits coq/Gen/LockTable.v (+ the same table as coq/Gen/LockTable.json for the engine): one
// row per access = (type, field, entry method, read/write, atomic?, mutexes held with their mode,
// file:line).  An access made in an unexported helper is attributed to every entry method that
// reaches it, with the locks the CALLER holds at the call ("entry" = exported method, or an
// unexported method nobody in the package calls).  Locks are inferred from Lock/RLock ...
// Unlock/RUnlock pairs in straight-line code and `defer x.Unlock()`; at a join the lock set is the
// intersection of the branches that fall through.
//
// The exclusion list checks/C44_allow.json (justified allow entries and confirmed defects) is
// copied into the Coq file so that the theorem is stated over table + list.
//
// Fails closed (exit 1) on: goto, `go` inside an analysed method, lock methods used as values,
// TryLock, an exclusion entry that names nothing in the table.  Rewrites outputs only on change.
package main

import (
	"bytes"
	"crypto/sha1"
	"encoding/hex"
	"encoding/json"
	"flag"
	"fmt"
	"go/ast"
	"go/importer"
	"go/parser"
	"go/token"
	"go/types"
	"io"
	"os"
	"os/exec"
	"path/filepath"
	"sort"
	"strings"
)

func repo() string {
	if r := os.Getenv("VERIF_REPO"); r != "" {
		return r
	}
	return "/repo"
}

func die(f string, a ...interface{}) {
	fmt.Fprintf(os.Stderr, "locktable: "+f+"\n", a...)
	os.Exit(1)
}

var fset = token.NewFileSet()

func posOf(n ast.Node) string {
	p := fset.Position(n.Pos())
	return fmt.Sprintf("%s:%d", filepath.Base(p.Filename), p.Line)
}

// ---------- loading ----------

type listPkg struct {
	ImportPath string
	Export     string
	Dir        string
	GoFiles    []string
	CgoFiles   []string
}

func goList(pkgs ...string) map[string]*listPkg {
	args := []string{"list", "-export", "-deps", "-json=ImportPath,Export,Dir,GoFiles,CgoFiles"}
	if r := os.Getenv("VERIF_REPO"); r != "" && filepath.Clean(r) != "/repo" {
		h := sha1.Sum([]byte(r))
		mf := filepath.Join("/verif/build/altmod", hex.EncodeToString(h[:])[:12], "go.mod")
		if _, err := os.Stat(mf); err != nil {
			die("VERIF_REPO=%s but %s is missing (bin/check creates it)", r, mf)
		}
		args = append(args, "-modfile="+mf)
	}
	args = append(args, pkgs...)
	cmd := exec.Command("go", args...)
	cmd.Dir = "/verif/harness"
	cmd.Env = append(os.Environ(), "GOWORK=off", "GOFLAGS=-mod=mod", "GOPROXY=off", "GOSUMDB=off", "GOTOOLCHAIN=local")
	var stderr bytes.Buffer
	cmd.Stderr = &stderr
	out, err := cmd.Output()
	if err != nil {
		die("go list failed: %v\n%s", err, stderr.String())
	}
	res := map[string]*listPkg{}
	dec := json.NewDecoder(bytes.NewReader(out))
	for {
		var p listPkg
		if err := dec.Decode(&p); err == io.EOF {
			break
		} else if err != nil {
			die("go list output: %v", err)
		}
		pp := p
		res[p.ImportPath] = &pp
	}
	return res
}

type loaded struct {
	pkg   *types.Package
	info  *types.Info
	files []*ast.File
}

func load(all map[string]*listPkg, path string) *loaded {
	lp := all[path]
	if lp == nil {
		die("package %s not listed", path)
	}
	want := filepath.Join(repo(), "code/go/0chain.net")
	if !strings.HasPrefix(lp.Dir, want) {
		die("package %s resolved to %s, expected below %s", path, lp.Dir, want)
	}
	var files []*ast.File
	for _, f := range append(append([]string{}, lp.GoFiles...), lp.CgoFiles...) {
		af, err := parser.ParseFile(fset, filepath.Join(lp.Dir, f), nil, parser.ParseComments)
		if err != nil {
			die("parse %s: %v", f, err)
		}
		files = append(files, af)
	}
	imp := importer.ForCompiler(fset, "gc", func(p string) (io.ReadCloser, error) {
		e := all[p]
		if e == nil || e.Export == "" {
			return nil, fmt.Errorf("no export data for %s", p)
		}
		return os.Open(e.Export)
	})
	info := &types.Info{Types: map[ast.Expr]types.TypeAndValue{}, Defs: map[*ast.Ident]types.Object{},
		Uses: map[*ast.Ident]types.Object{}, Selections: map[*ast.SelectorExpr]*types.Selection{}}
	conf := types.Config{Importer: imp, FakeImportC: true, Error: func(err error) {}}
	pkg, _ := conf.Check(path, fset, files, info)
	if pkg == nil {
		die("type check of %s failed", path)
	}
	return &loaded{pkg, info, files}
}

// ---------- table ----------

type Lock struct {
	Name string `json:"name"`
	Excl bool   `json:"excl"`
}

type Access struct {
	Type   string `json:"type"`   // declaring struct of the field, or function name for shared locals
	Field  string `json:"field"`  // field / variable
	Method string `json:"method"` // entry method, or goroutine label
	Write  bool   `json:"write"`
	Atomic bool   `json:"atomic"`
	Locks  []Lock `json:"locks"`
	Multi  bool   `json:"multi"` // the entry can run concurrently with itself
	Pos    string `json:"pos"`
	Via    string `json:"via,omitempty"`
}

func (a Access) key() string {
	ls := make([]string, len(a.Locks))
	for i, l := range a.Locks {
		ls[i] = fmt.Sprintf("%s/%v", l.Name, l.Excl)
	}
	return fmt.Sprintf("%s|%s|%s|%v|%v|%s|%s", a.Type, a.Field, a.Method, a.Write, a.Atomic, strings.Join(ls, ","), a.Pos)
}

var table []Access
var seenAcc = map[string]bool{}

// Return fact: an entry method hands out a slice- or map-typed field of its receiver by reference
// (bare field, slice expression of it, or a local that was assigned one of those).
type RetRef struct {
	Type   string `json:"type"`
	Field  string `json:"field"`
	Method string `json:"method"`
	Pos    string `json:"pos"`
}

var retRefs []RetRef

func emit(a Access) {
	sort.Slice(a.Locks, func(i, j int) bool { return a.Locks[i].Name < a.Locks[j].Name })
	if k := a.key(); !seenAcc[k] {
		seenAcc[k] = true
		table = append(table, a)
	}
}

// ---------- struct-method analysis ----------

type analyser struct {
	l       *loaded
	structs map[*types.TypeName]bool    // analysed struct types of this package
	methods map[*types.Func]*ast.FuncDecl // every method/function with a body in the package
	called  map[*types.Func]bool        // has a caller inside the package
}

// shadowed reports whether an analysed struct embeds e by value and defines its own method `name`.
func (a *analyser) shadowed(e *types.Named, name string) bool {
	for s := range a.structs {
		if s == e.Obj() {
			continue
		}
		st, ok := s.Type().Underlying().(*types.Struct)
		if !ok {
			continue
		}
		embeds := false
		for i := 0; i < st.NumFields(); i++ {
			if f := st.Field(i); f.Embedded() && namedOf(f.Type()) == e {
				if _, isPtr := f.Type().(*types.Pointer); !isPtr {
					embeds = true
				}
			}
		}
		if !embeds {
			continue
		}
		obj, _, _ := types.LookupFieldOrMethod(types.NewPointer(s.Type()), true, a.l.pkg, name)
		if fn, ok := obj.(*types.Func); ok {
			if rn := namedOf(fn.Type().(*types.Signature).Recv().Type()); rn != nil && rn.Obj() == s {
				return true
			}
		}
	}
	return false
}

func namedOf(t types.Type) *types.Named {
	for {
		switch x := t.(type) {
		case *types.Pointer:
			t = x.Elem()
		case *types.Named:
			return x
		default:
			return nil
		}
	}
}

func isMutex(t types.Type) bool {
	n := namedOf(t)
	return n != nil && n.Obj().Pkg() != nil && n.Obj().Pkg().Path() == "sync" && (n.Obj().Name() == "Mutex" || n.Obj().Name() == "RWMutex")
}

func isAtomicType(t types.Type) bool {
	n := namedOf(t)
	return n != nil && n.Obj().Pkg() != nil && n.Obj().Pkg().Path() == "sync/atomic"
}

type frame struct {
	a      *analyser
	recv   types.Object       // receiver variable of the method being walked (nil in closure mode)
	shared map[types.Object]bool // closure mode: shared local variables
	entry  string
	multi  bool
	tname  string // closure mode: type label
	held   map[string]bool // lock name -> exclusive
	via    []string
	depth  int
	defers *[]string // locks released by deferred Unlock/RUnlock when the current function returns
	alias  map[types.Object]string // entry frame only: local -> "Type.field" it aliases (slice/map fields)
}

// refField: e denotes (a slice expression of) a slice/map field of the receiver, or a local aliasing one.
func (f *frame) refField(e ast.Expr) string {
	for {
		switch x := e.(type) {
		case *ast.ParenExpr:
			e = x.X
			continue
		case *ast.SliceExpr:
			e = x.X
			continue
		}
		break
	}
	if owner, fld, ok := f.recvField(e); ok {
		switch fld.Type().Underlying().(type) {
		case *types.Slice, *types.Map:
			return owner + "." + fld.Name()
		}
		return ""
	}
	if id, ok := e.(*ast.Ident); ok && f.alias != nil {
		return f.alias[f.a.l.info.Uses[id]]
	}
	return ""
}

// finish applies the deferred unlocks of a function body that was walked inline.
func (f *frame) finish() {
	if f.defers != nil {
		for _, n := range *f.defers {
			delete(f.held, n)
		}
	}
}

// fieldPath resolves a selector rooted at the receiver through by-value embedded structs.
// Returns (owner struct name, field var, ok).
func (f *frame) recvField(e ast.Expr) (owner string, fld *types.Var, ok bool) {
	sel, isSel := e.(*ast.SelectorExpr)
	if !isSel {
		return
	}
	s := f.a.l.info.Selections[sel]
	if s == nil || s.Kind() != types.FieldVal {
		return
	}
	if !f.rootedAtRecv(sel.X) {
		return
	}
	// walk the index path to find the struct that declares the field
	t := s.Recv()
	var v *types.Var
	for _, ix := range s.Index() {
		n := namedOf(t)
		var st *types.Struct
		if n != nil {
			st, _ = n.Underlying().(*types.Struct)
			owner = n.Obj().Name()
		} else if p, okp := t.(*types.Pointer); okp {
			st, _ = p.Elem().Underlying().(*types.Struct)
		} else {
			st, _ = t.Underlying().(*types.Struct)
		}
		if st == nil {
			return "", nil, false
		}
		v = st.Field(ix)
		t = v.Type()
	}
	// an implicit hop through a POINTER embedded field reaches another object
	t2 := s.Recv()
	idx := s.Index()
	for i, ix := range idx {
		n := namedOf(t2)
		var st *types.Struct
		if n != nil {
			st, _ = n.Underlying().(*types.Struct)
		}
		if st == nil {
			break
		}
		fv := st.Field(ix)
		if i < len(idx)-1 {
			if _, isPtr := fv.Type().(*types.Pointer); isPtr {
				// the access itself is to the embedded pointer field (a read of it)
				return namedOf(t2).Obj().Name(), fv, true
			}
		}
		t2 = fv.Type()
	}
	return owner, v, true
}

func (f *frame) rootedAtRecv(e ast.Expr) bool {
	switch x := e.(type) {
	case *ast.ParenExpr:
		return f.rootedAtRecv(x.X)
	case *ast.StarExpr:
		return f.rootedAtRecv(x.X)
	case *ast.UnaryExpr:
		if x.Op == token.AND {
			return f.rootedAtRecv(x.X)
		}
	case *ast.Ident:
		return f.recv != nil && f.a.l.info.Uses[x] == f.recv
	case *ast.SelectorExpr:
		s := f.a.l.info.Selections[x]
		if s == nil || s.Kind() != types.FieldVal {
			return false
		}
		// only by-value struct fields stay inside the same object
		if _, isPtr := s.Type().(*types.Pointer); isPtr {
			return false
		}
		if _, isStruct := s.Type().Underlying().(*types.Struct); !isStruct {
			return false
		}
		return f.rootedAtRecv(x.X)
	}
	return false
}

func (f *frame) locks() []Lock {
	var ls []Lock
	for n, ex := range f.held {
		ls = append(ls, Lock{n, ex})
	}
	return ls
}

func (f *frame) record(owner, field string, write, atomic bool, n ast.Node) {
	emit(Access{Type: owner, Field: field, Method: f.entry, Write: write, Atomic: atomic, Locks: f.locks(),
		Multi: f.multi, Pos: posOf(n), Via: strings.Join(f.via, ">")})
}

// allFields records a read of every field of a struct value (copy of the whole struct).
func (f *frame) allFields(t types.Type, n ast.Node) {
	nn := namedOf(t)
	if nn == nil {
		return
	}
	st, ok := nn.Underlying().(*types.Struct)
	if !ok {
		return
	}
	for i := 0; i < st.NumFields(); i++ {
		fv := st.Field(i)
		if isMutex(fv.Type()) {
			continue
		}
		if _, isStruct := fv.Type().Underlying().(*types.Struct); isStruct && fv.Embedded() {
			if _, isPtr := fv.Type().(*types.Pointer); !isPtr {
				f.allFields(fv.Type(), n)
				continue
			}
		}
		f.record(nn.Obj().Name(), fv.Name(), false, isAtomicType(fv.Type()), n)
	}
}

// lockOp recognises x.mu.Lock() etc. on a receiver mutex field or a shared local mutex.
func (f *frame) lockOp(call *ast.CallExpr) (name string, op string, ok bool) {
	sel, isSel := call.Fun.(*ast.SelectorExpr)
	if !isSel {
		return
	}
	switch sel.Sel.Name {
	case "Lock", "RLock", "Unlock", "RUnlock", "TryLock", "TryRLock":
	default:
		return
	}
	tv, has := f.a.l.info.Types[sel.X]
	if !has || !isMutex(tv.Type) {
		return
	}
	if strings.HasPrefix(sel.Sel.Name, "Try") {
		die("%s: TryLock is not modelled", posOf(call))
	}
	if owner, fld, okf := f.recvField(sel.X); okf {
		return owner + "." + fld.Name(), sel.Sel.Name, true
	}
	if id, isId := sel.X.(*ast.Ident); isId {
		if obj := f.a.l.info.Uses[id]; obj != nil && f.shared != nil {
			if _, isVar := obj.(*types.Var); isVar && obj.Parent() != f.a.l.pkg.Scope() {
				return "local." + id.Name, sel.Sel.Name, true
			}
		}
	}
	return "", "", false // a mutex of another object: ignored
}

func (f *frame) applyLock(name, op string) {
	switch op {
	case "Lock":
		f.held[name] = true
	case "RLock":
		if !f.held[name] {
			f.held[name] = false
		}
	case "Unlock", "RUnlock":
		delete(f.held, name)
	}
}

func copyHeld(m map[string]bool) map[string]bool {
	c := map[string]bool{}
	for k, v := range m {
		c[k] = v
	}
	return c
}

func meet(ms []map[string]bool) map[string]bool {
	if len(ms) == 0 {
		return map[string]bool{}
	}
	out := copyHeld(ms[0])
	for _, m := range ms[1:] {
		for k, ex := range out {
			ex2, ok := m[k]
			if !ok {
				delete(out, k)
			} else if ex && !ex2 {
				out[k] = false
			}
		}
	}
	return out
}

// ----- statements -----

func (f *frame) stmts(list []ast.Stmt) (terminated bool) {
	for _, s := range list {
		if f.stmt(s) {
			return true
		}
	}
	return false
}

func (f *frame) branches(pre map[string]bool, bodies []func() bool, exhaustive bool) bool {
	var ends []map[string]bool
	allTerm := true
	for _, b := range bodies {
		f.held = copyHeld(pre)
		if !b() {
			ends = append(ends, f.held)
			allTerm = false
		}
	}
	if !exhaustive {
		ends = append(ends, pre)
		allTerm = false
	}
	if allTerm {
		f.held = copyHeld(pre)
		return true
	}
	f.held = meet(ends)
	return false
}

func (f *frame) stmt(s ast.Stmt) (terminated bool) {
	switch x := s.(type) {
	case nil:
	case *ast.ExprStmt:
		if call, ok := x.X.(*ast.CallExpr); ok {
			if name, op, ok := f.lockOp(call); ok {
				f.applyLock(name, op)
				return false
			}
			if id, ok := call.Fun.(*ast.Ident); ok && id.Name == "panic" {
				f.exprs(call.Args)
				return true
			}
		}
		f.expr(x.X)
	case *ast.DeferStmt:
		if _, op, ok := f.lockOp(x.Call); ok {
			if op == "Lock" || op == "RLock" {
				die("%s: deferred lock acquisition is not modelled", posOf(x))
			}
			if name, _, ok2 := f.lockOp(x.Call); ok2 && f.defers != nil {
				*f.defers = append(*f.defers, name)
			}
			return false // held until the function returns
		}
		f.expr(x.Call)
	case *ast.GoStmt:
		if f.recv != nil {
			die("%s: go statement inside an analysed method is not modelled", posOf(x))
		}
		// closure mode: goroutines started by a goroutine are not followed
	case *ast.AssignStmt:
		for _, r := range x.Rhs {
			f.expr(r)
		}
		for _, l := range x.Lhs {
			f.lhs(l, x.Tok != token.ASSIGN && x.Tok != token.DEFINE)
		}
		if f.alias != nil && f.depth == 0 && len(x.Lhs) == len(x.Rhs) {
			for i, l := range x.Lhs {
				if id, ok := l.(*ast.Ident); ok {
					obj := f.a.l.info.Defs[id]
					if obj == nil {
						obj = f.a.l.info.Uses[id]
					}
					if obj != nil {
						if rf := f.refField(x.Rhs[i]); rf != "" {
							f.alias[obj] = rf
						} else {
							delete(f.alias, obj)
						}
					}
				}
			}
		}
	case *ast.IncDecStmt:
		f.lhs(x.X, true)
	case *ast.ReturnStmt:
		f.exprs(x.Results)
		if f.alias != nil && f.depth == 0 {
			for _, r := range x.Results {
				if rf := f.refField(r); rf != "" {
					t, fl, _ := strings.Cut(rf, ".")
					retRefs = append(retRefs, RetRef{t, fl, f.entry, posOf(r)})
				}
			}
		}
		return true
	case *ast.BlockStmt:
		return f.stmts(x.List)
	case *ast.IfStmt:
		f.stmt(x.Init)
		f.expr(x.Cond)
		pre := copyHeld(f.held)
		bodies := []func() bool{func() bool { return f.stmts(x.Body.List) }}
		if x.Else != nil {
			bodies = append(bodies, func() bool { return f.stmt(x.Else) })
		}
		return f.branches(pre, bodies, x.Else != nil)
	case *ast.ForStmt:
		f.stmt(x.Init)
		f.expr(x.Cond)
		pre := copyHeld(f.held)
		f.branches(pre, []func() bool{func() bool { t := f.stmts(x.Body.List); f.stmt(x.Post); return t }}, false)
	case *ast.RangeStmt:
		f.expr(x.X)
		pre := copyHeld(f.held)
		f.branches(pre, []func() bool{func() bool { return f.stmts(x.Body.List) }}, false)
	case *ast.SwitchStmt:
		f.stmt(x.Init)
		f.expr(x.Tag)
		return f.clauses(x.Body)
	case *ast.TypeSwitchStmt:
		f.stmt(x.Init)
		f.stmt(x.Assign)
		return f.clauses(x.Body)
	case *ast.SelectStmt:
		return f.clauses(x.Body)
	case *ast.LabeledStmt:
		return f.stmt(x.Stmt)
	case *ast.BranchStmt:
		if x.Tok == token.GOTO {
			die("%s: goto is not modelled", posOf(x))
		}
		return x.Tok != token.FALLTHROUGH
	case *ast.DeclStmt:
		if gd, ok := x.Decl.(*ast.GenDecl); ok {
			for _, sp := range gd.Specs {
				if vs, ok := sp.(*ast.ValueSpec); ok {
					f.exprs(vs.Values)
				}
			}
		}
	case *ast.SendStmt:
		f.expr(x.Chan)
		f.expr(x.Value)
	case *ast.EmptyStmt:
	default:
		die("%s: statement %T is not modelled", posOf(s), s)
	}
	return false
}

func (f *frame) clauses(body *ast.BlockStmt) bool {
	pre := copyHeld(f.held)
	var bodies []func() bool
	hasDefault := false
	for _, c := range body.List {
		switch cc := c.(type) {
		case *ast.CaseClause:
			if cc.List == nil {
				hasDefault = true
			}
			f.exprs(cc.List)
			cc2 := cc
			bodies = append(bodies, func() bool { return f.stmts(cc2.Body) })
		case *ast.CommClause:
			if cc.Comm == nil {
				hasDefault = true
			}
			cc2 := cc
			bodies = append(bodies, func() bool { f.stmt(cc2.Comm); return f.stmts(cc2.Body) })
		}
	}
	return f.branches(pre, bodies, hasDefault)
}

// ----- expressions -----

func (f *frame) exprs(es []ast.Expr) {
	for _, e := range es {
		f.expr(e)
	}
}

func stripIndex(e ast.Expr) (ast.Expr, bool) {
	stripped := false
	for {
		switch x := e.(type) {
		case *ast.ParenExpr:
			e = x.X
		case *ast.IndexExpr:
			e, stripped = x.X, true
		case *ast.SliceExpr:
			e, stripped = x.X, true
		default:
			return e, stripped
		}
	}
}

// lhs handles an assignment target.
func (f *frame) lhs(e ast.Expr, alsoRead bool) {
	// index expressions on the way are evaluated (reads)
	ast.Inspect(e, func(n ast.Node) bool {
		if ix, ok := n.(*ast.IndexExpr); ok {
			f.expr(ix.Index)
		}
		return true
	})
	base, _ := stripIndex(e)
	if f.access(base, true, false) {
		if alsoRead {
			f.access(base, false, false)
		}
		return
	}
	// a field of another object, a local, a dereference ...: evaluate the base for reads
	switch b := base.(type) {
	case *ast.SelectorExpr:
		f.expr(b.X)
	case *ast.StarExpr:
		f.expr(b.X)
	}
}

// access records e if it denotes a receiver field / shared local; returns whether it did.
func (f *frame) access(e ast.Expr, write, atomic bool) bool {
	if p, ok := e.(*ast.ParenExpr); ok {
		return f.access(p.X, write, atomic)
	}
	if owner, fld, ok := f.recvField(e); ok {
		if isMutex(fld.Type()) {
			return true
		}
		if _, isStruct := fld.Type().Underlying().(*types.Struct); isStruct && !write && !isAtomicType(fld.Type()) {
			if _, isPtr := fld.Type().(*types.Pointer); !isPtr {
				f.allFields(fld.Type(), e) // whole embedded struct read by value
				return true
			}
		}
		f.record(owner, fld.Name(), write, atomic || (isAtomicType(fld.Type()) && false), e)
		return true
	}
	if id, ok := e.(*ast.Ident); ok && f.shared != nil {
		if obj := f.a.l.info.Uses[id]; obj != nil && f.shared[obj] {
			f.record(f.tname, id.Name, write, atomic, e)
			return true
		}
	}
	return false
}

func (f *frame) expr(e ast.Expr) {
	switch x := e.(type) {
	case nil:
	case *ast.Ident:
		f.access(x, false, false)
	case *ast.BasicLit:
	case *ast.ParenExpr:
		f.expr(x.X)
	case *ast.SelectorExpr:
		if f.access(x, false, false) {
			return
		}
		f.expr(x.X)
	case *ast.StarExpr:
		if id, ok := x.X.(*ast.Ident); ok && f.recv != nil && f.a.l.info.Uses[id] == f.recv {
			f.allFields(f.recv.Type(), x) // *recv copied
			return
		}
		f.expr(x.X)
	case *ast.UnaryExpr:
		if x.Op == token.AND {
			base, _ := stripIndex(x.X)
			if _, _, ok := f.recvField(base); ok {
				// address of a field escapes: treat as a write (unknown use)
				f.access(base, true, false)
				return
			}
			if id, ok := base.(*ast.Ident); ok && f.shared != nil && f.shared[f.a.l.info.Uses[id]] {
				f.access(base, true, false)
				return
			}
		}
		f.expr(x.X)
	case *ast.BinaryExpr:
		f.expr(x.X)
		f.expr(x.Y)
	case *ast.IndexExpr:
		f.expr(x.X)
		f.expr(x.Index)
	case *ast.SliceExpr:
		f.expr(x.X)
		f.expr(x.Low)
		f.expr(x.High)
		f.expr(x.Max)
	case *ast.TypeAssertExpr:
		f.expr(x.X)
	case *ast.KeyValueExpr:
		f.expr(x.Value)
	case *ast.CompositeLit:
		f.exprs(x.Elts)
	case *ast.FuncLit:
		// a literal that is called synchronously (sort.Slice, defer func(){}(), Run(func)): same thread
		sub := *f
		sub.held = copyHeld(f.held)
		sub.defers = &[]string{}
		sub.alias = nil
		sub.stmts(x.Body.List)
	case *ast.CallExpr:
		f.call(x)
	case *ast.ArrayType, *ast.MapType, *ast.ChanType, *ast.FuncType, *ast.InterfaceType, *ast.StructType, *ast.Ellipsis:
	default:
		die("%s: expression %T is not modelled", posOf(e), e)
	}
}

func unwrapConv(info *types.Info, e ast.Expr) ast.Expr {
	for {
		switch x := e.(type) {
		case *ast.ParenExpr:
			e = x.X
		case *ast.CallExpr:
			if tv, ok := info.Types[x.Fun]; ok && tv.IsType() && len(x.Args) == 1 {
				e = x.Args[0]
				continue
			}
			return e
		default:
			return e
		}
	}
}

func (f *frame) call(c *ast.CallExpr) {
	info := f.a.l.info
	// conversions
	if tv, ok := info.Types[c.Fun]; ok && tv.IsType() {
		f.exprs(c.Args)
		return
	}
	if name, op, ok := f.lockOp(c); ok {
		// lock operation in expression position (e.g. inside a closure body walked as an expression)
		f.applyLock(name, op)
		return
	}
	if sel, ok := c.Fun.(*ast.SelectorExpr); ok {
		// sync/atomic functions on &field
		if id, ok := sel.X.(*ast.Ident); ok {
			if pn, ok := info.Uses[id].(*types.PkgName); ok && pn.Imported().Path() == "sync/atomic" && len(c.Args) > 0 {
				arg := unwrapConv(info, c.Args[0])
				if u, ok := arg.(*ast.UnaryExpr); ok && u.Op == token.AND {
					write := !strings.HasPrefix(sel.Sel.Name, "Load")
					if f.access(u.X, write, true) {
						if strings.HasPrefix(sel.Sel.Name, "Add") || strings.HasPrefix(sel.Sel.Name, "Swap") || strings.HasPrefix(sel.Sel.Name, "CompareAndSwap") {
							f.access(u.X, false, true)
						}
						f.exprs(c.Args[1:])
						return
					}
				}
			}
		}
		// methods of an atomic-typed field: x.f.Store / Load
		if s := info.Selections[sel]; s != nil && s.Kind() == types.MethodVal {
			if owner, fld, ok := f.recvField(sel.X); ok && isAtomicType(fld.Type()) {
				write := !strings.HasPrefix(sel.Sel.Name, "Load")
				f.record(owner, fld.Name(), write, true, sel)
				f.exprs(c.Args)
				return
			}
			// methods of a shared local of an atomic type (atomic.Bool, atomic.Int64 ...)
			if id, ok := sel.X.(*ast.Ident); ok && f.shared != nil {
				if obj := info.Uses[id]; obj != nil && f.shared[obj] && isAtomicType(obj.Type()) {
					write := !strings.HasPrefix(sel.Sel.Name, "Load")
					f.record(f.tname, id.Name, write, true, sel)
					if strings.HasPrefix(sel.Sel.Name, "Add") || strings.HasPrefix(sel.Sel.Name, "Swap") || strings.HasPrefix(sel.Sel.Name, "CompareAndSwap") {
						f.record(f.tname, id.Name, false, true, sel)
					}
					f.exprs(c.Args)
					return
				}
			}
			// a method of the same object: inline
			if callee, ok := s.Obj().(*types.Func); ok && f.recv != nil && (f.rootedAtRecv(sel.X)) {
				if decl := f.a.methods[callee]; decl != nil && decl.Recv != nil && len(decl.Recv.List) == 1 {
					rn := namedOf(callee.Type().(*types.Signature).Recv().Type())
					if rn != nil && f.a.structs[rn.Obj()] {
						f.exprs(c.Args)
						f.inline(callee, decl, c)
						return
					}
				}
			}
		}
	}
	// a shared local closure called from a goroutine: inline its body
	if id, ok := c.Fun.(*ast.Ident); ok && f.shared != nil {
		if lit := localLits[info.Uses[id]]; lit != nil && f.depth < 6 {
			f.exprs(c.Args)
			sub := *f
			sub.depth++
			sub.via = append(append([]string{}, f.via...), id.Name)
			sub.defers = &[]string{}
			sub.stmts(lit.Body.List)
			sub.finish()
			f.held = sub.held
			return
		}
		switch id.Name {
		case "delete", "copy":
			if len(c.Args) > 0 {
				base, _ := stripIndex(c.Args[0])
				if f.access(base, true, false) {
					f.exprs(c.Args[1:])
					return
				}
			}
		}
	} else if id, ok := c.Fun.(*ast.Ident); ok && (id.Name == "delete" || id.Name == "copy") && len(c.Args) > 0 {
		base, _ := stripIndex(c.Args[0])
		if f.access(base, true, false) {
			f.exprs(c.Args[1:])
			return
		}
	}
	f.expr(c.Fun)
	f.exprs(c.Args)
}

func (f *frame) inline(callee *types.Func, decl *ast.FuncDecl, at ast.Node) {
	if f.depth >= 6 {
		return
	}
	for _, v := range f.via {
		if v == callee.Name() {
			return // recursion
		}
	}
	sub := *f
	sub.depth++
	sub.via = append(append([]string{}, f.via...), callee.Name())
	sub.recv = nil
	if names := decl.Recv.List[0].Names; len(names) == 1 {
		sub.recv = f.a.l.info.Defs[names[0]]
	}
	if sub.recv == nil || decl.Body == nil {
		return
	}
	sub.held = f.held // shared: lock helpers (DoReadLock) change the caller's lock set
	sub.defers = &[]string{}
	sub.stmts(decl.Body.List)
	sub.finish()
	f.held = sub.held
}

var localLits = map[types.Object]*ast.FuncLit{}

func analyseStructs(l *loaded, names ...string) {
	a := &analyser{l: l, structs: map[*types.TypeName]bool{}, methods: map[*types.Func]*ast.FuncDecl{}, called: map[*types.Func]bool{}}
	for _, n := range names {
		obj, _ := l.pkg.Scope().Lookup(n).(*types.TypeName)
		if obj == nil {
			die("type %s.%s not found", l.pkg.Path(), n)
		}
		a.structs[obj] = true
	}
	for _, file := range l.files {
		for _, d := range file.Decls {
			if fd, ok := d.(*ast.FuncDecl); ok && fd.Body != nil {
				if fn, ok := l.info.Defs[fd.Name].(*types.Func); ok {
					a.methods[fn] = fd
				}
			}
		}
	}
	// callers inside the package
	for _, file := range l.files {
		ast.Inspect(file, func(n ast.Node) bool {
			if c, ok := n.(*ast.CallExpr); ok {
				if sel, ok := c.Fun.(*ast.SelectorExpr); ok {
					if s := l.info.Selections[sel]; s != nil && s.Kind() == types.MethodVal {
						if fn, ok := s.Obj().(*types.Func); ok {
							a.called[fn] = true
						}
					}
				}
			}
			if sel, ok := n.(*ast.SelectorExpr); ok {
				// lock methods used as values
				if s := l.info.Selections[sel]; s != nil && s.Kind() == types.MethodVal && isMutex(s.Recv()) {
					_ = s
				}
			}
			return true
		})
	}
	var fns []*types.Func
	for fn := range a.methods {
		fns = append(fns, fn)
	}
	sort.Slice(fns, func(i, j int) bool { return fns[i].Pos() < fns[j].Pos() })
	nEntries := 0
	for _, fn := range fns {
		decl := a.methods[fn]
		sig := fn.Type().(*types.Signature)
		if sig.Recv() == nil {
			continue
		}
		rn := namedOf(sig.Recv().Type())
		if rn == nil || !a.structs[rn.Obj()] {
			continue
		}
		if !fn.Exported() && a.called[fn] {
			continue // reached through its callers, with their locks
		}
		if a.called[fn] && a.shadowed(rn, fn.Name()) {
			// an exported method of an embedded struct that the embedding analysed struct redefines
			// (UnverifiedBlockBody.Clone under Block.Clone): x.M() never reaches it, only the explicit
			// x.Embedded.M() inside this package does; treated like a helper, with its callers' locks
			continue
		}
		if len(decl.Recv.List) != 1 || len(decl.Recv.List[0].Names) != 1 {
			continue // receiver unnamed: no field access possible
		}
		f := &frame{a: a, recv: l.info.Defs[decl.Recv.List[0].Names[0]], entry: fn.Name(), multi: true, held: map[string]bool{},
			alias: map[types.Object]string{}}
		f.stmts(decl.Body.List)
		nEntries++
	}
	fmt.Fprintf(os.Stderr, "locktable: %s: %d entry methods\n", l.pkg.Path(), nEntries)
}

// ---------- goroutine closures sharing local variables ----------

func analyseClosures(l *loaded, fileName string) {
	a := &analyser{l: l, structs: map[*types.TypeName]bool{}, methods: map[*types.Func]*ast.FuncDecl{}}
	for _, file := range l.files {
		if filepath.Base(fset.Position(file.Pos()).Filename) != fileName {
			continue
		}
		for _, d := range file.Decls {
			fd, ok := d.(*ast.FuncDecl)
			if !ok || fd.Body == nil {
				continue
			}
			analyseFuncClosures(a, fd)
		}
	}
}

type goSite struct {
	stmt  *ast.GoStmt
	lit   *ast.FuncLit
	name  string
	multi bool
	encl  ast.Node // nearest enclosing function (FuncLit or FuncDecl)
}

func analyseFuncClosures(a *analyser, fd *ast.FuncDecl) {
	info := a.l.info
	// local closures bound to variables
	ast.Inspect(fd, func(n ast.Node) bool {
		if as, ok := n.(*ast.AssignStmt); ok && len(as.Lhs) == len(as.Rhs) {
			for i, r := range as.Rhs {
				if lit, ok := r.(*ast.FuncLit); ok {
					if id, ok := as.Lhs[i].(*ast.Ident); ok {
						if obj := info.Defs[id]; obj != nil {
							localLits[obj] = lit
						} else if obj := info.Uses[id]; obj != nil {
							localLits[obj] = lit
						}
					}
				}
			}
		}
		return true
	})
	// go statements with their context
	var sites []goSite
	var walk func(n ast.Node, encl ast.Node, inLoop bool)
	walk = func(n ast.Node, encl ast.Node, inLoop bool) {
		ast.Inspect(n, func(m ast.Node) bool {
			if m == n || m == nil {
				return true
			}
			switch x := m.(type) {
			case *ast.FuncLit:
				walk(x.Body, x, false)
				return false
			case *ast.ForStmt:
				walk(x.Body, encl, true)
				return false
			case *ast.RangeStmt:
				walk(x.Body, encl, true)
				return false
			case *ast.GoStmt:
				var lit *ast.FuncLit
				name := fmt.Sprintf("go@%d", fset.Position(x.Pos()).Line)
				switch fn := x.Call.Fun.(type) {
				case *ast.FuncLit:
					lit = fn
				case *ast.Ident:
					lit = localLits[info.Uses[fn]]
					name = fn.Name
				}
				if lit != nil {
					sites = append(sites, goSite{x, lit, name, inLoop, encl})
				}
			}
			return true
		})
	}
	walk(fd.Body, fd, false)
	if len(sites) == 0 {
		return
	}
	// group by enclosing function
	byEncl := map[ast.Node][]goSite{}
	var order []ast.Node
	for _, s := range sites {
		if _, ok := byEncl[s.encl]; !ok {
			order = append(order, s.encl)
		}
		byEncl[s.encl] = append(byEncl[s.encl], s)
	}
	for _, encl := range order {
		ss := byEncl[encl]
		firstGo := ss[0].stmt.Pos()
		inGoLit := func(p token.Pos) bool {
			for _, s := range ss {
				if p >= s.lit.Pos() && p <= s.lit.End() {
					return true
				}
			}
			return false
		}
		// candidate shared variables: declared inside fd, used inside a goroutine literal (or a local
		// closure it calls) and declared outside that literal
		shared := map[types.Object]bool{}
		var collect func(body ast.Node, lit *ast.FuncLit, depth int)
		collect = func(body ast.Node, lit *ast.FuncLit, depth int) {
			ast.Inspect(body, func(n ast.Node) bool {
				id, ok := n.(*ast.Ident)
				if !ok {
					return true
				}
				obj := info.Uses[id]
				v, isVar := obj.(*types.Var)
				if !isVar || v.IsField() || obj.Pkg() != a.l.pkg || obj.Parent() == a.l.pkg.Scope() {
					return true
				}
				if obj.Pos() >= lit.Pos() && obj.Pos() <= lit.End() {
					return true // declared inside the goroutine
				}
				if obj.Pos() < fd.Pos() || obj.Pos() > fd.End() {
					return true
				}
				if l2 := localLits[obj]; l2 != nil && depth < 4 {
					collect(l2.Body, l2, depth+1)
					return true
				}
				switch v.Type().Underlying().(type) {
				case *types.Chan:
					return true // channel operations synchronise
				}
				shared[obj] = true
				return true
			})
		}
		for _, s := range ss {
			collect(s.lit.Body, s.lit, 0)
		}
		tname := fd.Name.Name
		// goroutine threads
		for _, s := range ss {
			f := &frame{a: a, shared: shared, entry: s.name, multi: s.multi, tname: tname, held: map[string]bool{}}
			f.stmts(s.lit.Body.List)
		}
		// parent thread: code of the enclosing function after the first go statement, outside the
		// goroutine literals and outside the definitions of local closures
		f := &frame{a: a, shared: shared, entry: "main", multi: false, tname: tname, held: map[string]bool{}}
		var body *ast.BlockStmt
		switch e := encl.(type) {
		case *ast.FuncDecl:
			body = e.Body
		case *ast.FuncLit:
			body = e.Body
		}
		var inLocalLit func(p token.Pos) bool
		inLocalLit = func(p token.Pos) bool {
			for _, lit := range localLits {
				if lit.Pos() >= body.Pos() && lit.End() <= body.End() && p >= lit.Pos() && p <= lit.End() {
					return true
				}
			}
			return false
		}
		// position-filtered scan: assignments first (writes), then plain uses (reads)
		written := map[token.Pos]bool{}
		ast.Inspect(body, func(n ast.Node) bool {
			if n == nil {
				return true
			}
			mark := func(e ast.Expr) {
				base, _ := stripIndex(e)
				if id, ok := base.(*ast.Ident); ok && shared[info.Uses[id]] && id.Pos() > firstGo && !inGoLit(id.Pos()) && !inLocalLit(id.Pos()) {
					written[id.Pos()] = true
					f.record(tname, id.Name, true, false, id)
				}
			}
			switch x := n.(type) {
			case *ast.AssignStmt:
				for _, lh := range x.Lhs {
					mark(lh)
				}
			case *ast.IncDecStmt:
				mark(x.X)
			case *ast.UnaryExpr:
				if x.Op == token.AND {
					mark(x.X)
				}
			}
			return true
		})
		atomicUse := map[token.Pos]bool{}
		ast.Inspect(body, func(n ast.Node) bool {
			if c, ok := n.(*ast.CallExpr); ok {
				if sel, ok := c.Fun.(*ast.SelectorExpr); ok {
					if id, ok := sel.X.(*ast.Ident); ok && shared[info.Uses[id]] && isAtomicType(info.Uses[id].Type()) &&
						id.Pos() > firstGo && !inGoLit(id.Pos()) && !inLocalLit(id.Pos()) {
						atomicUse[id.Pos()] = true
						f.record(tname, id.Name, !strings.HasPrefix(sel.Sel.Name, "Load"), true, id)
					}
				}
			}
			return true
		})
		ast.Inspect(body, func(n ast.Node) bool {
			if id, ok := n.(*ast.Ident); ok && shared[info.Uses[id]] && id.Pos() > firstGo && !inGoLit(id.Pos()) && !inLocalLit(id.Pos()) && !written[id.Pos()] && !atomicUse[id.Pos()] {
				f.record(tname, id.Name, false, false, id)
			}
			return true
		})
	}
}

// ---------- exclusions ----------

type Excl struct {
	Class  string `json:"class"` // "benign" (justified allow-list entry) or "defect" (confirmed race, reported by the engine)
	Kind   string `json:"kind"`  // "method" | "field" | "pair"
	Type   string `json:"type"`
	Field  string `json:"field,omitempty"`
	Method string `json:"method,omitempty"`
	Other  string `json:"other,omitempty"`
	Why    string `json:"why"`
}

func loadExcl(path string) []Excl {
	b, err := os.ReadFile(path)
	if err != nil {
		die("exclusion list: %v", err)
	}
	var f struct {
		Entries []Excl `json:"entries"`
	}
	if err := json.Unmarshal(b, &f); err != nil {
		die("exclusion list %s: %v", path, err)
	}
	for _, e := range f.Entries {
		if strings.TrimSpace(e.Why) == "" {
			die("exclusion entry %+v has no justification", e)
		}
		if e.Class != "benign" && e.Class != "defect" {
			die("exclusion entry %+v: class must be benign or defect", e)
		}
		used := false
		for _, a := range table {
			switch e.Kind {
			case "method":
				used = used || (a.Type == e.Type && a.Method == e.Method) || (e.Type == "*" && a.Method == e.Method)
			case "field":
				used = used || (a.Type == e.Type && a.Field == e.Field)
			case "pair":
				used = used || (a.Type == e.Type && a.Field == e.Field && (a.Method == e.Method || a.Method == e.Other))
			default:
				die("exclusion entry %+v: unknown kind", e)
			}
		}
		if !used {
			die("exclusion entry %+v names nothing in the table (stale entry)", e)
		}
	}
	return f.Entries
}

// ---------- output ----------

func coqStr(s string) string { return "\"" + strings.ReplaceAll(s, "\"", "\"\"") + "\"" }
func coqBool(b bool) string {
	if b {
		return "true"
	}
	return "false"
}

func writeIfChanged(path string, data []byte) {
	if old, err := os.ReadFile(path); err == nil && bytes.Equal(old, data) {
		return
	}
	if err := os.MkdirAll(filepath.Dir(path), 0o755); err != nil {
		die("%v", err)
	}
	if err := os.WriteFile(path, data, 0o644); err != nil {
		die("%v", err)
	}
}

func main() {
	out := flag.String("out", "/verif/coq/Gen/LockTable.v", "Coq output")
	jout := flag.String("json", "/verif/coq/Gen/LockTable.json", "JSON output")
	allow := flag.String("allow", "/verif/checks/C44_allow.json", "exclusion list")
	flag.Parse()

	all := goList("0chain.net/miner", "0chain.net/chaincore/round", "0chain.net/chaincore/block")
	analyseStructs(load(all, "0chain.net/chaincore/round"), "Round", "timeoutCounter")
	analyseStructs(load(all, "0chain.net/chaincore/block"), "Block", "UnverifiedBlockBody")
	analyseClosures(load(all, "0chain.net/miner"), "protocol_block.go")

	sort.SliceStable(table, func(i, j int) bool {
		a, b := table[i], table[j]
		if a.Type != b.Type {
			return a.Type < b.Type
		}
		if a.Field != b.Field {
			return a.Field < b.Field
		}
		if a.Method != b.Method {
			return a.Method < b.Method
		}
		return a.key() < b.key()
	})
	if len(table) < 50 {
		die("only %d accesses found: the translator no longer recognises the code", len(table))
	}
	excl := loadExcl(*allow)

	var b strings.Builder
	b.WriteString("(* GENERATED by harness/translators/locktable from the Go sources. Do not edit. *)\n")
	b.WriteString("From Coq Require Import List String Bool.\nFrom ZC Require Import Model.Lockset.\nImport ListNotations.\nOpen Scope string_scope.\n\n")
	b.WriteString("Definition lt_table : list lt_access := [\n")
	for i, a := range table {
		var ls []string
		for _, l := range a.Locks {
			ls = append(ls, fmt.Sprintf("(%s, %s)", coqStr(l.Name), coqBool(l.Excl)))
		}
		fmt.Fprintf(&b, "  mk_access %s %s %s %s %s [%s] %s %s", coqStr(a.Type), coqStr(a.Field), coqStr(a.Method),
			coqBool(a.Write), coqBool(a.Atomic), strings.Join(ls, "; "), coqBool(a.Multi), coqStr(a.Pos))
		if i+1 < len(table) {
			b.WriteString(";")
		}
		b.WriteString("\n")
	}
	b.WriteString("].\n\nDefinition lt_excl : list lt_exclusion := [\n")
	for i, e := range excl {
		fmt.Fprintf(&b, "  mk_excl %s %s %s %s %s %s", coqBool(e.Class == "defect"), coqStr(e.Kind), coqStr(e.Type), coqStr(e.Field), coqStr(e.Method), coqStr(e.Other))
		if i+1 < len(excl) {
			b.WriteString(";")
		}
		b.WriteString("\n")
	}
	b.WriteString("].\n")
	writeIfChanged(*out, []byte(b.String()))
	if retRefs == nil {
		retRefs = []RetRef{}
	}
	js, _ := json.MarshalIndent(struct {
		Table   []Access `json:"table"`
		Excl    []Excl   `json:"excl"`
		Returns []RetRef `json:"returns"`
	}{table, excl, retRefs}, "", " ")
	writeIfChanged(*jout, js)
	fmt.Fprintf(os.Stderr, "locktable: %d accesses, %d exclusions\n", len(table), len(excl))
}
