(* Model of smartcontract/zcnsc/burn.go (property C19) with the part of update-global-config
   that changes min_burn. Definitions only; proofs are in Proof/ZcnBurn.v.
   Ethereum addresses and clients are integer tokens (the contract compares addresses as raw
   strings: the user-node key is ADDRESS:usernode:<string>). Coins are uint64, nonces int64. *)
From Coq Require Export List ZArith Bool Lia.
Export ListNotations.
Open Scope Z_scope.

Definition zb_two63 : Z := 9223372036854775808.
Definition zb_two64 : Z := 18446744073709551616.
(* int64 arithmetic of [un.BurnNonce++] *)
Definition zb_wrap_i64 (z : Z) : Z := (z + zb_two63) mod zb_two64 - zb_two63.

(* the contract wallet (zcnsc.ADDRESS) as a token that is no client *)
Definition zb_wallet : Z := -1.

Record zb_state := { zb_min : Z; zb_nonces : list (Z * Z) }.

Fixpoint zb_get (a : Z) (l : list (Z * Z)) : Z :=
  match l with
  | [] => 0
  | (k, n) :: tl => if k =? a then n else zb_get a tl
  end.

Fixpoint zb_put (a n : Z) (l : list (Z * Z)) : list (Z * Z) :=
  match l with
  | [] => [(a, n)]
  | (k, x) :: tl => if k =? a then (k, n) :: tl else (k, x) :: zb_put a n tl
  end.

(* BurnPayload after Decode: undecodable JSON, or an address that may be the empty string *)
Inductive zb_payload := ZbMalformed | ZbEmptyAddress | ZbAddress (a : Z).

Inductive zb_op :=
| ZbBurn (client value : Z) (p : zb_payload)
| ZbSetMin (owner parsed : bool) (newmin : Z).   (* update-global-config {min_burn} *)

(* outcome: the transfers queued (from, to, amount) and the nonce in the response *)
Inductive zb_out := ZbBurned (transfers : list (Z * Z * Z)) (addr nonce : Z) | ZbUpdated | ZbFail.

Definition zb_step (st : zb_state) (o : zb_op) : zb_state * zb_out :=
  match o with
  | ZbBurn client value p =>
      if value <? zb_min st then (st, ZbFail) else
      match p with
      | ZbMalformed => (st, ZbFail)
      | ZbEmptyAddress => (st, ZbFail)
      | ZbAddress a =>
          let n := zb_wrap_i64 (zb_get a (zb_nonces st) + 1) in
          ({| zb_min := zb_min st; zb_nonces := zb_put a n (zb_nonces st) |},
           ZbBurned [(client, zb_wallet, value)] a n)
      end
  | ZbSetMin owner parsed newmin =>
      (* GlobalNode.Validate: min burn amount >= 1 (the other settings are not touched) *)
      if owner && parsed && negb (newmin <? 1)
      then ({| zb_min := newmin; zb_nonces := zb_nonces st |}, ZbUpdated)
      else (st, ZbFail)
  end.

Fixpoint zb_run (st : zb_state) (ops : list zb_op) : zb_state * list zb_out :=
  match ops with
  | [] => (st, [])
  | o :: tl => let '(st1, out) := zb_step st o in
               let '(st2, outs) := zb_run st1 tl in (st2, out :: outs)
  end.

Definition zb_init (min : Z) : zb_state := {| zb_min := min; zb_nonces := [] |}.

(* number of successful burns to address [a] in a trace *)
Fixpoint zb_count (a : Z) (outs : list zb_out) : Z :=
  match outs with
  | [] => 0
  | ZbBurned _ a' _ :: tl => (if a' =? a then 1 else 0) + zb_count a tl
  | _ :: tl => zb_count a tl
  end.
