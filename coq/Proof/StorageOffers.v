(* E-storage proofs, C13: per blobber, Allocated = sum of its blobber-allocation sizes over the open
   allocations and stake-pool TotalOffers = sum of their offers.  The invariant only depends on
   "key lists": (id, allocated, offers) per blobber and (blobber, size, write price) per blobber
   allocation, so most operations are handled by showing that they keep these lists. *)
From Coq Require Import ZArith List Bool Lia.
From ZC Require Import Model.F64 Model.Storage Proof.StorageUtil Proof.StorageFrame.
Import ListNotations.
Open Scope Z_scope.

Definition bl_key (b : ss_blobber) : Z * Z * Z := (bl_id b, bl_allocd b, bl_offers b).
Definition ba_key (d : ss_balloc) : Z * Z * Z := (ba_blobber d, ba_size d, ba_wp d).
Definition al_key (a : ss_alloc) : Z * list (Z * Z * Z) := (al_id a, map ba_key (al_bas a)).
Definition st_bkeys (s : ss_state) := map bl_key (st_blobbers s).
Definition st_akeys (s : ss_state) := map al_key (st_allocs s).

(* offer of a blobber allocation from its key *)
Definition key_offer (k : Z * Z * Z) : Z :=
  let '(_, size, wp) := k in f64_to_u64 (f64_mul (ss_size_gb size) (f64_of_Z wp)).
Definition key_size (k : Z * Z * Z) : Z := let '(_, size, _) := k in size.
Definition key_blobber (k : Z * Z * Z) : Z := let '(b, _, _) := k in b.

Lemma key_offer_ba : forall d, key_offer (ba_key d) = ss_offer d.
Proof. reflexivity. Qed.

Definition tally (f : Z * Z * Z -> Z) (id : Z) (ks : list (Z * Z * Z)) : Z :=
  ss_sum (map (fun k => if key_blobber k =? id then f k else 0) ks).
Definition tally_all (f : Z * Z * Z -> Z) (id : Z) (aks : list (Z * list (Z * Z * Z))) : Z :=
  ss_sum (map (fun ak => tally f id (snd ak)) aks).

Fixpoint bkey_find (id : Z) (l : list (Z * Z * Z)) : option (Z * Z) :=
  match l with
  | [] => None
  | (i, al, off) :: tl => if i =? id then Some (al, off) else bkey_find id tl
  end.

Definition c13_keys (bks : list (Z * Z * Z)) (aks : list (Z * list (Z * Z * Z))) : Prop :=
  forall id al off, bkey_find id bks = Some (al, off) ->
    al = tally_all key_size id aks /\ off = tally_all key_offer id aks.

Definition st_c13 (s : ss_state) : Prop := c13_keys (st_bkeys s) (st_akeys s).

Lemma bkey_find_blobber : forall id l, bkey_find id (map bl_key l) =
  match ss_find_blobber id l with Some b => Some (bl_allocd b, bl_offers b) | None => None end.
Proof.
  induction l as [|x tl IH]; cbn; [reflexivity|]. destruct (bl_id x =? id); [reflexivity | exact IH].
Qed.

(* ---------- key-preserving list updates ---------- *)

Lemma bkeys_set_same : forall b' l b, ss_find_blobber (bl_id b') l = Some b -> bl_key b' = bl_key b ->
  map bl_key (ss_set_blobber b' l) = map bl_key l.
Proof.
  induction l as [|x tl IH]; cbn; intros b H E; [reflexivity|].
  destruct (Z.eqb_spec (bl_id x) (bl_id b')).
  - inversion H; subst. cbn. rewrite E. reflexivity.
  - cbn. rewrite (IH _ H E). reflexivity.
Qed.

Lemma bakeys_set_same : forall d' l d, ss_find_ba (ba_blobber d') l = Some d -> ba_key d' = ba_key d ->
  map ba_key (ss_set_ba d' l) = map ba_key l.
Proof.
  induction l as [|x tl IH]; cbn; intros d H E; [reflexivity|].
  destruct (Z.eqb_spec (ba_blobber x) (ba_blobber d')).
  - inversion H; subst. cbn. rewrite E. reflexivity.
  - cbn. rewrite (IH _ H E). reflexivity.
Qed.

Lemma akeys_set_same : forall a' l a, ss_find_alloc (al_id a') l = Some a -> al_key a' = al_key a ->
  map al_key (ss_set_alloc a' l) = map al_key l.
Proof.
  induction l as [|x tl IH]; cbn; intros a H E; [reflexivity|].
  destruct (Z.eqb_spec (al_id x) (al_id a')).
  - inversion H; subst. cbn. rewrite E. reflexivity.
  - cbn. rewrite (IH _ H E). reflexivity.
Qed.

Lemma ss_find_blobber_self : forall id l b, ss_find_blobber id l = Some b -> ss_find_blobber (bl_id b) l = Some b.
Proof.
  induction l as [|x tl IH]; cbn; intros b H; [discriminate|].
  destruct (Z.eqb_spec (bl_id x) id).
  - inversion H; subst. rewrite Z.eqb_refl. reflexivity.
  - specialize (IH _ H). assert (bl_id b = id).
    { clear - H. induction tl as [|y tl IH]; cbn in H; [discriminate|]. destruct (Z.eqb_spec (bl_id y) id); [inversion H; subst; auto | auto]. }
    destruct (Z.eqb_spec (bl_id x) (bl_id b)); [congruence | exact IH].
Qed.

Lemma ss_find_alloc_self : forall id l a, ss_find_alloc id l = Some a -> ss_find_alloc (al_id a) l = Some a.
Proof.
  intros id l a H. destruct (ss_find_alloc_in _ _ _ H) as [_ E]. rewrite E. exact H.
Qed.

Lemma ss_find_ba_self' : forall b l d, ss_find_ba b l = Some d -> ss_find_ba (ba_blobber d) l = Some d.
Proof. intros b l d H. destruct (ss_find_ba_in _ _ _ H) as [_ E]. rewrite E. exact H. Qed.

(* ---------- helpers that keep keys ---------- *)

Lemma ss_distribute_key : forall b v b', ss_distribute b v = Some b' -> bl_key b' = bl_key b.
Proof.
  unfold ss_distribute; intros b v b' H. destruct ((v =? 0) || bl_spkilled b || (ss_stake b <? bl_minstake b)); [inversion H; reflexivity|].
  destruct (bl_pools b); [inversion H; reflexivity|]. destruct (ss_stake b =? 0); [discriminate | inversion H; reflexivity].
Qed.

Lemma ss_sp_slash_key : forall b o sl b' m, ss_sp_slash b o sl = Some (b', m) -> bl_key b' = bl_key b.
Proof.
  unfold ss_sp_slash; intros. destruct ((o =? 0) || (sl =? 0)); [inversion H; reflexivity|].
  bind_as H [p mv] E. inversion H; reflexivity.
Qed.

Lemma ss_sp_kill_key : forall b ks b', ss_sp_kill b ks = Some b' -> bl_key b' = bl_key b.
Proof.
  unfold ss_sp_kill; intros. destruct (f64_eqb ks f64_zero); [inversion H; reflexivity|].
  destruct (f64_ltb ks f64_zero || f64_ltb (f64_of_Z 1) ks); [discriminate|]. bind_as H p E. inversion H; reflexivity.
Qed.

Lemma ss_challenge_key : forall d dtu rdtu d' m, ss_challenge d dtu rdtu = Some (d', m) -> ba_key d' = ba_key d.
Proof. unfold ss_challenge; intros. bind_as H v E. inversion H; reflexivity. Qed.

Lemma ss_drop_ocs_key : forall sel ocs a a' keep gone, ss_drop_ocs sel ocs a = (a', keep, gone) -> al_key a' = al_key a.
Proof.
  induction ocs as [|oc tl IH]; cbn [ss_drop_ocs]; intros a a' keep gone H.
  - inversion H; reflexivity.
  - destruct (sel oc).
    + destruct (ss_find_ba (oc_blobber oc) (al_bas a)) as [d|] eqn:Ef.
      * remember (ss_drop_ocs sel tl _) as r eqn:Er. destruct r as [[a2 k2] g2]. symmetry in Er.
        inversion H; subst. rewrite (IH _ _ _ _ Er). unfold al_key. cbn. f_equal.
        eapply bakeys_set_same; [cbn; eapply ss_find_ba_self'; eauto | reflexivity].
      * remember (ss_drop_ocs sel tl a) as r eqn:Er. destruct r as [[a2 k2] g2]. symmetry in Er. inversion H; subst. eauto.
    + remember (ss_drop_ocs sel tl a) as r eqn:Er. destruct r as [[a2 k2] g2]. symmetry in Er. inversion H; subst. eauto.
Qed.

Lemma ss_settle_ocs_key : forall c round sel ocs a a' keep gone, ss_settle_ocs c round sel ocs a = (a', keep, gone) -> al_key a' = al_key a.
Proof.
  induction ocs as [|oc tl IH]; cbn [ss_settle_ocs]; intros a a' keep gone H.
  - inversion H; reflexivity.
  - destruct (if sel oc then ss_find_ba (oc_blobber oc) (al_bas a) else None) as [d|] eqn:Ef.
    + assert (Ef' : ss_find_ba (oc_blobber oc) (al_bas a) = Some d) by (destruct (sel oc); [exact Ef | discriminate]).
      remember (ss_settle_ocs c round sel tl _) as r eqn:Er. destruct r as [[a2 k2] g2]. symmetry in Er.
      inversion H; subst. rewrite (IH _ _ _ _ Er). unfold al_key. cbn. f_equal.
      eapply bakeys_set_same; [cbn; eapply ss_find_ba_self'; eauto | reflexivity].
    + remember (ss_settle_ocs c round sel tl a) as r eqn:Er. destruct r as [[a2 k2] g2]. symmetry in Er. inversion H; subst. eauto.
Qed.

Lemma ss_flush_open_blobber' : forall d, ba_blobber (ss_flush_open d) = ba_blobber d.
Proof. intros d. unfold ss_flush_open. destruct (0 <? ba_open d); reflexivity. Qed.

Lemma ss_flush_open_key : forall d, ba_key (ss_flush_open d) = ba_key d.
Proof. intros d. unfold ss_flush_open. destruct (0 <? ba_open d); reflexivity. Qed.

Lemma ss_settle_all_key : forall c round a a' rates gone, ss_settle_all c round a = (a', rates, gone) -> al_key a' = al_key a.
Proof.
  unfold ss_settle_all; intros. destruct (negb (al_chnode a)); [inversion H; reflexivity|].
  remember (ss_settle_ocs c round _ (al_ocs a) a) as r eqn:Er. destruct r as [[a1 k1] g1]. symmetry in Er.
  inversion H; subst. rewrite <- (ss_settle_ocs_key _ _ _ _ _ _ _ _ Er). unfold al_key. cbn. f_equal.
  rewrite map_map. apply map_ext. intros d. apply ss_flush_open_key.
Qed.

Lemma ss_remove_rates_key : forall c round a b a' rate gone, ss_remove_rates c round a b = Some (a', rate, gone) -> al_key a' = al_key a.
Proof.
  unfold ss_remove_rates; intros. destruct (negb (al_chnode a)); [inversion H; reflexivity|].
  remember (ss_settle_ocs c round _ (al_ocs a) a) as r eqn:Er. destruct r as [[a1 k1] g1]. symmetry in Er.
  bind_as H d Ed. inversion H; subst. rewrite <- (ss_settle_ocs_key _ _ _ _ _ _ _ _ Er). unfold al_key. cbn. f_equal.
  eapply bakeys_set_same; [rewrite ss_flush_open_blobber'; eapply ss_find_ba_self'; eauto | apply ss_flush_open_key].
Qed.

(* ---------- operations that keep both key lists ---------- *)

Definition st_keys (s : ss_state) := (st_bkeys s, st_akeys s).

Ltac key_eq :=
  solve [ reflexivity
        | erewrite ss_distribute_key by eassumption; reflexivity
        | erewrite ss_sp_slash_key by eassumption; reflexivity
        | erewrite ss_sp_kill_key by eassumption; reflexivity
        | cbn; erewrite ss_sp_kill_key by eassumption; reflexivity
        | cbn; erewrite ss_distribute_key by eassumption; reflexivity ].

Ltac find_self :=
  solve [ eassumption
        | eapply ss_find_blobber_self; eassumption
        | cbn; eapply ss_find_blobber_self; eassumption
        | eapply ss_find_ba_self'; eassumption
        | cbn; eapply ss_find_ba_self'; eassumption
        | eapply ss_find_alloc_self; eassumption
        | cbn; eapply ss_find_alloc_self; eassumption ].

Lemma ss_transfer_keys : forall s f t v s', ss_transfer s f t v = Some s' -> st_keys s' = st_keys s.
Proof. unfold ss_transfer; intros. crush H; inversion H; reflexivity. Qed.
Lemma ss_lock_from_keys : forall c s cl v s', ss_lock_from c s cl v = Some s' -> st_keys s' = st_keys s.
Proof. unfold ss_lock_from; intros. crush H. eapply ss_transfer_keys; eauto. Qed.

Lemma st_keys_split : forall s s', st_keys s' = st_keys s -> st_bkeys s' = st_bkeys s /\ st_akeys s' = st_akeys s.
Proof. unfold st_keys; intros s s' H; inversion H; auto. Qed.

Lemma ss_wp_lock_keys : forall c s a b v s', ss_wp_lock c s a b v = Some s' -> st_keys s' = st_keys s.
Proof.
  unfold ss_wp_lock; intros c s a b v s' H. guard_inv H. guard_inv H. bind_as H s1 E1. bind_as H al Ea. bind_as H w Ew. guard_inv H.
  inversion H; subst. apply ss_lock_from_keys in E1. rewrite <- E1. unfold st_keys, st_bkeys, st_akeys. cbn. f_equal.
  eapply akeys_set_same; [find_self | reflexivity].
Qed.

Lemma ss_commit_move_key : forall c a d size ts w mtc mb cp d', ss_commit_move c a d size ts = Some (w, mtc, mb, cp, d') -> ba_key d' = ba_key d.
Proof. unfold ss_commit_move; intros. crush H; inversion H; reflexivity. Qed.

Lemma ss_commit_keys : forall c s sender alloc client root prev size ts sig s',
  ss_commit c s sender alloc client root prev size ts sig = Some s' -> st_keys s' = st_keys s.
Proof.
  unfold ss_commit; intros c s sender alloc client root prev size ts sig s' H.
  guard_inv H. bind_as H a Ea. guard_inv H. guard_inv H. bind_as H d Ed. guard_inv H.
  match type of H with (if ?b then _ else _) = _ => destruct b end; [inversion H; reflexivity|].
  bind_as H change Ec. bind_as H b Eb. guard_inv H. guard_inv H. guard_inv H. bind_as H [[[[w mtc] mb] cp] d2] Em. guard_inv H.
  inversion H; subst. clear H. apply ss_commit_move_key in Em.
  unfold st_keys, st_bkeys, st_akeys. cbn. f_equal.
  - eapply bkeys_set_same; [find_self | reflexivity].
  - eapply akeys_set_same; [find_self|]. unfold al_key. cbn. f_equal.
    assert (Hk : ba_key d2 = ba_key d) by (rewrite Em; destruct (ba_used d =? 0); reflexivity).
    assert (Hb : ba_blobber d2 = ba_blobber d) by (inversion Hk; reflexivity).
    eapply bakeys_set_same; [rewrite Hb; find_self | exact Hk].
Qed.

Lemma al_key_stats_bas : forall a d d' u t o sc f ocs ch, ss_find_ba (ba_blobber d') (al_bas a) = Some d -> ba_key d' = ba_key d ->
  al_key (al_with_stats (al_with_bas a (ss_set_ba d' (al_bas a))) u t o sc f ocs ch) = al_key a.
Proof. intros. unfold al_key. cbn. f_equal. eapply bakeys_set_same; eauto. Qed.

Lemma ss_gen_chal_keys : forall c s now round al bl ch s', ss_gen_chal c s now round al bl ch = Some s' -> st_keys s' = st_keys s.
Proof.
  unfold ss_gen_chal; intros c s now round al bl ch s' H. bind_as H a Ea. bind_as H d0 Ed0.
  remember (ss_drop_ocs _ (al_ocs a) a) as r eqn:Er. destruct r as [[a1 keep] gone]. symmetry in Er.
  guard_inv H. bind_as H d Ed. inversion H; subst. clear H.
  apply ss_drop_ocs_key in Er.
  unfold st_keys, st_bkeys, st_akeys. cbn. f_equal.
  eapply akeys_set_same; [cbn; replace (al_id a1) with (al_id a) by (inversion Er; reflexivity); find_self|].
  rewrite <- Er. apply (al_key_stats_bas a1 d); [cbn; find_self | reflexivity].
Qed.

Lemma ss_to_validators_frame : forall vs ids cp r vs' cp', ss_to_validators vs ids cp r = Some (vs', cp') -> True.
Proof. auto. Qed.

Lemma ss_penalty_keys : forall c s a b ls lf vals s' a', ss_penalty c s a b ls lf vals = Some (s', a') ->
  st_keys s' = st_keys s /\ al_key a' = al_key a.
Proof.
  unfold ss_penalty; intros c s a b ls lf vals s' a' H.
  destruct (lf <=? ls); [inversion H; subst; auto|].
  bind_as H d Ed. bind_as H cp Ecp. bind_as H rdtu E1. bind_as H dtu E2. bind_as H [d1 move0] E3.
  bind_as H vr E4. bind_as H move E5. bind_as H [vs cp1] E6. bind_as H mtv E7. bind_as H [w cp2] E8. bind_as H mb E9.
  bind_as H ret E10. bind_as H sl E11. bind_as H [s2 pen] E12. inversion H; subst. clear H.
  apply ss_challenge_key in E3. assert (Hb : ba_blobber d1 = ba_blobber d) by (inversion E3; reflexivity).
  split.
  - destruct (f64_ltb f64_zero (cf_slash c) && (0 <? move) && (0 <? sl)).
    + bind_as E12 bb Eb. bind_as E12 [b' dp] Es. bind_as E12 p Ep. inversion E12; subst.
      apply ss_sp_slash_key in Es. unfold st_keys, st_bkeys, st_akeys. cbn. f_equal.
      eapply bkeys_set_same; [replace (bl_id b') with (bl_id bb) by (inversion Es; reflexivity); cbn; find_self | exact Es].
    + inversion E12; subst. reflexivity.
  - unfold al_key. cbn. f_equal. eapply bakeys_set_same; [cbn; rewrite Hb; find_self | cbn; exact E3].
Qed.

Lemma ss_reward_keys : forall c s a b lf vals s' a', ss_reward c s a b lf vals = Some (s', a') ->
  st_keys s' = st_keys s /\ al_key a' = al_key a.
Proof.
  unfold ss_reward; intros c s a b lf vals s' a' H.
  bind_as H d Ed. guard_inv H. bind_as H cp Ecp. bind_as H rdtu E1. bind_as H dtu E2. bind_as H [d1 move] E3.
  bind_as H vr E4. bind_as H br E5. bind_as H bb Eb. bind_as H [b' cp1] E6. bind_as H chrew E7. bind_as H [vs cp2] E8. bind_as H mtv E9.
  inversion H; subst. clear H.
  apply ss_challenge_key in E3. assert (Hb : ba_blobber d1 = ba_blobber d) by (inversion E3; reflexivity).
  assert (Hk : bl_key b' = bl_key bb).
  { destruct (br =? 0); [inversion E6; reflexivity|]. destruct (cp <? br); [discriminate|].
    bind_as E6 b1 Ed1. inversion E6; subst. eapply ss_distribute_key; eauto. }
  split.
  - unfold st_keys, st_bkeys, st_akeys. cbn. f_equal.
    eapply bkeys_set_same; [replace (bl_id b') with (bl_id bb) by (inversion Hk; reflexivity); find_self | exact Hk].
  - unfold al_key. cbn. f_equal. eapply bakeys_set_same; [cbn; rewrite Hb; find_self | cbn; exact E3].
Qed.

Lemma st_keys_set_alloc : forall s a' a, ss_find_alloc (al_id a') (st_allocs s) = Some a -> al_key a' = al_key a ->
  st_keys (st_with_allocs s (ss_set_alloc a' (st_allocs s))) = st_keys s.
Proof. intros. unfold st_keys, st_bkeys, st_akeys. cbn. f_equal. eapply akeys_set_same; eauto. Qed.

Lemma ss_find_alloc_keys : forall s s' id, st_akeys s' = st_akeys s -> forall a, ss_find_alloc id (st_allocs s) = Some a ->
  exists a', ss_find_alloc id (st_allocs s') = Some a' /\ al_key a' = al_key a.
Proof.
  unfold st_akeys. intros s s' id. generalize (st_allocs s) (st_allocs s').
  induction l as [|x tl IH]; intros l' E a H; [discriminate|].
  destruct l' as [|y tl']; [discriminate|]. cbn [map] in E. injection E as E1 E2. cbn [ss_find_alloc] in *.
  rewrite E1.
  destruct (al_id x =? id).
  - inversion H; subst. exists y. split; [reflexivity | unfold al_key; congruence].
  - apply (IH tl' H0 a H).
Qed.

Lemma ss_chal_resp_keys : forall c s now round sender ch tok pass vals s',
  ss_chal_resp c s now round sender ch tok pass vals = Some s' -> st_keys s' = st_keys s.
Proof.
  unfold ss_chal_resp; intros c s now round sender ch tok pass vals s' H.
  bind_as H cn Ec. guard_inv H. guard_inv H. guard_inv H. bind_as H a Ea. guard_inv H. guard_inv H. bind_as H d Ed. guard_inv H. guard_inv H.
  destruct pass; cbn [negb] in H.
  - remember (ss_drop_ocs _ (al_ocs a) a) as r eqn:Er. destruct r as [[a1 keep] gone]. symmetry in Er.
    bind_as H d1 Ed1. guard_inv H. bind_as H [s3 a3] E3. bind_as H [s4 a4] E4. inversion H; subst. clear H.
    apply ss_drop_ocs_key in Er.
    match type of E3 with context [ss_penalty c s ?A] => assert (Ha2 : al_key A = al_key a) end.
    { rewrite <- Er. apply (al_key_stats_bas a1 d1); [cbn; find_self | reflexivity]. }
    assert (H3 : st_keys s3 = st_keys s /\ al_key a3 = al_key a).
    { destruct (ba_ls d <? ba_lf d1); [apply ss_penalty_keys in E3; destruct E3; split; congruence | inversion E3; subst; auto]. }
    destruct H3 as [Hs3 Ha3]. apply ss_reward_keys in E4. destruct E4 as [Hs4 Ha4].
    assert (Hak : st_akeys s4 = st_akeys s) by (apply st_keys_split; congruence).
    destruct (ss_find_alloc_keys s s4 _ Hak _ Ea) as [ax [Efx Ekx]].
    assert (Hid : al_id a4 = ch_alloc cn).
    { apply ss_find_alloc_in in Ea. destruct Ea as [_ Eid]. rewrite <- Eid. transitivity (fst (al_key a4)); [reflexivity|]. rewrite Ha4, Ha3. reflexivity. }
    transitivity (st_keys s4); [|congruence].
    unfold st_keys, st_bkeys, st_akeys. cbn. f_equal. eapply akeys_set_same; [rewrite Hid; exact Efx | congruence].
  - inversion H; subst. clear H. apply st_keys_set_alloc with (a := a); [cbn; find_self|].
    apply (al_key_stats_bas a d); [cbn; find_self | reflexivity].
Qed.

Lemma ss_read_keys : forall c s cl b al ts ctr i sg s', ss_read c s cl b al ts ctr i sg = Some s' -> st_keys s' = st_keys s.
Proof.
  unfold ss_read; intros c s cl b al ts ctr i sg s' H.
  guard_inv H. guard_inv H. guard_inv H. guard_inv H. bind_as H a Ea. guard_inv H. bind_as H d Ed. bind_as H bb Eb.
  guard_inv H. guard_inv H. bind_as H b1 Eb1. bind_as H rr Er. inversion H; subst. clear H.
  apply ss_distribute_key in Eb1.
  unfold st_keys, st_bkeys, st_akeys. cbn. f_equal.
  - eapply bkeys_set_same; [replace (bl_id b1) with (bl_id bb) by (inversion Eb1; reflexivity); find_self | exact Eb1].
  - eapply akeys_set_same; [cbn; find_self|]. unfold al_key. cbn. f_equal.
    eapply bakeys_set_same; [cbn; find_self | reflexivity].
Qed.

Lemma ss_rp_lock_keys : forall c s a b v s', ss_rp_lock c s a b v = Some s' -> st_keys s' = st_keys s.
Proof. unfold ss_rp_lock; intros c s a b v s' H. guard_inv H. bind_as H s1 E. bind_as H x Ex. inversion H; subst. apply ss_lock_from_keys in E. rewrite <- E. reflexivity. Qed.
Lemma ss_rp_unlock_keys : forall c s a s', ss_rp_unlock c s a = Some s' -> st_keys s' = st_keys s.
Proof. unfold ss_rp_unlock; intros c s a s' H. bind_as H v E. bind_as H s1 E1. inversion H; subst. apply ss_transfer_keys in E1. rewrite <- E1. reflexivity. Qed.
Lemma ss_add_assigner_keys : forall c s a n k i t s', ss_add_assigner c s a n k i t = Some s' -> st_keys s' = st_keys s.
Proof. unfold ss_add_assigner; intros c s a n k i t s' H. guard_inv H. bind_as H x E. guard_inv H. bind_as H y Ey. guard_inv H. inversion H; reflexivity. Qed.

Lemma ss_kill_keys : forall c s a b s', ss_kill c s a b = Some s' -> st_keys s' = st_keys s.
Proof.
  unfold ss_kill; intros c s a b s' H. bind_as H x E. guard_inv H. destruct (bl_killed x || bl_shut x); [inversion H; reflexivity|].
  bind_as H y Ey. inversion H; subst. apply ss_sp_kill_key in Ey.
  unfold st_keys, st_bkeys, st_akeys. cbn. f_equal.
  eapply bkeys_set_same; [cbn; replace (bl_id y) with (bl_id x) by (inversion Ey; reflexivity); find_self | cbn; exact Ey].
Qed.

Lemma ss_shutdown_keys : forall c s a b s', ss_shutdown c s a b = Some s' -> st_keys s' = st_keys s.
Proof.
  unfold ss_shutdown; intros c s a b s' H. bind_as H x E. destruct (bl_killed x || bl_shut x); [inversion H; reflexivity|].
  guard_inv H. bind_as H y Ey. inversion H; subst. apply ss_sp_kill_key in Ey.
  unfold st_keys, st_bkeys, st_akeys. cbn. f_equal.
  eapply bkeys_set_same; [cbn; replace (bl_id y) with (bl_id x) by (inversion Ey; reflexivity); find_self|].
  unfold bl_key in *. cbn. inversion Ey. reflexivity.
Qed.

Lemma ss_upd_blobber_keys : forall c s a b cap wp rp na s', ss_upd_blobber c s a b cap wp rp na = Some s' -> st_keys s' = st_keys s.
Proof.
  unfold ss_upd_blobber; intros c s a b cap wp rp na s' H. bind_as H x E. guard_inv H. bind_as H r Er. bind_as H w Ew. bind_as H cp Ec.
  guard_inv H. inversion H; subst. unfold st_keys, st_bkeys, st_akeys. cbn. f_equal.
  eapply bkeys_set_same; [cbn; find_self | reflexivity].
Qed.

Lemma st_c13_keys_eq : forall s s', st_keys s' = st_keys s -> st_c13 s -> st_c13 s'.
Proof. unfold st_c13; intros s s' E H. apply st_keys_split in E. destruct E as [-> ->]. exact H. Qed.

(* ---------- tallies under list updates ---------- *)

Lemma tally_app : forall f id l1 l2, tally f id (l1 ++ l2) = tally f id l1 + tally f id l2.
Proof. unfold tally. induction l1 as [|x tl IH]; intros l2; cbn [app map ss_sum]; [lia | rewrite IH; lia]. Qed.

Lemma tally_all_app : forall f id l ak, tally_all f id (l ++ [ak]) = tally_all f id l + tally f id (snd ak).
Proof. unfold tally_all. induction l as [|x tl IH]; intros ak; cbn [app map ss_sum]; [lia | rewrite IH; lia]. Qed.

Lemma tally_all_set : forall f id a' l a, ss_find_alloc (al_id a') l = Some a ->
  tally_all f id (map al_key (ss_set_alloc a' l)) =
  tally_all f id (map al_key l) - tally f id (map ba_key (al_bas a)) + tally f id (map ba_key (al_bas a')).
Proof.
  unfold tally_all. induction l as [|x tl IH]; cbn [ss_find_alloc ss_set_alloc]; intros a H; [discriminate|].
  destruct (Z.eqb_spec (al_id x) (al_id a')).
  - inversion H; subst. cbn [map ss_sum al_key snd]. lia.
  - cbn [map ss_sum al_key snd]. cbn [map ss_sum al_key snd] in IH. rewrite (IH _ H). lia.
Qed.

Lemma tally_all_del : forall f id l a, ss_find_alloc (al_id a) l = Some a ->
  tally_all f id (map al_key (ss_del_alloc (al_id a) l)) = tally_all f id (map al_key l) - tally f id (map ba_key (al_bas a)).
Proof.
  unfold tally_all. induction l as [|x tl IH]; cbn [ss_find_alloc ss_del_alloc]; intros a H; [discriminate|].
  destruct (Z.eqb_spec (al_id x) (al_id a)).
  - inversion H; subst. cbn [map ss_sum al_key snd]. lia.
  - cbn [map ss_sum al_key snd]. rewrite (IH _ H). lia.
Qed.

Lemma tally_replace : forall f id old nw l d, ss_find_ba old l = Some d ->
  tally f id (map ba_key (ss_replace_ba old nw l)) =
  tally f id (map ba_key l) - (if ba_blobber d =? id then f (ba_key d) else 0) + (if ba_blobber nw =? id then f (ba_key nw) else 0).
Proof.
  unfold tally. induction l as [|x tl IH]; cbn [ss_find_ba ss_replace_ba]; intros d H; [discriminate|].
  destruct (Z.eqb_spec (ba_blobber x) old).
  - inversion H; subst. cbn [map ss_sum]. replace (key_blobber (ba_key d)) with (ba_blobber d) by reflexivity.
    replace (key_blobber (ba_key nw)) with (ba_blobber nw) by reflexivity. lia.
  - cbn [map ss_sum]. rewrite (IH _ H). lia.
Qed.

Lemma ss_find_set_blobber : forall b' l id,
  ss_find_blobber id (ss_set_blobber b' l) =
  if id =? bl_id b' then match ss_find_blobber (bl_id b') l with Some _ => Some b' | None => None end
  else ss_find_blobber id l.
Proof.
  induction l as [|x tl IH]; intros id; cbn [ss_set_blobber ss_find_blobber].
  - destruct (id =? bl_id b'); reflexivity.
  - destruct (Z.eqb_spec (bl_id x) (bl_id b')) as [E|E]; cbn [ss_find_blobber].
    + destruct (Z.eqb_spec id (bl_id b')) as [E2|E2].
      * subst id. rewrite Z.eqb_refl. reflexivity.
      * destruct (Z.eqb_spec (bl_id b') id); [congruence|]. destruct (Z.eqb_spec (bl_id x) id); [congruence | reflexivity].
    + rewrite IH. destruct (Z.eqb_spec id (bl_id b')) as [E2|E2].
      * subst id. destruct (Z.eqb_spec (bl_id x) (bl_id b')); [contradiction | reflexivity].
      * reflexivity.
Qed.

(* combining a change of the blobbers with a change of the allocations *)
Lemma c13_update : forall bls bls' aks aks' (ds dof : Z -> Z),
  c13_keys (map bl_key bls) aks ->
  (forall id b', ss_find_blobber id bls' = Some b' ->
     exists b, ss_find_blobber id bls = Some b /\ bl_allocd b' = bl_allocd b + ds id /\ bl_offers b' = bl_offers b + dof id) ->
  (forall id, tally_all key_size id aks' = tally_all key_size id aks + ds id) ->
  (forall id, tally_all key_offer id aks' = tally_all key_offer id aks + dof id) ->
  c13_keys (map bl_key bls') aks'.
Proof.
  unfold c13_keys; intros bls bls' aks aks' ds dof H Hb Hs Ho id al off Hf.
  rewrite bkey_find_blobber in Hf. destruct (ss_find_blobber id bls') as [b'|] eqn:E; [|discriminate]. inversion Hf; subst.
  destruct (Hb _ _ E) as [b [Eb [Ha Hof]]]. specialize (H id (bl_allocd b) (bl_offers b)).
  rewrite bkey_find_blobber, Eb in H. destruct (H eq_refl) as [H1 H2]. rewrite Hs, Ho. lia.
Qed.

(* ---------- new allocation: every chosen blobber takes the size and offer of its new entry ---------- *)

Lemma ss_add_offer_some : forall b v b', ss_add_offer b v = Some b' ->
  bl_id b' = bl_id b /\ bl_allocd b' = bl_allocd b /\ bl_offers b' = bl_offers b + v.
Proof. unfold ss_add_offer; intros. bind_as H o E. apply ss_add_coin_some in E. destruct E as [-> _]. inversion H; subst. auto. Qed.

Lemma ss_reduce_offer_some : forall b v b', ss_reduce_offer b v = Some b' ->
  bl_id b' = bl_id b /\ bl_allocd b' = bl_allocd b /\ bl_offers b' = bl_offers b - v.
Proof. unfold ss_reduce_offer; intros. bind_as H o E. apply ss_minus_coin_some in E. destruct E as [-> _]. inversion H; subst. auto. Qed.

Lemma ss_assign_delta : forall c chosen all bsz now bas all',
  ss_assign c chosen all bsz now = Some (bas, all') ->
  (forall b, In b chosen -> ss_find_blobber (bl_id b) all = Some b) -> NoDup (map bl_id chosen) ->
  forall id b', ss_find_blobber id all' = Some b' ->
    exists b, ss_find_blobber id all = Some b /\
              bl_allocd b' = bl_allocd b + tally key_size id (map ba_key bas) /\
              bl_offers b' = bl_offers b + tally key_offer id (map ba_key bas).
Proof.
  induction chosen as [|b tl IH]; cbn [ss_assign]; intros all bsz now bas all' H Hin Hnd id b' Hf.
  - inversion H; subst. exists b'. cbn. split; [exact Hf | lia].
  - bind_as H b1 E1. bind_as H [ds all2] E2. inversion H; subst. clear H.
    apply ss_add_offer_some in E1. cbn in E1. destruct E1 as [Hid [Hal Hof]].
    inversion Hnd as [|? ? Hnotin Hnd']; subst.
    assert (Hb : ss_find_blobber (bl_id b) all = Some b) by (apply Hin; left; reflexivity).
    assert (Hin' : forall x, In x tl -> ss_find_blobber (bl_id x) (ss_set_blobber b1 all) = Some x).
    { intros x Hx. rewrite ss_find_set_blobber. destruct (Z.eqb_spec (bl_id x) (bl_id b1)) as [E|E].
      - exfalso. apply Hnotin. rewrite Hid in E. rewrite <- E. apply in_map. exact Hx.
      - apply Hin. right. exact Hx. }
    destruct (IH _ _ _ _ _ E2 Hin' Hnd' id b' Hf) as [bm [Hfm [Ha Ho]]].
    rewrite ss_find_set_blobber in Hfm. unfold tally. cbn [map ss_sum].
    replace (key_blobber (ba_key (ss_new_ba c b bsz now))) with (bl_id b) by reflexivity.
    fold (tally key_size id (map ba_key ds)). fold (tally key_offer id (map ba_key ds)).
    destruct (Z.eqb_spec id (bl_id b1)) as [E|E].
    + rewrite Hid in E. subst id. rewrite Hid, Hb in Hfm. inversion Hfm; subst bm. exists b. rewrite Z.eqb_refl.
      split; [exact Hb|]. cbn [key_size key_offer ba_key ss_new_ba ba_blobber ba_size ba_wp]. 
      change (f64_to_u64 (f64_mul (ss_size_gb bsz) (f64_of_Z (Z.min (bl_wp b) (cf_max_wp c))))) with (ss_offer (ss_new_ba c b bsz now)).
      lia.
    + rewrite Hid in E. destruct (Z.eqb_spec (bl_id b) id); [congruence|]. exists bm. split; [exact Hfm | lia].
Qed.

Lemma ss_find_blobbers_spec : forall ids l bl, ss_find_blobbers ids l = Some bl ->
  map bl_id bl = ids /\ forall b, In b bl -> ss_find_blobber (bl_id b) l = Some b.
Proof.
  induction ids as [|i tl IH]; cbn [ss_find_blobbers]; intros l bl H.
  - inversion H; subst. split; [reflexivity | intros b []].
  - bind_as H b Eb. bind_as H r Er. inversion H; subst. destruct (IH _ _ Er) as [Hm Hf].
    pose proof (ss_find_blobber_self _ _ _ Eb) as Hs.
    assert (Hid : bl_id b = i).
    { clear - Eb. revert Eb. induction l as [|y l IH]; cbn; [discriminate|]. destruct (Z.eqb_spec (bl_id y) i); [intros H; inversion H; subst; auto | auto]. }
    split; [cbn; congruence|]. intros x [->|Hx]; auto.
Qed.

Lemma ss_nodup_NoDup : forall l, ss_nodup l = true -> NoDup l.
Proof.
  induction l as [|x tl IH]; cbn; intros H; [constructor|]. apply andb_true_iff in H. destruct H as [H1 H2].
  constructor; [|auto]. intros Hin. apply negb_true_iff in H1.
  assert (ss_mem x tl = true).
  { clear - Hin. induction tl as [|y tl IH]; cbn; [contradiction|]. destruct Hin as [->|Hin]; [rewrite Z.eqb_refl; reflexivity | rewrite IH; auto; apply orb_true_r]. }
  congruence.
Qed.

Lemma NoDup_map_filter_active : forall bl rr wr sz, NoDup (map bl_id bl) -> NoDup (map bl_id (ss_filter_active bl rr wr sz)).
Proof.
  induction bl as [|b tl IH]; cbn; intros rr wr sz H; [constructor|]. inversion H; subst.
  destruct (ss_is_active b rr wr sz); cbn; [|auto]. constructor; [|auto].
  intros Hin. apply H2. clear - Hin. induction tl as [|y tl IH]; cbn in *; [contradiction|].
  destruct (ss_is_active y rr wr sz); cbn in *; [destruct Hin; auto | auto].
Qed.

Lemma In_filter_active : forall bl rr wr sz b, In b (ss_filter_active bl rr wr sz) -> In b bl.
Proof.
  induction bl as [|x tl IH]; cbn; intros rr wr sz b H; [contradiction|].
  destruct (ss_is_active x rr wr sz); [destruct H; eauto | eauto].
Qed.

Lemma In_firstn : forall (A : Type) n (l : list A) x, In x (firstn n l) -> In x l.
Proof.
  induction n; intros l x H; cbn in H; [contradiction|]. destruct l; [contradiction|]. destruct H as [->|H]; [left; reflexivity | right; eauto].
Qed.

Lemma NoDup_firstn : forall (A : Type) n (l : list A), NoDup l -> NoDup (firstn n l).
Proof.
  induction n; intros l H; cbn; [constructor|]. destruct l; [constructor|]. inversion H; subst. constructor; [|auto].
  intros Hin. apply H2. eapply In_firstn; eauto.
Qed.

Lemma map_firstn : forall (A B : Type) (f : A -> B) n l, map f (firstn n l) = firstn n (map f l).
Proof. induction n; intros l; cbn; [reflexivity|]. destruct l; cbn; [reflexivity | rewrite IHn; reflexivity]. Qed.

Lemma ss_new_alloc_c13 : forall c s now id owner payer value tv data parity size bl rr wr tpe s',
  st_c13 s -> ss_new_alloc c s now id owner payer value tv data parity size bl rr wr tpe = Some s' -> st_c13 s'.
Proof.
  unfold ss_new_alloc; intros c s now id owner payer value tv data parity size bl rr wr tpe s' Hs H.
  guard_inv H. bind_as H bls Ebl. guard_inv H. bind_as H [bas all] Eas. bind_as H s1 E1. bind_as H cost Ec. guard_inv H. guard_inv H.
  inversion H; subst. clear H.
  assert (Hk1 : st_keys s1 = st_keys s).
  { destruct (value =? 0); [inversion E1; reflexivity|]. guard_inv E1. eapply ss_lock_from_keys; eauto. }
  apply st_keys_split in Hk1. destruct Hk1 as [Hbk Hak].
  repeat (apply andb_true_iff in G; destruct G as [G ?]).
  destruct (ss_find_blobbers_spec _ _ _ Ebl) as [Hm Hfind].
  set (chosen := firstn (Z.to_nat (data + parity)) (ss_filter_active bls rr wr (ss_bsize size data))) in *.
  assert (Hnd : NoDup (map bl_id chosen)).
  { subst chosen. rewrite map_firstn. apply NoDup_firstn. apply NoDup_map_filter_active. rewrite Hm. apply ss_nodup_NoDup. assumption. }
  assert (Hin : forall b, In b chosen -> ss_find_blobber (bl_id b) (st_blobbers s) = Some b).
  { intros b Hb. apply Hfind. eapply In_filter_active. eapply In_firstn. exact Hb. }
  pose proof (ss_assign_delta _ _ _ _ _ _ _ Eas Hin Hnd) as Hd.
  unfold st_c13, st_bkeys, st_akeys. cbn [st_blobbers st_allocs st_with_allocs st_with_blobbers].
  eapply (c13_update (st_blobbers s) all (st_akeys s) _ (fun i => tally key_size i (map ba_key bas)) (fun i => tally key_offer i (map ba_key bas))).
  - exact Hs.
  - exact Hd.
  - intros i. rewrite map_app. cbn [map]. rewrite tally_all_app. cbn [al_key snd al_bas]. fold (st_akeys s1). rewrite Hak. reflexivity.
  - intros i. rewrite map_app. cbn [map]. rewrite tally_all_app. cbn [al_key snd al_bas]. fold (st_akeys s1). rewrite Hak. reflexivity.
Qed.

(* ---------- closing: offers and sizes of the allocation are released ---------- *)

Lemma ss_find_blobber_id' : forall id l b, ss_find_blobber id l = Some b -> bl_id b = id.
Proof.
  induction l as [|y l IH]; cbn; intros b H; [discriminate|].
  destruct (Z.eqb_spec (bl_id y) id); [inversion H; subst; auto | auto].
Qed.


Lemma ss_fin_pay_key : forall c a cpbal b d rate now b' d' reward pen,
  ss_fin_pay c a cpbal b d rate now = Some (b', d', reward, pen) -> bl_key b' = bl_key b /\ ba_key d' = ba_key d.
Proof.
  unfold ss_fin_pay; intros c a cpbal b d rate now b' d' reward pen H.
  destruct (ba_lf d =? 0); [inversion H; subst; auto|].
  bind_as H [[b1 d1] pmove] E.
  assert (H1 : bl_key b1 = bl_key b /\ ba_key d1 = ba_key d).
  { destruct (ba_lf d <=? ba_ls d); [inversion E; subst; auto|].
    bind_as E rdtu E1. bind_as E dtu0 E2. bind_as E [dd move] E3. bind_as E ret E4. bind_as E sl E5. apply ss_challenge_key in E3.
    destruct (f64_ltb f64_zero (cf_slash c) && (0 <? move) && (0 <? sl)).
    - bind_as E [bb dp] E6. bind_as E p E7. inversion E; subst. apply ss_sp_slash_key in E6. split; [exact E6 | exact E3].
    - inversion E; subst. split; [reflexivity | exact E3]. }
  destruct H1 as [Hb1 Hd1].
  destruct (now <=? ba_lf d1); [inversion H; subst; auto|].
  bind_as H rdtu E1. bind_as H dtu0 E2.
  destruct ((0 <? al_used a) && (0 <? cpbal) && f64_ltb f64_zero rate).
  - bind_as H rw E3. bind_as H cv E4. bind_as H b2 E5. inversion H; subst. apply ss_distribute_key in E5. split; [congruence | exact Hd1].
  - inversion H; subst. auto.
Qed.

Lemma ss_fin_loop_delta : forall c a cpbal now bas rates bls bas' bls' paid,
  ss_fin_loop c a cpbal now bas rates bls = Some (bas', bls', paid) ->
  forall id b', ss_find_blobber id bls' = Some b' ->
    exists b, ss_find_blobber id bls = Some b /\ bl_allocd b' = bl_allocd b /\
              bl_offers b' = bl_offers b - tally key_offer id (map ba_key bas).
Proof.
  induction bas as [|d tl IH]; cbn [ss_fin_loop]; intros rates bls bas' bls' paid H id b' Hf.
  - inversion H; subst. exists b'. cbn. split; [exact Hf | lia].
  - destruct rates as [|r rtl]; [discriminate|].
    bind_as H b Eb. bind_as H b0 E0. bind_as H [[[b1 d1] reward] pen] E1. bind_as H [[ds bl2] sum] E2. bind_as H sum' E3.
    inversion H; subst. clear H.
    pose proof (ss_find_blobber_id' _ _ _ Eb) as Hbid.
    apply ss_reduce_offer_some in E0. destruct E0 as [Hid0 [Hal0 Hof0]].
    apply ss_fin_pay_key in E1. destruct E1 as [Hk1 _]. unfold bl_key in Hk1. injection Hk1 as Hid1 Hal1 Hof1.
    destruct (IH _ _ _ _ _ E2 id b' Hf) as [bm [Hfm [Ha Ho]]].
    rewrite ss_find_set_blobber in Hfm. unfold tally. cbn [map ss_sum].
    replace (key_blobber (ba_key d)) with (ba_blobber d) by reflexivity.
    fold (tally key_offer id (map ba_key tl)).
    assert (Hb1 : bl_id b1 = ba_blobber d) by congruence.
    rewrite Hb1 in Hfm. rewrite Eb in Hfm.
    destruct (Z.eqb_spec id (ba_blobber d)) as [E|E].
    + subst id. inversion Hfm; subst bm. exists b. rewrite Z.eqb_refl.
      split; [exact Eb|]. rewrite key_offer_ba. lia.
    + destruct (Z.eqb_spec (ba_blobber d) id); [congruence|]. exists bm. split; [exact Hfm | lia].
Qed.

Lemma ss_cancel_loop_keys : forall cc total bas rates bls bls' charged,
  ss_cancel_loop cc total bas rates bls = Some (bls', charged) -> map bl_key bls' = map bl_key bls.
Proof.
  induction bas as [|d tl IH]; cbn [ss_cancel_loop]; intros rates bls bls' charged H.
  - inversion H; reflexivity.
  - destruct rates as [|r rtl]; [discriminate|].
    bind_as H b Eb. bind_as H b1 E1. bind_as H [bl2 sum] E2. bind_as H sum' E3. inversion H; subst.
    apply ss_distribute_key in E1. rewrite (IH _ _ _ _ E2).
    eapply bkeys_set_same; [replace (bl_id b1) with (bl_id b) by (inversion E1; reflexivity); find_self | exact E1].
Qed.

Lemma ss_release_loop_delta : forall bas bls bls', ss_release_loop bas bls = Some bls' ->
  forall id b', ss_find_blobber id bls' = Some b' ->
    exists b, ss_find_blobber id bls = Some b /\ bl_offers b' = bl_offers b /\
              bl_allocd b' = bl_allocd b - tally key_size id (map ba_key bas).
Proof.
  induction bas as [|d tl IH]; cbn [ss_release_loop]; intros bls bls' H id b' Hf.
  - inversion H; subst. exists b'. cbn. split; [exact Hf | lia].
  - bind_as H b Eb. guard_inv H.
    destruct (IH _ _ H id b' Hf) as [bm [Hfm [Ho Ha]]].
    pose proof (ss_find_blobber_id' _ _ _ Eb) as Hbid.
    rewrite ss_find_set_blobber in Hfm. cbn [bl_id bl_with_sizes bl_with_node] in Hfm. unfold tally. cbn [map ss_sum].
    replace (key_blobber (ba_key d)) with (ba_blobber d) by reflexivity. fold (tally key_size id (map ba_key tl)).
    rewrite Hbid, Eb in Hfm.
    destruct (Z.eqb_spec id (ba_blobber d)) as [E|E].
    + subst id. inversion Hfm; subst bm. exists b. rewrite Z.eqb_refl.
      split; [exact Eb|]. cbn in *. cbn [key_size ba_key]. lia.
    + destruct (Z.eqb_spec (ba_blobber d) id); [congruence|]. exists bm. split; [exact Hfm | lia].
Qed.

Lemma find_keys_eq : forall bls bls', map bl_key bls' = map bl_key bls -> forall id b', ss_find_blobber id bls' = Some b' ->
  exists b, ss_find_blobber id bls = Some b /\ bl_allocd b' = bl_allocd b /\ bl_offers b' = bl_offers b.
Proof.
  induction bls as [|x tl IH]; intros bls' E id b' H; destruct bls' as [|y tl']; try discriminate.
  cbn [map] in E. injection E as E1 E2 E3 E4. cbn [ss_find_blobber] in *. rewrite E1 in H.
  destruct (bl_id x =? id); [inversion H; subst; eauto | eauto].
Qed.

Lemma ss_transfer_lists : forall s f t v s', ss_transfer s f t v = Some s' -> st_allocs s' = st_allocs s /\ st_blobbers s' = st_blobbers s.
Proof. unfold ss_transfer; intros. crush H; inversion H; auto. Qed.

Lemma ss_close_c13 : forall c s now round a s',
  st_c13 s -> ss_find_alloc (al_id a) (st_allocs s) = Some a -> ss_close c s now round a = Some s' -> st_c13 s'.
Proof.
  unfold ss_close; intros c s now round a s' Hs Hfa H.
  remember (ss_settle_all c round a) as r eqn:Er. destruct r as [[a1 rates] gone]. symmetry in Er.
  apply ss_settle_all_key in Er.
  bind_as H cp Ecp. bind_as H [[bas bls1] paid] E1. bind_as H cp1 E2. bind_as H mb E3. bind_as H w E4. guard_inv H. bind_as H due E5.
  bind_as H [bls2 w2] E6. bind_as H bls3 E7. bind_as H s2 E8. inversion H; subst. clear H.
  apply ss_transfer_lists in E8. destruct E8 as [Hak Hbk].
  cbn [st_blobbers st_allocs st_with_chals st_with_blobbers] in Hbk, Hak.
  assert (Hk12 : map bl_key bls2 = map bl_key bls1).
  { destruct due as [cc|].
    - bind_as E6 total Et. bind_as E6 [bls' charged] El. bind_as E6 w' Ew. guard_inv E6. inversion E6; subst. eapply ss_cancel_loop_keys; eauto.
    - inversion E6; subst. reflexivity. }
  (* the blobber allocations handed to the loops: bas has the keys of a1's, i.e. of a's *)
  assert (Hbask : map ba_key (al_bas a1) = map ba_key (al_bas a)) by (unfold al_key in Er; injection Er as _ Hx; exact Hx).
  assert (Hbas' : map ba_key bas = map ba_key (al_bas a1)).
  { clear - E1. revert E1. generalize (al_bas a1) rates (st_blobbers s) bas bls1 paid.
    induction l as [|d tl IH]; cbn [ss_fin_loop]; intros rs bl bs bl1 pd H; [inversion H; reflexivity|].
    destruct rs as [|r rtl]; [discriminate|].
    bind_as H b Eb. bind_as H b0 E0. bind_as H [[[b1 d1] reward] pen] Ep. bind_as H [[ds bl2] sum] E2. bind_as H sum' E3. inversion H; subst.
    apply ss_fin_pay_key in Ep. destruct Ep as [_ Hd]. cbn [map]. rewrite Hd. f_equal. eapply IH; eauto. }
  unfold st_c13, st_bkeys, st_akeys. cbn [st_blobbers st_allocs st_with_allocs]. rewrite Hbk, Hak.
  eapply (c13_update (st_blobbers s) bls3 (st_akeys s) _
            (fun i => - tally key_size i (map ba_key (al_bas a))) (fun i => - tally key_offer i (map ba_key (al_bas a)))).
  - exact Hs.
  - intros id b3 Hf3.
    destruct (ss_release_loop_delta _ _ _ E7 id b3 Hf3) as [b2 [Hf2 [Ho2 Ha2]]].
    destruct (find_keys_eq _ _ Hk12 id b2 Hf2) as [b1 [Hf1 [Ha1 Ho1]]].
    destruct (ss_fin_loop_delta _ _ _ _ _ _ _ _ _ _ E1 id b1 Hf1) as [b0 [Hf0 [Ha0 Ho0]]].
    exists b0. split; [exact Hf0|]. rewrite Hbas' in Ha2. rewrite Hbask in *. lia.
  - intros i. cbn [st_allocs st_with_chals st_with_blobbers]. rewrite (tally_all_del _ _ _ _ Hfa). unfold st_akeys. lia.
  - intros i. cbn [st_allocs st_with_chals st_with_blobbers]. rewrite (tally_all_del _ _ _ _ Hfa). unfold st_akeys. lia.
Qed.

Lemma ss_finalize_c13 : forall c s now round sender alloc s', st_c13 s -> ss_finalize c s now round sender alloc = Some s' -> st_c13 s'.
Proof.
  unfold ss_finalize; intros c s now round sender alloc s' Hs H. bind_as H a Ea. guard_inv H. guard_inv H. guard_inv H.
  eapply ss_close_c13; eauto. eapply ss_find_alloc_self; eauto.
Qed.
Lemma ss_cancel_c13 : forall c s now round sender alloc s', st_c13 s -> ss_cancel c s now round sender alloc = Some s' -> st_c13 s'.
Proof.
  unfold ss_cancel; intros c s now round sender alloc s' Hs H. bind_as H a Ea. guard_inv H. guard_inv H. guard_inv H.
  eapply ss_close_c13; eauto. eapply ss_find_alloc_self; eauto.
Qed.

(* ---------- update allocation ---------- *)

Lemma ss_extend_terms_delta : forall c req diff bas bls bas' bls',
  ss_extend_terms c req diff bas bls = Some (bas', bls') -> (req <= 0 -> diff = 0) ->
  forall id b', ss_find_blobber id bls' = Some b' ->
    exists b, ss_find_blobber id bls = Some b /\
      bl_allocd b' = bl_allocd b + (tally key_size id (map ba_key bas') - tally key_size id (map ba_key bas)) /\
      bl_offers b' = bl_offers b + (tally key_offer id (map ba_key bas') - tally key_offer id (map ba_key bas)).
Proof.
  induction bas as [|d tl IH]; cbn [ss_extend_terms]; intros bls bas' bls' H Hreq id b' Hf.
  - inversion H; subst. exists b'. cbn. split; [exact Hf | lia].
  - bind_as H b Eb. guard_inv H. bind_as H b1 E1. bind_as H b2 E2. bind_as H [ds bl2] E3. inversion H; subst. clear H.
    pose proof (ss_find_blobber_id' _ _ _ Eb) as Hbid.
    set (d' := ba_with_terms d (ba_size d + diff) (Z.min (bl_wp b) (cf_max_wp c)) (Z.min (bl_rp b) (cf_max_rp c))) in *.
    assert (H1 : bl_id b1 = bl_id b /\ bl_allocd b1 = bl_allocd b + diff /\ bl_offers b1 = bl_offers b).
    { destruct (Z.ltb_spec 0 req).
      - guard_inv E1. guard_inv E1. inversion E1; subst. cbn. auto.
      - inversion E1; subst. rewrite (Hreq H). repeat split; lia. }
    destruct H1 as [Hid1 [Hal1 Hof1]].
    assert (H2 : bl_id b2 = bl_id b1 /\ bl_allocd b2 = bl_allocd b1 /\ bl_offers b2 = bl_offers b1 + (ss_offer d' - ss_offer d)).
    { destruct (Z.ltb_spec (ss_offer d) (ss_offer d')).
      - apply ss_add_offer_some in E2. destruct E2 as [A [B C]]. repeat split; auto; lia.
      - destruct (Z.ltb_spec (ss_offer d') (ss_offer d)).
        + apply ss_reduce_offer_some in E2. destruct E2 as [A [B C]]. repeat split; auto; lia.
        + inversion E2; subst. repeat split; lia. }
    destruct H2 as [Hid2 [Hal2 Hof2]].
    destruct (IH _ _ _ E3 Hreq id b' Hf) as [bm [Hfm [Ha Ho]]].
    rewrite ss_find_set_blobber in Hfm. unfold tally. cbn [map ss_sum].
    replace (key_blobber (ba_key d')) with (ba_blobber d) by reflexivity.
    replace (key_blobber (ba_key d)) with (ba_blobber d) by reflexivity.
    fold (tally key_size id (map ba_key ds)). fold (tally key_offer id (map ba_key ds)).
    fold (tally key_size id (map ba_key tl)). fold (tally key_offer id (map ba_key tl)).
    assert (Hb2 : bl_id b2 = ba_blobber d) by congruence. rewrite Hb2, Eb in Hfm.
    rewrite !key_offer_ba.
    destruct (Z.eqb_spec id (ba_blobber d)) as [E|E].
    + subst id. inversion Hfm; subst bm. exists b. rewrite Z.eqb_refl. split; [exact Eb|].
      replace (key_size (ba_key d')) with (ba_size d + diff) by reflexivity. replace (key_size (ba_key d)) with (ba_size d) by reflexivity. lia.
    + destruct (Z.eqb_spec (ba_blobber d) id); [congruence|]. exists bm. split; [exact Hfm | lia].
Qed.

(* the adjustment of the challenge pool changes values only *)
Lemma ss_adjust_loop_keys : forall odrtu ndrtu bas owps w cp mtc mb bas' w' cp' mtc' mb' f,
  ss_adjust_loop odrtu ndrtu bas owps w cp mtc mb = Some (bas', w', cp', mtc', mb', f) -> map ba_key bas' = map ba_key bas.
Proof.
  induction bas as [|d tl IH]; cbn [ss_adjust_loop]; intros owps w cp mtc mb bas' w' cp' mtc' mb' f H.
  - inversion H; reflexivity.
  - destruct owps as [|owp otl]; [discriminate|].
    destruct (ba_used d =? 0).
    { bind_as H [[[[[ds w1] cp1] mtc1] mb1] f1] E. inversion H; subst. cbn. f_equal. eauto. }
    guard_inv H. match type of H with (if ?v =? 0 then _ else _) = _ => destruct (v =? 0) end.
    { bind_as H [[[[[ds w1] cp1] mtc1] mb1] f1] E. inversion H; subst. cbn. f_equal. eauto. }
    destruct (f64_ltb _ f64_zero).
    + bind_as H [w1 cp1] E. bind_as H v' Ev. bind_as H [[[[[ds w2] cp2] mtc2] mb2] f1] E2. inversion H; subst. cbn. f_equal. eauto.
    + bind_as H [w1 cp1] E. bind_as H [[[[[ds w2] cp2] mtc2] mb2] f1] E2. inversion H; subst. cbn. f_equal. eauto.
Qed.

(* extendAllocation keeps the invariant on the pair (blobbers, this allocation's entries) *)
Lemma ss_extend_delta : forall c s now a size s' a' f,
  ss_extend c s now a size = Some (s', a', f) -> (size <= 0 -> ss_bsize size (al_data a) = 0) ->
  al_id a' = al_id a /\ st_allocs s' = st_allocs s /\
  forall id b', ss_find_blobber id (st_blobbers s') = Some b' ->
    exists b, ss_find_blobber id (st_blobbers s) = Some b /\
      bl_allocd b' = bl_allocd b + (tally key_size id (map ba_key (al_bas a')) - tally key_size id (map ba_key (al_bas a))) /\
      bl_offers b' = bl_offers b + (tally key_offer id (map ba_key (al_bas a')) - tally key_offer id (map ba_key (al_bas a))).
Proof.
  unfold ss_extend; intros c s now a size s' a' f H Hsz.
  bind_as H [bas bls] E0.
  pose proof (ss_extend_terms_delta _ _ _ _ _ _ _ E0 Hsz) as Hd.
  cbn [al_used al_with_bas al_with_pools al_with_head] in H.
  destruct (al_used a =? 0).
  - inversion H; subst. cbn. repeat split; auto.
  - bind_as H odrtu E1. bind_as H ndrtu E2. bind_as H cp E3. bind_as H [[[[[bas' w] cp'] mtc] mb] f1] E4. inversion H; subst. clear H.
    apply ss_adjust_loop_keys in E4. cbn. rewrite E4. repeat split; auto.
Qed.

Lemma find_ba_keys_eq : forall l l' b d, map ba_key l' = map ba_key l -> ss_find_ba b l = Some d ->
  exists d', ss_find_ba b l' = Some d' /\ ba_key d' = ba_key d.
Proof.
  induction l as [|x tl IH]; intros l' b d E H; [discriminate|]. destruct l' as [|y tl']; [discriminate|].
  cbn [map] in E. injection E as E1 E2 E3 E4. cbn [ss_find_ba] in *. rewrite E1.
  destruct (ba_blobber x =? b).
  - inversion H; subst. exists y. split; [reflexivity | unfold ba_key; congruence].
  - eapply IH; eauto.
Qed.

Lemma find_ba_set_same_blobber : forall d' l b d, ss_find_ba b l = Some d -> ba_blobber d' = b -> ss_find_ba b (ss_set_ba d' l) = Some d'.
Proof.
  induction l as [|x tl IH]; cbn; intros b d H E; [discriminate|].
  destruct (Z.eqb_spec (ba_blobber x) b) as [E1|E1].
  - rewrite E. destruct (Z.eqb_spec (ba_blobber x) b); [|contradiction]. cbn. rewrite E, Z.eqb_refl. reflexivity.
  - rewrite E. destruct (Z.eqb_spec (ba_blobber x) b); [contradiction|]. cbn. destruct (Z.eqb_spec (ba_blobber x) b); [contradiction|]. eauto.
Qed.

Lemma ss_replace_delta : forall c s now round a removed nb s' a' f b d,
  ss_replace c s now round a removed nb = Some (s', a', f) ->
  ss_find_blobber removed (st_blobbers s) = Some b -> bl_killed b || bl_shut b = false ->
  ss_find_ba removed (al_bas a) = Some d ->
  al_id a' = al_id a /\ st_allocs s' = st_allocs s /\
  (forall id b', ss_find_blobber id (st_blobbers s') = Some b' ->
     exists b0, ss_find_blobber id (st_blobbers s) = Some b0 /\
       bl_allocd b' = bl_allocd b0 - (if removed =? id then ba_size d else 0) /\
       bl_offers b' = bl_offers b0 - (if removed =? id then ss_offer d else 0)) /\
  (forall g id, tally g id (map ba_key (al_bas a')) =
                tally g id (map ba_key (al_bas a)) - (if removed =? id then g (ba_key d) else 0) + (if ba_blobber nb =? id then g (ba_key nb) else 0)).
Proof.
  unfold ss_replace; intros c s now round a removed nb s' a' f b d H Hb Hk Hd.
  rewrite Hd in H. cbn [ss_bind] in H. rewrite Hb in H. cbn [ss_bind] in H. rewrite Hk in H.
  bind_as H [[a1 rate] gone] E1. bind_as H d1 E2. bind_as H b0 E3. bind_as H cp E4. bind_as H [[[b1 d2] reward] pen] E5.
  bind_as H cp1 E6. bind_as H mb E7. bind_as H [w cp2] E8. guard_inv H. bind_as H due E9. bind_as H [b2 w2] E10.
  inversion H; subst. clear H.
  apply ss_remove_rates_key in E1. assert (Hbk : map ba_key (al_bas a1) = map ba_key (al_bas a)) by (unfold al_key in E1; injection E1 as _ Hx; exact Hx).
  assert (Hid1 : al_id a1 = al_id a) by exact (f_equal fst E1).
  destruct (find_ba_keys_eq _ _ _ _ Hbk Hd) as [dx [Hdx Hkx]]. rewrite E2 in Hdx. inversion Hdx; subst dx. clear Hdx.
  apply ss_reduce_offer_some in E3. destruct E3 as [Hid0 [Hal0 Hof0]].
  apply ss_fin_pay_key in E5. destruct E5 as [Hkb1 Hkd2]. unfold bl_key in Hkb1. injection Hkb1 as Hi1 Ha1 Ho1.
  assert (Hkb2 : bl_key b2 = bl_key b1).
  { destruct due as [cc|].
    - bind_as E10 total Et. bind_as E10 bx Ex. bind_as E10 wx Ew. guard_inv E10. inversion E10; subst. eapply ss_distribute_key; eauto.
    - inversion E10; subst. reflexivity. }
  unfold bl_key in Hkb2. injection Hkb2 as Hi2 Ha2 Ho2.
  pose proof (ss_find_blobber_id' _ _ _ Hb) as Hbid.
  assert (Hsz : ba_size d2 = ba_size d) by (unfold ba_key in *; congruence).
  assert (Hofr : ss_offer d1 = ss_offer d) by (rewrite <- !key_offer_ba; congruence).
  assert (Hbd2 : ba_blobber d2 = removed).
  { transitivity (ba_blobber d1); [unfold ba_key in Hkd2; congruence|]. apply ss_find_ba_in in E2. tauto. }
  cbn [al_id al_with_stats al_with_pools]. split; [exact Hid1|]. split; [reflexivity|]. split.
  - intros id b' Hf. cbn [st_blobbers st_with_chals st_with_blobbers] in Hf. rewrite ss_find_set_blobber in Hf.
    cbn [bl_id bl_with_sizes bl_with_node ss_merge_sp bl_with_sp] in Hf. rewrite Hbid, Hb in Hf.
    destruct (Z.eqb_spec id removed) as [E|E].
    + subst id. inversion Hf; subst b'. exists b. rewrite Z.eqb_refl. split; [exact Hb|]. cbn.
      split; [lia|]. destruct (ss_active (cf_demeter c) round); cbn; lia.
    + destruct (Z.eqb_spec removed id); [congruence|]. exists b'. split; [exact Hf | lia].
  - intros g id. cbn [al_bas al_with_stats al_with_pools].
    assert (Hf2 : ss_find_ba removed (ss_set_ba d2 (al_bas a1)) = Some d2) by (eapply find_ba_set_same_blobber; eauto).
    rewrite (tally_replace g id removed nb _ d2 Hf2).
    assert (Hks : map ba_key (ss_set_ba d2 (al_bas a1)) = map ba_key (al_bas a)).
    { rewrite <- Hbk. eapply bakeys_set_same; [rewrite Hbd2; exact E2 | exact Hkd2]. }
    rewrite Hks, Hbd2. replace (ba_key d2) with (ba_key d) by congruence. reflexivity.
Qed.

Lemma ss_change_blobbers_delta : forall c s now round a add remove s' a' f,
  ss_change_blobbers c s now round a add remove = Some (s', a', f) ->
  (forall r b, remove = Some r -> ss_find_blobber r (st_blobbers s) = Some b -> bl_killed b || bl_shut b = false) ->
  al_id a' = al_id a /\ st_allocs s' = st_allocs s /\
  forall id b', ss_find_blobber id (st_blobbers s') = Some b' ->
    exists b0, ss_find_blobber id (st_blobbers s) = Some b0 /\
      bl_allocd b' = bl_allocd b0 + (tally key_size id (map ba_key (al_bas a')) - tally key_size id (map ba_key (al_bas a))) /\
      bl_offers b' = bl_offers b0 + (tally key_offer id (map ba_key (al_bas a')) - tally key_offer id (map ba_key (al_bas a))).
Proof.
  unfold ss_change_blobbers; intros c s now round a add remove s' a' f H Hnk.
  guard_inv H. bind_as H ab Eab. guard_inv H.
  set (bsz := ss_bsize (al_size a) (al_data a)) in *.
  set (ab1 := bl_with_sizes ab (bl_allocd ab + bsz) (bl_saved ab)) in *.
  set (nb := ss_new_ba c ab1 bsz now) in *.
  bind_as H [[s1 a1] f1] E1. bind_as H ab2 E2. injection H as Hs' Ha' Hf'. subst s' a' f.
  apply ss_add_offer_some in E2. cbn [bl_id bl_allocd bl_offers bl_with_sizes bl_with_node ab1] in E2. destruct E2 as [Hid2 [Hal2 Hof2]].
  pose proof (ss_find_blobber_id' _ _ _ Eab) as Habid.
  assert (Hnbb : ba_blobber nb = add) by (subst nb ab1; cbn; exact Habid).
  assert (Hnbs : key_size (ba_key nb) = bsz) by reflexivity.
  assert (Hnbo : key_offer (ba_key nb) = ss_offer nb) by reflexivity.
  destruct remove as [r|].
  - (* replace *)
    destruct (ss_find_ba r (al_bas a)) as [d|] eqn:Ed.
    2:{ unfold ss_replace in E1. rewrite Ed in E1. discriminate. }
    destruct (ss_find_blobber r (st_blobbers s)) as [br|] eqn:Ebr.
    2:{ unfold ss_replace in E1. rewrite Ed in E1. cbn in E1. rewrite Ebr in E1. discriminate. }
    pose proof (Hnk r br eq_refl Ebr) as Hk.
    destruct (ss_replace_delta _ _ _ _ _ _ _ _ _ _ _ _ E1 Ebr Hk Ed) as [Hida [Hal [Hbl Hta]]].
    assert (Hne : add <> r).
    { intros ->. rewrite Ed in G. discriminate. }
    split; [exact Hida|]. split; [exact Hal|].
    intros id b' Hf. cbn [st_blobbers st_with_blobbers] in Hf. rewrite ss_find_set_blobber in Hf. rewrite Hid2, Habid in Hf.
    pose proof (Hta key_size id) as Ts. pose proof (Hta key_offer id) as To. rewrite Hnbb in Ts, To.
    change (key_size (ba_key nb)) with bsz in Ts. change (key_offer (ba_key nb)) with (ss_offer nb) in To.
    change (key_size (ba_key d)) with (ba_size d) in Ts. change (key_offer (ba_key d)) with (ss_offer d) in To.
    destruct (Z.eqb_spec id add) as [E|E].
    + subst id. destruct (ss_find_blobber add (st_blobbers s1)) as [bx|] eqn:Ex; [|discriminate]. inversion Hf; subst b'.
      destruct (Hbl _ _ Ex) as [b0 [Hf0 _]]. rewrite Eab in Hf0. inversion Hf0; subst b0.
      exists ab. split; [exact Eab|]. destruct (Z.eqb_spec r add); [congruence|]. rewrite Z.eqb_refl in Ts, To. lia.
    + destruct (Hbl _ _ Hf) as [b0 [Hf0 [Ha0 Ho0]]]. exists b0. split; [exact Hf0|].
      destruct (Z.eqb_spec add id); [congruence|]. lia.
  - (* add only *)
    injection E1 as Hs1 Ha1 Hf1. subst s1 a1 f1. cbn [al_id al_with_bas al_with_pools al_with_head al_bas]. split; [reflexivity|]. split; [reflexivity|].
    intros id b' Hf. cbn [st_blobbers st_with_blobbers] in Hf. rewrite ss_find_set_blobber in Hf. rewrite Hid2, Habid, Eab in Hf.
    assert (T1 : forall g, tally g id (map ba_key [nb]) = if add =? id then g (ba_key nb) else 0).
    { intros g. unfold tally. cbn [map ss_sum]. replace (key_blobber (ba_key nb)) with add by (symmetry; exact Hnbb).
      destruct (add =? id); lia. }
    rewrite map_app, !tally_app, !T1.
    change (key_size (ba_key nb)) with bsz. change (key_offer (ba_key nb)) with (ss_offer nb).
    destruct (Z.eqb_spec id add) as [E|E].
    + subst id. inversion Hf; subst b'. exists ab. rewrite Z.eqb_refl. split; [exact Eab | lia].
    + destruct (Z.eqb_spec add id); [congruence|]. exists b'. split; [exact Hf | lia].
Qed.

Lemma ss_settle_ocs_data : forall c round sel ocs a a' keep gone, ss_settle_ocs c round sel ocs a = (a', keep, gone) -> al_data a' = al_data a.
Proof.
  induction ocs as [|oc tl IH]; cbn [ss_settle_ocs]; intros a a' keep gone H.
  - inversion H; reflexivity.
  - destruct (if sel oc then ss_find_ba (oc_blobber oc) (al_bas a) else None) as [d|].
    + remember (ss_settle_ocs c round sel tl _) as r eqn:Er. destruct r as [[a2 k2] g2]. symmetry in Er.
      inversion H; subst. rewrite (IH _ _ _ _ Er). reflexivity.
    + remember (ss_settle_ocs c round sel tl a) as r eqn:Er. destruct r as [[a2 k2] g2]. symmetry in Er. inversion H; subst. eauto.
Qed.

Lemma ss_replace_data : forall c s now round a r nb s' a' f, ss_replace c s now round a r nb = Some (s', a', f) -> al_data a' = al_data a.
Proof.
  unfold ss_replace; intros c s now round a r nb s' a' f H. bind_as H d Ed. bind_as H b Eb. destruct (bl_killed b || bl_shut b).
  - bind_as H cp E1. bind_as H [w cp'] E2. bind_as H mb E3. inversion H; reflexivity.
  - bind_as H [[a1 rate] gone] E1. bind_as H d1 E2. bind_as H b0 E3. bind_as H cp E4. bind_as H [[[b1 d2] rew] pen] E5.
    bind_as H cp1 E6. bind_as H mb E7. bind_as H [w cp2] E8. guard_inv H. bind_as H due E9. bind_as H [b2 w2] E10. inversion H; subst. cbn.
    unfold ss_remove_rates in E1. destruct (negb (al_chnode a)); [inversion E1; reflexivity|].
    remember (ss_settle_ocs c round _ (al_ocs a) a) as rr eqn:Er. destruct rr as [[ax kx] gx]. symmetry in Er.
    bind_as E1 dd Edd. inversion E1; subst. cbn. eapply ss_settle_ocs_data; eauto.
Qed.

Lemma ss_change_blobbers_data : forall c s now round a add rem s' a' f,
  ss_change_blobbers c s now round a add rem = Some (s', a', f) -> al_data a' = al_data a.
Proof.
  unfold ss_change_blobbers; intros c s now round a add rem s' a' f H.
  guard_inv H. bind_as H ab E1. guard_inv H. bind_as H [[s1 a1] f1] E2. bind_as H ab2 E3. inversion H; subst.
  destruct rem; [eapply ss_replace_data; eauto | inversion E2; reflexivity].
Qed.

(* the known gap: replaceBlobber's killed branch drops the blobber allocation without releasing
   the killed blobber's Allocated and offer *)
Definition ss_fired13 (s : ss_state) (o : ss_op) : bool :=
  match o with
  | OpUpdate _ _ _ _ _ _ _ (Some r) _ =>
      match ss_find_blobber r (st_blobbers s) with Some b => bl_killed b || bl_shut b | None => false end
  | _ => false
  end.

(* side condition on the float computation of bSize: no size change means no per-blobber change *)
Definition ss_op_wf13 (s : ss_state) (o : ss_op) : Prop :=
  match o with
  | OpUpdate _ alloc _ size _ _ _ _ _ =>
      size = 0 -> match ss_find_alloc alloc (st_allocs s) with Some a => ss_bsize 0 (al_data a) = 0 | None => True end
  | _ => True
  end.

Lemma ss_update_f_c13 : forall c s now round sender alloc value size ext tpe add rem own s' f,
  st_c13 s -> ss_update_f c s now round sender alloc value size ext tpe add rem own = Some (s', f) ->
  ss_fired13 s (OpUpdate sender alloc value size ext tpe add rem own) = false ->
  ss_op_wf13 s (OpUpdate sender alloc value size ext tpe add rem own) -> st_c13 s'.
Proof.
  unfold ss_update_f; intros c s now round sender alloc value size ext tpe add rem own s' f Hs H Hfire Hwf.
  bind_as H a Ea. guard_inv H. guard_inv H. guard_inv H. guard_inv H. guard_inv H. guard_inv H. guard_inv H.
  bind_as H [s1 a1] E1. bind_as H bl Ebl. bind_as H [[s2 a2] fired] E2. bind_as H cp Ecp. bind_as H need En. guard_inv H.
  injection H as Hs' Hf'. subst s' f.
  cbn [ss_op_wf13] in Hwf. rewrite Ea in Hwf. apply Z.leb_le in G1.
  assert (Hsz : size <= 0 -> ss_bsize size (al_data a) = 0) by (intros Hle; assert (size = 0) by lia; subst size; auto).
  (* the lock keeps blobbers, allocation ids and entries *)
  assert (H1 : st_blobbers s1 = st_blobbers s /\ st_allocs s1 = st_allocs s /\ al_key a1 = al_key a /\ al_data a1 = al_data a).
  { destruct (ss_active (cf_demeter c) round && (0 <? value)).
    - bind_as E1 sx Elk. bind_as E1 wx Ew. guard_inv E1. injection E1 as Hx Hy. subst s1 a1.
      unfold ss_lock_from in Elk. destruct (ss_bal s sender <? value); [discriminate|]. apply ss_transfer_lists in Elk. destruct Elk. auto.
    - injection E1 as Hx Hy. subst s1 a1. auto. }
  destruct H1 as [Hbl1 [Hal1 [Hk1 Hd1]]].
  assert (Hbk1 : map ba_key (al_bas a1) = map ba_key (al_bas a)) by (unfold al_key in Hk1; injection Hk1 as _ Hx; exact Hx).
  assert (Hid1 : al_id a1 = al_id a) by exact (f_equal fst Hk1).
  (* the part that changes blobbers and entries *)
  assert (H2 : al_id a2 = al_id a /\ st_allocs s2 = st_allocs s /\
               forall id b', ss_find_blobber id (st_blobbers s2) = Some b' ->
                 exists b0, ss_find_blobber id (st_blobbers s) = Some b0 /\
                   bl_allocd b' = bl_allocd b0 + (tally key_size id (map ba_key (al_bas a2)) - tally key_size id (map ba_key (al_bas a))) /\
                   bl_offers b' = bl_offers b0 + (tally key_offer id (map ba_key (al_bas a2)) - tally key_offer id (map ba_key (al_bas a)))).
  { destruct (negb (sender =? al_owner a1)).
    - destruct (ss_extend_delta _ _ _ _ _ _ _ _ E2) as [Hi [Ha Hb]]; [rewrite Hd1; exact Hsz|].
      split; [congruence|]. split; [congruence|]. intros id b' Hf. destruct (Hb _ _ Hf) as [b0 [Hf0 [X Y]]].
      exists b0. rewrite Hbl1 in Hf0. rewrite Hbk1 in X, Y. auto.
    - bind_as E2 [[sa aa] f1] Ech. bind_as E2 [[sb ab] f2] Eex.
      assert (Hc : al_id aa = al_id a /\ st_allocs sa = st_allocs s /\ al_data aa = al_data a /\
                   forall id b', ss_find_blobber id (st_blobbers sa) = Some b' ->
                     exists b0, ss_find_blobber id (st_blobbers s) = Some b0 /\
                       bl_allocd b' = bl_allocd b0 + (tally key_size id (map ba_key (al_bas aa)) - tally key_size id (map ba_key (al_bas a))) /\
                       bl_offers b' = bl_offers b0 + (tally key_offer id (map ba_key (al_bas aa)) - tally key_offer id (map ba_key (al_bas a)))).
      { destruct add as [x0|].
        - destruct (ss_change_blobbers_delta _ _ _ _ _ _ _ _ _ _ Ech) as [Hi [Ha Hb]].
          + intros r b Hr Hfb. subst rem. cbn [ss_fired13] in Hfire. rewrite Hbl1 in Hfb. rewrite Hfb in Hfire. exact Hfire.
          + split; [congruence|]. split; [congruence|]. split.
            * rewrite (ss_change_blobbers_data _ _ _ _ _ _ _ _ _ _ Ech). exact Hd1.
            * intros id b' Hf. destruct (Hb _ _ Hf) as [b0 [Hf0 [X Y]]]. exists b0. rewrite Hbl1 in Hf0. rewrite Hbk1 in X, Y. auto.
        - injection Ech as Hx Hy Hz. subst sa aa f1. split; [congruence|]. split; [congruence|]. split; [congruence|].
          intros id b' Hf. exists b'. rewrite Hbl1 in Hf. rewrite Hbk1. split; [exact Hf | lia]. }
      destruct Hc as [Hia [Hala [Hda Hba]]].
      assert (He : al_id ab = al_id a /\ st_allocs sb = st_allocs s /\
                   forall id b', ss_find_blobber id (st_blobbers sb) = Some b' ->
                     exists b0, ss_find_blobber id (st_blobbers s) = Some b0 /\
                       bl_allocd b' = bl_allocd b0 + (tally key_size id (map ba_key (al_bas ab)) - tally key_size id (map ba_key (al_bas a))) /\
                       bl_offers b' = bl_offers b0 + (tally key_offer id (map ba_key (al_bas ab)) - tally key_offer id (map ba_key (al_bas a)))).
      { destruct (ext || (0 <? size)).
        - destruct (ss_extend_delta _ _ _ _ _ _ _ _ Eex) as [Hi [Ha Hb]]; [rewrite Hda; exact Hsz|].
          split; [congruence|]. split; [congruence|]. intros id b' Hf. destruct (Hb _ _ Hf) as [bm [Hfm [X Y]]].
          destruct (Hba _ _ Hfm) as [b0 [Hf0 [X0 Y0]]]. exists b0. split; [exact Hf0 | lia].
        - injection Eex as Hx Hy Hz. subst sb ab f2. auto. }
      destruct He as [Hib [Halb Hbb]].
      destruct own as [[o wp]|].
      + destruct (o =? _).
        * injection E2 as Hx Hy Hz. subst s2 a2 fired. cbn [al_id al_bas al_with_head]. auto.
        * guard_inv E2. injection E2 as Hx Hy Hz. subst s2 a2 fired. cbn [al_id al_bas al_with_head]. auto.
      + injection E2 as Hx Hy Hz. subst s2 a2 fired. cbn [al_id al_bas al_with_head]. auto. }
  destruct H2 as [Hid2 [Hal2 Hb2]].
  unfold st_c13, st_bkeys, st_akeys. cbn [st_blobbers st_allocs st_with_allocs]. rewrite Hal2.
  assert (Hfa : ss_find_alloc (al_id a2) (st_allocs s) = Some a).
  { rewrite Hid2. eapply ss_find_alloc_self; eauto. }
  eapply (c13_update (st_blobbers s) (st_blobbers s2) (st_akeys s) _
            (fun i => tally key_size i (map ba_key (al_bas a2)) - tally key_size i (map ba_key (al_bas a)))
            (fun i => tally key_offer i (map ba_key (al_bas a2)) - tally key_offer i (map ba_key (al_bas a)))).
  - exact Hs.
  - exact Hb2.
  - intros i. rewrite (tally_all_set _ _ _ _ _ Hfa). unfold st_akeys. lia.
  - intros i. rewrite (tally_all_set _ _ _ _ _ Hfa). unfold st_akeys. lia.
Qed.

(* ---------- every operation ---------- *)

Lemma ss_free_alloc_c13 : forall c s now id sender ass rec coin nonce sig bl s',
  st_c13 s -> ss_free_alloc c s now id sender ass rec coin nonce sig bl = Some s' -> st_c13 s'.
Proof.
  unfold ss_free_alloc; intros c s now id sender ass rec coin nonce sig bl s' Hs H.
  guard_inv H. bind_as H a Ea. bind_as H free Ef. guard_inv H. bind_as H nt Ent. guard_inv H. bind_as H rtok Er. bind_as H wtok Ew.
  bind_as H s1 E1. bind_as H v Ev. inversion H; subst. clear H.
  apply ss_new_alloc_c13 in E1; [|exact Hs]. exact E1.
Qed.

Theorem ss_apply_c13 : forall c s now round o s',
  st_c13 s -> ss_op_wf13 s o -> ss_apply c s now round o = Some s' -> ss_fired13 s o = false -> st_c13 s'.
Proof.
  intros c s now round o s' Hs Hwf H Hf. destruct o; cbn [ss_apply] in H; try discriminate.
  - eapply ss_new_alloc_c13; eauto.
  - eapply st_c13_keys_eq; [eapply ss_wp_lock_keys; eauto | exact Hs].
  - eapply st_c13_keys_eq; [eapply ss_commit_keys; eauto | exact Hs].
  - destruct sel as [[[x y] z]|]; [eapply st_c13_keys_eq; [eapply ss_gen_chal_keys; eauto | exact Hs] | inversion H; subst; exact Hs].
  - eapply st_c13_keys_eq; [eapply ss_chal_resp_keys; eauto | exact Hs].
  - unfold ss_update in H. destruct (ss_update_f c s now round sender alloc value size extend set_tpe add remove new_owner) as [[s2 f]|] eqn:E; [|discriminate].
    cbn in H. inversion H; subst. eapply ss_update_f_c13; eauto.
  - eapply ss_finalize_c13; eauto.
  - eapply ss_cancel_c13; eauto.
  - eapply st_c13_keys_eq; [eapply ss_rp_lock_keys; eauto | exact Hs].
  - eapply st_c13_keys_eq; [eapply ss_rp_unlock_keys; eauto | exact Hs].
  - eapply st_c13_keys_eq; [eapply ss_read_keys; eauto | exact Hs].
  - eapply st_c13_keys_eq; [eapply ss_kill_keys; eauto | exact Hs].
  - eapply st_c13_keys_eq; [eapply ss_shutdown_keys; eauto | exact Hs].
  - eapply st_c13_keys_eq; [eapply ss_upd_blobber_keys; eauto | exact Hs].
  - eapply st_c13_keys_eq; [eapply ss_add_assigner_keys; eauto | exact Hs].
  - eapply ss_free_alloc_c13; eauto.
Qed.

Fixpoint ss_run_ok13 (c : ss_conf) (s : ss_state) (ts : list (Z * Z * ss_op)) : Prop :=
  match ts with
  | [] => True
  | (now, round, o) :: tl => ss_fired13 s o = false /\ ss_op_wf13 s o /\ ss_run_ok13 c (fst (ss_step c s (now, round, o))) tl
  end.

Theorem ss_run_c13 : forall c ts s, st_c13 s -> ss_run_ok13 c s ts -> st_c13 (fst (ss_run c s ts)).
Proof.
  induction ts as [|[[now round] o] tl IH]; cbn [ss_run ss_run_ok13]; intros s Hs Hok; [exact Hs|].
  destruct Hok as [Hf [Hwf Hok]]. unfold ss_step in *. destruct (ss_apply c s now round o) as [s1|] eqn:E.
  - cbn in Hok. specialize (IH s1). destruct (ss_run c s1 tl) as [s2 oks] eqn:Er. cbn.
    assert (Hs1 : st_c13 s1) by (eapply ss_apply_c13; eauto). exact (IH Hs1 Hok).
  - cbn in Hok. specialize (IH s Hs Hok). destruct (ss_run c s tl) as [s2 oks]. exact IH.
Qed.

Lemma st_c13_no_allocs : forall s, st_allocs s = [] -> (forall b, In b (st_blobbers s) -> bl_allocd b = 0 /\ bl_offers b = 0) -> st_c13 s.
Proof.
  unfold st_c13, c13_keys, st_akeys, st_bkeys. intros s Ha Hb id al off H. rewrite Ha. cbn.
  rewrite bkey_find_blobber in H. destruct (ss_find_blobber id (st_blobbers s)) as [b|] eqn:E; [|discriminate]. inversion H; subst.
  apply Hb. clear - E. revert E. generalize (st_blobbers s). induction l as [|x tl IH]; cbn; [discriminate|].
  destruct (bl_id x =? id); [intros H; inversion H; subst; left; reflexivity | intros H; right; auto].
Qed.

(* ---------- capacity at assignment; offers can always be released ---------- *)

(* a blobber accepted by isActive has room for the blobber allocation (int64 ranges) *)
Lemma ss_is_active_capacity : forall b rr wr bs,
  ss_is_active b rr wr bs = true -> - 2 ^ 63 <= bl_cap b - bl_allocd b < 2 ^ 63 -> bl_allocd b + bs <= bl_cap b.
Proof.
  unfold ss_is_active; intros b rr wr bs H Hr.
  repeat (apply andb_true_iff in H; destruct H as [H ?]).
  match goal with Hx : negb (ss_i64 (bl_cap b - bl_allocd b) <? bs) = true |- _ => apply negb_true_iff in Hx; apply Z.ltb_ge in Hx; rename Hx into Hc end.
  unfold ss_i64 in Hc. rewrite Z.mod_small in Hc by lia. lia.
Qed.

(* under the invariant the offer of any blobber allocation of an open allocation can be released *)
Lemma tally_nonneg : forall g id ks, (forall k, 0 <= g k) -> 0 <= tally g id ks.
Proof. unfold tally. induction ks as [|k tl IH]; cbn; intros Hg; [lia|]. specialize (IH Hg). specialize (Hg k). destruct (key_blobber k =? id); lia. Qed.

Lemma tally_ge_member : forall g id ks k, (forall k, 0 <= g k) -> In k ks -> key_blobber k = id -> g k <= tally g id ks.
Proof.
  unfold tally. induction ks as [|x tl IH]; cbn; intros k Hg Hin Hk; [contradiction|].
  pose proof (tally_nonneg g id tl Hg) as Hn. unfold tally in Hn.
  destruct Hin as [->|Hin].
  - rewrite Hk, Z.eqb_refl. lia.
  - specialize (IH k Hg Hin Hk). specialize (Hg x). destruct (key_blobber x =? id); lia.
Qed.

Lemma key_offer_nonneg : forall k, 0 <= key_offer k.
Proof. intros [[b sz] wp]. cbn. apply f64_to_u64_range. Qed.

Theorem ss_offer_releasable : forall s a d b,
  st_c13 s -> In a (st_allocs s) -> In d (al_bas a) -> ss_find_blobber (ba_blobber d) (st_blobbers s) = Some b ->
  exists b', ss_reduce_offer b (ss_offer d) = Some b'.
Proof.
  intros s a d b Hs Ha Hd Hb. unfold ss_reduce_offer, ss_minus_coin.
  specialize (Hs (ba_blobber d) (bl_allocd b) (bl_offers b)). unfold st_bkeys in Hs. rewrite bkey_find_blobber, Hb in Hs.
  destruct (Hs eq_refl) as [_ Ho].
  assert (Hle : ss_offer d <= bl_offers b).
  { rewrite Ho. unfold tally_all, st_akeys. clear - Ha Hd.
    induction (st_allocs s) as [|x tl IH]; [contradiction|]. cbn [map ss_sum].
    assert (Hn : 0 <= ss_sum (map (fun ak => tally key_offer (ba_blobber d) (snd ak)) (map al_key tl))).
    { clear. induction tl as [|y tl IH]; cbn [map ss_sum]; [lia|]. pose proof (tally_nonneg key_offer (ba_blobber d) (snd (al_key y)) key_offer_nonneg). lia. }
    pose proof (tally_nonneg key_offer (ba_blobber d) (snd (al_key x)) key_offer_nonneg) as Hx.
    destruct Ha as [->|Ha].
    - assert (key_offer (ba_key d) <= tally key_offer (ba_blobber d) (snd (al_key a))).
      { apply tally_ge_member; [exact key_offer_nonneg | cbn; apply in_map; exact Hd | reflexivity]. }
      rewrite key_offer_ba in H. lia.
    - specialize (IH Ha). lia. }
  destruct (Z.ltb_spec (bl_offers b) (ss_offer d)); [lia|]. cbn. eauto.
Qed.

(* executable form for witnesses *)
Definition st_c13b (s : ss_state) : bool :=
  forallb (fun b => (bl_allocd b =? tally_all key_size (bl_id b) (st_akeys s)) && (bl_offers b =? tally_all key_offer (bl_id b) (st_akeys s)))
          (st_blobbers s).

Lemma st_c13b_false : forall s, NoDup (map bl_id (st_blobbers s)) -> st_c13b s = false -> ~ st_c13 s.
Proof.
  intros s Hnd H Hc. assert (st_c13b s = true); [|congruence].
  unfold st_c13b. apply forallb_forall. intros b Hb.
  assert (Hf : ss_find_blobber (bl_id b) (st_blobbers s) = Some b).
  { clear - Hnd Hb. induction (st_blobbers s) as [|x tl IH]; [contradiction|]. cbn in *. inversion Hnd; subst.
    destruct Hb as [->|Hb]; [rewrite Z.eqb_refl; reflexivity|].
    destruct (Z.eqb_spec (bl_id x) (bl_id b)) as [E|E]; [exfalso; apply H1; rewrite E; apply in_map; exact Hb | auto]. }
  specialize (Hc (bl_id b) (bl_allocd b) (bl_offers b)). unfold st_bkeys in Hc. rewrite bkey_find_blobber, Hf in Hc.
  destruct (Hc eq_refl) as [H1 H2]. rewrite <- H1, <- H2, !Z.eqb_refl. reflexivity.
Qed.

Lemma st_c13b_true : forall s, st_c13b s = true -> st_c13 s.
Proof.
  unfold st_c13b, st_c13, c13_keys, st_bkeys. intros s H id al off Hf. rewrite bkey_find_blobber in Hf.
  destruct (ss_find_blobber id (st_blobbers s)) as [b|] eqn:E; [|discriminate]. inversion Hf; subst.
  rewrite forallb_forall in H.
  assert (Hin : In b (st_blobbers s) /\ bl_id b = id).
  { clear - E. revert E. generalize (st_blobbers s). induction l as [|x tl IH]; cbn; [discriminate|].
    destruct (Z.eqb_spec (bl_id x) id); [intros H; inversion H; subst; auto | intros H; destruct (IH H); auto]. }
  destruct Hin as [Hin Hid]. specialize (H _ Hin). apply andb_true_iff in H. destruct H as [H1 H2].
  apply Z.eqb_eq in H1, H2. rewrite Hid in *. auto.
Qed.
