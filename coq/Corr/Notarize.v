(* Correspondence for C31: a case is one round on a real miner chain: ticket messages handled by
   handleVerificationTicketMessage, then a received block with attached tickets handled by
   processVerifyBlock, and VerifyNotarization called on ticket lists.  Tickets are abstracted to
   (verifier number, error term) by the engine, which knows every key. *)
From Coq Require Import List ZArith Bool Arith.
From ZC Require Import Base.Corr Model.Notarize.
Import ListNotations.
Open Scope Z_scope.

Record ntc_case := {
  ntc_n : nat; ntc_thr : nat;                           (* miners, GetNotarizationThresholdCount *)
  ntc_arrivals : list nt_ticket;                        (* ticket messages, in order *)
  ntc_store : list nat;                                 (* verifiers in Round.GetVerificationTickets(hash) after them *)
  ntc_own : list nt_ticket;                             (* tickets attached to the received block *)
  ntc_notarized : bool;                                 (* IsBlockNotarized after processVerifyBlock *)
  ntc_merged : list nat;                                (* verifiers of the block's tickets afterwards, in order *)
  ntc_lists : list (list nt_ticket * bool);             (* VerifyNotarization(list) = nil *)
  ntc_nots : list ((list nt_ticket * list nt_ticket) * (bool * list nat))
     (* Notarization messages, each for a fresh copy of the block: (tickets the block holds, tickets of
        the message) -> (treated as notarized, verifiers of the block's tickets afterwards, in order) *)
}.

Definition ntc_p : Z := 16798108731015832284940804142231733909759579603404752749028378864165570215949.

Fixpoint ntc_subset (a b : list nat) : bool :=
  match a with [] => true | x :: tl => existsb (Nat.eqb x) b && ntc_subset tl b end.

Definition ntc_check (k : ntc_case) : bool :=
  let c := {| nt_n := ntc_n k; nt_by_count := true; nt_thr := ntc_thr k; nt_p := ntc_p |} in
  let store := fold_left (nt_store_add c) (ntc_arrivals k) [] in
  ntc_subset (nt_vids store) (ntc_store k) && ntc_subset (ntc_store k) (nt_vids store)
  && Nat.eqb (length store) (length (ntc_store k))
  && Bool.eqb (nt_process_verify_block c (ntc_own k) store) (ntc_notarized k)
  && (let m := nt_vids (nt_merge (ntc_own k) store) in
      (* the block's own tickets keep their order, the stored ones follow in map order *)
      list_eqb Nat.eqb (firstn (length (ntc_own k)) m) (firstn (length (ntc_own k)) (ntc_merged k))
      && ntc_subset m (ntc_merged k) && ntc_subset (ntc_merged k) m
      && Nat.eqb (length m) (length (ntc_merged k)))
  && forallb (fun v => Bool.eqb (nt_verify_notarization c (fst v)) (snd v)) (ntc_lists k)
  && forallb (fun v => let '((own, inc), (ok, after)) := v in
                       Bool.eqb (nt_notarization_process c own inc) ok
                       && list_eqb Nat.eqb (nt_vids (nt_notarization_merged c own inc)) after)
             (ntc_nots k).
