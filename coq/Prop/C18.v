(* C18: Bridge mints need a quorum of authorizers and each nonce mints once.
   Only statements; each is closed by [exact] of a lemma in Proof/ZcnMint.v.

   What the real BLS library answers for every signature entry (valid / well-formed but not
   verifying / undecodable) is an input of the model; verifySignatures stops the mint at the first
   unique entry (in id order) that has an empty id, an unknown authorizer, a Verify error or a
   signature that does not verify. (Before commit d31413f of /repo a (false, nil) answer ended the
   verification as passed; the oracle signature C18:invalid-signature-accepted stands for that
   defect and must not fire any more.) *)
From ZC Require Import Model.ZcnMint Proof.ZcnMint.
Open Scope Z_scope.

(* Quorum: a mint implies threshold-many DISTINCT, registered authorizers, each with a valid signature
   in the payload (threshold = RoundToEven(percent_authorizers * number of authorizers), the
   contract's reading of "the configured fraction"). Duplicate, foreign, forged or empty entries
   never add to the count: every distinct id listed must be a registered authorizer whose last
   entry verifies. *)
Theorem C18_mint_needs_quorum :
  forall st client p pick st' tr paid cred,
    zm_mint st client p pick = (st', ZmMinted tr paid cred) ->
    exists ids, NoDup ids /\ zm_threshold (zm_pbits st) (zm_count st) <= Z.of_nat (length ids) /\
      forall id, In id ids -> id <> 0 /\ In id (zm_reg st) /\
        exists s, In s (zp_sigs p) /\ zs_id s = id /\ zs_res s = ZsValid.
Proof. exact zm_quorum. Qed.
Print Assumptions C18_mint_needs_quorum.

(* The submitter is the receiving client; the receiver gets exactly amount - share from the contract
   wallet (share = max_fee / number of counted entries <= amount); the share is credited to the
   stake pool of exactly one of the listed signers, a registered authorizer (or to nobody when it is 0 or that
   pool's stake is below min_stake: DistributeRewards pays nothing then); no other pool, and no
   registration, changes. Duplicate, foreign or empty ids never add to the count: the threshold is
   compared with the number of distinct ids, every one of which must be registered. *)
Theorem C18_receiver_amount_and_fee :
  forall st client p pick st' tr paid cred,
    zm_mint st client p pick = (st', ZmMinted tr paid cred) ->
    let share := zm_max_fee st / Z.of_nat (length (zm_counted st p)) in
    zp_receiver p = client /\
    tr = [(zm_wallet, client, zp_amount p - share)] /\ share <= zp_amount p /\
    zm_min_mint st <= zp_amount p /\
    In paid (map zs_id (zm_counted st p)) /\ In paid (zm_reg st) /\
    (cred = share \/ cred = 0) /\
    exists pool, zm_pool_get paid (zm_pools st) = Some pool /\
      (cred = 0 <-> share = 0 \/ zl_stake pool < zm_min_stake st) /\
      zm_pool_get paid (zm_pools st') = Some {| zl_stake := zl_stake pool; zl_credited := zl_credited pool + cred |} /\
      (forall id, id <> paid -> zm_pool_get id (zm_pools st') = zm_pool_get id (zm_pools st)) /\
      zm_reg st' = zm_reg st /\ zm_count st' = zm_count st.
Proof. exact zm_mint_effect. Qed.
Print Assumptions C18_receiver_amount_and_fee.

(* Each mint nonce succeeds at most once, over any history of registrations, deletions and mints *)
Theorem C18_nonce_mints_once :
  forall pbits min_mint max_fee min_stake ops,
    NoDup (zm_success_nonces ops (snd (zm_run (zm_init pbits min_mint max_fee min_stake) ops))).
Proof. exact zm_nonce_once. Qed.
Print Assumptions C18_nonce_mints_once.

(* a refused request changes nothing *)
Theorem C18_refused_changes_nothing :
  forall st o st1, zm_step st o = (st1, ZmFail) -> st1 = st.
Proof. exact zm_fail_noop. Qed.
Print Assumptions C18_refused_changes_nothing.

(* the payload that minted before the repair (a well-formed signature that does not verify) is refused *)
Example C18_former_witness : snd (zm_mint zm_wit_state 100 zm_wit_payload 1) = ZmFail.
Proof. exact zm_wit_refused. Qed.

(* Non-vacuity: three authorizers at 70 % (threshold 2); two signers mint, a signer and its own
   duplicate do not, the same nonce does not mint again, a foreign signer spoils the payload, a
   deleted authorizer cannot sign any more, and with two authorizers left only the first two entries of
   a longer list are looked at *)
Example C18_example :
  let s v := {| zs_id := v; zs_res := ZsValid |} in
  snd (zm_run (zm_init zm_p07 10 6 0)
    [ZmRegister true 1; ZmRegister true 2; ZmRegister false 3; ZmRegister true 3;
     ZmMint 100 (Some {| zp_receiver := 100; zp_amount := 100; zp_nonce := 1; zp_sigs := [s 1; s 2] |}) 2;
     ZmMint 100 (Some {| zp_receiver := 100; zp_amount := 100; zp_nonce := 2; zp_sigs := [s 1; s 1] |}) 1;
     ZmMint 100 (Some {| zp_receiver := 100; zp_amount := 100; zp_nonce := 1; zp_sigs := [s 1; s 2] |}) 1;
     ZmMint 101 (Some {| zp_receiver := 100; zp_amount := 100; zp_nonce := 3; zp_sigs := [s 1; s 2] |}) 1;
     ZmMint 100 (Some {| zp_receiver := 100; zp_amount := 100; zp_nonce := 3; zp_sigs := [s 1; s 2; s 7] |}) 1;
     ZmDelete true 2;
     ZmMint 100 (Some {| zp_receiver := 100; zp_amount := 100; zp_nonce := 3; zp_sigs := [s 1; s 2] |}) 1;
     ZmMint 100 (Some {| zp_receiver := 100; zp_amount := 100; zp_nonce := 3; zp_sigs := [s 3; s 1; {| zs_id := 3; zs_res := ZsError |}] |}) 1])
  = [ZmOk; ZmOk; ZmFail; ZmOk; ZmMinted [(zm_wallet, 100, 97)] 2 3; ZmFail; ZmFail; ZmFail; ZmFail; ZmOk; ZmFail; ZmMinted [(zm_wallet, 100, 97)] 1 3].
Proof. vm_compute. reflexivity. Qed.
