(* Idealised-algebra model of the client signature schemes and of aggregate verification
   (properties C47, C32).
   - core/encryption/bls0chain.go            Sign / Verify  (herumi BLS, BN254)
   - core/encryption/ed25519.go              Sign / Verify
   - core/encryption/bls0chain_aggregate.go  Aggregate / Verify
   Scalars are an abstract commutative ring F without zero divisors (the prime field Z_r of the group
   order). G1 is idealised as coordinate vectors nat -> F over "independent points": index m is the
   hash point H(m) of message m (distinct messages = independent points; other indices are points
   an adversary picks). A public key x.g2 is represented by its discrete logarithm x; the pairing
   equation e(sigma, g2) = e(H(m), pk) becomes equality of coordinate vectors sigma = x.H(m), and a
   product of pairings becomes a sum of vectors. All comparisons are over the first [n] coordinates.
   Definitions only; proofs are in Proof/SigAlg.v. *)
From Coq Require Export List ZArith Bool Arith Lia Ring_theory.
Export ListNotations.

Section SigAlg.
  Variable F : Type.
  Variables (f0 f1 : F) (fadd fmul fsub : F -> F -> F) (fopp : F -> F).
  Variable feqb : F -> F -> bool.

  Definition sg_G := nat -> F.

  Definition sg_zero : sg_G := fun _ => f0.
  Definition sg_unit (m : nat) : sg_G := fun i => if Nat.eqb i m then f1 else f0.
  Definition sg_scale (x : F) (P : sg_G) : sg_G := fun i => fmul x (P i).
  Definition sg_add (P Q : sg_G) : sg_G := fun i => fadd (P i) (Q i).
  Definition sg_sub (P Q : sg_G) : sg_G := fun i => fsub (P i) (Q i).

  (* equality over the first n coordinates *)
  Definition sg_eq (n : nat) (P Q : sg_G) : Prop := forall i, (i < n)%nat -> P i = Q i.
  Definition sg_eqb (n : nat) (P Q : sg_G) : bool := forallb (fun i => feqb (P i) (Q i)) (seq 0 n).

  (* ---------- BLS (bls0chain.go) ---------- *)
  (* secret key x; public key x.g2 (represented by x); hash-to-curve H(m) = unit m *)
  Definition bls_sign (x : F) (m : nat) : sg_G := sg_scale x (sg_unit m).
  (* sign.Verify(pub, msg): e(sigma, g2) = e(H(m), pub) *)
  Definition bls_pair (x : F) (m : nat) : sg_G := sg_scale x (sg_unit m).
  Definition bls_verify (n : nat) (x : F) (m : nat) (s : sg_G) : bool := sg_eqb n s (bls_pair x m).

  (* ---------- ed25519 as Schnorr over the same scalars ---------- *)
  (* the cyclic group <B> is represented by scalars: P = p.B is p. Key A = a.B; signature (R, S)
     with R = r.B, S = r + h(R, A, M).a; verification S.B = R + h(R, A, M).A *)
  Variable hc : F -> F -> nat -> F.      (* SHA-512(R || A || M) reduced mod the group order *)
  Definition ed_sign (a r : F) (m : nat) : F * F := (r, fadd r (fmul (hc r a m) a)).
  Definition ed_verify (a : F) (m : nat) (sg : F * F) : bool :=
    feqb (snd sg) (fadd (fst sg) (fmul (hc (fst sg) a m) a)).

  (* ---------- aggregate verification (bls0chain_aggregate.go) ---------- *)
  Record ag_item := { ai_key : F; ai_msg : nat; ai_sig : sg_G }.

  (* one accumulator pair per batch: (ASigs[batch], AGt[batch]); nil = None *)
  Definition ag_acc : Type := (sg_G * sg_G)%type.

  Fixpoint ag_update (st : list (option ag_acc)) (k : nat) (it : ag_item) : list (option ag_acc) :=
    match st, k with
    | [], _ => []                               (* index out of range: not reached by the callers *)
    | slot :: tl, O =>
        (match slot with
         | None => Some (ai_sig it, bls_pair (ai_key it) (ai_msg it))
         | Some (s, g) => Some (sg_add s (ai_sig it), sg_add g (bls_pair (ai_key it) (ai_msg it)))
         end) :: tl
    | slot :: tl, S k' => slot :: ag_update tl k' it
    end.

  (* Aggregate(ss, idx, signature, hash): batch := idx / BatchSize *)
  Definition ag_aggregate (bs : nat) (st : list (option ag_acc)) (idx : nat) (it : ag_item) :=
    ag_update st (Nat.div idx bs) it.

  (* NewBLS0ChainAggregateSignature(total, batchSize): ceil(total / batchSize) empty slots *)
  Definition ag_nbatches (total bs : nat) : nat :=
    let q := Nat.div total bs in if Nat.ltb (q * bs) total then S q else q.

  Definition ag_new (total bs : nat) : list (option ag_acc) := repeat None (ag_nbatches total bs).

  (* the callers aggregate item i under idx = i (VerifyTickets; ValidateTransactions: start + i) *)
  Fixpoint ag_feed (bs : nat) (st : list (option ag_acc)) (idx : nat) (items : list ag_item) :=
    match items with
    | [] => st
    | it :: tl => ag_feed bs (ag_aggregate bs st idx it) (S idx) tl
    end.

  Inductive ag_verdict := AgAccept | AgReject | AgPanic.

  (* Verify(): multiply/add all batches, then one pairing comparison. A nil slot (or no slot at all,
     or batchSize 0) makes the Go code panic. *)
  Fixpoint ag_total (st : list (option ag_acc)) : option ag_acc :=
    match st with
    | [] => Some (sg_zero, sg_zero)
    | None :: _ => None
    | Some (s, g) :: tl =>
        match ag_total tl with
        | Some (s', g') => Some (sg_add s s', sg_add g g')
        | None => None
        end
    end.

  Definition ag_verify (n : nat) (st : list (option ag_acc)) : ag_verdict :=
    match st with
    | [] => AgPanic
    | _ => match ag_total st with
           | None => AgPanic
           | Some (s, g) => if sg_eqb n s g then AgAccept else AgReject
           end
    end.

  Definition ag_run (n bs : nat) (items : list ag_item) : ag_verdict :=
    match bs with
    | O => AgPanic                            (* total / batchSize: integer divide by zero *)
    | _ => ag_verify n (ag_feed bs (ag_new (length items) bs) 0 items)
    end.

  (* what Verify() returns in Go: None = panic, Some (ok, err <> nil). The comparison failing yields
     (false, error); both callers (chain.VerifyTickets, miner ValidateTransactions) look at err ONLY. *)
  Definition ag_go_result (v : ag_verdict) : option (bool * bool) :=
    match v with
    | AgAccept => Some (true, false)
    | AgReject => Some (false, true)
    | AgPanic => None
    end.

  Definition ag_caller_accepts (r : option (bool * bool)) : bool :=
    match r with Some (_, false) => true | _ => false end.

  (* a node performs many verifications one after another, with the same signature-scheme objects;
     in the model a verification has no state: each call is judged on its own inputs only *)
  Definition ag_history (n : nat) (calls : list (nat * list ag_item)) : list ag_verdict :=
    map (fun c => ag_run n (fst c) (snd c)) calls.

  Definition ag_item_valid (n : nat) (it : ag_item) : bool :=
    bls_verify n (ai_key it) (ai_msg it) (ai_sig it).

  (* sums used by the theorems *)
  Fixpoint ag_sigsum (items : list ag_item) : sg_G :=
    match items with [] => sg_zero | it :: tl => sg_add (ai_sig it) (ag_sigsum tl) end.
  Fixpoint ag_pairsum (items : list ag_item) : sg_G :=
    match items with [] => sg_zero | it :: tl => sg_add (bls_pair (ai_key it) (ai_msg it)) (ag_pairsum tl) end.
End SigAlg.

(* what the theorems assume of the scalars: a commutative ring without zero divisors, 1 <> 0, and a
   boolean equality (the prime field Z_r of the group order is one) *)
Definition sg_scalars (F : Type) (f0 f1 : F) (fadd fmul fsub : F -> F -> F) (fopp : F -> F)
           (feqb : F -> F -> bool) : Prop :=
  Ring_theory.ring_theory f0 f1 fadd fmul fsub fopp (@eq F) /\
  (forall a b, fmul a b = f0 -> a = f0 \/ b = f0) /\ f1 <> f0 /\
  (forall a b, feqb a b = true <-> a = b).

(* ---------- symbolic descriptions shared with the Go engine ---------- *)
(* a scalar is an integer combination of base secret keys: sum c * (k_j or 1);
   a point of G1 is a combination of hash points: sum scalar * H(idx) *)
Definition sx_scalar := list (Z * option nat).
Definition sx_point := list (sx_scalar * nat).

Section Eval.
  Variable q : Z.                       (* group order *)
  Variable key : nat -> Z.              (* stand-ins for the base secret keys *)

  Definition zq_add (a b : Z) : Z := ((a + b) mod q)%Z.
  Definition zq_mul (a b : Z) : Z := ((a * b) mod q)%Z.
  Definition zq_sub (a b : Z) : Z := ((a - b) mod q)%Z.
  Definition zq_opp (a : Z) : Z := ((- a) mod q)%Z.

  Fixpoint sx_eval_scalar (s : sx_scalar) : Z :=
    match s with
    | [] => 0%Z
    | (c, o) :: tl => zq_add (zq_mul (c mod q)%Z (match o with Some j => key j | None => 1%Z end))
                             (sx_eval_scalar tl)
    end.

  Fixpoint sx_eval_point (p : sx_point) : sg_G Z :=
    match p with
    | [] => sg_zero Z 0%Z
    | (s, i) :: tl => sg_add Z zq_add (sg_scale Z zq_mul (sx_eval_scalar s) (sg_unit Z 0%Z 1%Z i))
                             (sx_eval_point tl)
    end.
End Eval.

(* BN254 (CurveFp254BNb) group order r, and fixed stand-ins for independent random secret keys *)
Definition sx_r : Z := 16798108731015832284940804142231733909759579603404752749028378864165570215949%Z.
Definition sx_key (j : nat) : Z :=
  ((Z.of_nat j + 2) * 1000003 + 7919 * (Z.of_nat j + 1) * (Z.of_nat j + 1) + 17)%Z.

(* client id (chaincore/client/entity.go): hash of the decoded public key bytes *)
Definition cl_id (Hash : list Z -> list Z) (pk_bytes : list Z) : list Z := Hash pk_bytes.
