(* Model of Chain.updateState (chaincore/chain/state.go), the StateContext transfer queue
   (chaincore/chain/state/state_context.go), transferAmount(WithAssert), validateNonce,
   incrementNonce and the fee logic.  Engine E-chain, properties C01-C05.
   Definitions only; proofs are in Proof/ChainState*.v.

   Conventions: account ids, node keys, transaction hashes, event tags and output texts are
   integer tokens.  Coin = uint64 and Nonce = int64 are Z with explicit wrap at every unchecked
   Go operation and [option] at every checked one (currency.AddCoin / MinusCoin).
   The smart contract call is an arbitrary oracle result [cs_sc_result]. *)
From Coq Require Export List ZArith Bool Lia.
Export ListNotations.
Open Scope Z_scope.

(* ---------- integers ---------- *)
Definition cs_two64 : Z := 18446744073709551616.
Definition cs_two63 : Z := 9223372036854775808.
Definition cs_max_supply : Z := 4000000000000000000.  (* config.MaxTokenSupply = 4e18 *)

Definition cs_wrap_u64 (z : Z) : Z := z mod cs_two64.
Definition cs_wrap_i64 (z : Z) : Z := (z + cs_two63) mod cs_two64 - cs_two63.

(* currency.AddCoin / MinusCoin: error on overflow / underflow *)
Definition cs_add_coin (a b : Z) : option Z := if a + b <? cs_two64 then Some (a + b) else None.
Definition cs_minus_coin (a b : Z) : option Z := if b <=? a then Some (a - b) else None.

(* ---------- finite maps: association lists kept sorted by key ---------- *)
Section CsMap.
  Context {A : Type}.
  Fixpoint cs_get (k : Z) (l : list (Z * A)) : option A :=
    match l with
    | [] => None
    | (k', v) :: tl => if k =? k' then Some v else if k <? k' then None else cs_get k tl
    end.
  Fixpoint cs_put (k : Z) (v : A) (l : list (Z * A)) : list (Z * A) :=
    match l with
    | [] => [(k, v)]
    | (k', v') :: tl =>
        if k =? k' then (k, v) :: tl
        else if k <? k' then (k, v) :: (k', v') :: tl
        else (k', v') :: cs_put k v tl
    end.
  Fixpoint cs_del (k : Z) (l : list (Z * A)) : list (Z * A) :=
    match l with
    | [] => []
    | (k', v') :: tl =>
        if k =? k' then tl else if k <? k' then l else (k', v') :: cs_del k tl
    end.
End CsMap.

(* ---------- state ---------- *)
(* state.State: Balance, Nonce, TxnHash, Round *)
Record cs_acct := { ac_bal : Z; ac_nonce : Z; ac_txn : Z; ac_round : Z }.

(* the block / transaction MPT: client leaves and contract nodes *)
Record cs_state := { st_accts : list (Z * cs_acct); st_nodes : list (Z * Z) }.

(* stamp applied by StateContext.SetStateContext: (txn hash, block round) *)
Definition cs_stamp : Type := (Z * Z)%type.

(* StateContext.GetClientState: an absent leaf reads as a zero state carrying the current stamp *)
Definition cs_acct_of (sp : cs_stamp) (m : list (Z * cs_acct)) (id : Z) : cs_acct :=
  match cs_get id m with
  | Some a => a
  | None => {| ac_bal := 0; ac_nonce := 0; ac_txn := fst sp; ac_round := snd sp |}
  end.

Definition cs_bal (m : list (Z * cs_acct)) (id : Z) : Z :=
  match cs_get id m with Some a => ac_bal a | None => 0 end.
Definition cs_nonce (m : list (Z * cs_acct)) (id : Z) : Z :=
  match cs_get id m with Some a => ac_nonce a | None => 0 end.

Definition cs_total (m : list (Z * cs_acct)) : Z :=
  fold_right (fun p acc => ac_bal (snd p) + acc) 0 m.

(* ---------- transfers ---------- *)
Record cs_transfer := { tr_from : Z; tr_to : Z; tr_amt : Z }.

Inductive cs_err :=
| ErrRoot | ErrSupply | ErrNonce | ErrValidate | ErrInternal | ErrNoSender | ErrSendFunds
| ErrBadTo | ErrType | ErrSumOverflow | ErrSelf | ErrFunds | ErrMinus | ErrToOverflow.

Inductive cs_res (A : Type) := ROk (a : A) | RErr (e : cs_err) | RPanic.
Arguments ROk {A} a.
Arguments RErr {A} e.
Arguments RPanic {A}.

(* Chain.transferAmount *)
Definition cs_transfer_amount (sp : cs_stamp) (m : list (Z * cs_acct)) (t : cs_transfer)
  : cs_res (list (Z * cs_acct)) :=
  if tr_amt t =? 0 then ROk m
  else if tr_from t =? tr_to t then RErr ErrSelf
  else
    let fs := cs_acct_of sp m (tr_from t) in
    if ac_bal fs <? tr_amt t then RErr ErrFunds
    else
      let ts := cs_acct_of sp m (tr_to t) in
      match cs_minus_coin (ac_bal fs) (tr_amt t) with
      | None => RErr ErrMinus
      | Some fb =>
          let m1 := cs_put (tr_from t)
                      {| ac_bal := fb; ac_nonce := ac_nonce fs; ac_txn := fst sp; ac_round := snd sp |} m in
          match cs_add_coin (ac_bal ts) (tr_amt t) with
          | None => RErr ErrToOverflow
          | Some tb =>
              ROk (cs_put (tr_to t)
                     {| ac_bal := tb; ac_nonce := ac_nonce ts; ac_txn := fst sp; ac_round := snd sp |} m1)
          end
      end.

(* sumOfFromToBalance *)
Definition cs_sum_from_to (m : list (Z * cs_acct)) (t : cs_transfer) : option Z :=
  cs_add_coin (cs_bal m (tr_from t)) (cs_bal m (tr_to t)).

(* Chain.transferAmountWithAssert: the sum of the two balances is compared before / after and
   the process panics when it differs *)
Definition cs_transfer_assert (sp : cs_stamp) (m : list (Z * cs_acct)) (t : cs_transfer)
  : cs_res (list (Z * cs_acct)) :=
  match cs_sum_from_to m t with
  | None => RErr ErrSumOverflow
  | Some o =>
      match cs_transfer_amount sp m t with
      | ROk m' =>
          match cs_sum_from_to m' t with
          | None => RErr ErrSumOverflow
          | Some a => if o =? a then ROk m' else RPanic
          end
      | RErr e => RErr e
      | RPanic => RPanic
      end
  end.

(* the `ue` map of updateState: user id -> (balance, nonce) restated by the last transfer that
   touched the account *)
Definition cs_umap : Type := list (Z * (Z * Z)).
Definition cs_user_of (m : list (Z * cs_acct)) (sp : cs_stamp) (id : Z) : Z * Z :=
  let a := cs_acct_of sp m id in (ac_bal a, ac_nonce a).

(* the two loops over sctx.GetTransfers() / GetSignedTransfers() *)
Fixpoint cs_apply_transfers (sp : cs_stamp) (l : list cs_transfer)
         (m : list (Z * cs_acct)) (ue : cs_umap) : cs_res (list (Z * cs_acct) * cs_umap) :=
  match l with
  | [] => ROk (m, ue)
  | t :: tl =>
      match cs_transfer_assert sp m t with
      | ROk m' =>
          let ue' := if tr_amt t =? 0 then ue
                     else cs_put (tr_to t) (cs_user_of m' sp (tr_to t))
                            (cs_put (tr_from t) (cs_user_of m' sp (tr_from t)) ue) in
          cs_apply_transfers sp tl m' ue'
      | RErr e => RErr e
      | RPanic => RPanic
      end
  end.

(* ---------- transactions ---------- *)
Inductive cs_ttype := TSend | TData | TSC | TOther.

Record cs_txn := {
  tx_hash : Z; tx_type : cs_ttype; tx_from : Z; tx_to : Z;
  tx_value : Z; tx_fee : Z; tx_nonce : Z }.

(* chain configuration read by updateState *)
Record cs_cfg := {
  cfg_fee : bool;      (* ChainConfig.IsFeeEnabled *)
  cfg_events : bool;   (* GetEventDb() != nil: user / unique-address events are emitted *)
  cfg_miner : Z;       (* minersc.ADDRESS, the fee sink *)
  cfg_strict_ids : bool }.
  (* behaviour of the un-modelled encryption.IsHash on a 64-digit hex string that is not in
     lower case, recorded from the real run: false = accepted (hex.DecodeString accepts both
     cases; the code as it is), true = refused *)

(* encryption.IsHash on a client id: the negative tokens stand for malformed ids, tokens from
   [cs_upper_base] on for upper-case spellings *)
Definition cs_is_hash (cfg : cs_cfg) (id : Z) : bool :=
  (0 <=? id) && (negb (cfg_strict_ids cfg) || (id <? 100)).

(* the loop over sctx.GetSignedTransfers(): a recipient id IsHash refuses fails the transaction
   (same rule as StateContext.AddTransfer applies to queued transfers) *)
Fixpoint cs_apply_signed (cfg : cs_cfg) (sp : cs_stamp) (l : list cs_transfer)
         (m : list (Z * cs_acct)) (ue : cs_umap) : cs_res (list (Z * cs_acct) * cs_umap) :=
  match l with
  | [] => ROk (m, ue)
  | t :: tl =>
      if negb (cs_is_hash cfg (tr_to t)) then RErr ErrBadTo
      else
        match cs_transfer_assert sp m t with
        | ROk m' =>
            let ue' := if tr_amt t =? 0 then ue
                       else cs_put (tr_to t) (cs_user_of m' sp (tr_to t))
                              (cs_put (tr_from t) (cs_user_of m' sp (tr_from t)) ue) in
            cs_apply_signed cfg sp tl m' ue'
        | RErr e => RErr e
        | RPanic => RPanic
        end
  end.

(* what the called contract did: an arbitrary oracle result *)
Inductive cs_sc_result :=
| SCOk (writes : list (Z * option Z)) (transfers signed : list cs_transfer)
       (events : list Z) (out : Z)
| SCChargeable (msg : Z)
| SCInternal.

Inductive cs_event :=
| EvScript (tag : Z) | EvError (msg : Z) | EvUnique | EvUser (id bal nonce : Z).

Inductive cs_outcome :=
| Applied (st : cs_state) (status : Z) (out : option Z) (evs : list cs_event)
| Rejected (e : cs_err)
| Panicked.

Definition cs_apply_writes (ws : list (Z * option Z)) (ns : list (Z * Z)) : list (Z * Z) :=
  fold_left (fun acc w => match snd w with
                          | Some v => cs_put (fst w) v acc
                          | None => cs_del (fst w) acc
                          end) ws ns.

(* validateNonce: nonce+1 != txnNonce, int64 arithmetic *)
Definition cs_nonce_ok (m : list (Z * cs_acct)) (tx : cs_txn) : bool :=
  cs_wrap_i64 (cs_nonce m (tx_from tx) + 1) =? tx_nonce tx.

(* StateContext.Validate as called by updateState: before the contract runs, so no transfer and
   no signed transfer is queued; what remains is the checked addition value + fee *)
Definition cs_validate_ok (cfg : cs_cfg) (tx : cs_txn) : bool :=
  if cfg_fee cfg then
    match cs_add_coin (tx_value tx) (tx_fee tx) with Some _ => true | None => false end
  else true.

(* incrementNonce *)
Definition cs_increment_nonce (sp : cs_stamp) (m : list (Z * cs_acct)) (id : Z)
  : list (Z * cs_acct) * bool * (Z * Z) :=
  let s := cs_acct_of sp m id in
  let n' := cs_wrap_i64 (ac_nonce s + 1) in
  (cs_put id {| ac_bal := ac_bal s; ac_nonce := n'; ac_txn := fst sp; ac_round := snd sp |} m,
   ac_nonce s =? 0, (ac_bal s, n')).

(* second half of updateState, after the transaction type switch: fee transfer, the transfer
   loops, nonce, user events, merge *)
Definition cs_finish (cfg : cs_cfg) (sp : cs_stamp) (tx : cs_txn)
           (m : list (Z * cs_acct)) (nodes : list (Z * Z))
           (trs signed : list cs_transfer) (evs : list cs_event) (status : Z) (out : option Z)
  : cs_outcome :=
  if cfg_fee cfg && negb (cs_is_hash cfg (cfg_miner cfg)) then Rejected ErrBadTo
  else
    let fee := if cfg_fee cfg
               then [{| tr_from := tx_from tx; tr_to := cfg_miner cfg; tr_amt := tx_fee tx |}]
               else [] in
    match cs_apply_transfers sp (trs ++ fee) m [] with
    | RErr e => Rejected e
    | RPanic => Panicked
    | ROk (m1, ue1) =>
        match cs_apply_signed cfg sp signed m1 ue1 with
        | RErr e => Rejected e
        | RPanic => Panicked
        | ROk (m2, ue2) =>
            let '(m3, first, u) := cs_increment_nonce sp m2 (tx_from tx) in
            let ue3 := cs_put (tx_from tx) u ue2 in
            let evs' :=
              if cfg_events cfg
              then evs ++ (if first then [EvUnique] else [])
                       ++ map (fun p => EvUser (fst p) (fst (snd p)) (snd (snd p))) ue3
              else evs in
            Applied {| st_accts := m3; st_nodes := nodes |} status out evs'
        end
    end.

(* Chain.updateState as seen through the transaction's StateContext (whose clientStates cache
   answers every read of a leaf written earlier in the same transaction) *)
Definition cs_update_ideal (cfg : cs_cfg) (st : cs_state) (round : Z) (tx : cs_txn)
           (r : cs_sc_result) : cs_outcome :=
  let sp := (tx_hash tx, round) in
  let m := st_accts st in
  match st_accts st, st_nodes st with
  | [], [] => Rejected ErrRoot                        (* empty trie: root node not found *)
  | _, _ =>
      if cs_max_supply <? tx_value tx then Rejected ErrSupply
      else if negb (cs_nonce_ok m tx) then Rejected ErrNonce
      else if negb (cs_validate_ok cfg tx) then Rejected ErrValidate
      else
        match tx_type tx with
        | TSC =>
            match r with
            | SCInternal => Rejected ErrInternal
            | SCChargeable msg =>
                (* fresh txn MPT and context; EmitError replaces the event list *)
                cs_finish cfg sp tx m (st_nodes st) [] [] [EvError msg] 2 (Some msg)
            | SCOk ws trs signed evs out =>
                cs_finish cfg sp tx m (cs_apply_writes ws (st_nodes st)) trs signed
                          (map EvScript evs) 1 (Some out)
            end
        | TData => cs_finish cfg sp tx m (st_nodes st) [] [] [] 1 None
        | TSend =>
            match cs_get (tx_from tx) m with
            | None => Rejected ErrNoSender         (* GetClientBalance: value not present *)
            | Some a =>
                if ac_bal a <? cs_wrap_u64 (tx_fee tx + tx_value tx) then Rejected ErrSendFunds
                else if negb (cs_is_hash cfg (tx_to tx)) then Rejected ErrBadTo
                else cs_finish cfg sp tx m (st_nodes st)
                       [{| tr_from := tx_from tx; tr_to := tx_to tx; tr_amt := tx_value tx |}]
                       [] [] 1 None
            end
        | TOther => Rejected ErrType
        end
  end.

(* ---------- what reaches the trie ---------- *)
(* Client ids are hex strings.  Token [cs_upper_base + i] stands for the upper-case spelling of
   the id with token [i]: another string, hence another account, and one that encryption.IsHash
   accepts as well.  The trie (github.com/0chain/common core/util) indexes the children of a
   full node by hex digit VALUE ('c' and 'C' share a slot) but compares leaf and extension paths
   bytewise.  Inserting a path that is a case variant of an existing leaf's path therefore builds
   a branch whose two children land in one slot: the new leaf is overwritten by the old one and
   the write is lost, while the StateContext cache keeps answering with the written value until
   the transaction ends.  [cs_commit] is that loss.  (Modelled for a destination that is the
   other-case spelling of a leaf existing before the transaction; the behaviour for other
   mixed-case ids depends on the shape of the trie and is outside this model.) *)
Definition cs_upper_base : Z := 100.
Definition cs_twin (id : Z) : Z :=
  if cs_upper_base <=? id then id - cs_upper_base else id + cs_upper_base.

Definition cs_lost (pre : list (Z * cs_acct)) (k : Z) : bool :=
  match cs_get k pre, cs_get (cs_twin k) pre with
  | None, Some _ => true
  | _, _ => false
  end.

Definition cs_commit (pre post : list (Z * cs_acct)) : list (Z * cs_acct) :=
  filter (fun p => negb (cs_lost pre (fst p))) post.

(* Chain.updateState: the block trie after MergeMPTChanges *)
Definition cs_update_state (cfg : cs_cfg) (st : cs_state) (round : Z) (tx : cs_txn)
           (r : cs_sc_result) : cs_outcome :=
  match cs_update_ideal cfg st round tx r with
  | Applied st' status out evs =>
      Applied {| st_accts := cs_commit (st_accts st) (st_accts st'); st_nodes := st_nodes st' |}
              status out evs
  | o => o
  end.

(* ---------- histories ---------- *)
Definition cs_post (st : cs_state) (o : cs_outcome) : cs_state :=
  match o with Applied st' _ _ _ => st' | _ => st end.

Definition cs_is_applied (o : cs_outcome) : bool :=
  match o with Applied _ _ _ _ => true | _ => false end.

(* one history item: block round, transaction, what its contract call did *)
Definition cs_item : Type := (Z * cs_txn * cs_sc_result)%type.

Definition cs_step (cfg : cs_cfg) (st : cs_state) (it : cs_item) : cs_state :=
  let '(round, tx, r) := it in cs_post st (cs_update_state cfg st round tx r).

Definition cs_run (cfg : cs_cfg) (st : cs_state) (h : list cs_item) : cs_state :=
  fold_left (cs_step cfg) h st.

(* the outcomes along a history *)
Fixpoint cs_outcomes (cfg : cs_cfg) (st : cs_state) (h : list cs_item) : list cs_outcome :=
  match h with
  | [] => []
  | (round, tx, r) :: tl =>
      let o := cs_update_state cfg st round tx r in
      o :: cs_outcomes cfg (cs_post st o) tl
  end.

(* nonces of the applied transactions of sender [s], in order of application *)
Fixpoint cs_applied_nonces (cfg : cs_cfg) (st : cs_state) (h : list cs_item) (s : Z) : list Z :=
  match h with
  | [] => []
  | (round, tx, r) :: tl =>
      let o := cs_update_state cfg st round tx r in
      let rest := cs_applied_nonces cfg (cs_post st o) tl s in
      if cs_is_applied o && (tx_from tx =? s) then tx_nonce tx :: rest else rest
  end.

(* ---------- genesis: Chain.mustInitGBState ---------- *)
(* one entry of InitStates.States: contract id, its tokens, and the client allocations paid
   out of them.  Every leaf starts with nonce 1 and the all-zero stamp.  None = the code panics. *)
Definition cs_init_group : Type := (Z * Z * list (Z * Z))%type.

Definition cs_gen_acct (tokens : Z) : cs_acct :=
  {| ac_bal := tokens; ac_nonce := 1; ac_txn := -1; ac_round := 0 |}.

Fixpoint cs_gen_clients (cl : list (Z * Z)) (m : list (Z * cs_acct)) (transferred : Z)
  : option (list (Z * cs_acct) * Z) :=
  match cl with
  | [] => Some (m, transferred)
  | (id, tok) :: tl =>
      match cs_add_coin transferred tok with
      | None => None
      | Some t' => cs_gen_clients tl (cs_put id (cs_gen_acct tok) m) t'
      end
  end.

Fixpoint cs_gen_groups (gs : list cs_init_group) (m : list (Z * cs_acct)) (total : Z)
  : option (list (Z * cs_acct) * Z) :=
  match gs with
  | [] => Some (m, total)
  | (id, tok, cl) :: tl =>
      match cs_add_coin total tok with
      | None => None
      | Some total' =>
          match cs_gen_clients cl m 0 with
          | None => None
          | Some (m1, transferred) =>
              match cs_minus_coin tok transferred with
              | None => None
              | Some rest => cs_gen_groups tl (cs_put id (cs_gen_acct rest) m1) total'
              end
          end
      end
  end.

Definition cs_genesis (gs : list cs_init_group) : option (list (Z * cs_acct)) :=
  match cs_gen_groups gs [] 0 with
  | Some (m, total) => if total =? cs_max_supply then Some m else None
  | None => None
  end.

(* ids written by genesis, in write order *)
Definition cs_gen_ids (gs : list cs_init_group) : list Z :=
  flat_map (fun g => map fst (snd g) ++ [fst (fst g)]) gs.

(* ---------- miner.validateTransaction: classification used by block generation ---------- *)
Inductive cs_class := ClsCurrent | ClsFuture | ClsPast.

(* txn.Nonce - state.Nonce in int64 arithmetic; an absent leaf compares the nonce with 1 *)
Definition cs_classify (state_nonce : option Z) (txn_nonce : Z) : cs_class :=
  match state_nonce with
  | None => if 1 <? txn_nonce then ClsFuture else if txn_nonce <? 1 then ClsPast else ClsCurrent
  | Some n =>
      let d := cs_wrap_i64 (txn_nonce - n) in
      if 1 <? d then ClsFuture else if d <? 1 then ClsPast else ClsCurrent
  end.
