(* Model of smartcontract/faucetsc (sc.go, models.go validate) for property C17.
   Definitions only; proofs are in Proof/Faucet.v.
   Coins are uint64 (Z with [option] at currency.AddCoin); durations are int64 nanoseconds;
   times are Unix seconds (transaction CreationDate), time.Time.Sub saturates like Go. *)
From Coq Require Export List ZArith Bool Lia.
Export ListNotations.
Open Scope Z_scope.

Definition fc_two64 : Z := 18446744073709551616.
Definition fc_max_i64 : Z := 9223372036854775807.
Definition fc_min_i64 : Z := -9223372036854775808.
Definition fc_second : Z := 1000000000.
(* Unix seconds of the zero time.Time (GlobalNode.StartTime before the first saved request) *)
Definition fc_zero_time : Z := -62135596800.

(* currency.AddCoin: error on uint64 overflow *)
Definition fc_add_coin (a b : Z) : option Z :=
  if a + b <? fc_two64 then Some (a + b) else None.

(* common.ToTime(now).Sub(start): the exact difference when it fits a Duration, else saturated *)
Definition fc_sub (now start : Z) : Z :=
  let d := (now - start) * fc_second in
  if d <? fc_min_i64 then fc_min_i64 else if fc_max_i64 <? d then fc_max_i64 else d.

Record fc_cfg := { fc_pour : Z; fc_max : Z; fc_plimit : Z; fc_glimit : Z;
                   fc_ireset : Z; fc_greset : Z }.

Record fc_user := { fu_start : Z; fu_used : Z }.

Record fc_state := { fs_cfg : fc_cfg; fs_gstart : Z; fs_gused : Z; fs_users : list (Z * fc_user) }.

Definition fc_init (cfg : fc_cfg) : fc_state :=
  {| fs_cfg := cfg; fs_gstart := fc_zero_time; fs_gused := 0; fs_users := [] |}.

Fixpoint fc_find (c : Z) (l : list (Z * fc_user)) : option fc_user :=
  match l with
  | [] => None
  | (k, u) :: tl => if k =? c then Some u else fc_find c tl
  end.

Fixpoint fc_set (c : Z) (u : fc_user) (l : list (Z * fc_user)) : list (Z * fc_user) :=
  match l with
  | [] => [(c, u)]
  | (k, x) :: tl => if k =? c then (k, u) :: tl else (k, x) :: fc_set c u tl
  end.

(* GlobalNode.validate *)
Definition fc_validate (g : fc_cfg) : bool :=
  negb (fc_pour g <? 1) && negb (fc_max g <? fc_pour g) && negb (fc_plimit g <? fc_max g) &&
  negb (fc_glimit g <? fc_plimit g) && negb (fc_ireset g <? fc_second) &&
  negb (fc_greset g <? fc_ireset g).

(* getGlobalVariables: the window is restarted in memory; saved only if the request succeeds *)
Definition fc_globals (st : fc_state) (now : Z) : fc_state :=
  if fc_greset (fs_cfg st) <=? fc_sub now (fs_gstart st)
  then {| fs_cfg := fs_cfg st; fs_gstart := now; fs_gused := 0; fs_users := fs_users st |}
  else st.

(* getUserVariables *)
Definition fc_user_vars (g : fc_cfg) (users : list (Z * fc_user)) (c now : Z) : fc_user :=
  let u := match fc_find c users with
           | Some u => u
           | None => {| fu_start := now; fu_used := 0 |}
           end in
  if (fc_ireset g <=? fc_sub now (fu_start u)) || (fc_greset g <=? fc_sub now (fu_start u))
  then {| fu_start := now; fu_used := 0 |} else u.

(* pour: the requested value is poured when 0 < Value < MaxPourAmount *)
Definition fc_amount (g : fc_cfg) (v : Z) : Z :=
  if (0 <? v) && (v <? fc_max g) then v else fc_pour g.

(* validPourRequest: every comparison uses the amount that will be poured *)
Definition fc_valid (g : fc_cfg) (u : fc_user) (gused : Z) (bal : option Z) (a : Z) : bool :=
  match bal with
  | None => false
  | Some b =>
      if b <? a then false else
      match fc_add_coin a (fu_used u) with
      | None => false
      | Some t =>
          if fc_plimit g <? t then false else
          match fc_add_coin a gused with
          | None => false
          | Some gt => negb (fc_glimit g <? gt)
          end
      end
  end.


Inductive fc_field := FPour | FMax | FPLimit | FGLimit | FIReset | FGReset.

Definition fc_set_field (g : fc_cfg) (fv : fc_field * Z) : fc_cfg :=
  let v := snd fv in
  match fst fv with
  | FPour => {| fc_pour := v; fc_max := fc_max g; fc_plimit := fc_plimit g; fc_glimit := fc_glimit g; fc_ireset := fc_ireset g; fc_greset := fc_greset g |}
  | FMax => {| fc_pour := fc_pour g; fc_max := v; fc_plimit := fc_plimit g; fc_glimit := fc_glimit g; fc_ireset := fc_ireset g; fc_greset := fc_greset g |}
  | FPLimit => {| fc_pour := fc_pour g; fc_max := fc_max g; fc_plimit := v; fc_glimit := fc_glimit g; fc_ireset := fc_ireset g; fc_greset := fc_greset g |}
  | FGLimit => {| fc_pour := fc_pour g; fc_max := fc_max g; fc_plimit := fc_plimit g; fc_glimit := v; fc_ireset := fc_ireset g; fc_greset := fc_greset g |}
  | FIReset => {| fc_pour := fc_pour g; fc_max := fc_max g; fc_plimit := fc_plimit g; fc_glimit := fc_glimit g; fc_ireset := v; fc_greset := fc_greset g |}
  | FGReset => {| fc_pour := fc_pour g; fc_max := fc_max g; fc_plimit := fc_plimit g; fc_glimit := fc_glimit g; fc_ireset := fc_ireset g; fc_greset := v |}
  end.

(* Requests. [bal] is the faucet wallet balance seen by pour / the client's balance seen by
   refill (None = no state leaf: GetClientBalance fails). For update-settings [owner] says
   whether the sender is the configured owner, [parsed] whether every field parsed. *)
Inductive fc_op :=
| FcPour (c now v : Z) (bal : option Z)
| FcRefill (c now v : Z) (bal : option Z)
| FcUpdate (owner : bool) (now : Z) (parsed : bool) (fields : list (fc_field * Z)).

Inductive fc_out := FcPoured (a : Z) | FcRefilled (a : Z) | FcUpdated | FcFail.

Definition fc_step (st : fc_state) (o : fc_op) : fc_state * fc_out :=
  match o with
  | FcPour c now v bal =>
      let st1 := fc_globals st now in
      let g := fs_cfg st1 in
      let u := fc_user_vars g (fs_users st1) c now in
      let a := fc_amount g v in
      if fc_valid g u (fs_gused st1) bal a then
        match fc_add_coin (fu_used u) a, fc_add_coin (fs_gused st1) a with
        | Some u', Some g' =>
            ({| fs_cfg := g; fs_gstart := fs_gstart st1; fs_gused := g';
                fs_users := fc_set c {| fu_start := fu_start u; fu_used := u' |} (fs_users st1) |},
             FcPoured a)
        | _, _ => (st, FcFail)
        end
      else (st, FcFail)
  | FcRefill c now v bal =>
      let st1 := fc_globals st now in
      match bal with
      | None => (st, FcFail)
      | Some b => if v <=? b then (st1, FcRefilled v) else (st, FcFail)
      end
  | FcUpdate owner now parsed fields =>
      let st1 := fc_globals st now in
      if owner && parsed then
        let g := fold_left fc_set_field fields (fs_cfg st1) in
        if fc_validate g
        then ({| fs_cfg := g; fs_gstart := fs_gstart st1; fs_gused := fs_gused st1; fs_users := fs_users st1 |}, FcUpdated)
        else (st, FcFail)
      else (st, FcFail)
  end.

(* an executed request: the configuration in force when it ran, the request, its outcome *)
Record fc_ev := { ev_cfg : fc_cfg; ev_op : fc_op; ev_out : fc_out }.

Fixpoint fc_run (st : fc_state) (ops : list fc_op) : fc_state * list fc_ev :=
  match ops with
  | [] => (st, [])
  | o :: tl =>
      let '(st1, out) := fc_step st o in
      let '(st2, evs) := fc_run st1 tl in
      (st2, {| ev_cfg := fs_cfg st; ev_op := o; ev_out := out |} :: evs)
  end.

(* ---------- the property, stated on the observable trace only ----------
   A client's reset window opens at its first successful pour at or after the end of its previous
   window and lasts individual_reset; the global window opens at the first successful faucet
   request at or after the end of the previous one and lasts global_reset. *)

Definition fcs_client_step (c : Z) (w : option (Z * Z)) (e : fc_ev) : option (Z * Z) :=
  match ev_op e, ev_out e with
  | FcPour c' now _ _, FcPoured a =>
      if c' =? c then
        match w with
        | Some (s, sum) => if fc_ireset (ev_cfg e) <=? fc_sub now s then Some (now, a) else Some (s, sum + a)
        | None => Some (now, a)
        end
      else w
  | _, _ => w
  end.

Definition fcs_is_pour_by (c : Z) (e : fc_ev) : Prop :=
  match ev_op e, ev_out e with
  | FcPour c' _ _ _, FcPoured _ => c' = c
  | _, _ => False
  end.

Definition fcs_wsum (w : option (Z * Z)) : Z := match w with Some (_, s) => s | None => 0 end.

Fixpoint fcs_client_within (c : Z) (w : option (Z * Z)) (evs : list fc_ev) : Prop :=
  match evs with
  | [] => True
  | e :: tl =>
      let w' := fcs_client_step c w e in
      (fcs_is_pour_by c e -> fcs_wsum w' <= fc_plimit (ev_cfg e)) /\ fcs_client_within c w' tl
  end.

Definition fcs_op_now (o : fc_op) : Z :=
  match o with FcPour _ now _ _ => now | FcRefill _ now _ _ => now | FcUpdate _ now _ _ => now end.

Definition fcs_global_step (w : Z * Z) (e : fc_ev) : Z * Z :=
  match ev_out e with
  | FcFail => w
  | out =>
      let now := fcs_op_now (ev_op e) in
      let w1 := if fc_greset (ev_cfg e) <=? fc_sub now (fst w) then (now, 0) else w in
      match out with FcPoured a => (fst w1, snd w1 + a) | _ => w1 end
  end.

Fixpoint fcs_global_within (w : Z * Z) (evs : list fc_ev) : Prop :=
  match evs with
  | [] => True
  | e :: tl =>
      let w' := fcs_global_step w e in
      ((exists a, ev_out e = FcPoured a) -> snd w' <= fc_glimit (ev_cfg e)) /\ fcs_global_within w' tl
  end.

Definition fcs_pour_within_balance (e : fc_ev) : Prop :=
  match ev_op e, ev_out e with
  | FcPour _ _ _ bal, FcPoured a => exists b, bal = Some b /\ a <= b
  | _, _ => True
  end.

(* Go typing of the inputs: coins are uint64, durations int64 *)
Definition fc_coin (z : Z) : Prop := 0 <= z < fc_two64.
Definition fc_cfg_wf (g : fc_cfg) : Prop :=
  fc_coin (fc_pour g) /\ fc_coin (fc_max g) /\ fc_coin (fc_plimit g) /\ fc_coin (fc_glimit g) /\
  fc_min_i64 <= fc_ireset g <= fc_max_i64 /\ fc_min_i64 <= fc_greset g <= fc_max_i64.
Definition fc_field_wf (fv : fc_field * Z) : Prop :=
  match fst fv with
  | FIReset | FGReset => fc_min_i64 <= snd fv <= fc_max_i64
  | _ => fc_coin (snd fv)
  end.
Definition fc_op_wf (o : fc_op) : Prop :=
  match o with
  | FcPour _ _ v bal => fc_coin v /\ (forall b, bal = Some b -> fc_coin b)
  | FcRefill _ _ v bal => fc_coin v /\ (forall b, bal = Some b -> fc_coin b)
  | FcUpdate _ _ _ fields => Forall fc_field_wf fields
  end.
