(* Correspondence for C42: a case is a list of nodes in insertion order (real node.Pool.AddNode),
   a block hash, NumReplicators and what the real HashPoolScorer / Chain.IsBlockSharderFromHash /
   Chain.CanShardBlockWithReplicators returned; [rp_check] re-runs the model.  Compared: per-node
   scores (by key), the IsBlockSharder booleans and the replicator key sets (sorted). *)
From ZC Require Import Base.Corr Model.Replicate.
Open Scope Z_scope.

From Coq Require Import String Ascii.

(* Case literals avoid big numerals (slow to parse): keys are given as their rank among all keys
   of the case (the model only compares keys, so any order-preserving renaming is exact), id
   bytes and the hash as lower-case hex strings decoded here. *)
Definition rp_nib (c : ascii) : Z :=
  match c with
  | "0" => 0 | "1" => 1 | "2" => 2 | "3" => 3 | "4" => 4 | "5" => 5 | "6" => 6 | "7" => 7
  | "8" => 8 | "9" => 9 | "a" => 10 | "b" => 11 | "c" => 12 | "d" => 13 | "e" => 14 | "f" => 15
  | _ => 0
  end%char.

Fixpoint rp_hex_bytes (s : string) : list Z :=
  match s with
  | String a (String b t) => (16 * rp_nib a + rp_nib b) :: rp_hex_bytes t
  | _ => []
  end.

Record rp_rawnode := { rpr_key : Z; rpr_idb : string }.
Definition rp_of_raw (r : rp_rawnode) : rp_node := {| rp_key := rpr_key r; rp_idb := rp_hex_bytes (rpr_idb r) |}.

Record rp_query := { rpq_key : Z; rpq_is : option bool; rpq_with : option (bool * list Z) }.

(* rpc_nodes = the AddNode calls on the pool under test, in order (re-adds included);
   rpc_setidx = the SetIndex fields of its node objects, in pool order, when queried *)
Record rp_case := { rpc_nodes : list rp_rawnode; rpc_setidx : list Z; rpc_hash : option string; rpc_k : Z;
                    rpc_scores : option (list (Z * Z)); rpc_queries : list rp_query }.

Fixpoint rp_zins (x : Z) (l : list Z) : list Z :=
  match l with [] => [x] | y :: t => if Z.ltb y x then y :: rp_zins x t else x :: y :: t end.
Definition rp_zsort (l : list Z) : list Z := fold_right rp_zins [] l.

Definition rp_obs_scores (pool : list rp_node) (hash : option (list Z)) : option (list (Z * Z)) :=
  match hash with
  | None => Some []
  | Some h => option_map (map (fun x => (rp_key (rp_nd x), rp_val x))) (rp_scores_from 0 pool h)
  end.

Definition rp_with_eqb (a b : bool * list Z) : bool :=
  Bool.eqb (fst a) (fst b) && list_eqb Z.eqb (snd a) (snd b).

Definition rp_query_ok (idxs : list Z) (k : Z) (pool : list rp_node) (hash : option (list Z)) (q : rp_query) : bool :=
  option_eqb Bool.eqb (rp_is_block_sharder_ix idxs k pool hash (rpq_key q)) (rpq_is q) &&
  option_eqb rp_with_eqb
    (option_map (fun r => (fst r, rp_zsort (map rp_key (snd r)))) (rp_can_shard_with_replicators_ix idxs k pool hash (rpq_key q)))
    (rpq_with q).

Definition rp_check (c : rp_case) : bool :=
  let pool := rp_build (map rp_of_raw (rpc_nodes c)) in
  let hash := option_map rp_hex_bytes (rpc_hash c) in
  option_eqb (list_eqb zz_eqb) (rp_obs_scores pool hash) (rpc_scores c) &&
  forallb (rp_query_ok (rpc_setidx c) (rpc_k c) pool hash) (rpc_queries c).
