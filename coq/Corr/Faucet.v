(* Correspondence for C17: a case is an initial configuration and a request list run on the
   real faucetsc contract with the outcome of every request; [fc_check] re-runs the model. *)
From ZC Require Import Base.Corr Model.Faucet.
Open Scope Z_scope.

Record fc_case := { fcc_cfg : fc_cfg; fcc_ops : list fc_op; fcc_outs : list fc_out }.

Definition fc_out_eqb (a b : fc_out) : bool :=
  match a, b with
  | FcPoured x, FcPoured y => x =? y
  | FcRefilled x, FcRefilled y => x =? y
  | FcUpdated, FcUpdated => true
  | FcFail, FcFail => true
  | _, _ => false
  end.

Definition fc_check (c : fc_case) : bool :=
  list_eqb fc_out_eqb (map ev_out (snd (fc_run (fc_init (fcc_cfg c)) (fcc_ops c)))) (fcc_outs c).
