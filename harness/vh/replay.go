package vh

import (
	"encoding/json"
	"os"
)

// LoadReplay reads the "input" of a replay file written by bin/check into v.
// Returns false when the engine was not asked to replay.
func (o Opts) LoadReplay(v interface{}) bool {
	if o.Replay == "" {
		return false
	}
	b, err := os.ReadFile(o.Replay)
	if err != nil {
		panic(err)
	}
	var f struct {
		Input json.RawMessage `json:"input"`
	}
	if err := json.Unmarshal(b, &f); err != nil {
		panic(err)
	}
	if len(f.Input) == 0 {
		f.Input = b
	}
	if err := json.Unmarshal(f.Input, v); err != nil {
		panic(err)
	}
	return true
}
