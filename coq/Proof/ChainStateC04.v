(* C04: what the chain layer guarantees about debits: every balance change of an applied
   transaction is the net of the transfers the transaction carries (contract-queued or send,
   fee, signed); the cap "sender pays at most value + fee" and "only the sender and the called
   contract are debited" hold whenever the contract's transfers respect them - the chain itself
   does not check them, because StateContext.Validate runs before the contract does. *)
From ZC Require Import Model.ChainState Proof.ChainState Proof.ChainStateC05.
Open Scope Z_scope.

Lemma cs_inflow_nonneg : forall l id, Forall (fun t => 0 <= tr_amt t) l -> 0 <= cs_inflow l id.
Proof.
  induction l as [|t tl IH]; intros id F; cbn [cs_inflow]; [lia|].
  inversion F; subst. specialize (IH id H2). destruct (tr_to t =? id); lia.
Qed.

Lemma cs_outflow_source : forall l id, Forall (fun t => 0 <= tr_amt t) l -> 0 < cs_outflow l id ->
    exists t, In t l /\ tr_from t = id /\ 0 < tr_amt t.
Proof.
  induction l as [|t tl IH]; intros id F P; cbn [cs_outflow] in P; [lia|].
  inversion F; subst.
  destruct (Z.eqb_spec (tr_from t) id) as [E|NE].
  - destruct (Z.eq_dec (tr_amt t) 0) as [Z0|NZ].
    + destruct (IH id H2) as (t' & I & Fr & Po); [lia|]. exists t'. split; [right; exact I|auto].
    + exists t. split; [left; reflexivity|split; [exact E|lia]].
  - destruct (IH id H2) as (t' & I & Fr & Po); [lia|]. exists t'. split; [right; exact I|auto].
Qed.

(* every balance change is the net of the transaction's own transfers *)
Lemma cs_c04_attribution : forall cfg st round tx r st' status out evs,
    cs_canon_accts (st_accts st) -> cs_canon_txn cfg tx r ->
    cs_update_state cfg st round tx r = Applied st' status out evs ->
    forall id, cs_bal (st_accts st') id =
               cs_bal (st_accts st) id + cs_inflow (cs_queued cfg tx r) id - cs_outflow (cs_queued cfg tx r) id.
Proof.
  intros cfg st round tx r st' status out evs Cs Ct H id.
  rewrite cs_update_state_canon_eq in H by assumption.
  apply cs_update_ideal_effect in H. cbv zeta in H. destruct H as (_ & B & _). apply B.
Qed.

(* an account whose balance fell is the source of one of the transaction's transfers, and fell by
   no more than those transfers take from it *)
Lemma cs_c04_debits_attributed : forall cfg st round tx r st' status out evs,
    cs_canon_accts (st_accts st) -> cs_canon_txn cfg tx r -> cs_typed_txn cfg tx r ->
    cs_update_state cfg st round tx r = Applied st' status out evs ->
    forall id, cs_bal (st_accts st') id < cs_bal (st_accts st) id ->
               (exists t, In t (cs_queued cfg tx r) /\ tr_from t = id /\ 0 < tr_amt t) /\
               cs_bal (st_accts st) id - cs_bal (st_accts st') id <= cs_outflow (cs_queued cfg tx r) id.
Proof.
  intros cfg st round tx r st' status out evs Cs Ct Ty H id Fell.
  pose proof (cs_c04_attribution _ _ _ _ _ _ _ _ _ Cs Ct H id) as B.
  pose proof (cs_inflow_nonneg _ id Ty) as I0.
  split; [apply cs_outflow_source; [exact Ty|lia]|lia].
Qed.

(* untouched accounts keep their leaf, stamps included *)
Lemma cs_c04_untouched : forall cfg st round tx r st' status out evs,
    cs_canon_accts (st_accts st) -> cs_canon_txn cfg tx r ->
    cs_update_state cfg st round tx r = Applied st' status out evs ->
    forall id, id <> tx_from tx ->
               (forall t, In t (cs_queued cfg tx r) -> tr_amt t <> 0 -> id <> tr_from t /\ id <> tr_to t) ->
               cs_get id (st_accts st') = cs_get id (st_accts st).
Proof.
  intros cfg st round tx r st' status out evs Cs Ct H id NF Hid.
  rewrite cs_update_state_canon_eq in H by assumption.
  apply cs_update_ideal_effect in H. cbv zeta in H. destruct H as (_ & _ & _ & _ & G & _). apply G; assumption.
Qed.

(* what the contract (or the send) asked for, without the fee *)
Definition cs_requested (tx : cs_txn) (r : cs_sc_result) : list cs_transfer :=
  match tx_type tx with
  | TSC => match r with SCOk _ trs signed _ _ => trs ++ signed | _ => [] end
  | TSend => [{| tr_from := tx_from tx; tr_to := tx_to tx; tr_amt := tx_value tx |}]
  | _ => []
  end.

Lemma cs_applied_not_other : forall cfg st round tx r st' status out evs,
    cs_update_state cfg st round tx r = Applied st' status out evs -> tx_type tx <> TOther.
Proof.
  intros cfg st round tx r st' status out evs H TY.
  assert (NA : cs_is_applied (cs_update_state cfg st round tx r) = false).
  { rewrite cs_update_state_applied_iff. unfold cs_update_ideal. rewrite TY.
    destruct (st_accts st); [destruct (st_nodes st); [reflexivity|]|];
      (destruct (cs_max_supply <? tx_value tx); [reflexivity|];
       destruct (negb (cs_nonce_ok _ tx)); [reflexivity|];
       destruct (negb (cs_validate_ok cfg tx)); reflexivity). }
  rewrite H in NA. discriminate.
Qed.

Lemma cs_queued_outflow : forall cfg tx r id,
    tx_type tx <> TOther ->
    cs_outflow (cs_queued cfg tx r) id =
    cs_outflow (cs_requested tx r) id + (if tx_from tx =? id then cs_fee_of cfg tx else 0).
Proof.
  intros cfg tx r id NO.
  assert (Fee : cs_outflow (cs_fee_transfers cfg tx) id = if tx_from tx =? id then cs_fee_of cfg tx else 0).
  { unfold cs_fee_transfers, cs_fee_of. destruct (cfg_fee cfg); cbn [cs_outflow tr_from tr_amt].
    - destruct (tx_from tx =? id); lia.
    - destruct (tx_from tx =? id); reflexivity. }
  unfold cs_queued, cs_requested. destruct (tx_type tx).
  - cbn [cs_outflow tr_from tr_amt]. rewrite Fee. lia.
  - cbn [cs_outflow]. rewrite Fee. lia.
  - destruct r.
    + rewrite !cs_outflow_app, Fee. lia.
    + cbn [cs_outflow]. rewrite Fee. lia.
    + cbn [cs_outflow]. rewrite Fee. lia.
  - contradiction.
Qed.

(* the cap, conditional on what was requested in the sender's name *)
Lemma cs_c04_sender_cap : forall cfg st round tx r st' status out evs,
    cs_canon_accts (st_accts st) -> cs_canon_txn cfg tx r -> cs_typed_txn cfg tx r ->
    cs_update_state cfg st round tx r = Applied st' status out evs ->
    cs_outflow (cs_requested tx r) (tx_from tx) <= tx_value tx ->
    cs_bal (st_accts st) (tx_from tx) - cs_bal (st_accts st') (tx_from tx) <= tx_value tx + cs_fee_of cfg tx.
Proof.
  intros cfg st round tx r st' status out evs Cs Ct Ty H Cap.
  pose proof (cs_c04_attribution _ _ _ _ _ _ _ _ _ Cs Ct H (tx_from tx)) as B.
  pose proof (cs_inflow_nonneg _ (tx_from tx) Ty) as I0.
  rewrite cs_queued_outflow, Z.eqb_refl in B by (eapply cs_applied_not_other; eauto). lia.
Qed.

(* plain sends and data transactions always respect it *)
Lemma cs_c04_send_cap : forall cfg st round tx r st' status out evs,
    cs_canon_accts (st_accts st) -> cs_canon_txn cfg tx r -> cs_typed_txn cfg tx r ->
    tx_type tx <> TSC -> 0 <= tx_value tx ->
    cs_update_state cfg st round tx r = Applied st' status out evs ->
    cs_bal (st_accts st) (tx_from tx) - cs_bal (st_accts st') (tx_from tx) <= tx_value tx + cs_fee_of cfg tx.
Proof.
  intros cfg st round tx r st' status out evs Cs Ct Ty NSC V H.
  eapply cs_c04_sender_cap; eauto.
  unfold cs_requested. destruct (tx_type tx); try contradiction; cbn [cs_outflow tr_from tr_amt].
  - rewrite Z.eqb_refl. lia.
  - lia.
  - lia.
Qed.

(* a transfer the sender authorised by calling this contract: from the sender itself or from the
   called contract's own wallet *)
Definition cs_authorised (tx : cs_txn) (t : cs_transfer) : Prop :=
  tr_from t = tx_from tx \/ tr_from t = tx_to tx.

Lemma cs_c04_authorised : forall cfg st round tx r st' status out evs,
    cs_canon_accts (st_accts st) -> cs_canon_txn cfg tx r -> cs_typed_txn cfg tx r ->
    cs_update_state cfg st round tx r = Applied st' status out evs ->
    Forall (fun t => tr_amt t <> 0 -> cs_authorised tx t) (cs_requested tx r) ->
    cs_outflow (cs_requested tx r) (tx_from tx) <= tx_value tx ->
    (cs_bal (st_accts st) (tx_from tx) - cs_bal (st_accts st') (tx_from tx) <= tx_value tx + cs_fee_of cfg tx) /\
    (forall id, cs_bal (st_accts st') id < cs_bal (st_accts st) id -> id = tx_from tx \/ id = tx_to tx).
Proof.
  intros cfg st round tx r st' status out evs Cs Ct Ty H Au Cap.
  split; [eapply cs_c04_sender_cap; eauto|].
  intros id Fell.
  destruct (cs_c04_debits_attributed _ _ _ _ _ _ _ _ _ Cs Ct Ty H id Fell) as ((t & It & Fr & Po) & _).
  assert (Src : In t (cs_requested tx r) \/ tr_from t = tx_from tx).
  { unfold cs_queued, cs_requested, cs_fee_transfers in *.
    destruct (tx_type tx); [| |destruct r|]; destruct (cfg_fee cfg); cbn [In app] in It |- *;
      rewrite ?in_app_iff in *; cbn [In] in It |- *;
      repeat match goal with
             | H : _ \/ _ |- _ => destruct H
             | H : False |- _ => destruct H
             | H : _ = t |- _ => subst t; cbn [tr_from]
             end; auto. }
  destruct Src as [Ir|Fs]; [|left; congruence].
  rewrite Forall_forall in Au. destruct (Au t Ir) as [A|A]; [lia|left; congruence|right; congruence].
Qed.

(* ---------- the chain alone does not enforce the cap: full statement and witness ---------- *)
Definition cs_c04_full_statement : Prop :=
  forall cfg st round tx r st' status out evs,
    cs_canon_accts (st_accts st) -> cs_canon_txn cfg tx r -> cs_typed_txn cfg tx r ->
    cs_wf (st_accts st) -> 0 <= tx_value tx ->
    cs_update_state cfg st round tx r = Applied st' status out evs ->
    (cs_bal (st_accts st) (tx_from tx) - cs_bal (st_accts st') (tx_from tx) <= tx_value tx + cs_fee_of cfg tx) /\
    (forall id, cs_bal (st_accts st') id < cs_bal (st_accts st) id -> id = tx_from tx \/ id = tx_to tx).

Definition cs_c04_cfg := {| cfg_fee := true; cfg_events := false; cfg_miner := 0; cfg_strict_ids := false |}.
Definition cs_c04_state :=
  let A b := {| ac_bal := b; ac_nonce := 0; ac_txn := -1; ac_round := 0 |} in
  {| st_accts := [(1, A 50); (3, A 100); (4, A 70)]; st_nodes := [] |}.
Definition cs_c04_txn :=
  {| tx_hash := 0; tx_type := TSC; tx_from := 3; tx_to := 1; tx_value := 10; tx_fee := 2; tx_nonce := 1 |}.
(* the called contract queues 60 out of the sender (value is 10) and 7 out of a bystander *)
Definition cs_c04_result :=
  SCOk [] [Build_cs_transfer 3 1 60; Build_cs_transfer 4 5 7] [] [] 0.

Lemma cs_c04_witness :
  exists st' s o e,
    cs_update_state cs_c04_cfg cs_c04_state 1 cs_c04_txn cs_c04_result = Applied st' s o e /\
    cs_bal (st_accts cs_c04_state) 3 - cs_bal (st_accts st') 3 = 62 /\
    cs_bal (st_accts st') 4 = 63.
Proof. vm_compute. do 4 eexists. repeat split; reflexivity. Qed.

Lemma cs_c04_refuted : ~ cs_c04_full_statement.
Proof.
  intros F.
  destruct cs_c04_witness as (st' & s & o & e & H & D & _).
  specialize (F cs_c04_cfg cs_c04_state 1 cs_c04_txn cs_c04_result st' s o e).
  destruct F as (Cap & _); [| | | | |exact H|].
  - unfold cs_canon_accts, cs_canon_id. cbn. repeat constructor; vm_compute; congruence.
  - unfold cs_canon_txn, cs_canon_id. cbn. split; [split; vm_compute; congruence|].
    repeat constructor; vm_compute; congruence.
  - unfold cs_typed_txn. cbn. repeat constructor; vm_compute; congruence.
  - unfold cs_wf. cbn. repeat constructor; vm_compute; congruence.
  - vm_compute; congruence.
  - unfold cs_c04_txn in Cap. cbn [tx_from tx_value] in Cap. rewrite D in Cap. vm_compute in Cap. apply Cap. reflexivity.
Qed.
