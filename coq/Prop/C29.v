(* C29: Block hashes commit to block contents.
   The field table hf_block is GENERATED from Block.getHashData by harness/translators/hashfields.
   Only statements; each is closed by [exact] of a lemma in Proof/HashEnc.v or Proof/HashFields.v.
   Idealisation (he_ideal): Hash injective with hex output; MHash injective on pairs, never "" and
   never equal to a transaction hash (leaf). *)
From ZC Require Import Model.HashEnc Proof.HashEnc Gen.HashFields Proof.HashFields.
Open Scope string_scope.

(* ":"-joined lists of colon-free pieces determine the pieces (decimal numbers, hex hashes and
   hex ids are colon-free; the decimal encoder is injective) *)
Theorem C29_join_injective : forall l1 l2,
  l1 <> [] -> l2 <> [] ->
  Forall (fun s => he_nocolon s = true) l1 -> Forall (fun s => he_nocolon s = true) l2 ->
  he_join l1 = he_join l2 -> l1 = l2.
Proof. exact he_join_injective. Qed.
Print Assumptions C29_join_injective.

Theorem C29_decimal_encoder : forall a b, (he_dec a = he_dec b -> a = b) /\ he_nocolon (he_dec a) = true.
Proof. exact (fun a b => conj (he_dec_inj a b) (he_dec_nocolon a)). Qed.
Print Assumptions C29_decimal_encoder.

(* Two blocks (with pairwise different, genuine transaction hashes and one output hash per
   transaction) that have the same hash agree on every field that getHashData writes:
   the same fields are present and each has the same value. *)
Theorem C29_hash_commits_to_listed_fields : forall Hash mh leaf, he_ideal Hash mh leaf ->
  forall o1 o2 h,
    he_raw_ok hf_block o1 -> he_raw_ok hf_block o2 -> he_txns_wf leaf o1 -> he_txns_wf leaf o2 ->
    he_hash Hash (he_mroot mh) hf_block o1 = Some h ->
    he_hash Hash (he_mroot mh) hf_block o2 = Some h ->
    forall e, In e hf_block ->
      he_piece Hash (he_mroot mh) e o1 = he_piece Hash (he_mroot mh) e o2 /\
      (he_piece Hash (he_mroot mh) e o1 <> Some None -> he_eff e o1 = he_eff e o2).
Proof. exact hf_block_commits. Qed.
Print Assumptions C29_hash_commits_to_listed_fields.

(* Why repeated transactions must be rejected: the Merkle root does not see a repeated last leaf *)
Theorem C29_merkle_root_blind_to_repeated_last_leaf : forall mh a b c,
  he_mroot mh [a; b; c] = he_mroot mh [a; b; c; c].
Proof. exact he_merkle_dup_collision. Qed.
Print Assumptions C29_merkle_root_blind_to_repeated_last_leaf.

(* --- coverage of the fields the property names --- *)

(* the full statement: every field that determines the block's effect is in the hashed data *)
Definition C29_required_fields_covered : Prop := he_missing hf_block C29_required = [].

Theorem C29_required_fields_covered_refuted : ~ C29_required_fields_covered.
Proof. exact hf_block_required_not_all_covered. Qed.
Print Assumptions C29_required_fields_covered_refuted.

(* exactly the resulting state is missing ... *)
Theorem C29_only_state_hash_missing : he_missing hf_block C29_required = ["ClientStateHash"].
Proof. exact hf_block_missing. Qed.
Print Assumptions C29_only_state_hash_missing.

(* ... every other required field is written by getHashData *)
Theorem C29_required_fields_covered_partial : forall f, In f C29_required -> f <> "ClientStateHash" ->
  he_mem f (he_covered hf_block) = true.
Proof. exact hf_block_covered_except_state. Qed.
Print Assumptions C29_required_fields_covered_partial.

(* the state hash of a block can be replaced by any value without changing the block hash *)
Theorem C29_state_hash_not_bound : forall Hash mroot o v,
  he_hash Hash mroot hf_block (he_upd o "ClientStateHash" v) = he_hash Hash mroot hf_block o.
Proof. exact hf_block_state_hash_free. Qed.
Print Assumptions C29_state_hash_not_bound.

(* the magic block is bound through its stored Hash string only: same stored string, other
   contents, same block hash *)
Theorem C29_magic_block_contents_not_bound : forall Hash mroot,
  he_hash Hash mroot hf_block (hf_block_example "aa" "aa") =
  he_hash Hash mroot hf_block (hf_block_example "aa" "bb") /\
  he_hash Hash mroot hf_block (hf_block_example "aa" "aa") <> None.
Proof. exact hf_block_magic_block_contents_free. Qed.
Print Assumptions C29_magic_block_contents_not_bound.

(* --- Block.Validate --- *)

(* accepted exactly when: right chain, hash and generator present and known, no repeated
   transaction (when TxnsMap is computed), hash = ComputeHash(), generator signature verifies *)
Theorem C29_validate_accepts_iff : forall i, bk_validate i = BkOk <->
  (bki_chain_ok i = true /\ bki_hash i <> "" /\ bki_miner i <> "" /\ bki_miner_known i = true /\
   (forall n, bki_txnsmap i = Some n -> n = bki_ntxns i) /\
   bki_hash i = bki_computed i /\ bki_sig i = Some true).
Proof. exact bk_validate_ok_iff. Qed.
Print Assumptions C29_validate_accepts_iff.

(* a received block (ComputeProperties has built TxnsMap from the transaction hashes) that repeats
   a transaction is rejected *)
Theorem C29_validate_rejects_repeated_transaction : forall i hashes,
  bki_ntxns i = List.length hashes -> bki_txnsmap i = Some (bk_txnsmap_of hashes) ->
  ~ NoDup hashes -> bk_validate i <> BkOk.
Proof. exact bk_validate_rejects_duplicates. Qed.
Print Assumptions C29_validate_rejects_repeated_transaction.

(* Non-vacuity: a concrete block object, its hashed string as Go prints it, and verdicts *)
Example C29_example_data : forall Hash mroot,
  he_data Hash mroot hf_block (hf_block_example "aa" "aa") =
  Some ("5a1c:77ab:1700000000:7:-3:2:" ++ mroot ["t1"; "t2"; "t3"] ++ ":" ++ mroot ["o1"; "o2"; "o3"] ++ ":aa").
Proof. exact hf_block_example_data. Qed.

Example C29_example_validate :
  bk_validate {| bki_chain_ok := true; bki_hash := "h"; bki_miner := "m"; bki_miner_known := true;
                 bki_ntxns := 3; bki_txnsmap := Some (bk_txnsmap_of ["t1"; "t2"; "t3"]);
                 bki_computed := "h"; bki_sig := Some true |} = BkOk /\
  bk_validate {| bki_chain_ok := true; bki_hash := "h"; bki_miner := "m"; bki_miner_known := true;
                 bki_ntxns := 4; bki_txnsmap := Some (bk_txnsmap_of ["t1"; "t2"; "t3"; "t3"]);
                 bki_computed := "h"; bki_sig := Some true |} = BkDuplicateTxns /\
  bk_validate {| bki_chain_ok := true; bki_hash := "h"; bki_miner := "m"; bki_miner_known := true;
                 bki_ntxns := 3; bki_txnsmap := Some 3%nat;
                 bki_computed := "g"; bki_sig := Some true |} = BkHashMismatch /\
  bk_validate {| bki_chain_ok := true; bki_hash := "h"; bki_miner := "m"; bki_miner_known := true;
                 bki_ntxns := 3; bki_txnsmap := Some 3%nat;
                 bki_computed := "h"; bki_sig := Some false |} = BkBadSignature.
Proof. vm_compute. repeat split; reflexivity. Qed.
