(* C14: closing an allocation refunds the rest exactly once.
   Statements only; proofs in Proof/StorageClose.v and Proof/Storage.v.
   ss_finalize / ss_cancel model finalizeAllocation / cancelAllocationRequest; both end in
   ss_close = settleOpenChallengesAndGetPassRates + reduceOffer + finishAllocation. *)
From Coq Require Import ZArith List Bool.
From ZC Require Import Model.F64 Model.Storage Proof.StorageUtil Proof.StorageFrame Proof.Storage Proof.StorageClose Proof.StorageWitness.
Import ListNotations.
Open Scope Z_scope.

(* Finalize: by the owner or one of the allocation's blobbers, not before the expiration. *)
Theorem C14_finalize_authorised :
  forall c s now round sender alloc s',
  ss_finalize c s now round sender alloc = Some s' ->
  exists a, ss_find_alloc alloc (st_allocs s) = Some a /\
            (sender = al_owner a \/ exists d, ss_find_ba sender (al_bas a) = Some d) /\ al_exp a <= now /\
            ss_close c s now round a = Some s'.
Proof. exact ss_finalize_auth. Qed.
Print Assumptions C14_finalize_authorised.

(* Cancel: by the owner only, not after the expiration. *)
Theorem C14_cancel_authorised :
  forall c s now round sender alloc s',
  ss_cancel c s now round sender alloc = Some s' ->
  exists a, ss_find_alloc alloc (st_allocs s) = Some a /\ sender = al_owner a /\ now <= al_exp a /\
            ss_close c s now round a = Some s'.
Proof. exact ss_cancel_auth. Qed.
Print Assumptions C14_cancel_authorised.

(* What a close moves (for an allocation satisfying the C12 equality, owner different from the
   contract): the blobbers' stake pools together receive at most [paid + charged], where
   [paid <= challenge pool] are the challenge pass payments and [charged] the cancellation charge
   (0 when none is due); the owner receives exactly write pool + challenge pool - paid - charged,
   taken from the contract's wallet; the allocation (with its pool) is removed from the state. *)
Theorem C14_close_pays_and_refunds :
  forall c s now round a s',
  al_c12 a -> al_owner a <> cf_sc c -> ss_close c s now round a = Some s' ->
  exists cp paid charged refund,
    al_cp a = Some cp /\ 0 <= paid <= cp /\ 0 <= charged /\
    refund = al_wpool a + cp - paid - charged /\ 0 <= refund /\
    ss_bal s' (al_owner a) = ss_bal s (al_owner a) + refund /\
    ss_bal s' (cf_sc c) = ss_bal s (cf_sc c) - refund /\
    ss_total_rewards (st_blobbers s) <= ss_total_rewards (st_blobbers s') <= ss_total_rewards (st_blobbers s) + paid + charged /\
    st_allocs s' = ss_del_alloc (al_id a) (st_allocs s).
Proof. exact ss_close_spec. Qed.
Print Assumptions C14_close_pays_and_refunds.

(* Once: after the close the allocation is gone (ids unique) ... *)
Theorem C14_closed_allocation_removed :
  forall c s now round a s',
    NoDup (map al_id (st_allocs s)) -> ss_close c s now round a = Some s' -> ss_find_alloc (al_id a) (st_allocs s') = None.
Proof. exact ss_close_removes. Qed.
Print Assumptions C14_closed_allocation_removed.

(* ... and every transaction naming a missing allocation is rejected: a second finalize or cancel,
   write-pool locks, write markers, updates, read markers, new challenges. *)
Theorem C14_nothing_accepted_after_close :
  forall c s now round id,
  ss_find_alloc id (st_allocs s) = None ->
  (forall sender, ss_finalize c s now round sender id = None) /\
  (forall sender, ss_cancel c s now round sender id = None) /\
  (forall sender v, ss_wp_lock c s sender id v = None) /\
  (forall sender client root prev size ts sig, ss_commit c s sender id client root prev size ts sig = None) /\
  (forall sender v size ext tpe add rem own, ss_update c s now round sender id v size ext tpe add rem own = None) /\
  (forall client b ts ctr i sg, ss_read c s client b id ts ctr i sg = None) /\
  (forall b ch, ss_gen_chal c s now round id b ch = None).
Proof. exact ss_gone_rejects. Qed.
Print Assumptions C14_nothing_accepted_after_close.

(* Non-vacuity: on the witness state finalize before expiry, by a stranger, and cancel after expiry are
   rejected; blobber 1 (not the owner) finalizes after expiry: the owner gets write pool + challenge pool
   minus the cancellation charge (20% of the cost 2e9, the allocation used almost nothing); a second
   finalize and a late write-pool lock are rejected. *)
Example C14_example :
  let txs := [(4599, 1010, OpFinalize 100 1); (4601, 1011, OpFinalize 102 1); (4601, 1012, OpCancel 100 1);
              (4601, 1013, OpFinalize 1 1); (4602, 1014, OpFinalize 100 1); (4603, 1015, OpWPLock 100 1 5000)] in
  snd (ss_run sw_conf sw_killed_state txs) = [false; false; false; true; false; false] /\
  ss_bal (fst (ss_run sw_conf sw_killed_state txs)) 100 = 100000000000000 + 100000000000 + 97384982 - 400000000 /\
  st_allocs (fst (ss_run sw_conf sw_killed_state txs)) = [].
Proof. vm_compute. repeat split; reflexivity. Qed.
