// Engine for C21: register / vote histories on the real multisigsc contract with real BLS
// threshold key shares; executable oracle on the queued signed transfers; cases for Model/Multisig.v.
package main

import (
	"encoding/hex"
	"encoding/json"
	"fmt"
	"strings"

	"0chain.net/chaincore/smartcontractinterface"
	"0chain.net/chaincore/state"
	"0chain.net/core/common"
	"0chain.net/core/encryption"
	"0chain.net/smartcontract/multisigsc"
	"github.com/0chain/common/core/currency"
	"github.com/0chain/common/core/util"
	"verifharness/ct"
	"verifharness/sc"
	"verifharness/vh"
)

type walletDesc struct {
	T int `json:"t"`
	N int `json:"n"`
}

type op struct {
	K      string `json:"k"`              // reg|vote
	W      int    `json:"w"`              // wallet 1..3
	By     int    `json:"by,omitempty"`   // reg: registering wallet's own client (0) or another wallet's client (its number)
	Vic    int    `json:"vic,omitempty"`  // reg: the request names this other account (wallet slot) as client_id; keys and sender stay wallet W's
	PK     string `json:"pk,omitempty"`   // reg with vic: public_key of the sender (default) | victim | neither
	Flaw   string `json:"flaw,omitempty"` // reg: dupid|dupkey|t1|tbig|scheme|badkey|pk ; vote: json|big|zero|nosig
	S      int    `json:"s,omitempty"`    // vote: sender = signer index 1..n of wallet SW (0 = stranger)
	SW     int    `json:"sw,omitempty"`   // vote: the wallet the sender belongs to (normally = W)
	Now    int64  `json:"now,omitempty"`  // block creation date: the chain clock the contract must use
	TD     int64  `json:"td,omitempty"`   // txn creation date = Now + TD (chosen by the client, independent of the block)
	P      int    `json:"p,omitempty"`    // proposal id number
	To     int    `json:"to,omitempty"`
	Amount uint64 `json:"amount,omitempty"`
	Sig    string `json:"sig,omitempty"` // ok|otheramount|otherkey|garbage
}

type hist struct {
	Wallets []walletDesc `json:"wallets"` // wallets 1..len
	Ops     []op         `json:"ops"`
}

type wallet struct {
	id, pk string
	t, n   int
	shares []encryption.ThresholdSignatureScheme
	ids    []string // signer client ids
}

var contract smartcontractinterface.SmartContractInterface

// key material is expensive for 20 signers and does not influence any decision: one set per
// (wallet slot, t, n) for the whole run
var walletCache = map[[3]int]*wallet{}

func cachedWallet(slot int, d walletDesc) *wallet {
	k := [3]int{slot, d.T, d.N}
	if w, ok := walletCache[k]; ok {
		return w
	}
	w := mkWallet(d)
	walletCache[k] = w
	return w
}

func mkWallet(d walletDesc) *wallet {
	orig := encryption.NewBLS0ChainScheme()
	if err := orig.GenerateKeys(); err != nil {
		panic(err)
	}
	shares, err := encryption.GenerateThresholdKeyShares(encryption.SignatureSchemeBls0chain, d.T, d.N, orig)
	if err != nil {
		panic(err)
	}
	w := &wallet{pk: orig.GetPublicKey(), t: d.T, n: d.N, shares: shares}
	w.id, _ = encryption.GetClientIDFromPublicKey(w.pk)
	for _, s := range shares {
		id, _ := encryption.GetClientIDFromPublicKey(s.GetPublicKey())
		w.ids = append(w.ids, id)
	}
	return w
}

type propState struct {
	ID       string `json:"proposal_id"`
	Expire   int64  `json:"expiration_date"`
	Transfer struct {
		From string `json:"from"`
	} `json:"transfer"`
	Signers  []string `json:"signer_threshold_ids"`
	Executed string   `json:"executed_in_txn_hash"`
}

func readProp(m util.MerklePatriciaTrieI, walletID, pid string) *propState {
	b, err := multisigsc.VerifContractsProposalJSON(walletID, pid, sc.NewCtx(m, 1, nil))
	if err != nil {
		panic(err)
	}
	var raw map[string]json.RawMessage
	_ = json.Unmarshal(b, &raw)
	var p propState
	if err := json.Unmarshal(b, &p); err != nil {
		panic(err)
	}
	if p.ID == "" && p.Expire == 0 {
		return nil
	}
	return &p
}

type ledger struct {
	expire   int64
	to       int
	amount   uint64
	voters   map[int]bool
	executed bool
	signed   map[int][2]uint64 // per counted voter: (recipient number, amount) its vote's signature was made over
}

type result struct {
	outs     []string
	ops      []string
	fails    []string
	c04fails []string // property C04 on the same run: signed transfers queued without the wallet's valid signature
	kinds    map[string]int
}

func (r *result) fail(k string) {
	for _, f := range r.fails {
		if f == k {
			return
		}
	}
	r.fails = append(r.fails, k)
}

func (r *result) c04(k string) {
	for _, f := range r.c04fails {
		if f == k {
			return
		}
	}
	r.c04fails = append(r.c04fails, k)
}

func (r *result) list(prop string) []string {
	if prop == "C04" {
		return r.c04fails
	}
	return r.fails
}

func (r *result) hasIn(prop, k string) bool {
	for _, f := range r.list(prop) {
		if f == k {
			return true
		}
	}
	return false
}

func (r *result) has(k string) bool {
	for _, f := range r.fails {
		if f == k {
			return true
		}
	}
	return false
}

func recipient(i int) string { return ct.ID("multisig recipient", i) }

func run(h hist) result {
	res := result{kinds: map[string]int{}}
	base := sc.NewMPT()
	ws := map[int]*wallet{}
	for i, d := range h.Wallets {
		ws[i+1] = cachedWallet(i+1, d)
	}
	registered := map[int]bool{}
	led := map[[2]int]*ledger{}
	for i, o := range h.Ops {
		w := ws[o.W]
		tm := ct.Begin(base)
		switch o.K {
		case "reg":
			ids := make([]string, w.n)
			pks := make([]string, w.n)
			toks := make([]string, w.n)
			for j, s := range w.shares {
				ids[j] = s.GetID()
				pks[j] = s.GetPublicKey()
				toks[j] = fmt.Sprintf("(%d, %d)", 100*o.W+j+1, j+1)
			}
			desc := map[string]interface{}{"client_id": w.id, "signature_scheme": "bls0chain", "public_key": w.pk,
				"signer_threshold_ids": ids, "signer_public_keys": pks, "num_required": w.t}
			required := w.t
			keysOK := true
			if o.Flaw == "toomany" && w.n+ws[o.W%len(ws)+1].n <= multisigsc.MaxSigners {
				o.Flaw = "t1" // the two wallets together do not exceed the maximum
			}
			switch o.Flaw {
			case "dupid":
				ids[w.n-1] = ids[0]
				toks[w.n-1] = fmt.Sprintf("(%d, %d)", 100*o.W+w.n, 1)
			case "dupkey":
				pks[w.n-1] = pks[0]
				toks[w.n-1] = fmt.Sprintf("(%d, %d)", 100*o.W+1, w.n)
			case "toomany": // more than MaxSigners (20): padded with the other wallet's signers under fresh ids
				other := ws[o.W%len(ws)+1]
				for j := 0; len(ids) <= multisigsc.MaxSigners && j < other.n; j++ {
					ids = append(ids, fmt.Sprintf("%x", 100+j))
					pks = append(pks, other.shares[j].GetPublicKey())
					toks = append(toks, fmt.Sprintf("(%d, %d)", 100*(o.W%len(ws)+1)+j+1, 100+j))
				}
				desc["signer_threshold_ids"] = ids
				desc["signer_public_keys"] = pks
			case "t1":
				desc["num_required"] = 1
				required = 1
			case "tbig":
				desc["num_required"] = w.n + 1
				required = w.n + 1
			case "scheme":
				desc["signature_scheme"] = "ed25519"
				keysOK = false
			case "badkey":
				pks[0] = "zz"
				keysOK = false
			case "pk":
				desc["public_key"] = ws[o.W%len(ws)+1].pk
				keysOK = false
			}
			walletTok := o.W
			if o.Vic != 0 { // the sender asks for a wallet under somebody else's account id
				desc["client_id"] = ws[o.Vic].id
				walletTok = o.Vic
				switch o.PK {
				case "victim":
					desc["public_key"] = ws[o.Vic].pk
				case "neither":
					for k, x := range ws {
						if k != o.W && k != o.Vic {
							desc["public_key"] = x.pk
						}
					}
				}
			}
			sender := w.id
			clientTok := o.W
			if o.By != 0 {
				sender = ws[o.By].id
				clientTok = o.By
			}
			input, _ := json.Marshal(desc)
			txn := sc.Txn(encryption.Hash(fmt.Sprintf("ms txn %d", i)), sender, multisigsc.Address, 0, 0)
			ctx := sc.NewCtx(tm, int64(i+2), txn)
			_, err := contract.Execute(txn, multisigsc.RegisterFuncName, input, ctx)
			res.ops = append(res.ops, fmt.Sprintf("MsRegister %d %d %s %d %s", clientTok, walletTok, vh.List(toks), required, vh.Bool(keysOK)))
			if err != nil {
				res.outs = append(res.outs, "MsFail")
				res.kinds["register-refused"]++
				if o.Flaw == "" && o.By == 0 && o.Vic == 0 && !registered[o.W] {
					res.fail("valid-wallet-refused")
				}
				continue
			}
			ct.Commit(base, tm)
			res.outs = append(res.outs, "MsRegistered")
			res.kinds["register-ok"]++
			if o.Vic != 0 {
				// registration accepted => client_id == sender == Hash(public_key)
				res.fail("wallet-registered-under-another-accounts-id")
				res.c04("wallet-registered-under-another-accounts-id:multisig")
				continue
			}
			if o.Flaw != "" || o.By != 0 || registered[o.W] {
				res.fail("invalid-wallet-registered")
			}
			registered[o.W] = true
		case "vote":
			sw := ws[o.SW]
			sender := ct.ID("multisig stranger", 1)
			signerTok := 999
			if o.S >= 1 && sw != nil && o.S <= sw.n {
				sender = sw.ids[o.S-1]
				signerTok = 100*o.SW + o.S
			}
			tr := state.Transfer{ClientID: w.id, ToClientID: recipient(o.To), Amount: currency.Coin(o.Amount)}
			// signature
			sig := ""
			signedAmount := uint64(0)
			if o.S >= 1 && sw != nil && o.S <= sw.n {
				key := sw.shares[o.S-1]
				signTr := tr
				signedAmount = o.Amount
				switch o.Sig {
				case "otheramount":
					signTr.Amount++
					signedAmount++
				case "otherkey":
					key = sw.shares[o.S%sw.n]
				}
				st := state.SignedTransfer{Transfer: signTr, SchemeName: "bls0chain", PublicKey: key.GetPublicKey()}
				if err := st.Sign(key); err != nil {
					panic(err)
				}
				sig = st.Sig
				if o.Sig == "garbage" {
					sig = "zz" + sig[2:]
				}
			} else {
				sig = strings.Repeat("ab", 32)
			}
			pid := fmt.Sprintf("proposal-%d", o.P)
			wellformed := true
			vote := map[string]interface{}{"proposal_id": pid, "transfer": tr, "signature": sig}
			var input []byte
			switch o.Flaw {
			case "big":
				pid = strings.Repeat("p", 257)
				vote["proposal_id"] = pid
				wellformed = false
			case "zero":
				tr.Amount = 0
				vote["transfer"] = tr
				wellformed = false
			case "nosig":
				vote["signature"] = ""
				wellformed = false
			}
			input, _ = json.Marshal(vote)
			if o.Flaw == "json" {
				input = []byte(`{"proposal_id":`)
				wellformed = false
			}
			// what the real library says about this signature under the sender's key registered on wallet W
			sigOK := false
			member := o.SW == o.W && o.S >= 1 && o.S <= w.n && registered[o.W]
			if o.SW == o.W && o.S >= 1 && o.S <= w.n {
				st := state.SignedTransfer{Transfer: tr, SchemeName: "bls0chain", PublicKey: w.shares[o.S-1].GetPublicKey(), Sig: sig}
				sigOK = st.VerifySignature(false) == nil
			}
			txnHash := encryption.Hash(fmt.Sprintf("ms txn %d", i))
			txn := sc.Txn(txnHash, sender, multisigsc.Address, 0, o.Now+o.TD)
			ctx := sc.NewCtx(tm, int64(i+2), txn)
			ctx.GetBlock().CreationDate = common.Timestamp(o.Now)
			resp, err := contract.Execute(txn, multisigsc.VoteFuncName, input, ctx)
			sts := ctx.GetSignedTransfers()
			ref := [2]int{o.W, o.P}
			l := led[ref]
			recoverOK := !(err != nil && strings.Contains(err.Error(), "err_vote_recover"))
			res.ops = append(res.ops, fmt.Sprintf("MsVote %d %s %d %d %d %d %s %s %s", signerTok, vh.Z(o.Now), o.W, o.P, o.To, o.Amount,
				vh.Bool(wellformed), vh.Bool(sigOK), vh.Bool(recoverOK)))
			// expectation from the ledger (the property, not the code): is this a vote that must count?
			// a proposal whose week is over takes no more votes; the contract either refuses the vote
			// (proposal_expired) or, when that proposal is the oldest one, drops it and starts a new
			// proposal under the same id: for the property the old votes are gone either way
			expired := l != nil && o.Now >= l.expire
			if expired {
				l = nil
			}
			compatible := l == nil || (l.to == o.To && l.amount == o.Amount)
			countable := wellformed && member && sigOK && compatible && (l == nil || (!l.executed && !l.voters[signerTok]))
			if err != nil {
				res.outs = append(res.outs, "MsFail")
				res.kinds["vote-refused"]++
				if len(sts) != 0 && false {
					res.fail("refused-vote-queued-a-transfer")
				}
				if countable && !expired {
					// a refused vote that had to count; when it was the one reaching the threshold and the
					// contract could not recover the signature from valid shares the proposal can never execute
					if !recoverOK {
						res.fail("threshold-reached-but-signature-recovery-failed")
					} else {
						res.fail("valid-vote-refused")
					}
				}
				if expired {
					res.kinds["vote-refused-expired"]++
				}
				continue
			}
			ct.Commit(base, tm)
			// keep the ledger in step with what exists: proposals disappear when pruned after expiry
			for r2, l2 := range led {
				if readProp(base, ws[r2[0]].id, fmt.Sprintf("proposal-%d", r2[1])) == nil {
					_ = l2
					delete(led, r2)
				}
			}
			l = led[ref]
			if expired {
				// accepted: a new proposal was started; none of the old votes may be carried over
				if pr := readProp(base, w.id, pid); pr != nil && len(pr.Signers) > 1 {
					res.fail("expired-proposal-votes-carried-over")
				}
				delete(led, ref)
				l = nil
			}
			switch {
			case len(sts) > 1:
				res.fail("several-transfers-from-one-vote")
				res.outs = append(res.outs, "MsFail")
			case len(sts) == 1:
				st := sts[0]
				res.kinds["executed"]++
				res.outs = append(res.outs, fmt.Sprintf("(MsExecuted %d %d %d)", o.W, o.To, uint64(st.Amount)))
				if l == nil {
					l = &ledger{expire: o.Now + multisigsc.ExpirationTime, to: o.To, amount: o.Amount, voters: map[int]bool{}, signed: map[int][2]uint64{}}
					led[ref] = l
				}
				if l.executed {
					res.fail("proposal-executed-twice")
				}
				if !countable {
					res.fail("executed-by-a-vote-that-must-not-count")
				}
				l.voters[signerTok] = true
				l.signed[signerTok] = [2]uint64{uint64(o.To), signedAmount}
				for vt := range l.voters {
					switch idx := vt % 100; {
					case idx >= 16:
						res.kinds["executed-with-a-voter-of-id-10-to-14-hex"]++
					case idx >= 10:
						res.kinds["executed-with-a-voter-of-id-a-to-f-hex"]++
					}
				}
				if len(l.voters) < w.t {
					res.fail("executed-before-threshold-of-distinct-valid-votes")
				}
				l.executed = true
				if st.ClientID != w.id || st.ToClientID != recipient(l.to) || uint64(st.Amount) != l.amount {
					res.fail("executed-transfer-differs-from-proposal")
				}
				if st.PublicKey != w.pk || st.VerifySignature(true) != nil {
					res.fail("executed-transfer-signature-invalid")
				}
				// C04: another account (the wallet) is debited only with its own valid signature, for the
				// recipient and amount every counted voter signed
				if st.ClientID != w.id || st.PublicKey != w.pk || st.VerifySignature(true) != nil {
					res.c04("signed-transfer-without-valid-signature:multisig")
				}
				for _, sg := range l.signed {
					if recipient(int(sg[0])) != st.ToClientID || sg[1] != uint64(st.Amount) {
						res.c04("signed-transfer-amount-not-what-voters-signed")
					}
				}
			case strings.HasPrefix(resp, "success 0: proposal previously executed"):
				res.outs = append(res.outs, "MsAlreadyExecuted")
				res.kinds["vote-after-execution"]++
				if l == nil || !l.executed {
					res.fail("reported-executed-but-never-executed")
				}
			case strings.Contains(resp, "already voted"):
				var rem int
				fmt.Sscanf(resp, "success %d:", &rem)
				res.outs = append(res.outs, fmt.Sprintf("(MsAlreadyVoted %s)", vh.Z(int64(rem))))
				res.kinds["repeat-vote"]++
				if l == nil || !l.voters[signerTok] {
					res.fail("reported-repeat-but-first-vote")
				} else if rem != w.t-len(l.voters) {
					res.fail("repeat-vote-changed-the-count")
				}
			default:
				var rem int
				fmt.Sscanf(resp, "success %d:", &rem)
				res.outs = append(res.outs, fmt.Sprintf("(MsNeed %s)", vh.Z(int64(rem))))
				res.kinds["vote-counted"]++
				if !countable {
					res.fail("vote-counted-that-must-not-count")
				}
				if l == nil {
					l = &ledger{expire: o.Now + multisigsc.ExpirationTime, to: o.To, amount: o.Amount, voters: map[int]bool{}, signed: map[int][2]uint64{}}
					led[ref] = l
				}
				l.voters[signerTok] = true
				l.signed[signerTok] = [2]uint64{uint64(o.To), signedAmount}
				if rem != w.t-len(l.voters) {
					res.fail("remaining-votes-miscounted")
				}
			}
		}
	}
	return res
}

func coqCase(h hist, r result) string {
	return fmt.Sprintf("{| msc_ops := %s; msc_outs := %s |}", vh.List(r.ops), vh.List(r.outs))
}

func genHist(r *vh.Rand) hist {
	// mostly large wallets: threshold ids are rendered in hex, so signers #10..#15 carry ids "a".."f"
	// and #16..#20 ids "10".."14"
	h := hist{Wallets: []walletDesc{{r.Range(2, 4), r.Range(10, 20)}, {r.Range(2, 5), r.Range(16, 20)}}}
	if r.Chance(1, 5) {
		h.Wallets = []walletDesc{{2, 3}, {3, 4}}
	} else if r.Chance(1, 6) {
		h.Wallets = []walletDesc{{2, 2}, {r.Range(2, 4), r.Range(4, 5)}}
	}
	// slot 3: an account with threshold keys that never registers a wallet of its own; slot 4: a plain funded account
	h.Wallets = append(h.Wallets, walletDesc{2, 3}, walletDesc{2, 2})
	// per proposal a small committee votes (so that repeats and executions are frequent), chosen with
	// a bias to the high-index signers
	committee := map[[2]int][]int{}
	pickCommittee := func(w int) []int {
		d := h.Wallets[w-1]
		size := d.T + r.Range(0, 2)
		if size > d.N {
			size = d.N
		}
		seen := map[int]bool{}
		var c []int
		for len(c) < size {
			s := r.Range(1, d.N)
			if d.N >= 10 && r.Chance(2, 3) {
				s = r.Range(10, d.N)
				if d.N >= 16 && r.Bool() {
					s = r.Range(16, d.N)
				}
			}
			if !seen[s] {
				seen[s] = true
				c = append(c, s)
			}
		}
		return c
	}
	now := int64(r.Range(1000, 2000000000))
	for wi := 1; wi <= 2; wi++ {
		o := op{K: "reg", W: wi}
		switch x := r.Intn(12); {
		case x == 0:
			o.Flaw = []string{"dupid", "dupkey", "t1", "tbig", "scheme", "badkey", "pk", "toomany"}[r.Intn(8)]
			h.Ops = append(h.Ops, o)
			h.Ops = append(h.Ops, op{K: "reg", W: wi})
		case x == 1:
			o.By = wi%2 + 1
			h.Ops = append(h.Ops, o)
			h.Ops = append(h.Ops, op{K: "reg", W: wi})
		case x == 2 && wi == 2: // never registered
		default:
			h.Ops = append(h.Ops, o)
		}
	}
	n := r.Range(6, 30)
	type prop struct {
		to      int
		amount  uint64
		created int64
	}
	props := map[[2]int]*prop{}
	for i := 0; i < n; i++ {
		switch x := r.Intn(12); {
		case x < 7:
			now += int64(r.Range(0, 100))
		case x < 8:
			now -= int64(r.Range(1, 50))
		case x < 9:
			now += multisigsc.ExpirationTime/2 + int64(r.Range(-1, 1))
		}
		if r.Chance(1, 25) {
			h.Ops = append(h.Ops, op{K: "reg", W: r.Range(1, 2)})
			continue
		}
		w := r.Range(1, 2)
		p := r.Intn(3)
		ref := [2]int{w, p}
		pr := props[ref]
		if pr == nil {
			pr = &prop{to: r.Intn(3), amount: uint64(r.Range(1, 5)), created: now}
			props[ref] = pr
		}
		if committee[ref] == nil {
			committee[ref] = pickCommittee(w)
		}
		voter := committee[ref][r.Intn(len(committee[ref]))]
		if r.Chance(1, 8) {
			voter = r.Range(1, h.Wallets[w-1].N)
		}
		o := op{K: "vote", W: w, SW: w, S: voter, Now: now, P: p, To: pr.to, Amount: pr.amount, Sig: "ok"}
		if r.Chance(1, 6) { // aim at the edge of the week
			o.Now = pr.created + multisigsc.ExpirationTime + int64(r.Range(-1, 1))
			if r.Bool() {
				now = o.Now
			}
		}
		// the client's own date on the transaction is independent of the block time
		switch x := r.Intn(10); {
		case x < 3:
			o.TD = -int64(r.Range(1, 10))
		case x < 5:
			o.TD = int64(r.Range(1, 10))
		case x < 6:
			o.TD = -multisigsc.ExpirationTime / 2
		case x < 7: // dated just before the proposal's expiry whatever the block time is
			o.TD = pr.created + multisigsc.ExpirationTime - int64(r.Range(1, 3)) - o.Now
		}
		switch d := r.Intn(24); d {
		case 0:
			o.Sig = "otheramount"
		case 1:
			o.Sig = "otherkey"
		case 2:
			o.Sig = "garbage"
		case 3:
			o.S = 0 // stranger
		case 4:
			o.SW = w%2 + 1 // a signer of the other wallet
			o.S = r.Range(1, h.Wallets[o.SW-1].N)
		case 5:
			o.Amount++ // not what the earlier voters approved
		case 6:
			o.To = (o.To + 1) % 3
		case 7:
			o.Flaw = []string{"json", "big", "zero", "nosig"}[r.Intn(4)]
		}
		h.Ops = append(h.Ops, o)
		if o.Now >= pr.created+multisigsc.ExpirationTime {
			delete(props, ref)
			delete(committee, ref)
		}
		// 1 history in 4: account 3 (or wallet 1's owner, who already has a wallet) asks for a wallet under another
		// account's id (plain account 4, or a registered wallet's) and its signers then vote transfers out of it
		if i == n/2 && r.Chance(1, 4) {
			att := []int{3, 3, 3, 1}[r.Intn(4)]
			vic := []int{4, 4, 2, 1}[r.Intn(4)]
			if vic == att {
				vic = 4
			}
			h.Ops = append(h.Ops, op{K: "reg", W: att, Vic: vic, PK: []string{"", "", "victim", "neither"}[r.Intn(4)]})
			for s := 1; s <= h.Wallets[att-1].T+1 && s <= h.Wallets[att-1].N; s++ {
				now += int64(r.Range(0, 20))
				h.Ops = append(h.Ops, op{K: "vote", W: vic, SW: att, S: s, Now: now, P: 7, To: r.Intn(2), Amount: 700, Sig: "ok"})
			}
		}
	}
	return h
}

func sub(h hist, keep []int) hist {
	h2 := hist{Wallets: h.Wallets}
	for _, i := range keep {
		h2.Ops = append(h2.Ops, h.Ops[i])
	}
	return h2
}

var _ = hex.EncodeToString

func main() {
	o := vh.ParseFlags()
	sc.Init()
	contract = multisigsc.NewMultiSigSmartContract()
	prop := o.Prop
	if prop != "C04" {
		prop = "C21"
	}
	rep := vh.NewReport("multisig", prop, o)
	rep.Rule = "histories on the real multisigsc.Execute with real BLS threshold key shares (GenerateThresholdKeyShares, one set per wallet shape and run): two wallets, mostly 2..4-of-10..20 and 2..5-of-16..20 " +
		"(threshold ids are hex: signers #10-#15 have ids a-f, #16-#20 ids 10-14), else 2-of-3 and 3-of-4 or 2-of-2 and t-of-4/5; per proposal a committee of t..t+2 signers biased to the high-index ones votes, " +
		"registered by their own client, plus account 3 (threshold keys, no wallet) and plain account 4; 1 history in 4 has account 3 (or wallet 1's owner) request a wallet under account 4's or a registered wallet's id (public key of the sender / the victim / neither) followed by its signers' votes on transfers out of that account; (1 in 6 registrations first tried with a flaw: duplicate id/key, threshold 1 or > n, more than 20 signers, other scheme, bad key, foreign public key, other client), then 6-30 votes " +
		"on 3 proposal ids per wallet by random signers (repeats frequent), 1 in 3 flawed: signature over another amount, made with another share, garbage, stranger, signer of the other wallet, " +
		"other amount/recipient than the proposal, malformed/oversized/zero-amount/unsigned payload; block times advance, go back, jump half a week, or aim at creation + one week ± 1 s; the transaction's own creation date is chosen independently of the block time (equal, ±1-10 s, half a week earlier, or just before the proposal's expiry). " +
		"non-trivial = a proposal executed, a repeat or post-execution vote was seen and a vote was refused; distinct by full history"
	cf := &vh.CasesFile{Imports: []string{"Base.Corr", "Model.Multisig", "Corr.Multisig"}, CaseType: "ms_case", CheckFn: "ms_check"}
	reported := map[string]bool{}
	handle := func(h hist) {
		res := run(h)
		for k, n := range res.kinds {
			rep.CountN(k, n)
		}
		b, _ := json.Marshal(h)
		rep.Case(string(b), res.kinds["executed"] > 0 && res.kinds["repeat-vote"]+res.kinds["vote-after-execution"] > 0 && res.kinds["vote-refused"] > 0, h)
		cf.Add(coqCase(h, res))
		rep.CaseInputs = append(rep.CaseInputs, h)
		for _, f := range res.list(prop) {
			if reported[f] {
				continue
			}
			reported[f] = true
			f := f
			keep := vh.ShrinkIdx(len(h.Ops), func(keep []int) bool { r2 := run(sub(h, keep)); return r2.hasIn(prop, f) })
			rep.Violate(prop+":"+f, "multisig: "+f, sub(h, keep))
		}
	}
	finish := func() {
		files, err := cf.Write(o.Out, prop)
		if err != nil {
			panic(err)
		}
		rep.CaseFiles = files
		rep.ShardSize = 400
		rep.Write(o.Out)
	}
	var rh hist
	if o.LoadReplay(&rh) {
		rep.Note("replay of one history")
		handle(rh)
		finish()
		return
	}
	W := int64(multisigsc.ExpirationTime)
	v := func(w, s int, now int64, p int) op {
		return op{K: "vote", W: w, SW: w, S: s, Now: now, P: p, To: 1, Amount: 7, Sig: "ok"}
	}
	// directed: 2-of-3; repeat vote, execution, vote after execution, expiry edge, re-creation after the week
	handle(hist{Wallets: []walletDesc{{2, 3}, {3, 4}}, Ops: []op{{K: "reg", W: 1}, {K: "reg", W: 1}, v(1, 1, 1000, 0), v(1, 1, 1001, 0), v(1, 2, 1002, 0), v(1, 3, 1003, 0),
		v(1, 1, 2000, 1), v(1, 2, 2000+W-1, 1), v(1, 1, 3000, 2), v(1, 2, 3000+W, 2), v(1, 2, 2999+W, 2),
		v(1, 3, 1000+W+5, 0), v(1, 1, 1000+W+6, 0)}})
	// directed: account 3 (own group key, own shares, no wallet of its own) asks for a wallet under the id of the plain
	// account 4, its signers vote 700 tokens out of account 4; the same against the registered wallet 2
	handle(hist{Wallets: []walletDesc{{2, 3}, {3, 4}, {2, 3}, {2, 2}}, Ops: []op{{K: "reg", W: 1}, {K: "reg", W: 2}, {K: "reg", W: 3, Vic: 4, PK: "victim"}, {K: "reg", W: 3, Vic: 4, PK: "neither"},
		{K: "reg", W: 3, Vic: 4}, {K: "vote", W: 4, SW: 3, S: 1, Now: 1000, P: 0, To: 1, Amount: 700, Sig: "ok"}, {K: "vote", W: 4, SW: 3, S: 2, Now: 1001, P: 0, To: 1, Amount: 700, Sig: "ok"},
		{K: "reg", W: 3, Vic: 2}, {K: "vote", W: 2, SW: 3, S: 1, Now: 1002, P: 0, To: 1, Amount: 700, Sig: "ok"}, {K: "vote", W: 2, SW: 3, S: 2, Now: 1003, P: 0, To: 1, Amount: 700, Sig: "ok"},
		{K: "reg", W: 1, Vic: 4}}})
	// directed: the deciding vote arrives in a block at/after the expiry but is dated before it by its sender
	handle(hist{Wallets: []walletDesc{{2, 3}, {3, 4}}, Ops: []op{{K: "reg", W: 1}, v(1, 1, 1000, 0),
		{K: "vote", W: 1, SW: 1, S: 2, Now: 1000 + W, TD: -5, P: 0, To: 1, Amount: 7, Sig: "ok"},
		{K: "vote", W: 1, SW: 1, S: 2, Now: 1000 + W - 1, TD: 5, P: 0, To: 1, Amount: 7, Sig: "ok"},
		v(1, 1, 5000, 1), {K: "vote", W: 1, SW: 1, S: 3, Now: 5000 + W + 100, TD: -W, P: 1, To: 1, Amount: 7, Sig: "ok"}}})
	// directed: large wallets whose deciding voters have hex ids with letters (#10-#15) and two digits (#16-#20)
	handle(hist{Wallets: []walletDesc{{3, 20}, {2, 16}}, Ops: []op{{K: "reg", W: 1}, {K: "reg", W: 2},
		v(1, 16, 1000, 0), v(1, 20, 1001, 0), v(1, 16, 1002, 0), v(1, 10, 1003, 0), v(1, 1, 1004, 0),
		v(2, 16, 1005, 0), v(2, 1, 1006, 0),
		v(2, 11, 1007, 1), v(2, 15, 1008, 1),
		v(1, 12, 1009, 1), v(1, 13, 1010, 1), v(1, 9, 1011, 1), v(1, 17, 1012, 2), v(1, 18, 1013, 2), v(1, 19, 1014, 2)}})
	rnd := vh.NewRand(o.Seed).Fork() // Fork: NewRand(k) is NewRand(1) shifted by k-1 draws
	for i := 0; i < o.N(250, 4000); i++ {
		handle(genHist(rnd))
	}
	rep.Note("directed: 2-of-3 wallet: repeat vote, execution, vote after execution, votes at expiry-1 / expiry, re-creation of a pruned proposal id; 3-of-20 and 2-of-16 wallets decided by signers #10-#20; every execution's signed transfer is verified with SignedTransfer.VerifySignature(true) under the wallet key; key shares are freshly generated each run (decisions do not depend on them)")
	finish()
}
