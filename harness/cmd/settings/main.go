// Engine for C48 (governance settings): drives the real update functions of minersc (globals and
// settings), storagesc, faucetsc, vestingsc and zcnsc on a real StateContext, judges every
// transaction with an executable oracle that is the property statement itself, and emits the
// histories as cases for the Coq model (Corr/Settings.v).
package main

import (
	"encoding/json"
	"fmt"
	"sort"
	"strconv"
	"strings"

	cstate "0chain.net/chaincore/chain/state"
	sci "0chain.net/chaincore/smartcontractinterface"
	"0chain.net/smartcontract/faucetsc"
	"0chain.net/smartcontract/minersc"
	"0chain.net/smartcontract/storagesc"
	"0chain.net/smartcontract/vestingsc"
	"0chain.net/smartcontract/zcnsc"
	"verifharness/sc"
	"verifharness/vh"
)

var contracts [nContracts]sci.SmartContractInterface

func initContracts() {
	m := minersc.NewMinerSmartContract()
	contracts = [nContracts]sci.SmartContractInterface{m, m, storagesc.NewStorageSmartContract(), faucetsc.NewFaucetSmartContract(),
		vestingsc.NewVestingSmartContract(), zcnsc.NewZCNSmartContract()}
}

// what one executed op looked like
type opRes struct {
	out     string // OutOk OutErrOwner OutReject OutPanic
	errText string
	before  [nContracts]snap
	after   [nContracts]snap
	pendB   map[string]string
	pendA   map[string]string
	owner   string            // owner the contract had before the op
	caller  string            // resolved caller
	decodes bool              // input decodes as {"fields": map[string]string}
	entries []entry           // decoded request (JSON order for built inputs, sorted for raw inputs)
	validB  bool              // the contract's validation predicate held before the op
	validA  error             // ... and its verdict after the op
	rawGlob map[string]string // globals: the stored fields after the op, as stored
}

func buildInput(o op) []byte {
	if o.RawInput {
		return []byte(o.Raw)
	}
	var b strings.Builder
	b.WriteString(`{"fields":{`)
	for i, e := range o.Entries {
		if i > 0 {
			b.WriteString(",")
		}
		k, _ := json.Marshal(e.K)
		v, _ := json.Marshal(e.V)
		b.Write(k)
		b.WriteString(":")
		b.Write(v)
	}
	b.WriteString("}}")
	return []byte(b.String())
}

func decodeInput(o op, input []byte) (bool, []entry) {
	if !o.RawInput {
		return true, o.Entries
	}
	var m struct {
		Fields map[string]string `json:"fields"`
	}
	if err := json.Unmarshal(input, &m); err != nil {
		return false, nil
	}
	var es []entry
	for k, v := range m.Fields {
		es = append(es, entry{k, v})
	}
	sort.Slice(es, func(i, j int) bool { return es[i].K < es[j].K })
	return true, es
}

func ownerOf(k int, s [nContracts]snap) string {
	src := k
	if k == kGlobals {
		src = kMiner
	}
	v := s[src]["owner_id"]
	// "SvS "..."%string" -> raw
	v = strings.TrimPrefix(v, "SvS \"")
	v = strings.TrimSuffix(v, "\"%string")
	return strings.ReplaceAll(v, "\"\"", "\"")
}

func execOp(k int, ctx *cstate.StateContext, o op, seq int) opRes {
	var r opRes
	r.before = snapAll(ctx)
	r.pendB = pendingOf(ctx)
	r.owner = ownerOf(k, r.before)
	r.caller = o.Caller
	if o.Caller == "owner" {
		r.caller = r.owner
	}
	r.validB = validateStored(k, ctx) == nil
	fn := kFunc[k]
	input := buildInput(o)
	if o.Kind == "commit" {
		fn = "commit_settings_changes"
		input = []byte(`{"round":10}`)
		r.decodes = true
	} else {
		r.decodes, r.entries = decodeInput(o, input)
	}
	txn := sc.Txn(fmt.Sprintf("%064x", seq+1), r.caller, kAddr[k], 0, 1700000000)
	func() {
		defer func() {
			if p := recover(); p != nil {
				r.out = "OutPanic"
				r.errText = fmt.Sprint(p)
			}
		}()
		_, err := contracts[k].Execute(txn, fn, input, ctx)
		switch {
		case err == nil:
			r.out = "OutOk"
		case strings.Contains(err.Error(), "unauthorized access"):
			r.out, r.errText = "OutErrOwner", err.Error()
		default:
			r.out, r.errText = "OutReject", err.Error()
		}
	}()
	r.after = snapAll(ctx)
	r.pendA = pendingOf(ctx)
	r.validA = validateStored(k, ctx)
	if k == kGlobals {
		gs := &minersc.GlobalSettings{Fields: map[string]string{}}
		if err := ctx.GetTrieNode(minersc.GLOBALS_KEY, gs); err == nil {
			r.rawGlob = gs.Fields
		}
	}
	return r
}

func runHist(h hist) ([]opRes, []byte) {
	ctx, mpt := freshState(h.Demeter, h.Cached)
	var out []opRes
	for i, o := range h.Ops {
		out = append(out, execOp(h.Contract, ctx, o, i))
	}
	return out, mpt.GetRoot()
}

type viol struct{ sig, desc string }

func mapEq(a, b map[string]string) bool { return snapEq(snap(a), snap(b)) }

// judge: the property, evaluated on one executed op.
func judge(h hist, o op, r opRes, count func(string)) []viol {
	k := h.Contract
	var vs []viol
	add := func(sig, f string, a ...interface{}) {
		vs = append(vs, viol{"C48:" + sig, kName[k] + ": " + fmt.Sprintf(f, a...)})
	}
	for j := 0; j < nContracts; j++ {
		if j != k && !snapEq(r.before[j], r.after[j]) {
			add("other-contract-settings-changed", "settings of %s changed: %v", kName[j], snapDiff(r.before[j], r.after[j]))
		}
	}
	changed := snapDiff(r.before[k], r.after[k])
	pendSame := mapEq(r.pendB, r.pendA)
	var ev []evald
	nonfinite, allOther := false, true
	for _, e := range r.entries {
		x := specEval(k, e)
		ev = append(ev, x)
		count("entry-" + x.status)
		if x.status == stNonFinite {
			nonfinite = true
		} else if x.status != stValid {
			allOther = false
		}
	}
	isOwner := r.caller == r.owner
	if r.out == "OutPanic" {
		if o.Kind == "update" && isOwner && nonfinite {
			add("nonfinite-coin-value-panics", "update panics instead of rejecting a non-finite coin value: %s", r.errText)
		} else {
			add("panic", "panic: %s", r.errText)
		}
	}
	if o.Kind == "update" && !isOwner {
		count("op-non-owner")
		if r.out != "OutErrOwner" {
			add("non-owner-accepted", "caller %q is not the owner %q but the outcome is %s %s", r.caller, r.owner, r.out, r.errText)
		}
	}
	if r.out != "OutOk" {
		if len(changed) > 0 || !pendSame {
			add("rejected-change-modified-settings", "outcome %s (%s) but settings changed: %v pending-changed=%v", r.out, r.errText, changed, !pendSame)
		}
		count("op-" + r.out)
		return vs
	}
	// ---- accepted ----
	if o.Kind == "update" {
		if !isOwner {
			return vs // already reported
		}
		if !r.decodes {
			add("undecodable-input-accepted", "input %q does not decode but the update succeeded", o.Raw)
			return vs
		}
	}
	// the entries this op applies under the specification
	applied := r.entries
	toConf := true
	if k == kStorage {
		if o.Kind == "commit" {
			applied = nil
			for _, pk := range sortedKeys(r.pendB) {
				applied = append(applied, entry{pk, r.pendB[pk]})
			}
			ev = nil
			for _, e := range applied {
				ev = append(ev, specEval(k, e))
			}
		} else {
			toConf = h.Demeter
			if len(r.entries) > 0 {
				// the request is merged into the pending-changes node
				want := map[string]string{}
				for pk, pv := range r.pendB {
					want[pk] = pv
				}
				for _, e := range r.entries {
					want[e.K] = e.V
				}
				if !mapEq(want, r.pendA) {
					add("pending-changes-wrong", "pending changes after update are %v, expected %v", r.pendA, want)
				}
				if h.Demeter {
					// the whole merged map was applied
					applied = nil
					for _, pk := range sortedKeys(want) {
						applied = append(applied, entry{pk, want[pk]})
					}
					ev = nil
					for _, e := range applied {
						ev = append(ev, specEval(k, e))
					}
				}
			} else if !pendSame {
				add("pending-changes-wrong", "empty request changed the pending changes")
			}
		}
		if o.Kind == "commit" && !pendSame {
			add("pending-changes-wrong", "commit changed the pending changes")
		}
	}
	expect := map[string]string{} // setting -> value
	tolerated := map[string]bool{}
	aliased := false
	for i, x := range ev {
		switch x.status {
		case stValid:
			if _, dup := expect[x.setting]; dup {
				aliased = true
			}
			expect[x.setting] = x.want
		case stUnkCost:
			add("unknown-cost-key-accepted", "key %q is not a listed setting but was accepted (stored as a cost)", applied[i].K)
			tolerated[x.setting] = true
		case stBadCast:
			add("float-cast-coin:"+kName[k]+"."+x.setting, "value %q is outside the coin range but was accepted", applied[i].V)
			tolerated[x.setting] = true
		default:
			if costCutsLoop(k, applied) {
				add("cost-key-ends-update-loop:"+kName[k], "entry %q=%q is %s but the operation succeeded: a cost key iterated before it ended the loop", applied[i].K, applied[i].V, x.status)
			} else {
				add("accepted-invalid-entry", "entry %q=%q is %s but the operation succeeded", applied[i].K, applied[i].V, x.status)
			}
			tolerated[x.setting] = true
		}
	}
	if k == kGlobals {
		if r.after[k]["#version"] != incVersion(r.before[k]["#version"]) {
			add("wrong-value-stored", "globals version %s -> %s", r.before[k]["#version"], r.after[k]["#version"])
		}
		delete(changed, "#version")
		// what was accepted must be what every node reads back (no fallback to the local yaml)
		for _, e := range r.entries {
			sp, ok := specs[k][e.K]
			if !ok || !sp.mutable {
				continue
			}
			if d := readBackDiffers(r.rawGlob, e.K, sp.kind); strings.HasPrefix(d, "panic: ") {
				add("accepted-global-panics-on-read-back", "%s = %q was accepted and stored; chain.ConfigImpl.Update panics on it: %s", e.K, r.rawGlob[e.K], d)
				break
			} else if d != "" {
				add("accepted-global-not-read-back", "%s = %q was accepted and stored, but chain.ConfigImpl.Update cannot parse it with the type of its getter and falls back to the local yaml: %s", e.K, r.rawGlob[e.K], d)
				break
			}
		}
	}
	if !toConf {
		if len(changed) > 0 {
			add("unrequested-setting-changed", "update before the commit changed the settings: %v", changed)
		}
	} else if !aliased {
		for s, v := range changed {
			w, ok := expect[s]
			switch {
			case tolerated[s]:
			case !ok:
				add("unrequested-setting-changed", "setting %q changed to %s but no accepted entry names it", s, v)
			case w != v:
				add("wrong-value-stored", "setting %q is %s after the update, the request says %s", s, v, w)
			}
		}
		for s, w := range expect {
			if r.after[k][s] != w {
				if costCutsLoop(k, applied) && r.after[k][s] == r.before[k][s] {
					add("cost-key-ends-update-loop:"+kName[k], "setting %q was requested (%s) and the update succeeded, but it was not applied: a cost key iterated before it ended the loop", s, w)
				} else {
					add("wrong-value-stored", "setting %q is %s after the update, the request says %s", s, r.after[k][s], w)
				}
			}
		}
	}
	// ordered duration pairs, compared in the contract's unit (whole seconds for vestingsc), independent of the
	// contract's own validate(): an accepted update must leave them in order
	if r.out == "OutOk" && o.Kind == "update" {
		ns := func(name string) (int64, bool) {
			v, ok := r.after[k][name]
			if !ok || !strings.HasPrefix(v, "SvZ ") {
				return 0, false
			}
			z, err := strconv.ParseInt(strings.Trim(strings.TrimPrefix(v, "SvZ "), "()"), 10, 64)
			return z, err == nil
		}
		if k == kVesting {
			mn, ok1 := ns("min_duration")
			mx, ok2 := ns("max_duration")
			if ok1 && ok2 && (mn/1e9 < 1 || mx/1e9 <= mn/1e9) {
				add("duration-order-not-validated-in-seconds:vestingsc", "accepted update leaves min_duration = %dns, max_duration = %dns: in the contract's unit (whole seconds) max_duration is not greater than min_duration (or min_duration < 1s)", mn, mx)
			}
		}
	}
	if r.validA != nil && r.validB && k != kGlobals {
		switch {
		case k == kVesting && o.Kind == "update":
			add("vestingsc-update-not-validated", "stored config fails the contract's own validation: %v", r.validA)
		case k == kStorage && o.Kind == "update" && h.Demeter:
			add("storagesc-update-after-demeter-not-validated", "stored config fails the contract's own validation: %v", r.validA)
		default:
			add("invalid-config-stored", "stored config fails the contract's own validation: %v", r.validA)
		}
	}
	_ = allOther
	count("op-OutOk")
	if len(changed) > 0 {
		count("op-changed-settings")
	}
	return vs
}

func incVersion(v string) string {
	var n int64
	fmt.Sscanf(v, "SvZ %d", &n)
	return svI(n + 1)
}

// evaluate a history: run, judge, re-run for determinism. Returns the violations (first per signature).
func evalHist(h hist, reruns int, count func(string)) ([]viol, []opRes) {
	res, root := runHist(h)
	var vs []viol
	for i, o := range h.Ops {
		vs = append(vs, judge(h, o, res[i], count)...)
	}
	for n := 0; n < reruns; n++ {
		res2, root2 := runHist(h)
		same := string(root) == string(root2)
		for i := range res {
			if res[i].out != res2[i].out || !snapEq(res[i].after[h.Contract], res2[i].after[h.Contract]) || !mapEq(res[i].pendA, res2[i].pendA) {
				same = false
			}
		}
		if !same {
			cut := false
			for _, o := range h.Ops {
				cut = cut || costCutsLoop(h.Contract, o.Entries)
			}
			if hasAlias(h) {
				vs = append(vs, viol{"C48:aliased-keys-applied-in-map-order", kName[h.Contract] +
					": two request keys name one setting; repeating the same transactions on the same state gives different settings / state roots"})
			} else if cut {
				vs = append(vs, viol{"C48:cost-key-ends-update-loop:" + kName[h.Contract], kName[h.Contract] +
					": a cost key ends the update loop, the entries iterated after it are dropped; repeating the same transactions on the same state gives different settings / state roots"})
			} else {
				vs = append(vs, viol{"C48:nondeterministic-result", kName[h.Contract] + ": repeating the same transactions on the same state gives different results"})
			}
			break
		}
	}
	return vs, res
}

// two distinct request keys that name one setting (storagesc: also across requests, they meet in the pending map)
func hasAlias(h hist) bool {
	seen := map[string]string{}
	for _, o := range h.Ops {
		if h.Contract != kStorage {
			seen = map[string]string{}
		}
		for _, e := range o.Entries {
			s := settingOf(h.Contract, e)
			if k0, ok := seen[s]; ok && k0 != e.K {
				return true
			}
			seen[s] = e.K
		}
	}
	return false
}

// faucetsc/vestingsc: the request has a valid listed cost entry and something else besides it
func costCutsLoop(k int, es []entry) bool {
	if k != kFaucet && k != kVesting || len(es) < 2 {
		return false
	}
	for _, e := range es {
		if x := specEval(k, e); x.status == stValid && strings.HasPrefix(x.setting, "cost.") {
			return true
		}
	}
	return false
}

// ---- Coq case ----

func coqObs(r opRes, k int) string {
	d := snapDiff(r.before[k], r.after[k])
	return vh.Pair(r.out, coqStore(d))
}

// The model takes the request in Go's map iteration order, which the engine cannot observe directly.
// Where the order matters (aliased keys; cost keys in faucetsc/vestingsc) it is inferred from the outcome;
// ok=false when the outcome does not determine it (the case is then not compared with the model).
func orderByOutcome(k int, es []entry, r opRes) (out []entry, ok bool) {
	out = append([]entry{}, es...)
	before, after := r.before[k], r.after[k]
	if costCutsLoop(k, es) {
		var front, mid, rest []entry
		switch r.out {
		case "OutOk":
			for _, e := range es {
				x := specEval(k, e)
				visible := x.status == stValid && after[x.setting] == x.want && before[x.setting] != x.want
				switch {
				case visible && strings.HasPrefix(x.setting, "cost."):
					mid = append(mid, e)
				case visible:
					front = append(front, e)
				default:
					rest = append(rest, e)
				}
			}
			if len(mid) != 1 {
				return nil, false
			}
			for _, e := range rest { // a valid non-cost entry that shows no effect must be a no-op to be placeable anywhere
				x := specEval(k, e)
				if x.status == stValid && !strings.HasPrefix(x.setting, "cost.") && before[x.setting] == x.want {
					return nil, false
				}
			}
		case "OutPanic", "OutReject":
			want := stNonFinite
			for _, e := range es {
				x := specEval(k, e)
				bad := x.status != stValid && x.status != stNonFinite
				if r.out == "OutPanic" {
					bad = x.status == want
				}
				if bad && len(front) == 0 {
					front = append(front, e)
				} else {
					rest = append(rest, e)
				}
			}
			if len(front) == 0 {
				return nil, false // rejected by validation after a partial application: order unknown
			}
		default:
			return out, true
		}
		return append(append(front, mid...), rest...), true
	}
	// aliases: the entry whose value is in force afterwards goes last
	cnt := map[string]int{}
	for _, e := range es {
		cnt[specEval(k, e).setting]++
	}
	var lost, won []entry
	for _, e := range es {
		x := specEval(k, e)
		if cnt[x.setting] > 1 && x.status == stValid && after[x.setting] == x.want {
			won = append(won, e)
		} else {
			lost = append(lost, e)
		}
	}
	return append(lost, won...), true
}

func coqCase(h hist, res []opRes) (string, bool) {
	k := h.Contract
	var ops, obs []string
	final := res[len(res)-1]
	for i, o := range h.Ops {
		r := res[i]
		if o.Kind == "commit" {
			ops = append(ops, "OpCommit")
		} else {
			es := r.entries // the model visits them in sorted key order, like config.SortedKeys
			_ = final
			ents := make([]string, len(es))
			for j, e := range es {
				ents[j] = coqEntry(k, e)
			}
			ops = append(ops, fmt.Sprintf("(OpUpdate (Build_st_txn %s %s %s))", vh.Str(r.caller), vh.Bool(r.decodes), vh.List(ents)))
		}
		obs = append(obs, coqObs(r, k))
	}
	pend := []string{}
	last := res[len(res)-1].pendA
	for _, pk := range sortedKeys(last) {
		pend = append(pend, vh.Pair(vh.Str(pk), vh.Str(last[pk])))
	}
	env := fmt.Sprintf("(Build_st_env %s %s)", vh.Bool(h.Demeter), vh.Str(ownerOf(kMiner, res[0].before)))
	// the initial settings handed to the model: everything the history can read or write (all non-cost
	// settings of a contract - its validation reads them - and every setting named by a request); the
	// untouched rest (most of the ~90 chain globals, untouched costs) is left out to keep the case small
	touched := map[string]bool{"#version": true}
	for _, r := range res {
		for _, e := range r.entries {
			touched[specEval(k, e).setting] = true
		}
	}
	init := snap{}
	for name, v := range res[0].before[k] {
		if touched[name] || (k != kGlobals && !strings.HasPrefix(name, "cost.")) {
			init[name] = v
		}
	}
	return fmt.Sprintf("(Build_st_case %s %s %s %s %s %s)", kCoq[k], env, coqStore(init), vh.List(ops), vh.List(obs), vh.List(pend)), true
}

func histKey(h hist) string {
	b, _ := json.Marshal(h)
	return string(b)
}

func shrink(h hist, sig string) hist {
	fails := func(h2 hist) bool {
		if len(h2.Ops) == 0 {
			return false
		}
		re := 0
		if strings.Contains(sig, "aliased") || strings.Contains(sig, "nondeterministic") {
			re = 24
		}
		vs, _ := evalHist(h2, re, func(string) {})
		for _, v := range vs {
			if v.sig == sig {
				return true
			}
		}
		return false
	}
	keep := vh.ShrinkIdx(len(h.Ops), func(keep []int) bool {
		h2 := h
		h2.Ops = nil
		for _, i := range keep {
			h2.Ops = append(h2.Ops, h.Ops[i])
		}
		return fails(h2)
	})
	h2 := h
	h2.Ops = nil
	for _, i := range keep {
		h2.Ops = append(h2.Ops, h.Ops[i])
	}
	// then the entries of each remaining op
	for oi := range h2.Ops {
		es := h2.Ops[oi].Entries
		if len(es) < 2 {
			continue
		}
		ke := vh.ShrinkIdx(len(es), func(keep []int) bool {
			h3 := h2
			h3.Ops = append([]op{}, h2.Ops...)
			var e2 []entry
			for _, i := range keep {
				e2 = append(e2, es[i])
			}
			h3.Ops[oi].Entries = e2
			return len(e2) > 0 && fails(h3)
		})
		var e2 []entry
		for _, i := range ke {
			e2 = append(e2, es[i])
		}
		h2.Ops[oi].Entries = e2
	}
	return h2
}

func main() {
	o := vh.ParseFlags()
	rep := vh.NewReport("settings", "C48", o)
	rep.Rule = "histories of 2-7 governance transactions per contract (chain globals, minersc, storagesc incl. commit_settings_changes and the demeter fork, " +
		"faucetsc, vestingsc, zcnsc) on a real StateContext initialised from docker.local/config/sc.yaml; requests of 0-12 entries mixing valid, " +
		"limit, unparsable, unknown, immutable and blank-padded keys/values, non-owner callers, owner hand-over, malformed JSON; plus directed histories " +
		"for every trigger found by reading; non-trivial = at least one op changed settings and at least one op was rejected; distinct by full history"
	setupConfig()
	buildSpecs()
	initContracts()
	cf := &vh.CasesFile{Imports: []string{"Base.Corr", "Model.Settings", "Corr.Settings"}, CaseType: "st_case", CheckFn: "st_check", Shard: 40}

	handle := func(h hist, reruns int) {
		local := map[string]int{}
		vs, res := evalHist(h, reruns, func(s string) { local[s]++ })
		for s, n := range local {
			rep.CountN(s, n)
		}
		rep.Count("hist-" + kName[h.Contract])
		rep.Case(histKey(h), local["op-changed-settings"] > 0 && (local["op-OutReject"]+local["op-OutErrOwner"] > 0), h)
		if term, ok := coqCase(h, res); ok {
			cf.Add(term)
			rep.CaseInputs = append(rep.CaseInputs, h)
		} else {
			rep.Count("case-not-compared-order-undetermined")
		}
		seen := map[string]bool{}
		for _, v := range vs {
			if seen[v.sig] {
				continue
			}
			seen[v.sig] = true
			already := false
			for _, old := range rep.Violations {
				if old.Signature == v.sig {
					already = true
				}
			}
			if already {
				continue
			}
			rep.Violate(v.sig, v.desc, shrink(h, v.sig))
		}
	}
	finish := func() {
		files, err := cf.Write(o.Out, "C48")
		if err != nil {
			panic(err)
		}
		rep.CaseFiles = files
		rep.ShardSize = 40
		rep.Write(o.Out)
	}

	var rh hist
	if o.LoadReplay(&rh) {
		handle(rh, 24)
		finish()
		return
	}
	for _, p := range probes() {
		re := 2
		if strings.HasPrefix(p.Probe, "alias") {
			re = 24
		}
		if strings.HasPrefix(p.Probe, "global-") {
			re = 1
		}
		handle(p, re)
	}
	rnd := vh.NewRand(o.Seed)
	n := o.N(55, 600)
	for k := 0; k < nContracts; k++ {
		for i := 0; i < n; i++ {
			handle(genHist(rnd, k), 1)
		}
	}
	rep.Note("each history is executed on a fresh state and re-executed (1x random, 2x directed, 24x alias probes) to compare outcomes and state roots")
	rep.Note("Coq cases: every history (directed and random); parse results of strconv/time/hex/currency on each request value are inputs of the model")
	finish()
}
