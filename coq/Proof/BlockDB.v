(* Proofs about the block database model (property C26). *)
From ZC Require Import Model.BlockDB.
From Coq Require Import ZifyBool ZifyNat.
Open Scope Z_scope.

Ltac Zify.zify_post_hook ::= Z.to_euclidean_division_equations.

(* ---------- bytes.Compare ---------- *)

Lemma bd_cmp_refl a : bd_cmp a a = Eq.
Proof. induction a as [|x a IH]; cbn; [reflexivity|]. rewrite Z.compare_refl. exact IH. Qed.

Lemma bd_cmp_eq a : forall b, bd_cmp a b = Eq -> a = b.
Proof.
  induction a as [|x a IH]; intros [|y b] H; cbn in H; try discriminate; [reflexivity|].
  destruct (Z.compare x y) eqn:E; try discriminate.
  apply Z.compare_eq in E. subst. f_equal. apply IH. exact H.
Qed.

Lemma bd_cmp_antisym a : forall b, bd_cmp b a = CompOpp (bd_cmp a b).
Proof.
  induction a as [|x a IH]; intros [|y b]; cbn; try reflexivity.
  rewrite (Z.compare_antisym x y). destruct (Z.compare x y); cbn; auto.
Qed.

Lemma bd_cmp_gt_lt a b : bd_cmp a b = Gt -> bd_cmp b a = Lt.
Proof. intros H. rewrite bd_cmp_antisym, H. reflexivity. Qed.

Lemma bd_cmp_lt_gt a b : bd_cmp a b = Lt -> bd_cmp b a = Gt.
Proof. intros H. rewrite bd_cmp_antisym, H. reflexivity. Qed.

Lemma bd_cmp_lt_trans a : forall b c, bd_cmp a b = Lt -> bd_cmp b c = Lt -> bd_cmp a c = Lt.
Proof.
  induction a as [|x a IH]; intros [|y b] [|z c] H1 H2; cbn in *; try discriminate; try reflexivity.
  destruct (Z.compare x y) eqn:E1; try discriminate;
  destruct (Z.compare y z) eqn:E2; try discriminate.
  - apply Z.compare_eq in E1, E2. subst. rewrite Z.compare_refl. eapply IH; eauto.
  - apply Z.compare_eq in E1. subst. rewrite E2. reflexivity.
  - apply Z.compare_eq in E2. subst. rewrite E1. reflexivity.
  - rewrite Z.compare_lt_iff in E1. rewrite Z.compare_lt_iff in E2.
    assert (Hxz : x < z) by lia.
    apply Z.compare_lt_iff in Hxz. rewrite Hxz. reflexivity.
Qed.

(* ---------- little endian ---------- *)

Lemma bd_le_length n : forall z, length (bd_le n z) = n.
Proof. induction n as [|n IH]; intros z; cbn; [reflexivity|]. rewrite IH. reflexivity. Qed.

Lemma bd_unle_le n : forall z, bd_unle (bd_le n z) = z mod 2 ^ (8 * Z.of_nat n).
Proof.
  induction n as [|n IH]; intros z.
  - cbn. rewrite Z.mod_1_r. reflexivity.
  - cbn [bd_le bd_unle]. rewrite IH.
    replace (8 * Z.of_nat (S n)) with (8 + 8 * Z.of_nat n) by lia.
    rewrite Z.pow_add_r by lia. change (2 ^ 8) with 256.
    rewrite Z.rem_mul_r by (try lia; apply Z.pow_pos_nonneg; lia). reflexivity.
Qed.

Lemma bd_dec32 z : 0 <= z < 2 ^ 31 -> bd_signed 32 (bd_unle (bd_le 4 z)) = z.
Proof.
  intros H. rewrite bd_unle_le. change (8 * Z.of_nat 4) with 32.
  change (2 ^ 31) with 2147483648 in H.
  rewrite Z.mod_small by (change (2 ^ 32) with 4294967296; lia).
  unfold bd_signed. change (2 ^ (32 - 1)) with 2147483648.
  destruct (z <? 2147483648) eqn:E; [reflexivity|]. apply Z.ltb_ge in E. lia.
Qed.

Lemma bd_dec64 z : 0 <= z < 2 ^ 63 -> bd_signed 64 (bd_unle (bd_le 8 z)) = z.
Proof.
  intros H. rewrite bd_unle_le. change (8 * Z.of_nat 8) with 64.
  change (2 ^ 63) with 9223372036854775808 in H.
  rewrite Z.mod_small by (change (2 ^ 64) with 18446744073709551616; lia).
  unfold bd_signed. change (2 ^ (64 - 1)) with 9223372036854775808.
  destruct (z <? 9223372036854775808) eqn:E; [reflexivity|]. apply Z.ltb_ge in E. lia.
Qed.

(* ---------- list helpers ---------- *)

Lemma bd_skipn_add {A} a : forall b (l : list A), skipn (a + b) l = skipn b (skipn a l).
Proof.
  induction a as [|a IH]; intros b l; [reflexivity|].
  destruct l as [|x l]; cbn [Nat.add skipn]; [rewrite skipn_nil; reflexivity|]. apply IH.
Qed.

Lemma bd_skipn_app_exact {A} (l l' : list A) n : n = length l -> skipn n (l ++ l') = l'.
Proof.
  intros ->. induction l as [|x l IH]; cbn; auto.
Qed.

Lemma bd_firstn_app_exact {A} (l l' : list A) n : n = length l -> firstn n (l ++ l') = l.
Proof.
  intros ->. induction l as [|x l IH]; cbn; [reflexivity|]. f_equal. exact IH.
Qed.

Lemma bd_firstn_prefix {A} (l l' : list A) n : (n <= length l)%nat -> firstn n (l ++ l') = firstn n l.
Proof.
  revert n. induction l as [|x l IH]; intros n H; cbn in H.
  - assert (n = 0)%nat by lia. subst. reflexivity.
  - destruct n; [reflexivity|]. cbn. f_equal. apply IH. lia.
Qed.

Lemma bd_skipn_prefix {A} (l l' : list A) n : (n <= length l)%nat -> skipn n (l ++ l') = skipn n l ++ l'.
Proof.
  revert n. induction l as [|x l IH]; intros n H; cbn in H.
  - assert (n = 0)%nat by lia. subst. reflexivity.
  - destruct n; [reflexivity|]. cbn. apply IH. lia.
Qed.

(* ---------- the GetOffset loop ---------- *)

Section Search.
  Variables (buf : bd_bytes) (klen : nat) (key : bd_bytes).
  Let K i := bd_entry_key buf klen i.
  Let O i := bd_entry_off buf klen i.

  Lemma bd_mid_bounds lo hi : 0 <= lo -> lo <= hi -> lo <= Z.quot (lo + hi) 2 <= hi.
  Proof. intros. lia. Qed.

  (* a single remaining candidate that does not match: the loop state never changes *)
  Lemma bd_get_go_stuck lo : bd_cmp (K lo) key <> Eq ->
    forall fuel, bd_get_go fuel buf klen key lo lo = BdOutOfFuel.
  Proof.
    intros Hne fuel. induction fuel as [|f IH]; [reflexivity|].
    cbn [bd_get_go]. rewrite Z.leb_refl.
    replace (Z.quot (lo + lo) 2) with lo by lia.
    fold (K lo). destruct (bd_cmp (K lo) key); [congruence| |]; rewrite Z.eqb_refl; exact IH.
  Qed.

  (* whatever is found is an entry of the buffer whose key equals the searched key *)
  Lemma bd_get_go_found_inv fuel : forall lo hi off, 0 <= lo ->
    bd_get_go fuel buf klen key lo hi = BdFound off ->
    exists i, lo <= i <= hi /\ K i = key /\ off = O i.
  Proof.
    induction fuel as [|f IH]; intros lo hi off Hlo H; [discriminate|].
    cbn [bd_get_go] in H. destruct (lo <=? hi) eqn:Hle; [|discriminate].
    apply Z.leb_le in Hle. pose proof (bd_mid_bounds lo hi Hlo Hle) as Hm.
    set (mid := Z.quot (lo + hi) 2) in *. fold (K mid) in H.
    destruct (bd_cmp (K mid) key) eqn:Hc.
    - inversion H. exists mid. split; [lia|]. split; [apply bd_cmp_eq; exact Hc|reflexivity].
    - destruct (lo =? hi) eqn:He.
      + apply IH in H; auto.
      + apply IH in H; [|lia]. destruct H as (i & Hi & Hk & Ho). exists i. split; [lia|auto].
    - destruct (lo =? hi) eqn:He.
      + apply IH in H; auto.
      + apply IH in H; [|lia]. destruct H as (i & Hi & Hk & Ho). exists i. split; [lia|auto].
  Qed.

  Lemma bd_get_fix_found_inv fuel : forall lo hi off, 0 <= lo ->
    bd_get_fix fuel buf klen key lo hi = BdFound off ->
    exists i, lo <= i <= hi /\ K i = key /\ off = O i.
  Proof.
    induction fuel as [|f IH]; intros lo hi off Hlo H; [discriminate|].
    cbn [bd_get_fix] in H. destruct (lo <=? hi) eqn:Hle; [|discriminate].
    apply Z.leb_le in Hle. pose proof (bd_mid_bounds lo hi Hlo Hle) as Hm.
    set (mid := Z.quot (lo + hi) 2) in *. fold (K mid) in H.
    destruct (bd_cmp (K mid) key) eqn:Hc.
    - inversion H. exists mid. split; [lia|]. split; [apply bd_cmp_eq; exact Hc|reflexivity].
    - destruct (lo =? hi) eqn:He; [discriminate|].
      apply IH in H; [|lia]. destruct H as (i & Hi & Hk & Ho). exists i. split; [lia|auto].
    - destruct (lo =? hi) eqn:He; [discriminate|].
      apply IH in H; [|lia]. destruct H as (i & Hi & Hk & Ho). exists i. split; [lia|auto].
  Qed.

  (* more fuel does not change a result *)
  Lemma bd_get_go_mono fuel : forall lo hi r,
    bd_get_go fuel buf klen key lo hi = r -> r <> BdOutOfFuel ->
    forall fuel', (fuel <= fuel')%nat -> bd_get_go fuel' buf klen key lo hi = r.
  Proof.
    induction fuel as [|f IH]; intros lo hi r H Hr fuel' Hf; [cbn in H; congruence|].
    destruct fuel' as [|f']; [lia|]. cbn [bd_get_go] in *.
    destruct (lo <=? hi); [|exact H].
    destruct (bd_cmp _ key); [exact H| |]; destruct (lo =? hi); eapply IH; eauto; lia.
  Qed.

  (* running out of fuel with more fuel than the interval is long means the loop is stuck
     for good: no amount of fuel ends it *)
  Lemma bd_get_go_diverges fuel : forall lo hi, 0 <= lo -> lo <= hi + 1 -> hi - lo + 2 <= Z.of_nat fuel ->
    bd_get_go fuel buf klen key lo hi = BdOutOfFuel ->
    forall fuel', bd_get_go fuel' buf klen key lo hi = BdOutOfFuel.
  Proof.
    induction fuel as [|f IH]; intros lo hi Hlo Hlh Hf H fuel'; [lia|].
    - cbn [bd_get_go] in H. destruct (lo <=? hi) eqn:Hle; [|discriminate].
      apply Z.leb_le in Hle. pose proof (bd_mid_bounds lo hi Hlo Hle) as Hm.
      set (mid := Z.quot (lo + hi) 2) in *. fold (K mid) in H.
      destruct (bd_cmp (K mid) key) eqn:Hc; [discriminate| |].
      + destruct (lo =? hi) eqn:He.
        * apply Z.eqb_eq in He. subst hi. assert (mid = lo) by lia.
          apply bd_get_go_stuck. rewrite <- H0. congruence.
        * apply Z.eqb_neq in He. destruct fuel' as [|f']; [reflexivity|].
          cbn [bd_get_go]. apply Z.leb_le in Hle. rewrite Hle. fold mid. fold (K mid). rewrite Hc.
          apply Z.eqb_neq in He. rewrite He. apply IH; auto; lia.
      + destruct (lo =? hi) eqn:He.
        * apply Z.eqb_eq in He. subst hi. assert (mid = lo) by lia.
          apply bd_get_go_stuck. rewrite <- H0. congruence.
        * apply Z.eqb_neq in He. destruct fuel' as [|f']; [reflexivity|].
          cbn [bd_get_go]. apply Z.leb_le in Hle. rewrite Hle. fold mid. fold (K mid). rewrite Hc.
          apply Z.eqb_neq in He. rewrite He. apply IH; auto; lia.
  Qed.

  (* the repaired loop always ends within interval length + 1 iterations *)
  Lemma bd_get_fix_terminates fuel : forall lo hi, 0 <= lo -> lo <= hi + 1 -> hi - lo + 2 <= Z.of_nat fuel ->
    bd_get_fix fuel buf klen key lo hi <> BdOutOfFuel.
  Proof.
    induction fuel as [|f IH]; intros lo hi Hlo Hlh Hf; [lia|].
    - cbn [bd_get_fix]. destruct (lo <=? hi) eqn:Hle; [|discriminate].
      apply Z.leb_le in Hle. pose proof (bd_mid_bounds lo hi Hlo Hle) as Hm.
      set (mid := Z.quot (lo + hi) 2) in *.
      destruct (bd_cmp _ key); [discriminate| |]; destruct (lo =? hi); try discriminate; apply IH; lia.
  Qed.

  (* when the loop as written ends, the repaired loop gives the same answer *)
  Lemma bd_get_go_fix fuel : forall lo hi r,
    bd_get_go fuel buf klen key lo hi = r -> r <> BdOutOfFuel ->
    bd_get_fix fuel buf klen key lo hi = r.
  Proof.
    induction fuel as [|f IH]; intros lo hi r H Hr; [cbn in H; congruence|].
    cbn [bd_get_go bd_get_fix] in *. destruct (lo <=? hi); [|exact H].
    set (mid := Z.quot (lo + hi) 2) in *. fold (K mid) in *.
    destruct (bd_cmp (K mid) key) eqn:Hc; [exact H| |].
    - destruct (lo =? hi) eqn:He; [|apply IH; auto].
      apply Z.eqb_eq in He. subst hi. assert (mid = lo) by (unfold mid; lia).
      rewrite bd_get_go_stuck in H; [congruence|]. rewrite <- H0. congruence.
    - destruct (lo =? hi) eqn:He; [|apply IH; auto].
      apply Z.eqb_eq in He. subst hi. assert (mid = lo) by (unfold mid; lia).
      rewrite bd_get_go_stuck in H; [congruence|]. rewrite <- H0. congruence.
  Qed.

  (* sorted, distinct keys on [0, n): a present key is found *)
  Variable n : Z.
  Hypothesis Hsorted : forall i j, 0 <= i -> i < j -> j < n -> bd_cmp (K i) (K j) = Lt.

  Lemma bd_get_go_present fuel : forall lo hi j,
    0 <= lo -> lo <= j -> j <= hi -> hi < n -> K j = key -> hi - lo + 1 <= Z.of_nat fuel ->
    bd_get_go fuel buf klen key lo hi = BdFound (O j).
  Proof.
    induction fuel as [|f IH]; intros lo hi j Hlo Hlj Hjh Hhn Hk Hf; [lia|].
    cbn [bd_get_go]. assert (Hle : lo <= hi) by lia.
    pose proof (bd_mid_bounds lo hi Hlo Hle) as Hm. apply Z.leb_le in Hle. rewrite Hle.
    set (mid := Z.quot (lo + hi) 2) in *. fold (K mid).
    destruct (bd_cmp (K mid) key) eqn:Hc.
    - assert (mid = j).
      { destruct (Z.lt_trichotomy mid j) as [L|[E|G]]; [|exact E|].
        - rewrite <- Hk, (Hsorted mid j) in Hc by lia. discriminate.
        - rewrite <- Hk in Hc. apply bd_cmp_eq in Hc.
          pose proof (Hsorted j mid ltac:(lia) G ltac:(lia)) as Hx.
          rewrite Hc, bd_cmp_refl in Hx. discriminate. }
      subst. reflexivity.
    - assert (mid < j).
      { destruct (Z.lt_trichotomy mid j) as [L|[E|G]]; [exact L| |].
        - subst j. rewrite Hk, bd_cmp_refl in Hc. discriminate.
        - pose proof (Hsorted j mid ltac:(lia) G ltac:(lia)) as Hx.
          rewrite Hk in Hx. apply bd_cmp_lt_gt in Hx. congruence. }
      destruct (lo =? hi) eqn:He; [apply Z.eqb_eq in He; lia|]. apply IH; auto; lia.
    - assert (j < mid).
      { destruct (Z.lt_trichotomy mid j) as [L|[E|G]]; [| |exact G].
        - pose proof (Hsorted mid j ltac:(lia) L ltac:(lia)) as Hx. rewrite Hk in Hx. congruence.
        - subst j. rewrite Hk, bd_cmp_refl in Hc. discriminate. }
      destruct (lo =? hi) eqn:He; [apply Z.eqb_eq in He; lia|]. apply IH; auto; lia.
  Qed.
End Search.

(* ---------- the encoded index as the buffer of fixedKeyArrayIndex ---------- *)

Definition bd_d0 : bd_bytes * Z := ([], 0).

Definition bd_keys_len (klen : nat) (m : bd_mapidx) : Prop :=
  forall ko, In ko m -> length (fst ko) = klen.

Lemma bd_entry_length klen ko : length (fst ko) = klen -> length (bd_entry ko) = bd_ksz klen.
Proof. intros H. unfold bd_entry, bd_ksz. rewrite !app_length, !bd_le_length. lia. Qed.

Lemma bd_keys_len_tl klen a m : bd_keys_len klen (a :: m) -> bd_keys_len klen m.
Proof. intros H ko Hin. apply H. right. exact Hin. Qed.

Lemma bd_index_body_length klen m : bd_keys_len klen m ->
  length (bd_index_body m) = (length m * bd_ksz klen)%nat.
Proof.
  induction m as [|a m IH]; intros H; [reflexivity|].
  cbn [bd_index_body flat_map length]. rewrite app_length.
  rewrite (bd_entry_length klen a) by (apply H; left; reflexivity).
  fold (bd_index_body m). rewrite IH by (eapply bd_keys_len_tl; eauto). lia.
Qed.

Lemma bd_index_body_skip klen m : bd_keys_len klen m -> forall i, (i <= length m)%nat ->
  skipn (i * bd_ksz klen) (bd_index_body m) = bd_index_body (skipn i m).
Proof.
  induction m as [|a m IH]; intros H i Hi.
  - cbn in Hi. assert (i = 0)%nat by lia. subst. reflexivity.
  - destruct i as [|i]; [reflexivity|].
    cbn [bd_index_body flat_map skipn]. fold (bd_index_body m).
    replace (S i * bd_ksz klen)%nat with (bd_ksz klen + i * bd_ksz klen)%nat by (rewrite Nat.mul_succ_l; lia).
    rewrite bd_skipn_add.
    rewrite bd_skipn_app_exact by (symmetry; apply bd_entry_length; apply H; left; reflexivity).
    apply IH; [eapply bd_keys_len_tl; eauto|]. cbn in Hi. lia.
Qed.

Lemma bd_skipn_nth {A} (l : list A) d : forall i, (i < length l)%nat ->
  skipn i l = nth i l d :: skipn (S i) l.
Proof.
  induction l as [|x l IH]; intros i Hi; cbn in Hi; [lia|].
  destruct i as [|i]; [reflexivity|]. cbn [skipn nth]. rewrite IH by lia. reflexivity.
Qed.

Lemma bd_entry_at klen m i : bd_keys_len klen m -> (i < length m)%nat ->
  exists rest, skipn (Z.to_nat (Z.of_nat (bd_ksz klen) * Z.of_nat i)) (bd_index_body m)
               = bd_entry (nth i m bd_d0) ++ rest.
Proof.
  intros H Hi.
  replace (Z.to_nat (Z.of_nat (bd_ksz klen) * Z.of_nat i)) with (i * bd_ksz klen)%nat by lia.
  rewrite (bd_index_body_skip klen) by (auto; lia).
  rewrite (bd_skipn_nth m bd_d0) by exact Hi.
  cbn [bd_index_body flat_map]. eexists. reflexivity.
Qed.

Lemma bd_skip1_entry ko rest : skipn 1 (bd_entry ko ++ rest) = fst ko ++ bd_le 8 (snd ko) ++ rest.
Proof. unfold bd_entry. rewrite <- !app_assoc. reflexivity. Qed.

Lemma bd_entry_key_nth klen m i : bd_keys_len klen m -> (i < length m)%nat ->
  bd_entry_key (bd_index_body m) klen (Z.of_nat i) = fst (nth i m bd_d0).
Proof.
  intros H Hi. destruct (bd_entry_at klen m i H Hi) as [rest Hr].
  unfold bd_entry_key, bd_slice. rewrite bd_skipn_add, Hr, bd_skip1_entry.
  apply bd_firstn_app_exact. symmetry. apply H. apply nth_In. exact Hi.
Qed.

Lemma bd_signed32_small x : 0 <= x < 2 ^ 31 -> bd_signed 32 (x mod 2 ^ 32) = x.
Proof.
  intros H. change (2 ^ 31) with 2147483648 in H.
  rewrite Z.mod_small by (change (2 ^ 32) with 4294967296; lia).
  unfold bd_signed. change (2 ^ (32 - 1)) with 2147483648.
  destruct (x <? 2147483648) eqn:E; [reflexivity|]. apply Z.ltb_ge in E. lia.
Qed.

Lemma bd_entry_off_nth klen m i : bd_keys_len klen m -> (i < length m)%nat ->
  0 <= snd (nth i m bd_d0) < 2 ^ 63 ->
  bd_entry_off (bd_index_body m) klen (Z.of_nat i) = snd (nth i m bd_d0).
Proof.
  intros H Hi Ho. destruct (bd_entry_at klen m i H Hi) as [rest Hr].
  unfold bd_entry_off, bd_slice. rewrite !bd_skipn_add, Hr, bd_skip1_entry.
  rewrite bd_skipn_app_exact by (symmetry; apply H; apply nth_In; exact Hi).
  rewrite bd_firstn_app_exact by (rewrite bd_le_length; reflexivity).
  apply bd_dec64. exact Ho.
Qed.

Lemma bd_numkeys_body klen m : bd_keys_len klen m ->
  bd_numkeys (bd_index_body m) klen = Z.of_nat (length m).
Proof.
  intros H. unfold bd_numkeys. rewrite (bd_index_body_length klen) by exact H.
  rewrite Nat2Z.inj_mul. apply Z.div_mul. unfold bd_ksz. lia.
Qed.

(* ---------- sorted association list ---------- *)

Fixpoint bd_sorted (m : bd_mapidx) : Prop :=
  match m with
  | [] => True
  | ko :: tl => (forall ko', In ko' tl -> bd_cmp (fst ko) (fst ko') = Lt) /\ bd_sorted tl
  end.

Lemma bd_ins_In_inv k o m : bd_sorted m -> forall ko, In ko (bd_ins k o m) ->
  ko = (k, o) \/ (In ko m /\ bd_cmp k (fst ko) <> Eq).
Proof.
  induction m as [|[k' o'] tl IH]; intros Hs ko Hin.
  - cbn in Hin. destruct Hin as [<-|[]]. left. reflexivity.
  - destruct Hs as [Hh Ht]. cbn [fst] in Hh. cbn [bd_ins] in Hin. destruct (bd_cmp k k') eqn:E.
    + destruct Hin as [<-|Hin]; [left; reflexivity|]. right. split; [right; exact Hin|].
      apply bd_cmp_eq in E. subst k'. rewrite (Hh ko Hin). discriminate.
    + destruct Hin as [<-|Hin]; [left; reflexivity|]. right. split; [exact Hin|].
      destruct Hin as [<-|Hin]; cbn [fst]; [congruence|].
      rewrite (bd_cmp_lt_trans k k' (fst ko) E (Hh ko Hin)). discriminate.
    + destruct Hin as [<-|Hin].
      * right. split; [left; reflexivity|]. cbn [fst]. congruence.
      * destruct (IH Ht ko Hin) as [->|[Hold Hne]]; [left; reflexivity|].
        right. split; [right; exact Hold|exact Hne].
Qed.

Lemma bd_ins_In_new k o m : In (k, o) (bd_ins k o m).
Proof.
  induction m as [|[k' o'] tl IH]; cbn; [left; reflexivity|].
  destruct (bd_cmp k k'); cbn; auto.
Qed.

Lemma bd_ins_In_old k o m ko : In ko m -> bd_cmp k (fst ko) <> Eq -> In ko (bd_ins k o m).
Proof.
  induction m as [|[k' o'] tl IH]; intros Hin Hne; [destruct Hin|].
  cbn [bd_ins]. destruct (bd_cmp k k') eqn:E.
  - destruct Hin as [<-|Hin]; [cbn [fst] in Hne; congruence|right; exact Hin].
  - right. exact Hin.
  - destruct Hin as [<-|Hin]; [left; reflexivity|right; apply IH; auto].
Qed.

Lemma bd_ins_sorted k o m : bd_sorted m -> bd_sorted (bd_ins k o m).
Proof.
  induction m as [|[k' o'] tl IH]; intros Hs; [cbn; split; [intros ? []|exact I]|].
  assert (Hs' := Hs). destruct Hs' as [Hh Ht]. cbn [fst] in Hh. cbn [bd_ins]. destruct (bd_cmp k k') eqn:E.
  - apply bd_cmp_eq in E. subst k'. split; [exact Hh|exact Ht].
  - split; [|exact Hs]. intros ko' [<-|Hin]; [exact E|].
    eapply bd_cmp_lt_trans; [exact E|apply Hh; exact Hin].
  - split; [|apply IH; exact Ht]. intros ko' Hin.
    destruct (bd_ins_In_inv k o tl Ht ko' Hin) as [->|[Hold _]].
    + cbn [fst]. apply bd_cmp_gt_lt. exact E.
    + apply Hh. exact Hold.
Qed.

Lemma bd_ins_length k o m : (length (bd_ins k o m) <= S (length m))%nat.
Proof.
  induction m as [|[k' o'] tl IH]; cbn; [lia|]. destruct (bd_cmp k k'); cbn; lia.
Qed.

Lemma bd_sorted_nth m : bd_sorted m -> forall i j, (i < j)%nat -> (j < length m)%nat ->
  bd_cmp (fst (nth i m bd_d0)) (fst (nth j m bd_d0)) = Lt.
Proof.
  induction m as [|a m IH]; intros Hs i j Hij Hj; cbn in Hj; [lia|].
  destruct Hs as [Hh Ht]. destruct j as [|j]; [lia|]. destruct i as [|i]; cbn [nth].
  - apply Hh. apply nth_In. lia.
  - apply IH; auto; lia.
Qed.

(* ---------- the invariant of Create; WriteData* ---------- *)

Definition bd_inv (klen : nat) (db : bd_db) (ws : list (bd_bytes * bd_bytes)) : Prop :=
  bd_sorted (bd_idx db) /\ bd_keys_len klen (bd_idx db) /\
  (length (bd_idx db) <= length ws)%nat /\
  (forall k o, In (k, o) (bd_idx db) ->
     0 <= o < Z.of_nat (length (bd_data db)) /\
     exists s tail, bd_last_written ws k = Some s /\
       skipn (Z.to_nat o) (bd_data db) = bd_le 4 (Z.of_nat (length s)) ++ s ++ tail) /\
  (forall k s, bd_last_written ws k = Some s -> exists o, In (k, o) (bd_idx db)).

Lemma bd_last_written_app ws k s key :
  bd_last_written (ws ++ [(k, s)]) key =
  match bd_cmp k key with Eq => Some s | _ => bd_last_written ws key end.
Proof.
  induction ws as [|[k0 p0] ws IH]; cbn [app bd_last_written].
  - destruct (bd_cmp k key); reflexivity.
  - rewrite IH. destruct (bd_cmp k key); reflexivity.
Qed.

Lemma bd_last_written_In ws key p : bd_last_written ws key = Some p -> In (key, p) ws.
Proof.
  induction ws as [|[k0 p0] ws IH]; cbn; [discriminate|].
  destruct (bd_last_written ws key) eqn:E.
  - intros H. right. apply IH. exact H.
  - destruct (bd_cmp k0 key) eqn:Ec; try discriminate. intros H. inversion H. subst.
    apply bd_cmp_eq in Ec. subst. left. reflexivity.
Qed.

Lemma bd_inv_create klen : bd_inv klen bd_create [].
Proof.
  unfold bd_inv, bd_create. cbn [bd_idx bd_data].
  split; [exact I|]. split; [intros ko []|]. split; [cbn; lia|].
  split; [intros k o []|]. intros k s H. cbn in H. discriminate.
Qed.

Lemma bd_inv_write klen db ws k s : bd_inv klen db ws -> length k = klen ->
  bd_inv klen (bd_write db k s) (ws ++ [(k, s)]).
Proof.
  intros (Hs & Hk & Hl & Hin & Hex) Hlen. unfold bd_write, bd_inv. cbn [bd_data bd_idx].
  set (rec := bd_le 4 (Z.of_nat (length s)) ++ s).
  assert (Hrec : (4 <= length rec)%nat) by (unfold rec; rewrite app_length, bd_le_length; lia).
  split; [apply bd_ins_sorted; exact Hs|].
  split.
  { intros ko Hi. destruct (bd_ins_In_inv _ _ _ Hs ko Hi) as [->|[Hold _]]; [exact Hlen|apply Hk; exact Hold]. }
  split.
  { pose proof (bd_ins_length k (Z.of_nat (length (bd_data db))) (bd_idx db)). rewrite app_length. cbn. lia. }
  split.
  - intros k' o' Hi. destruct (bd_ins_In_inv _ _ _ Hs _ Hi) as [E|[Hold Hne]].
    + inversion E. subst k' o'. split.
      * rewrite app_length. lia.
      * exists s, []. split; [rewrite bd_last_written_app, bd_cmp_refl; reflexivity|].
        rewrite Nat2Z.id, bd_skipn_app_exact by reflexivity. unfold rec. rewrite app_nil_r. reflexivity.
    + cbn [fst] in Hne. destruct (Hin k' o' Hold) as (Ho & s' & tail & Hlw & Hsk). split.
      * rewrite app_length. lia.
      * exists s', (tail ++ rec). split.
        -- rewrite bd_last_written_app. destruct (bd_cmp k k'); congruence.
        -- rewrite bd_skipn_prefix by lia. rewrite Hsk. rewrite <- !app_assoc. reflexivity.
  - intros k' s' Hlw. rewrite bd_last_written_app in Hlw. destruct (bd_cmp k k') eqn:E.
    + apply bd_cmp_eq in E. subst k'. eexists. apply bd_ins_In_new.
    + destruct (Hex k' s' Hlw) as [o' Ho']. exists o'. apply bd_ins_In_old; [exact Ho'|cbn; congruence].
    + destruct (Hex k' s' Hlw) as [o' Ho']. exists o'. apply bd_ins_In_old; [exact Ho'|cbn; congruence].
Qed.

Lemma bd_write_all_app db ws w :
  bd_write_all db (ws ++ [w]) = bd_write (bd_write_all db ws) (fst w) (snd w).
Proof. unfold bd_write_all. rewrite fold_left_app. reflexivity. Qed.

Lemma bd_inv_write_all klen ws : (forall w, In w ws -> length (fst w) = klen) ->
  bd_inv klen (bd_write_all bd_create ws) ws.
Proof.
  induction ws as [|w ws IH] using rev_ind; intros H; [apply bd_inv_create|].
  rewrite bd_write_all_app. destruct w as [k s]. apply bd_inv_write.
  - apply IH. intros w Hw. apply H. apply in_or_app. left. exact Hw.
  - apply (H (k, s)). apply in_or_app. right. left. reflexivity.
Qed.

Lemma bd_data_grows db ws : (length (bd_data db) <= length (bd_data (bd_write_all db ws)))%nat.
Proof.
  revert db. induction ws as [|w ws IH]; intros db; [cbn; lia|].
  cbn [bd_write_all fold_left]. fold (bd_write_all (bd_write db (fst w) (snd w)) ws).
  etransitivity; [|apply IH]. unfold bd_write. cbn [bd_data]. rewrite app_length. lia.
Qed.

(* ---------- Open of a saved header ---------- *)

Lemma bd_open_saved klen m sh : bd_keys_len klen m ->
  Z.of_nat (length m) * Z.of_nat (bd_ksz klen) < 2 ^ 31 ->
  bd_open klen (bd_index_encode m ++ sh) = BdOpened (bd_index_body m) sh.
Proof.
  intros Hk Hn. unfold bd_open, bd_index_encode. rewrite <- app_assoc.
  assert (Hks : 9 <= Z.of_nat (bd_ksz klen)) by (unfold bd_ksz; lia).
  assert (Hn0 : 0 <= Z.of_nat (length m) < 2 ^ 31) by nia.
  destruct (Nat.ltb_spec (length (bd_le 4 (Z.of_nat (length m)) ++ bd_index_body m ++ sh)) 4) as [Hl|Hl].
  { rewrite app_length, bd_le_length in Hl. lia. }
  rewrite bd_firstn_app_exact by (rewrite bd_le_length; reflexivity).
  rewrite bd_dec32 by exact Hn0.
  rewrite bd_signed32_small by lia.
  rewrite bd_skipn_app_exact by (rewrite bd_le_length; reflexivity).
  pose proof (bd_index_body_length klen m Hk) as Hbl.
  destruct (Z.ltb_spec (Z.of_nat (length m) * Z.of_nat (bd_ksz klen)) 0) as [Hneg|_]; [lia|].
  destruct (Z.eqb_spec (Z.of_nat (length m) * Z.of_nat (bd_ksz klen)) 0) as [Hz|Hz].
  - assert (length (bd_index_body m) = 0)%nat by lia.
    destruct (bd_index_body m); [reflexivity|discriminate].
  - replace (Z.to_nat (Z.of_nat (length m) * Z.of_nat (bd_ksz klen))) with (length (bd_index_body m)) by lia.
    replace (Z.of_nat (length m) * Z.of_nat (bd_ksz klen)) with (Z.of_nat (length (bd_index_body m))) by lia.
    destruct (Z.ltb_spec (Z.of_nat (length (bd_index_body m ++ sh))) (Z.of_nat (length (bd_index_body m)))) as [Hl2|_].
    { rewrite app_length in Hl2. lia. }
    rewrite bd_firstn_app_exact, bd_skipn_app_exact by reflexivity. reflexivity.
Qed.

(* ---------- reading one record ---------- *)

Lemma bd_read_at_record data o s tail : 0 <= o -> Z.of_nat (length s) < 2 ^ 31 ->
  skipn (Z.to_nat o) data = bd_le 4 (Z.of_nat (length s)) ++ s ++ tail ->
  bd_read_at data o = BdRec s.
Proof.
  intros Ho Hs Hsk. unfold bd_read_at.
  destruct (Z.ltb_spec o 0) as [|_]; [lia|].
  destruct (Z.ltb_spec (Z.of_nat (length data)) o) as [Hlo|_].
  { rewrite skipn_all2 in Hsk by lia. destruct (bd_le 4 (Z.of_nat (length s))) eqn:E; [|discriminate].
    apply (f_equal (@length Z)) in E. rewrite bd_le_length in E. discriminate. }
  rewrite Hsk.
  destruct (Nat.ltb_spec (length (bd_le 4 (Z.of_nat (length s)) ++ s ++ tail)) 4) as [Hl|_].
  { rewrite app_length, bd_le_length in Hl. lia. }
  rewrite bd_firstn_app_exact by (rewrite bd_le_length; reflexivity).
  rewrite bd_dec32 by lia.
  destruct (Z.ltb_spec (Z.of_nat (length s)) 0) as [|_]; [lia|].
  rewrite bd_skipn_app_exact by (rewrite bd_le_length; reflexivity).
  rewrite Nat2Z.id.
  destruct (Z.ltb_spec (Z.of_nat (length (s ++ tail))) (Z.of_nat (length s))) as [Hl|_].
  { rewrite app_length in Hl. lia. }
  rewrite bd_firstn_app_exact by reflexivity. reflexivity.
Qed.

(* a record that can be read from a prefix of the data file reads identically from the whole *)
Lemma bd_read_at_prefix d c o s : bd_read_at d o = BdRec s -> bd_read_at (d ++ c) o = BdRec s.
Proof.
  unfold bd_read_at. destruct (Z.ltb_spec o 0) as [|Ho0]; [discriminate|].
  set (n := Z.to_nat o).
  destruct (Z.ltb_spec (Z.of_nat (length d)) o) as [|Hn']; [discriminate|].
  assert (Hn : (n <= length d)%nat) by lia.
  destruct (Z.ltb_spec (Z.of_nat (length (d ++ c))) o) as [Hl|_]; [rewrite app_length in Hl; lia|].
  rewrite bd_skipn_prefix by exact Hn. set (x := skipn n d).
  destruct (Nat.ltb_spec (length x) 4) as [|Hx]; [discriminate|].
  destruct (Nat.ltb_spec (length (x ++ c)) 4) as [Hl|_]; [rewrite app_length in Hl; lia|].
  rewrite bd_firstn_prefix by exact Hx.
  rewrite bd_skipn_prefix by exact Hx.
  destruct (Z.ltb_spec (bd_signed 32 (bd_unle (firstn 4 x))) 0) as [|Hd0]; [auto|].
  set (dl := bd_signed 32 (bd_unle (firstn 4 x))) in *.
  destruct (Z.ltb_spec (Z.of_nat (length (skipn 4 x))) dl) as [|Hp]; [discriminate|].
  destruct (Z.ltb_spec (Z.of_nat (length (skipn 4 x ++ c))) dl) as [Hl|_]; [rewrite app_length in Hl; lia|].
  rewrite bd_firstn_prefix by lia. auto.
Qed.

Lemma bd_read_with_prefix look d c s :
  bd_read_with look d = BdRec s -> bd_read_with look (d ++ c) = BdRec s.
Proof. destruct look; cbn; try discriminate. apply bd_read_at_prefix. Qed.

(* ---------- lookups against the saved index ---------- *)

Section Saved.
  Variables (klen : nat) (db : bd_db) (sws : list (bd_bytes * bd_bytes)).
  Hypothesis Hinv : bd_inv klen db sws.
  Hypothesis Hdata : Z.of_nat (length (bd_data db)) < 2 ^ 63.
  Let buf := bd_index_body (bd_idx db).
  Let m := bd_idx db.

  Lemma bd_saved_K i : 0 <= i < Z.of_nat (length m) ->
    bd_entry_key buf klen i = fst (nth (Z.to_nat i) m bd_d0).
  Proof.
    intros Hi. destruct Hinv as (_ & Hk & _).
    rewrite <- (Z2Nat.id i) at 1 by lia. apply bd_entry_key_nth; [exact Hk|lia].
  Qed.

  Lemma bd_saved_O i : 0 <= i < Z.of_nat (length m) ->
    bd_entry_off buf klen i = snd (nth (Z.to_nat i) m bd_d0).
  Proof.
    intros Hi. destruct Hinv as (_ & Hk & _ & Hin & _).
    rewrite <- (Z2Nat.id i) at 1 by lia. apply bd_entry_off_nth; [exact Hk|lia|].
    assert (Hn : In (nth (Z.to_nat i) m bd_d0) m) by (apply nth_In; lia).
    destruct (nth (Z.to_nat i) m bd_d0) as [k o] eqn:E. cbn [snd].
    destruct (Hin k o Hn) as (Ho & _). lia.
  Qed.

  Lemma bd_saved_sorted i j : 0 <= i -> i < j -> j < Z.of_nat (length m) ->
    bd_cmp (bd_entry_key buf klen i) (bd_entry_key buf klen j) = Lt.
  Proof.
    intros Hi Hij Hj. rewrite !bd_saved_K by lia.
    destruct Hinv as (Hs & _). apply bd_sorted_nth; [exact Hs|lia|lia].
  Qed.

  Lemma bd_saved_numkeys : bd_numkeys buf klen = Z.of_nat (length m).
  Proof. destruct Hinv as (_ & Hk & _). apply bd_numkeys_body. exact Hk. Qed.

  (* a written key is found, with the offset of its latest record *)
  Lemma bd_saved_present key s fuel : bd_last_written sws key = Some s ->
    (bd_fuel buf klen <= fuel)%nat ->
    exists o tail, bd_get_offset fuel buf klen key = BdFound o /\ 0 <= o /\
      skipn (Z.to_nat o) (bd_data db) = bd_le 4 (Z.of_nat (length s)) ++ s ++ tail.
  Proof.
    intros Hlw Hf. pose proof Hinv as (_ & _ & _ & Hin & Hex).
    destruct (Hex key s Hlw) as [o Ho].
    destruct (In_nth m (key, o) bd_d0 Ho) as (j & Hj & Hnth).
    destruct (Hin key o Ho) as (Hob & s' & tail & Hlw' & Hsk).
    assert (s' = s) by congruence. subst s'.
    exists o, tail. split; [|split; [lia|exact Hsk]].
    unfold bd_get_offset. unfold bd_fuel in Hf. rewrite bd_saved_numkeys in *.
    assert (Hjz : 0 <= Z.of_nat j < Z.of_nat (length m)) by lia.
    replace o with (bd_entry_off buf klen (Z.of_nat j))
      by (rewrite bd_saved_O by exact Hjz; rewrite Nat2Z.id, Hnth; reflexivity).
    apply bd_get_go_present with (n := Z.of_nat (length m)); try lia.
    - intros i j' H1 H2 H3. apply bd_saved_sorted; lia.
    - rewrite bd_saved_K by exact Hjz. rewrite Nat2Z.id, Hnth. reflexivity.
  Qed.

  (* whatever offset a lookup returns (with any fuel) belongs to the latest record of that key *)
  Lemma bd_saved_found key fuel o : bd_get_offset fuel buf klen key = BdFound o ->
    0 <= o /\ exists s tail, bd_last_written sws key = Some s /\
      skipn (Z.to_nat o) (bd_data db) = bd_le 4 (Z.of_nat (length s)) ++ s ++ tail.
  Proof.
    intros H. unfold bd_get_offset in H. apply bd_get_go_found_inv in H; [|lia].
    destruct H as (i & Hi & Hk & Ho). rewrite bd_saved_numkeys in Hi.
    pose proof Hinv as (_ & _ & _ & Hin & _).
    assert (Hiz : 0 <= i < Z.of_nat (length m)) by lia.
    rewrite bd_saved_K in Hk by exact Hiz. rewrite bd_saved_O in Ho by exact Hiz.
    assert (Hn : In (nth (Z.to_nat i) m bd_d0) m) by (apply nth_In; lia).
    destruct (nth (Z.to_nat i) m bd_d0) as [k o'] eqn:E. cbn [fst snd] in *. subst k o.
    destruct (Hin key o' Hn) as (Hob & s & tail & Hlw & Hsk).
    split; [lia|]. exists s, tail. auto.
  Qed.

  (* a key that was never written is never found, with any fuel *)
  Lemma bd_saved_absent key fuel : bd_last_written sws key = None ->
    forall o, bd_get_offset fuel buf klen key <> BdFound o.
  Proof.
    intros Hn o H. apply bd_saved_found in H. destruct H as (_ & s & tail & Hlw & _). congruence.
  Qed.
End Saved.

(* ---------- C26 theorems over write sequences ---------- *)

Definition bd_ws_ok (klen : nat) (sws : list (bd_bytes * bd_bytes)) : Prop :=
  (forall w, In w sws -> length (fst w) = klen) /\
  (forall w, In w sws -> Z.of_nat (length (snd w)) < 2 ^ 31) /\
  Z.of_nat (length sws) * Z.of_nat (bd_ksz klen) < 2 ^ 31 /\
  Z.of_nat (length (bd_data (bd_write_all bd_create sws))) < 2 ^ 63.

Section Codec.
  Variable comp : bd_bytes -> bd_bytes.
  Variable decomp : bd_bytes -> option bd_bytes.
  Hypothesis decomp_comp : forall x, decomp (comp x) = Some x.

  Lemma bd_load_store c p : bd_load decomp c (bd_store comp c p) = Some p.
  Proof. destruct c; cbn; auto. Qed.

  Lemma bd_last_written_stored c ws key :
    bd_last_written (bd_stored_ws comp c ws) key = option_map (bd_store comp c) (bd_last_written ws key).
  Proof.
    induction ws as [|[k p] ws IH]; [reflexivity|].
    cbn [bd_stored_ws map bd_last_written fst snd]. fold (bd_stored_ws comp c ws). rewrite IH.
    destruct (bd_last_written ws key); cbn; [reflexivity|]. destruct (bd_cmp k key); reflexivity.
  Qed.

  Lemma bd_stored_keys c ws klen : (forall w, In w ws -> length (fst w) = klen) ->
    forall w, In w (bd_stored_ws comp c ws) -> length (fst w) = klen.
  Proof.
    intros H w Hin. unfold bd_stored_ws in Hin. apply in_map_iff in Hin.
    destruct Hin as (w0 & <- & Hin). cbn. apply H. exact Hin.
  Qed.

  Section Seq.
    Variables (klen : nat) (c : bool) (ws : list (bd_bytes * bd_bytes)) (sh : bd_bytes).
    Let sws := bd_stored_ws comp c ws.
    Let db := bd_write_all bd_create sws.
    Hypothesis Hok : bd_ws_ok klen sws.

    Lemma bd_seq_inv : bd_inv klen db sws.
    Proof. apply bd_inv_write_all. apply Hok. Qed.

    Lemma bd_seq_open :
      bd_open klen (bd_header_file db sh) = BdOpened (bd_index_body (bd_idx db)) sh.
    Proof.
      destruct Hok as (_ & _ & Hn & _). pose proof bd_seq_inv as (_ & Hk & Hl & _).
      apply bd_open_saved; [exact Hk|]. unfold bd_ksz in *. nia.
    Qed.

    (* C26 read_after_save_open *)
    Lemma bd_read_after_save_open :
      bd_open klen (bd_header_file db sh) = BdOpened (bd_index_body (bd_idx db)) sh /\
      forall key p fuel, bd_last_written ws key = Some p ->
        (bd_fuel (bd_index_body (bd_idx db)) klen <= fuel)%nat ->
        bd_read fuel klen (bd_index_body (bd_idx db)) (bd_data db) key = BdRec (bd_store comp c p) /\
        bd_read_rec decomp c (bd_read fuel klen (bd_index_body (bd_idx db)) (bd_data db) key) = Some p.
    Proof.
      split; [exact bd_seq_open|]. intros key p fuel Hlw Hf.
      assert (Hlw' : bd_last_written sws key = Some (bd_store comp c p)).
      { unfold sws. rewrite bd_last_written_stored, Hlw. reflexivity. }
      destruct Hok as (_ & Hp & _ & Hd).
      destruct (bd_saved_present klen db sws bd_seq_inv Hd key _ fuel Hlw' Hf) as (o & tail & Hg & Ho & Hsk).
      assert (Hr : bd_read fuel klen (bd_index_body (bd_idx db)) (bd_data db) key = BdRec (bd_store comp c p)).
      { unfold bd_read. rewrite Hg. cbn [bd_read_with].
        eapply bd_read_at_record; [exact Ho| |exact Hsk].
        apply (Hp (key, bd_store comp c p)). apply bd_last_written_In. exact Hlw'. }
      split; [exact Hr|]. rewrite Hr. cbn [bd_read_rec]. apply bd_load_store.
    Qed.

    (* C26 crash_prefix_safe: any prefix of the data file with any prefix of the header file *)
    Lemma bd_crash_prefix_safe d' h' :
      bd_prefix d' (bd_data db) -> bd_prefix h' (bd_header_file db sh) ->
      match bd_open klen h' with
      | BdOpenPanic => False
      | BdOpenErr => True
      | BdOpened buf rest =>
          buf = bd_index_body (bd_idx db) /\ bd_prefix rest sh /\
          forall fuel key s, bd_read fuel klen buf d' key = BdRec s ->
            exists p, bd_last_written ws key = Some p /\ s = bd_store comp c p /\
                      bd_read_rec decomp c (BdRec s) = Some p
      end.
    Proof.
      intros [dc Hd'] [hc Hh'].
      pose proof bd_seq_inv as Hinv. pose proof Hinv as (_ & Hk & Hl & _).
      destruct Hok as (_ & Hp & Hn & Hd).
      set (m := bd_idx db) in *. set (body := bd_index_body m).
      assert (Hks : 9 <= Z.of_nat (bd_ksz klen)) by (unfold bd_ksz; lia).
      assert (Hn0 : 0 <= Z.of_nat (length m) < 2 ^ 31) by nia.
      assert (Hsz : 0 <= Z.of_nat (length m) * Z.of_nat (bd_ksz klen) < 2 ^ 31) by nia.
      assert (Hbl : length body = (length m * bd_ksz klen)%nat) by (apply bd_index_body_length; exact Hk).
      (* the reads, once the index buffer is the saved one *)
      assert (Hreads : forall fuel key s, bd_read fuel klen body d' key = BdRec s ->
                exists p, bd_last_written ws key = Some p /\ s = bd_store comp c p /\
                          bd_read_rec decomp c (BdRec s) = Some p).
      { intros fuel key s Hr. unfold bd_read in Hr.
        apply (bd_read_with_prefix _ d' dc) in Hr. rewrite <- Hd' in Hr.
        destruct (bd_get_offset fuel body klen key) as [o| |] eqn:Hg; cbn [bd_read_with] in Hr; try discriminate.
        destruct (bd_saved_found klen db sws Hinv Hd key fuel o Hg) as (Ho & s0 & tail & Hlw & Hsk).
        assert (Hs0 : Z.of_nat (length s0) < 2 ^ 31)
          by (apply (Hp (key, s0)); apply bd_last_written_In; exact Hlw).
        rewrite (bd_read_at_record _ _ _ _ Ho Hs0 Hsk) in Hr. inversion Hr. subst s0.
        unfold sws in Hlw. rewrite bd_last_written_stored in Hlw.
        destruct (bd_last_written ws key) as [p|]; [|discriminate]. cbn in Hlw. inversion Hlw.
        exists p. split; [reflexivity|]. split; [reflexivity|]. cbn. apply bd_load_store. }
      unfold bd_header_file, bd_index_encode in Hh'. fold m in Hh'. fold body in Hh'.
      unfold bd_open.
      destruct (Nat.ltb_spec (length h') 4) as [|Hl4]; [exact I|].
      assert (H4 : firstn 4 h' = bd_le 4 (Z.of_nat (length m))).
      { assert (E : firstn 4 (h' ++ hc) = firstn 4 h') by (apply bd_firstn_prefix; exact Hl4).
        rewrite <- E, <- Hh', <- !app_assoc. apply bd_firstn_app_exact. rewrite bd_le_length. reflexivity. }
      rewrite H4, bd_dec32 by exact Hn0. rewrite bd_signed32_small by exact Hsz.
      assert (Hsk : skipn 4 h' ++ hc = body ++ sh).
      { rewrite <- bd_skipn_prefix by exact Hl4. rewrite <- Hh', <- !app_assoc.
        apply bd_skipn_app_exact. rewrite bd_le_length. reflexivity. }
      set (b' := skipn 4 h') in *.
      destruct (Z.ltb_spec (Z.of_nat (length m) * Z.of_nat (bd_ksz klen)) 0) as [|_]; [lia|].
      destruct (Z.eqb_spec (Z.of_nat (length m) * Z.of_nat (bd_ksz klen)) 0) as [Hz|Hz].
      - assert (body = []) by (destruct body; [reflexivity|cbn in Hbl; lia]).
        split; [congruence|]. split; [|rewrite <- H; exact Hreads].
        exists hc. rewrite H in Hsk. cbn [app] in Hsk. symmetry. exact Hsk.
      - replace (Z.of_nat (length m) * Z.of_nat (bd_ksz klen)) with (Z.of_nat (length body)) by lia.
        rewrite Nat2Z.id.
        destruct (Z.ltb_spec (Z.of_nat (length b')) (Z.of_nat (length body))) as [|Hlb']; [exact I|].
        assert (Hlb : (length body <= length b')%nat) by lia.
        assert (Hf : firstn (length body) b' = body).
        { assert (E : firstn (length body) (b' ++ hc) = firstn (length body) b') by (apply bd_firstn_prefix; exact Hlb).
          rewrite <- E, Hsk. apply bd_firstn_app_exact. reflexivity. }
        split; [exact Hf|]. split; [|rewrite Hf; exact Hreads].
        exists hc. assert (E : skipn (length body) (b' ++ hc) = skipn (length body) b' ++ hc)
          by (apply bd_skipn_prefix; exact Hlb).
        rewrite Hsk, bd_skipn_app_exact in E by reflexivity. exact E.
    Qed.

    (* bytes behind the written data (a leftover of an earlier, crashed writer) change no Read *)
    Lemma bd_read_over tail key fuel :
      bd_read fuel klen (bd_index_body (bd_idx db)) (bd_data db ++ tail) key =
      bd_read fuel klen (bd_index_body (bd_idx db)) (bd_data db) key.
    Proof.
      destruct Hok as (_ & Hp & _ & Hd). unfold bd_read.
      destruct (bd_get_offset fuel (bd_index_body (bd_idx db)) klen key) as [o| |] eqn:Hg; try reflexivity.
      destruct (bd_saved_found klen db sws bd_seq_inv Hd key fuel o Hg) as (Ho & s0 & tl & Hlw & Hsk).
      assert (Hs0 : Z.of_nat (length s0) < 2 ^ 31)
        by (apply (Hp (key, s0)); apply bd_last_written_In; exact Hlw).
      cbn [bd_read_with]. pose proof (bd_read_at_record _ _ _ _ Ho Hs0 Hsk) as Hr.
      rewrite Hr. apply bd_read_at_prefix. exact Hr.
    Qed.

    (* C26 read_after_save_open when Create found a leftover data file [old] *)
    Lemma bd_recreate_read_after_save_open old :
      bd_open klen (bd_header_file db sh) = BdOpened (bd_index_body (bd_idx db)) sh /\
      forall key p fuel, bd_last_written ws key = Some p ->
        (bd_fuel (bd_index_body (bd_idx db)) klen <= fuel)%nat ->
        bd_read fuel klen (bd_index_body (bd_idx db)) (bd_data_over old (bd_data db)) key = BdRec (bd_store comp c p) /\
        bd_read_rec decomp c (bd_read fuel klen (bd_index_body (bd_idx db)) (bd_data_over old (bd_data db)) key) = Some p.
    Proof.
      destruct bd_read_after_save_open as (Ho & Hr). split; [exact Ho|].
      intros key p fuel Hlw Hf. unfold bd_data_over. rewrite bd_read_over. apply Hr; assumption.
    Qed.

    (* C26 crash_prefix_safe when Create found a leftover data file [old] and no header file:
       the header is written only after all data, so a crash leaves either no header, or the
       complete new data followed by what is left of [old] and a prefix of the header *)
    Lemma bd_recreate_crash_prefix_safe old d' h' :
      bd_prefix d' (bd_data db) -> bd_prefix h' (bd_header_file db sh) ->
      (h' <> [] -> d' = bd_data db) ->
      match bd_open klen h' with
      | BdOpenPanic => False
      | BdOpenErr => True
      | BdOpened buf rest =>
          buf = bd_index_body (bd_idx db) /\ bd_prefix rest sh /\
          forall fuel key s, bd_read fuel klen buf (bd_data_over old d') key = BdRec s ->
            exists p, bd_last_written ws key = Some p /\ s = bd_store comp c p /\
                      bd_read_rec decomp c (BdRec s) = Some p
      end.
    Proof.
      intros Hd Hh Hseq. destruct h' as [|b h'].
      - cbn. exact I.
      - specialize (Hseq ltac:(discriminate)). subst d'.
        pose proof (bd_crash_prefix_safe (bd_data db) (b :: h') Hd Hh) as H.
        destruct (bd_open klen (b :: h')) as [buf rest| |]; [|exact I|exact H].
        destruct H as (Ha & Hb & Hc). split; [exact Ha|]. split; [exact Hb|].
        intros fuel key s Hr. apply (Hc fuel). subst buf. unfold bd_data_over in Hr.
        rewrite bd_read_over in Hr. exact Hr.
    Qed.

    (* C26 absent keys on the code as it is: never another record, whatever the fuel *)
    Lemma bd_absent_never_a_record key fuel : bd_last_written ws key = None ->
      bd_read fuel klen (bd_index_body (bd_idx db)) (bd_data db) key = BdReadNotFound \/
      bd_read fuel klen (bd_index_body (bd_idx db)) (bd_data db) key = BdReadFuel.
    Proof.
      intros Hn. destruct Hok as (_ & _ & _ & Hd).
      assert (Hn' : bd_last_written sws key = None)
        by (unfold sws; rewrite bd_last_written_stored, Hn; reflexivity).
      pose proof (bd_saved_absent klen db sws bd_seq_inv Hd key fuel Hn') as Ha.
      unfold bd_read. destruct (bd_get_offset fuel _ klen key) as [o| |]; cbn; auto.
      exfalso. eapply Ha. reflexivity.
    Qed.

    (* ... and not-found unless the loop is stuck (= out of fuel at bd_fuel, see bd_timeout_is_divergence) *)
    Lemma bd_absent_not_found_unless_stuck key : bd_last_written ws key = None ->
      let buf := bd_index_body (bd_idx db) in
      bd_get_offset (bd_fuel buf klen) buf klen key <> BdOutOfFuel ->
      forall fuel, (bd_fuel buf klen <= fuel)%nat -> bd_read fuel klen buf (bd_data db) key = BdReadNotFound.
    Proof.
      intros Hn buf Hns fuel Hf.
      destruct (bd_absent_never_a_record key (bd_fuel buf klen) Hn) as [H|H]; fold buf in H.
      - unfold bd_read in *. destruct (bd_get_offset (bd_fuel buf klen) buf klen key) eqn:E; cbn in H; try discriminate.
        + unfold bd_read_at in H. repeat match type of H with context [if ?b then _ else _] => destruct b end; discriminate.
        + unfold bd_get_offset in *. rewrite (bd_get_go_mono _ _ _ _ _ _ _ E ltac:(discriminate) fuel Hf). reflexivity.
      - unfold bd_read in H. destruct (bd_get_offset (bd_fuel buf klen) buf klen key) eqn:E; cbn in H; try discriminate; try congruence.
        unfold bd_read_at in H. repeat match type of H with context [if ?b then _ else _] => destruct b end; discriminate.
    Qed.

    (* the repair changes nothing for keys that are present *)
    Lemma bd_present_repaired key p fuel : bd_last_written ws key = Some p ->
      (bd_fuel (bd_index_body (bd_idx db)) klen <= fuel)%nat ->
      bd_read_fix fuel klen (bd_index_body (bd_idx db)) (bd_data db) key = BdRec (bd_store comp c p).
    Proof.
      intros Hlw Hf. destruct bd_read_after_save_open as (_ & Hr).
      destruct (Hr key p fuel Hlw Hf) as (H & _). unfold bd_read, bd_read_fix in *.
      unfold bd_get_offset, bd_get_offset_fix in *.
      destruct (bd_get_go fuel _ klen key 0 _) eqn:E; cbn in H; try discriminate.
      rewrite (bd_get_go_fix _ _ _ _ _ _ _ E ltac:(discriminate)). exact H.
    Qed.
  End Seq.

  (* ---- blockstore.BlockStore ---- *)
  Section Store.
    Variable blk : Type.
    Variables (blk_hash : blk -> bd_bytes) (blk_mb_hash : blk -> option bd_bytes).
    Variables (blk_enc : blk -> bd_bytes) (blk_dec : bd_bytes -> option blk).
    Hypothesis blk_dec_enc : forall b, blk_dec (blk_enc b) = Some b.

    Let wr := bs_write comp blk blk_hash blk_mb_hash blk_enc.
    Let rd := bs_read decomp blk blk_dec.

    Lemma bs_read_put fs h b h' :
      rd (bs_put fs h (bs_file comp blk blk_enc b)) h' = if bs_key_eqb h h' then Some b else rd fs h'.
    Proof.
      unfold rd, bs_read, bs_put. cbn [bs_get]. destruct (bs_key_eqb h h'); [|reflexivity].
      unfold bs_file. rewrite decomp_comp. apply blk_dec_enc.
    Qed.

    (* a block read by hash is the block most recently written under that hash *)
    Lemma bs_read_after_writes bs : forall h,
      rd (fold_left wr bs []) h = bs_last blk blk_hash blk_mb_hash bs h.
    Proof.
      induction bs as [|b bs IH] using rev_ind; intros h; [reflexivity|].
      rewrite fold_left_app. cbn [fold_left].
      assert (Hl : forall l, bs_last blk blk_hash blk_mb_hash (l ++ [b]) h =
                 match blk_mb_hash b with
                 | Some mh => if bs_key_eqb mh h then Some b
                              else if bs_key_eqb (blk_hash b) h then Some b
                              else bs_last blk blk_hash blk_mb_hash l h
                 | None => if bs_key_eqb (blk_hash b) h then Some b else bs_last blk blk_hash blk_mb_hash l h
                 end).
      { induction l as [|x l IHl]; cbn [app bs_last].
        - destruct (blk_mb_hash b); repeat match goal with |- context [if ?c then _ else _] => destruct c end; reflexivity.
        - rewrite IHl. destruct (blk_mb_hash b);
            repeat match goal with |- context [if ?c then _ else _] => destruct c end; reflexivity. }
      rewrite Hl. unfold wr at 1. unfold bs_write.
      destruct (blk_mb_hash b) as [mh|].
      - rewrite !bs_read_put. rewrite IH. reflexivity.
      - rewrite bs_read_put, IH. reflexivity.
    Qed.
  End Store.
End Codec.


(* C26 absent keys after the repair (labelled break): not found, within numKeys + 2 iterations *)
Lemma bd_absent_not_found_repaired comp klen c ws :
  let sws := bd_stored_ws comp c ws in
  let db := bd_write_all bd_create sws in
  let buf := bd_index_body (bd_idx db) in
  bd_ws_ok klen sws -> forall key fuel, bd_last_written ws key = None ->
  (bd_fuel buf klen <= fuel)%nat -> bd_read_fix fuel klen buf (bd_data db) key = BdReadNotFound.
Proof.
  intros sws db buf Hok key fuel Hn Hf. pose proof (bd_seq_inv comp klen c ws Hok) as Hinv.
  fold sws in Hinv. fold db in Hinv.
  destruct Hok as (_ & _ & _ & Hd). fold db in Hd.
  assert (Hn' : bd_last_written sws key = None)
    by (unfold sws; rewrite bd_last_written_stored, Hn; reflexivity).
  pose proof (bd_saved_numkeys klen db sws Hinv) as Hnk. fold buf in Hnk.
  unfold bd_read_fix, bd_get_offset_fix. unfold bd_fuel in Hf. rewrite Hnk in Hf. rewrite Hnk.
  destruct (bd_get_fix fuel buf klen key 0 (Z.of_nat (length (bd_idx db)) - 1)) as [o| |] eqn:E; cbn; auto.
  - exfalso. apply bd_get_fix_found_inv in E; [|lia].
    destruct E as (i & Hi & Hk & Ho).
    assert (Hiz : 0 <= i < Z.of_nat (length (bd_idx db))) by lia.
    unfold buf in Hk. rewrite (bd_saved_K klen db sws Hinv) in Hk by exact Hiz.
    pose proof Hinv as (_ & _ & _ & Hin & _).
    assert (Hnn : In (nth (Z.to_nat i) (bd_idx db) bd_d0) (bd_idx db)) by (apply nth_In; lia).
    destruct (nth (Z.to_nat i) (bd_idx db) bd_d0) as [k o'] eqn:En. cbn [fst] in Hk. subst k.
    destruct (Hin key o' Hnn) as (_ & s & tail & Hlw & _). rewrite Hn' in Hlw. discriminate.
  - exfalso. eapply bd_get_fix_terminates; [| | |exact E]; lia.
Qed.

(* ---------- the F-26 witness ---------- *)

(* one key [5] with offset 0, key length 1 *)
Definition bd_w_index : bd_bytes := bd_index_body [([5], 0)].

Lemma bd_w_diverges : forall fuel, bd_get_offset fuel bd_w_index 1 [7] = BdOutOfFuel.
Proof.
  intros fuel. unfold bd_get_offset.
  replace (bd_numkeys bd_w_index 1 - 1) with 0 by (vm_compute; reflexivity).
  apply bd_get_go_stuck. vm_compute. discriminate.
Qed.

(* out of fuel at bd_fuel means the Go loop never returns *)
Lemma bd_timeout_is_divergence buf klen key :
  bd_get_offset (bd_fuel buf klen) buf klen key = BdOutOfFuel ->
  forall fuel, bd_get_offset fuel buf klen key = BdOutOfFuel.
Proof.
  unfold bd_get_offset, bd_fuel. intros H.
  assert (0 <= bd_numkeys buf klen) by (unfold bd_numkeys, bd_ksz; apply Z.div_pos; lia).
  eapply bd_get_go_diverges; [| | |exact H]; lia.
Qed.

(* the statement "an absent key is reported not-found" fails on the code as written *)
Lemma bd_absent_statement_refuted :
  ~ (forall klen sws key, bd_ws_ok klen sws -> bd_last_written sws key = None ->
       let db := bd_write_all bd_create sws in
       exists fuel, bd_read fuel klen (bd_index_body (bd_idx db)) (bd_data db) key = BdReadNotFound).
Proof.
  intros H. specialize (H 1%nat [([5], [])] [7]). cbv zeta in H.
  destruct H as [fuel Hf].
  - unfold bd_ws_ok. split; [|split; [|split]].
    + intros w [<-|[]]. reflexivity.
    + intros w [<-|[]]. vm_compute. reflexivity.
    + vm_compute. reflexivity.
    + vm_compute. reflexivity.
  - reflexivity.
  - unfold bd_read in Hf.
    change (bd_index_body (bd_idx (bd_write_all bd_create [([5], [])]))) with bd_w_index in Hf.
    rewrite bd_w_diverges in Hf. discriminate.
Qed.

Lemma bd_absent_partial comp klen c ws key :
  let sws := bd_stored_ws comp c ws in
  let db := bd_write_all bd_create sws in
  let buf := bd_index_body (bd_idx db) in
  bd_ws_ok klen sws -> bd_last_written ws key = None ->
  (forall fuel, bd_read fuel klen buf (bd_data db) key = BdReadNotFound \/
                bd_read fuel klen buf (bd_data db) key = BdReadFuel) /\
  (bd_get_offset (bd_fuel buf klen) buf klen key <> BdOutOfFuel ->
   forall fuel, (bd_fuel buf klen <= fuel)%nat -> bd_read fuel klen buf (bd_data db) key = BdReadNotFound).
Proof.
  intros sws db buf Hok Hn. split.
  - intros fuel. apply bd_absent_never_a_record; assumption.
  - apply bd_absent_not_found_unless_stuck; assumption.
Qed.
