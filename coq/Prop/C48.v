(* C48: Governance settings change only by the owner and stay valid.
   Only statements; each is closed by [exact] of a lemma in Proof/Settings.v or Proof/SettingsWitness.v.
   k ranges over the six update entry points: chain globals (minersc update_globals), minersc
   update_settings, storagesc update_settings/commit_settings_changes, faucetsc update-settings,
   vestingsc vestingsc-update-settings, zcnsc update-global-config. The tables are Gen/SettingsTables.v. *)
From ZC Require Import Model.Settings Proof.Settings Proof.SettingsWitness.
From Coq Require Import Sorting.Permutation.
Open Scope Z_scope.
Open Scope string_scope.

(* 1. only the configured owner: any other caller gets the authorisation error and nothing changes *)
Theorem C48_only_owner :
  forall k env s t, t_caller t <> st_owner k env s -> st_step k env s (OpUpdate t) = (s, OutErrOwner).
Proof. exact st_only_owner. Qed.
Print Assumptions C48_only_owner.

(* 2. atomicity: an operation that does not succeed leaves the settings node (and pending changes) as they were *)
Theorem C48_rejected_change_keeps_all :
  forall k env s o, snd (st_step k env s o) <> OutOk -> fst (st_step k env s o) = s.
Proof. exact st_rejected_keeps. Qed.
Print Assumptions C48_rejected_change_keeps_all.

(* 3. only known mutable settings, only parsable values.
   [st_applied] = the entries the operation ranges over (storagesc: the merged pending map).
   Full statement A: every one of them evaluates (names a setting and parses at its type). *)
Definition C48_every_entry_checked_full_statement : Prop :=
  forall k env s o s', st_step k env s o = (s', OutOk) ->
    Forall (fun e => exists kv, st_eval (st_spec_of k) e = ROk kv) (st_applied k s o).

(* refuted: in faucetsc/vestingsc a cost key ends the loop (`return setCostValue(...)`), so an
   unknown key iterated after it is accepted *)
Theorem C48_every_entry_checked_refuted : ~ C48_every_entry_checked_full_statement.
Proof. exact sw_refute_every_entry_checked. Qed.
Print Assumptions C48_every_entry_checked_refuted.

(* Full statement B: every entry the loop reaches names a row of the contract's table whose flag is
   set (Mutable for globals / settable for the contracts) or a listed cost function, and evaluates. *)
Definition C48_only_listed_full_statement : Prop :=
  forall k env s o s', st_step k env s o = (s', OutOk) ->
    Forall (fun e => st_listedb (st_spec_of k) e = true /\ exists kv, st_eval (st_spec_of k) e = ROk kv)
           (st_reached (st_spec_of k) (st_applied k s o)).

(* refuted: minersc (and storagesc) store any key with the "cost." prefix *)
Theorem C48_only_listed_refuted : ~ C48_only_listed_full_statement.
Proof. exact sw_refute_only_listed. Qed.
Print Assumptions C48_only_listed_refuted.

(* partial, all contracts: every entry the loop reaches evaluates and is listed, outside exactly the
   trigger of B (an unlisted key with the "cost." prefix in minersc/storagesc) *)
Theorem C48_only_listed_partial :
  forall k env s o s', st_step k env s o = (s', OutOk) ->
    Forall (fun e => (st_listedb (st_spec_of k) e = true \/ st_any_costb (st_spec_of k) e = true) /\
                     exists kv, st_eval (st_spec_of k) e = ROk kv)
           (st_reached (st_spec_of k) (st_applied k s o)).
Proof. exact st_step_ok_accepted. Qed.
Print Assumptions C48_only_listed_partial.

(* outside the trigger of A the loop reaches every entry: only faucetsc and vestingsc return early *)
Theorem C48_loop_reaches_every_entry :
  forall k es, k <> KFaucet -> k <> KVesting -> st_reached (st_spec_of k) es = es.
Proof. exact st_reached_all_contract. Qed.
Print Assumptions C48_loop_reaches_every_entry.

(* B holds in full for the four entry points without the "any cost.* key" branch *)
Theorem C48_only_listed_globals_faucet_vesting_zcn :
  forall k env s o s', k <> KMiner -> k <> KStorage -> st_step k env s o = (s', OutOk) ->
    Forall (fun e => st_listedb (st_spec_of k) e = true /\ exists kv, st_eval (st_spec_of k) e = ROk kv)
           (st_reached (st_spec_of k) (st_applied k s o)).
Proof. exact st_step_ok_listed. Qed.
Print Assumptions C48_only_listed_globals_faucet_vesting_zcn.

(* storagesc applies the merged pending map; every entry of the request is part of it *)
Theorem C48_storage_request_is_applied :
  forall es p e, NoDup (map e_key es) -> In e es -> In e (st_merge p es).
Proof. exact st_merge_in. Qed.
Print Assumptions C48_storage_request_is_applied.

(* 4. valid after update. Full statement: from a valid node every successful operation gives a valid node. *)
Definition C48_valid_after_update_full_statement : Prop :=
  forall k env s o s', st_valid_of k (g_conf s) = true -> st_step k env s o = (s', OutOk) -> st_valid_of k (g_conf s') = true.

(* refuted twice: vestingsc never validates; storagesc update_settings saves unvalidated once "demeter" is active *)
Theorem C48_valid_after_update_refuted_vesting : ~ C48_valid_after_update_full_statement.
Proof. exact sw_refute_valid_vesting. Qed.
Print Assumptions C48_valid_after_update_refuted_vesting.

Theorem C48_valid_after_update_refuted_storage_demeter : ~ C48_valid_after_update_full_statement.
Proof. exact sw_refute_valid_storage_demeter. Qed.
Print Assumptions C48_valid_after_update_refuted_storage_demeter.

Theorem C48_valid_after_update_partial :
  forall k env s o s',
    st_valid_of k (g_conf s) = true -> st_step k env s o = (s', OutOk) ->
    k <> KVesting -> ~ (k = KStorage /\ env_demeter env = true /\ st_is_update o = true) ->
    st_valid_of k (g_conf s') = true.
Proof. exact st_valid_after. Qed.
Print Assumptions C48_valid_after_update_partial.

(* 5. same on every node: the update loops range over a Go map, so the list order is arbitrary.
   Full statement: for distinct request keys every order gives the same outcome. *)
Definition C48_same_on_every_node_full_statement : Prop :=
  forall k s es1 es2, Permutation es1 es2 -> NoDup (map e_key es1) ->
    st_res_same (st_update (st_spec_of k) s es1) (st_update (st_spec_of k) s es2).

(* refuted: two distinct keys may name one setting (storagesc trims keys; faucetsc/vestingsc lower-case cost keys) *)
Theorem C48_same_on_every_node_refuted : ~ C48_same_on_every_node_full_statement.
Proof. exact sw_refute_same_on_every_node. Qed.
Print Assumptions C48_same_on_every_node_refuted.

(* refuted a second way: even with distinct settings, a cost key in faucetsc/vestingsc cuts the request short *)
Theorem C48_same_on_every_node_refuted_cost_key :
  NoDup (map (st_skey (st_spec_of KFaucet)) sw_cost_then_valid) /\
  ~ st_res_same (st_update (st_spec_of KFaucet) (g_conf sw_faucet) sw_cost_then_valid)
                (st_update (st_spec_of KFaucet) (g_conf sw_faucet) sw_valid_then_cost).
Proof. exact (proj2 (proj2 sw_cost_ends_loop)). Qed.
Print Assumptions C48_same_on_every_node_refuted_cost_key.

(* partial: when no two request entries assign the same setting and no entry ends the loop *)
Theorem C48_same_on_every_node_partial :
  forall sp s es1 es2, Permutation es1 es2 -> NoDup (map (st_skey sp) es1) ->
    forallb (fun e => negb (st_terminal sp e)) es1 = true ->
    st_res_same (st_update sp s es1) (st_update sp s es2).
Proof. exact st_update_perm. Qed.
Print Assumptions C48_same_on_every_node_partial.

(* 6. unparsable values are rejected, not fatal. Full statement: no operation panics. *)
Definition C48_no_panic_full_statement : Prop :=
  forall k env s o, snd (st_step k env s o) <> OutPanic.

Theorem C48_no_panic_refuted : ~ C48_no_panic_full_statement.
Proof. exact sw_refute_no_panic. Qed.
Print Assumptions C48_no_panic_refuted.

(* partial: globals never panic (every type in the generated table is supported by StringToInterface);
   the contracts panic only through currency.ParseZCN on a non-finite float *)
Theorem C48_globals_update_never_panics :
  forall env s o, snd (st_step KGlobals env s o) <> OutPanic.
Proof. exact st_globals_never_panics. Qed.
Print Assumptions C48_globals_update_never_panics.

Theorem C48_no_panic_partial :
  forall sp es s, sp_globals sp = false ->
    (forall e, In e es -> po_zcn (e_po e) <> ZcnPanic) -> st_update sp s es <> RPanic.
Proof. exact st_update_contract_no_panic. Qed.
Print Assumptions C48_no_panic_partial.

(* Non-vacuity: a run over the generated minersc table with an accepted change, a non-owner,
   an unknown key, an inconsistent value (max_n < min_n) and an unparsable value. *)
Example C48_example :
  let '(s, outs) := st_run KMiner sw_env sw_miner sw_run_ops in
  outs = [OutOk; OutErrOwner; OutReject; OutReject; OutReject] /\
  st_get (g_conf s) "max_n" = Some (SvZ 9) /\ st_get (g_conf s) "cost.add_miner" = Some (SvZ 12) /\
  st_get (g_conf s) "max_s" = Some (SvZ 2).
Proof. exact sw_run_example. Qed.

Example C48_example_cost_alias :
  ~ st_res_same (st_update (st_spec_of KFaucet) (g_conf sw_faucet) sw_calias1)
                (st_update (st_spec_of KFaucet) (g_conf sw_faucet) sw_calias2).
Proof. exact sw_cost_alias_order_dependent. Qed.

Example C48_example_commit_validates :
  let s1 := fst (st_step KStorage sw_env sw_storage (OpUpdate (sw_txn [sw_ent "max_delegates" "0" (sw_po_int 0)]))) in
  g_conf s1 = g_conf sw_storage /\ snd (st_step KStorage sw_env s1 OpCommit) = OutReject.
Proof. exact sw_storage_commit_validates. Qed.
