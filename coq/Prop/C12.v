(* C12: an allocation's challenge pool equals its blobbers' outstanding values.
   Only statements; each is closed by [exact] of a lemma of Proof/Storage.v.
   [st_c12 s]: for every open allocation of the model state the challenge pool node exists and its
   balance is the sum of the per-blobber ChallengePoolIntegralValue (all values >= 0, the sum fits
   uint64, the write pool is >= 0).  The faithful model contains two defects of the code under
   which the equality breaks; [ss_fired] is true exactly for the transactions that exercise them. *)
From Coq Require Import ZArith List Bool.
From ZC Require Import Model.F64 Model.Storage Proof.StorageUtil Proof.Storage Proof.StorageWitness.
Import ListNotations.
Open Scope Z_scope.

(* The property as stated: every transaction of every history keeps the equality. *)
Definition C12_full_statement : Prop :=
  forall c s t, st_c12 s -> ss_op_wf (snd t) -> st_c12 (fst (ss_step c s t)).

(* It is false of the code as it is. *)
(* F-12b: adjustChallengePool subtracts a negative change from the blobber's value without a check;
   a change larger than the value wraps the uint64 around while the pool is debited correctly. *)
Theorem C12_refuted_adjust_wrap :
  st_c12 sw_wrap_state /\ ss_op_wf (snd sw_wrap_txn) /\ ~ st_c12 (fst (ss_step sw_conf sw_wrap_state sw_wrap_txn)).
Proof.
  split; [apply st_c12b_spec; vm_compute; reflexivity|]. split; [vm_compute; discriminate|].
  apply st_c12b_false. vm_compute. reflexivity.
Qed.
Print Assumptions C12_refuted_adjust_wrap.

Theorem C12_full_statement_refuted : ~ C12_full_statement.
Proof.
  intros H. destruct C12_refuted_adjust_wrap as [H1 [H2 H3]]. apply H3. apply H; assumption.
Qed.
Print Assumptions C12_full_statement_refuted.

(* Outside exactly this trigger every modelled operation (new/free allocation, write-pool
   lock, commit connection upload/delete/rollback, challenge generation, challenge response
   pass/fail with penalty and reward, update allocation extend/add/replace, finalize, cancel, read
   pool lock/unlock, read marker, kill/shutdown blobber, blobber settings, assigner registration)
   preserves the equality.  [ss_op_wf]: transaction values are >= 0 and a passed challenge rewards
   at least one validator (num_validators_rewarded >= 1 is enforced by the configuration check). *)
Theorem C12_step_partial :
  forall c s now round o s',
    st_c12 s -> ss_op_wf o -> ss_apply c s now round o = Some s' -> ss_fired c s now round o = false -> st_c12 s'.
Proof. exact ss_apply_c12. Qed.
Print Assumptions C12_step_partial.

(* Lifted over histories: after any sequence of transactions (accepted or rejected) in which no
   defect fired, every open allocation still satisfies the equality. *)
Theorem C12_history_partial :
  forall c ts s,
    st_c12 s -> Forall (fun t => ss_op_wf (snd t)) ts -> ss_run_fired c s ts = false -> st_c12 (fst (ss_run c s ts)).
Proof. exact ss_run_c12. Qed.
Print Assumptions C12_history_partial.

(* Closing (finalize or cancel) removes the allocation together with its pool. *)
Theorem C12_close_removes_pool :
  forall c s now round a s',
    NoDup (map al_id (st_allocs s)) -> ss_close c s now round a = Some s' -> ss_find_alloc (al_id a) (st_allocs s') = None.
Proof. exact ss_close_removes. Qed.
Print Assumptions C12_close_removes_pool.

(* Non-vacuity: a reachable-looking state on which an upload moves tokens into the pool, a lock
   tops up the write pool and the owner's cancel closes the allocation; no defect fires, the
   equality holds with a non-zero pool in between and the allocation is gone at the end. *)
(* Replacing a killed blobber (the repaired path): the pool is debited by the blobber's value. *)
Example C12_replace_killed_example :
  snd (ss_step sw_conf sw_killed_state sw_killed_txn) = true /\
  (let '(n, r, o) := sw_killed_txn in ss_fired sw_conf sw_killed_state n r o) = false /\
  map (fun a => (al_cp a, map ba_cpiv (al_bas a), al_mb a)) (st_allocs (fst (ss_step sw_conf sw_killed_state sw_killed_txn)))
    = [(Some 0, [0; 0], 97384982)].
Proof. vm_compute. repeat split; reflexivity. Qed.

Example C12_example :
  snd (ss_run sw_conf sw_killed_state sw_ok_txns) = [true; true; true] /\
  ss_run_fired sw_conf sw_killed_state sw_ok_txns = false /\
  map (fun a => (al_cp a, map ba_cpiv (al_bas a))) (st_allocs (fst (ss_run sw_conf sw_killed_state (firstn 2 sw_ok_txns))))
    = [(Some 98350693, [97384982; 965711])] /\
  st_allocs (fst (ss_run sw_conf sw_killed_state sw_ok_txns)) = [].
Proof. vm_compute. repeat split; reflexivity. Qed.
