(* C13: blobber capacity and offers track the open allocations.
   Statements only; proofs in Proof/StorageOffers.v.
   [st_c13 s]: for every blobber of the model state, Allocated = sum of the sizes of its blobber
   allocations over the open allocations, and stake-pool TotalOffers = sum of their offers
   (Offer = Coin(sizeInGB(size) * write_price) of the terms stored in the allocation).
   Three defects found by this check were repaired in /repo and the model follows the repaired
   code: 0db42d4 (repeated kill/shutdown zeroed TotalOffers, after which finalize/cancel failed
   forever), 80aa9ea (extendAllocation set every size to BlobberAllocs[0].Size+diff while Allocated
   grew by diff).  One is listed as a known finding and stays in the faithful model:
   replaceBlobber's killed/shut-down branch drops the blobber allocation without releasing the
   killed blobber's Allocated and offer ([ss_fired13]). *)
From Coq Require Import ZArith List Bool.
From ZC Require Import Model.F64 Model.Storage Proof.StorageUtil Proof.StorageFrame Proof.StorageOffers Proof.StorageEnt Proof.StorageWitness.
Import ListNotations.
Open Scope Z_scope.

Definition C13_full_statement : Prop :=
  forall c s t, st_c13 s -> ss_op_wf13 s (snd t) -> st_c13 (fst (ss_step c s t)).

(* Known finding: replacing a killed blobber leaves its Allocated and TotalOffers behind. *)
Theorem C13_refuted_replace_killed :
  st_c13 sw_killed_state /\ ss_op_wf13 sw_killed_state (snd sw_killed_txn) /\
  ~ st_c13 (fst (ss_step sw_conf sw_killed_state sw_killed_txn)).
Proof.
  split; [apply st_c13b_true; vm_compute; reflexivity|]. split; [vm_compute; intros _; reflexivity|].
  apply st_c13b_false; [|vm_compute; reflexivity].
  vm_compute. repeat (constructor; [cbn; intuition discriminate|]). constructor.
Qed.
Print Assumptions C13_refuted_replace_killed.

Theorem C13_full_statement_refuted : ~ C13_full_statement.
Proof. intros H. destruct C13_refuted_replace_killed as [H1 [H2 H3]]. apply H3. apply H; assumption. Qed.
Print Assumptions C13_full_statement_refuted.

(* Outside exactly that trigger (an update that removes a killed or shut-down blobber) every
   modelled transaction keeps both equalities.  [ss_op_wf13]: for an update without size change the
   float computation ceil(0/data_shards) gives 0 (true of every data_shards >= 1, see the example). *)
Theorem C13_step_partial :
  forall c s now round o s',
  st_c13 s -> ss_op_wf13 s o -> ss_apply c s now round o = Some s' -> ss_fired13 s o = false -> st_c13 s'.
Proof. exact ss_apply_c13. Qed.
Print Assumptions C13_step_partial.

Theorem C13_history_partial :
  forall c ts s, st_c13 s -> ss_run_ok13 c s ts -> st_c13 (fst (ss_run c s ts)).
Proof. exact ss_run_c13. Qed.
Print Assumptions C13_history_partial.

(* Worlds.  The correspondence runs [ss_run_w]: a configuration with [cf_ent] describes an
   enterprise world (electra active from the first round, enterprise blobbers, every allocation
   request with is_enterprise and valid auth tickets) in which new_allocation_request creates an
   allocation without challenge pool, update_allocation_request settles the used part of the period
   before extending (payCostForDtuForEnterpriseAllocation), finalize / cancel run finishAllocation's
   enterprise branch (offers released, cost paid, Allocated released), commit_connection and
   free_allocation_request are refused; every other configuration runs the standard operations.  A history is a list of
   transactions and of changes of storagesc.time_unit ([EvTimeUnit]: the effect of update_settings /
   commit_settings_changes on the stored configuration, recorded from the run). *)
Theorem C13_standard_world :
  forall c ts s, cf_ent c = false -> ss_run_w c s (map EvTxn ts) = ss_run c s ts.
Proof. exact ss_run_w_std. Qed.
Print Assumptions C13_standard_world.

(* The invariant in every world, enterprise operations included (same exclusion as above). *)
Theorem C13_step_world_partial :
  forall c s now round o s',
  st_c13 s -> ss_op_wf13 s o -> ss_apply_w c s now round o = Some s' -> ss_fired13 s o = false -> st_c13 s'.
Proof. exact ss_apply_w_c13. Qed.
Print Assumptions C13_step_world_partial.

Theorem C13_history_world_partial :
  forall evs c s, st_c13 s -> ss_run_ok13_w c s evs -> st_c13 (fst (ss_run_w c s evs)).
Proof. exact ss_run_w_c13. Qed.
Print Assumptions C13_history_world_partial.

(* closing an enterprise allocation releases every offer and every size, whatever the cost is *)
Theorem C13_enterprise_close :
  forall c s now a s',
  st_c13 s -> ss_find_alloc (al_id a) (st_allocs s) = Some a -> ss_close_ent c s now a = Some s' -> st_c13 s'.
Proof. exact ss_close_ent_c13. Qed.
Print Assumptions C13_enterprise_close.

Theorem C13_initial :
  forall s, st_allocs s = [] -> (forall b, In b (st_blobbers s) -> bl_allocd b = 0 /\ bl_offers b = 0) -> st_c13 s.
Proof. exact st_c13_no_allocs. Qed.
Print Assumptions C13_initial.

(* A blobber accepted for an assignment (new allocation, added or replacing blobber: isActive) has
   room for the blobber allocation: Allocated + size <= Capacity. *)
Theorem C13_assignment_within_capacity :
  forall b rr wr bs,
  ss_is_active b rr wr bs = true -> - 2 ^ 63 <= bl_cap b - bl_allocd b < 2 ^ 63 -> bl_allocd b + bs <= bl_cap b.
Proof. exact ss_is_active_capacity. Qed.
Print Assumptions C13_assignment_within_capacity.

(* Under the invariant, the offer of every blobber allocation of an open allocation can be released
   (stakePool.reduceOffer cannot underflow), so closing is never blocked by the offers. *)
Theorem C13_close_can_release_offer :
  forall s a d b,
  st_c13 s -> In a (st_allocs s) -> In d (al_bas a) -> ss_find_blobber (ba_blobber d) (st_blobbers s) = Some b ->
  exists b', ss_reduce_offer b (ss_offer d) = Some b'.
Proof. exact ss_offer_releasable. Qed.
Print Assumptions C13_close_can_release_offer.

(* Non-vacuity: the witness states satisfy the invariant with non-zero tallies; a second kill of
   the killed blobber changes nothing (repaired), uploads / locks / cancel keep the invariant and
   release everything; ceil(0/data) = 0 for the usual shard counts. *)
Example C13_example :
  st_c13b sw_killed_state = true /\
  map (fun b => (bl_allocd b, bl_offers b)) (st_blobbers sw_killed_state) = [(1073741824, 1000000000); (1073741824, 1000000000); (0, 0)] /\
  fst (ss_step sw_conf sw_killed_state (1020, 1010, OpKill 300 0)) = sw_killed_state /\
  snd (ss_run sw_conf sw_killed_state sw_ok_txns) = [true; true; true] /\
  map (fun b => (bl_allocd b, bl_offers b)) (st_blobbers (fst (ss_run sw_conf sw_killed_state sw_ok_txns))) = [(0, 0); (0, 0); (0, 0)] /\
  map (fun d => ss_bsize 0 d) [1; 2; 3; 4; 5; 6; 7; 8; 10; 16; 30] = [0; 0; 0; 0; 0; 0; 0; 0; 0; 0; 0].
Proof. vm_compute. repeat split; reflexivity. Qed.
