package main

// C11: staking and unstaking return exactly what was locked. Histories of lock / unlock / reward /
// collect transactions on one provider's stake pool, through the real entry points:
//   miner, sharder      minersc.Execute addToDelegatePool / deleteFromDelegatePool / collect_reward
//   blobber, validator  storagesc.Execute stake_pool_lock / stake_pool_unlock / collect_reward
//   plain               stakepool.StakePoolLock / StakePoolUnlock with a plain StakePool adapter
//                       (the way zcnsc uses them for authorizers)

import (
	"fmt"
	"math"
	"math/big"
	"strconv"
	"strings"
	"time"

	cstate "0chain.net/chaincore/chain/state"
	"0chain.net/chaincore/state"
	"0chain.net/chaincore/transaction"
	"0chain.net/core/common"
	"0chain.net/core/config"
	"0chain.net/smartcontract/minersc"
	"0chain.net/smartcontract/provider"
	"0chain.net/smartcontract/stakepool"
	"0chain.net/smartcontract/stakepool/spenum"
	"0chain.net/smartcontract/storagesc"
	"github.com/0chain/common/core/currency"
	"verifharness/sc"
	"verifharness/vh"
)

const (
	provIdx  = 500
	plainSSC = 8000 // address of the fictitious contract of the "plain" kind
)

type initPool struct {
	Client    int    `json:"client"`
	Bal       uint64 `json:"bal"`
	Reward    uint64 `json:"reward"`
	StakedAgo int64  `json:"staked_ago"` // seconds before now (negative: in the future); 0 => StakedAt = 0
}

type lockOp struct {
	K      string  `json:"k"` // lock|unlock|reward|collect
	Client int     `json:"client,omitempty"`
	Value  uint64  `json:"value,omitempty"`
	CBal   *uint64 `json:"cbal,omitempty"` // client balance leaf before a lock (nil: no leaf)
	Ago    int64   `json:"ago,omitempty"`  // lock: txn.CreationDate = now - Ago
}

type lockHist struct {
	Kind      string     `json:"kind"`
	VMin      uint64     `json:"vmin"`
	VMax      uint64     `json:"vmax"`
	MaxDel    int        `json:"max_delegates"`
	MinStake  uint64     `json:"min_stake"`
	RatioBits uint64     `json:"ratio_bits"`
	Wallet    int        `json:"wallet"`
	Offers    uint64     `json:"offers"`
	MinLock   int64      `json:"min_lock_s"`
	Init      []initPool `json:"init"`
	Reward    uint64     `json:"reward"`
	Twin      bool       `json:"twin,omitempty"` // storagesc kinds: a stake pool of the OTHER provider type exists under the same id
	Ops       []lockOp   `json:"ops"`
}

type trObs struct {
	From, To string
	Amt      uint64
}

type opObs struct {
	OK  bool
	Trs []trObs
	Now int64
	At  int64   // lock: the transaction time used
	Bal *uint64 // lock: the client's balance leaf as the contract saw it (nil: absent)
}

type poolObs struct {
	Client      int
	Bal, Reward uint64
	StakedAt    int64
}

type lockRun struct {
	now    int64
	ssc    string
	minter string
	obs    []opObs
	pre    [][]poolObs // pools before each op
	preRew []uint64
	final  []poolObs
	finRew uint64
	init   []poolObs
	twin   []string // digest of the stake pool stored under the other provider type and the same id, before each op and at the end
}

func (h *lockHist) provType() spenum.Provider {
	switch h.Kind {
	case "miner":
		return spenum.Miner
	case "sharder":
		return spenum.Sharder
	case "blobber":
		return spenum.Blobber
	case "validator":
		return spenum.Validator
	}
	return spenum.Authorizer
}

func clientIdx(id string) int {
	n, err := strconv.ParseUint(strings.TrimLeft(id, "0"), 16, 32)
	if err != nil {
		return -1
	}
	return int(n)
}

// tok maps an address to the integer token used in the Coq case.
func tok(id string) int64 {
	switch id {
	case storagesc.ADDRESS:
		return 800001
	case minersc.ADDRESS:
		return 800002
	}
	if i := clientIdx(id); i >= 0 {
		return int64(i)
	}
	return 899999
}

func (h *lockHist) settings() stakepool.Settings {
	return stakepool.Settings{DelegateWallet: hexID(h.Wallet), MaxNumDelegates: h.MaxDel,
		MinStake: currency.Coin(h.MinStake), ServiceChargeRatio: math.Float64frombits(h.RatioBits)}
}

// loadPool reads the provider's stake pool (and offers) from the state.
func (h *lockHist) loadPool(ctx *cstate.StateContext) (*stakepool.StakePool, error) {
	pid := hexID(provIdx)
	switch h.Kind {
	case "miner", "sharder":
		mn := minersc.NewMinerNode()
		mn.ID = pid
		if err := ctx.GetTrieNode(mn.GetKey(), mn); err != nil {
			return nil, err
		}
		return mn.StakePool, nil
	case "blobber", "validator":
		sp, _, err := storagesc.VerifGetStakePool(h.provType(), pid, ctx)
		return sp, err
	}
	sp := stakepool.NewStakePool()
	if err := sp.Get(h.provType(), pid, ctx); err != nil {
		return nil, err
	}
	return sp, nil
}

// withPool loads the pool, applies f and stores it again (used for setup and the reward op).
func (h *lockHist) withPool(ctx *cstate.StateContext, f func(sp *stakepool.StakePool) error) error {
	pid := hexID(provIdx)
	switch h.Kind {
	case "miner", "sharder":
		mn := minersc.NewMinerNode()
		mn.ID = pid
		if err := ctx.GetTrieNode(mn.GetKey(), mn); err != nil {
			return err
		}
		if err := f(mn.StakePool); err != nil {
			return err
		}
		_, err := ctx.InsertTrieNode(mn.GetKey(), mn)
		return err
	case "blobber", "validator":
		sp, off, err := storagesc.VerifGetStakePool(h.provType(), pid, ctx)
		if err != nil {
			return err
		}
		if err := f(sp); err != nil {
			return err
		}
		return storagesc.VerifPutStakePool(h.provType(), pid, sp, off, ctx)
	}
	sp := stakepool.NewStakePool()
	if err := sp.Get(h.provType(), pid, ctx); err != nil {
		return err
	}
	if err := f(sp); err != nil {
		return err
	}
	return sp.Save(h.provType(), pid, ctx)
}

// otherType: the other storagesc provider type (blobber <-> validator); 0 for the other kinds.
func (h *lockHist) otherType() spenum.Provider {
	switch h.Kind {
	case "blobber":
		return spenum.Validator
	case "validator":
		return spenum.Blobber
	}
	return 0
}

// twinDigest describes the stake pool stored under (other type, same id): "" when absent.
func (h *lockHist) twinDigest(ctx *cstate.StateContext) string {
	t := h.otherType()
	if t == 0 {
		return ""
	}
	sp, off, err := storagesc.VerifGetStakePool(t, hexID(provIdx), ctx)
	if err != nil {
		return ""
	}
	return fmt.Sprintf("dead=%v reward=%d offers=%d pools=%v", sp.HasBeenKilled, sp.Reward, off, snapshotPools(sp))
}

func snapshotPools(sp *stakepool.StakePool) []poolObs {
	var out []poolObs
	for _, id := range sp.OrderedPoolIds() {
		p := sp.Pools[id]
		out = append(out, poolObs{clientIdx(id), uint64(p.Balance), uint64(p.Reward), int64(p.StakedAt)})
	}
	return out
}

func (h *lockHist) setup(e *env, now int64) {
	pid := hexID(provIdx)
	sp := stakepool.NewStakePool()
	sp.Settings = h.settings()
	sp.Reward = currency.Coin(h.Reward)
	for _, ip := range h.Init {
		at := int64(0)
		if ip.StakedAgo != 0 {
			at = now - ip.StakedAgo
		}
		sp.Pools[hexID(ip.Client)] = &stakepool.DelegatePool{Balance: currency.Coin(ip.Bal), Reward: currency.Coin(ip.Reward),
			DelegateID: hexID(ip.Client), Status: spenum.Active, StakedAt: common.Timestamp(at)}
	}
	switch h.Kind {
	case "miner", "sharder":
		sp.Minter = cstate.MinterMiner
		e.must(func(ctx *cstate.StateContext) error {
			gn := &minersc.GlobalNode{MinStake: currency.Coin(h.VMin), MaxStake: currency.Coin(h.VMax), MaxDelegates: 1000,
				OwnerId: hexID(ownerIdx), Epoch: 1000000, RewardRoundFrequency: 0, ShareRatio: 0.5, RewardRate: 1, MaxN: 10, MinN: 1, MaxS: 10, MinS: 1}
			if _, err := ctx.InsertTrieNode(minersc.GlobalNodeKey, gn); err != nil {
				return err
			}
			mn := minersc.NewMinerNode()
			mn.ID = pid
			mn.ProviderType = h.provType()
			mn.NodeType = minersc.NodeTypeMiner
			if h.Kind == "sharder" {
				mn.NodeType = minersc.NodeTypeSharder
			}
			mn.StakePool = sp
			_, err := ctx.InsertTrieNode(mn.GetKey(), mn)
			return err
		})
	case "blobber", "validator":
		sp.Minter = cstate.MinterStorage
		e.must(func(ctx *cstate.StateContext) error {
			if err := storagesc.InitConfig(ctx); err != nil {
				return err
			}
			if err := storagesc.InitPartitions(ctx); err != nil {
				return err
			}
			if h.Kind == "blobber" {
				b := storagesc.VerifNewBlobberNode(pid, 0, sp.Settings, 1)
				if _, err := ctx.InsertTrieNode(b.GetKey(), b); err != nil {
					return err
				}
			} else {
				v := &storagesc.ValidationNode{Provider: provider.Provider{ID: pid, ProviderType: spenum.Validator}}
				if _, err := ctx.InsertTrieNode(v.GetKey(), v); err != nil {
					return err
				}
			}
			if h.Twin {
				tw := stakepool.NewStakePool()
				tw.Settings = stakepool.Settings{DelegateWallet: hexID(51), MaxNumDelegates: 10}
				tw.Minter = cstate.MinterStorage
				tw.Reward = 11
				tw.Pools[hexID(7)] = &stakepool.DelegatePool{Balance: 555, Reward: 5, DelegateID: hexID(7), Status: spenum.Active}
				if err := storagesc.VerifPutStakePool(h.otherType(), pid, tw, 3, ctx); err != nil {
					return err
				}
			}
			return storagesc.VerifPutStakePool(h.provType(), pid, sp, currency.Coin(h.Offers), ctx)
		})
	default:
		sp.Minter = cstate.MinterZcn
		e.must(func(ctx *cstate.StateContext) error { return sp.Save(h.provType(), pid, ctx) })
	}
}

func plainAdapter(p spenum.Provider, id string, b cstate.StateContextI) (stakepool.AbstractStakePool, error) {
	sp := stakepool.NewStakePool()
	if err := sp.Get(p, id, b); err != nil {
		return nil, err
	}
	return sp, nil
}

func runLock(h *lockHist) *lockRun {
	now := time.Now().Unix()
	r := &lockRun{now: now}
	config.SmartContractConfig.Set("stakepool.min_lock_period", (time.Duration(h.MinLock) * time.Second).String())
	pid := hexID(provIdx)
	switch h.Kind {
	case "miner", "sharder":
		r.ssc = minersc.ADDRESS
	case "blobber", "validator":
		r.ssc = storagesc.ADDRESS
		// MinStake / MaxStake of storagesc come from its stored config (ParseZCN of a float)
		setupConfig(0.5, time.Duration(h.MinLock)*time.Second)
		config.SmartContractConfig.Set("smart_contracts.storagesc.min_stake", float64(h.VMin)/1e10)
		config.SmartContractConfig.Set("smart_contracts.storagesc.max_stake", float64(h.VMax)/1e10)
	default:
		r.ssc = hexID(plainSSC)
	}
	e := newEnv()
	h.setup(e, now)
	e.view(func(ctx *cstate.StateContext) {
		sp, err := h.loadPool(ctx)
		if err != nil {
			panic(err)
		}
		r.init = snapshotPools(sp)
		m, _ := cstate.GetMinter(sp.Minter)
		r.minter = m
	})
	req := (&stakepool.StakePoolRequest{ProviderType: h.provType(), ProviderID: pid}).Encode()
	creq := (&stakepool.CollectRewardRequest{ProviderType: h.provType(), ProviderId: pid}).Encode()
	for i, op := range h.Ops {
		e.view(func(ctx *cstate.StateContext) {
			sp, err := h.loadPool(ctx)
			if err != nil {
				panic(err)
			}
			r.pre = append(r.pre, snapshotPools(sp))
			r.preRew = append(r.preRew, uint64(sp.Reward))
			r.twin = append(r.twin, h.twinDigest(ctx))
		})
		var o opObs
		o.At = now - op.Ago
		txn := sc.Txn(fmt.Sprintf("%064x", 0xabc000+i), hexID(op.Client), r.ssc, 0, o.At)
		var res txnRes
		switch op.K {
		case "lock":
			txn.Value = currency.Coin(op.Value)
			res = e.exec(txn, func(ctx *cstate.StateContext) (string, error) {
				if op.CBal != nil {
					sc.SetBalance(ctx, hexID(op.Client), *op.CBal)
				}
				if b, err := ctx.GetClientBalance(hexID(op.Client)); err == nil { // a leaf may remain from an earlier lock
					v := uint64(b)
					o.Bal = &v
				}
				switch h.Kind {
				case "miner", "sharder":
					return e.msc.Execute(txn, "addToDelegatePool", req, ctx)
				case "blobber", "validator":
					return e.ssc.Execute(txn, "stake_pool_lock", req, ctx)
				}
				return stakepool.StakePoolLock(txn, req, ctx,
					stakepool.ValidationSettings{MinStake: currency.Coin(h.VMin), MaxStake: currency.Coin(h.VMax), MaxNumDelegates: 1000}, plainAdapter)
			})
		case "unlock":
			res = e.exec(txn, func(ctx *cstate.StateContext) (string, error) {
				o.Now = time.Now().Unix()
				switch h.Kind {
				case "miner", "sharder":
					return e.msc.Execute(txn, "deleteFromDelegatePool", req, ctx)
				case "blobber", "validator":
					return e.ssc.Execute(txn, "stake_pool_unlock", req, ctx)
				}
				return stakepool.StakePoolUnlock(txn, req, ctx, plainAdapter)
			})
		case "collect":
			res = e.exec(txn, func(ctx *cstate.StateContext) (string, error) {
				switch h.Kind {
				case "miner", "sharder":
					return e.msc.Execute(txn, "collect_reward", creq, ctx)
				case "blobber", "validator":
					return e.ssc.Execute(txn, "collect_reward", creq, ctx)
				}
				return "", h.withPool(ctx, func(sp *stakepool.StakePool) error {
					_, err := sp.MintRewards(txn.ClientID, pid, h.provType(), ctx)
					return err
				})
			})
		case "reward":
			res = e.exec(txn, func(ctx *cstate.StateContext) (string, error) {
				return "", h.withPool(ctx, func(sp *stakepool.StakePool) error {
					return sp.DistributeRewards(currency.Coin(op.Value), pid, h.provType(), spenum.BlockRewardBlobber, ctx)
				})
			})
		}
		o.OK = res.Err == nil && res.Panic == ""
		for _, t := range res.Transfers {
			o.Trs = append(o.Trs, trOf(t))
		}
		r.obs = append(r.obs, o)
	}
	e.view(func(ctx *cstate.StateContext) {
		sp, err := h.loadPool(ctx)
		if err != nil {
			panic(err)
		}
		r.final = snapshotPools(sp)
		r.finRew = uint64(sp.Reward)
		r.twin = append(r.twin, h.twinDigest(ctx))
	})
	return r
}

func trOf(t *state.Transfer) trObs { return trObs{t.ClientID, t.ToClientID, uint64(t.Amount)} }

func findPool(ps []poolObs, c int) *poolObs {
	for i := range ps {
		if ps[i].Client == c {
			return &ps[i]
		}
	}
	return nil
}

func othersSame(a, b []poolObs, except int) bool {
	fa, fb := []poolObs{}, []poolObs{}
	for _, p := range a {
		if p.Client != except {
			fa = append(fa, p)
		}
	}
	for _, p := range b {
		if p.Client != except {
			fb = append(fb, p)
		}
	}
	if len(fa) != len(fb) {
		return false
	}
	for i := range fa {
		if fa[i] != fb[i] {
			return false
		}
	}
	return true
}

// oracleLock evaluates the C11 statement on the observed history; returns the first failure.
func oracleLock(h *lockHist, r *lockRun, kinds map[string]int) string {
	staked := map[int]*big.Int{}   // stake moved in per client
	returned := map[int]*big.Int{} // stake paid back per client
	// rewards credited to each client's pool since its last collect / unlock, tracked from the
	// reward transactions themselves (independent of the Reward field the pool carries around)
	accrued := map[int]*big.Int{}
	for _, p := range r.init {
		accrued[p.Client] = bz(p.Reward)
	}
	earned := map[int]*big.Int{} // all rewards ever credited to a client's pool (incl. the initial ones)
	paid := map[int]*big.Int{}   // all rewards ever paid out to it
	for _, p := range r.init {
		earned[p.Client] = bz(p.Reward)
	}
	bump := func(m map[int]*big.Int, c int, v *big.Int) {
		if m[c] == nil {
			m[c] = new(big.Int)
		}
		m[c].Add(m[c], v)
	}
	acc := func(c int) *big.Int {
		if accrued[c] == nil {
			accrued[c] = new(big.Int)
		}
		return accrued[c]
	}
	add := func(m map[int]*big.Int, c int, v uint64) {
		if m[c] == nil {
			m[c] = new(big.Int)
		}
		m[c].Add(m[c], bz(v))
	}
	for i, op := range h.Ops {
		pre := r.pre[i]
		var post []poolObs
		var postRew uint64
		if i+1 < len(h.Ops) {
			post, postRew = r.pre[i+1], r.preRew[i+1]
		} else {
			post, postRew = r.final, r.finRew
		}
		o := r.obs[i]
		me := hexID(op.Client)
		if r.twin[i+1] != r.twin[i] {
			return "other-providers-pool-overwritten" // a call addressed to (type, id) touched the pool stored under another type
		}
		if !o.OK {
			kinds[op.K+"-rejected"]++
			if !othersSame(pre, post, -1) || postRew != r.preRew[i] {
				return "failed-transaction-changed-state"
			}
			continue
		}
		kinds[op.K+"-ok"]++
		mine := findPool(pre, op.Client)
		if op.K == "lock" && mine != nil && mine.Reward > 0 {
			kinds["relock-with-uncollected-reward"]++
		}
		after := findPool(post, op.Client)
		switch op.K {
		case "lock":
			if len(o.Trs) != 1 || o.Trs[0] != (trObs{me, r.ssc, op.Value}) {
				return "lock-transfer-not-exactly-value"
			}
			before := uint64(0)
			if mine != nil {
				before = mine.Bal
			}
			if after == nil || after.Bal-before != op.Value || after.Bal < before {
				return "lock-pool-not-increased-by-value"
			}
			if op.Value == 0 || op.Value < h.VMin || after.Bal > h.VMax {
				return "lock-outside-stake-bounds"
			}
			if o.Bal == nil || *o.Bal < op.Value {
				return "lock-without-funds"
			}
			if mine == nil && len(pre) >= h.MaxDel {
				return "lock-exceeds-delegate-limit"
			}
			if !othersSame(pre, post, op.Client) || postRew != r.preRew[i] {
				return "lock-changed-other-records"
			}
			if bz(after.Reward).Cmp(acc(op.Client)) != 0 {
				return "lock-dropped-accrued-reward" // a re-stake must keep what the pool has earned
			}
			add(staked, op.Client, op.Value)
		case "unlock":
			if mine == nil {
				return "unlock-without-own-pool"
			}
			if after != nil {
				return "unlock-pool-not-removed"
			}
			wantMint := bz(mine.Reward)
			if op.Client == h.Wallet {
				wantMint.Add(wantMint, bz(r.preRew[i]))
			}
			gotMint, gotStake := new(big.Int), new(big.Int)
			for k, t := range o.Trs {
				if t.To != me {
					return "unlock-pays-somebody-else"
				}
				if k == len(o.Trs)-1 {
					if t.From != r.ssc {
						return "unlock-stake-not-from-contract"
					}
					gotStake.Add(gotStake, bz(t.Amt))
				} else {
					if t.From != r.minter {
						return "unlock-reward-not-from-minter"
					}
					gotMint.Add(gotMint, bz(t.Amt))
				}
			}
			if gotStake.Cmp(bz(mine.Bal)) != 0 {
				return "unlock-stake-not-exactly-balance"
			}
			if gotMint.Cmp(wantMint) != 0 {
				return "unlock-rewards-not-exact"
			}
			{
				mine2 := new(big.Int).Set(gotMint)
				if op.Client == h.Wallet {
					mine2.Sub(mine2, bz(r.preRew[i]))
				}
				bump(paid, op.Client, mine2)
				if e := earned[op.Client]; paid[op.Client].Cmp(map[bool]*big.Int{true: e, false: new(big.Int)}[e != nil]) > 0 {
					return "reward-paid-twice"
				}
			}
			owed := new(big.Int).Set(acc(op.Client))
			if op.Client == h.Wallet {
				owed.Add(owed, bz(r.preRew[i]))
			}
			if gotMint.Cmp(owed) != 0 {
				return "unlock-does-not-pay-accrued-rewards"
			}
			accrued[op.Client] = new(big.Int)
			if !othersSame(pre, post, op.Client) {
				return "unlock-changed-other-pools"
			}
			if h.Kind == "blobber" || h.Kind == "validator" {
				rest := new(big.Int)
				for _, p := range post {
					rest.Add(rest, bz(p.Bal))
				}
				if rest.Cmp(bz(h.Offers)) < 0 {
					return "unlock-leaves-offers-uncovered"
				}
			}
			if mine.StakedAt > 0 && mine.StakedAt+h.MinLock >= o.Now+2 {
				return "unlock-before-lock-period"
			}
			add(returned, op.Client, mine.Bal)
		case "collect":
			want := new(big.Int)
			if mine != nil {
				want.Add(want, bz(mine.Reward))
			}
			if op.Client == h.Wallet {
				want.Add(want, bz(r.preRew[i]))
			}
			got := new(big.Int)
			for _, t := range o.Trs {
				if t.To != me || t.From != r.minter {
					return "collect-pays-somebody-else"
				}
				got.Add(got, bz(t.Amt))
			}
			if got.Cmp(want) != 0 {
				return "collect-not-exact"
			}
			{
				mine2 := new(big.Int).Set(got)
				if op.Client == h.Wallet {
					mine2.Sub(mine2, bz(r.preRew[i]))
				}
				bump(paid, op.Client, mine2)
				if e := earned[op.Client]; paid[op.Client].Cmp(map[bool]*big.Int{true: e, false: new(big.Int)}[e != nil]) > 0 {
					return "reward-paid-twice"
				}
				if after != nil && after.Reward != 0 {
					return "collected-reward-not-cleared" // the pool still records a reward that was just paid out
				}
			}
			owedC := new(big.Int).Set(acc(op.Client))
			if op.Client == h.Wallet {
				owedC.Add(owedC, bz(r.preRew[i]))
			}
			if got.Cmp(owedC) != 0 {
				return "collect-does-not-pay-accrued-rewards"
			}
			accrued[op.Client] = new(big.Int)
			fallthrough
		case "reward":
			for _, p := range pre {
				q := findPool(post, p.Client)
				if q == nil || q.Bal != p.Bal {
					return op.K + "-changed-a-stake"
				}
			}
			if len(pre) != len(post) {
				return op.K + "-changed-pool-set"
			}
			if op.K == "reward" {
				for _, p := range pre {
					q := findPool(post, p.Client)
					if q.Reward < p.Reward {
						return "reward-decreased-a-reward"
					}
					acc(p.Client).Add(acc(p.Client), bz(q.Reward-p.Reward))
					bump(earned, p.Client, bz(q.Reward-p.Reward))
				}
			}
		}
	}
	// ledger per client
	for c := 0; c < 12; c++ {
		lhs, rhs := new(big.Int), new(big.Int)
		if p := findPool(r.final, c); p != nil {
			lhs.Add(lhs, bz(p.Bal))
		}
		if returned[c] != nil {
			lhs.Add(lhs, returned[c])
		}
		if p := findPool(r.init, c); p != nil {
			rhs.Add(rhs, bz(p.Bal))
		}
		if staked[c] != nil {
			rhs.Add(rhs, staked[c])
		}
		if lhs.Cmp(rhs) != 0 {
			return "ledger-broken"
		}
	}
	return ""
}

func coqLock(h *lockHist, r *lockRun) string {
	offers := "None"
	if h.Kind == "blobber" || h.Kind == "validator" {
		offers = vh.Some(vh.ZU(h.Offers))
	}
	init := make([]string, len(r.init))
	for i, p := range r.init {
		init[i] = fmt.Sprintf("(%d, %s, %s, %s)", p.Client, vh.ZU(p.Bal), vh.ZU(p.Reward), vh.Z(p.StakedAt))
	}
	ops := make([]string, len(h.Ops))
	outs := make([]string, len(h.Ops))
	for i, op := range h.Ops {
		switch op.K {
		case "lock":
			cb := "None"
			if r.obs[i].Bal != nil {
				cb = vh.Some(vh.ZU(*r.obs[i].Bal))
			}
			ops[i] = fmt.Sprintf("LLock %d %s %s %s", op.Client, vh.ZU(op.Value), vh.Z(r.obs[i].At), cb)
		case "unlock":
			ops[i] = fmt.Sprintf("LUnlock %d %s", op.Client, vh.Z(r.obs[i].Now))
		case "reward":
			ops[i] = fmt.Sprintf("LReward %s", vh.ZU(op.Value))
		default:
			ops[i] = fmt.Sprintf("LCollect %d", op.Client)
		}
		trs := make([]string, len(r.obs[i].Trs))
		for k, t := range r.obs[i].Trs {
			trs[k] = fmt.Sprintf("(%d, %d, %s)", tok(t.From), tok(t.To), vh.ZU(t.Amt))
		}
		outs[i] = vh.Pair(vh.Bool(r.obs[i].OK), vh.List(trs))
	}
	fin := make([]string, len(r.final))
	for i, p := range r.final {
		fin[i] = fmt.Sprintf("(%d, %s, %s)", p.Client, vh.ZU(p.Bal), vh.ZU(p.Reward))
	}
	return fmt.Sprintf("{| spl_minter := %d; spl_ssc := %d; spl_vmin := %s; spl_vmax := %s; spl_offers := %s; spl_min_lock := %s; "+
		"spl_pools := %s; spl_reward := %s; spl_wallet := %d; spl_maxdel := %d; spl_minstake := %s; spl_charge_bits := %s; spl_killed := false; "+
		"spl_ops := %s; spl_outs := %s; spl_final := %s; spl_final_reward := %s |}",
		tok(r.minter), tok(r.ssc), vh.ZU(h.VMin), vh.ZU(h.VMax), offers, vh.Z(h.MinLock),
		vh.List(init), vh.ZU(h.Reward), h.Wallet, h.MaxDel, vh.ZU(h.MinStake), vh.ZU(h.RatioBits),
		vh.List(ops), vh.List(outs), vh.List(fin), vh.ZU(r.finRew))
}

var lockKinds = []string{"plain", "miner", "sharder", "validator", "blobber"}

func genLock(r *vh.Rand) *lockHist {
	h := &lockHist{Kind: lockKinds[r.Intn(len(lockKinds))]}
	storage := h.Kind == "blobber" || h.Kind == "validator"
	// stake bounds; storagesc reads them through ParseZCN(float) so only exactly convertible values
	if storage {
		h.VMin = []uint64{0, 10, 1e10}[r.Intn(3)]
		h.VMax = []uint64{1000, 1e12, 2e14}[r.Intn(3)]
		if h.VMax < h.VMin { // the stored storagesc config must validate
			h.VMax = h.VMin
		}
	} else {
		h.VMin = []uint64{0, 1, 10, 1e10}[r.Intn(4)]
		h.VMax = []uint64{0, 1000, 1e12, two53 + 1, two63 - 1, two63 + 5, maxU64}[r.Intn(7)]
	}
	h.MaxDel = r.Range(0, 4)
	if r.Chance(1, 3) {
		h.MaxDel = 100
	}
	h.RatioBits = math.Float64bits(genRatio(r, false))
	h.Wallet = []int{1, 2, 50}[r.Intn(3)]
	h.MinLock = 100
	if r.Chance(1, 6) {
		h.MinStake = genRealistic(r) % 2000
	}
	if storage && r.Chance(1, 2) {
		h.Twin = true
	}
	if storage && r.Chance(1, 2) {
		h.Offers = []uint64{1, 50, 500, 1e10}[r.Intn(4)]
	}
	amount := func() uint64 {
		switch r.Intn(8) {
		case 0:
			return 0
		case 1:
			return h.VMin
		case 2:
			return h.VMax
		case 3:
			return h.VMax + 1
		case 4:
			return genCoin(r)
		default:
			if h.VMin <= 600 && h.VMax >= 600 {
				return h.VMin + uint64(r.Range(1, 150))
			}
			return uint64(r.Range(1, 600))
		}
	}
	for c := 1; c <= 3; c++ {
		if r.Chance(1, 3) {
			ip := initPool{Client: c, Bal: uint64(r.Range(0, 500)), StakedAgo: []int64{0, 5000, -5000}[r.Intn(3)]}
			if r.Chance(1, 2) {
				ip.Reward = uint64(r.Intn(300))
			}
			if r.Chance(1, 10) {
				ip.Bal = genCoin(r)
			}
			h.Init = append(h.Init, ip)
		}
	}
	if r.Chance(1, 3) {
		h.Reward = uint64(r.Intn(1000))
	}
	if r.Chance(1, 4) && h.MaxDel > 0 && h.VMax >= h.VMin+400 {
		// stake, earn, stake again (not collected), unstake
		c := r.Range(1, 5)
		v1, v2 := h.VMin+uint64(r.Range(1, 100)), h.VMin+uint64(r.Range(1, 100))
		b1, b2 := v1+1000, v2+1000
		h.Ops = append(h.Ops, lockOp{K: "lock", Client: c, Value: v1, CBal: &b1, Ago: 5000},
			lockOp{K: "reward", Value: uint64(r.Range(100, 5000))},
			lockOp{K: "lock", Client: c, Value: v2, CBal: &b2, Ago: 5000})
		if r.Bool() {
			h.Ops = append(h.Ops, lockOp{K: "reward", Value: uint64(r.Range(100, 5000))})
		}
		h.Ops = append(h.Ops, lockOp{K: "unlock", Client: c})
	}
	n := r.Range(2, 10)
	var lockers []int // clients that hold or tried to get a pool: unlock candidates
	for _, ip := range h.Init {
		lockers = append(lockers, ip.Client)
	}
	for i := 0; i < n; i++ {
		c := r.Range(1, 5)
		x := r.Intn(10)
		if x >= 4 && x < 7 && len(lockers) > 0 && r.Chance(3, 4) {
			c = lockers[r.Intn(len(lockers))]
		}
		if x < 4 {
			lockers = append(lockers, c)
		}
		switch {
		case x < 4:
			op := lockOp{K: "lock", Client: c, Value: amount(), Ago: []int64{5000, 5000, 5000, -5000}[r.Intn(4)]}
			if !r.Chance(1, 10) {
				b := op.Value + uint64(r.Intn(3))*1000
				if r.Chance(1, 8) && op.Value > 0 {
					b = op.Value - 1
				}
				op.CBal = &b
			}
			h.Ops = append(h.Ops, op)
		case x < 7:
			h.Ops = append(h.Ops, lockOp{K: "unlock", Client: c})
		case x < 9:
			v := uint64(r.Intn(5000))
			if r.Chance(1, 8) {
				v = genRealistic(r)
			}
			h.Ops = append(h.Ops, lockOp{K: "reward", Value: v})
		default:
			cc := []int{c, h.Wallet}[r.Intn(2)]
			if len(lockers) > 0 && r.Chance(1, 2) {
				cc = lockers[r.Intn(len(lockers))]
			}
			h.Ops = append(h.Ops, lockOp{K: "collect", Client: cc})
			if r.Chance(1, 3) { // collect twice in a row: the second one must pay nothing new
				h.Ops = append(h.Ops, lockOp{K: "collect", Client: cc})
			}
		}
	}
	return h
}

func fixedLock() []*lockHist {
	b := func(v uint64) *uint64 { return &v }
	ratio := math.Float64bits(0.1)
	var out []*lockHist
	for _, k := range lockKinds {
		out = append(out, &lockHist{Kind: k, VMin: 10, VMax: 1000, MaxDel: 2, RatioBits: ratio, Wallet: 50, MinLock: 100,
			Ops: []lockOp{{K: "lock", Client: 1, Value: 100, CBal: b(5000), Ago: 5000}, {K: "lock", Client: 2, Value: 300, CBal: b(300), Ago: 5000},
				{K: "lock", Client: 3, Value: 50, CBal: b(5000), Ago: 5000}, {K: "lock", Client: 1, Value: 5, CBal: b(5000), Ago: 5000},
				{K: "reward", Value: 1000}, {K: "collect", Client: 2}, {K: "unlock", Client: 1}, {K: "unlock", Client: 4},
				{K: "lock", Client: 4, Value: 20, CBal: b(20), Ago: -5000}, {K: "unlock", Client: 4}, {K: "collect", Client: 50}}})
		// re-stake with an uncollected reward, then unstake
		out = append(out, &lockHist{Kind: k, VMin: 10, VMax: 1000, MaxDel: 3, RatioBits: ratio, Wallet: 50, MinLock: 100,
			Ops: []lockOp{{K: "lock", Client: 1, Value: 100, CBal: b(5000), Ago: 5000}, {K: "lock", Client: 2, Value: 100, CBal: b(5000), Ago: 5000},
				{K: "reward", Value: 1000}, {K: "lock", Client: 1, Value: 50, CBal: b(5000), Ago: 5000}, {K: "reward", Value: 500},
				{K: "unlock", Client: 1}, {K: "collect", Client: 2}}})
		// the same id also has a stake pool under the other storagesc provider type; collect, collect again, unstake
		out = append(out, &lockHist{Kind: k, VMin: 10, VMax: 1000, MaxDel: 3, RatioBits: ratio, Wallet: 50, MinLock: 100, Twin: true,
			Ops: []lockOp{{K: "lock", Client: 1, Value: 100, CBal: b(5000), Ago: 5000}, {K: "reward", Value: 700},
				{K: "collect", Client: 1}, {K: "collect", Client: 1}, {K: "collect", Client: 50}, {K: "unlock", Client: 1}}})
	}
	return out
}

func lockKey(h *lockHist) string { return string(jsonOf(h)) }

func shrinkLock(h *lockHist, sig string) *lockHist {
	fails := func(c *lockHist) bool {
		return oracleLock(c, runLock(c), map[string]int{}) == sig
	}
	keep := vh.ShrinkIdx(len(h.Ops), func(keep []int) bool {
		c := *h
		c.Ops = nil
		for _, i := range keep {
			c.Ops = append(c.Ops, h.Ops[i])
		}
		return fails(&c)
	})
	c := *h
	c.Ops = nil
	for _, i := range keep {
		c.Ops = append(c.Ops, h.Ops[i])
	}
	k2 := vh.ShrinkIdx(len(c.Init), func(keep []int) bool {
		d := c
		d.Init = nil
		for _, i := range keep {
			d.Init = append(d.Init, c.Init[i])
		}
		return fails(&d)
	})
	d := c
	d.Init = nil
	for _, i := range k2 {
		d.Init = append(d.Init, c.Init[i])
	}
	return &d
}

func runC11(o vh.Opts) {
	sc.Init()
	setupConfig(0.5, 100*time.Second)
	rep := vh.NewReport("stake", "C11", o)
	rep.Rule = "one case = a history of 2-10 lock/unlock/reward/collect transactions by clients 1-5 (and the delegate wallet) on one provider's stake pool, " +
		"each executed on a per-transaction state through the real entry point of its kind (miner, sharder: minersc.Execute; blobber, validator: storagesc.Execute " +
		"with total offers; plain: stakepool.StakePoolLock/Unlock as zcnsc uses them); amounts 0, at/over the bounds, uint64 edge values or 1-600; client balance " +
		"sufficient / one short / absent; lock time before or inside the lock period; delegate limit 0-4 or 100; non-trivial = at least one lock succeeded, one " +
		"unlock succeeded and one transaction was rejected; distinct by full input"
	rep.Note("lock period: StakedAt is set 5000 s in the past or in the future relative to time.Now() (min period 100 s); the recorded wall clock of each unlock is an input of the model")
	cf := &vh.CasesFile{Imports: []string{"Base.Corr", "Model.StakePool", "Corr.StakePoolLock"}, CaseType: "spl_case", CheckFn: "spl_check", Shard: 100}
	handle := func(h *lockHist) {
		r := runLock(h)
		kinds := map[string]int{}
		sig := oracleLock(h, r, kinds)
		for k, n := range kinds {
			rep.CountN(k, n)
		}
		rep.Count("kind:" + h.Kind)
		rep.Case(lockKey(h), kinds["lock-ok"] > 0 && kinds["unlock-ok"] > 0 &&
			kinds["lock-rejected"]+kinds["unlock-rejected"]+kinds["collect-rejected"]+kinds["reward-rejected"] > 0, h)
		cf.Add(coqLock(h, r))
		rep.CaseInputs = append(rep.CaseInputs, h)
		if sig != "" {
			rep.Count("violation:" + sig)
			m := shrinkLock(h, sig)
			rep.Violate("C11:"+sig, "stake / unstake: "+sig, m)
		}
	}
	var rh lockHist
	if o.LoadReplay(&rh) {
		handle(&rh)
		finish(o, rep, cf, "C11")
		return
	}
	for _, h := range fixedLock() {
		handle(h)
	}
	rnd := vh.NewRand(o.Seed)
	for i := 0; i < o.N(300, 4000); i++ {
		handle(genLock(rnd))
	}
	finish(o, rep, cf, "C11")
}

var _ = transaction.Transaction{}
