(* C15: read markers charge each read exactly once.
   Statements only; proofs in Proof/StorageRead.v.  [ss_read] models commitBlobberRead;
   [id_ok]/[sig_ok] are the outcomes of ReadMarker.VerifyClientID / VerifySignature recorded from
   the run (a marker not signed by the client's key has sig_ok = false). *)
From Coq Require Import ZArith List Bool.
From ZC Require Import Model.F64 Model.Storage Proof.StorageUtil Proof.StorageFrame Proof.StorageRead Proof.StorageWitness.
Import ListNotations.
Open Scope Z_scope.

(* A successful redeem: the marker was signed by the client (id and signature valid), its counter is
   positive and not below the last redeemed one; the client's read pool is debited by exactly
   [ss_read_value price (counter - last)] = Coin(float64(price) * sizeInGB((counter-last)*64KB)),
   which the pool must cover; no other read pool changes; the blobber's stake pool receives that
   amount (DistributeRewards); the counter of (blobber, client, allocation) becomes the marker's
   counter and no other counter changes; no wallet balance moves. *)
Theorem C15_read_charge_exact :
  forall c s client blobber alloc ts ctr id_ok sig_ok s',
  ss_read c s client blobber alloc ts ctr id_ok sig_ok = Some s' ->
  id_ok = true /\ sig_ok = true /\ 0 < ctr /\
  let last := ss_read_last blobber client alloc (st_reads s) in
  ss_last0 last <= ctr /\ (match last with Some n => n <= ctr | None => True end) /\
  ctr - ss_last0 last <= (2 ^ 63 - 1) / ss_CHUNK /\
  exists a d b,
    ss_find_alloc alloc (st_allocs s) = Some a /\ ss_find_ba blobber (al_bas a) = Some d /\
    ss_find_blobber blobber (st_blobbers s) = Some b /\ al_start a <= ts <= al_exp a /\
    let v := ss_read_value (ba_rp d) (ctr - ss_last0 last) in
    v <= ss_assoc0 client (st_rpools s) /\
    (forall k, ss_assoc0 k (st_rpools s') = if k =? client then ss_assoc0 client (st_rpools s) - v else ss_assoc0 k (st_rpools s)) /\
    (forall b' c' a', ss_read_last b' c' a' (st_reads s') =
                      if (b' =? blobber) && (c' =? client) && (a' =? alloc) then Some ctr else ss_read_last b' c' a' (st_reads s)) /\
    exists b1, ss_distribute b v = Some b1 /\ ss_find_blobber blobber (st_blobbers s') = Some b1 /\
    st_bals s' = st_bals s.
Proof. exact ss_read_spec. Qed.
Print Assumptions C15_read_charge_exact.

(* Counters only move forward, across every modelled transaction (not only read markers). *)
Theorem C15_counter_monotone :
  forall c s now round o s' b cl al n,
  ss_apply c s now round o = Some s' -> ss_read_last b cl al (st_reads s) = Some n ->
  exists n', ss_read_last b cl al (st_reads s') = Some n' /\ n <= n'.
Proof. exact ss_apply_counter_monotone. Qed.
Print Assumptions C15_counter_monotone.

(* An older marker is rejected (state unchanged); a marker with the same counter reads zero new
   blocks, and zero blocks cost nothing. *)
Theorem C15_older_marker_rejected :
  forall c s client blobber alloc ts ctr id_ok sig_ok n,
  ss_read_last blobber client alloc (st_reads s) = Some n -> ctr < n ->
  ss_read c s client blobber alloc ts ctr id_ok sig_ok = None.
Proof. exact ss_read_older_rejected. Qed.
Print Assumptions C15_older_marker_rejected.

Theorem C15_replay_charges_nothing :
  forall rp, f64_finite_or_zero (f64_of_Z rp) -> ss_read_value rp 0 = 0.
Proof. exact ss_read_value_zero_blocks. Qed.
Print Assumptions C15_replay_charges_nothing.

(* Markers whose client id does not belong to the key, or not signed by the client's key, are rejected. *)
Theorem C15_foreign_signature_rejected :
  forall c s client blobber alloc ts ctr id_ok sig_ok,
  id_ok = false \/ sig_ok = false -> ss_read c s client blobber alloc ts ctr id_ok sig_ok = None.
Proof. exact ss_read_foreign_rejected. Qed.
Print Assumptions C15_foreign_signature_rejected.

(* The counter delta accepted by the code is small enough that delta * 64KB fits int64 (range check
   added by /repo commit 5bead22 after this check found 2^50 blocks being charged 0): the charge is
   computed from the true byte count. *)
Theorem C15_size_does_not_wrap :
  forall rp n, 0 <= n <= (2 ^ 63 - 1) / ss_CHUNK ->
  ss_read_value rp n = f64_to_u64 (f64_mul (f64_of_Z rp) (ss_size_gb (n * ss_CHUNK))).
Proof. exact ss_read_value_no_wrap. Qed.
Print Assumptions C15_size_does_not_wrap.

(* Non-vacuity: on the witness state a client locks a read pool, redeems counter 16384 (1 GB at
   1e8 per GB costs exactly 1e8), replays it (accepted, charges 0), an older one and a forged one
   are rejected, so is a counter 2^50 blocks ahead; prices at the edges of uint64 convert to finite floats and charge exactly. *)
Example C15_example :
  let txs := [(1040, 1010, OpRPLock 100 100 5000000000); (1041, 1011, OpRead 100 1 1 1041 16384 true true);
              (1042, 1012, OpRead 100 1 1 1042 16384 true true); (1043, 1013, OpRead 100 1 1 1043 16383 true true);
              (1044, 1014, OpRead 100 1 1 1044 20000 true false); (1045, 1015, OpRead 100 1 1 1045 1125899906859008 true true)] in
  snd (ss_run sw_conf sw_killed_state txs) = [true; true; true; false; false; false] /\
  ss_assoc0 100 (st_rpools (fst (ss_run sw_conf sw_killed_state txs))) = 4900000000 /\
  ss_read_value 100000000 16384 = 100000000 /\ ss_read_value 18446744073709551615 0 = 0 /\
  ss_read_value 9007199254740993 0 = 0 /\ ss_read_value 123456789 163840 = 1234567890.
Proof. vm_compute. repeat split; reflexivity. Qed.
