(* Correspondence for C45: a case is a pool (in iteration order) + previous accounts + built-in
   templates run through the real generateBlock / VerifyBlock; [bgc_check] instantiates the abstract
   state update of Model/BlockGen.v with the account machine the engine's transactions exercise
   (send with balance check, contract calls that only bump the nonce) and compares the block
   contents (transaction tokens in order) and the verification class. *)
From ZC Require Import Base.Corr Model.BlockGen.
Open Scope Z_scope.

(* accounts: client -> (nonce, balance); absent = no state node *)
Definition bgc_state : Type := list (Z * (Z * Z)).

Fixpoint bgc_get (c : Z) (st : bgc_state) : option (Z * Z) :=
  match st with
  | [] => None
  | (k, v) :: r => if Z.eqb k c then Some v else bgc_get c r
  end.

Fixpoint bgc_put (c : Z) (v : Z * Z) (st : bgc_state) : bgc_state :=
  match st with
  | [] => [(c, v)]
  | (k, w) :: r => if Z.eqb k c then (k, v) :: r else (k, w) :: bgc_put c v r
  end.

(* kinds: 0 send; 1 contract call ok; 2 contract call failing (chargeable, still included);
   3 contract call of an unknown function (chargeable); 5 built-in template.
   With fees enabled the sender also pays bt_fee to the miner contract's wallet (token 998). *)
Definition bgc_minersc : Z := 998.

Definition bgc_credit (c amt : Z) (st : bgc_state) : bgc_state :=
  if amt <=? 0 then st else
  let '(n, bal) := match bgc_get c st with Some x => x | None => (0, 0) end in
  bgc_put c (n, bal + amt) st.

Definition bgc_apply (fee : bool) (st : bgc_state) (t : bg_txn) : option (bgc_state * bg_out) :=
  let '(n, bal) := match bgc_get (bt_client t) st with Some x => x | None => (0, 0) end in
  let f := if fee then bt_fee t else 0 in
  if negb (bt_nonce t =? n + 1) then None else
  if bt_kind t =? 0 then
    if (bt_to t =? bt_client t) || (bal <? bt_fee t + bt_value t) || (bt_value t <=? 0) then None else
    let st1 := bgc_put (bt_client t) (n + 1, bal - bt_value t - f) st in
    Some (bgc_credit bgc_minersc f (bgc_credit (bt_to t) (bt_value t) st1), (0, 0))
  else if (bt_kind t =? 4) then None
  else if bal <? f then None
  else Some (bgc_credit bgc_minersc f (bgc_put (bt_client t) (n + 1, bal - f) st), (0, 2)).

Definition bgc_snonce (st : bgc_state) (c : Z) : option Z :=
  match bgc_get c st with Some (n, _) => Some n | None => None end.

Record bgc_case := {
  bgc_cfg : bg_cfg;
  bgc_accts : bgc_state;
  bgc_pool : list bg_txn;
  bgc_bis : list bg_txn;
  bgc_gen : option (list Z);     (* tokens of b.Txns in order; None = generateBlock returned an error *)
  bgc_ver : Z                    (* 0 = VerifyBlock ok, else failure class (meaningful when bgc_gen <> None) *)
}.

Definition bgc_run (c : bgc_case) : option (list Z) * Z :=
  match bg_generate bgc_state (bgc_apply (bc_fee (bgc_cfg c))) bgc_snonce (fun _ => 0) (fun _ => 0)
          (bgc_cfg c) (bgc_accts c) (bgc_pool c) (bgc_bis c) with
  | GenOk b =>
      (Some (map (fun p => bt_hash (fst p)) (bk_txns b)),
       match bg_verify bgc_state (bgc_apply (bc_fee (bgc_cfg c))) (fun _ => 0) (fun _ => 0) (bgc_cfg c) (bgc_accts c) b with
       | VerOk _ _ _ => 0
       | VerFail w => w
       end)
  | GenFail => (None, 0)
  | GenOutOfFuel => (None, -1)
  end.

Definition bgc_check (c : bgc_case) : bool :=
  let '(g, v) := bgc_run c in
  option_eqb (list_eqb Z.eqb) g (bgc_gen c) &&
  match g with Some _ => Z.eqb v (bgc_ver c) | None => true end.
