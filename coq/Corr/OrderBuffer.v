(* Correspondence for C46: a case is an op list run on the real orderbuffer package with
   the outputs and final buffer it produced; [ob_check] re-runs the model. *)
From ZC Require Import Base.Corr Model.OrderBuffer.
Open Scope Z_scope.

Record ob_case := { obc_max : nat; obc_ops : list ob_op; obc_outs : list ob_out; obc_final : list ob_item }.

Definition ob_out_eqb (a b : ob_out) : bool :=
  match a, b with
  | OutAdd, OutAdd => true
  | OutItem x, OutItem y => option_eqb zz_eqb x y
  | OutFuel, OutFuel => true
  | _, _ => false
  end.

Definition ob_check (c : ob_case) : bool :=
  let '(b, outs) := ob_run (ob_new (obc_max c)) (obc_ops c) in
  list_eqb ob_out_eqb outs (obc_outs c) && list_eqb zz_eqb (ob_items b) (obc_final c).
