(* C11: Staking and unstaking return exactly what was locked.
   Model: Model/StakePool.v (validateLockRequest, LockPool, StakePoolLock; UnlockPool/MintRewards,
   Empty (plain and storagesc), DeletePool, StakePoolUnlock).  Only statements. *)
From ZC Require Import Model.StakePool Proof.StakePool Proof.StakePoolLock.
Open Scope Z_scope.

(* Locking: exactly one transfer (staker -> contract, value) is queued, the staker's delegate
   pool grows by exactly value, within the stake bounds, the staker has the money, the delegate
   limit holds for new delegates, every other pool and the provider's record are untouched. *)
Theorem C11_lock_moves_exact :
  forall tx cbal sp vs sp' trs,
  sp_stake_pool_lock tx cbal sp vs = Some (sp', trs) ->
  trs = [{| tr_from := tx_client tx; tr_to := tx_to tx; tr_amount := tx_value tx |}] /\
  tx_value tx <> 0 /\ vs_min vs <= tx_value tx /\
  (exists bal, cbal = Some bal /\ tx_value tx <= bal) /\
  (exists dp', sp_find (tx_client tx) (sp_pools sp') = Some dp' /\ dp_id dp' = tx_client tx /\
     dp_bal dp' = sp_bal_of (tx_client tx) (sp_pools sp) + tx_value tx /\ dp_bal dp' <= vs_max vs /\
     dp_staked_at dp' = tx_time tx /\
     dp_reward dp' = match sp_find (tx_client tx) (sp_pools sp) with Some p => dp_reward p | None => 0 end) /\
  (forall id, id <> tx_client tx -> sp_find id (sp_pools sp') = sp_find id (sp_pools sp)) /\
  (sp_find (tx_client tx) (sp_pools sp) = None -> Z.of_nat (length (sp_pools sp)) < ss_maxdel (sp_set sp)) /\
  sp_reward sp' = sp_reward sp /\ sp_set sp' = sp_set sp /\ sp_killed sp' = sp_killed sp.
Proof. exact sp_lock_moves_exact. Qed.
Print Assumptions C11_lock_moves_exact.

(* Unlocking pays the caller exactly its pool balance (from the contract) plus its accrued
   rewards (minted; plus the provider's service charge when the caller is the delegate wallet),
   every transfer goes to the caller, the pool is removed, nothing else changes. *)
Theorem C11_unlock_pays_exact :
  forall minter ssc client offers sp sp' trs,
  sp_sorted (sp_pools sp) ->
  sp_unlock minter ssc client offers sp = Some (sp', trs) ->
  exists dp, sp_find client (sp_pools sp) = Some dp /\
    trs = sp_charge_part minter client sp ++ sp_reward_part minter client dp ++
          [{| tr_from := ssc; tr_to := client; tr_amount := dp_bal dp |}] /\
    (forall t, In t trs -> tr_to t = client) /\
    sp_find client (sp_pools sp') = None /\
    (forall id, id <> client -> sp_find id (sp_pools sp') = sp_find id (sp_pools sp)) /\
    sp_reward sp' = (if (client =? ss_wallet (sp_set sp)) && (sp_reward sp >? 0) then 0 else sp_reward sp) /\
    sp_set sp' = sp_set sp /\ sp_killed sp' = sp_killed sp /\ sp_sorted (sp_pools sp').
Proof. exact sp_unlock_pays_exact. Qed.
Print Assumptions C11_unlock_pays_exact.

(* Nobody else can unlock a pool: the pool that is paid out and removed is the caller's own
   (previous theorem); a caller without a pool gets an error. *)
Theorem C11_only_owner_unlocks :
  forall minter ssc client offers sp,
  sp_find client (sp_pools sp) = None -> sp_unlock minter ssc client offers sp = None.
Proof. exact sp_unlock_needs_own_pool. Qed.
Print Assumptions C11_only_owner_unlocks.

(* Round trip: lock by a new delegate, then unlock: the contract pays back exactly the value
   (the unlock can only be refused by the total-stake overflow test of EmitStakeEvent). *)
Theorem C11_lock_then_unlock_returns :
  forall tx cbal sp vs sp1 trs1 minter,
  sp_sorted (sp_pools sp) -> sp_find (tx_client tx) (sp_pools sp) = None ->
  tx_value tx < 2 ^ 63 -> 0 <= sp_reward sp < 2 ^ 63 ->
  sp_stake_pool_lock tx cbal sp vs = Some (sp1, trs1) ->
  exists sp2 trs2, sp_unlock_core minter (tx_to tx) (tx_client tx) None sp1 = Some (sp2, trs2) /\
    (sp_stake sp2 <> None -> sp_unlock minter (tx_to tx) (tx_client tx) None sp1 = Some (sp2, trs2)) /\
    trs2 = sp_charge_part minter (tx_client tx) sp ++
           [{| tr_from := tx_to tx; tr_to := tx_client tx; tr_amount := tx_value tx |}] /\
    (forall id, sp_find id (sp_pools sp2) = sp_find id (sp_pools sp)).
Proof. exact sp_lock_then_unlock_returns. Qed.
Print Assumptions C11_lock_then_unlock_returns.

(* A lock (first stake or re-stake of the same client) changes nobody's accrued reward ... *)
Theorem C11_lock_keeps_accrued_rewards :
  forall tx cbal sp vs sp' trs id,
  sp_stake_pool_lock tx cbal sp vs = Some (sp', trs) ->
  sp_reward_of id (sp_pools sp') = sp_reward_of id (sp_pools sp).
Proof. exact sp_lock_keeps_accrued_rewards. Qed.
Print Assumptions C11_lock_keeps_accrued_rewards.

(* ... so lock -> reward (not collected) -> lock again -> unlock pays the whole stake plus the
   reward accrued before the second lock *)
Theorem C11_relock_then_unlock_pays_reward :
  forall tx cbal sp vs sp1 trs1 minter ssc offers sp2 trs2 dp,
  sp_sorted (sp_pools sp) -> sp_find (tx_client tx) (sp_pools sp) = Some dp ->
  sp_stake_pool_lock tx cbal sp vs = Some (sp1, trs1) ->
  sp_unlock minter ssc (tx_client tx) offers sp1 = Some (sp2, trs2) ->
  trs2 = sp_charge_part minter (tx_client tx) sp1 ++ sp_reward_part minter (tx_client tx) dp ++
         [{| tr_from := ssc; tr_to := tx_client tx; tr_amount := dp_bal dp + tx_value tx |}].
Proof. exact sp_relock_then_unlock_pays_reward. Qed.
Print Assumptions C11_relock_then_unlock_pays_reward.

(* Blobber / validator pools (storagesc Empty): an unlock never leaves less stake than the offers. *)
Theorem C11_unlock_keeps_offers_covered :
  forall minter ssc client off sp sp' trs,
  Forall (fun p => 0 <= dp_bal p) (sp_pools sp) ->
  sp_unlock minter ssc client (Some off) sp = Some (sp', trs) ->
  exists s', sp_stake sp' = Some s' /\ off <= s'.
Proof. exact sp_unlock_keeps_offers_covered. Qed.
Print Assumptions C11_unlock_keeps_offers_covered.

(* Histories: for any interleaving of lock, unlock, reward and collect transactions by any
   clients (failed ones change nothing), for every client c:
     pool balance now + stake the contract returned to c = pool balance before + stake c moved in.
   Transfers carry their role (KStake / KUnstake / KMint) because in the deployed configuration
   the minter address of a contract is the contract address itself. *)
Theorem C11_history_ledger :
  forall chargef sharef minter ssc vs offers ops c sp spn log,
  sp_sorted (sp_pools sp) ->
  sp_hrun chargef sharef minter ssc vs offers sp ops = (spn, log) ->
  sp_sorted (sp_pools spn) /\
  sp_bal_of c (sp_pools spn) + sp_flow KUnstake (sp_to c) log = sp_bal_of c (sp_pools sp) + sp_flow KStake (sp_from c) log.
Proof. exact sp_history_ledger. Qed.
Print Assumptions C11_history_ledger.

(* Non-vacuity: two delegates lock, a reward is paid, the first collects and unlocks. *)
Example C11_example :
  let sp0 := {| sp_pools := []; sp_reward := 0;
                sp_set := {| ss_wallet := 9; ss_maxdel := 2; ss_minstake := 0; ss_charge := f64_of_bits 4591870180066957722 |};
                sp_killed := false |} in
  let vs := {| vs_min := 10; vs_max := 1000 |} in
  let lock c v := HLock {| tx_client := c; tx_to := 77; tx_value := v; tx_time := 5 |} (Some 5000) in
  let '(spn, log) := sp_hrun sp_chargef_go sp_sharef_go 77 77 vs None sp0
                       [lock 1 100; lock 2 300; lock 3 50; lock 1 5; HReward 1000; HCollect 2; HUnlock 1; HUnlock 4] in
  map (fun p => (dp_id p, dp_bal p, dp_reward p)) (sp_pools spn) = [(2, 300, 0)] /\ sp_reward spn = 100 /\
  log = [ (KStake, {| tr_from := 1; tr_to := 77; tr_amount := 100 |}); (KStake, {| tr_from := 2; tr_to := 77; tr_amount := 300 |});
          (KMint, {| tr_from := 77; tr_to := 2; tr_amount := 675 |});
          (KMint, {| tr_from := 77; tr_to := 1; tr_amount := 225 |}); (KUnstake, {| tr_from := 77; tr_to := 1; tr_amount := 100 |}) ].
Proof. vm_compute. repeat split; reflexivity. Qed.
