(* Lemmas about Model/Notarize.v. *)
From Coq Require Import List ZArith Bool Arith Lia.
From ZC Require Import Model.Notarize.
Import ListNotations.
Open Scope Z_scope.

Lemma nt_existsb_in x l : existsb (Nat.eqb x) l = true <-> In x l.
Proof.
  rewrite existsb_exists; split.
  - intros [y [Hy He]]. apply Nat.eqb_eq in He. subst. exact Hy.
  - intros H. exists x. split; [exact H | apply Nat.eqb_refl].
Qed.

Lemma nt_existsb_notin x l : existsb (Nat.eqb x) l = false <-> ~ In x l.
Proof.
  split.
  - intros H Hin. apply nt_existsb_in in Hin. congruence.
  - intros H. destruct (existsb (Nat.eqb x) l) eqn:E; [|reflexivity].
    apply nt_existsb_in in E. contradiction.
Qed.

Lemma nt_has_dup_nodup l : nt_has_dup l = false <-> NoDup l.
Proof.
  induction l as [|x l IH]; simpl.
  - split; [constructor | reflexivity].
  - rewrite orb_false_iff, nt_existsb_notin, IH. split.
    + intros [H1 H2]. constructor; assumption.
    + intros H. inversion H; subst. split; assumption.
Qed.

(* ---- VerifyTickets ---- *)
Lemma nt_err_sum_some c ts s :
  nt_err_sum c ts = Some s -> Forall (fun t => exists d, nt_err t = Some d) ts.
Proof.
  revert s. induction ts as [|t ts IH]; simpl; intros s H; [constructor|].
  destruct (nt_err t) as [d|] eqn:Ed; [|discriminate].
  destruct (nt_err_sum c ts) as [s'|] eqn:Es; [|discriminate].
  constructor; [exists d; exact Ed | eapply IH; reflexivity].
Qed.

Lemma nt_verify_tickets_facts c ts :
  nt_verify_tickets c ts = true ->
  ts <> [] /\ forallb (nt_member c) ts = true /\ nt_err_sum c ts = Some 0.
Proof.
  unfold nt_verify_tickets. destruct ts as [|t ts]; [discriminate|].
  intros H. apply andb_prop in H. destruct H as [Hm Hs].
  split; [discriminate|]. split; [exact Hm|].
  destruct (nt_err_sum c (t :: ts)) as [[|?|?]|]; try discriminate. reflexivity.
Qed.

(* ---- VerifyNotarization ---- *)
Lemma nt_verify_notarization_sound c ts :
  nt_by_count c = true -> nt_verify_notarization c ts = true ->
  NoDup (nt_vids ts) /\ forallb (nt_member c) ts = true /\
  (nt_thr c <= length ts)%nat /\ nt_err_sum c ts = Some 0.
Proof.
  intros Hc. unfold nt_verify_notarization. destruct ts as [|t ts]; [discriminate|].
  intros H. apply andb_prop in H. destruct H as [H Hv].
  apply andb_prop in H. destruct H as [Hd Hr].
  apply negb_true_iff, nt_has_dup_nodup in Hd.
  unfold nt_reached in Hr. rewrite Hc in Hr. apply Nat.leb_le in Hr.
  apply nt_verify_tickets_facts in Hv. destruct Hv as [_ [Hm Hs]].
  repeat split; assumption.
Qed.

Lemma nt_err_sum_zeros c ts :
  Forall (fun t => nt_err t = Some 0) ts -> nt_err_sum c ts = Some 0.
Proof.
  induction 1 as [|t ts Ht _ IH]; simpl; [reflexivity|].
  rewrite Ht, IH. simpl. rewrite Zmod_0_l. reflexivity.
Qed.

Lemma nt_err_sum_one_off c l1 t l2 d :
  0 < nt_p c ->
  Forall (fun t => nt_err t = Some 0) (l1 ++ l2) -> nt_err t = Some d -> 0 <= d < nt_p c ->
  nt_err_sum c (l1 ++ t :: l2) = Some d.
Proof.
  intros Hp Hz Ht Hd. apply Forall_app in Hz. destruct Hz as [H1 H2].
  induction l1 as [|a l1 IH]; simpl.
  - rewrite Ht, (nt_err_sum_zeros c l2 H2). rewrite Z.add_0_r, Z.mod_small by lia. reflexivity.
  - inversion H1 as [|? ? Ha H1']; subst. rewrite Ha, (IH H1'). simpl.
    rewrite Z.mod_small by lia. reflexivity.
Qed.

(* a single bad signature among otherwise valid tickets is rejected *)
Lemma nt_single_forgery_rejected c l1 t l2 :
  0 < nt_p c -> nt_canon c (l1 ++ t :: l2) ->
  Forall (fun t => nt_err t = Some 0) (l1 ++ l2) ->
  nt_verify_notarization c (l1 ++ t :: l2) = true -> nt_err t = Some 0.
Proof.
  intros Hp Hcan Hz Hacc.
  assert (Hv : nt_verify_tickets c (l1 ++ t :: l2) = true).
  { unfold nt_verify_notarization in Hacc. destruct (l1 ++ t :: l2); [discriminate|].
    apply andb_prop in Hacc. tauto. }
  apply nt_verify_tickets_facts in Hv. destruct Hv as [_ [_ Hs]].
  pose proof (nt_err_sum_some _ _ _ Hs) as Hdec. rewrite Forall_forall in Hdec.
  destruct (Hdec t) as [d Hd]; [apply in_or_app; right; left; reflexivity|].
  assert (Hr : 0 <= d < nt_p c).
  { apply (Hcan t d); [apply in_or_app; right; left; reflexivity | exact Hd]. }
  rewrite (nt_err_sum_one_off c l1 t l2 d Hp Hz Hd Hr) in Hs. congruence.
Qed.

(* ---- counting distinct valid miners ---- *)
Lemma nt_dedup_nodup l : NoDup l -> nt_dedup l = l.
Proof.
  induction 1 as [|x l Hx _ IH]; simpl; [reflexivity|].
  apply nt_existsb_notin in Hx. rewrite Hx, IH. reflexivity.
Qed.

Lemma nt_filter_all (c : nt_cfg) ts : forallb (nt_valid c) ts = true -> filter (nt_valid c) ts = ts.
Proof.
  induction ts as [|t ts IH]; simpl; [reflexivity|].
  intros H. apply andb_prop in H. destruct H as [Ht Hts]. rewrite Ht, IH by assumption. reflexivity.
Qed.

Lemma nt_valid_miners_all c ts :
  NoDup (nt_vids ts) -> forallb (nt_valid c) ts = true -> nt_valid_miners c ts = length ts.
Proof.
  intros Hn Hv. unfold nt_valid_miners. rewrite nt_filter_all by assumption.
  rewrite nt_dedup_nodup by assumption. unfold nt_vids. apply map_length.
Qed.

Lemma nt_valid_of c t : nt_member c t = true -> nt_err t = Some 0 -> nt_valid c t = true.
Proof. intros Hm He. unfold nt_valid. rewrite Hm, He. reflexivity. Qed.

(* accept, and every ticket individually valid: at least threshold distinct valid miners *)
Lemma nt_verify_notarization_counts c ts :
  nt_by_count c = true -> nt_verify_notarization c ts = true ->
  Forall (fun t => nt_err t = Some 0) ts ->
  (nt_thr c <= nt_valid_miners c ts)%nat.
Proof.
  intros Hc Hacc Hz.
  destruct (nt_verify_notarization_sound c ts Hc Hacc) as [Hn [Hm [Ht _]]].
  rewrite nt_valid_miners_all; [exact Ht | exact Hn |].
  rewrite forallb_forall in *. rewrite Forall_forall in Hz.
  intros t Hin. apply nt_valid_of; auto.
Qed.

(* completeness: enough valid tickets of distinct miners are accepted *)
Lemma nt_verify_notarization_complete c ts :
  ts <> [] -> NoDup (nt_vids ts) -> forallb (nt_valid c) ts = true ->
  (nt_thr c <= length ts)%nat -> nt_verify_notarization c ts = true.
Proof.
  intros Hne Hn Hv Ht.
  assert (Hd : nt_has_dup (nt_vids ts) = false) by (apply nt_has_dup_nodup; exact Hn).
  assert (Hr : nt_reached c ts = true).
  { unfold nt_reached. destruct (nt_by_count c); [apply Nat.leb_le; exact Ht | reflexivity]. }
  assert (Hm : forallb (nt_member c) ts = true).
  { rewrite forallb_forall in Hv. rewrite forallb_forall. intros x Hx. specialize (Hv x Hx).
    unfold nt_valid in Hv. apply andb_prop in Hv. tauto. }
  assert (Hs : nt_err_sum c ts = Some 0).
  { apply nt_err_sum_zeros. rewrite Forall_forall. rewrite forallb_forall in Hv.
    intros x Hx. specialize (Hv x Hx).
    unfold nt_valid in Hv. apply andb_prop in Hv. destruct Hv as [_ He].
    destruct (nt_err x) as [[|?|?]|]; try discriminate. reflexivity. }
  assert (Hvt : nt_verify_tickets c ts = true).
  { unfold nt_verify_tickets. destruct ts; [contradiction|]. rewrite Hm, Hs. reflexivity. }
  unfold nt_verify_notarization. destruct ts; [contradiction|].
  rewrite Hd, Hr, Hvt. reflexivity.
Qed.

Lemma nt_nodup_snoc (A : Type) (l : list A) (x : A) : NoDup l -> ~ In x l -> NoDup (l ++ [x]).
Proof.
  induction l as [|a l IH]; simpl; intros Hn Hx.
  - constructor; [intros []|constructor].
  - inversion Hn as [|? ? Ha Hl]; subst. constructor.
    + intros Hin. apply in_app_or in Hin. destruct Hin as [Hin|[Hin|[]]]; [contradiction|].
      subst. apply Hx. left. reflexivity.
    + apply IH; [exact Hl | intros Hin; apply Hx; right; exact Hin].
Qed.

(* ---- the round's ticket store ---- *)
Definition nt_store_inv (c : nt_cfg) (store : list nt_ticket) : Prop :=
  forallb (nt_valid c) store = true /\ NoDup (nt_vids store).

Lemma nt_single_verified c t :
  0 < nt_p c -> (forall d, nt_err t = Some d -> 0 <= d < nt_p c) ->
  nt_verify_tickets c [t] = true -> nt_valid c t = true.
Proof.
  intros Hp Hcan Hv. apply nt_verify_tickets_facts in Hv. destruct Hv as [_ [Hm Hs]].
  simpl in Hm. rewrite andb_true_r in Hm. simpl in Hs.
  destruct (nt_err t) as [d|] eqn:Ed; [|discriminate].
  specialize (Hcan d eq_refl). rewrite Z.add_0_r, Z.mod_small in Hs by lia.
  apply nt_valid_of; [exact Hm | congruence].
Qed.

Lemma nt_store_add_inv c store t :
  0 < nt_p c -> (forall d, nt_err t = Some d -> 0 <= d < nt_p c) ->
  nt_store_inv c store -> nt_store_inv c (nt_store_add c store t).
Proof.
  intros Hp Hcan [Hv Hn]. unfold nt_store_add.
  destruct (nt_verify_tickets c [t]) eqn:Ev; [|split; assumption].
  destruct (existsb (nt_same t) store) eqn:Ee; [split; assumption|].
  pose proof (nt_single_verified c t Hp Hcan Ev) as Hvt.
  split.
  - rewrite forallb_app, Hv. simpl. rewrite Hvt. reflexivity.
  - unfold nt_vids. rewrite map_app. simpl.
    apply nt_nodup_snoc; [exact Hn|].
    intros Hin. apply in_map_iff in Hin. destruct Hin as [u [Hu Hin]].
    assert (Hs : nt_same t u = true).
    { unfold nt_same. rewrite Hu, Nat.eqb_refl. simpl.
      rewrite forallb_forall in Hv. specialize (Hv u Hin).
      unfold nt_valid in Hv, Hvt. apply andb_prop in Hv. apply andb_prop in Hvt.
      destruct Hv as [_ Hv]. destruct Hvt as [_ Hvt].
      destruct (nt_err t) as [[|?|?]|]; try discriminate.
      destruct (nt_err u) as [[|?|?]|]; try discriminate. reflexivity. }
    assert (existsb (nt_same t) store = true) by (apply existsb_exists; exists u; tauto).
    congruence.
Qed.

(* ---- merging the round's tickets into a received block's own tickets ---- *)
Lemma nt_union_inv c rec : forall have acc,
  (forall x, In x have <-> In x (nt_vids acc)) -> NoDup (nt_vids acc) ->
  forallb (nt_valid c) acc = true -> forallb (nt_valid c) rec = true ->
  NoDup (nt_vids (nt_union have acc rec)) /\ forallb (nt_valid c) (nt_union have acc rec) = true.
Proof.
  induction rec as [|t rec IH]; simpl; intros have acc Hh Hn Ha Hr; [split; assumption|].
  apply andb_prop in Hr. destruct Hr as [Ht Hr].
  destruct (existsb (Nat.eqb (nt_vid t)) have) eqn:E.
  - apply IH; assumption.
  - apply nt_existsb_notin in E. apply IH.
    + intros x. unfold nt_vids. rewrite map_app. simpl. rewrite in_app_iff. simpl.
      specialize (Hh x). unfold nt_vids in Hh. tauto.
    + unfold nt_vids. rewrite map_app. simpl. apply nt_nodup_snoc; [exact Hn|].
      intros Hin. apply E. apply Hh. exact Hin.
    + rewrite forallb_app, Ha. simpl. rewrite Ht. reflexivity.
    + exact Hr.
Qed.

Lemma nt_merge_inv c own store :
  nt_store_inv c own -> nt_store_inv c store -> nt_store_inv c (nt_merge own store).
Proof.
  intros [Hov Hon] [Hsv Hsn]. unfold nt_merge.
  destruct own as [|o own]; [split; assumption|].
  destruct store as [|s store]; [split; assumption|].
  destruct (nt_union_inv c (s :: store) (nt_vids (o :: own)) (o :: own)) as [H1 H2];
    try assumption; [intros x; tauto|].
  split; assumption.
Qed.

(* processVerifyBlock is sound when the received block's own tickets are valid tickets of distinct
   miners (in particular when it carries none) *)
Lemma nt_process_verify_block_partial c own store :
  nt_by_count c = true -> nt_store_inv c own -> nt_store_inv c store ->
  nt_process_verify_block c own store = true ->
  (nt_thr c <= nt_valid_miners c (nt_merge own store))%nat.
Proof.
  intros Hc Ho Hs Hp. destruct (nt_merge_inv c own store Ho Hs) as [Hv Hn].
  rewrite nt_valid_miners_all by assumption.
  unfold nt_process_verify_block, nt_reached in Hp. rewrite Hc in Hp.
  apply Nat.leb_le. exact Hp.
Qed.

(* the store only ever holds valid tickets of distinct miners *)
Lemma nt_store_run_inv_from c (arrivals : list nt_ticket) : forall store,
  0 < nt_p c -> nt_canon c arrivals -> nt_store_inv c store ->
  nt_store_inv c (fold_left (nt_store_add c) arrivals store).
Proof.
  induction arrivals as [|t ts IH]; simpl; intros store Hp Hc Hi; [exact Hi|].
  apply IH; [exact Hp | |].
  - intros u d Hu Hd. apply (Hc u d); [right; exact Hu | exact Hd].
  - apply nt_store_add_inv; [exact Hp| |exact Hi].
    intros d Hd. apply (Hc t d); [left; reflexivity | exact Hd].
Qed.

Lemma nt_store_run_inv c (arrivals : list nt_ticket) :
  0 < nt_p c -> nt_canon c arrivals ->
  nt_store_inv c (fold_left (nt_store_add c) arrivals []).
Proof.
  intros Hp Hcan. apply nt_store_run_inv_from; [exact Hp | exact Hcan |].
  split; [reflexivity | constructor].
Qed.

(* ---- the full statement for processVerifyBlock and its refutation ---- *)
Definition nt_process_verify_block_sound_statement : Prop :=
  forall c own store,
    nt_by_count c = true -> nt_store_inv c store ->
    nt_process_verify_block c own store = true ->
    (nt_thr c <= nt_valid_miners c (nt_merge own store))%nat.

Definition nt_forged_cfg : nt_cfg := {| nt_n := 4; nt_by_count := true; nt_thr := 3; nt_p := 101 |}.
Definition nt_forged_own : list nt_ticket :=
  [ {| nt_vid := 100; nt_err := None |}; {| nt_vid := 101; nt_err := None |};
    {| nt_vid := 102; nt_err := None |} ].

Lemma nt_forged_accepted :
  nt_process_verify_block nt_forged_cfg nt_forged_own [] = true /\
  nt_valid_miners nt_forged_cfg (nt_merge nt_forged_own []) = 0%nat /\
  nt_verify_notarization nt_forged_cfg nt_forged_own = false.
Proof. vm_compute. repeat split; reflexivity. Qed.

(* also with a single valid ticket repeated: the block's own list is not de-duplicated *)
Lemma nt_repeated_accepted :
  let t := {| nt_vid := 0; nt_err := Some 0 |} in
  nt_process_verify_block nt_forged_cfg [t; t; t] [] = true /\
  nt_valid_miners nt_forged_cfg (nt_merge [t; t; t] []) = 1%nat.
Proof. vm_compute. split; reflexivity. Qed.

Lemma nt_process_verify_block_refuted : ~ nt_process_verify_block_sound_statement.
Proof.
  intros H. specialize (H nt_forged_cfg nt_forged_own [] eq_refl).
  assert (Hs : nt_store_inv nt_forged_cfg []) by (split; [reflexivity | constructor]).
  specialize (H Hs). destruct nt_forged_accepted as [Ha [Hz _]].
  specialize (H Ha). rewrite Hz in H. simpl in H. lia.
Qed.

(* ---- the notarization-message path: UnknownTickets de-duplicates ---- *)
Lemma nt_union_nodup rec : forall have acc,
  (forall x, In x (nt_vids acc) -> In x have) -> NoDup (nt_vids acc) ->
  NoDup (nt_vids (nt_union have acc rec)) /\
  (forall t, In t (nt_union have acc rec) -> In t acc \/ (In t rec /\ ~ In (nt_vid t) have)).
Proof.
  induction rec as [|t rec IH]; simpl; intros have acc Hsub Hn.
  - split; [exact Hn | intros u Hu; left; exact Hu].
  - destruct (existsb (Nat.eqb (nt_vid t)) have) eqn:E.
    + destruct (IH have acc Hsub Hn) as [H1 H2]. split; [exact H1|].
      intros u Hu. destruct (H2 u Hu) as [Ha|[Hr Hh]]; [left; exact Ha | right; split; [right; exact Hr | exact Hh]].
    + apply nt_existsb_notin in E.
      destruct (IH (nt_vid t :: have) (acc ++ [t])) as [H1 H2].
      * intros x Hx. unfold nt_vids in Hx. rewrite map_app in Hx. apply in_app_or in Hx.
        destruct Hx as [Hx|[Hx|[]]]; [right; apply Hsub; exact Hx | left; exact Hx].
      * unfold nt_vids. rewrite map_app. simpl. apply nt_nodup_snoc; [exact Hn|].
        intros Hin. apply E. apply Hsub. exact Hin.
      * split; [exact H1|]. intros u Hu. destruct (H2 u Hu) as [Ha|[Hr Hh]].
        -- apply in_app_or in Ha. destruct Ha as [Ha|[Ha|[]]]; [left; exact Ha|].
           subst u. right. split; [left; reflexivity | exact E].
        -- right. split; [right; exact Hr | intros Hx; apply Hh; right; exact Hx].
Qed.

(* the tickets UnknownTickets lets through: pairwise distinct verifiers, none the block has already *)
Lemma nt_unknown_nodup own incoming :
  NoDup (nt_vids (nt_unknown own incoming)) /\
  (forall t, In t (nt_unknown own incoming) -> In t incoming /\ ~ In (nt_vid t) (nt_vids own)).
Proof.
  unfold nt_unknown.
  destruct (nt_union_nodup incoming (nt_vids own) []) as [H1 H2]; [intros x []| constructor |].
  split; [exact H1|]. intros t Ht. destruct (H2 t Ht) as [[]|H]. exact H.
Qed.

Lemma nt_merge_nodup own vts :
  NoDup (nt_vids own) -> NoDup (nt_vids vts) ->
  (forall t, In t vts -> ~ In (nt_vid t) (nt_vids own)) ->
  NoDup (nt_vids (nt_merge own vts)).
Proof.
  intros Ho Hv Hd. unfold nt_merge. destruct own as [|o own]; [exact Hv|].
  destruct vts as [|v vts]; [exact Ho|].
  destruct (nt_union_nodup (v :: vts) (nt_vids (o :: own)) (o :: own)) as [H1 _];
    [intros x Hx; exact Hx | exact Ho | exact H1].
Qed.

(* the block's ticket list after a notarization message never repeats a verifier *)
Lemma nt_notarization_merged_nodup c own incoming :
  NoDup (nt_vids own) -> NoDup (nt_vids (nt_notarization_merged c own incoming)).
Proof.
  intros Ho. unfold nt_notarization_merged.
  destruct (nt_unknown_nodup own incoming) as [Hn Hd].
  destruct (nt_unknown own incoming) as [|v vts] eqn:E; [exact Ho|].
  destruct (nt_verify_tickets c (v :: vts)); [|exact Ho].
  apply nt_merge_nodup; [exact Ho | exact Hn | intros t Ht; apply (Hd t Ht)].
Qed.

Lemma nt_merge_length_members c own vts :
  forallb (nt_member c) own = true -> forallb (nt_member c) vts = true ->
  forallb (nt_member c) (nt_merge own vts) = true.
Proof.
  intros Ho Hv. unfold nt_merge. destruct own as [|o own]; [exact Hv|].
  destruct vts as [|v vts]; [exact Ho|].
  assert (G : forall rec have acc, forallb (nt_member c) acc = true -> forallb (nt_member c) rec = true ->
                forallb (nt_member c) (nt_union have acc rec) = true).
  { induction rec as [|t rec IH]; simpl; intros have acc Ha Hr; [exact Ha|].
    apply andb_prop in Hr. destruct Hr as [Ht Hr].
    destruct (existsb (Nat.eqb (nt_vid t)) have); [apply IH; assumption|].
    apply IH; [rewrite forallb_app, Ha; simpl; rewrite Ht; reflexivity | exact Hr]. }
  apply G; assumption.
Qed.

Definition nt_process_ok (c : nt_cfg) (own incoming : list nt_ticket) : Prop :=
  nt_notarization_process c own incoming = true.

(* a notarization message for a block holding no tickets (or valid tickets of distinct miners):
   treated as notarized only with at least threshold tickets of pairwise distinct miners of the
   magic block among the merged ones, the new ones verified in aggregate *)
Lemma nt_notarization_process_sound c own incoming :
  nt_by_count c = true -> nt_store_inv c own ->
  nt_process_ok c own incoming ->
  let merged := nt_notarization_merged c own incoming in
  NoDup (nt_vids merged) /\ forallb (nt_member c) merged = true /\ (nt_thr c <= length merged)%nat.
Proof.
  intros Hc [Hov Hon] Hp merged. unfold nt_process_ok in Hp.
  assert (Hom : forallb (nt_member c) own = true).
  { rewrite forallb_forall in Hov. rewrite forallb_forall. intros x Hx. specialize (Hov x Hx).
    unfold nt_valid in Hov. apply andb_prop in Hov. tauto. }
  split; [apply nt_notarization_merged_nodup; exact Hon|].
  unfold merged, nt_notarization_merged. unfold nt_notarization_process in Hp.
  destruct (nt_unknown own incoming) as [|v vts] eqn:E.
  - destruct (nt_verify_notarization_sound c own Hc Hp) as [_ [Hm [Ht _]]]. split; assumption.
  - apply andb_prop in Hp. destruct Hp as [Hv Hr]. rewrite Hv.
    pose proof (nt_verify_tickets_facts c (v :: vts) Hv) as [_ [Hm _]].
    split; [apply nt_merge_length_members; assumption|].
    unfold nt_reached in Hr. rewrite Hc in Hr. apply Nat.leb_le. exact Hr.
Qed.

Lemma nt_union_in rec : forall have acc t, In t (nt_union have acc rec) -> In t acc \/ In t rec.
Proof.
  induction rec as [|u rec IH]; simpl; intros have acc t Hin; [left; exact Hin|].
  destruct (existsb (Nat.eqb (nt_vid u)) have).
  - destruct (IH _ _ _ Hin) as [H|H]; [left; exact H | right; right; exact H].
  - destruct (IH _ _ _ Hin) as [H|H]; [|right; right; exact H].
    apply in_app_or in H. destruct H as [H|[H|[]]]; [left; exact H | right; left; exact H].
Qed.

Lemma nt_merge_in own vts t : In t (nt_merge own vts) -> In t own \/ In t vts.
Proof.
  unfold nt_merge. destruct own as [|o own]; [right; assumption|].
  destruct vts as [|v vts]; [left; assumption|]. apply nt_union_in.
Qed.

(* ... and when every incoming ticket is individually valid, with at least threshold distinct
   valid miners *)
Lemma nt_notarization_process_counts c own incoming :
  nt_by_count c = true -> nt_store_inv c own ->
  Forall (fun t => nt_err t = Some 0) incoming ->
  nt_notarization_process c own incoming = true ->
  (nt_thr c <= nt_valid_miners c (nt_notarization_merged c own incoming))%nat.
Proof.
  intros Hc Ho Hz Hp.
  destruct (nt_notarization_process_sound c own incoming Hc Ho Hp) as [Hn [Hm Ht]].
  rewrite nt_valid_miners_all; [exact Ht | exact Hn |].
  rewrite forallb_forall. intros t Hin.
  assert (Hmt : nt_member c t = true) by (rewrite forallb_forall in Hm; apply Hm; exact Hin).
  destruct Ho as [Hov _]. rewrite forallb_forall in Hov.
  unfold nt_notarization_merged in Hin.
  destruct (nt_unknown_nodup own incoming) as [_ Hd].
  destruct (nt_unknown own incoming) as [|v vts] eqn:E; [apply Hov; exact Hin|].
  destruct (nt_verify_tickets c (v :: vts)); [|apply Hov; exact Hin].
  destruct (nt_merge_in _ _ _ Hin) as [H|H]; [apply Hov; exact H|].
  apply nt_valid_of; [exact Hmt|]. rewrite Forall_forall in Hz. apply Hz. apply (Hd t H).
Qed.
