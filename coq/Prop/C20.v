(* C20: The query database records every finalized bridge and pool event.
   Only statements; each is closed by [exact] of a lemma in Proof/EventMerge.v. The merger table is
   Gen/EventMergers.v (regenerated from smartcontract/dbs/event on every run). *)
From ZC Require Import Model.EventMerge Proof.EventMerge.
Open Scope Z_scope.

(* additive tags (withEventMerge): merging the events of a block keeps the total amount *)
Theorem C20_additive_tags_preserve_sum :
  forall es, Forall em_single es -> em_all_sum (em_merge es) = em_all_sum es.
Proof. exact em_merge_sum. Qed.
Print Assumptions C20_additive_tags_preserve_sum.

(* tags without middleware keep every event *)
Theorem C20_keep_tags_keep_all : forall es, em_apply EmKeep es = es.
Proof. exact em_keep_all. Qed.
Print Assumptions C20_keep_tags_keep_all.

(* the three bridge tags (burn ticket, authorizer burn, bridge mint) are merged with withUniqueEventOverwrite *)
Theorem C20_bridge_tags_use_overwrite :
  map (em_kind_of gen_event_mergers) em_bridge_tags = [Some EmOverwrite; Some EmOverwrite; Some EmOverwrite].
Proof. exact em_bridge_tags_overwrite. Qed.
Print Assumptions C20_bridge_tags_use_overwrite.

(* Full statement: merging never drops an event of a bridge tag (append-only rows / additive totals):
   the merged event carries one item per event of the block. *)
Definition C20_no_append_only_event_dropped_full_statement : Prop :=
  forall tag events, In tag em_bridge_tags ->
    Forall (fun e => ev_type e = EtStats /\ exists i, ev_data e = [i]) events ->
    forall items, In (tag, items) (fst (em_merge_events gen_event_mergers events)) ->
    List.length items = List.length (filter (em_taken tag) events).

(* refuted (F-20a, F-20c): two burns to one Ethereum address - or by one client - in one block share the index *)
Theorem C20_no_append_only_event_dropped_refuted : ~ C20_no_append_only_event_dropped_full_statement.
Proof. exact ew_refute_no_event_dropped. Qed.
Print Assumptions C20_no_append_only_event_dropped_refuted.

(* partial: with pairwise distinct indices the overwrite middleware keeps every event *)
Theorem C20_overwrite_keeps_distinct_indices_partial :
  forall es, NoDup (map ev_index es) -> List.length (em_overwrite es) = List.length es.
Proof. exact em_overwrite_nodup_keeps_count. Qed.
Print Assumptions C20_overwrite_keeps_distinct_indices_partial.

(* Full statement for the handler: every ticket of the merged event becomes a row. *)
Definition C20_every_burn_ticket_stored_full_statement : Prop :=
  forall merged, List.length (em_burn_tickets_stored merged) = List.length merged.

(* refuted (F-20b): the handler stores element 0 only *)
Theorem C20_every_burn_ticket_stored_refuted : ~ C20_every_burn_ticket_stored_full_statement.
Proof. exact ew_refute_all_tickets_stored. Qed.
Print Assumptions C20_every_burn_ticket_stored_refuted.

Theorem C20_single_burn_ticket_stored_partial :
  forall merged, (List.length merged <= 1)%nat -> em_burn_tickets_stored merged = merged.
Proof. exact em_one_ticket_stored. Qed.
Print Assumptions C20_single_burn_ticket_stored_partial.

(* Non-vacuity: one block with three burns (two to one Ethereum address, two by one client) through the
   generated table: one ticket and one authorizer burn vanish in the merge, one more ticket in the handler *)
Example C20_example :
  fst (em_merge_events gen_event_mergers ew_block) =
    [("TagAddBurnTicket", [(102, 7); (103, 9)]); ("TagAuthorizerBurn", [(7, 7); (8, 9)])] /\
  List.length (snd (em_merge_events gen_event_mergers ew_block)) = 1%nat /\
  em_burn_tickets_stored [(102, 7); (103, 9)] = [(102, 7)].
Proof. exact ew_merge_result. Qed.

Example C20_example_additive :
  fst (em_merge_events gen_event_mergers [ew_lock 7 5; ew_lock 8 9; ew_lock 7 7]) = [("TagLockStakePool", [(7, 12); (8, 9)])].
Proof. exact ew_additive_example. Qed.
