(* Types shared by the generated settings tables (Gen/SettingsTables.v, written by
   harness/translators/settings) and the governance model Model/Settings.v (property C48). *)
From Coq Require Export List ZArith Bool String Ascii.
Export ListNotations.
Open Scope Z_scope.

(* core/config.ConfigType, plus the parse modes that exist only as code in the switch-based
   contracts (zcnsc, vestingsc) and are recognised by the translator from the calls in the case body. *)
Inductive st_ty :=
  | StInt | StInt64 | StInt32 | StDuration | StFloat | StBool | StString | StCoin | StKey | StCost | StStrings
  | StCoinU64    (* strconv.ParseUint, stored as Coin: zcnsc min_lock *)
  | StCoinCast   (* currency.Coin(strconv.ParseFloat): zcnsc max_fee *)
  | StCoinMult.  (* currency.MultFloat64(1e10, strconv.ParseFloat): vestingsc min_lock *)

Definition st_ty_eqb (a b : st_ty) : bool :=
  match a, b with
  | StInt, StInt | StInt64, StInt64 | StInt32, StInt32 | StDuration, StDuration | StFloat, StFloat
  | StBool, StBool | StString, StString | StCoin, StCoin | StKey, StKey | StCost, StCost
  | StStrings, StStrings | StCoinU64, StCoinU64 | StCoinCast, StCoinCast | StCoinMult, StCoinMult => true
  | _, _ => false
  end.

(* one row of a settings table: name, type, flag.
   flag = "Mutable" for the chain globals (core/config.GlobalSettingInfo);
   flag = "the typed setter has a case for it and set() supports its type" for minersc/storagesc;
   flag = true for the switch-based contracts (every case of the switch assigns). *)
Definition st_row : Type := (string * st_ty * bool)%type.
Definition st_row_name (r : st_row) : string := fst (fst r).
Definition st_row_ty (r : st_row) : st_ty := snd (fst r).
Definition st_row_flag (r : st_row) : bool := snd r.
