(* Types of the generated list of nondeterminism sites (Gen/NdSites.v, translator harness/translators/ndsites; property C06). *)
From Coq Require Export List String Bool.
Export ListNotations.

Inductive nd_kind := NdMapRange | NdTimeNow | NdGlobalRand | NdGoroutine | NdSelect.

Inductive nd_class :=
  | ClOrderFree     (* map range: body only deletes / writes m2[key] / accumulates integers commutatively / sets constant flags *)
  | ClCollectSort   (* map range: body only appends to slices that are sorted afterwards *)
  | ClExistsCheck   (* map range: `if cond { return consts }` - an existence test *)
  | ClOrderDep      (* map range: anything else *)
  | ClClock         (* time.Now / Since / Until *)
  | ClRand          (* package-level math/rand (global source) *)
  | ClSched.        (* go statement / select *)

Definition nd_site : Type := (string * nd_kind * nd_class)%type.

(* AlLemma: justified harmless; AlLimit: a real dependence on clock / scheduling / map order that is documented but
   not shown to diverge by the engine (not driven); AlFinding: divergence confirmed by the engine *)
Inductive nd_allow_kind := AlLemma | AlLimit | AlFinding.
(* site key, kind, justification (name of the argument, or the finding id) *)
Definition nd_allow : Type := (string * nd_allow_kind * string)%type.
