package main

import (
	"fmt"

	cstate "0chain.net/chaincore/chain/state"
	"0chain.net/smartcontract/minersc"
	"0chain.net/smartcontract/stakepool"
	"0chain.net/smartcontract/stakepool/spenum"
	"verifharness/sc"
)

func main() {
	sc.Init()
	mpt := sc.NewMPT()
	ctx := sc.NewCtx(mpt, 5, sc.Txn("aa", fmt.Sprintf("%064x", 4), minersc.ADDRESS, 20, 100))
	gn := &minersc.GlobalNode{MinStake: 10, MaxStake: 1000, MaxDelegates: 1000, Epoch: 100000, ShareRatio: 0.5, RewardRate: 1}
	_, err := ctx.InsertTrieNode(minersc.GlobalNodeKey, gn)
	fmt.Println(err)
	pid := fmt.Sprintf("%064x", 500)
	mn := minersc.NewMinerNode()
	mn.ID = pid
	mn.ProviderType = spenum.Miner
	mn.NodeType = minersc.NodeTypeMiner
	mn.Settings = stakepool.Settings{DelegateWallet: fmt.Sprintf("%064x", 50), MaxNumDelegates: 2}
	_, err = ctx.InsertTrieNode(mn.GetKey(), mn)
	fmt.Println(err)
	sc.SetBalance(ctx, fmt.Sprintf("%064x", 4), 20)
	msc := minersc.NewMinerSmartContract()
	req := (&stakepool.StakePoolRequest{ProviderType: spenum.Miner, ProviderID: pid}).Encode()
	resp, err := msc.Execute(ctx.GetTransaction(), "addToDelegatePool", req, ctx)
	fmt.Println(resp, err)
	m2 := minersc.NewMinerNode()
	m2.ID = pid
	fmt.Println(ctx.GetTrieNode(m2.GetKey(), m2), len(m2.Pools), m2.TotalStaked)
	_ = cstate.MinterMiner
}
