(* Lemmas about lock / unlock of Model/StakePool.v (C11). *)
From ZC Require Import Model.StakePool Proof.StakePool.
Open Scope Z_scope.

(* ---------- association-list facts ---------- *)

Lemma sp_find_some_id : forall ps id p, sp_find id ps = Some p -> dp_id p = id /\ In p ps.
Proof.
  induction ps as [|q tl IH]; simpl; intros id p H; [discriminate|].
  destruct (Z.eqb_spec (dp_id q) id).
  - inversion H; subst. auto.
  - apply IH in H. intuition.
Qed.

Lemma sp_find_insert_same : forall ps x, sp_find (dp_id x) (sp_insert x ps) = Some x.
Proof.
  induction ps as [|p tl IH]; intros x; simpl.
  - rewrite Z.eqb_refl. reflexivity.
  - destruct (Z.ltb_spec (dp_id x) (dp_id p)); simpl.
    + rewrite Z.eqb_refl. reflexivity.
    + destruct (Z.eqb_spec (dp_id x) (dp_id p)); simpl.
      * rewrite Z.eqb_refl. reflexivity.
      * destruct (Z.eqb_spec (dp_id p) (dp_id x)); [lia|]. apply IH.
Qed.

Lemma sp_find_insert_other : forall ps x id, id <> dp_id x -> sp_find id (sp_insert x ps) = sp_find id ps.
Proof.
  induction ps as [|p tl IH]; intros x id Hne; simpl.
  - destruct (Z.eqb_spec (dp_id x) id); [lia|reflexivity].
  - destruct (Z.ltb_spec (dp_id x) (dp_id p)); simpl.
    + destruct (Z.eqb_spec (dp_id x) id); [lia|reflexivity].
    + destruct (Z.eqb_spec (dp_id x) (dp_id p)); simpl.
      * destruct (Z.eqb_spec (dp_id x) id); [lia|].
        destruct (Z.eqb_spec (dp_id p) id); [lia|reflexivity].
      * destruct (Z.eqb_spec (dp_id p) id); [reflexivity|]. apply IH. assumption.
Qed.

Lemma sp_find_remove_other : forall ps id id', id' <> id -> sp_find id' (sp_remove id ps) = sp_find id' ps.
Proof.
  induction ps as [|p tl IH]; intros id id' Hne; simpl; [reflexivity|].
  destruct (Z.eqb_spec (dp_id p) id); simpl.
  - destruct (Z.eqb_spec (dp_id p) id'); [lia|reflexivity].
  - destruct (Z.eqb_spec (dp_id p) id'); [reflexivity|]. apply IH. assumption.
Qed.

(* ids strictly increasing: what the sorted iteration over the Go map yields *)
Fixpoint sp_sorted (ps : list sp_dpool) : Prop :=
  match ps with
  | [] => True
  | p :: tl => (forall q, In q tl -> dp_id p < dp_id q) /\ sp_sorted tl
  end.

Lemma sp_find_none_notin : forall ps id, (forall q, In q ps -> dp_id q <> id) -> sp_find id ps = None.
Proof.
  induction ps as [|p tl IH]; intros id H; simpl; [reflexivity|].
  destruct (Z.eqb_spec (dp_id p) id) as [E|NE]; [exfalso; apply (H p); [left; reflexivity|exact E]|].
  apply IH. intros q Hq. apply H. right. exact Hq.
Qed.

Lemma sp_find_remove_same : forall ps id, sp_sorted ps -> sp_find id (sp_remove id ps) = None.
Proof.
  induction ps as [|p tl IH]; intros id Hs0; simpl; [reflexivity|]. destruct Hs0 as [Hlt Hs].
  destruct (Z.eqb_spec (dp_id p) id).
  - apply sp_find_none_notin. intros q Hq. specialize (Hlt q Hq). lia.
  - simpl. destruct (Z.eqb_spec (dp_id p) id); [contradiction|]. apply IH. assumption.
Qed.

Lemma sp_insert_in : forall ps x q, In q (sp_insert x ps) -> q = x \/ In q ps.
Proof.
  induction ps as [|p tl IH]; intros x q H; simpl in H.
  - destruct H as [<-|[]]. left; reflexivity.
  - destruct (dp_id x <? dp_id p).
    + destruct H as [<-|H]; [left; reflexivity|right; exact H].
    + destruct (dp_id x =? dp_id p).
      * destruct H as [<-|H]; [left; reflexivity|right; right; exact H].
      * destruct H as [<-|H]; [right; left; reflexivity|]. apply IH in H. destruct H; [left|right; right]; assumption.
Qed.

Lemma sp_insert_sorted : forall ps x, sp_sorted ps -> sp_sorted (sp_insert x ps).
Proof.
  induction ps as [|p tl IH]; intros x Hs; simpl.
  - split; [intros q []|exact I].
  - destruct Hs as [Hlt Hs].
    destruct (Z.ltb_spec (dp_id x) (dp_id p)).
    + split; [|split; assumption]. intros q [<-|Hq]; [assumption|]. specialize (Hlt q Hq). lia.
    + destruct (Z.eqb_spec (dp_id x) (dp_id p)).
      * split; [|assumption]. intros q Hq. specialize (Hlt q Hq). lia.
      * split; [|apply IH; assumption]. intros q Hq. apply sp_insert_in in Hq.
        destruct Hq as [->|Hq]; [lia|apply Hlt; assumption].
Qed.

Lemma sp_remove_in : forall ps id q, In q (sp_remove id ps) -> In q ps.
Proof.
  induction ps as [|p tl IH]; intros id q H; simpl in *; [contradiction|].
  destruct (dp_id p =? id); [right; exact H|]. destruct H as [<-|H]; [left; reflexivity|right; eapply IH; exact H].
Qed.

Lemma sp_remove_sorted : forall ps id, sp_sorted ps -> sp_sorted (sp_remove id ps).
Proof.
  induction ps as [|p tl IH]; intros id Hs; simpl; [exact I|].
  destruct Hs as [Hlt Hs]. destruct (dp_id p =? id); [assumption|].
  split; [|apply IH; assumption]. intros q Hq. apply Hlt. eapply sp_remove_in. exact Hq.
Qed.

Definition sp_bal_of (id : Z) (ps : list sp_dpool) : Z :=
  match sp_find id ps with Some p => dp_bal p | None => 0 end.

(* ---------- lock ---------- *)

Lemma sp_lock_moves_exact_core : forall tx cbal sp vs sp' trs,
  sp_stake_pool_lock_core tx cbal sp vs = Some (sp', trs) ->
  trs = [{| tr_from := tx_client tx; tr_to := tx_to tx; tr_amount := tx_value tx |}] /\
  tx_value tx <> 0 /\ vs_min vs <= tx_value tx /\
  (exists bal, cbal = Some bal /\ tx_value tx <= bal) /\
  (exists dp', sp_find (tx_client tx) (sp_pools sp') = Some dp' /\ dp_id dp' = tx_client tx /\
     dp_bal dp' = sp_bal_of (tx_client tx) (sp_pools sp) + tx_value tx /\ dp_bal dp' <= vs_max vs /\
     dp_staked_at dp' = tx_time tx /\
     dp_reward dp' = match sp_find (tx_client tx) (sp_pools sp) with Some p => dp_reward p | None => 0 end) /\
  (forall id, id <> tx_client tx -> sp_find id (sp_pools sp') = sp_find id (sp_pools sp)) /\
  (sp_find (tx_client tx) (sp_pools sp) = None -> Z.of_nat (length (sp_pools sp)) < ss_maxdel (sp_set sp)) /\
  sp_reward sp' = sp_reward sp /\ sp_set sp' = sp_set sp /\ sp_killed sp' = sp_killed sp.
Proof.
  unfold sp_stake_pool_lock_core, sp_validate_lock, sp_lock_pool, sp_bal_of.
  intros tx cbal sp vs sp' trs H.
  destruct (Z.eqb_spec (tx_value tx) 0) as [|Hv0]; [discriminate|].
  destruct (Z.ltb_spec (tx_value tx) (vs_min vs)) as [|Hmin]; [discriminate|].
  destruct (sp_find (tx_client tx) (sp_pools sp)) as [dp|] eqn:Hf.
  - pose proof (sp_find_some_id _ _ _ Hf) as [Hid _].
    destruct (sp_add_coin (dp_bal dp) (tx_value tx)) as [after|] eqn:Ha; [|discriminate].
    apply sp_add_coin_some in Ha. destruct Ha as [-> _].
    destruct (Z.gtb_spec (dp_bal dp + tx_value tx) (vs_max vs)) as [|Hmax]; [discriminate|].
    rewrite andb_false_r in H.
    destruct cbal as [bal|]; [|discriminate].
    destruct (Z.gtb_spec (tx_value tx) bal) as [|Hb]; [discriminate|].
    destruct (negb _); [discriminate|].
    inversion H; subst; clear H. simpl.
    split; [reflexivity|]. split; [assumption|]. split; [assumption|].
    split; [exists bal; split; [reflexivity|lia]|].
    split.
    + eexists. rewrite <- Hid at 1.
      split; [apply (sp_find_insert_same (sp_pools sp) {| dp_id := dp_id dp; dp_bal := dp_bal dp + tx_value tx;
                 dp_reward := dp_reward dp; dp_status := dp_status dp; dp_staked_at := tx_time tx |})|].
      simpl. repeat split; try assumption; lia.
    + split; [intros id Hne; apply sp_find_insert_other; simpl; lia|].
      split; [discriminate|]. repeat split.
  - destruct (sp_add_coin 0 (tx_value tx)) as [after|] eqn:Ha; [|discriminate].
    apply sp_add_coin_some in Ha. destruct Ha as [-> _].
    destruct (Z.gtb_spec (0 + tx_value tx) (vs_max vs)) as [|Hmax]; [discriminate|].
    rewrite andb_true_r in H.
    destruct (Z.geb_spec (Z.of_nat (length (sp_pools sp))) (ss_maxdel (sp_set sp))) as [|Hdel]; [discriminate|].
    destruct cbal as [bal|]; [|discriminate].
    destruct (Z.gtb_spec (tx_value tx) bal) as [|Hb]; [discriminate|].
    inversion H; subst; clear H. simpl.
    split; [reflexivity|]. split; [assumption|]. split; [assumption|].
    split; [exists bal; split; [reflexivity|lia]|].
    split.
    + eexists.
      split; [apply (sp_find_insert_same (sp_pools sp) {| dp_id := tx_client tx; dp_bal := tx_value tx;
                 dp_reward := 0; dp_status := sp_active; dp_staked_at := tx_time tx |})|].
      simpl. repeat split; lia.
    + split; [intros id Hne; apply sp_find_insert_other; simpl; lia|].
      split; [intros _; assumption|]. repeat split.
Qed.

(* ---------- unlock ---------- *)

Definition sp_charge_part (minter client : Z) (sp : sp_pool) : list sp_transfer :=
  if (client =? ss_wallet (sp_set sp)) && (sp_reward sp >? 0)
  then [{| tr_from := minter; tr_to := ss_wallet (sp_set sp); tr_amount := sp_reward sp |}] else [].
Definition sp_reward_part (minter client : Z) (dp : sp_dpool) : list sp_transfer :=
  if dp_reward dp >? 0 then [{| tr_from := minter; tr_to := client; tr_amount := dp_reward dp |}] else [].

Lemma sp_unlock_core_pays_exact : forall minter ssc client offers sp sp' trs,
  sp_sorted (sp_pools sp) ->
  sp_unlock_core minter ssc client offers sp = Some (sp', trs) ->
  exists dp, sp_find client (sp_pools sp) = Some dp /\
    trs = sp_charge_part minter client sp ++ sp_reward_part minter client dp ++
          [{| tr_from := ssc; tr_to := client; tr_amount := dp_bal dp |}] /\
    (forall t, In t trs -> tr_to t = client) /\
    sp_find client (sp_pools sp') = None /\
    (forall id, id <> client -> sp_find id (sp_pools sp') = sp_find id (sp_pools sp)) /\
    sp_reward sp' = (if (client =? ss_wallet (sp_set sp)) && (sp_reward sp >? 0) then 0 else sp_reward sp) /\
    sp_set sp' = sp_set sp /\ sp_killed sp' = sp_killed sp /\ sp_sorted (sp_pools sp').
Proof.
  unfold sp_unlock_core, sp_mint_rewards, sp_charge_part, sp_reward_part.
  intros minter ssc client offers sp sp' trs Hsorted H.
  destruct (sp_find client (sp_pools sp)) as [dp|] eqn:Hf; [|discriminate].
  exists dp. split; [reflexivity|].
  pose proof (sp_find_some_id _ _ _ Hf) as [Hid _].
  set (pay := (client =? ss_wallet (sp_set sp)) && (sp_reward sp >? 0)) in *.
  assert (Hto : forall t, In t (if pay then [{| tr_from := minter; tr_to := ss_wallet (sp_set sp); tr_amount := sp_reward sp |}] else []) -> tr_to t = client).
  { intros t Ht. destruct pay eqn:Hp; [|contradiction]. destruct Ht as [<-|[]]. simpl.
    unfold pay in Hp. apply andb_true_iff in Hp. destruct Hp as [Hp _]. apply Z.eqb_eq in Hp. lia. }
  destruct (Z.gtb_spec (dp_reward dp) 0) as [Hr|Hr].
  - destruct (sp_int64 (dp_bal dp)); [|discriminate].
    destruct (sp_int64 (sp_wrap (dp_reward dp + (if pay then sp_reward sp else 0)))); [|discriminate].
    match type of H with (if ?g then _ else _) = _ => destruct g; [|discriminate] end.
    inversion H; subst; clear H. simpl.
    split; [rewrite <- app_assoc; reflexivity|].
    split.
    { intros t Ht. apply in_app_or in Ht. destruct Ht as [Ht|[<-|[]]]; [|reflexivity].
      apply in_app_or in Ht. destruct Ht as [Ht|[<-|[]]]; [apply Hto; exact Ht|reflexivity]. }
    split; [apply sp_find_remove_same; apply sp_insert_sorted; assumption|].
    split; [intros id Hne; rewrite sp_find_remove_other by assumption; apply sp_find_insert_other; simpl; lia|].
    repeat split. apply sp_remove_sorted. apply sp_insert_sorted. assumption.
  - destruct (sp_int64 (dp_bal dp)); [|discriminate].
    destruct (sp_int64 (if pay then sp_reward sp else 0)); [|discriminate].
    match type of H with (if ?g then _ else _) = _ => destruct g; [|discriminate] end.
    inversion H; subst; clear H. simpl.
    split; [reflexivity|].
    split.
    { intros t Ht. apply in_app_or in Ht. destruct Ht as [Ht|[<-|[]]]; [apply Hto; exact Ht|reflexivity]. }
    split; [apply sp_find_remove_same; assumption|].
    split; [intros id Hne; apply sp_find_remove_other; assumption|].
    repeat split. apply sp_remove_sorted. assumption.
Qed.

(* nobody else can unlock: without an own pool the call fails; with one, only that pool is
   touched and every transfer goes to the caller (previous lemma) *)
Lemma sp_unlock_core_needs_own_pool : forall minter ssc client offers sp,
  sp_find client (sp_pools sp) = None -> sp_unlock_core minter ssc client offers sp = None.
Proof. intros. unfold sp_unlock_core. rewrite H. reflexivity. Qed.

Lemma sp_stake_sum_shift : forall ps a s, sp_stake_sum ps a = Some s -> 0 <= a ->
  Forall (fun p => 0 <= dp_bal p) ps -> forall b, 0 <= b <= a -> sp_stake_sum ps b = Some (s - (a - b)).
Proof.
  induction ps as [|p tl IH]; simpl; intros a s H Ha HF b Hb.
  - inversion H; subst. f_equal. lia.
  - inversion HF; subst.
    destruct (sp_add_coin a (dp_bal p)) as [x|] eqn:E; [|discriminate].
    apply sp_add_coin_some in E. destruct E as [-> Hlt].
    unfold sp_add_coin. destruct (Z.ltb_spec (b + dp_bal p) sp_max); [|lia].
    rewrite (IH _ _ H ltac:(lia) H3 (b + dp_bal p) ltac:(lia)). f_equal. lia.
Qed.

Lemma sp_stake_sum_remove : forall ps id dp a s, sp_find id ps = Some dp ->
  Forall (fun p => 0 <= dp_bal p) ps -> 0 <= a ->
  sp_stake_sum ps a = Some s -> sp_stake_sum (sp_remove id ps) a = Some (s - dp_bal dp).
Proof.
  induction ps as [|p tl IH]; simpl; intros id dp a s Hf HF Ha H; [discriminate|].
  inversion HF; subst.
  destruct (sp_add_coin a (dp_bal p)) as [x|] eqn:E; [|discriminate].
  apply sp_add_coin_some in E. destruct E as [-> Hlt].
  destruct (Z.eqb_spec (dp_id p) id).
  - inversion Hf; subst. rewrite (sp_stake_sum_shift _ _ _ H ltac:(lia) H3 a ltac:(lia)). f_equal. lia.
  - simpl. unfold sp_add_coin. destruct (Z.ltb_spec (a + dp_bal p) sp_max); [|lia].
    apply IH; try assumption. lia.
Qed.

(* storagesc Empty: after a successful unlock the remaining stake still covers the offers *)
Lemma sp_unlock_core_keeps_offers_covered : forall minter ssc client off sp sp' trs,
  Forall (fun p => 0 <= dp_bal p) (sp_pools sp) ->
  sp_unlock_core minter ssc client (Some off) sp = Some (sp', trs) ->
  exists s', sp_stake sp' = Some s' /\ off <= s'.
Proof.
  unfold sp_unlock_core. intros minter ssc client off sp sp' trs HF H.
  destruct (sp_find client (sp_pools sp)) as [dp|] eqn:Hf; [|discriminate].
  destruct (sp_mint_rewards minter client sp) as [[[sp1 t1] amount]|] eqn:Hm; [|discriminate].
  destruct (sp_int64 (dp_bal dp)); [|discriminate]. destruct (sp_int64 amount); [|discriminate].
  destruct (sp_add_coin off (dp_bal dp)) as [req|] eqn:Hreq; [|discriminate].
  destruct (sp_stake sp1) as [staked|] eqn:Hst; [|discriminate].
  destruct (Z.ltb_spec staked req) as [|Hge]; [discriminate|]. simpl in H. inversion H; subst; clear H.
  apply sp_add_coin_some in Hreq. destruct Hreq as [-> _].
  (* the pools of sp1 are those of sp up to the reward of the caller's pool *)
  assert (Hf1 : exists dp1, sp_find client (sp_pools sp1) = Some dp1 /\ dp_bal dp1 = dp_bal dp).
  { unfold sp_mint_rewards in Hm. rewrite Hf in Hm. destruct (dp_reward dp >? 0); inversion Hm; subst; simpl.
    - pose proof (sp_find_some_id _ _ _ Hf) as [Hid _].
      exists (sp_with_reward dp 0). split; [|reflexivity].
      rewrite <- Hid. apply (sp_find_insert_same (sp_pools sp) (sp_with_reward dp 0)).
    - exists dp. split; [assumption|reflexivity]. }
  assert (HF1 : Forall (fun p => 0 <= dp_bal p) (sp_pools sp1)).
  { unfold sp_mint_rewards in Hm. rewrite Hf in Hm. destruct (dp_reward dp >? 0); inversion Hm; subst; simpl; [|assumption].
    apply Forall_forall. intros q Hq. apply sp_insert_in in Hq. rewrite Forall_forall in HF.
    destruct Hq as [->|Hq]; [|apply HF; assumption]. simpl.
    apply HF. apply (sp_find_some_id _ _ _ Hf). }
  destruct Hf1 as (dp1 & Hf1 & Hb1).
  unfold sp_stake in *. simpl.
  rewrite (sp_stake_sum_remove _ _ _ _ _ Hf1 HF1 (Z.le_refl 0) Hst).
  eexists. split; [reflexivity|]. lia.
Qed.

Lemma sp_mint_rewards_no_reward : forall minter client sp dp,
  sp_find client (sp_pools sp) = Some dp -> dp_reward dp = 0 ->
  sp_mint_rewards minter client sp =
  Some (sp_upd sp (sp_pools sp) (if (client =? ss_wallet (sp_set sp)) && (sp_reward sp >? 0) then 0 else sp_reward sp),
        sp_charge_part minter client sp,
        if (client =? ss_wallet (sp_set sp)) && (sp_reward sp >? 0) then sp_reward sp else 0).
Proof.
  intros minter client sp dp Hf Hr. unfold sp_mint_rewards, sp_charge_part. rewrite Hf, Hr. reflexivity.
Qed.

(* round trip: a fresh lock followed by an unlock returns exactly the locked value *)
Lemma sp_lock_then_unlock_core_returns : forall tx cbal sp vs sp1 trs1 minter,
  sp_sorted (sp_pools sp) -> sp_find (tx_client tx) (sp_pools sp) = None ->
  tx_value tx < 2 ^ 63 -> 0 <= sp_reward sp < 2 ^ 63 ->
  sp_stake_pool_lock_core tx cbal sp vs = Some (sp1, trs1) ->
  exists sp2 trs2, sp_unlock_core minter (tx_to tx) (tx_client tx) None sp1 = Some (sp2, trs2) /\
    trs2 = sp_charge_part minter (tx_client tx) sp ++
           [{| tr_from := tx_to tx; tr_to := tx_client tx; tr_amount := tx_value tx |}] /\
    (forall id, sp_find id (sp_pools sp2) = sp_find id (sp_pools sp)).
Proof.
  intros tx cbal sp vs sp1 trs1 minter Hsorted Hfresh Hv63 Hr63 Hl.
  pose proof (sp_lock_moves_exact_core _ _ _ _ _ _ Hl) as (_ & Hv0 & _ & _ & (dp' & Hf' & Hid' & Hb' & _ & _ & Hrw') & Hoth & _ & Hrew & Hset & _).
  unfold sp_bal_of in Hb'. rewrite Hfresh in Hb', Hrw'. simpl in Hb'.
  assert (Hs1 : sp_sorted (sp_pools sp1)).
  { unfold sp_stake_pool_lock_core, sp_lock_pool in Hl. destruct (sp_validate_lock tx sp vs); [|discriminate].
    destruct cbal; [|discriminate]. destruct (tx_value tx >? z); [discriminate|]. rewrite Hfresh in Hl.
    inversion Hl; subst. simpl. apply sp_insert_sorted. assumption. }
  unfold sp_unlock_core. rewrite Hf'. rewrite (sp_mint_rewards_no_reward _ _ _ _ Hf' Hrw').
  unfold sp_charge_part. rewrite !Hset, !Hrew.
  set (pay := (tx_client tx =? ss_wallet (sp_set sp)) && (sp_reward sp >? 0)).
  assert (Hi1 : sp_int64 (dp_bal dp') = Some (dp_bal dp')) by (unfold sp_int64; destruct (Z.ltb_spec (dp_bal dp') (2 ^ 63)); [reflexivity|lia]).
  assert (Hi2 : sp_int64 (if pay then sp_reward sp else 0) = Some (if pay then sp_reward sp else 0)).
  { unfold sp_int64. destruct pay; [destruct (Z.ltb_spec (sp_reward sp) (2 ^ 63)); [reflexivity|lia]|reflexivity]. }
  rewrite Hi1, Hi2. eexists. eexists. split; [reflexivity|].
  split.
  - unfold sp_charge_part. fold pay. rewrite Hb'. simpl. replace (0 + tx_value tx) with (tx_value tx) by lia. reflexivity.
  - intros id. simpl. destruct (Z.eq_dec id (tx_client tx)) as [->|Hne].
    + rewrite Hfresh. apply sp_find_remove_same. assumption.
    + rewrite sp_find_remove_other by assumption. apply Hoth. assumption.
Qed.

(* ---------- histories of lock / unlock / reward / collect: per-client ledger ---------- *)

Definition sp_same_shape (ps ps' : list sp_dpool) : Prop :=
  map dp_id ps' = map dp_id ps /\ map dp_bal ps' = map dp_bal ps.

Lemma sp_same_shape_refl : forall ps, sp_same_shape ps ps.
Proof. split; reflexivity. Qed.

Lemma sp_same_shape_trans : forall a b c, sp_same_shape a b -> sp_same_shape b c -> sp_same_shape a c.
Proof. unfold sp_same_shape. intros a b c [H1 H2] [H3 H4]. split; congruence. Qed.

Lemma sp_shape_bal_of : forall ps ps' c, sp_same_shape ps ps' -> sp_bal_of c ps' = sp_bal_of c ps.
Proof.
  unfold sp_same_shape, sp_bal_of.
  induction ps as [|p tl IH]; intros [|p' tl'] c [Hi Hb]; simpl in *; try discriminate; [reflexivity|].
  inversion Hi as [[Hi1 Hi2]]. inversion Hb as [[Hb1 Hb2]]. rewrite Hi1.
  destruct (dp_id p =? c); [assumption|]. apply IH. split; assumption.
Qed.

Lemma sp_shape_sorted : forall ps ps', sp_same_shape ps ps' -> sp_sorted ps -> sp_sorted ps'.
Proof.
  unfold sp_same_shape.
  induction ps as [|p tl IH]; intros [|p' tl'] [Hi Hb] Hs; simpl in *; try discriminate; [exact I|].
  inversion Hi as [[Hi1 Hi2]]. inversion Hb as [[Hb1 Hb2]]. destruct Hs as [Hlt Hs].
  split; [|apply (IH tl'); [split; assumption|assumption]].
  intros q Hq. rewrite Hi1.
  assert (In (dp_id q) (map dp_id tl)) by (rewrite <- Hi2; apply in_map; exact Hq).
  apply in_map_iff in H. destruct H as (q0 & Hq0 & Hin). rewrite <- Hq0. apply Hlt. exact Hin.
Qed.

Lemma sp_share_loop_shape : forall sharef ps vl stake vb ps' incs vbf,
  sp_share_loop sharef vl stake vb ps = Some (ps', incs, vbf) -> sp_same_shape ps ps'.
Proof.
  induction ps as [|p tl IH]; intros vl stake vb ps' incs vbf H; simpl in H.
  - inversion H; subst. apply sp_same_shape_refl.
  - destruct (vb =? 0); [inversion H; subst; apply sp_same_shape_refl|].
    destruct (sharef vl (dp_bal p) stake) as [r|]; [|discriminate].
    destruct (r >? vb).
    + destruct (sp_add_coin (dp_reward p) vb); [|discriminate].
      destruct (sp_share_loop sharef vl stake 0 tl) as [[[tl' il] v]|] eqn:E; [|discriminate].
      inversion H; subst. apply IH in E. destruct E as [E1 E2]. split; simpl; congruence.
    + destruct (sp_add_coin (dp_reward p) r); [|discriminate].
      destruct (sp_share_loop sharef vl stake (vb - r) tl) as [[[tl' il] v]|] eqn:E; [|discriminate].
      inversion H; subst. apply IH in E. destruct E as [E1 E2]. split; simpl; congruence.
Qed.

Lemma sp_bump_first_shape : forall k ps incs, sp_same_shape ps (fst (sp_bump_first k ps incs)).
Proof.
  induction k as [|k IH]; intros ps incs.
  - destruct ps; apply sp_same_shape_refl.
  - destruct ps as [|p tl]; [apply sp_same_shape_refl|]. destruct incs as [|i il]; [apply sp_same_shape_refl|].
    simpl. specialize (IH tl il). destruct (sp_bump_first k tl il) as [a b]. simpl in *.
    destruct IH as [E1 E2]. split; simpl; congruence.
Qed.

Lemma sp_add_all_shape : forall share ps incs ps' incs',
  sp_add_all share ps incs = Some (ps', incs') -> sp_same_shape ps ps'.
Proof.
  induction ps as [|p tl IH]; intros incs ps' incs' H; simpl in H.
  - inversion H; subst. apply sp_same_shape_refl.
  - destruct incs as [|i il]; [inversion H; subst; apply sp_same_shape_refl|].
    destruct (sp_add_coin (dp_reward p) share); [|discriminate].
    destruct (sp_add_coin i share); [|discriminate].
    destruct (sp_add_all share tl il) as [[a b]|] eqn:E; [|discriminate].
    inversion H; subst. apply IH in E. destruct E as [E1 E2]. split; simpl; congruence.
Qed.

Lemma sp_equal_shape : forall coins ps incs ps' incs',
  sp_equal coins ps incs = SpOk (ps', incs') -> sp_same_shape ps ps'.
Proof.
  unfold sp_equal. intros coins ps incs ps' incs' H.
  destruct (Z.of_nat (length ps) =? 0); [discriminate|].
  destruct (sp_int64 coins); [|discriminate].
  destruct (coins / Z.of_nat (length ps) =? 0).
  - inversion H as [E]. pose proof (sp_bump_first_shape (Z.to_nat z) ps incs) as S. rewrite E in S. exact S.
  - destruct (sp_add_all _ ps incs) as [[a b]|] eqn:E; [|discriminate].
    inversion H as [E2]. apply sp_add_all_shape in E.
    pose proof (sp_bump_first_shape (Z.to_nat (coins mod Z.of_nat (length ps))) a b) as S. rewrite E2 in S.
    eapply sp_same_shape_trans; eassumption.
Qed.

Lemma sp_distribute_shape : forall chargef sharef sp value sp',
  sp_distribute chargef sharef sp value = SpOk sp' -> sp_same_shape (sp_pools sp) (sp_pools sp').
Proof.
  unfold sp_distribute, sp_distribute_body. intros chargef sharef sp value sp' H.
  destruct (sp_stake sp) as [total|]; [|discriminate].
  destruct ((value =? 0) || sp_killed sp || (total <? ss_minstake (sp_set sp))).
  { inversion H; subst. apply sp_same_shape_refl. }
  destruct (sp_pools sp) as [|p0 tl0] eqn:Hps.
  - destruct (sp_add_coin (sp_reward sp) value); [|discriminate].
    destruct (sp_deferred_ok value [] value); inversion H; subst. simpl. apply sp_same_shape_refl.
  - rewrite <- Hps in *.
    destruct (sp_take_charge chargef sp value) as [[[sr c] vl]|]; [|discriminate].
    destruct (vl =? 0).
    { destruct (sp_deferred_ok c [] value); inversion H; subst. simpl. apply sp_same_shape_refl. }
    cbv beta iota in H.
    destruct (total =? 0); [discriminate|].
    destruct (sp_share_loop sharef vl total vl (sp_pools sp)) as [[[ps1 incs1] vb]|] eqn:E; [|discriminate].
    apply sp_share_loop_shape in E.
    destruct (vb >? 0).
    + destruct (sp_equal vb ps1 incs1) as [[ps2 incs2]| |] eqn:E2; try discriminate.
      apply sp_equal_shape in E2.
      destruct (sp_deferred_ok c incs2 value); inversion H; subst. simpl.
      eapply sp_same_shape_trans; eassumption.
    + destruct (sp_deferred_ok c incs1 value); inversion H; subst. simpl. exact E.
Qed.


(* ---------- the full entry points (with the EmitStakeEvent overflow test) ---------- *)

Lemma sp_stake_pool_lock_is_core : forall tx cbal sp vs r,
  sp_stake_pool_lock tx cbal sp vs = Some r -> sp_stake_pool_lock_core tx cbal sp vs = Some r.
Proof.
  unfold sp_stake_pool_lock. intros tx cbal sp vs r H.
  destruct (sp_stake_pool_lock_core tx cbal sp vs) as [[a b]|]; [|discriminate].
  destruct (sp_stake a); inversion H; reflexivity.
Qed.

Lemma sp_unlock_is_core : forall minter ssc client offers sp r,
  sp_unlock minter ssc client offers sp = Some r -> sp_unlock_core minter ssc client offers sp = Some r.
Proof.
  unfold sp_unlock. intros minter ssc client offers sp r H.
  destruct (sp_unlock_core minter ssc client offers sp) as [[a b]|]; [|discriminate].
  destruct (sp_stake a); inversion H; reflexivity.
Qed.

Lemma sp_lock_moves_exact : forall tx cbal sp vs sp' trs,
  sp_stake_pool_lock tx cbal sp vs = Some (sp', trs) ->
  trs = [{| tr_from := tx_client tx; tr_to := tx_to tx; tr_amount := tx_value tx |}] /\
  tx_value tx <> 0 /\ vs_min vs <= tx_value tx /\
  (exists bal, cbal = Some bal /\ tx_value tx <= bal) /\
  (exists dp', sp_find (tx_client tx) (sp_pools sp') = Some dp' /\ dp_id dp' = tx_client tx /\
     dp_bal dp' = sp_bal_of (tx_client tx) (sp_pools sp) + tx_value tx /\ dp_bal dp' <= vs_max vs /\
     dp_staked_at dp' = tx_time tx /\
     dp_reward dp' = match sp_find (tx_client tx) (sp_pools sp) with Some p => dp_reward p | None => 0 end) /\
  (forall id, id <> tx_client tx -> sp_find id (sp_pools sp') = sp_find id (sp_pools sp)) /\
  (sp_find (tx_client tx) (sp_pools sp) = None -> Z.of_nat (length (sp_pools sp)) < ss_maxdel (sp_set sp)) /\
  sp_reward sp' = sp_reward sp /\ sp_set sp' = sp_set sp /\ sp_killed sp' = sp_killed sp.
Proof. intros. apply sp_lock_moves_exact_core. apply sp_stake_pool_lock_is_core. assumption. Qed.

Lemma sp_unlock_pays_exact : forall minter ssc client offers sp sp' trs,
  sp_sorted (sp_pools sp) ->
  sp_unlock minter ssc client offers sp = Some (sp', trs) ->
  exists dp, sp_find client (sp_pools sp) = Some dp /\
    trs = sp_charge_part minter client sp ++ sp_reward_part minter client dp ++
          [{| tr_from := ssc; tr_to := client; tr_amount := dp_bal dp |}] /\
    (forall t, In t trs -> tr_to t = client) /\
    sp_find client (sp_pools sp') = None /\
    (forall id, id <> client -> sp_find id (sp_pools sp') = sp_find id (sp_pools sp)) /\
    sp_reward sp' = (if (client =? ss_wallet (sp_set sp)) && (sp_reward sp >? 0) then 0 else sp_reward sp) /\
    sp_set sp' = sp_set sp /\ sp_killed sp' = sp_killed sp /\ sp_sorted (sp_pools sp').
Proof. intros. eapply sp_unlock_core_pays_exact; [assumption|]. apply sp_unlock_is_core. eassumption. Qed.

Lemma sp_unlock_needs_own_pool : forall minter ssc client offers sp,
  sp_find client (sp_pools sp) = None -> sp_unlock minter ssc client offers sp = None.
Proof. intros. unfold sp_unlock. rewrite sp_unlock_core_needs_own_pool by assumption. reflexivity. Qed.

Lemma sp_unlock_keeps_offers_covered : forall minter ssc client off sp sp' trs,
  Forall (fun p => 0 <= dp_bal p) (sp_pools sp) ->
  sp_unlock minter ssc client (Some off) sp = Some (sp', trs) ->
  exists s', sp_stake sp' = Some s' /\ off <= s'.
Proof. intros. eapply sp_unlock_core_keeps_offers_covered; [eassumption|]. apply sp_unlock_is_core. eassumption. Qed.

(* round trip; the unlock can only be refused by the overflow test of EmitStakeEvent *)
Lemma sp_lock_then_unlock_returns : forall tx cbal sp vs sp1 trs1 minter,
  sp_sorted (sp_pools sp) -> sp_find (tx_client tx) (sp_pools sp) = None ->
  tx_value tx < 2 ^ 63 -> 0 <= sp_reward sp < 2 ^ 63 ->
  sp_stake_pool_lock tx cbal sp vs = Some (sp1, trs1) ->
  exists sp2 trs2, sp_unlock_core minter (tx_to tx) (tx_client tx) None sp1 = Some (sp2, trs2) /\
    (sp_stake sp2 <> None -> sp_unlock minter (tx_to tx) (tx_client tx) None sp1 = Some (sp2, trs2)) /\
    trs2 = sp_charge_part minter (tx_client tx) sp ++
           [{| tr_from := tx_to tx; tr_to := tx_client tx; tr_amount := tx_value tx |}] /\
    (forall id, sp_find id (sp_pools sp2) = sp_find id (sp_pools sp)).
Proof.
  intros tx cbal sp vs sp1 trs1 minter Hs Hf Hv Hr Hl. apply sp_stake_pool_lock_is_core in Hl.
  destruct (sp_lock_then_unlock_core_returns _ _ _ _ _ _ minter Hs Hf Hv Hr Hl) as (sp2 & trs2 & Hu & Ht & Hfind).
  exists sp2, trs2. split; [exact Hu|]. split; [|split; assumption].
  intros Hne. unfold sp_unlock. rewrite Hu. destruct (sp_stake sp2); [reflexivity|contradiction].
Qed.

Inductive sp_hop := HLock (tx : sp_txn) (cbal : option Z) | HUnlock (client : Z) | HReward (value : Z) | HCollect (client : Z).

(* role of a queued transfer; the minter address of a contract equals the contract address in
   the deployed configuration, so the role cannot be read off the addresses *)
Inductive sp_kind := KStake | KUnstake | KMint.

Definition sp_kind_eqb (a b : sp_kind) : bool :=
  match a, b with KStake, KStake | KUnstake, KUnstake | KMint, KMint => true | _, _ => false end.

(* sum of the amounts of the transfers of kind [k] selected by [sel] *)
Definition sp_flow (k : sp_kind) (sel : sp_transfer -> bool) (log : list (sp_kind * sp_transfer)) : Z :=
  fold_right (fun e a => (if sp_kind_eqb (fst e) k && sel (snd e) then tr_amount (snd e) else 0) + a) 0 log.

Lemma sp_flow_app : forall k sel a b, sp_flow k sel (a ++ b) = sp_flow k sel a + sp_flow k sel b.
Proof. induction a; intros b; simpl; [reflexivity|]. rewrite IHa. lia. Qed.

Definition sp_tag (k : sp_kind) (l : list sp_transfer) : list (sp_kind * sp_transfer) := map (fun t => (k, t)) l.

Lemma sp_flow_tag_other : forall k k' sel l, sp_kind_eqb k' k = false -> sp_flow k sel (sp_tag k' l) = 0.
Proof. induction l; intros H; simpl; [reflexivity|]. rewrite H. simpl. rewrite IHl by assumption. reflexivity. Qed.

Definition sp_dflt_tr : sp_transfer := {| tr_from := 0; tr_to := 0; tr_amount := 0 |}.

Section History.
  Variable chargef : f64 -> Z -> option Z.
  Variable sharef : Z -> Z -> Z -> option Z.
  Variables minter ssc : Z.
  Variable vs : sp_vs.
  Variable offers : option Z.

  (* one transaction; a failed transaction leaves the state unchanged and queues nothing.
     The last transfer of an unlock is the stake going back, everything before it is minted. *)
  Definition sp_hstep (sp : sp_pool) (op : sp_hop) : sp_pool * list (sp_kind * sp_transfer) :=
    match op with
    | HLock tx cbal => match sp_stake_pool_lock tx cbal sp vs with Some (sp', trs) => (sp', sp_tag KStake trs) | None => (sp, []) end
    | HUnlock c => match sp_unlock minter ssc c offers sp with
                   | Some (sp', trs) => (sp', sp_tag KMint (removelast trs) ++ [(KUnstake, last trs sp_dflt_tr)])
                   | None => (sp, []) end
    | HReward v => match sp_distribute chargef sharef sp v with SpOk sp' => (sp', []) | _ => (sp, []) end
    | HCollect c => match sp_mint_rewards minter c sp with Some (sp', trs, _) => (sp', sp_tag KMint trs) | None => (sp, []) end
    end.

  Fixpoint sp_hrun (sp : sp_pool) (ops : list sp_hop) : sp_pool * list (sp_kind * sp_transfer) :=
    match ops with
    | [] => (sp, [])
    | op :: tl => let '(sp1, t1) := sp_hstep sp op in
                  let '(sp2, t2) := sp_hrun sp1 tl in (sp2, t1 ++ t2)
    end.

  Definition sp_from (c : Z) (t : sp_transfer) : bool := tr_from t =? c.
  Definition sp_to (c : Z) (t : sp_transfer) : bool := tr_to t =? c.

  Lemma sp_mint_shape : forall client sp sp' trs a,
    sp_mint_rewards minter client sp = Some (sp', trs, a) ->
    (forall c, sp_bal_of c (sp_pools sp') = sp_bal_of c (sp_pools sp)) /\ (sp_sorted (sp_pools sp) -> sp_sorted (sp_pools sp')).
  Proof.
    unfold sp_mint_rewards. intros client sp sp' trs a H.
    destruct (sp_find client (sp_pools sp)) as [dp|] eqn:Hf.
    - destruct (dp_reward dp >? 0); inversion H; subst; clear H; simpl; [|split; auto].
      pose proof (sp_find_some_id _ _ _ Hf) as [Hid _].
      split; [|intros; apply sp_insert_sorted; assumption].
      intros c. unfold sp_bal_of. destruct (Z.eq_dec c client) as [->|Hne].
      + assert (E : sp_find client (sp_insert (sp_with_reward dp 0) (sp_pools sp)) = Some (sp_with_reward dp 0)).
        { rewrite <- Hid. apply (sp_find_insert_same (sp_pools sp) (sp_with_reward dp 0)). }
        rewrite E, Hf. reflexivity.
      + rewrite sp_find_insert_other by (simpl; lia). reflexivity.
    - destruct (_ =? 0); [discriminate|]. inversion H; subst; clear H; simpl. split; auto.
  Qed.

  Lemma sp_hstep_ledger : forall c sp op sp' log,
    sp_sorted (sp_pools sp) -> sp_hstep sp op = (sp', log) ->
    sp_sorted (sp_pools sp') /\
    sp_bal_of c (sp_pools sp') + sp_flow KUnstake (sp_to c) log = sp_bal_of c (sp_pools sp) + sp_flow KStake (sp_from c) log.
  Proof.
    intros c sp op sp' log Hs H. destruct op as [tx cbal|client|v|client]; simpl in *.
    - destruct (sp_stake_pool_lock tx cbal sp vs) as [[a b]|] eqn:E; injection H as <- <-; [|split; [assumption|simpl; lia]].
      pose proof (sp_lock_moves_exact _ _ _ _ _ _ E) as (-> & _ & _ & _ & (dp' & Hf' & _ & Hb' & _) & Hoth & _).
      split.
      { apply sp_stake_pool_lock_is_core in E.
        unfold sp_stake_pool_lock_core, sp_lock_pool in E. destruct (sp_validate_lock tx sp vs); [|discriminate].
        destruct cbal; [|discriminate]. destruct (tx_value tx >? z); [discriminate|].
        destruct (sp_find (tx_client tx) (sp_pools sp)) as [dp|].
        - destruct (negb _); [discriminate|]. destruct (sp_add_coin _ _); [|discriminate].
          inversion E; subst. simpl. apply sp_insert_sorted. assumption.
        - inversion E; subst. simpl. apply sp_insert_sorted. assumption. }
      simpl. unfold sp_from. simpl.
      destruct (Z.eqb_spec (tx_client tx) c) as [Ec|Nc]; simpl.
      + unfold sp_bal_of at 1. rewrite <- Ec, Hf', Hb'. lia.
      + unfold sp_bal_of. rewrite Hoth by lia. lia.
    - destruct (sp_unlock minter ssc client offers sp) as [[a b]|] eqn:E; injection H as <- <-; [|split; [assumption|simpl; lia]].
      pose proof (sp_unlock_pays_exact _ _ _ _ _ _ _ Hs E) as (dp & Hf & -> & _ & Hnone & Hoth & _ & _ & _ & Hs').
      split; [assumption|].
      rewrite app_assoc, removelast_last, last_last.
      rewrite !sp_flow_app, !sp_flow_tag_other by reflexivity. simpl. unfold sp_to. simpl.
      destruct (Z.eqb_spec client c) as [->|Nc]; simpl.
      + unfold sp_bal_of. rewrite Hnone, Hf. lia.
      + unfold sp_bal_of. rewrite Hoth by lia. lia.
    - destruct (sp_distribute chargef sharef sp v) as [a| |] eqn:E; injection H as <- <-;
        try (split; [assumption|simpl; lia]).
      apply sp_distribute_shape in E.
      split; [eapply sp_shape_sorted; eassumption|]. rewrite (sp_shape_bal_of _ _ c E). simpl. lia.
    - destruct (sp_mint_rewards minter client sp) as [[[a b] x]|] eqn:E; injection H as <- <-; [|split; [assumption|simpl; lia]].
      destruct (sp_mint_shape _ _ _ _ _ E) as [Hb Hso]. split; [apply Hso; assumption|].
      rewrite Hb, !sp_flow_tag_other by reflexivity. lia.
  Qed.

  (* per-client ledger over any history: what a client's pool holds + the stake the contract
     returned to it = what its pool held before + what it staked *)
  Lemma sp_history_ledger : forall ops c sp spn log,
    sp_sorted (sp_pools sp) -> sp_hrun sp ops = (spn, log) ->
    sp_sorted (sp_pools spn) /\
    sp_bal_of c (sp_pools spn) + sp_flow KUnstake (sp_to c) log = sp_bal_of c (sp_pools sp) + sp_flow KStake (sp_from c) log.
  Proof.
    induction ops as [|op tl IH]; intros c sp spn log Hs H; simpl in H.
    - inversion H; subst. split; [assumption|simpl; lia].
    - destruct (sp_hstep sp op) as [sp1 t1] eqn:E1. destruct (sp_hrun sp1 tl) as [sp2 t2] eqn:E2.
      injection H as <- <-.
      destruct (sp_hstep_ledger c _ _ _ _ Hs E1) as [Hs1 L1].
      destruct (IH c _ _ _ Hs1 E2) as [Hs2 L2].
      split; [assumption|]. rewrite !sp_flow_app. lia.
  Qed.

  (* minted transfers never carry stake: every KMint transfer of a history goes to the client
     that issued the collect / unlock *)
End History.

(* ---------- accrued rewards survive a re-stake ---------- *)

Definition sp_reward_of (id : Z) (ps : list sp_dpool) : Z :=
  match sp_find id ps with Some p => dp_reward p | None => 0 end.

(* a lock (first stake or re-stake) changes nobody's accrued reward, the locker's included *)
Lemma sp_lock_keeps_accrued_rewards : forall tx cbal sp vs sp' trs id,
  sp_stake_pool_lock tx cbal sp vs = Some (sp', trs) ->
  sp_reward_of id (sp_pools sp') = sp_reward_of id (sp_pools sp).
Proof.
  intros tx cbal sp vs sp' trs id H.
  pose proof (sp_lock_moves_exact _ _ _ _ _ _ H) as (_ & _ & _ & _ & (dp' & Hf' & _ & _ & _ & _ & Hr') & Hoth & _).
  unfold sp_reward_of. destruct (Z.eq_dec id (tx_client tx)) as [->|Hne].
  - rewrite Hf', Hr'. reflexivity.
  - rewrite Hoth by assumption. reflexivity.
Qed.

(* lock -> (reward, not collected) -> lock again -> unlock: the unlock pays the whole stake and
   the reward that had accrued before the second lock *)
Lemma sp_relock_then_unlock_pays_reward : forall tx cbal sp vs sp1 trs1 minter ssc offers sp2 trs2 dp,
  sp_sorted (sp_pools sp) -> sp_find (tx_client tx) (sp_pools sp) = Some dp ->
  sp_stake_pool_lock tx cbal sp vs = Some (sp1, trs1) ->
  sp_unlock minter ssc (tx_client tx) offers sp1 = Some (sp2, trs2) ->
  trs2 = sp_charge_part minter (tx_client tx) sp1 ++ sp_reward_part minter (tx_client tx) dp ++
         [{| tr_from := ssc; tr_to := tx_client tx; tr_amount := dp_bal dp + tx_value tx |}].
Proof.
  intros tx cbal sp vs sp1 trs1 minter ssc offers sp2 trs2 dp Hs Hf Hl Hu.
  pose proof (sp_lock_moves_exact _ _ _ _ _ _ Hl) as (_ & _ & _ & _ & (dp' & Hf' & _ & Hb' & _ & _ & Hr') & _).
  assert (Hs1 : sp_sorted (sp_pools sp1)).
  { apply sp_stake_pool_lock_is_core in Hl.
    unfold sp_stake_pool_lock_core, sp_lock_pool in Hl. destruct (sp_validate_lock tx sp vs); [|discriminate].
    destruct cbal; [|discriminate]. destruct (tx_value tx >? z); [discriminate|]. rewrite Hf in Hl.
    destruct (negb _); [discriminate|]. destruct (sp_add_coin _ _); [|discriminate].
    inversion Hl; subst. simpl. apply sp_insert_sorted. assumption. }
  pose proof (sp_unlock_pays_exact _ _ _ _ _ _ _ Hs1 Hu) as (dp1 & Hf1 & -> & _).
  rewrite Hf' in Hf1. inversion Hf1; subst dp1.
  unfold sp_bal_of in Hb'. rewrite Hf in Hb', Hr'. unfold sp_reward_part. rewrite Hr', Hb'. reflexivity.
Qed.
