(* Lemmas about Model/MinerFees.v (C22). *)
From ZC Require Import Model.StakePool Model.MinerFees Proof.StakePool.
Open Scope Z_scope.

(* ---------- splitByShareRatio ---------- *)

Lemma mf_split_exact : forall splitf ratio x m s,
  (forall r y c, splitf r y = Some c -> 0 <= c) ->
  mf_split splitf ratio x = Some (m, s) -> m + s = x /\ 0 <= m <= x /\ 0 <= s.
Proof.
  unfold mf_split. intros splitf ratio x m s Hn H.
  destruct (splitf ratio x) as [c|] eqn:E; [|discriminate].
  apply Hn in E. destruct (Z.gtb_spec c x); [discriminate|]. inversion H; subst. lia.
Qed.

Lemma mf_splitf_go_nonneg : forall r y c, mf_splitf_go r y = Some c -> 0 <= c.
Proof.
  unfold mf_splitf_go, f64_float_to_coin. intros r y c H.
  destruct (f64_ltb _ _); inversion H. apply f64_to_u64_range.
Qed.

(* ---------- the sharder shares ---------- *)

Lemma mf_shares_from_spec : forall k q r i, 0 <= i -> 0 <= r -> 0 <= q ->
  sp_sum (mf_shares_from q r i k) = q * Z.of_nat k + Z.max 0 (Z.min r (i + Z.of_nat k) - i) /\
  length (mf_shares_from q r i k) = k /\
  Forall (fun x => x = q \/ (x = q + 1 /\ 0 < r)) (mf_shares_from q r i k).
Proof.
  induction k as [|k IH]; intros q r i Hi Hr Hq.
  - simpl. repeat split; [lia|constructor].
  - cbn [mf_shares_from]. destruct (IH q r (i + 1) ltac:(lia) Hr Hq) as (Hs & Hl & Hf).
    split; [|split; [simpl; rewrite Hl; reflexivity|constructor; [destruct (Z.ltb_spec i r); lia|exact Hf]]].
    change (sp_sum ((q + (if i <? r then 1 else 0)) :: mf_shares_from q r (i + 1) k))
      with ((q + (if i <? r then 1 else 0)) + sp_sum (mf_shares_from q r (i + 1) k)).
    rewrite Hs. rewrite Nat2Z.inj_succ. destruct (Z.ltb_spec i r); lia.
Qed.

(* the per sharder amounts add up to the reward exactly, each is reward/n or reward/n + 1 *)
Lemma mf_shares_exact : forall reward k, 0 <= reward -> (0 < k)%nat ->
  sp_sum (mf_shares reward k) = reward /\ length (mf_shares reward k) = k /\
  Forall (fun x => x = reward / Z.of_nat k \/ x = reward / Z.of_nat k + 1) (mf_shares reward k) /\
  Forall (fun x => 0 <= x <= reward) (mf_shares reward k).
Proof.
  intros reward k Hr Hk. unfold mf_shares. set (n := Z.of_nat k).
  assert (Hn : 0 < n) by (unfold n; lia).
  pose proof (Z.div_mod reward n ltac:(lia)) as Hdm. pose proof (Z.mod_pos_bound reward n Hn) as Hm.
  assert (Hq : 0 <= reward / n) by (apply Z.div_pos; lia).
  destruct (mf_shares_from_spec k (reward / n) (reward mod n) 0 ltac:(lia) ltac:(lia) Hq) as (Hs & Hl & Hf).
  fold n in Hs. split; [rewrite Hs; nia|]. split; [exact Hl|].
  split; [eapply Forall_impl; [|exact Hf]; intros a [->|[-> _]]; auto|].
  eapply Forall_impl; [|exact Hf]. intros a [->|[-> Hpos]]; nia.
Qed.

(* ---------- one DistributeRewardsRandN call: never more than the value is credited ---------- *)

Definition mf_draws_ok (n : Z) (d : list nat) (len : nat) : Prop :=
  NoDup (sp_selection n d len) /\ Forall (fun i => (i < len)%nat) (sp_selection n d len).

Lemma sp_cred_wf : forall ps e ps', sp_cred ps e ps' -> Forall sp_dp_wf ps -> sp_sum_rewards ps' < sp_max ->
  Forall sp_dp_wf ps'.
Proof.
  induction 1 as [|p i ps il ps' Hi Hc IH]; intros HF Hs; [constructor|].
  inversion HF as [|? ? [Hb Hr] HFt]; subst. simpl in Hs.
  assert (Hnn : Forall (fun q => 0 <= dp_reward q) ps').
  { eapply sp_cred_keeps_nonneg; [exact Hc|]. eapply Forall_impl; [|exact HFt]. intros a [_ [Ha _]]. exact Ha. }
  pose proof (sp_sum_rewards_nonneg _ Hnn). unfold sp_coin in *.
  constructor; [split; simpl; unfold sp_coin; lia|]. apply IH; [assumption|lia].
Qed.

Section Calls.
  Variable chargef : f64 -> Z -> option Z.
  Variable sharef : Z -> Z -> Z -> option Z.
  Hypothesis sharef_nonneg : forall a b c r, sharef a b c = Some r -> 0 <= r.
  Hypothesis chargef_le : forall r x c, chargef r x = Some c -> 0 <= c.

  Lemma sp_randn_bounds : forall sp v n d,
    sp_wf sp -> 0 <= v -> sp_total_rewards sp + v < sp_max -> mf_draws_ok n d (length (sp_pools sp)) ->
    sp_distribute_randn chargef sharef sp v n d <> SpPanic /\
    forall sp', sp_distribute_randn chargef sharef sp v n d = SpOk sp' ->
      sp_wf sp' /\ sp_total_rewards sp <= sp_total_rewards sp' <= sp_total_rewards sp + v /\
      length (sp_pools sp') = length (sp_pools sp).
  Proof.
    intros sp v n d Hwf Hv Hs [Hnd Hin].
    destruct (sp_distribute_randn_spec chargef sharef sharef_nonneg sp v n d Hwf Hv Hs
                (fun c H => chargef_le _ _ _ H) Hnd Hin) as [Hnp Hok].
    split; [exact Hnp|]. intros sp' H. destruct (Hok sp' H) as (total & _ & Hcase).
    destruct ((v =? 0) || sp_killed sp || (total <? ss_minstake (sp_set sp))).
    - subst. split; [assumption|]. split; [lia|reflexivity].
    - destruct Hcase as (Hr & _ & _ & (e & Hc & _) & Hex).
      pose proof (sp_cred_len _ _ _ Hc) as [_ Hl].
      assert (Hb : sp_total_rewards sp <= sp_total_rewards sp' <= sp_total_rewards sp + v).
      { lia. }
      split; [|split; assumption].
      pose proof (sp_wf_rewards_nonneg _ Hwf) as Hnn. destruct Hwf as [Hp Hrw]. unfold sp_coin in Hrw.
      assert (Hnn' : Forall (fun q => 0 <= dp_reward q) (sp_pools sp')) by (eapply sp_cred_keeps_nonneg; eassumption).
      pose proof (sp_sum_rewards_nonneg _ Hnn'). unfold sp_total_rewards in *.
      split; [apply (sp_cred_wf _ _ _ Hc Hp); lia|unfold sp_coin; lia].
  Qed.

  Definition mf_total (nodes : list mf_node) : Z := fold_right (fun nd a => sp_total_rewards (nd_sp nd) + a) 0 nodes.

  Definition mf_node_ok (cap n : Z) (nd : mf_node) (d : list nat) : Prop :=
    sp_wf (nd_sp nd) /\ sp_total_rewards (nd_sp nd) + cap < sp_max /\ mf_draws_ok n d (length (sp_pools (nd_sp nd))).

  (* paying a list of nodes: no panic; the sum of all outstanding rewards grows by at most the
     sum of the values; every node keeps room for cap - vmax more *)
  Lemma mf_pay_nodes_bounds : forall nodes vals draws n cap vmax,
    length vals = length nodes -> length draws = length nodes ->
    Forall2 (mf_node_ok cap n) nodes draws -> Forall (fun v => 0 <= v <= vmax) vals -> vmax <= cap ->
    mf_pay_nodes chargef sharef nodes vals n draws <> SpPanic /\
    forall nodes', mf_pay_nodes chargef sharef nodes vals n draws = SpOk nodes' ->
      Forall2 (mf_node_ok (cap - vmax) n) nodes' draws /\
      mf_total nodes <= mf_total nodes' <= mf_total nodes + sp_sum vals /\
      map nd_id nodes' = map nd_id nodes.
  Proof.
    induction nodes as [|nd tl IH]; intros vals draws n cap vmax Hlv Hld HF HV Hcap.
    - destruct vals; [|discriminate]. destruct draws; [|discriminate]. simpl.
      split; [discriminate|]. intros nodes' H; inversion H; subst. repeat split; [constructor|simpl; lia|simpl; lia].
    - destruct vals as [|v vtl]; [discriminate|]. destruct draws as [|d dtl]; [discriminate|].
      inversion HF as [|? ? ? ? (Hwf & Hroom & Hdr) HFt]; subst. inversion HV as [|? ? Hv HVt]; subst.
      cbn [mf_pay_nodes].
      destruct (sp_randn_bounds (nd_sp nd) v n d Hwf ltac:(lia) ltac:(lia) Hdr) as [Hnp Hok].
      destruct (sp_distribute_randn chargef sharef (nd_sp nd) v n d) as [sp'| |] eqn:E;
        [|split; [discriminate|intros; discriminate]|contradiction].
      destruct (Hok sp' eq_refl) as (Hwf' & Hb & Hl).
      destruct (IH vtl dtl n cap vmax ltac:(simpl in *; lia) ltac:(simpl in *; lia) HFt HVt Hcap) as [Hnp2 Hok2].
      destruct (mf_pay_nodes chargef sharef tl vtl n dtl) as [tl'| |] eqn:E2;
        [|split; [discriminate|intros; discriminate]|contradiction].
      split; [discriminate|]. intros nodes' H; inversion H; subst; clear H.
      destruct (Hok2 tl' eq_refl) as (HF2 & Hb2 & Hid2).
      split; [constructor; [|exact HF2]|].
      + unfold mf_node_ok. simpl. split; [assumption|]. split; [lia|]. rewrite Hl. exact Hdr.
      + split; [|simpl; rewrite Hid2; reflexivity]. simpl.
        change (sp_sum (v :: vtl)) with (v + sp_sum vtl). lia.
  Qed.
End Calls.

Lemma mf_sum_fees_nonneg : forall l acc s, Forall (fun f => 0 <= f) l -> 0 <= acc -> mf_sum_fees l acc = Some s -> 0 <= s.
Proof.
  induction l as [|f tl IH]; simpl; intros acc s HF Ha H.
  - unfold sp_int64 in H. destruct (acc <? 2 ^ 63); inversion H; subst; assumption.
  - inversion HF; subst. destruct (sp_add_coin acc f) as [a|] eqn:E; [|discriminate].
    apply sp_add_coin_some in E. destruct E as [-> _]. eapply IH; [eassumption| |eassumption]. lia.
Qed.

Lemma f64_mult_coin_nonneg : forall c a r, f64_mult_coin c a = Some r -> 0 <= r.
Proof.
  unfold f64_mult_coin, f64_float_to_coin. intros c a r H.
  repeat (destruct (f64_ltb _ _); [discriminate|]). cbv zeta in H.
  repeat (destruct (f64_ltb _ _); [discriminate|]). inversion H. apply f64_to_u64_range.
Qed.

Definition mf_opt_total (m : option mf_node) : Z := match m with Some nd => sp_total_rewards (nd_sp nd) | None => 0 end.

Section PayFees.
  Variable chargef : f64 -> Z -> option Z.
  Variable sharef : Z -> Z -> Z -> option Z.
  Variable splitf : f64 -> Z -> option Z.
  Hypothesis sharef_nonneg : forall a b c r, sharef a b c = Some r -> 0 <= r.
  Hypothesis chargef_le : forall r x c, chargef r x = Some c -> 0 <= c.
  Hypothesis splitf_nonneg : forall r y c, splitf r y = Some c -> 0 <= c.

  (* only the block's generator, only for the block's round *)
  Lemma mf_pay_fees_guards : forall gn bk client in_round miner live sharders md sd r,
    mf_pay_fees chargef sharef splitf gn bk client in_round miner live sharders md sd = SpOk r ->
    client = bk_miner bk /\ in_round = bk_round bk.
  Proof.
    unfold mf_pay_fees. intros gn bk client in_round miner live sharders md sd r H.
    destruct (Z.eqb_spec client (bk_miner bk)); [|discriminate].
    destruct (Z.eqb_spec in_round (bk_round bk)); [|discriminate]. split; assumption.
  Qed.

  (* what is handed to the miner side and to the sharder side adds up to fees + block reward;
     what ends up credited never exceeds it; payFees does not panic when a sharder is rewarded *)
  Lemma mf_pay_fees_bounds : forall gn bk client in_round miner live sharders md sd fees br,
    Forall (fun f => 0 <= f) (bk_fees bk) ->
    mf_sum_fees (bk_fees bk) 0 = Some fees ->
    f64_mult_coin (gn_block_reward gn) (gn_reward_rate gn) = Some br ->
    (forall m, miner = Some m -> mf_node_ok (2 * (fees + br)) (gn_nmd gn) m md) ->
    length sd = length sharders ->
    Forall2 (mf_node_ok (2 * (fees + br)) (gn_nsd gn)) sharders sd ->
    mf_pay_fees chargef sharef splitf gn bk client in_round miner live sharders md sd <> SpPanic /\
    forall miner' sharders',
      mf_pay_fees chargef sharef splitf gn bk client in_round miner live sharders md sd = SpOk (miner', sharders') ->
      exists mr sr mfe sfe,
        mf_split splitf (gn_share_ratio gn) br = Some (mr, sr) /\ mf_split splitf (gn_share_ratio gn) fees = Some (mfe, sfe) /\
        mr + sr + mfe + sfe = fees + br /\
        (sharders <> [] -> sp_sum (mf_shares sfe (length sharders)) = sfe /\ sp_sum (mf_shares sr (length sharders)) = sr) /\
        mf_opt_total miner + mf_total sharders <= mf_opt_total miner' + mf_total sharders'
          <= mf_opt_total miner + mf_total sharders + fees + br /\
        map nd_id sharders' = map nd_id sharders.
  Proof.
    intros gn bk client in_round miner live sharders md sd fees br HF Hfees Hbr Hm Hlsd Hsh.
    pose proof (mf_sum_fees_nonneg _ _ _ HF (Z.le_refl 0) Hfees) as Hf0.
    pose proof (f64_mult_coin_nonneg _ _ _ Hbr) as Hb0.
    unfold mf_pay_fees. rewrite Hfees, Hbr.
    destruct (negb (client =? bk_miner bk)); [split; [discriminate|intros; discriminate]|].
    destruct (negb (in_round =? bk_round bk)); [split; [discriminate|intros; discriminate]|].
    destruct (mf_split splitf (gn_share_ratio gn) br) as [[mr sr]|] eqn:S1; [|split; [discriminate|intros; discriminate]].
    destruct (mf_split splitf (gn_share_ratio gn) fees) as [[mfe sfe]|] eqn:S2; [|split; [discriminate|intros; discriminate]].
    destruct (mf_split_exact _ _ _ _ _ splitf_nonneg S1) as (E1 & R1 & R1').
    destruct (mf_split_exact _ _ _ _ _ splitf_nonneg S2) as (E2 & R2 & R2').
    assert (Hshares : sharders <> [] -> sp_sum (mf_shares sfe (length sharders)) = sfe /\ sp_sum (mf_shares sr (length sharders)) = sr).
    { intros Hne. split; (apply mf_shares_exact; [lia|destruct sharders; [contradiction|simpl; lia]]). }
    (* the generator's (or substitute) miner node: two calls on the same node *)
    assert (HM : forall m, miner = Some m ->
              sp_distribute_randn chargef sharef (nd_sp m) mr (gn_nmd gn) md <> SpPanic /\
              forall sp1, sp_distribute_randn chargef sharef (nd_sp m) mr (gn_nmd gn) md = SpOk sp1 ->
                sp_distribute_randn chargef sharef sp1 mfe (gn_nmd gn) md <> SpPanic /\
                forall sp2, sp_distribute_randn chargef sharef sp1 mfe (gn_nmd gn) md = SpOk sp2 ->
                  sp_total_rewards (nd_sp m) <= sp_total_rewards sp2 <= sp_total_rewards (nd_sp m) + mr + mfe).
    { intros m Em. destruct (Hm m Em) as (Hwf & Hroom & Hdr).
      destruct (sp_randn_bounds chargef sharef sharef_nonneg chargef_le (nd_sp m) mr (gn_nmd gn) md Hwf ltac:(lia) ltac:(lia) Hdr) as [Np1 Ok1].
      split; [exact Np1|]. intros sp1 E. destruct (Ok1 sp1 E) as (Hwf1 & Hb1 & Hl1).
      rewrite <- Hl1 in Hdr.
      destruct (sp_randn_bounds chargef sharef sharef_nonneg chargef_le sp1 mfe (gn_nmd gn) md Hwf1 ltac:(lia) ltac:(lia) Hdr) as [Np2 Ok2].
      split; [exact Np2|]. intros sp2 E2'. destruct (Ok2 sp2 E2') as (_ & Hb2 & _). lia. }
    (* the sharders: two passes *)
    assert (HS : live = true ->
              mf_pay_sharders chargef sharef gn sharders sfe sd <> SpPanic /\
              forall s1, mf_pay_sharders chargef sharef gn sharders sfe sd = SpOk s1 ->
                mf_pay_sharders chargef sharef gn s1 sr sd <> SpPanic /\
                forall s2, mf_pay_sharders chargef sharef gn s1 sr sd = SpOk s2 ->
                  mf_total sharders <= mf_total s2 <= mf_total sharders + sfe + sr /\ map nd_id s2 = map nd_id sharders).
    { intros Hl. unfold mf_pay_sharders.
      destruct sharders as [|s0 stl] eqn:Es.
      { split; [discriminate|]. intros s1 Hx1. inversion Hx1; subst. split; [discriminate|].
        intros s2 Hx2. inversion Hx2; subst. simpl. split; [lia|reflexivity]. }
      rewrite <- Es in *.
      assert (Hk : (0 < length sharders)%nat) by (rewrite Es; simpl; lia).
      destruct (mf_shares_exact sfe (length sharders) R2' Hk) as (Sum1 & Len1 & _ & Bnd1).
      destruct (mf_shares_exact sr (length sharders) R1' Hk) as (Sum2 & Len2 & _ & Bnd2).
      assert (B1 : Forall (fun v => 0 <= v <= fees + br) (mf_shares sfe (length sharders))).
      { eapply Forall_impl; [|exact Bnd1]. intros a Ha. simpl in Ha. lia. }
      assert (B2 : Forall (fun v => 0 <= v <= fees + br) (mf_shares sr (length sharders))).
      { eapply Forall_impl; [|exact Bnd2]. intros a Ha. simpl in Ha. lia. }
      destruct (mf_pay_nodes_bounds chargef sharef sharef_nonneg chargef_le sharders _ sd (gn_nsd gn) (2 * (fees + br)) (fees + br)
                  Len1 Hlsd Hsh B1 ltac:(lia)) as [Np1 Ok1].
      split; [exact Np1|]. intros s1 E. destruct (Ok1 s1 E) as (F1 & T1 & I1).
      assert (Hl1 : length s1 = length sharders) by (rewrite <- (map_length nd_id s1), I1, map_length; reflexivity).
      destruct s1 as [|a1 t1] eqn:Es1; [rewrite Es in Hl1; simpl in Hl1; discriminate|]. rewrite <- Es1 in *.
      replace (2 * (fees + br) - (fees + br)) with (fees + br) in F1 by lia.
      rewrite Hl1.
      destruct (mf_pay_nodes_bounds chargef sharef sharef_nonneg chargef_le s1 _ sd (gn_nsd gn) (fees + br) (fees + br)
                  ltac:(rewrite Len2; lia) ltac:(lia) F1 B2 ltac:(lia)) as [Np2 Ok2].
      split; [exact Np2|]. intros s2 E2'. destruct (Ok2 s2 E2') as (_ & T2 & I2).
      split; [lia|congruence]. }
    destruct miner as [m|].
    - destruct (HM m eq_refl) as [Np1 Ok1].
      destruct (sp_distribute_randn chargef sharef (nd_sp m) mr (gn_nmd gn) md) as [sp1| |] eqn:Em1;
        [|split; [discriminate|intros; discriminate]|contradiction].
      destruct (Ok1 sp1 eq_refl) as [Np2 Ok2].
      destruct (sp_distribute_randn chargef sharef sp1 mfe (gn_nmd gn) md) as [sp2| |] eqn:Em2;
        [|split; [discriminate|intros; discriminate]|contradiction].
      pose proof (Ok2 sp2 eq_refl) as Tm.
      destruct live.
      + destruct (HS eq_refl) as [Ns1 Oks1].
        destruct (mf_pay_sharders chargef sharef gn sharders sfe sd) as [s1| |] eqn:Es1;
          [|split; [discriminate|intros; discriminate]|contradiction].
        destruct (Oks1 s1 eq_refl) as [Ns2 Oks2].
        destruct (mf_pay_sharders chargef sharef gn s1 sr sd) as [s2| |] eqn:Es2;
          [|split; [discriminate|intros; discriminate]|contradiction].
        destruct (Oks2 s2 eq_refl) as [Ts Is].
        split; [discriminate|]. intros miner' sharders' H; inversion H; subst; clear H.
        exists mr, sr, mfe, sfe.
        split; [reflexivity|]. split; [reflexivity|]. split; [lia|].
        split; [exact Hshares|].
        split; [simpl; lia|assumption].
      + split; [discriminate|]. intros miner' sharders' H; inversion H; subst; clear H.
        exists mr, sr, mfe, sfe.
        split; [reflexivity|]. split; [reflexivity|]. split; [lia|].
        split; [exact Hshares|]. split; [simpl; lia|reflexivity].
    - destruct live.
      + destruct (HS eq_refl) as [Ns1 Oks1].
        destruct (mf_pay_sharders chargef sharef gn sharders sfe sd) as [s1| |] eqn:Es1;
          [|split; [discriminate|intros; discriminate]|contradiction].
        destruct (Oks1 s1 eq_refl) as [Ns2 Oks2].
        destruct (mf_pay_sharders chargef sharef gn s1 sr sd) as [s2| |] eqn:Es2;
          [|split; [discriminate|intros; discriminate]|contradiction].
        destruct (Oks2 s2 eq_refl) as [Ts Is].
        split; [discriminate|]. intros miner' sharders' H; inversion H; subst; clear H.
        exists mr, sr, mfe, sfe.
        split; [reflexivity|]. split; [reflexivity|]. split; [lia|].
        split; [exact Hshares|].
        split; [simpl; lia|assumption].
      + split; [discriminate|]. intros miner' sharders' H; inversion H; subst; clear H.
        exists mr, sr, mfe, sfe.
        split; [reflexivity|]. split; [reflexivity|]. split; [lia|].
        split; [exact Hshares|]. split; [simpl; lia|reflexivity].
  Qed.
End PayFees.

(* ---------- once per round: the rule lives in block validation ---------- *)

Lemma mf_block_valid_once : forall builtin txns seen, builtin mf_fn_pay_fees = true ->
  mf_block_valid builtin seen txns = true ->
  (count_occ Z.eq_dec txns mf_fn_pay_fees <= 1)%nat /\
  (In mf_fn_pay_fees seen -> count_occ Z.eq_dec txns mf_fn_pay_fees = 0%nat).
Proof.
  induction txns as [|f tl IH]; intros seen Hb H; simpl in *.
  - split; [lia|reflexivity].
  - destruct (Z.eq_dec f mf_fn_pay_fees) as [->|Hne].
    + rewrite Hb in H. destruct (existsb (Z.eqb mf_fn_pay_fees) seen) eqn:Ex; [discriminate|].
      destruct (IH _ Hb H) as [_ H0]. rewrite (H0 (or_introl eq_refl)).
      split; [lia|]. intros Hin. exfalso.
      assert (existsb (Z.eqb mf_fn_pay_fees) seen = true) by (apply existsb_exists; exists mf_fn_pay_fees; split; [assumption|apply Z.eqb_refl]).
      congruence.
    + destruct (builtin f).
      * destruct (existsb (Z.eqb f) seen); [discriminate|].
        destruct (IH _ Hb H) as [H1 H0]. split; [assumption|]. intros Hin. apply H0. right. assumption.
      * apply IH; assumption.
Qed.

(* the contract alone has no once-per-round guard: the same payment executed twice in the same
   round by the generator succeeds twice (witness: block reward 1000, share ratio 0.5, fees 40) *)
Definition mf_witness_gn : mf_gn :=
  {| gn_share_ratio := f64_of_bits 4602678819172646912; gn_block_reward := 1000; gn_reward_rate := f64_of_Z 1; gn_nmd := 10; gn_nsd := 10 |}.
Definition mf_witness_bk : mf_block := {| bk_round := 7; bk_miner := 100; bk_fees := [15; 25] |}.
Definition mf_witness_node (id bal : Z) : mf_node :=
  {| nd_id := id; nd_killed := false;
     nd_sp := {| sp_pools := [sp_mk_dp 1 bal 0]; sp_reward := 0;
                 sp_set := {| ss_wallet := 9; ss_maxdel := 10; ss_minstake := 0; ss_charge := f64_zero |}; sp_killed := false |} |}.

Definition mf_once_per_round_by_contract : Prop :=
  forall gn bk client r miner live sharders md sd miner1 sharders1,
    mf_pay_fees sp_chargef_go sp_sharef_go mf_splitf_go gn bk client r miner live sharders md sd = SpOk (miner1, sharders1) ->
    forall res, mf_pay_fees sp_chargef_go sp_sharef_go mf_splitf_go gn bk client r miner1 live sharders1 md sd <> SpOk res.

Lemma mf_contract_alone_repeats : ~ mf_once_per_round_by_contract.
Proof.
  intros H.
  destruct (mf_pay_fees sp_chargef_go sp_sharef_go mf_splitf_go mf_witness_gn mf_witness_bk 100 7
              (Some (mf_witness_node 100 50)) true [mf_witness_node 200 60] [] [[]]) as [[m1 s1]| |] eqn:E1;
    [|vm_compute in E1; discriminate|vm_compute in E1; discriminate].
  destruct (mf_pay_fees sp_chargef_go sp_sharef_go mf_splitf_go mf_witness_gn mf_witness_bk 100 7 m1 true s1 [] [[]]) as [res| |] eqn:E2.
  - exact (H _ _ _ _ _ _ _ _ _ _ _ E1 res E2).
  - vm_compute in E1. inversion E1; subst. vm_compute in E2. discriminate.
  - vm_compute in E1. inversion E1; subst. vm_compute in E2. discriminate.
Qed.

(* a block accepted by validation pays at most once: its execution is either without effect on
   the stake pools or exactly one successful payFees of the initial state *)
Lemma mf_valid_block_pays_once : forall chargef sharef splitf gn bk live md sd builtin,
  builtin mf_fn_pay_fees = true ->
  forall txns seen st,
  (forall fn, In (TxOther fn) txns -> fn <> mf_fn_pay_fees) ->
  mf_block_valid builtin seen (map mf_txn_name txns) = true ->
  (In mf_fn_pay_fees seen -> mf_run_block chargef sharef splitf gn bk live md sd st txns = st) /\
  (mf_run_block chargef sharef splitf gn bk live md sd st txns = st \/
   exists c r, In (TxPay c r) txns /\
     mf_pay chargef sharef splitf gn bk live md sd st c r = SpOk (mf_run_block chargef sharef splitf gn bk live md sd st txns)).
Proof.
  intros chargef sharef splitf gn bk live md sd builtin Hb.
  induction txns as [|t tl IH]; intros seen st Hoth Hv; simpl in *.
  - split; [reflexivity|left; reflexivity].
  - assert (Hoth' : forall fn, In (TxOther fn) tl -> fn <> mf_fn_pay_fees) by (intros fn Hin; apply Hoth; right; exact Hin).
    destruct t as [c r|fn]; simpl in Hv.
    + rewrite Hb in Hv. destruct (existsb (Z.eqb mf_fn_pay_fees) seen) eqn:Ex; [discriminate|].
      assert (Hnotin : ~ In mf_fn_pay_fees seen).
      { intros Hin. assert (existsb (Z.eqb mf_fn_pay_fees) seen = true) by (apply existsb_exists; exists mf_fn_pay_fees; split; [exact Hin|apply Z.eqb_refl]). congruence. }
      split; [intros Hin; contradiction|].
      assert (Hrest : forall st', mf_run_block chargef sharef splitf gn bk live md sd st' tl = st').
      { intros st'. apply (IH (mf_fn_pay_fees :: seen) st' Hoth' Hv). left. reflexivity. }
      destruct (mf_pay chargef sharef splitf gn bk live md sd st c r) as [st'| |] eqn:Ep; rewrite Hrest.
      * right. exists c, r. split; [left; reflexivity|exact Ep].
      * left. reflexivity.
      * left. reflexivity.
    + assert (Hne : fn <> mf_fn_pay_fees) by (apply Hoth; left; reflexivity).
      destruct (builtin fn).
      * destruct (existsb (Z.eqb fn) seen); [discriminate|].
        destruct (IH (fn :: seen) st Hoth' Hv) as [H1 H2].
        split; [intros Hin; apply H1; right; exact Hin|].
        destruct H2 as [H2|(c & r & Hin & Hp)]; [left; exact H2|right; exists c, r; split; [right; exact Hin|exact Hp]].
      * destruct (IH seen st Hoth' Hv) as [H1 H2]. split; [exact H1|].
        destruct H2 as [H2|(c & r & Hin & Hp)]; [left; exact H2|right; exists c, r; split; [right; exact Hin|exact Hp]].
Qed.

(* C09 step inequality for payFees (liabilities never grow without backing): the miner contract's
   liabilities touched by payFees are the unpaid stake-pool rewards L = mf_opt_total + mf_total
   (no stake changes, sp_cred); payFees queues no transfer (wallet change 0); what it newly
   accrues ("minted") is fees + block reward.  Hence L' - L <= (W' - W) + minted. *)
Lemma mf_pay_fees_liability_backed :
  forall chargef sharef splitf,
  (forall a b c r, sharef a b c = Some r -> 0 <= r) ->
  (forall r x c, chargef r x = Some c -> 0 <= c) ->
  (forall r y c, splitf r y = Some c -> 0 <= c) ->
  forall gn bk client in_round miner live sharders md sd fees br miner' sharders',
  Forall (fun f => 0 <= f) (bk_fees bk) ->
  mf_sum_fees (bk_fees bk) 0 = Some fees ->
  f64_mult_coin (gn_block_reward gn) (gn_reward_rate gn) = Some br ->
  (forall m, miner = Some m -> mf_node_ok (2 * (fees + br)) (gn_nmd gn) m md) ->
  length sd = length sharders ->
  Forall2 (mf_node_ok (2 * (fees + br)) (gn_nsd gn)) sharders sd ->
  mf_pay_fees chargef sharef splitf gn bk client in_round miner live sharders md sd = SpOk (miner', sharders') ->
  let L := mf_opt_total miner + mf_total sharders in
  let L' := mf_opt_total miner' + mf_total sharders' in
  let wallet_change := 0 in
  L' - L <= wallet_change + (fees + br).
Proof.
  intros chargef sharef splitf H1 H2 H3 gn bk client in_round miner live sharders md sd fees br miner' sharders' HF Hf Hb Hm Hl Hs H.
  destruct (mf_pay_fees_bounds chargef sharef splitf H1 H2 H3 gn bk client in_round miner live sharders md sd fees br HF Hf Hb Hm Hl Hs) as [_ Hok].
  destruct (Hok _ _ H) as (mr & sr & mfe & sfe & _ & _ & _ & _ & Hbound & _). simpl. lia.
Qed.
