// Translator for C39: reads smartcontract/minersc (go/ast) and emits coq/Gen/ReducePurity.v with the
// package-level state that SimpleNodes.reduce and its same-package callees (transitively) refer to:
// package-level variables and the global-source functions of math/rand. The Coq model of reduce is a
// pure function of its arguments (so "identical for identical inputs" holds for every schedule of
// concurrent selections); Prop/C39.v requires this list to be empty. Fails closed (exit 1) when the
// method is not found or a construct cannot be classified.
package main

import (
	"fmt"
	"go/ast"
	"go/parser"
	"go/token"
	"os"
	"path/filepath"
	"sort"
	"strings"
)

func die(f string, a ...interface{}) {
	fmt.Fprintf(os.Stderr, "reducepurity: "+f+"\n", a...)
	os.Exit(1)
}

func recvName(fd *ast.FuncDecl) string {
	if fd.Recv == nil || len(fd.Recv.List) == 0 {
		return ""
	}
	t := fd.Recv.List[0].Type
	if s, ok := t.(*ast.StarExpr); ok {
		t = s.X
	}
	if id, ok := t.(*ast.Ident); ok {
		return id.Name
	}
	return "?"
}

func main() {
	repo := os.Getenv("VERIF_REPO")
	if repo == "" {
		repo = "/repo"
	}
	out := "../coq/Gen/ReducePurity.v"
	if len(os.Args) > 1 {
		out = os.Args[1]
	}
	dir := filepath.Join(repo, "code/go/0chain.net/smartcontract/minersc")
	fset := token.NewFileSet()
	ents, err := os.ReadDir(dir)
	if err != nil {
		die("%v", err)
	}
	pkgVars := map[string]bool{}             // package-level variables
	topVarSpec := map[*ast.ValueSpec]bool{}  // their declarations
	funcs := map[string][]*ast.FuncDecl{}    // plain functions by name
	methods := map[string][]*ast.FuncDecl{}  // methods by method name
	randNames := map[*ast.File]string{}      // local name of math/rand per file
	fileOf := map[*ast.FuncDecl]*ast.File{}
	var root *ast.FuncDecl
	for _, e := range ents {
		n := e.Name()
		if !strings.HasSuffix(n, ".go") || strings.HasSuffix(n, "_test.go") || strings.HasPrefix(n, "verif_hooks") {
			continue
		}
		f, err := parser.ParseFile(fset, filepath.Join(dir, n), nil, 0)
		if err != nil {
			die("%v", err)
		}
		for _, im := range f.Imports {
			if im.Path.Value == `"math/rand"` {
				randNames[f] = "rand"
				if im.Name != nil {
					randNames[f] = im.Name.Name
				}
			}
		}
		for _, d := range f.Decls {
			switch x := d.(type) {
			case *ast.GenDecl:
				if x.Tok == token.VAR {
					for _, s := range x.Specs {
						vs := s.(*ast.ValueSpec)
						topVarSpec[vs] = true
						for _, id := range vs.Names {
							if id.Name != "_" {
								pkgVars[id.Name] = true
							}
						}
					}
				}
			case *ast.FuncDecl:
				fileOf[x] = f
				if x.Recv == nil {
					funcs[x.Name.Name] = append(funcs[x.Name.Name], x)
				} else {
					methods[x.Name.Name] = append(methods[x.Name.Name], x)
					if x.Name.Name == "reduce" && recvName(x) == "SimpleNodes" {
						root = x
					}
				}
			}
		}
	}
	if root == nil {
		die("method SimpleNodes.reduce not found in %s", dir)
	}
	state := map[string]bool{}
	callees := map[string]bool{}
	seen := map[*ast.FuncDecl]bool{}
	var visit func(fd *ast.FuncDecl)
	visit = func(fd *ast.FuncDecl) {
		if seen[fd] || fd.Body == nil {
			return
		}
		seen[fd] = true
		f := fileOf[fd]
		// identifiers that are selector fields / composite keys are not variable references
		skip := map[*ast.Ident]bool{}
		ast.Inspect(fd.Body, func(n ast.Node) bool {
			switch x := n.(type) {
			case *ast.SelectorExpr:
				skip[x.Sel] = true
			case *ast.KeyValueExpr:
				if id, ok := x.Key.(*ast.Ident); ok {
					skip[id] = true
				}
			}
			return true
		})
		ast.Inspect(fd.Body, func(n ast.Node) bool {
			switch x := n.(type) {
			case *ast.Ident:
				if skip[x] {
					return true
				}
				if x.Obj == nil {
					if pkgVars[x.Name] { // declared in another file of the package
						state[x.Name] = true
					}
				} else if vs, ok := x.Obj.Decl.(*ast.ValueSpec); ok && topVarSpec[vs] {
					state[x.Name] = true
				}
			case *ast.CallExpr:
				switch fn := x.Fun.(type) {
				case *ast.Ident:
					if fn.Obj == nil || fn.Obj.Kind == ast.Fun {
						for _, c := range funcs[fn.Name] {
							callees[fn.Name] = true
							visit(c)
						}
					}
				case *ast.SelectorExpr:
					if pk, ok := fn.X.(*ast.Ident); ok && pk.Obj == nil && randNames[f] != "" && pk.Name == randNames[f] {
						// math/rand: New and NewSource build a private generator; everything else uses the global source
						if fn.Sel.Name != "New" && fn.Sel.Name != "NewSource" {
							state["math/rand."+fn.Sel.Name] = true
						}
						return true
					}
					// a method call: without type information follow every method of that name in the package
					for _, c := range methods[fn.Sel.Name] {
						callees[recvName(c)+"."+fn.Sel.Name] = true
						visit(c)
					}
				}
			}
			return true
		})
	}
	visit(root)
	list := func(m map[string]bool) string {
		var ks []string
		for k := range m {
			ks = append(ks, k)
		}
		sort.Strings(ks)
		for i, k := range ks {
			ks[i] = fmt.Sprintf("%q", k)
		}
		return "[" + strings.Join(ks, "; ") + "]"
	}
	txt := "(* GENERATED by harness/translators/reducepurity from smartcontract/minersc -- do not edit.\n" +
		"   Package-level state referred to by SimpleNodes.reduce and its same-package callees. *)\n" +
		"From Coq Require Import List String.\nImport ListNotations.\nOpen Scope string_scope.\n" +
		"Definition rd_reduce_callees : list string := " + list(callees) + ".\n" +
		"Definition rd_reduce_package_state : list string := " + list(state) + ".\n"
	if old, err := os.ReadFile(out); err == nil && string(old) == txt {
		fmt.Println("reduce purity facts unchanged")
		return
	}
	if err := os.WriteFile(out, []byte(txt), 0o644); err != nil {
		die("%v", err)
	}
	fmt.Println("wrote", out)
}
