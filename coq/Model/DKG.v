(* Algebraic model of the threshold key generation and signing code (property C34, reused by C33):
     chaincore/threshold/bls/dkg.go       MakeDKG, ComputeDKGKeyShare, ValidateShare,
                                          AggregateSecretKeyShares, AggregatePublicKeyShares,
                                          Sign, VerifySignature, RecoverGroupSig / CalBlsGpSign
     core/encryption/bls0chain_threshold.go   BLS0GenerateThresholdKeyShares, Reconstruct
     core/encryption/bls0chain.go             GenerateSplitKeys, AggregateSignatures
     chaincore/block/sos.go                   ShareOrSigns.Validate (share branch = ValidateShare)
   Idealisation: scalars live in a field F (the code: Fr of BN254); the groups G1 (signatures),
   G2 (public keys) and GT are F-modules, g2 is the generator of public keys, e a bilinear map,
   H the hash-to-G1 of the library.  Definitions only (MathComp style); proofs in Proof/DKG.v.
   The executable instance over Z mod p used by the correspondence check is Model/DKGZ.v. *)
From mathcomp Require Import all_ssreflect ssralg poly.
Set Implicit Arguments.
Unset Strict Implicit.
Unset Printing Implicit Defensive.
Import GRing.Theory.
Local Open Scope ring_scope.

Section DKGModel.
Variable F : fieldType.
Variables G1 G2 GT : lmodType F.
Variable g2 : G2.
Variable M : Type.
Variable H : M -> G1.
Variable e : G1 -> G2 -> GT.

(* MakeDKG: msk = t coefficients (msk[0] is the party's secret), mpk_k = msk_k * g2 *)
Definition dkg_pub (s : F) : G2 := s *: g2.
Definition dkg_mpk (cs : seq F) : seq G2 := [seq dkg_pub a | a <- cs].

(* ComputeDKGKeyShare(forID) = SecretKey.Set(msk, id): evaluation of the polynomial at id *)
Definition dkg_share (cs : seq F) (i : F) : F := (Poly cs).[i].

(* PublicKey.Set(mpk, id): evaluation "in the exponent" *)
Definition dkg_pk_eval (mpk : seq G2) (i : F) : G2 := \sum_(k < size mpk) i ^+ k *: mpk`_k.

(* ValidateShare(jpk, sij, id): sij.GetPublicKey() == PublicKey.Set(jpk, id) *)
Definition dkg_validate (mpk : seq G2) (i s : F) : bool := dkg_pub s == dkg_pk_eval mpk i.

(* AggregateSecretKeyShares: Si = sum of the received shares; every party sums the shares of the
   same qualified set of parties, given by their coefficient lists css *)
Definition dkg_sk (css : seq (seq F)) (i : F) : F := \sum_(cs <- css) dkg_share cs i.

(* The party's state behind dkg_sk: receivedSecretShares is a map dealer id -> share
   (AddSecretShare sets the entry of the dealer), AggregateSecretKeyShares sets Si to the sum of
   the map's values, starting from zero (a local accumulator), whatever Si was before. *)
Definition dkg_recv_add (recv : seq (F * F)) (j s : F) : seq (F * F) :=
  if j \in unzip1 recv then [seq (if p.1 == j then (j, s) else p) | p <- recv]
  else rcons recv (j, s).

Definition dkg_aggregate (st : seq (F * F) * F) : seq (F * F) * F :=
  (st.1, \sum_(p <- st.1) p.2).

(* group secret (never materialised by the code) and group public key *)
Definition dkg_gsk (css : seq (seq F)) : F := \sum_(cs <- css) cs`_0.
Definition dkg_gpk (mpks : seq (seq G2)) : G2 := \sum_(mpk <- mpks) mpk`_0.

(* AggregatePublicKeyShares: gmpk[id] = sum over parties of PublicKey.Set(mpk, id) *)
Definition dkg_gpk_at (mpks : seq (seq G2)) (i : F) : G2 := \sum_(mpk <- mpks) dkg_pk_eval mpk i.

(* AggregatePublicKeyShares as a state update: the map party id -> public key share is REBUILT
   from the given public polynomials for the given ids; whatever it held before is dropped *)
Definition dkg_agg_pub (old : seq (F * G2)) (mpks : seq (seq G2)) (ids : seq F) : seq (F * G2) :=
  [seq (i, dkg_gpk_at mpks i) | i <- ids].

(* Sign / Verify of the library: sig = sk * H(m); e(sig, g2) == e(H(m), pk) *)
Definition dkg_sign (sk : F) (m : M) : G1 := sk *: H m.
Definition dkg_verify (pk : G2) (m : M) (sig : G1) : bool := e sig g2 == e (H m) pk.

(* Sign.Recover(sigVec, idVec): Lagrange interpolation at 0.  The library fails on an empty
   vector, returns the only element when there is one, and otherwise fails when an id is zero or
   two ids are equal. *)
Definition dkg_lag0 (ids : seq F) (i : F) : F := \prod_(j <- ids | j != i) (j / (j - i)).

Definition dkg_recover (prs : seq (F * G1)) : option G1 :=
  match prs with
  | [::] => None
  | [:: p] => Some p.2
  | _ => let ids := unzip1 prs in
         if uniq ids && (0 \notin ids)
         then Some (\sum_(p <- prs) dkg_lag0 ids p.1 *: p.2) else None
  end.

(* the signature shares the parties with the given ids produce on m *)
Definition dkg_sig_shares (css : seq (seq F)) (ids : seq F) (m : M) : seq (F * G1) :=
  [seq (i, dkg_sign (dkg_sk css i) m) | i <- ids].

(* GenerateSplitKeys(n): n-1 fresh keys ks and a last key = primary - sum ks;
   AggregateSignatures = sum of the signatures *)
Definition dkg_split (sk : F) (ks : seq F) : seq F := rcons ks (sk - \sum_(k <- ks) k).
Definition dkg_agg_sigs (sigs : seq G1) : G1 := \sum_(s <- sigs) s.

End DKGModel.
