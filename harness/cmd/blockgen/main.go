// Engine for C45: generates blocks with the real miner generateBlock from an in-memory pool, sends
// them (JSON round trip) to a second chain instance holding the same previous state, runs the real
// VerifyBlock there, evaluates the property on what was observed and emits cases for the Coq model.
package main

import (
	"bytes"
	"context"
	"crypto/sha256"
	"encoding/hex"
	"encoding/json"
	"fmt"
	"math"
	"math/big"
	"sort"
	"strings"

	"0chain.net/chaincore/block"
	"0chain.net/chaincore/transaction"
	"0chain.net/core/common"
	"0chain.net/core/config"
	cconfig "0chain.net/core/config"
	"0chain.net/miner"
	"github.com/0chain/common/core/currency"
	"verifharness/conch"
	"verifharness/vh"
)

// ---------- inputs ----------

// TxnSpec describes one pool transaction.
// Kind: 0 send; 1 script call ok_<CostK>; 2 script call fail_<CostK>; 3 script call of a function
// that is not in the cost table; 4 contract call to an address that is no contract; 6 script call
// whose function name is a built-in name (BName: 1 payFees 2 commit_settings_changes
// 3 blobber_block_rewards 4 generate_challenge), cost CostK; 7 script call of a fee-exempt function
// (ExName: 1 pour 2 wait), cost CostK; 8 real miner-contract update_settings by the contract owner
// (SetKey: 1 reward_rate 2 share_ratio, SetVal: index into setvals): the contract rewrites its
// GlobalNode, a node that goes through the state cache; 9 real miner-contract add_miner registering
// the generator itself with the sender as delegate wallet (gives payFees a stake pool to reward).
type TxnSpec struct {
	Client  int    `json:"c"`
	Nonce   int64  `json:"n"`
	Fee     uint64 `json:"fee,omitempty"`
	Kind    int    `json:"k"`
	Value   uint64 `json:"v,omitempty"`
	To      int    `json:"to,omitempty"`
	CostK   int    `json:"cost,omitempty"`
	BName   int    `json:"bn,omitempty"`
	ExName  int    `json:"ex,omitempty"`
	SetKey  int    `json:"sk,omitempty"`
	SetVal  int    `json:"sv,omitempty"`
	DateOff int64  `json:"dt,omitempty"`
	BadSig  bool   `json:"badsig,omitempty"`
	ValBig  bool   `json:"valbig,omitempty"`
}

type Case struct {
	Cfg       conch.Cfg    `json:"cfg"`
	Challenge bool         `json:"challenge"` // storage contract challenge_enabled: generate_challenge built-in
	Accts     []conch.Acct `json:"accts"`
	Txns      []TxnSpec    `json:"txns"`
	Order     []int        `json:"order"` // pool iteration order: indices into Txns (an index may repeat)
	Owner     int          `json:"owner,omitempty"` // client that owns the miner contract (update_settings)
	// NoMinStake: miner contract min_stake_per_delegate = 0, so that a freshly registered miner's stake
	// pool is rewarded by payFees although nobody has staked yet
	NoMinStake bool `json:"no_min_stake,omitempty"`
}

var setkeys = []string{"", "reward_rate", "share_ratio"}
var setvals = []string{"0.5", "0.25", "1.0", "0.75"}
var exnames = []string{"", "pour", "wait"}
var bnames = []string{"", "payFees", "commit_settings_changes", "blobber_block_rewards", "generate_challenge"}

const minerSCAddress = "6dba10422e368813802877a85039d3985d96760ed844092319743fb3a76712d9"
const round = 10
const minerTok = 999

func fname(s TxnSpec) string {
	switch s.Kind {
	case 1:
		return fmt.Sprintf("ok_%d", s.CostK)
	case 2:
		return fmt.Sprintf("fail_%d", s.CostK)
	case 3:
		return "nosuchfunction"
	case 4:
		return "ok_1"
	case 6:
		return bnames[s.BName]
	case 7:
		return exnames[s.ExName]
	case 8:
		return "update_settings"
	case 9:
		return "add_miner"
	}
	return ""
}

func build(s TxnSpec, now common.Timestamp) *transaction.Transaction {
	k := conch.ClientKey(s.Client)
	t := transaction.Provider().(*transaction.Transaction)
	t.ClientID = k.ID
	t.PublicKey = k.Pub
	t.Nonce = s.Nonce
	t.Fee = currency.Coin(s.Fee)
	t.CreationDate = now + common.Timestamp(s.DateOff)
	switch s.Kind {
	case 0:
		t.TransactionType = transaction.TxnTypeSend
		t.ToClientID = conch.ClientKey(s.To).ID
		t.Value = currency.Coin(s.Value)
		if s.ValBig {
			t.Value = currency.Coin(cconfig.MaxTokenSupply + 1)
		}
	case 9:
		t.TransactionType = transaction.TxnTypeSmartContract
		t.ToClientID = minerSCAddress
		t.TransactionData = fmt.Sprintf(`{"name":"add_miner","input":{"simple_miner":{"id":"%s","n2n_host":"miner0.example","host":"miner0.example","port":7071,"public_key":"%s","short_name":"m0"},"stake_pool":{"settings":{"delegate_wallet":"%s","num_delegates":10,"service_charge":0.1}}}}`,
			conch.MinerKey.ID, conch.MinerKey.Pub, k.ID)
	case 8:
		t.TransactionType = transaction.TxnTypeSmartContract
		t.ToClientID = minerSCAddress
		t.TransactionData = fmt.Sprintf(`{"name":"update_settings","input":{"fields":{"%s":"%s"}}}`, setkeys[s.SetKey], setvals[s.SetVal%len(setvals)])
	case 4:
		t.TransactionType = transaction.TxnTypeSmartContract
		t.ToClientID = conch.ClientKey(1000 + s.To).ID // a hash that is no contract address
		t.TransactionData = fmt.Sprintf(`{"name":"%s","input":{}}`, fname(s))
	default:
		t.TransactionType = transaction.TxnTypeSmartContract
		t.ToClientID = conch.ScriptAddress
		t.TransactionData = fmt.Sprintf(`{"name":"%s","input":{}}`, fname(s))
	}
	if err := t.ComputeProperties(); err != nil {
		panic(err)
	}
	if _, err := t.Sign(k.Scheme); err != nil {
		panic(err)
	}
	if s.BadSig {
		// signature of another transaction of the same client
		other := t.Clone()
		other.Nonce = t.Nonce + 1000003
		sig, _ := k.Scheme.Sign(other.ComputeHash())
		t.Signature = sig
	}
	return t
}

// ---------- one run on the real code ----------

type txnInfo struct {
	tok     int
	cost    int
	costErr bool
	valid   bool
	fnameK  int
	size    int
	gcost   int
	gfee    uint64
	gerr    bool
	exempt  bool
}

type result struct {
	genErr    string
	now0      int64
	bdate     int64
	blockToks []int
	verClass  int
	verErr    string
	infos     []txnInfo // per Txns index
	biToks    []int
	biCosts   []int
	viol      []string // oracle failures (signatures without the C45: prefix)
	violDesc  map[string]string
	kinds     map[string]int
	included  int
	skipped   int
}

func errClass(err error) int {
	if err == nil {
		return 0
	}
	if err == block.ErrCostTooBig {
		return 3
	}
	if err == block.ErrStateMismatch {
		return 4
	}
	if ce, ok := err.(*common.Error); ok {
		switch ce.Code {
		case "duplicate_transactions":
			return 1
		case "txn_validation_failed":
			return 2
		case "cost_too_big":
			return 3
		case "state_update_error", block.StateMismatch:
			return 4
		case "txn_output_verification_failed":
			return 5
		}
	}
	return 9
}

var defaultOwner = "1746b06bb09f55ee01b33b5e2e055d6cc7a900cb57c0a3a5eaabb8a0e7745802"

func scriptCosts(c Case) map[string]int {
	m := map[string]int{}
	for _, s := range c.Txns {
		switch s.Kind {
		case 1, 2, 6, 7:
			m[fname(s)] = s.CostK
		case 4:
			m["ok_1"] = 1
		}
	}
	return m
}

func run(c Case) (res result) {
	res.kinds = map[string]int{}
	res.violDesc = map[string]string{}
	ctx := context.Background()
	conch.Setup()
	cconfig.SmartContractConfig.Set("smart_contracts.storagesc.challenge_enabled", c.Challenge)
	conch.SetScriptCosts(scriptCosts(c))
	if c.Owner != 0 {
		cconfig.SmartContractConfig.Set("smart_contracts.minersc.owner_id", conch.ClientKey(c.Owner).ID)
	} else {
		cconfig.SmartContractConfig.Set("smart_contracts.minersc.owner_id", defaultOwner)
	}
	if c.NoMinStake {
		cconfig.SmartContractConfig.Set("smart_contracts.minersc.min_stake_per_delegate", 0)
	} else {
		cconfig.SmartContractConfig.Set("smart_contracts.minersc.min_stake_per_delegate", 1)
	}
	now := common.Now()
	res.now0 = int64(now)
	g := conch.NewMiner(c.Cfg, c.Accts, round, now)
	v := conch.NewMiner(c.Cfg, c.Accts, round, now)
	defer g.Close()
	defer v.Close()

	txns := make([]*transaction.Transaction, len(c.Txns))
	byHash := map[string]int{}
	res.infos = make([]txnInfo, len(c.Txns))
	lfb := g.C.GetLatestFinalizedBlock()
	for i, s := range c.Txns {
		t := build(s, now)
		txns[i] = t
		if _, dup := byHash[t.Hash]; !dup {
			byHash[t.Hash] = i
		}
		inf := txnInfo{tok: byHash[t.Hash], size: len(t.TransactionData)}
		cost, err := g.C.EstimateTransactionCost(ctx, lfb, t)
		inf.cost, inf.costErr = cost, err != nil
		gc, gf, gerr := g.C.EstimateTransactionCostFee(ctx, lfb, t)
		inf.gcost, inf.gfee, inf.gerr = gc, uint64(gf), gerr != nil
		for _, n := range c.Cfg.Exempt {
			if t.TransactionData != "" && n == t.FunctionName {
				inf.exempt = true
			}
		}
		inf.valid = t.ValidateWrtTimeForBlock(ctx, t.CreationDate, true) == nil
		if t.TransactionType == transaction.TxnTypeSmartContract && miner.VerifIsBuildInTxnName(t.FunctionName) {
			for k, n := range bnames {
				if n == t.FunctionName {
					inf.fnameK = k
				}
			}
		}
		res.infos[i] = inf
	}
	// built-in templates the generator will create (order of buildInTxns)
	if c.Cfg.FeeEnabled {
		res.biToks = append(res.biToks, 1001)
	}
	if c.Challenge {
		res.biToks = append(res.biToks, 1004)
	}
	if c.Cfg.SettingsPeriod != 0 && round%c.Cfg.SettingsPeriod == 0 {
		res.biToks = append(res.biToks, 1002)
	}
	for _, tok := range res.biToks {
		tt := transaction.Provider().(*transaction.Transaction)
		tt.ClientID = conch.MinerKey.ID
		tt.PublicKey = conch.MinerKey.Pub
		tt.ToClientID = "6dba10422e368813802877a85039d3985d96760ed844092319743fb3a76712d7"
		if tok == 1001 {
			tt.ToClientID = "6dba10422e368813802877a85039d3985d96760ed844092319743fb3a76712d9"
		}
		tt.TransactionType = transaction.TxnTypeSmartContract
		tt.TransactionData = fmt.Sprintf(`{"name":"%s","input":{"round":%d}}`, bnames[tok-1000], round)
		_ = tt.ComputeProperties()
		cost, err := g.C.EstimateTransactionCost(ctx, lfb, tt)
		if err != nil {
			cost = -1
		}
		res.biCosts = append(res.biCosts, cost)
	}

	pool := make([]*transaction.Transaction, len(c.Order))
	for i, ix := range c.Order {
		pool[i] = txns[byHash[txns[ix].Hash]]
	}
	conch.Store.SetPool(pool)
	b := g.NewBlock(round)
	err := g.Generate(ctx, b)
	res.bdate = int64(b.CreationDate)
	if err != nil {
		res.genErr = err.Error()
		res.kinds["gen-error"]++
		return
	}
	res.kinds["gen-ok"]++
	for _, t := range b.Txns {
		if t.FunctionName == "payFees" || t.FunctionName == "add_miner" || t.FunctionName == "update_settings" {
			res.kinds[fmt.Sprintf("%s-status-%d", t.FunctionName, t.Status)]++
			if t.FunctionName == "payFees" && t.Fee > 0 {
				res.kinds["payFees-with-nonzero-fee"]++
			}
		}
	}
	origin := make([]int, len(b.Txns)) // token per block txn
	fromPool := make([]bool, len(b.Txns))
	for i, t := range b.Txns {
		if ix, ok := byHash[t.Hash]; ok {
			origin[i] = ix
			fromPool[i] = true
			continue
		}
		origin[i] = -1
		for k, n := range bnames {
			if k > 0 && n == t.FunctionName && t.PublicKey == conch.MinerKey.Pub {
				origin[i] = 1000 + k
			}
		}
	}
	res.blockToks = origin
	inBlock := map[int]bool{}
	for i, tok := range origin {
		if fromPool[i] {
			inBlock[tok] = true
			res.included++
		}
	}
	for _, ix := range c.Order {
		if !inBlock[res.infos[ix].tok] {
			res.skipped++
		}
	}

	// ---- verification on the second instance ----
	nb, rerr := conch.Receive(b)
	if rerr != nil {
		res.verClass, res.verErr = 9, "receive: "+rerr.Error()
	} else {
		nb.SetPreviousBlock(v.Prev)
		_, verr := v.Verify(ctx, nb)
		res.verClass = errClass(verr)
		if verr != nil {
			res.verErr = verr.Error()
		}
	}
	res.kinds[fmt.Sprintf("verify-class-%d", res.verClass)]++

	// ---- the property, evaluated on what the real code did ----
	viol := func(sig, desc string) {
		res.viol = append(res.viol, sig)
		res.violDesc[sig] = desc
	}
	anyInvalid := false
	for i, tok := range origin {
		if fromPool[i] && !res.infos[tok].valid {
			anyInvalid = true
		}
	}
	// built-in names per origin
	nameCount := map[string]int{}
	namePool := map[string]bool{}
	ownCount := map[string]int{}
	for i, t := range b.Txns {
		if t.TransactionType == transaction.TxnTypeSmartContract && miner.VerifIsBuildInTxnName(t.FunctionName) {
			nameCount[t.FunctionName]++
			if fromPool[i] {
				namePool[t.FunctionName] = true
			} else {
				ownCount[t.FunctionName]++
			}
		}
	}
	if res.verClass != 0 {
		switch {
		case anyInvalid:
			res.kinds["rejected-unadmittable-pool-entry"]++ // pool admission (signature/ids) was bypassed: outside the property
		default:
			sig := fmt.Sprintf("honest-block-rejected-class-%d", res.verClass)
			for n, k := range nameCount {
				if k > 1 && namePool[n] {
					sig = "builtin-name-from-pool"
				}
			}
			viol(sig, fmt.Sprintf("block generated by the real generateBlock from an admitted pool was rejected by VerifyBlock on a node with the same previous state: %s", res.verErr))
		}
	} else {
		if !bytes.Equal(nb.ClientState.GetRoot(), b.ClientStateHash) {
			viol("root-differs", "verifier recomputed a different state root")
		}
		if nb.ClientState.GetChangeCount() != b.StateChangesCount {
			viol("change-count-differs", fmt.Sprintf("verifier change count %d, block says %d", nb.ClientState.GetChangeCount(), b.StateChangesCount))
		}
		for i := range b.Txns {
			if nb.Txns[i].TransactionOutput != b.Txns[i].TransactionOutput || nb.Txns[i].Status != b.Txns[i].Status {
				viol("output-differs", fmt.Sprintf("transaction %d: verifier output/status differs", i))
			}
		}
	}
	for _, ix := range c.Order {
		inf := res.infos[ix]
		if !inf.costErr && !inf.gerr && inf.gcost != inf.cost {
			viol("generator-cost-differs-from-verifier-cost", fmt.Sprintf("pool transaction %d (%s): EstimateTransactionCostFee budgets it at %d, EstimateTransactionCost (verifier, promoted loop) at %d", ix, fname(c.Txns[ix]), inf.gcost, inf.cost))
		}
	}
	for i, tok := range origin {
		if fromPool[i] {
			cd := res.now0 + c.Txns[tok].DateOff
			if cd < res.bdate-600 || cd > res.bdate+600 {
				viol("generator-admitted-outside-block-time-tolerance", fmt.Sprintf("pool transaction %d created at block date %+d s is in the block although |block creation date - txn creation date| > 600 s (verifiers measure the tolerance against the block's creation date)", tok, cd-res.bdate))
			}
		}
	}
	seen := map[string]bool{}
	for _, t := range b.Txns {
		if seen[t.Hash] {
			viol("duplicate-txn", "block contains transaction "+t.Hash+" twice")
		}
		seen[t.Hash] = true
	}
	last := map[string]int64{}
	for _, a := range c.Accts {
		last[conch.ClientKey(a.Client).Pub] = a.Nonce
	}
	for _, t := range b.Txns {
		if t.Nonce != last[t.PublicKey]+1 {
			viol("nonce-not-consecutive", fmt.Sprintf("sender %s: nonce %d after %d", t.PublicKey[:8], t.Nonce, last[t.PublicKey]))
		}
		last[t.PublicKey] = t.Nonce
	}
	total := new(big.Int)
	overflow := false
	for i, tok := range origin {
		var cst int
		switch {
		case fromPool[i]:
			cst = res.infos[tok].cost
		case tok >= 1000:
			for j, bt := range res.biToks {
				if bt == tok {
					cst = res.biCosts[j]
				}
			}
		}
		if cst == math.MaxInt {
			overflow = true
		}
		total.Add(total, big.NewInt(int64(cst)))
	}
	if total.Cmp(big.NewInt(int64(c.Cfg.MaxBlockCost))) > 0 {
		if overflow {
			viol("cost-limit-bypass-unknown-function", fmt.Sprintf("block cost %s exceeds the limit %d: a call of a function missing from the cost table costs MaxInt and wraps the generator's and the verifier's sums", total, c.Cfg.MaxBlockCost))
		} else {
			viol("cost-over-limit", fmt.Sprintf("block cost %s exceeds the limit %d", total, c.Cfg.MaxBlockCost))
		}
	}
	for n, k := range ownCount {
		if k > 1 {
			viol("builtin-appended-twice", "generator appended its built-in "+n+" more than once")
		}
	}
	return
}

// ---------- Coq case ----------

func optZ(ok bool, v int) string {
	if !ok {
		return "None"
	}
	return vh.Some(vh.Z(int64(v)))
}

func coqTxn(tok, client int, nonce int64, fee uint64, cdate int64, valbig bool, cost, gcost string, gfee uint64, exempt bool, size, fn int, valid bool, kind int, value uint64, to int) string {
	// positional constructor application (elaborates twice as fast as record syntax):
	// hash client nonce fee cdate valbig cost gcost gfee exempt size fname valid kind value to
	return fmt.Sprintf("(Build_bg_txn %d %d %s %d %s %s %s %s %d %s %d %d %s %d %d %d)",
		tok, client, vh.Z(nonce), fee, vh.Z(cdate), vh.Bool(valbig), cost, gcost, gfee, vh.Bool(exempt), size, fn, vh.Bool(valid), kind, value, to)
}

func coqCase(c Case, r result) string {
	now0 := r.now0 // dates are emitted relative to now0 (WithinTime is translation invariant)
	cfg := fmt.Sprintf("{| bc_maxcost := %d; bc_maxbytes := %d; bc_tol := 600; bc_bdate := %s; bc_miner := %d; bc_fee := %s; bc_minfee := %d |}",
		c.Cfg.MaxBlockCost, c.Cfg.MaxByteSize, vh.Z(r.bdate-now0), minerTok, vh.Bool(c.Cfg.FeeEnabled), c.Cfg.MinFee)
	var accts []string
	for _, a := range c.Accts {
		accts = append(accts, vh.Pair(vh.Z(int64(a.Client)), vh.Pair(vh.Z(a.Nonce), vh.ZU(a.Bal))))
	}
	var pool []string
	for _, ix := range c.Order {
		s := c.Txns[ix]
		inf := r.infos[ix]
		kind := s.Kind
		if kind == 6 || kind == 7 || kind == 8 || kind == 9 {
			kind = 1
		}
		val := s.Value
		if s.ValBig {
			val = cconfig.MaxTokenSupply + 1
		}
		pool = append(pool, coqTxn(inf.tok, s.Client, s.Nonce, s.Fee, s.DateOff, s.ValBig && s.Kind == 0,
			optZ(!inf.costErr, inf.cost), optZ(!inf.gerr, inf.gcost), inf.gfee, inf.exempt, inf.size, inf.fnameK, inf.valid, kind, val, s.To))
	}
	var bis []string
	for j, tok := range r.biToks {
		bis = append(bis, coqTxn(tok, minerTok, 0, 0, r.bdate-now0, false, optZ(r.biCosts[j] >= 0, r.biCosts[j]), optZ(r.biCosts[j] >= 0, r.biCosts[j]), 0, false, 0, tok-1000, true, 5, 0, 0))
	}
	gen := "None"
	if r.genErr == "" {
		toks := make([]int64, len(r.blockToks))
		for i, t := range r.blockToks {
			toks[i] = int64(t)
		}
		gen = vh.Some(vh.ZList(toks))
	}
	return fmt.Sprintf("{| bgc_cfg := %s; bgc_accts := %s; bgc_pool := %s; bgc_bis := %s; bgc_gen := %s; bgc_ver := %d |}",
		cfg, vh.List(accts), vh.List(pool), vh.List(bis), gen, r.verClass)
}

// ---------- generator ----------

func genCase(r *vh.Rand, maxPool int) Case {
	var c Case
	nClients := r.Range(2, 8)
	state := map[int]int64{}
	bal := map[int]uint64{}
	for i := 1; i <= nClients; i++ {
		if r.Chance(4, 5) {
			a := conch.Acct{Client: i, Nonce: int64(r.Intn(4)), Bal: r.PickU64([]uint64{0, 1, 50, 1000, 1 << 40})}
			c.Accts = append(c.Accts, a)
			state[i] = a.Nonce
			bal[i] = a.Bal
		}
	}
	next := map[int]int64{}
	for i := 1; i <= nClients; i++ {
		next[i] = state[i] + 1
	}
	n := r.Range(0, maxPool)
	costs := []int{1, 2, 5, 10, 20}
	for i := 0; i < n; i++ {
		s := TxnSpec{Client: r.Range(1, nClients), Fee: uint64(r.Intn(4))}
		switch x := r.Intn(100); {
		case x < 60:
			s.Nonce = next[s.Client]
			next[s.Client]++
		case x < 70: // same nonce again (other payload)
			s.Nonce = next[s.Client] - 1
		case x < 80: // leaves a gap
			next[s.Client] += int64(r.Range(1, 2))
			s.Nonce = next[s.Client]
			next[s.Client]++
		case x < 88: // past
			s.Nonce = state[s.Client] - int64(r.Intn(2))
		case x < 96: // far future
			s.Nonce = next[s.Client] + int64(r.Range(5, 30))
		default:
			s.Nonce = r.Pick64([]int64{0, -1, math.MaxInt64, math.MinInt64, math.MinInt64 + 1, 1 << 53})
		}
		switch x := r.Intn(100); {
		case x < 45:
			s.Kind = 0
			s.To = r.Range(1, nClients+1)
			s.Value = r.PickU64([]uint64{1, 2, 10, 49, 50, 51, 999, 1000, 1001})
			if r.Chance(1, 40) {
				s.To = s.Client
			}
			if r.Chance(1, 60) {
				s.ValBig = true
			}
		case x < 70:
			s.Kind, s.CostK = 1, costs[r.Intn(len(costs))]
		case x < 85:
			s.Kind, s.CostK = 2, costs[r.Intn(len(costs))]
		case x < 88:
			s.Kind = 3
		case x < 90:
			s.Kind, s.ExName, s.CostK = 7, r.Range(1, 2), []int{5, 10}[0]
		case x < 94:
			s.Kind, s.To = 4, r.Range(1, 3)
		default:
			s.Kind, s.BName, s.CostK = 6, r.Range(1, 4), costs[r.Intn(len(costs))]
		}
		if r.Chance(1, 12) {
			s.DateOff = r.Pick64([]int64{-5000, -700, 700, 5000})
		} else {
			s.DateOff = int64(r.Range(-300, 300))
		}
		if r.Chance(1, 30) {
			s.BadSig = true
		}
		c.Txns = append(c.Txns, s)
	}
	// iteration order
	switch r.Intn(4) {
	case 0:
		for i := range c.Txns {
			c.Order = append(c.Order, i)
		}
	case 1: // by fee, descending (what the redis collection does when fees are enabled)
		for i := range c.Txns {
			c.Order = append(c.Order, i)
		}
		sort.SliceStable(c.Order, func(i, j int) bool { return c.Txns[c.Order[i]].Fee > c.Txns[c.Order[j]].Fee })
	default:
		c.Order = r.Perm(len(c.Txns))
	}
	if len(c.Order) > 0 && r.Chance(1, 8) { // an entry handed out twice
		c.Order = append(c.Order, c.Order[r.Intn(len(c.Order))])
	}
	// configuration: cost limit around the cost of a prefix of the pool
	tc := r.Range(1, 10)
	sum, cut := 0, r.Intn(len(c.Order)+1)
	for i, ix := range c.Order {
		if i >= cut {
			break
		}
		switch c.Txns[ix].Kind {
		case 0:
			sum += tc
		case 1, 2, 6, 7:
			sum += c.Txns[ix].CostK
		}
	}
	c.Challenge = r.Chance(1, 3)
	floor := 1
	if c.Challenge {
		sum += 100
		floor = 100 // the limit is configured above the cost of the generator's own built-in transactions
	}
	c.Cfg = conch.Cfg{TransferCost: tc, FutureNonce: r.Range(1, 20), MaxByteSize: 1 << 20, BatchSize: r.Range(1, 5),
		MaxBlockCost: sum + r.Range(-1, 1), Exempt: []string{"pour", "wait"}}
	// clock skew: the previous block's creation date is ahead of / behind the local clock, so the
	// block's creation date differs from "now"; creation dates of some transactions sit at both
	// edges of the tolerance measured from the block's creation date
	c.Cfg.PrevSkew = r.Pick64([]int64{0, 0, -3, -1, 2, 5, 8})
	base := c.Cfg.PrevSkew
	if base < 0 {
		base = 0
	}
	for i := range c.Txns {
		if r.Chance(1, 6) {
			c.Txns[i].DateOff = base + r.Pick64([]int64{-600, 600}) + int64(r.Range(-2, 2))
		}
	}
	if r.Chance(1, 3) {
		// fees on: payFees built-in, ValidateFee against max(MinTxnFee, estimated fee = cost), fee paid to the miner contract
		c.Cfg.FeeEnabled = true
		c.Cfg.MinFee = r.PickU64([]uint64{0, 0, 3, 8})
		for i := range c.Txns {
			k := uint64(c.Txns[i].CostK)
			if c.Txns[i].Kind == 0 {
				k = uint64(tc)
			}
			c.Txns[i].Fee = r.PickU64([]uint64{0, k, k, k + 1, k + 1, 30, 30, c.Cfg.MinFee})
			if k > 0 && r.Chance(1, 6) {
				c.Txns[i].Fee = k - 1
			}
		}
	}
	if r.Chance(1, 3) {
		c.Cfg.MaxBlockCost = 100000
	}
	if c.Cfg.MaxBlockCost < floor {
		c.Cfg.MaxBlockCost = floor
	}
	if r.Chance(1, 2) {
		c.Cfg.SettingsPeriod = r.Pick64([]int64{1, 2, 5, 7})
	}
	if r.Chance(1, 10) {
		c.Cfg.MaxByteSize = int64(r.Range(30, 200))
	}
	return c
}

// compact drops the transactions the order does not mention.
func compact(c Case) Case {
	out := c
	out.Txns, out.Order = nil, nil
	idx := map[int]int{}
	for _, ix := range c.Order {
		if _, ok := idx[ix]; !ok {
			idx[ix] = len(out.Txns)
			out.Txns = append(out.Txns, c.Txns[ix])
		}
		out.Order = append(out.Order, idx[ix])
	}
	return out
}

// genPromo builds pools that exercise the loop over promoted future-nonce transactions
// (iterInfo.currentTxns) against a tight cost budget: one or two senders whose later nonces are
// handed out before the current one (so they are parked as future transactions and promoted when
// the current one is processed), every transaction with the same cost c, and MaxBlockCost at
// j*c-1, j*c, j*c+1 (exact fit / one over / one under for j transactions) above the built-in cost.
func genPromo(r *vh.Rand) Case {
	var c Case
	cost := []int{1, 5, 10, 20, 40}[r.Intn(5)]
	c.Cfg = conch.Cfg{TransferCost: cost, FutureNonce: 20, MaxByteSize: 1 << 20, BatchSize: r.Range(1, 4)}
	nSenders := r.Range(1, 2)
	total := 0
	var groups [][]TxnSpec
	for s := 1; s <= nSenders; s++ {
		base := int64(r.Intn(3))
		c.Accts = append(c.Accts, conch.Acct{Client: s, Nonce: base, Bal: 1 << 40})
		k := r.Range(2, 5) // parked future transactions
		var g []TxnSpec
		for n := base + 1 + int64(k); n >= base+1; n-- { // descending: ..., base+3, base+2, then base+1 last
			t := TxnSpec{Client: s, Nonce: n, Fee: uint64(r.Intn(3)), DateOff: int64(r.Range(-100, 100))}
			switch r.Intn(3) {
			case 0:
				t.Kind, t.To, t.Value = 0, nSenders+1, 1
			case 1:
				t.Kind, t.CostK = 1, cost
			default:
				t.Kind, t.CostK = 2, cost
			}
			g = append(g, t)
		}
		if r.Chance(1, 3) { // parked ones in random order, the current one still last
			p := r.Perm(len(g) - 1)
			g2 := make([]TxnSpec, 0, len(g))
			for _, i := range p {
				g2 = append(g2, g[i])
			}
			g = append(g2, g[len(g)-1])
		}
		total += len(g)
		groups = append(groups, g)
	}
	// interleave the groups keeping each group's order
	idx := make([]int, len(groups))
	for len(c.Txns) < total {
		gi := r.Intn(len(groups))
		if idx[gi] < len(groups[gi]) {
			c.Txns = append(c.Txns, groups[gi][idx[gi]])
			idx[gi]++
		}
	}
	for i := range c.Txns {
		c.Order = append(c.Order, i)
	}
	floor := 0
	c.Challenge = r.Chance(1, 4)
	if c.Challenge {
		floor = 100
	}
	if r.Chance(1, 2) {
		c.Cfg.SettingsPeriod = 1
	}
	j := r.Range(1, total+1)
	c.Cfg.MaxBlockCost = floor + j*cost + r.Range(-1, 1)
	if c.Cfg.MaxBlockCost < floor || c.Cfg.MaxBlockCost < 1 {
		c.Cfg.MaxBlockCost = floor + 1
	}
	return c
}

// genExempt: pools of fee-exempt contract calls (the branch of EstimateTransactionCostFee that
// returns before computing a fee) mixed with ordinary calls, equal costs, limit at j*c-1/j*c/j*c+1,
// fees on or off.
func genExempt(r *vh.Rand) Case {
	var c Case
	cost := []int{5, 20, 100}[r.Intn(3)]
	c.Cfg = conch.Cfg{TransferCost: cost, FutureNonce: 20, MaxByteSize: 1 << 20, BatchSize: r.Range(1, 4), Exempt: []string{"pour", "wait"},
		FeeEnabled: r.Bool(), MinFee: r.PickU64([]uint64{0, 2})}
	n := r.Range(2, 6)
	nc := r.Range(1, 3)
	next := map[int]int64{}
	for i := 1; i <= nc; i++ {
		c.Accts = append(c.Accts, conch.Acct{Client: i, Nonce: int64(r.Intn(2)), Bal: 1 << 40})
		next[i] = c.Accts[i-1].Nonce + 1
	}
	for i := 0; i < n; i++ {
		cl := r.Range(1, nc)
		t := TxnSpec{Client: cl, Nonce: next[cl], CostK: cost, DateOff: int64(r.Range(-100, 100))}
		next[cl]++
		if r.Chance(3, 4) {
			t.Kind, t.ExName = 7, r.Range(1, 2)
			t.Fee = r.PickU64([]uint64{0, 0, uint64(cost)})
		} else {
			t.Kind = 1
			t.Fee = r.PickU64([]uint64{uint64(cost), uint64(cost) + 1, 0})
		}
		c.Txns = append(c.Txns, t)
		c.Order = append(c.Order, i)
	}
	floor := 0
	if c.Cfg.FeeEnabled {
		floor = 100 // payFees
	}
	c.Cfg.MaxBlockCost = floor + r.Range(1, n)*cost + r.Range(-1, 1)
	return c
}

// genSettings: the owner of the miner contract sends update_settings transactions (the contract
// rewrites its cached GlobalNode) with fees enabled; some fees exceed the owner's balance, so the
// contract part succeeds and the transaction fails afterwards and is dropped; same-nonce competitors
// and followers then touch the same node in the same block. Ordinary calls of other clients around.
func genSettings(r *vh.Rand) Case {
	var c Case
	bal := r.PickU64([]uint64{500, 1000, 5000})
	c.Owner = 1
	c.Cfg = conch.Cfg{MaxBlockCost: 100000, TransferCost: 10, FutureNonce: 20, MaxByteSize: 1 << 20, BatchSize: r.Range(1, 3), FeeEnabled: true}
	base := int64(r.Intn(2))
	c.Accts = []conch.Acct{{Client: 1, Nonce: base, Bal: bal}, {Client: 2, Nonce: 0, Bal: 1 << 40}}
	n := r.Range(2, 5)
	nonce := base + 1
	for i := 0; i < n; i++ {
		t := TxnSpec{Client: 1, Nonce: nonce, Kind: 8, SetKey: r.Range(1, 2), SetVal: r.Intn(4), DateOff: int64(r.Range(-100, 100))}
		switch r.Intn(3) {
		case 0:
			t.Fee = bal + uint64(r.Range(1, 1000)) // contract succeeds, fee cannot be paid
		default:
			t.Fee = uint64(r.Range(100, 120))
		}
		if r.Chance(1, 2) {
			nonce++ // otherwise the next one competes for the same nonce
		}
		c.Txns = append(c.Txns, t)
	}
	for i, m := 0, r.Range(0, 2); i < m; i++ {
		c.Txns = append(c.Txns, TxnSpec{Client: 2, Nonce: int64(i + 1), Kind: 1, CostK: 5, Fee: 5})
	}
	if r.Bool() {
		c.Order = r.Perm(len(c.Txns))
	} else {
		for i := range c.Txns {
			c.Order = append(c.Order, i)
		}
	}
	return c
}

// genMinerFees: fees enabled with min_fee 0 or > 0, a funded (or empty) generator wallet and a pool
// transaction that registers the generator as a miner with a stake pool, so that the payFees built-in
// really distributes fees and rewards; ordinary fee-paying calls around it.
func genMinerFees(r *vh.Rand) Case {
	var c Case
	c.NoMinStake = r.Chance(3, 4)
	c.Cfg = conch.Cfg{MaxBlockCost: 100000, TransferCost: 10, FutureNonce: 20, MaxByteSize: 1 << 20, BatchSize: r.Range(1, 3),
		FeeEnabled: true, MinFee: r.PickU64([]uint64{0, 3, 50, 500})}
	c.Accts = []conch.Acct{{Client: 1, Nonce: 0, Bal: 1 << 40}, {Client: 2, Nonce: 0, Bal: 1 << 40},
		{Client: conch.MinerToken, Nonce: 0, Bal: r.PickU64([]uint64{0, 1 << 30, 1 << 30})}}
	fee := func(cost uint64) uint64 {
		f := cost
		if c.Cfg.MinFee > f {
			f = c.Cfg.MinFee
		}
		return f + uint64(r.Intn(3))
	}
	c.Txns = append(c.Txns, TxnSpec{Client: 1, Nonce: 1, Kind: 9, Fee: fee(100) + 100})
	for i, m := 0, r.Range(0, 3); i < m; i++ {
		c.Txns = append(c.Txns, TxnSpec{Client: 2, Nonce: int64(i + 1), Kind: 1 + r.Intn(2), CostK: 5, Fee: fee(5)})
	}
	if r.Chance(1, 3) {
		c.Order = r.Perm(len(c.Txns))
	} else {
		for i := range c.Txns {
			c.Order = append(c.Order, i)
		}
	}
	return c
}

func key(c Case) string {
	b, _ := json.Marshal(c)
	h := sha256.Sum256(b)
	return hex.EncodeToString(h[:8])
}

func main() {
	o := vh.ParseFlags()
	defer conch.Cleanup()
	conch.Setup()
	_ = config.Configuration()
	rep := vh.NewReport("blockgen", "C45", o)
	rep.Rule = "pools of 0-40 transactions over 2-8 senders (60% continue the sender's nonce, rest duplicate/gap/past/far-future/extreme nonces; " +
		"sends around the balance, script-contract calls with costs 1-20 succeeding or failing, unknown functions, non-contract addresses, built-in names, " +
		"creation dates inside/outside the tolerance, bad signatures, oversized values), iteration order as generated / by fee / shuffled, sometimes an entry twice; " +
		"cost limit at a prefix cost -1/0/+1; + 80 (800 thorough) pools whose later nonces are handed out first (parked as future, promoted by the current one, then processed by the currentTxns loop) with equal costs c and the limit at j*c-1/j*c/j*c+1; built-ins commit_settings_changes / generate_challenge on or off; + all ordered pools of length <= 2 (3 thorough) over 6 transaction shapes. " +
		"non-trivial = block holds at least one pool transaction and at least one pool entry was left out; distinct by input hash"
	cf := &vh.CasesFile{Imports: []string{"Base.Corr", "Model.BlockGen", "Corr.BlockGen"}, CaseType: "bgc_case", CheckFn: "bgc_check", Shard: 50}

	handle := func(c Case) {
		r := run(c)
		for k, n := range r.kinds {
			rep.CountN(k, n)
		}
		for _, s := range c.Txns {
			rep.Count(fmt.Sprintf("txn-kind-%d", s.Kind))
		}
		rep.CountN("pool-included", r.included)
		rep.CountN("pool-left-out", r.skipped)
		rep.Case(key(c), r.included > 0 && r.skipped > 0, c)
		// the block date is read from the clock inside generateBlock; creation dates were chosen relative to now0
		cf.Add(coqCase(c, r))
		rep.CaseInputs = append(rep.CaseInputs, c)
		for _, sig := range r.viol {
			keep := vh.ShrinkIdx(len(c.Order), func(keep []int) bool {
				c2 := c
				c2.Order = nil
				for _, i := range keep {
					c2.Order = append(c2.Order, c.Order[i])
				}
				r2 := run(c2)
				for _, s2 := range r2.viol {
					if s2 == sig {
						return true
					}
				}
				return false
			})
			c2 := c
			c2.Order = nil
			for _, i := range keep {
				c2.Order = append(c2.Order, c.Order[i])
			}
			rep.Violate("C45:"+sig, r.violDesc[sig], compact(c2))
		}
	}

	finish := func() {
		files, err := cf.Write(o.Out, "C45")
		if err != nil {
			panic(err)
		}
		rep.CaseFiles = files
		rep.ShardSize = 50
		rep.Write(o.Out)
	}

	var rc Case
	if o.LoadReplay(&rc) {
		handle(rc)
		finish()
		return
	}
	rnd := vh.NewRand(o.Seed)
	for i := 0; i < o.N(260, 3000); i++ {
		handle(genCase(rnd, 40))
	}
	// promoted future transactions against a tight budget (the currentTxns loop)
	handle(Case{Cfg: conch.Cfg{MaxBlockCost: 100, TransferCost: 40, FutureNonce: 20, MaxByteSize: 1 << 20, BatchSize: 2},
		Accts: []conch.Acct{{Client: 1, Nonce: 1, Bal: 1 << 40}},
		Txns: []TxnSpec{{Client: 1, Nonce: 4, Kind: 1, CostK: 40}, {Client: 1, Nonce: 3, Kind: 1, CostK: 40}, {Client: 1, Nonce: 2, Kind: 1, CostK: 40}},
		Order: []int{0, 1, 2}})
	for i := 0; i < o.N(80, 800); i++ {
		handle(genPromo(rnd))
	}
	// almost expired transactions with a previous block ahead of the local clock
	for _, sk := range []int64{5, 2, -3} {
		handle(Case{Cfg: conch.Cfg{MaxBlockCost: 1000, TransferCost: 10, FutureNonce: 20, MaxByteSize: 1 << 20, BatchSize: 2, PrevSkew: sk},
			Accts: []conch.Acct{{Client: 1, Nonce: 0, Bal: 1 << 40}, {Client: 2, Nonce: 0, Bal: 1 << 40}},
			Txns: []TxnSpec{{Client: 1, Nonce: 1, Kind: 1, CostK: 5, DateOff: -598}, {Client: 2, Nonce: 1, Kind: 1, CostK: 5, DateOff: 603}, {Client: 1, Nonce: 2, Kind: 1, CostK: 5, DateOff: -10}},
			Order: []int{0, 1, 2}})
	}
	for i := 0; i < o.N(40, 400); i++ {
		sk := rnd.Pick64([]int64{-5, 1, 3, 5, 9})
		base := sk
		if base < 0 {
			base = 0
		}
		cs := Case{Cfg: conch.Cfg{MaxBlockCost: 1000, TransferCost: 10, FutureNonce: 20, MaxByteSize: 1 << 20, BatchSize: rnd.Range(1, 3), PrevSkew: sk}}
		n := rnd.Range(2, 6)
		for k := 1; k <= n; k++ {
			cs.Accts = append(cs.Accts, conch.Acct{Client: k, Nonce: 0, Bal: 1 << 40})
			cs.Txns = append(cs.Txns, TxnSpec{Client: k, Nonce: 1, Kind: 1, CostK: 5,
				DateOff: base + rnd.Pick64([]int64{-600, -600, 600, 0}) + int64(rnd.Range(-3, 3))})
			cs.Order = append(cs.Order, k-1)
		}
		handle(cs)
	}
	// cached contract node rewritten by a transaction that fails after its contract part
	handle(Case{Owner: 1, Cfg: conch.Cfg{MaxBlockCost: 100000, TransferCost: 10, FutureNonce: 20, MaxByteSize: 1 << 20, BatchSize: 2, FeeEnabled: true},
		Accts: []conch.Acct{{Client: 1, Nonce: 1, Bal: 1000}},
		Txns:  []TxnSpec{{Client: 1, Nonce: 2, Kind: 8, SetKey: 1, SetVal: 0, Fee: 5000}, {Client: 1, Nonce: 2, Kind: 8, SetKey: 2, SetVal: 0, Fee: 100}},
		Order: []int{0, 1}})
	for i := 0; i < o.N(40, 400); i++ {
		handle(genSettings(rnd))
	}
	// payFees that really distributes: generator registered with a stake pool, min_fee 0 and > 0
	for i := 0; i < o.N(30, 300); i++ {
		handle(genMinerFees(rnd))
	}
	// fee-exempt contract calls against a tight budget, fees off and on
	for _, fe := range []bool{false, true} {
		floor := 0
		if fe {
			floor = 100
		}
		handle(Case{Cfg: conch.Cfg{MaxBlockCost: floor + 250, TransferCost: 10, FutureNonce: 20, MaxByteSize: 1 << 20, BatchSize: 2, Exempt: []string{"pour", "wait"}, FeeEnabled: fe},
			Accts: []conch.Acct{{Client: 1, Nonce: 0, Bal: 1 << 40}},
			Txns: []TxnSpec{{Client: 1, Nonce: 1, Kind: 7, ExName: 1, CostK: 100}, {Client: 1, Nonce: 2, Kind: 7, ExName: 1, CostK: 100}, {Client: 1, Nonce: 3, Kind: 7, ExName: 1, CostK: 100}},
			Order: []int{0, 1, 2}})
	}
	for i := 0; i < o.N(60, 600); i++ {
		handle(genExempt(rnd))
	}
	// exhaustive: every ordered pool of up to L entries over six shapes, two senders
	shapes := []TxnSpec{
		{Client: 1, Nonce: 1, Kind: 0, To: 2, Value: 10}, {Client: 1, Nonce: 2, Kind: 1, CostK: 5}, {Client: 1, Nonce: 3, Kind: 2, CostK: 5},
		{Client: 2, Nonce: 1, Kind: 1, CostK: 5}, {Client: 2, Nonce: 2, Kind: 0, To: 1, Value: 10}, {Client: 2, Nonce: 2, Kind: 1, CostK: 5, Fee: 3},
	}
	L := o.N(2, 3)
	var rec func(cur []int)
	rec = func(cur []int) {
		if len(cur) > 0 {
			handle(Case{Cfg: conch.Cfg{MaxBlockCost: 16, TransferCost: 5, FutureNonce: 10, MaxByteSize: 1 << 20, BatchSize: 2, SettingsPeriod: 1},
				Accts: []conch.Acct{{Client: 1, Bal: 100}}, Txns: shapes, Order: append([]int{}, cur...)})
		}
		if len(cur) == L {
			return
		}
		for i := range shapes {
			rec(append(cur, i))
		}
	}
	rec(nil)
	rep.Exhaustive = false
	rep.Note("real: generateBlock, txnIterHandler, txnProcessor, validateTransaction, checkForCurrent, buildInTxns, VerifyBlock, Block.Validate, ValidateTransactions (ed25519 signature of every transaction checked), EstimateTransactionCost, ComputeState/updateState over an in-memory MPT, storage contract for the built-ins; stubbed: redis pool store (in-memory, order given), network, BLS aggregation (not used with ed25519), timers")
	_ = strings.TrimSpace
	finish()
}
