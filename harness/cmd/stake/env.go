package main

// Shared environment: a chain state (in-memory MPT) with the storage and miner smart contracts
// configured, transactions executed on a per-transaction trie that is merged only on success
// (the way chain.updateState treats a failed smart-contract transaction).

import (
	"encoding/json"
	"fmt"
	"sync"
	"time"

	sci "0chain.net/chaincore/smartcontractinterface"

	cstate "0chain.net/chaincore/chain/state"
	"0chain.net/chaincore/state"
	"0chain.net/chaincore/transaction"
	"0chain.net/core/config"
	"0chain.net/smartcontract/minersc"
	"0chain.net/smartcontract/storagesc"
	"github.com/0chain/common/core/statecache"
	"github.com/0chain/common/core/util"
	"verifharness/sc"
)

const (
	ownerIdx = 9000 // contract owner id = hexID(ownerIdx)
)

var cfgOnce sync.Once

// setupConfig fills config.SmartContractConfig (viper) with the values the contracts read.
func setupConfig(killSlash float64, minLock time.Duration) {
	c := config.SmartContractConfig
	const p = "smart_contracts.storagesc."
	set := func(k string, v interface{}) { c.Set(p+k, v) }
	set("owner_id", hexID(ownerIdx))
	set("time_unit", "48h")
	set("min_stake", 0.0)
	set("min_stake_per_delegate", 0.0)
	set("max_stake", 20000.0)
	set("min_alloc_size", 1024)
	set("health_check_period", "1h")
	set("max_challenge_completion_rounds", 720)
	set("min_blobber_capacity", 1024)
	set("validator_reward", 0.025)
	set("blobber_slash", 0.1)
	set("cancellation_charge", 0.2)
	set("max_blobbers_per_allocation", 40)
	set("max_read_price", 100.0)
	set("min_write_price", 0.001)
	set("max_write_price", 100.0)
	set("max_file_size", 40000000000000)
	set("readpool.min_lock", 0.0)
	set("writepool.min_lock", 0.1)
	set("stakepool.min_lock_period", minLock.String())
	set("stakepool.kill_slash", killSlash)
	set("max_total_free_allocation", 10000.0)
	set("max_individual_free_allocation", 1000000.0)
	set("free_allocation_settings.data_shards", 4.0)
	set("free_allocation_settings.parity_shards", 2.0)
	set("free_allocation_settings.size", 2147483648.0)
	set("free_allocation_settings.read_price_range.min", 0.0)
	set("free_allocation_settings.read_price_range.max", 0.0)
	set("free_allocation_settings.write_price_range.min", 0.0)
	set("free_allocation_settings.write_price_range.max", 0.1)
	set("free_allocation_settings.read_pool_fraction", 0.0)
	set("challenge_enabled", true)
	set("challenge_generation_gap", 1)
	set("validators_per_challenge", 2)
	set("num_validators_rewarded", 10)
	set("max_blobber_select_for_challenge", 5)
	set("max_delegates", 200)
	set("max_charge", 1.0)
	set("block_reward.block_reward", 0.06)
	set("block_reward.block_reward_change_period", 125000000)
	set("block_reward.block_reward_change_ratio", 0.1)
	set("block_reward.qualifying_stake", 1.0)
	set("block_reward.gamma.alpha", 0.2)
	set("block_reward.gamma.a", 10.0)
	set("block_reward.gamma.b", 9.0)
	set("block_reward.zeta.i", 1.0)
	set("block_reward.zeta.k", 0.9)
	set("block_reward.zeta.mu", 0.2)
	set("block_reward.trigger_period", 30)
	c.Set("stakepool.min_lock_period", minLock.String())
}

type env struct {
	mpt   util.MerklePatriciaTrieI
	round int64
	ssc   sci.SmartContractInterface
	msc   sci.SmartContractInterface
}

func newEnv() *env {
	sc.Init()
	e := &env{mpt: sc.NewMPT(), round: 100}
	e.ssc = storagesc.NewStorageSmartContract()
	e.msc = minersc.NewMinerSmartContract()
	return e
}

type txnRes struct {
	Err       error
	Panic     string
	Resp      string
	Transfers []*state.Transfer
}

// exec runs f on a per-transaction state; the changes are merged only when f succeeds.
func (e *env) exec(txn *transaction.Transaction, f func(ctx *cstate.StateContext) (string, error)) (res txnRes) {
	tdb := util.NewLevelNodeDB(util.NewMemoryNodeDB(), e.mpt.GetNodeDB(), false)
	tmpt := util.NewMerklePatriciaTrie(tdb, e.mpt.GetVersion(), e.mpt.GetRoot(), statecache.NewEmpty())
	ctx := sc.NewCtx(tmpt, e.round, txn)
	func() {
		defer func() {
			if r := recover(); r != nil {
				res.Panic = fmt.Sprint(r)
			}
		}()
		res.Resp, res.Err = f(ctx)
	}()
	if res.Err == nil && res.Panic == "" {
		res.Transfers = ctx.GetTransfers()
		if err := e.mpt.MergeMPTChanges(tmpt); err != nil {
			panic(err)
		}
	}
	return res
}

// must runs a setup step that has to succeed.
func (e *env) must(f func(ctx *cstate.StateContext) error) {
	r := e.exec(sc.Txn(hexID(1), hexID(ownerIdx), hexID(ownerIdx), 0, 1), func(ctx *cstate.StateContext) (string, error) {
		return "", f(ctx)
	})
	if r.Err != nil || r.Panic != "" {
		panic(fmt.Sprint("setup failed: ", r.Err, r.Panic))
	}
}

// view runs a read-only function on the current state.
func (e *env) view(f func(ctx *cstate.StateContext)) {
	// a fresh trie object over the same nodes: the StateContext caches cacheable values (MinerNode ...)
	// in the trie's transaction cache, which must not survive a merge
	m := util.NewMerklePatriciaTrie(e.mpt.GetNodeDB(), e.mpt.GetVersion(), e.mpt.GetRoot(), statecache.NewEmpty())
	f(sc.NewCtx(m, e.round, nil))
}

// scratch runs f on a throw-away per-transaction state (writes are discarded).
func (e *env) scratch(f func(ctx *cstate.StateContext)) {
	tdb := util.NewLevelNodeDB(util.NewMemoryNodeDB(), e.mpt.GetNodeDB(), false)
	tmpt := util.NewMerklePatriciaTrie(tdb, e.mpt.GetVersion(), e.mpt.GetRoot(), statecache.NewEmpty())
	f(sc.NewCtx(tmpt, e.round, nil))
}

func jsonOf(v interface{}) []byte {
	b, err := json.Marshal(v)
	if err != nil {
		panic(err)
	}
	return b
}
