package main

// C32: batched signature checks agree with individual checks. Items are described symbolically
// (which keys, which hash points, which added multiples of which points), realised with real
// herumi points and run through
//   - encryption.BLS0ChainAggregateSignatureScheme (Aggregate/Verify) for every batch size,
//   - chain.VerifyTickets (same message, batch = all tickets),
//   - miner.ValidateTransactions (real transactions whose hashes are the messages).

import (
	"context"
	"fmt"
	"strings"
	"sync"

	"0chain.net/chaincore/block"
	"0chain.net/chaincore/chain"
	"0chain.net/chaincore/client"
	"0chain.net/chaincore/node"
	"0chain.net/chaincore/transaction"
	"0chain.net/core/common"
	"0chain.net/core/encryption"
	"0chain.net/miner"
	"github.com/herumi/bls-go-binary/bls"
	"github.com/spf13/viper"
	"verifharness/vh"
)

type aggItem struct {
	Key sscalar `json:"key"`
	Msg int     `json:"msg"`
	Sig spoint  `json:"sig"`
}

type c32Input struct {
	item
	NKeys   int       `json:"nkeys"`
	BS      int       `json:"bs"`
	Pattern string    `json:"pattern"`
	Items   []aggItem `json:"items"`
	// Order: the order in which Aggregate is called (entry Order[k] with idx Order[k]); nil = ascending.
	// Concurrent: one goroutine per batch (as ValidateTransactions does), each in the given order.
	Order      []int `json:"order,omitempty"`
	Concurrent bool  `json:"concurrent,omitempty"`
}

var (
	chainOnce sync.Once
	theChain  *chain.Chain
	theMiner  *miner.Chain
)

func getChain() (*chain.Chain, *miner.Chain) {
	chainOnce.Do(func() {
		viper.Set("server_chain.client.signature_scheme", encryption.SignatureSchemeBls0chain)
		viper.Set("server_chain.block.validation.batch_size", 2)
		theChain = chain.Provider().(*chain.Chain)
		theMiner = miner.VerifHashNewChain(theChain)
	})
	return theChain, theMiner
}

func setBatchSize(c *chain.Chain, bs int) {
	viper.Set("server_chain.block.validation.batch_size", bs)
	if err := c.ChainConfig.FromViper(); err != nil {
		panic(err)
	}
}

// verdict codes shared with Corr/SigAlg.v: 0 accept, 1 reject, 2 panic.
// code: Verify's own answer (ok && err == nil); callerCode: what VerifyTickets / ValidateTransactions
// make of it (they look at err only and ignore the bool).
func aggDirect(w *world, items []aggItem, bs int) (code, callerCode int) {
	return aggDirectOrder(w, items, bs, nil, false)
}

func aggDirectOrder(w *world, items []aggItem, bs int, order []int, concurrent bool) (code, callerCode int) {
	if len(order) != len(items) {
		order = make([]int, len(items))
		for i := range order {
			order[i] = i
		}
	}
	pn := safely(func() {
		agg := encryption.GetAggregateSignatureScheme(encryption.SignatureSchemeBls0chain, len(items), bs)
		// realise everything first (scheme objects, hex strings) so that goroutines only call Aggregate
		type call struct {
			ss        encryption.SignatureScheme
			idx       int
			sig, hash string
		}
		var calls []call
		for _, i := range order {
			ss, err := w.verifierShared(items[i].Key)
			if err != nil {
				code, callerCode = 1, 1
				return
			}
			calls = append(calls, call{ss, i, w.sigHex(items[i].Sig), w.msg(items[i].Msg)})
		}
		failed := false
		if concurrent && bs > 0 {
			var wg sync.WaitGroup
			var mu sync.Mutex
			byBatch := map[int][]call{}
			for _, c := range calls {
				byBatch[c.idx/bs] = append(byBatch[c.idx/bs], c)
			}
			var pnc string
			for _, cs := range byBatch {
				wg.Add(1)
				go func(cs []call) {
					defer wg.Done()
					p := safely(func() {
						for _, c := range cs {
							if err := agg.Aggregate(c.ss, c.idx, c.sig, c.hash); err != nil {
								mu.Lock()
								failed = true
								mu.Unlock()
							}
						}
					})
					if p != "" {
						mu.Lock()
						pnc = p
						mu.Unlock()
					}
				}(cs)
			}
			wg.Wait()
			if pnc != "" {
				panic(pnc)
			}
		} else {
			for _, c := range calls {
				if err := agg.Aggregate(c.ss, c.idx, c.sig, c.hash); err != nil {
					failed = true
					break
				}
			}
		}
		if failed {
			code, callerCode = 1, 1
			return
		}
		ok, err := agg.Verify()
		code, callerCode = 1, 1
		if ok && err == nil {
			code = 0
		}
		if err == nil {
			callerCode = 0
		}
	})
	if pn != "" {
		return 2, 2
	}
	return code, callerCode
}

func individual(w *world, items []aggItem) []bool {
	out := make([]bool, len(items))
	for i, it := range items {
		ss, err := w.verifier(it.Key)
		if err != nil {
			continue
		}
		ok, _, _ := verifyNoPanic(ss, w.sigHex(it.Sig), w.msg(it.Msg))
		out[i] = ok
	}
	return out
}

// sumsEqual: sum of the signature points == sum of key_i . H(m_i), computed with real G1
// arithmetic (independent of the Coq model and of the pairing code).
func sumsEqual(w *world, items []aggItem) bool {
	var a, b bls.G1
	a.Clear()
	b.Clear()
	for _, it := range items {
		s := w.point(it.Sig)
		bls.G1Add(&a, &a, &s)
		p := w.point(spoint{{it.Key, it.Msg}})
		bls.G1Add(&b, &b, &p)
	}
	return a.IsEqual(&b)
}

// tickets path: all items sign the same block hash; verifiers are registered miners of the
// current magic block.
// ticketPool: node objects (and their signature scheme objects) that persist across the calls of a history
type ticketPool struct {
	pool  *node.Pool
	nodes map[string]*node.Node
}

func aggTickets(w *world, items []aggItem) (code int, ran bool) { return aggTicketsIn(w, items, nil) }

func aggTicketsIn(w *world, items []aggItem, tp *ticketPool) (code int, ran bool) {
	if len(items) == 0 {
		return 0, false
	}
	m := items[0].Msg
	for _, it := range items {
		if it.Msg != m {
			return 0, false
		}
	}
	c, _ := getChain()
	mb := block.NewMagicBlock()
	mb.Miners = node.NewPool(node.NodeTypeMiner)
	mb.Sharders = node.NewPool(node.NodeTypeSharder)
	if tp != nil {
		if tp.pool == nil {
			tp.pool, tp.nodes = mb.Miners, map[string]*node.Node{}
		}
		mb.Miners = tp.pool
	}
	var bvts []*block.VerificationTicket
	local := map[string]*node.Node{}
	for _, it := range items {
		pk := w.pubHex(it.Key)
		var nd *node.Node
		if tp != nil {
			nd = tp.nodes[pk]
		}
		if nd == nil {
			nd = local[pk] // several tickets of one verifier in the same call share the node
		}
		if nd == nil {
			nd = node.Provider()
			nd.Type = node.NodeTypeMiner
			nd.PublicKey = pk
			if err := mb.Miners.AddNode(nd); err != nil {
				return 0, false
			}
			if tp != nil {
				tp.nodes[pk] = nd
			}
			local[pk] = nd
		}
		bvts = append(bvts, &block.VerificationTicket{VerifierID: nd.GetKey(), Signature: w.sigHex(it.Sig)})
	}
	c.SetMagicBlock(mb)
	var err error
	pn := safely(func() { err = c.VerifyTickets(context.Background(), w.msg(m), bvts, 1) })
	switch {
	case pn != "":
		return 2, true
	case err == nil:
		return 0, true
	}
	return 1, true
}

// transactions path: message i is the hash of a real transaction whose client key is the item's key.
func aggTxns(w *world, items []aggItem, bs int, r *vh.Rand) (code int, ran bool) {
	return aggTxnsIn(w, items, bs, r, nil)
}

// txns (optional): the transaction of each message index, kept across the calls of a history so that
// the same signer/hash pairs come back (the client cache keeps one scheme object per client id)
func aggTxnsIn(w *world, items []aggItem, bs int, r *vh.Rand, txns map[int]*transaction.Transaction) (code int, ran bool) {
	seenMsg := map[int]bool{}
	for _, it := range items {
		if seenMsg[it.Msg] {
			return 0, false // one transaction per message
		}
		seenMsg[it.Msg] = true
	}
	c, mc := getChain()
	setBatchSize(c, bs)
	client.SetClientSignatureScheme(encryption.SignatureSchemeBls0chain)
	now := common.Timestamp(1700000000)
	b := &block.Block{}
	b.Round = 1
	b.CreationDate = now
	for _, it := range items {
		if old, ok := txns[it.Msg]; ok {
			if old.PublicKey != w.pubHex(it.Key) {
				return 0, false
			}
			b.Txns = append(b.Txns, old.Clone())
			continue
		}
		t := &transaction.Transaction{}
		t.Version = "1.0"
		t.PublicKey = w.pubHex(it.Key)
		t.ToClientID = randHash(r)
		t.CreationDate = now
		t.Nonce = 1
		t.Value = 1
		t.TransactionType = transaction.TxnTypeSend
		if err := t.ComputeProperties(); err != nil {
			return 0, false
		}
		t.Hash = t.ComputeHash()
		w.msgs[it.Msg] = t.Hash
		t.OutputHash = t.ComputeOutputHash()
		if txns != nil {
			txns[it.Msg] = t.Clone()
		}
		b.Txns = append(b.Txns, t)
	}
	for i, it := range items {
		b.Txns[i].Signature = w.sigHex(it.Sig)
	}
	var err error
	pn := safely(func() { err = mc.ValidateTransactions(context.Background(), b) })
	switch {
	case pn != "":
		return 2, true
	case err == nil:
		return 0, true
	}
	return 1, true
}

func (in c32Input) coq(n int, bs int, indiv []bool, code int) string {
	its := make([]string, len(in.Items))
	for i, it := range in.Items {
		its[i] = fmt.Sprintf("{| sci_key := %s; sci_msg := %s; sci_sig := %s |}", it.Key.coq(), vh.Nat(it.Msg), it.Sig.coq())
	}
	bl := make([]string, len(indiv))
	for i, b := range indiv {
		bl[i] = vh.Bool(b)
	}
	return fmt.Sprintf("(ScAgg %s %s %s %s %s)", vh.Nat(n), vh.Nat(bs), vh.List(its), vh.List(bl), vh.Nat(code))
}

func dim(items []aggItem) int {
	n := 0
	for _, it := range items {
		if it.Msg > n {
			n = it.Msg
		}
		if m := it.Sig.maxIdx(); m > n {
			n = m
		}
	}
	return n + 1
}

type histCall struct {
	BS      int       `json:"bs"`
	Pattern string    `json:"pattern"`
	Items   []aggItem `json:"items"`
}

type c32Hist struct {
	item
	NKeys int        `json:"nkeys"`
	Calls []histCall `json:"calls"`
}

// genHist: the same signers and hashes come back call after call: honest sets, re-checks of the same
// set, singletons, and singletons carrying the SUM of an earlier honest set.
func genHist(h *c32Hist, r *vh.Rand) {
	h.NKeys = 4
	same := r.Chance(2, 3) // one hash for everybody (tickets) or one hash per signer (transactions)
	msgOf := func(k int) int {
		if same {
			return 0
		}
		return k
	}
	honest := func(keys []int) []aggItem {
		var its []aggItem
		for _, k := range keys {
			its = append(its, aggItem{key(k), msgOf(k), genuine(k, msgOf(k))})
		}
		return its
	}
	bsFor := func(n int) int { return []int{1, 2, n, n + 3, 64}[r.Intn(5)] }
	var lastSet []int
	ncalls := r.Range(2, 7)
	for c := 0; c < ncalls; c++ {
		var call histCall
		switch x := r.Intn(10); {
		case x < 4 || lastSet == nil: // an honest set led by some signer
			p := r.Perm(h.NKeys)
			lastSet = p[:r.Range(2, h.NKeys)]
			call = histCall{Pattern: "honest-set", Items: honest(lastSet)}
		case x < 6: // the same set again
			call = histCall{Pattern: "recheck", Items: honest(lastSet)}
		case x < 7: // the leader alone, honestly
			call = histCall{Pattern: "leader-alone", Items: honest(lastSet[:1])}
		case x < 9: // the leader alone with the sum of the earlier set's signatures
			var sum spoint
			for _, k := range lastSet {
				sum = append(sum, genuine(k, msgOf(k))...)
			}
			call = histCall{Pattern: "leader-with-sum-of-set", Items: []aggItem{{key(lastSet[0]), msgOf(lastSet[0]), sum}}}
		default: // one corrupted signature in the set
			its := honest(lastSet)
			i := r.Intn(len(its))
			its[i].Sig = append(its[i].Sig, pterm{sscalar{{int64(r.Range(1, 99)), -1}}, 20})
			call = histCall{Pattern: "one-corrupted", Items: its}
		}
		call.BS = bsFor(len(call.Items))
		h.Calls = append(h.Calls, call)
	}
}

// subInput keeps the items with the given (ascending) indices and the relative call order among them.
func subInput(in c32Input, keep []int) c32Input {
	in2 := in
	in2.Items = nil
	pos := map[int]int{}
	for k, i := range keep {
		pos[i] = k
		in2.Items = append(in2.Items, in.Items[i])
	}
	in2.Order = nil
	if len(in.Order) == len(in.Items) {
		for _, i := range in.Order {
			if k, ok := pos[i]; ok {
				in2.Order = append(in2.Order, k)
			}
		}
	}
	return in2
}

func genAgg(in *c32Input, r *vh.Rand) {
	in.NKeys = 4
	patterns := []string{"none", "none", "single", "foreign-key", "cancel2", "cancel2", "cancel3", "swap", "rogue", "dup-item", "wrong-msg",
		"zero-neg-sum", "zero-neg-sum", "zero-arbitrary", "zero-single", "off-by-point",
		"single", "single", "multi-single",
		"dupv-valid-then-other-block", "dupv-valid-then-other-key", "dupv-valid-then-padding", "dupv-invalid-then-valid", "dupv-all-valid"}
	in.Pattern = patterns[r.Intn(len(patterns))]
	n := r.Range(1, 12)
	sameMsg := r.Chance(1, 3)
	if in.Pattern == "rogue" || strings.HasPrefix(in.Pattern, "dupv-") {
		sameMsg = true // tickets: every verifier signs the same block hash
	}
	if n < 3 && (in.Pattern == "cancel3") {
		n = 3
	}
	if in.Pattern == "zero-single" {
		n = 1
	}
	if n < 2 && (in.Pattern == "cancel2" || in.Pattern == "swap" || in.Pattern == "rogue" || in.Pattern == "zero-neg-sum" || in.Pattern == "zero-arbitrary") {
		n = 2
	}
	if sameMsg && n > in.NKeys {
		n = in.NKeys
	}
	in.Items = nil
	perm := r.Perm(in.NKeys)
	for i := 0; i < n; i++ {
		k := r.Intn(in.NKeys)
		m := i
		if sameMsg {
			k, m = perm[i%in.NKeys], 0
		}
		in.Items = append(in.Items, aggItem{key(k), m, genuine(k, m)})
	}
	c := int64(r.Range(1, 1000))
	d := func(cc int64) pterm { return pterm{sscalar{{cc, -1}}, 20 + r.Intn(5)} }
	i, j, k := 0, 1%n, 2%n
	if n >= 2 {
		p := r.Perm(n)
		i, j, k = p[0], p[1], p[2%n]
	}
	switch in.Pattern {
	case "single":
		in.Items[i].Sig = append(in.Items[i].Sig, d(c))
	case "multi-single":
		// several independently corrupted entries (different foreign points: nothing can cancel)
		for x, idx := range r.Perm(n) {
			if x >= 3 {
				break
			}
			in.Items[idx].Sig = append(in.Items[idx].Sig, pterm{sscalar{{c + int64(x), -1}}, 30 + x})
		}
	case "foreign-key":
		kk := (in.Items[i].Key[0].K + 1) % in.NKeys
		in.Items[i].Sig = genuine(kk, in.Items[i].Msg)
	case "wrong-msg":
		in.Items[i].Sig = spoint{{in.Items[i].Key, 15}}
	case "cancel2":
		dd := d(c)
		in.Items[i].Sig = append(in.Items[i].Sig, dd)
		in.Items[j].Sig = append(in.Items[j].Sig, pterm{sscalar{{-c, -1}}, dd.P})
	case "cancel3":
		d1, d2 := d(c), d(c+7)
		in.Items[i].Sig = append(in.Items[i].Sig, d1)
		in.Items[j].Sig = append(in.Items[j].Sig, d2)
		in.Items[k].Sig = append(in.Items[k].Sig, pterm{sscalar{{-c, -1}}, d1.P}, pterm{sscalar{{-(c + 7), -1}}, d2.P})
	case "swap":
		in.Items[i].Sig, in.Items[j].Sig = in.Items[j].Sig, in.Items[i].Sig
	case "rogue":
		// victim key v contributes an arbitrary point; attacker key a - v, signature a.H - that point
		v, a := in.Items[0].Key[0].K, in.Items[1].Key[0].K
		in.Items[0].Sig = spoint{{sscalar{{c, -1}}, 0}}
		in.Items[1].Key = sscalar{{1, a}, {-1, v}}
		in.Items[1].Sig = spoint{{key(a), 0}, {sscalar{{-c, -1}}, 0}}
		in.Items = in.Items[:2]
	case "dup-item":
		in.Items = append(in.Items, in.Items[i])
	case "dupv-valid-then-other-block", "dupv-valid-then-other-key", "dupv-valid-then-padding", "dupv-invalid-then-valid", "dupv-all-valid":
		// the same verifier appears again later in the ticket list
		v := in.Items[i]
		kk := v.Key[0].K
		var bad spoint
		switch in.Pattern {
		case "dupv-valid-then-other-block", "dupv-invalid-then-valid":
			bad = spoint{{key(kk), 15}} // the verifier's signature over another block
		case "dupv-valid-then-other-key":
			bad = genuine((kk+1)%in.NKeys, v.Msg)
		case "dupv-valid-then-padding":
			bad = spoint{d(c)}
		}
		copies := r.Range(1, 3)
		switch in.Pattern {
		case "dupv-all-valid":
			for x := 0; x < copies; x++ {
				in.Items = append(in.Items, v)
			}
		case "dupv-invalid-then-valid":
			in.Items[i].Sig = bad
			in.Items = append(in.Items, v)
		default:
			for x := 0; x < copies; x++ {
				in.Items = append(in.Items, aggItem{v.Key, v.Msg, bad})
			}
		}
	case "zero-neg-sum":
		// one forged signature = minus the sum of all others: the aggregate is the identity of G1
		var neg spoint
		for x, it := range in.Items {
			if x == i {
				continue
			}
			for _, t := range it.Sig {
				var ns sscalar
				for _, st := range t.S {
					ns = append(ns, sterm{-st.C, st.K})
				}
				neg = append(neg, pterm{ns, t.P})
			}
		}
		in.Items[i].Sig = neg
	case "zero-arbitrary":
		// nobody signed: arbitrary points that sum to the identity
		var neg spoint
		for x := range in.Items {
			if x == i {
				continue
			}
			t := d(c + int64(x))
			in.Items[x].Sig = spoint{t}
			neg = append(neg, pterm{sscalar{{-(c + int64(x)), -1}}, t.P})
		}
		in.Items[i].Sig = neg
	case "zero-single":
		in.Items[0].Sig = spoint{} // the identity itself
	case "off-by-point":
		// errors that do NOT cancel: sigma_i + d, sigma_j - 2d
		dd := d(c)
		in.Items[i].Sig = append(in.Items[i].Sig, dd)
		if n >= 2 {
			in.Items[j].Sig = append(in.Items[j].Sig, pterm{sscalar{{-2 * c, -1}}, dd.P})
		}
	}
	n = len(in.Items)
	in.BS = []int{1, 2, 3, 5, n, n + 3, 64}[r.Intn(7)]
	if r.Chance(1, 2) {
		in.BS = r.Range(1, n+1)
	}
	// order of the Aggregate calls: ascending, descending, random; sometimes one goroutine per batch
	switch r.Intn(5) {
	case 0, 1:
		in.Order = nil
	case 2:
		in.Order = make([]int, n)
		for x := range in.Order {
			in.Order[x] = n - 1 - x
		}
	default:
		in.Order = r.Perm(n)
	}
	in.Concurrent = r.Chance(1, 4)
}

func runC32(o vh.Opts) {
	initEnv()
	rep := vh.NewReport("hash", "C32", o)
	rep.Rule = "1-12 signatures over 4 keys, distinct messages (transaction batches) or one message (tickets), batch sizes 1..n+1 and 64; Aggregate called in ascending, descending or random index order, sometimes one goroutine per batch; " +
		"corruption patterns: none, one corrupted, foreign key, wrong message, two and three cancelling perturbations, swapped signatures, rogue key, " +
		"repeated item, repeated verifier in a ticket set (first valid then signed over another block / by another key / padding; first invalid then valid; all valid), non-cancelling pair, signatures summing to the identity (one = minus the sum of the others; arbitrary points; the identity alone); " +
		"Verify judged both by its bool and by err only (what the callers look at); plus histories of 2-7 verifications in sequence over the SAME " +
		"long-lived scheme objects / node pool / client cache (honest set, re-check, leader alone, leader alone carrying the sum of the set, one corrupted), " +
		"each call compared with the individual checks and with the same call on fresh objects; each run on the real aggregate scheme and, where the shape allows, on chain.VerifyTickets and miner.ValidateTransactions; " +
		"individual Verify for every item. Non-trivial = at least two items and at least one corrupted signature or a batch split (batch size < n); distinct by the symbolic item list"
	cf := &vh.CasesFile{Imports: []string{"Base.Corr", "Model.SigAlg", "Corr.SigAlg"}, CaseType: "sc_case", CheckFn: "sc_check"}
	addCase := func(term string, in interface{}) {
		cf.Add(term)
		rep.CaseInputs = append(rep.CaseInputs, in)
	}

	// evaluate returns the first failing oracle signature ("" if none)
	evaluate := func(in c32Input, record bool, toCoq bool) string {
		w := newWorld(in.rand(), in.NKeys)
		w.msgs = map[int]string{}
		fail := ""
		indiv := individual(w, in.Items)
		allValid := true
		for _, v := range indiv {
			allValid = allValid && v
		}
		judge := func(path string, code int) {
			if record {
				rep.Count(fmt.Sprintf("%s-%s-%d", path, in.Pattern, code))
			}
			if fail != "" {
				return
			}
			switch {
			case code == 2:
				fail = "C32:panic"
			case code == 0 && !allValid:
				if sumsEqual(w, in.Items) {
					fail = "C32:cancelling-forgery-accepted"
				} else {
					fail = "C32:invalid-batch-accepted"
				}
			case code == 1 && allValid:
				fail = "C32:valid-batch-rejected"
			}
		}
		n := dim(in.Items)
		code, callerCode := aggDirectOrder(w, in.Items, in.BS, in.Order, in.Concurrent)
		judge("direct", code)
		judge("direct-err-only", callerCode)
		if code != callerCode {
			if record {
				rep.Count("verify-bool-and-err-disagree")
			}
			if fail == "" && code == 1 && callerCode == 0 {
				// (false, nil): the callers, which look at err only, take a rejected batch for verified
				fail = "C32:verify-false-without-error"
			}
		}
		if toCoq {
			addCase(in.coq(n, in.BS, indiv, code), in)
			addCase(in.coq(n, in.BS, indiv, callerCode), in)
		}
		if tc, ran := aggTickets(w, in.Items); ran {
			judge("tickets", tc)
			if toCoq {
				addCase(in.coq(n, len(in.Items), indiv, tc), in)
			}
		}
		// the transactions path re-labels the messages with real transaction hashes
		w2 := newWorld(in.rand(), in.NKeys)
		w2.msgs = map[int]string{}
		if tc, ran := aggTxns(w2, in.Items, in.BS, in.rand().Fork()); ran {
			indiv2 := individual(w2, in.Items)
			same := len(indiv2) == len(indiv)
			for i := range indiv2 {
				same = same && indiv2[i] == indiv[i]
			}
			if !same && fail == "" {
				fail = "C32:individual-results-depend-on-message-labels"
			}
			judge("txns", tc)
			if toCoq {
				addCase(in.coq(n, in.BS, indiv2, tc), in)
			}
		}
		return fail
	}

	handle := func(in c32Input, toCoq bool) {
		fail := evaluate(in, true, toCoq)
		corrupted := in.Pattern != "none" && in.Pattern != "dup-item"
		rep.Case(fmt.Sprintf("%v/%d/%v/%v", in.Items, in.BS, in.Order, in.Concurrent), len(in.Items) >= 2 && (corrupted || in.BS < len(in.Items)), in)
		if fail != "" {
			keep := vh.ShrinkIdx(len(in.Items), func(keep []int) bool {
				in2 := subInput(in, keep)
				return len(in2.Items) > 0 && evaluate(in2, false, false) == fail
			})
			in2 := subInput(in, keep)
			rep.Violate(fail, fmt.Sprintf("aggregate verification (%s, batch size %d, call order %v, concurrent %v) disagrees with the individual checks", in.Pattern, in.BS, in2.Order, in2.Concurrent), in2)
		}
	}

	// ---- histories: several verifications in sequence over the SAME long-lived scheme objects ----
	// returns the first failing signature and the index of the failing call
	runHistory := func(h c32Hist, record, toCoq bool) (string, int) {
		shared := newWorld(h.rand(), h.NKeys)
		shared.msgs, shared.schemes = map[int]string{}, map[string]*encryption.BLS0ChainScheme{}
		sharedTx := newWorld(h.rand(), h.NKeys)
		sharedTx.msgs = map[int]string{}
		tp := &ticketPool{}
		txns := map[int]*transaction.Transaction{}
		for ci, call := range h.Calls {
			fresh := newWorld(h.rand(), h.NKeys) // same keys and messages, new objects
			fresh.msgs = map[int]string{}
			indiv := individual(fresh, call.Items)
			allValid := true
			for _, v := range indiv {
				allValid = allValid && v
			}
			judge := func(path string, code, freshCode int) string {
				if record {
					rep.Count(fmt.Sprintf("history-%s-call%d-%d", path, min(ci, 3), code))
				}
				switch {
				case code != freshCode:
					return "C32:history-dependent-verdict"
				case code == 2:
					return "C32:panic"
				case code == 0 && !allValid && !sumsEqual(fresh, call.Items):
					return "C32:invalid-batch-accepted"
				case code == 1 && allValid:
					return "C32:valid-batch-rejected"
				}
				return ""
			}
			n := dim(call.Items)
			in := c32Input{item: h.item, NKeys: h.NKeys, BS: call.BS, Pattern: call.Pattern, Items: call.Items}
			code, callerCode := aggDirect(shared, call.Items, call.BS)
			fcode, fcaller := aggDirect(fresh, call.Items, call.BS)
			if toCoq {
				addCase(in.coq(n, call.BS, indiv, code), h)
			}
			if f := judge("direct", code, fcode); f != "" {
				return f, ci
			}
			if f := judge("direct-err-only", callerCode, fcaller); f != "" {
				return f, ci
			}
			if tc, ran := aggTicketsIn(shared, call.Items, tp); ran {
				ftc, _ := aggTickets(fresh, call.Items)
				if toCoq {
					addCase(in.coq(n, len(call.Items), indiv, tc), h)
				}
				if f := judge("tickets", tc, ftc); f != "" {
					return f, ci
				}
			}
			if tc, ran := aggTxnsIn(sharedTx, call.Items, call.BS, h.rand().Fork(), txns); ran {
				// fresh run of the same transactions: rebuild the same hashes in a world of its own
				fw := newWorld(h.rand(), h.NKeys)
				fw.msgs = map[int]string{}
				for k, v := range sharedTx.msgs {
					fw.msgs[k] = v
				}
				indiv2 := individual(fw, call.Items)
				ok2 := true
				for _, v := range indiv2 {
					ok2 = ok2 && v
				}
				if record {
					rep.Count(fmt.Sprintf("history-txns-call%d-%d", min(ci, 3), tc))
				}
				if toCoq {
					addCase(in.coq(n, call.BS, indiv2, tc), h)
				}
				switch {
				case tc == 2:
					return "C32:panic", ci
				case tc == 0 && !ok2 && !sumsEqual(fw, call.Items):
					return "C32:invalid-batch-accepted", ci
				case tc == 1 && ok2:
					return "C32:valid-batch-rejected", ci
				}
			}
		}
		return "", -1
	}

	handleHist := func(h c32Hist, toCoq bool) {
		fail, at := runHistory(h, true, toCoq)
		rep.Case(fmt.Sprintf("hist/%d/%d", h.Seed, h.Index), len(h.Calls) >= 2, h)
		if fail != "" {
			keep := vh.ShrinkIdx(len(h.Calls), func(keep []int) bool {
				h2 := h
				h2.Calls = nil
				for _, i := range keep {
					h2.Calls = append(h2.Calls, h.Calls[i])
				}
				f2, _ := runHistory(h2, false, false)
				return f2 == fail
			})
			h2 := h
			h2.Calls = nil
			for _, i := range keep {
				h2.Calls = append(h2.Calls, h.Calls[i])
			}
			rep.Violate(fail, fmt.Sprintf("call %d of a sequence of aggregate verifications over the same signature-scheme objects disagrees with the individual checks / with the same call on fresh objects", at), h2)
		}
	}

	var rh c32Hist
	if o.Replay != "" && o.LoadReplay(&rh) && len(rh.Calls) > 0 {
		handleHist(rh, true)
		files, err := cf.Write(o.Out, "C32")
		if err != nil {
			panic(err)
		}
		rep.CaseFiles = files
		rep.ShardSize = 400
		rep.Write(o.Out)
		return
	}
	var rin c32Input
	if o.LoadReplay(&rin) {
		handle(rin, true)
	} else {
		nh := o.N(40, 600)
		for i := 0; i < nh; i++ {
			h := c32Hist{item: item{Prop: "C32", Stream: "history", Seed: o.Seed, Index: i}}
			genHist(&h, h.rand().Fork())
			handleHist(h, i < o.N(25, 120))
		}
		n := o.N(150, 3000)
		coqN := o.N(120, 500)
		for i := 0; i < n; i++ {
			in := c32Input{item: item{Prop: "C32", Stream: "agg", Seed: o.Seed, Index: i}}
			genAgg(&in, in.rand().Fork())
			handle(in, i < coqN)
		}
		// edge: batch size 0 and the empty batch make the constructor / Verify panic
		for _, e := range []struct{ n, bs int }{{1, 0}, {0, 1}, {0, 0}} {
			pn := safely(func() {
				agg := encryption.NewBLS0ChainAggregateSignature(e.n, e.bs)
				_, _ = agg.Verify()
			})
			if pn != "" {
				rep.Count(fmt.Sprintf("edge-total-%d-batch-%d-panics", e.n, e.bs))
			}
		}
	}
	files, err := cf.Write(o.Out, "C32")
	if err != nil {
		panic(err)
	}
	rep.CaseFiles = files
	rep.ShardSize = 400
	rep.Write(o.Out)
}
