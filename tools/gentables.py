#!/usr/bin/env python3
"""Regenerates the tables of DESIGN.md §9 (between the markers) from known_findings.json and seeded/*/meta.json."""
import json, glob, os, re, subprocess
ROOT='/verif'
k=json.load(open(ROOT+'/known_findings.json'))['findings']
out=[]
out.append("### 9.1 Genuine defects repaired in /repo (`fix:` commits)\n")
out.append("| property | commit | what failed (signature) |\n|---|---|---|")
for f in k:
    if f.get('kind')=='fixed':
        out.append("| %s | %s | %s (`%s`) |"%(f['property'],f.get('commit',''),re.sub(r'^fixed: property=\S+ \S+ ','',f['what']),f['signature']))
out.append("\n### 9.2 Known findings (genuine defects recorded, not repaired)\n")
out.append("| property | signature | what fails / why not repaired |\n|---|---|---|")
n44=0
for f in k:
    if f.get('kind','known')=='known':
        if f['property']=='C44':
            n44+=1; continue
        out.append("| %s | `%s` | %s |"%(f['property'],f['signature'],f['what']))
out.append("| C44 | %d signatures `C44:<Type>.<field>:<methodA>/<methodB>` | unsynchronised accesses in Round.Clone / Block.Clone / Block.PrevBlock / blockState / verificationStatus / timeoutCounter (see known_findings.json; each confirmed pair listed individually; repairs touch many accessors, not judged small) |"%n44)
out.append("\n### 9.3 Independent seeded changes and which check catches them\n")
out.append("| seed | property | needs to manifest | result | outcome |\n|---|---|---|---|---|")
for p in sorted(glob.glob(ROOT+'/seeded/*/meta.json')):
    m=json.load(open(p))
    seed=os.path.basename(os.path.dirname(p))
    out.append("| %s | %s | %s | %s | %s |"%(seed,m['property'],m.get('needs_to_manifest',m.get('needs','')),m.get('result','caught'),m.get('outcome',m.get('result',''))))
out.append("\n### 9.4 As built: per-property summary (generated from checks/*.json and the last evidence files)\n")
out.append("| id | engine(s) | translators | theorems+corr obligations | level (first sentence of level_text) |\n|---|---|---|---|---|")
for pth in sorted(glob.glob(ROOT+'/checks/C[0-9][0-9].json')):
    c=json.load(open(pth)); pid=c['id']
    engs=[e['name'] for e in ([c['engine']] if c.get('engine') else [])+c.get('extra_engines',[])]
    trs=[t['pkg'].split('/')[-1] for t in c.get('translators',[])]
    ob=''
    ev=ROOT+'/evidence/%s.json'%pid
    if os.path.exists(ev):
        try:
            e=json.load(open(ev)); ob="%d/%d"%(e['coverage'].get('discharged',0),e['coverage'].get('obligations',0))
        except Exception: pass
    lt=c.get('level_text','').strip().replace('|','/')
    first=re.split(r'(?<=[.;:])\s', lt)[0][:160]
    out.append("| %s | %s | %s | %s | %s |"%(pid,", ".join(engs),", ".join(trs) or "-",ob,first))
txt="\n".join(out)+"\n"
d=open(ROOT+'/DESIGN.md').read()
a="<!-- TABLES-BEGIN -->"; b="<!-- TABLES-END -->"
if a in d:
    d=d[:d.index(a)+len(a)]+"\n"+txt+d[d.index(b):]
else:
    d+="\n## 9. Results: defects found, repairs, known findings, seeded changes\n\n"+a+"\n"+txt+b+"\n"
open(ROOT+'/DESIGN.md','w').write(d)
print("tables written")
