// Package vh is the shared part of every correspondence engine: one PRNG, Coq term
// printing, the report/violation format read by bin/check.
package vh

import (
	"encoding/json"
	"flag"
	"fmt"
	"os"
	"path/filepath"
	"sort"
	"strings"
)

// ---------- PRNG (splitmix64): every random choice derives from one state ----------

type Rand struct{ s uint64 }

// NewRand hashes the seed (splitmix finaliser) so that seeds k and k+1 give unrelated streams.
func NewRand(seed uint64) *Rand {
	z := seed + 0x632BE59BD9B4E019
	z = (z ^ (z >> 30)) * 0xBF58476D1CE4E5B9
	z = (z ^ (z >> 27)) * 0x94D049BB133111EB
	return &Rand{s: z ^ (z >> 31)}
}

func (r *Rand) U64() uint64 {
	r.s += 0x9E3779B97F4A7C15
	z := r.s
	z = (z ^ (z >> 30)) * 0xBF58476D1CE4E5B9
	z = (z ^ (z >> 27)) * 0x94D049BB133111EB
	return z ^ (z >> 31)
}
func (r *Rand) Intn(n int) int {
	if n <= 0 {
		return 0
	}
	return int(r.U64() % uint64(n))
}
func (r *Rand) Range(lo, hi int) int       { return lo + r.Intn(hi-lo+1) } // inclusive
func (r *Rand) Bool() bool                 { return r.U64()&1 == 1 }
func (r *Rand) Chance(num, den int) bool   { return r.Intn(den) < num }
func (r *Rand) Pick64(xs []int64) int64    { return xs[r.Intn(len(xs))] }
func (r *Rand) PickU64(xs []uint64) uint64 { return xs[r.Intn(len(xs))] }
func (r *Rand) Fork() *Rand                { return NewRand(r.U64()) }
func (r *Rand) Perm(n int) []int {
	p := make([]int, n)
	for i := range p {
		p[i] = i
	}
	for i := n - 1; i > 0; i-- {
		j := r.Intn(i + 1)
		p[i], p[j] = p[j], p[i]
	}
	return p
}

// ---------- Coq term printing ----------

func Z(v int64) string {
	if v < 0 {
		return fmt.Sprintf("(%d)", v)
	}
	return fmt.Sprintf("%d", v)
}
func ZU(v uint64) string { return fmt.Sprintf("%d", v) }
func Nat(v int) string   { return fmt.Sprintf("%d%%nat", v) }
func Bool(b bool) string {
	if b {
		return "true"
	}
	return "false"
}
func List(xs []string) string { return "[" + strings.Join(xs, "; ") + "]" }
func Pair(a, b string) string { return "(" + a + ", " + b + ")" }
func Some(a string) string    { return "(Some " + a + ")" }
func App(f string, args ...string) string {
	if len(args) == 0 {
		return f
	}
	return "(" + f + " " + strings.Join(args, " ") + ")"
}
func Str(s string) string { return "\"" + strings.ReplaceAll(s, "\"", "\"\"") + "\"%string" }
func ZList(xs []int64) string {
	out := make([]string, len(xs))
	for i, x := range xs {
		out[i] = Z(x)
	}
	return List(out)
}
func ZUList(xs []uint64) string {
	out := make([]string, len(xs))
	for i, x := range xs {
		out[i] = ZU(x)
	}
	return List(out)
}
func NatList(xs []int) string {
	out := make([]string, len(xs))
	for i, x := range xs {
		out[i] = Nat(x)
	}
	return List(out)
}

// Bytes prints a byte slice as a list of Z (0..255).
func Bytes(b []byte) string {
	out := make([]string, len(b))
	for i, x := range b {
		out[i] = fmt.Sprintf("%d", x)
	}
	return List(out)
}

// ---------- engine options ----------

type Opts struct {
	Seed   uint64
	Tier   string
	Out    string
	Replay string
	Prop   string
}

func ParseFlags() Opts {
	var o Opts
	flag.Uint64Var(&o.Seed, "seed", 1, "PRNG seed")
	flag.StringVar(&o.Tier, "tier", "quick", "quick|thorough")
	flag.StringVar(&o.Out, "out", "", "output directory")
	flag.StringVar(&o.Replay, "replay", "", "replay file")
	flag.StringVar(&o.Prop, "prop", "", "property id (engines serving several)")
	flag.Parse()
	if o.Out == "" {
		fmt.Fprintln(os.Stderr, "-out required")
		os.Exit(2)
	}
	_ = os.MkdirAll(o.Out, 0o755)
	return o
}

func (o Opts) Thorough() bool { return o.Tier == "thorough" }

// N picks the case count for the tier.
func (o Opts) N(quick, thorough int) int {
	if o.Thorough() {
		return thorough
	}
	return quick
}

// ---------- cases file (evaluated by coqc with vm_compute) ----------

// CasesFile accumulates Gallina case terms and writes shards
// <out>/cases_<k>.v, each defining `M` = indices of mismatching cases.
type CasesFile struct {
	Imports  []string // e.g. "ZC.Corr.OrderBuffer"
	CaseType string   // Gallina type of one case
	CheckFn  string   // case -> bool
	Shard    int      // cases per shard (default 400)
	cases    []string
}

func (c *CasesFile) Add(term string) int { c.cases = append(c.cases, term); return len(c.cases) - 1 }
func (c *CasesFile) Len() int            { return len(c.cases) }
func (c *CasesFile) Case(i int) string   { return c.cases[i] }

func (c *CasesFile) Write(dir, prefix string) ([]string, error) {
	shard := c.Shard
	if shard <= 0 {
		shard = 400
	}
	var files []string
	for k := 0; k*shard < len(c.cases) || k == 0; k++ {
		lo, hi := k*shard, (k+1)*shard
		if hi > len(c.cases) {
			hi = len(c.cases)
		}
		var b strings.Builder
		b.WriteString("From Coq Require Import List ZArith String.\nImport ListNotations.\n")
		for _, im := range c.Imports {
			fmt.Fprintf(&b, "From ZC Require Import %s.\n", im)
		}
		b.WriteString("Open Scope Z_scope.\n")
		fmt.Fprintf(&b, "Definition cases : list (%s) := [\n", c.CaseType)
		for i := lo; i < hi; i++ {
			b.WriteString("  ")
			b.WriteString(c.cases[i])
			if i+1 < hi {
				b.WriteString(";")
			}
			b.WriteString("\n")
		}
		b.WriteString("].\n")
		fmt.Fprintf(&b, "Definition M := Eval vm_compute in ZC.Base.Corr.mismatches (%s) cases.\nPrint M.\n", c.CheckFn)
		name := fmt.Sprintf("%s_cases_%d.v", prefix, k)
		if err := os.WriteFile(filepath.Join(dir, name), []byte(b.String()), 0o644); err != nil {
			return nil, err
		}
		files = append(files, name)
		if hi >= len(c.cases) {
			break
		}
	}
	return files, nil
}

// ---------- report ----------

// Violation is a failure of the property itself observed on the implementation
// (found by the engine's executable oracle), with a concrete replayable input.
type Violation struct {
	Signature string      `json:"signature"` // stable key matched against known_findings.json
	Desc      string      `json:"desc"`
	Replay    interface{} `json:"replay"`
}

type Report struct {
	Engine             string         `json:"engine"`
	Property           string         `json:"property"`
	Seed               uint64         `json:"seed"`
	Tier               string         `json:"tier"`
	Evaluations        int            `json:"evaluations"`
	DistinctNontrivial int            `json:"distinct_nontrivial"`
	Rule               string         `json:"rule"`
	Samples            []interface{}  `json:"samples"`
	Histogram          map[string]int `json:"histogram"`
	CaseFiles          []string       `json:"case_files"`
	// CaseInputs[i] is a replayable description of case i (index across all shards)
	CaseInputs []interface{} `json:"case_inputs"`
	Violations []Violation   `json:"violations"`
	Exhaustive bool          `json:"exhaustive"`
	Notes      []string      `json:"notes"`
	ShardSize  int           `json:"shard_size"`

	distinct map[string]bool
}

func NewReport(engine, prop string, o Opts) *Report {
	return &Report{Engine: engine, Property: prop, Seed: o.Seed, Tier: o.Tier,
		Histogram: map[string]int{}, distinct: map[string]bool{}}
}

func (r *Report) Count(k string)                  { r.Histogram[k]++ }
func (r *Report) CountN(k string, n int)          { r.Histogram[k] += n }
func (r *Report) Note(f string, a ...interface{}) { r.Notes = append(r.Notes, fmt.Sprintf(f, a...)) }

// Case records one evaluated case; key identifies it for distinctness; nontrivial by the engine's rule.
func (r *Report) Case(key string, nontrivial bool, input interface{}) {
	r.Evaluations++
	if nontrivial && !r.distinct[key] {
		r.distinct[key] = true
		r.DistinctNontrivial++
	}
	if len(r.Samples) < 3 {
		r.Samples = append(r.Samples, input)
	}
}

func (r *Report) Violate(sig, desc string, replay interface{}) {
	for _, v := range r.Violations {
		if v.Signature == sig {
			return // keep the first (smallest found) per signature
		}
	}
	r.Violations = append(r.Violations, Violation{sig, desc, replay})
}

func (r *Report) Write(dir string) {
	sort.Slice(r.Violations, func(i, j int) bool { return r.Violations[i].Signature < r.Violations[j].Signature })
	b, err := json.MarshalIndent(r, "", " ")
	if err != nil {
		panic(err)
	}
	name := "report.json"
	if r.Property != "" {
		name = "report_" + r.Property + ".json"
	}
	if err := os.WriteFile(filepath.Join(dir, name), b, 0o644); err != nil {
		panic(err)
	}
}
