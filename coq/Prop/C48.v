(* C48: Governance settings change only by the owner and stay valid.
   Only statements; each is closed by [exact] of a lemma in Proof/Settings.v or Proof/SettingsWitness.v.
   k ranges over the six update entry points: chain globals (minersc update_globals), minersc
   update_settings, storagesc update_settings/commit_settings_changes, faucetsc update-settings,
   vestingsc vestingsc-update-settings, zcnsc update-global-config. The tables are Gen/SettingsTables.v. *)
From ZC Require Import Model.Settings Proof.Settings Proof.SettingsWitness.
From Coq Require Import Sorting.Permutation.
Open Scope Z_scope.
Open Scope string_scope.

(* 1. only the configured owner: any other caller gets the authorisation error and nothing changes *)
Theorem C48_only_owner :
  forall k env s t, t_caller t <> st_owner k env s -> st_step k env s (OpUpdate t) = (s, OutErrOwner).
Proof. exact st_only_owner. Qed.
Print Assumptions C48_only_owner.

(* 2. atomicity: an operation that does not succeed leaves the settings node (and pending changes) as they were *)
Theorem C48_rejected_change_keeps_all :
  forall k env s o, snd (st_step k env s o) <> OutOk -> fst (st_step k env s o) = s.
Proof. exact st_rejected_keeps. Qed.
Print Assumptions C48_rejected_change_keeps_all.

(* 3. only known mutable settings, only parsable values.
   [st_applied] = the entries the operation ranges over (storagesc: the merged pending map). Every one of them
   names a row of the contract's table whose flag is set (Mutable for globals / settable for the contracts) or a
   listed cost function, and parses at its type. *)
Theorem C48_every_entry_checked_and_listed :
  forall k env s o s', st_step k env s o = (s', OutOk) ->
    Forall (fun e => st_listedb (st_spec_of k) e = true /\ exists kv, st_eval (st_spec_of k) e = ROk kv) (st_applied k s o).
Proof. exact st_step_ok_accepted. Qed.
Print Assumptions C48_every_entry_checked_and_listed.

(* storagesc applies the merged pending map; every entry of the request is part of it *)
Theorem C48_storage_request_is_applied :
  forall es p e, NoDup (map e_key es) -> In e es -> In e (st_merge p es).
Proof. exact st_merge_in. Qed.
Print Assumptions C48_storage_request_is_applied.

(* 4. valid after update: from a valid node every successful operation of every contract gives a valid node *)
Theorem C48_valid_after_update :
  forall k env s o s', st_valid_of k (g_conf s) = true -> st_step k env s o = (s', OutOk) -> st_valid_of k (g_conf s') = true.
Proof. exact st_valid_after. Qed.
Print Assumptions C48_valid_after_update.

(* 5. same on every node: the update loops visit the request in sorted key order, so the outcome (error or new
   settings) is a function of the request - a Go map, i.e. distinct keys - and not of its iteration order *)
Theorem C48_same_on_every_node :
  forall sp s es1 es2, Permutation es1 es2 -> NoDup (map e_key es1) -> st_update sp s es1 = st_update sp s es2.
Proof. exact st_update_perm. Qed.
Print Assumptions C48_same_on_every_node.

(* a float chain global that update_globals accepts is finite: ConfigImpl.Update (currency.ParseZCN of the fees) never
   sees NaN or an infinity *)
Theorem C48_accepted_global_float_is_finite :
  forall raw po v, st_parse true StFloat raw po = ROk v -> exists b, po_flt po = Some b /\ fl_finite b = true.
Proof. exact st_global_float_finite. Qed.
Print Assumptions C48_accepted_global_float_is_finite.

(* every mutable chain global is read back by the chain (ConfigImpl.Update) with the type update_globals validated it
   against: an accepted value always parses on read, so no node falls back to its local yaml *)
Theorem C48_global_declared_type_is_consumer_type :
  st_global_type_disagreements = [] /\ st_global_consumers_declared = true.
Proof. exact st_globals_consumer_types. Qed.
Print Assumptions C48_global_declared_type_is_consumer_type.

(* 6. unparsable values are rejected, never fatal: no operation of any contract panics (for the chain globals
   because every type in the generated table is supported by StringToInterface) *)
Theorem C48_no_panic : forall k env s o, snd (st_step k env s o) <> OutPanic.
Proof. exact st_step_never_panics. Qed.
Print Assumptions C48_no_panic.

(* Non-vacuity: a run over the generated minersc table with an accepted change, a non-owner,
   an unknown key, an inconsistent value (max_n < min_n) and an unparsable value. *)
Example C48_example :
  let '(s, outs) := st_run KMiner sw_env sw_miner sw_run_ops in
  outs = [OutOk; OutErrOwner; OutReject; OutReject; OutReject] /\
  st_get (g_conf s) "max_n" = Some (SvZ 9) /\ st_get (g_conf s) "cost.add_miner" = Some (SvZ 12) /\
  st_get (g_conf s) "max_s" = Some (SvZ 2).
Proof. exact sw_run_example. Qed.

(* the former triggers, now refused or order independent *)
Example C48_example_unknown_cost_refused :
  snd (st_step KMiner sw_env sw_miner (OpUpdate (sw_txn [sw_ent "cost.bogus" "5" (sw_po_int 5)]))) = OutReject /\
  snd (st_step KStorage sw_env sw_storage (OpUpdate (sw_txn [sw_ent "cost.bogus" "5" (sw_po_int 5)]))) = OutReject /\
  snd (st_step KMiner sw_env sw_miner (OpUpdate (sw_txn [sw_ent "cost.add_miner" "5" (sw_po_int 5)]))) = OutOk.
Proof. exact sw_unknown_cost_refused. Qed.

Example C48_example_vesting_validates :
  st_valid_of KVesting (g_conf sw_vesting) = true /\
  st_step KVesting sw_env sw_vesting (OpUpdate (sw_txn [sw_ent "max_destinations" "0" (sw_po_int 0)])) = (sw_vesting, OutReject).
Proof. exact sw_vesting_invalid_refused. Qed.

Example C48_example_storage_demeter_validates :
  st_valid_of KStorage (g_conf sw_storage) = true /\
  st_step KStorage sw_env_demeter sw_storage (OpUpdate (sw_txn [sw_ent "max_delegates" "0" (sw_po_int 0)])) = (sw_storage, OutReject).
Proof. exact sw_storage_demeter_invalid_refused. Qed.

Example C48_example_commit_validates :
  let s1 := fst (st_step KStorage sw_env sw_storage (OpUpdate (sw_txn [sw_ent "max_delegates" "0" (sw_po_int 0)]))) in
  g_conf s1 = g_conf sw_storage /\ snd (st_step KStorage sw_env s1 OpCommit) = OutReject.
Proof. exact sw_storage_commit_validates. Qed.

Example C48_example_cost_key_does_not_end_loop :
  snd (st_step KFaucet sw_env sw_faucet (OpUpdate (sw_txn sw_cost_then_unknown))) = OutReject /\
  st_update (st_spec_of KFaucet) (g_conf sw_faucet) sw_cost_then_valid = st_update (st_spec_of KFaucet) (g_conf sw_faucet) sw_valid_then_cost /\
  (match st_update (st_spec_of KFaucet) (g_conf sw_faucet) sw_cost_then_valid with
   | ROk c => st_get c "pour_amount" = Some (SvZ 20000000000) /\ st_get c "cost.pour" = Some (SvZ 5)
   | _ => False end).
Proof. exact sw_cost_key_does_not_end_loop. Qed.

Example C48_example_aliases :
  st_update (st_spec_of KStorage) (g_conf sw_storage) sw_alias1 = RReject /\
  st_update (st_spec_of KStorage) (g_conf sw_storage) sw_alias2 = RReject.
Proof. exact sw_alias_refused. Qed.

Example C48_example_nan_refused :
  st_step KMiner sw_env sw_miner (OpUpdate (sw_txn [sw_ent "min_stake" "NaN" sw_po_nan])) = (sw_miner, OutReject).
Proof. exact sw_nan_refused. Qed.
