(* C25: what the building blocks of the model (getPartition, loadLocations, saveItemLoc /
   removeItemLoc loops, pack, loadLastFromPrev) do to the observations and to the invariant. *)
From ZC Require Import Model.Partitions Model.PartitionsSpec Proof.PartitionsUtil Proof.PartitionsInv
     Proof.PartitionsSem.
From Coq Require Import Sorting.Permutation.
Open Scope Z_scope.

Ltac pt_destruct ws :=
  let h := fresh "h" in let ps := fresh "ps" in let ls := fresh "ls" in
  let n := fresh "n" in let lp := fresh "lp" in let c := fresh "c" in let lc := fresh "lc" in
  destruct ws as [[h ps ls] [n lp c lc]].

Ltac conj_split := repeat match goal with |- _ /\ _ => split end.

Ltac pt_red :=
  unfold pt_core_ws, pt_L, pt_T, pt_C, pt_Pt, pt_Ch, pt_eff, pt_loc, pt_last,
    pt_set_last, pt_set_cache, pt_set_lcache, pt_set_tparts, pt_set_tlocs, pt_with_mem, pt_with_trie,
    pt_locs_get, pt_parts_get, pt_cache_get in *;
  cbn [ws_trie ws_mem tt_hdr tt_parts tt_locs pm_loc pm_last pm_cache pm_lcache pp_items pp_changed] in *.

(* ---------- effective contents under cache / trie updates ---------- *)
Lemma eff_cache_set_eq c ps i p : pt_eff_of (pt_al_set Nat.eqb i p c) ps i = pp_items p.
Proof. unfold pt_eff_of, pt_cache_get. rewrite nat_get_set_eq. reflexivity. Qed.

Lemma eff_cache_set_ne c ps i j p : j <> i -> pt_eff_of (pt_al_set Nat.eqb i p c) ps j = pt_eff_of c ps j.
Proof. intros H. unfold pt_eff_of, pt_cache_get. rewrite nat_get_set_ne by exact H. reflexivity. Qed.

Lemma eff_cache_del_ne c ps i j : j <> i -> pt_eff_of (pt_al_del Nat.eqb i c) ps j = pt_eff_of c ps j.
Proof. intros H. unfold pt_eff_of, pt_cache_get. rewrite nat_get_del_ne by exact H. reflexivity. Qed.

Lemma eff_parts_set_ne c ps i j x : j <> i -> pt_eff_of c (pt_al_set Nat.eqb i x ps) j = pt_eff_of c ps j.
Proof. intros H. unfold pt_eff_of, pt_parts_get. rewrite nat_get_set_ne by exact H. reflexivity. Qed.

Lemma eff_parts_del_ne c ps i j : j <> i -> pt_eff_of c (pt_al_del Nat.eqb i ps) j = pt_eff_of c ps j.
Proof. intros H. unfold pt_eff_of, pt_parts_get. rewrite nat_get_del_ne by exact H. reflexivity. Qed.

Lemma eff_cached c ps i p : pt_al_get Nat.eqb i c = Some p -> pt_eff_of c ps i = pp_items p.
Proof. intros H. unfold pt_eff_of, pt_cache_get. rewrite H. reflexivity. Qed.

Lemma pt_abs_ext ws ws' :
  pt_loc ws' = pt_loc ws -> pt_L ws' = pt_L ws ->
  (forall i, (i < pt_loc ws)%nat -> pt_eff ws' i = pt_eff ws i) -> pt_abs ws' = pt_abs ws.
Proof.
  intros Hn HL HE. rewrite !pt_abs_flat, Hn, HL. apply pt_flat_ext. exact HE.
Qed.

(* ---------- getPartition for a packed partition: cache it, nothing observable changes ---------- *)
Definition pt_same_but_cache (ws ws1 : pt_ws) : Prop :=
  ws_trie ws1 = ws_trie ws /\ pt_loc ws1 = pt_loc ws /\ pt_last ws1 = pt_last ws /\
  pm_lcache (ws_mem ws1) = pm_lcache (ws_mem ws) /\ (forall j, pt_eff ws1 j = pt_eff ws j).

Lemma pt_same_but_cache_abs ws ws1 : pt_same_but_cache ws ws1 -> pt_abs ws1 = pt_abs ws.
Proof.
  intros (Ht & Hn & Hl & Hc & HE). apply pt_abs_ext; auto. unfold pt_L. rewrite Hl. reflexivity.
Qed.

Lemma pt_getpart_lt stale size ws i :
  pt_core_ws stale size ws -> (i < pt_loc ws)%nat ->
  exists ws1 p, pt_getpart ws i = Some (ws1, p) /\ pt_getpart ws1 i = Some (ws1, p) /\
    pt_Ch ws1 i = Some p /\ pp_items p = pt_eff ws i /\
    pt_same_but_cache ws ws1 /\ pt_core_ws stale size ws1.
Proof.
  intros Hc Hi. pt_destruct ws. unfold pt_getpart. pt_red.
  destruct (Nat.ltb_spec n i) as [Hx|_]; [lia|].
  destruct (Nat.eqb_spec i n) as [Hx|Hne]; [lia|].
  destruct (pt_al_get Nat.eqb i c) as [p|] eqn:Ec.
  - exists {| ws_trie := {| tt_hdr := h; tt_parts := ps; tt_locs := ls |};
              ws_mem := {| pm_loc := n; pm_last := lp; pm_cache := c; pm_lcache := lc |} |}, p.
    pt_red. destruct (Nat.ltb_spec n i) as [Hx|_]; [lia|].
    destruct (Nat.eqb_spec i n) as [Hx|_]; [lia|]. rewrite Ec.
    unfold pt_same_but_cache; conj_split; auto. symmetry. apply eff_cached. exact Ec.
  - destruct (pt_al_get Nat.eqb i ps) as [items|] eqn:Ep.
    2:{ exfalso. apply (io_trie _ _ _ _ _ _ _ _ _ Hc i Hi). exact Ep. }
    eexists. eexists. split; [reflexivity|]. pt_red.
    destruct (Nat.ltb_spec n i) as [Hx|_]; [lia|].
    destruct (Nat.eqb_spec i n) as [Hx|_]; [lia|]. rewrite nat_get_set_eq.
    assert (HE : forall j, pt_eff_of (pt_al_set Nat.eqb i {| pp_items := items; pp_changed := false |} c) ps j
                           = pt_eff_of c ps j).
    { intros j. destruct (Nat.eq_dec j i) as [->|Hj].
      - rewrite eff_cache_set_eq. unfold pt_eff_of, pt_cache_get, pt_parts_get. rewrite Ec, Ep. reflexivity.
      - apply eff_cache_set_ne. exact Hj. }
    unfold pt_same_but_cache; conj_split; auto.
    + cbn. unfold pt_eff_of, pt_cache_get, pt_parts_get. rewrite Ec, Ep. reflexivity.
    + eapply pt_core_ext; [| | | | |
        eapply core_cache_trie with (Pt' := fun j => pt_al_get Nat.eqb j ps); [exact Hc| |]].
      * intros j _. symmetry. apply HE.
      * reflexivity.
      * reflexivity.
      * reflexivity.
      * reflexivity.
      * intros j p. cbn beta. destruct (Nat.eq_dec j i) as [->|Hj].
        -- rewrite nat_get_set_eq. intros Hp; injection Hp as <-. cbn. split; [exact Hi|]. intros _. exact Ep.
        -- rewrite nat_get_set_ne by exact Hj. apply (io_cache _ _ _ _ _ _ _ _ _ Hc).
      * apply (io_trie _ _ _ _ _ _ _ _ _ Hc).
Qed.

(* ---------- saveItemLoc / removeItemLoc loops ---------- *)
Lemma pt_save_locs_obs ws items l :
  let ws' := pt_save_locs ws items l in
  ws_mem ws' = {| pm_loc := pt_loc ws; pm_last := pt_last ws; pm_cache := pm_cache (ws_mem ws);
                  pm_lcache := pm_lcache (ws_mem ws') |} /\
  tt_hdr (ws_trie ws') = tt_hdr (ws_trie ws) /\ tt_parts (ws_trie ws') = tt_parts (ws_trie ws) /\
  (forall k, pt_T ws' k = if pt_has k items then Some l else pt_T ws k) /\
  (forall k, pt_C ws' k = if pt_has k items then Some l else pt_C ws k).
Proof.
  revert ws. induction items as [|[id d] tl IH]; intros ws; cbn [pt_save_locs].
  - pt_destruct ws. cbn. unfold pt_same_but_cache; conj_split; reflexivity.
  - specialize (IH (pt_save_loc ws id l)). cbv zeta in IH. destruct IH as (Hm & Hh & Hp & HT & HC).
    pt_destruct ws. unfold pt_save_loc in *. pt_red.
    unfold pt_same_but_cache; conj_split; auto.
    + intros k. rewrite HT. unfold pt_has at 2. cbn [pt_find]. fold (pt_has k tl).
      destruct (Z.eqb_spec id k) as [->|Hne].
      * destruct (pt_has k tl); [reflexivity|]. apply z_get_set_eq.
      * destruct (pt_find k tl) as [[i0 d0]|] eqn:Ef; unfold pt_has; rewrite Ef; [reflexivity|].
        apply z_get_set_ne. congruence.
    + intros k. rewrite HC. unfold pt_has at 2. cbn [pt_find]. fold (pt_has k tl).
      destruct (Z.eqb_spec id k) as [->|Hne].
      * destruct (pt_has k tl); [reflexivity|]. apply z_get_set_eq.
      * destruct (pt_find k tl) as [[i0 d0]|] eqn:Ef; unfold pt_has; rewrite Ef; [reflexivity|].
        apply z_get_set_ne. congruence.
Qed.

Lemma pt_remove_locs_obs ws items :
  NoDup (pt_ids items) -> (forall k, In k (pt_ids items) -> pt_T ws k <> None) ->
  exists ws', pt_remove_locs ws items = Some ws' /\
    ws_mem ws' = {| pm_loc := pt_loc ws; pm_last := pt_last ws; pm_cache := pm_cache (ws_mem ws);
                    pm_lcache := pm_lcache (ws_mem ws') |} /\
    tt_hdr (ws_trie ws') = tt_hdr (ws_trie ws) /\ tt_parts (ws_trie ws') = tt_parts (ws_trie ws) /\
    (forall k, pt_T ws' k = if pt_has k items then None else pt_T ws k) /\
    (forall k, pt_C ws' k = if pt_has k items then None else pt_C ws k).
Proof.
  revert ws. induction items as [|[id d] tl IH]; intros ws Hnd Hpres; cbn [pt_remove_locs].
  - exists ws. pt_destruct ws. cbn. unfold pt_same_but_cache; conj_split; reflexivity.
  - apply nodup_ids_cons_inv in Hnd. destruct Hnd as [Hni Hnd]. cbn [fst] in Hni.
    assert (Hid : pt_T ws id <> None) by (apply Hpres; left; reflexivity).
    unfold pt_remove_loc. unfold pt_T, pt_locs_get in Hid.
    destruct (pt_al_get Z.eqb id (tt_locs (ws_trie ws))) as [l0|] eqn:El; [|congruence].
    rewrite (al_del_checked_some Z.eqb id _ l0 El).
    set (ws1 := pt_set_lcache _ _).
    destruct (IH ws1 Hnd) as (ws' & Hr & Hm & Hh & Hp & HT & HC).
    { intros k Hk. assert (Hne : k <> id) by (intros ->; contradiction).
      subst ws1. pt_destruct ws. pt_red. rewrite z_get_del_ne by exact Hne.
      apply (Hpres k). right. exact Hk. }
    exists ws'. split; [exact Hr|]. subst ws1. pt_destruct ws. pt_red.
    unfold pt_same_but_cache; conj_split; auto.
    + intros k. rewrite HT. unfold pt_has at 2. cbn [pt_find]. fold (pt_has k tl).
      destruct (Z.eqb_spec id k) as [->|Hne].
      * destruct (pt_has k tl); [reflexivity|]. apply z_get_del_eq.
      * destruct (pt_find k tl) as [[i0 d0]|] eqn:Ef; unfold pt_has; rewrite Ef; [reflexivity|].
        apply z_get_del_ne. congruence.
    + intros k. rewrite HC. unfold pt_has at 2. cbn [pt_find]. fold (pt_has k tl).
      destruct (Z.eqb_spec id k) as [->|Hne].
      * destruct (pt_has k tl); [reflexivity|]. apply z_get_del_eq.
      * destruct (pt_find k tl) as [[i0 d0]|] eqn:Ef; unfold pt_has; rewrite Ef; [reflexivity|].
        apply z_get_del_ne. congruence.
Qed.

(* ---------- loadLocations ---------- *)
Lemma pt_lcache_fill_get c items idx k :
  pt_al_get Z.eqb k (pt_lcache_fill c items idx) = if pt_has k items then Some idx else pt_al_get Z.eqb k c.
Proof.
  revert c. induction items as [|[id d] tl IH]; intros c; cbn [pt_lcache_fill]; [reflexivity|].
  rewrite IH. unfold pt_has at 2. cbn [pt_find]. fold (pt_has k tl).
  destruct (Z.eqb_spec id k) as [->|Hne].
  - destruct (pt_has k tl); [reflexivity|]. apply z_get_set_eq.
  - destruct (pt_find k tl) as [[i0 d0]|] eqn:Ef; unfold pt_has; rewrite Ef; [reflexivity|].
    apply z_get_set_ne. congruence.
Qed.

Lemma pt_load_locations_ok stale size ws idx :
  pt_core_ws stale size ws ->
  let ws' := pt_load_locations ws idx in
  pt_core_ws stale size ws' /\ ws_trie ws' = ws_trie ws /\ pt_loc ws' = pt_loc ws /\
  pt_last ws' = pt_last ws /\ pm_cache (ws_mem ws') = pm_cache (ws_mem ws).
Proof.
  intros Hc. cbv zeta. unfold pt_load_locations. destruct idx as [|i]; [auto|].
  destruct (pt_cache_get (S i) (pm_cache (ws_mem ws))) as [p|] eqn:Ec; [|auto].
  pt_destruct ws. pt_red. unfold pt_same_but_cache; conj_split; auto.
  destruct (io_cache _ _ _ _ _ _ _ _ _ Hc (S i) p Ec) as [Hi _].
  eapply pt_core_ext; [| | | | | eapply core_lcache_fill with (i := S i); [exact Hc|exact Hi|]];
    try reflexivity.
  intros k. cbn beta. rewrite pt_lcache_fill_get. rewrite (eff_cached _ _ _ _ Ec). reflexivity.
Qed.

(* ---------- loadLastFromPrev on an emptied Last ---------- *)
Lemma pt_load_last_from_prev_ok stale size ws pl :
  pt_core_ws stale size ws -> pt_loc ws = S pl -> pt_L ws = [] ->
  exists ws', pt_load_last_from_prev ws = Some ws' /\ pt_core_ws stale size ws' /\
    pt_abs ws' = pt_abs ws /\ pt_L ws' <> [] /\ pt_loc ws' = pl.
Proof.
  intros Hc Hn HL. unfold pt_load_last_from_prev. rewrite Hn.
  destruct (pt_getpart_lt stale size ws pl Hc) as (ws1 & prev & Hg & _ & HCh1 & Hitems & Hsame & Hc1); [lia|].
  rewrite Hg. destruct Hsame as (Ht & Hn1 & Hl1 & Hlc1 & HE1).
  assert (Hnd : NoDup (pt_ids (pt_abs ws1))) by (rewrite pt_abs_flat; apply (io_nodup _ _ _ _ _ _ _ _ _ Hc1)).
  assert (Hpl1 : (pl < pt_loc ws1)%nat) by lia.
  assert (HEpl : pt_eff ws1 pl = pp_items prev) by (rewrite HE1; symmetry; exact Hitems).
  destruct (pt_remove_locs_obs (pt_set_last ws1 prev) (pp_items prev)) as (ws3 & Hr & Hm3 & Hh3 & Hp3 & HT3 & HC3).
  { rewrite <- HEpl. rewrite pt_abs_flat in Hnd. eapply flat_part_nodup; eassumption. }
  { intros k Hk. assert (Hx : pt_T ws1 k = Some pl).
    { apply (io_locs _ _ _ _ _ _ _ _ _ Hc1). left. split; [exact Hpl1|]. rewrite HEpl. exact Hk. }
    pt_destruct ws1. pt_red. congruence. }
  rewrite Hr.
  assert (Hptpl : pt_Pt ws1 pl <> None) by (apply (io_trie _ _ _ _ _ _ _ _ _ Hc1); exact Hpl1).
  assert (Hparts3 : tt_parts (ws_trie ws3) = tt_parts (ws_trie ws1)).
  { rewrite Hp3. pt_destruct ws1. reflexivity. }
  unfold pt_Pt, pt_parts_get in Hptpl. rewrite <- Hparts3 in Hptpl.
  destruct (pt_al_get Nat.eqb pl (tt_parts (ws_trie ws3))) as [x|] eqn:Ex; [|congruence].
  rewrite (al_del_checked_some Nat.eqb pl _ x Ex).
  eexists. split; [reflexivity|].
  (* observations of the final state in terms of ws1 *)
  destruct ws as [[h ps ls] [n lp c lc]]. destruct ws1 as [[h1 ps1 ls1] [n1 lp1 c1 lc1]].
  destruct ws3 as [[h3 ps3 ls3] [n3 lp3 c3 lc3]]. pt_red. cbn in Hm3, Hh3, Hp3, Hn1, Hl1, Hlc1, Hn, HL, Ht.
  injection Hm3 as -> -> ->. injection Ht as -> -> ->. subst.
  assert (Hcore1 : pt_core stale size (S pl) [] (pt_eff_of c1 ps) (fun k => pt_al_get Z.eqb k ls)
                     (fun k => pt_al_get Z.eqb k lc) (fun i => pt_al_get Nat.eqb i ps)
                     (fun i => pt_al_get Nat.eqb i c1)).
  { rewrite <- HL. exact Hc1. }
  destruct (core_load_prev stale size pl _ _ _ _ _
              (fun k => pt_al_get Z.eqb k ls3) (fun k => pt_al_get Z.eqb k lc3)
              (fun i => pt_al_get Nat.eqb i (pt_al_del Nat.eqb pl ps))
              (fun i => pt_al_get Nat.eqb i (pt_al_del Nat.eqb pl c1)) Hcore1) as (Hcore' & Hflat' & Hne').
  { intros k. rewrite HT3, HEpl. reflexivity. }
  { intros k. rewrite HC3, HEpl. reflexivity. }
  { intros j Hj. apply nat_get_del_ne. exact Hj. }
  { intros j Hj. apply nat_get_del_ne. exact Hj. }
  { apply nat_get_del_eq. }
  rewrite HEpl in Hcore', Hflat', Hne'.
  split; [|split; [|split; [exact Hne'|reflexivity]]].
  - eapply pt_core_ext; [| | | | |exact Hcore']; try reflexivity.
    intros i Hi. cbn beta. rewrite eff_cache_del_ne, eff_parts_del_ne by lia. reflexivity.
  - rewrite !pt_abs_flat. pt_red. rewrite HL.
    transitivity (pt_flat (pt_eff_of c1 ps) (S pl) []).
    + rewrite <- Hflat'. apply pt_flat_ext. intros i Hi.
      rewrite eff_cache_del_ne, eff_parts_del_ne by lia. reflexivity.
    + apply pt_flat_ext. intros i Hi. apply HE1.
Qed.
