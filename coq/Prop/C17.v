(* C17: Faucet pours respect the per-client and global limits.
   Only statements; each is closed by [exact] of a lemma in Proof/Faucet.v.
   The model follows smartcontract/faucetsc: pour first fixes the amount (the requested value when
   0 < value < max_pour_amount, else pour_amount) and validPourRequest compares that amount with
   the faucet balance and with both limits. (Before commit fd43c80 of /repo the comparison used
   pour_amount; the oracle signature C17:limit-checked-with-pour-amount-not-poured-value stands for
   that defect and must not fire any more.) *)
From ZC Require Import Model.Faucet Proof.Faucet.
Open Scope Z_scope.

(* For every configuration accepted by validate and every history of pour / refill /
   update-settings requests (any clients, values, timestamps, balances), within each reset
   window (windows recomputed from the observable trace, see the fcs definitions in Model/Faucet.v)
   a client never receives more than periodic_limit, all clients together never more than
   global_limit, and no pour exceeds the faucet balance it was served from. *)
Theorem C17_limits :
  forall cfg ops, fc_validate cfg = true ->
    let evs := snd (fc_run (fc_init cfg) ops) in
    (forall c, fcs_client_within c None evs) /\
    fcs_global_within (fc_zero_time, 0) evs /\
    Forall fcs_pour_within_balance evs.
Proof. exact fc_full. Qed.
Print Assumptions C17_limits.

(* update-settings never installs a configuration rejected by validate *)
Theorem C17_config_stays_valid :
  forall ops cfg, fc_validate cfg = true -> fc_validate (fs_cfg (fst (fc_run (fc_init cfg) ops))) = true.
Proof. exact fc_reachable_valid. Qed.
Print Assumptions C17_config_stays_valid.

(* a refused request changes nothing *)
Theorem C17_refused_changes_nothing :
  forall st o st1, fc_step st o = (st1, FcFail) -> st1 = st.
Proof. exact fc_fail_noop. Qed.
Print Assumptions C17_refused_changes_nothing.

(* the history that exceeded the periodic limit before the repair: the second request is refused *)
Example C17_former_witness :
  map ev_out (snd (fc_run (fc_init fc_wit_cfg) fc_wit_ops)) = [FcPoured 50; FcFail].
Proof. exact fc_wit_trace. Qed.

(* Non-vacuity: pours succeed (also with a requested value between pour_amount and max), the
   periodic limit then refuses, the window restarts, a refill and a settings update happen. *)
Example C17_example :
  let cfg := {| fc_pour := 10; fc_max := 20; fc_plimit := 25; fc_glimit := 40;
                fc_ireset := 60 * fc_second; fc_greset := 120 * fc_second |} in
  map ev_out (snd (fc_run (fc_init cfg)
    [FcPour 1 1000 0 (Some 500); FcPour 1 1001 12 (Some 490); FcPour 1 1002 200 (Some 483); FcPour 1 1002 3 (Some 483);
     FcPour 2 1003 10 (Some 483); FcPour 2 1004 19 (Some 473); FcPour 2 1004 5 (Some 473); FcRefill 3 1005 5 (Some 9);
     FcUpdate true 1006 true [(FGLimit, 1000)]; FcPour 1 1070 10 (Some 9); FcPour 1 1071 19 (Some 500)]))
  = [FcPoured 10; FcPoured 12; FcFail; FcPoured 3; FcPoured 10; FcFail; FcPoured 5; FcRefilled 5; FcUpdated; FcFail; FcPoured 19]
  /\ fc_validate cfg = true.
Proof. vm_compute. split; reflexivity. Qed.
