#!/usr/bin/env python3
"""Prints the prompt for an independent seeded-change agent for property <id> (text only; nothing from /verif's machinery)."""
import json, sys
pid = sys.argv[1]
variant = sys.argv[2] if len(sys.argv) > 2 else "a"
for l in open('/verif/properties.jsonl'):
    p = json.loads(l)
    if p['id'] == pid:
        break
wt = "/tmp/seed/%s%s" % (pid, variant)
out = "/tmp/seed-out/%s%s" % (pid, variant)
print(f"""You are testing how robust a software project is against subtle regressions. The project is the Go repository 0chain/0chain (a blockchain node: miners, sharders, smart contracts). No network access is available.

Set up your own scratch git worktree first (work ONLY there; never edit /repo itself, never look at or use anything under /verif):
  mkdir -p /tmp/seed && git -C /repo worktree add -q {wt} HEAD
The Go module is at {wt}/code/go/0chain.net.

Here is a semantic property the project is supposed to satisfy:

  Title: {p['title']}
  Statement: {p['statement']}
  Quantifier: {p['quantifier']['text']}
  Relevant files (hints): {', '.join(p['anchors']['files'])}

Your task: write ONE small, realistic change to the project's non-test source code (the kind of bug a developer could plausibly introduce in a refactor or optimisation) that BREAKS this property, while the project still compiles and its existing test suite still passes. Prefer a change that needs something specific to manifest — a particular multi-step sequence of operations, an unusual input or boundary value, a specific interleaving or crash point, or two cooperating sites that each look fine alone — rather than one that ordinary use would expose immediately. Do not add test files to the patch, do not touch *_test.go, do not change exported function signatures.

Then write a demonstration: a Go test file or small Go program that FAILS (exit non-zero, or test FAIL) with your change applied and PASSES without it, exercising the real project code.

Environment notes:
* Existing test suite: `cd {wt}/code/go/0chain.net && go test -vet=off -count=1 ./... 2>&1 | grep -E '^(ok|FAIL|---)' `. Many packages fail to BUILD in this sandbox even without any change (the installed RocksDB is older than the grocksdb binding wants, and some tests need un-checked-in mocks): that is the baseline. Record the set of `ok` packages before your change and make sure exactly the same packages are `ok` after it (run the suite before and after).
* To build or run code from packages that (transitively) import grocksdb (chaincore/chain, chaincore/block, chaincore/round, miner, sharder/blockstore, smartcontract/...), put your demonstration in a separate module OUTSIDE the worktree, e.g. {out}/demo, with a go.mod like:
    module demo
    go 1.21
    require 0chain.net v0.0.0
    replace 0chain.net => {wt}/code/go/0chain.net
    replace github.com/linxGnu/grocksdb => /var/tmp/grocksdb-patched
    replace github.com/tinylib/msgp => github.com/0chain/msgp v1.1.62
  then `cp {wt}/code/go/0chain.net/go.sum .` and use
    export GOWORK=off GOFLAGS=-mod=mod GOPROXY=off GOSUMDB=off GOTOOLCHAIN=local
  (first build takes ~40 s). Call `logging.InitLogging("development", "")` from github.com/0chain/common/core/logging before touching state/contract code. An in-memory state trie is `util.NewMerklePatriciaTrie(util.NewMemoryNodeDB(), 1, nil, statecache.NewEmpty())` (github.com/0chain/common/core/util, .../statecache); a contract state context is `cstate.NewStateContext(...)` from 0chain.net/chaincore/chain/state. Unexported functions can be reached by placing a demo `_test.go` file inside the package directory in the worktree and running it via the external module is NOT possible — instead, for unexported code either drive it through exported entry points, or (for packages that build in place, e.g. core/util/orderbuffer, sharder/blockdb, chaincore/node, core/encryption) put the demo test directly in the package directory and run `go test -run <Name> ./<pkg>/` inside the worktree module (workspace mode, no -mod flag).
* The demo must be runnable against a pristine tree as well: state in your notes the exact commands for both runs.

Deliver into {out}/ :
  patch.diff   — `git -C {wt} diff` of your change (source only, no demo/test files)
  demo/        — the demonstration (files + exact run commands in demo/README.md; if the demo is a test file that must live inside a package directory, put it in demo/ with its intended path written in README.md)
  notes.md     — which clause of the property it breaks, what exactly is needed for the breakage to manifest, why existing tests do not notice, and the before/after `ok` package lists showing the suite still passes.
Verify everything yourself: suite before/after, demo fails with the patch and passes without it (NEVER use `git stash` — the stash is shared by all worktrees of /repo and other people are working in parallel; instead use `git -C {wt} diff > {out}/p.diff; git -C {wt} checkout -- .; <run pristine>; git -C {wt} apply {out}/p.diff`). When finished, remove your worktree: `git -C /repo worktree remove --force {wt}` (keep {out}). Your final message: a 5-line summary (what you changed, how it manifests, commands).""")
