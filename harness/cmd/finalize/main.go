// Engine for C36: ComputeFinalizedBlock and finalizeRound of the real chain package on block
// trees (exhaustive small trees + random forests). The finalized-block worker (state saving) is
// replaced by a stub that applies the connectivity test of finalizeBlockProcess and then
// round.Finalize + SetLatestFinalizedBlock, as finalizeBlock does at its end.
package main

import (
	"context"
	"errors"
	"fmt"
	"os"
	"path/filepath"
	"strings"
	"time"

	"0chain.net/chaincore/block"
	"0chain.net/chaincore/chain"
	"0chain.net/chaincore/client"
	"0chain.net/chaincore/node"
	"0chain.net/chaincore/round"
	"0chain.net/core/memorystore"
	"0chain.net/core/viper"
	"github.com/0chain/common/core/logging"
	"go.uber.org/zap"
	"verifharness/vh"
)

// ---------------------------------------------------------------------------------- inputs

type blk struct {
	Round  int `json:"round"`
	Parent int `json:"parent"` // index into Blocks; -1 = previous block missing (PrevBlock nil, unknown hash)
}

// input.SameRank lists rounds in which every block carries RoundRank 0 and its own
// RoundTimeoutCount (re-proposals after round restarts); elsewhere ranks are 0,1,2.. within a round.

type fop struct {
	K string `json:"k"` // add|finalize
	N int    `json:"n"` // block index (add) / round number (finalize)
}

type input struct {
	SameRank []int   `json:"same_rank_rounds,omitempty"` // rounds whose blocks all carry RoundRank 0 (re-proposals)
	Kind     string  `json:"kind"`                       // compute|history
	Blocks   []blk   `json:"blocks"`                     // block 0 is the genesis block (round 0)
	Rounds   []int   `json:"rounds"`                     // rounds that have a round object
	Known    [][]int `json:"known,omitempty"`            // compute: Known[i] = notarized blocks of Rounds[i]
	Lfbr     int     `json:"lfbr,omitempty"`
	R        int     `json:"r,omitempty"`
	Ahead    int     `json:"ahead,omitempty"`
	Ops      []fop   `json:"ops,omitempty"`
}

// vc records the blocks finalizeRound runs the view change on
type vc struct{ seen []*block.Block }

func (v *vc) ViewChange(ctx context.Context, lfb *block.Block) error {
	v.seen = append(v.seen, lfb)
	return nil
}

// ---------------------------------------------------------------------------------- real objects

type env struct {
	vc     *vc
	c      *chain.Chain
	blocks []*block.Block
	idx    map[*block.Block]int
	rounds map[int]*round.Round
}

func hashOf(i int) string { return fmt.Sprintf("%064x", i+1) }

func build(in *input) *env {
	e := &env{c: chain.Provider().(*chain.Chain), idx: map[*block.Block]int{}, rounds: map[int]*round.Round{}}
	e.vc = &vc{}
	e.c.SetViewChanger(e.vc)
	rankInRound := map[int]int{}
	for i, bd := range in.Blocks {
		b := block.NewBlock("", int64(bd.Round))
		b.Hash = hashOf(i)
		b.RoundRank = rankInRound[bd.Round]
		if hasInt(in.SameRank, bd.Round) {
			b.RoundRank = 0
			b.RoundTimeoutCount = rankInRound[bd.Round]
		}
		rankInRound[bd.Round]++
		b.SetStateStatus(block.StateSuccessful)
		if bd.Parent >= 0 {
			b.PrevHash = e.blocks[bd.Parent].Hash
			b.SetPreviousBlock(e.blocks[bd.Parent])
		} else if i > 0 {
			b.PrevHash = fmt.Sprintf("%064x", 0xdead0000+i) // a hash nobody has
		}
		e.blocks = append(e.blocks, b)
		e.idx[b] = i
	}
	for _, n := range in.Rounds {
		r := round.NewRound(int64(n))
		e.rounds[n] = r
		e.c.AddRound(r)
	}
	// the chain always has a latest finalized block (genesis at least)
	if r0, ok := e.rounds[0]; ok {
		r0.Finalize(e.blocks[0])
	}
	e.c.SetLatestFinalizedBlock(e.blocks[0])
	return e
}

func (e *env) id(b *block.Block) int {
	if b == nil {
		return -1
	}
	if i, ok := e.idx[b]; ok {
		return i
	}
	return -2
}

// ancestors by following PrevBlock pointers (the engine's own reference, independent of the code under test)
func (e *env) isAncestor(a, b int, in *input) bool { // a ancestor-or-self of b
	for x := b; x >= 0; x = in.Blocks[x].Parent {
		if x == a {
			return true
		}
	}
	return false
}

// ---------------------------------------------------------------------------------- compute cases

func treeCoq(in *input) string {
	bs := make([]string, len(in.Blocks))
	for i, b := range in.Blocks {
		p := "None"
		if b.Parent >= 0 {
			p = fmt.Sprintf("(Some %d)", b.Parent)
		}
		bs[i] = fmt.Sprintf("(%d, %d, %s)", i, b.Round, p)
	}
	return vh.List(bs)
}

func natList(xs []int) string {
	out := make([]string, len(xs))
	for i, x := range xs {
		out[i] = fmt.Sprintf("%d", x)
	}
	return vh.List(out)
}

func callCtx(missing bool) (context.Context, context.CancelFunc) {
	// a missing previous block makes the real code try to fetch it; there is no network here, so the
	// attempt is bounded by the context
	d := 5 * time.Second
	if missing {
		d = 40 * time.Millisecond
	}
	return context.WithTimeout(context.Background(), d)
}

func hasMissing(in *input) bool {
	for i, b := range in.Blocks {
		if i > 0 && b.Parent < 0 {
			return true
		}
	}
	return false
}

func runCompute(in *input) (cs string, fail string, kind string) {
	viper.Set("server_chain.lfb_ticket.ahead", 5)
	e := build(in)
	knownCoq := make([]string, len(in.Rounds))
	for i, n := range in.Rounds {
		var ids []int
		if i < len(in.Known) {
			ids = in.Known[i]
		}
		for _, k := range ids {
			e.rounds[n].AddNotarizedBlock(e.blocks[k])
		}
		knownCoq[i] = fmt.Sprintf("(%d, %s)", n, natList(ids))
	}
	ctx, cancel := callCtx(hasMissing(in))
	defer cancel()
	got := e.id(e.c.ComputeFinalizedBlock(ctx, int64(in.Lfbr), e.rounds[in.R]))
	res := "None"
	if got >= 0 {
		res = fmt.Sprintf("(Some %d)", got)
	}
	cs = fmt.Sprintf("(FcCompute %s %s %d %d %s)%%nat", treeCoq(in), vh.List(knownCoq), in.Lfbr, in.R, res)

	// reference: latest round in (lfbr, r] with notarized blocks, scanning down while round objects exist
	var S []int
	rho := -1
	for n := in.R; n > in.Lfbr; n-- {
		pos := -1
		for i, rn := range in.Rounds {
			if rn == n {
				pos = i
			}
		}
		if pos < 0 {
			break
		}
		if pos < len(in.Known) && len(in.Known[pos]) > 0 {
			S, rho = in.Known[pos], n
			break
		}
	}
	want := -1
	if rho >= 0 {
		// deepest block in an earlier round that is an ancestor of every block of S
		for c := range in.Blocks {
			if in.Blocks[c].Round >= rho {
				continue
			}
			all := true
			for _, b := range S {
				if !e.isAncestor(c, b, in) {
					all = false
				}
			}
			if all && (want < 0 || in.Blocks[c].Round > in.Blocks[want].Round) {
				want = c
			}
		}
	}
	switch {
	case rho < 0:
		kind = "no-notarized-round"
	case want < 0:
		kind = "no-common-ancestor"
	case len(S) > 1:
		kind = "fork"
	default:
		kind = "single"
	}
	if got != want {
		if got < 0 {
			fail = "no-finalized-block-although-common-ancestor-exists"
		} else if want < 0 {
			fail = "finalized-block-without-common-ancestor"
		} else if !allAnc(e, in, got, S) {
			fail = "finalized-block-not-ancestor-of-all-notarized"
		} else {
			fail = "finalized-block-not-deepest-common-ancestor"
		}
	}
	return
}

func allAnc(e *env, in *input, c int, S []int) bool {
	for _, b := range S {
		if !e.isAncestor(c, b, in) || c == b {
			return false
		}
	}
	return true
}

// ---------------------------------------------------------------------------------- history cases

func runHistory(in *input) (cs string, fail string, kinds map[string]int) {
	kinds = map[string]int{}
	viper.Set("server_chain.lfb_ticket.ahead", in.Ahead)
	e := build(in)
	known := map[int][]int{}
	set := func(f string) {
		if fail == "" {
			fail = f
		}
	}
	var opsCoq, obsCoq []string
	finalizedAt := map[int]int{0: 0} // round -> block finalized by the worker
	left := false                    // a finalizeRound ran while its premise was false
	for _, o := range in.Ops {
		plfb := e.id(e.c.GetLatestFinalizedBlock())
		var hand []string
		switch o.K {
		case "add":
			b := e.blocks[o.N]
			rn := in.Blocks[o.N].Round
			if r, ok := e.rounds[rn]; ok {
				r.AddNotarizedBlock(b)
				dup := false
				for _, k := range known[rn] {
					if k == o.N {
						dup = true
					}
				}
				if !dup {
					known[rn] = append(known[rn], o.N)
				}
			}
			opsCoq = append(opsCoq, fmt.Sprintf("FzAdd %d", o.N))
			kinds["add"]++
		case "finalize":
			r, ok := e.rounds[o.N]
			if !ok {
				continue
			}
			opsCoq = append(opsCoq, fmt.Sprintf("FzFinalize %d", o.N))
			// the property's premise for this call: known notarized blocks above the LFB descend from it
			premise := true
			for rn, ids := range known {
				if rn > in.Blocks[plfb].Round && rn <= o.N {
					for _, b := range ids {
						if !e.isAncestor(plfb, b, in) {
							premise = false
						}
					}
				}
			}
			ctx, cancel := callCtx(hasMissing(in))
			done := make(chan struct{})
			e.vc.seen = nil
			go func() { e.c.VerifFinalizeRound(ctx, r); close(done) }()
			var accepted, handed []int
			for {
				// wait for a hand-off or for finalizeRound to return, whichever comes first
				tctx, tcancel := context.WithCancel(ctx)
				go func() {
					select {
					case <-done:
						tcancel()
					case <-tctx.Done():
					}
				}()
				fb, reply, ok := e.c.VerifTakeFinalizeBlock(tctx)
				tcancel()
				if !ok {
					break
				}
				err := e.worker(fb)
				handed = append(handed, e.id(fb))
				hand = append(hand, fmt.Sprintf("(%d, %s)", e.id(fb), vh.Bool(err == nil)))
				if err == nil {
					accepted = append(accepted, e.id(fb))
					if old, ok := finalizedAt[int(fb.Round)]; ok && old != e.id(fb) && !left && premise {
						set("two-finalized-blocks-in-one-round")
					}
					finalizedAt[int(fb.Round)] = e.id(fb)
					kinds["worker-accepted"]++
				} else {
					kinds["worker-rejected"]++
				}
				reply(err)
			}
			<-done
			cancel()
			lfb := e.id(e.c.GetLatestFinalizedBlock())
			switch {
			case lfb == plfb:
				kinds["finalize-no-change"]++
			case e.isAncestor(plfb, lfb, in):
				kinds["finalize-advanced"]++
			default:
				kinds["finalize-rolled-back-or-jumped"]++
			}
			// whatever the notarized blocks are: when the computed block is at most `ahead` rounds above the
			// previous LFB, the view change and every block handed to the finalized-block worker
			// (accepted or not) must descend from the previous LFB
			for _, vb := range e.vc.seen {
				x := e.id(vb)
				if x < 0 || in.Blocks[x].Round <= in.Blocks[plfb].Round {
					continue // roll-back branch
				}
				gap := in.Blocks[x].Round - in.Blocks[plfb].Round
				kinds[fmt.Sprintf("forward-gap-minus-ahead=%+d", clamp(gap-in.Ahead))]++
				if gap > in.Ahead {
					continue
				}
				if !e.isAncestor(plfb, x, in) {
					set("block-off-the-lfb-chain-handed-to-finalization")
				}
				for _, hb := range handed {
					if !e.isAncestor(plfb, hb, in) {
						set("block-off-the-lfb-chain-handed-to-finalization")
					}
				}
			}
			if !premise {
				kinds["premise-false"]++
				left = true // from here on the history is outside the property's premise
			}
			// the property: the new finalized block descends from the previous one, and so does every accepted block, in order
			if !left {
				if !e.isAncestor(plfb, lfb, in) {
					set("finalized-block-not-descendant-of-previous")
				}
				prev := plfb
				for _, a := range accepted {
					if !e.isAncestor(prev, a, in) || a == prev {
						set("accepted-block-does-not-extend-finalized-chain")
					}
					prev = a
				}
				if len(accepted) > 0 && accepted[len(accepted)-1] != lfb {
					set("lfb-is-not-last-accepted-block")
				}
			}
		}
		lfb := e.id(e.c.GetLatestFinalizedBlock())
		obsCoq = append(obsCoq, fmt.Sprintf("(%d, %s)", lfb, vh.List(hand)))
	}
	cs = fmt.Sprintf("(FcHistory %s %d 0 %s %s %s)%%nat", treeCoq(in), in.Ahead, natList(in.Rounds), vh.List(opsCoq), vh.List(obsCoq))
	return
}

func clamp(d int) int {
	if d < -2 {
		return -2
	}
	if d > 2 {
		return 2
	}
	return d
}

// worker: what finalizeBlockProcess checks before finalizing (worker.go) and what finalizeBlock
// records at its end (protocol_block.go); the state saving in between is not run.
func (e *env) worker(fb *block.Block) error {
	pr := e.c.GetRound(fb.Round - 1)
	if pr == nil {
		return errors.New("previous round is missing")
	}
	h := pr.GetBlockHash()
	if h == "" || !pr.IsFinalized() {
		return errors.New("previous round not finalized")
	}
	if fb.PrevHash != h {
		return errors.New("could not connect to lfb")
	}
	fr := e.c.GetRound(fb.Round)
	if fr == nil {
		return errors.New("round does not exist")
	}
	fr.Finalize(fb)
	e.c.SetLatestFinalizedBlock(fb)
	return nil
}

// ---------------------------------------------------------------------------------- generators

// genTree: a random forest hanging from genesis; every block's parent is in the previous round,
// except that 1 in 10 trees contains blocks whose previous block is missing.
func genTree(r *vh.Rand, maxRound, maxPerRound int, missing bool) []blk {
	bs := []blk{{0, -1}}
	prev := []int{0}
	for rn := 1; rn <= maxRound; rn++ {
		n := 1
		if r.Chance(1, 3) {
			n = r.Range(1, maxPerRound)
		}
		var cur []int
		for k := 0; k < n; k++ {
			p := prev[r.Intn(len(prev))]
			if missing && r.Chance(1, 6) {
				p = -1
			}
			bs = append(bs, blk{rn, p})
			cur = append(cur, len(bs)-1)
		}
		prev = cur
	}
	return bs
}

func hasInt(xs []int, x int) bool {
	for _, y := range xs {
		if y == x {
			return true
		}
	}
	return false
}

func allRounds(n int) []int {
	out := make([]int, n+1)
	for i := range out {
		out[i] = i
	}
	return out
}

func genCompute(r *vh.Rand) *input {
	maxRound := r.Range(1, 7)
	missing := r.Chance(1, 12)
	in := &input{Kind: "compute", Blocks: genTree(r, maxRound, 3, missing)}
	in.Rounds = allRounds(maxRound)
	if r.Chance(1, 8) && maxRound > 2 { // a round object is missing
		k := r.Range(1, maxRound-1)
		in.Rounds = append(in.Rounds[:k], in.Rounds[k+1:]...)
	}
	in.Known = make([][]int, len(in.Rounds))
	top := r.Range(1, maxRound) // rounds above `top` have no notarized block known yet
	for i, b := range in.Blocks {
		if b.Round == 0 || b.Round > top || r.Chance(1, 7) {
			continue
		}
		for j, rn := range in.Rounds {
			if rn == b.Round {
				in.Known[j] = append(in.Known[j], i)
			}
		}
	}
	if r.Chance(1, 3) {
		// re-proposals: all blocks of a round have the same rank; a round object holds one block per
		// rank, so at most one of them is known as notarized there - the others are previous blocks only
		for j, rn := range in.Rounds {
			if rn == 0 || r.Chance(1, 2) {
				continue
			}
			in.SameRank = append(in.SameRank, rn)
			if len(in.Known[j]) > 1 {
				in.Known[j] = in.Known[j][r.Intn(len(in.Known[j])):][:1]
			}
		}
	}
	in.R = in.Rounds[r.Intn(len(in.Rounds))]
	if r.Chance(2, 3) {
		in.R = in.Rounds[len(in.Rounds)-1]
	}
	in.Lfbr = r.Intn(maxRound)
	if r.Chance(1, 2) {
		in.Lfbr = 0
	}
	return in
}

func genHistory(r *vh.Rand) *input {
	maxRound := r.Range(4, 10)
	in := &input{Kind: "history", Blocks: genTree(r, maxRound, 2, r.Chance(1, 15)), Rounds: allRounds(maxRound), Ahead: []int{5, 5, 3, 2}[r.Intn(4)]}
	// the node learns blocks roughly in round order and runs finalizeRound as rounds complete
	order := make([]int, 0, len(in.Blocks))
	for i := 1; i < len(in.Blocks); i++ {
		order = append(order, i)
	}
	if r.Chance(1, 3) { // late arrivals: some blocks are learned out of order
		for k := 0; k < 3 && len(order) > 2; k++ {
			i, j := r.Intn(len(order)), r.Intn(len(order))
			order[i], order[j] = order[j], order[i]
		}
	}
	lastRound := 0
	for _, i := range order {
		if r.Chance(1, 10) {
			continue // never learned
		}
		in.Ops = append(in.Ops, fop{"add", i})
		rn := in.Blocks[i].Round
		if rn > lastRound {
			lastRound = rn
		}
		if r.Chance(1, 2) {
			fr := lastRound
			if r.Chance(1, 5) {
				fr = r.Range(1, maxRound)
			}
			in.Ops = append(in.Ops, fop{"finalize", fr})
		}
	}
	in.Ops = append(in.Ops, fop{"finalize", maxRound})
	return in
}

// genForkHistory: the main line is learned and finalized round by round up to an LFB in round L; then
// a fork that branches off below the LFB (so it does not contain the LFB) is learned up to a round
// chosen so that the block finalizeRound computes lies ahead-1, ahead or ahead+1 (sometimes +2/-2)
// rounds above the LFB, and finalizeRound runs on the fork's top round.
func genForkHistory(r *vh.Rand, ahead, delta int) *input {
	L := r.Range(2, 4)
	gap := ahead + delta
	if gap < 1 {
		gap = 1
	}
	top := L + gap + 1 // finalizeRound(top) computes the fork block of round L+gap
	mainTop := L + 3
	in := &input{Kind: "history", Ahead: ahead}
	in.Blocks = []blk{{0, -1}}
	mainIdx := map[int]int{0: 0}
	for rn := 1; rn <= mainTop; rn++ {
		in.Blocks = append(in.Blocks, blk{rn, mainIdx[rn-1]})
		mainIdx[rn] = len(in.Blocks) - 1
	}
	branch := L - 1 - r.Intn(L) // the fork leaves the main line at this round (below the LFB)
	prev := mainIdx[branch]
	var fork []int
	for rn := branch + 1; rn <= top; rn++ {
		in.Blocks = append(in.Blocks, blk{rn, prev})
		prev = len(in.Blocks) - 1
		fork = append(fork, prev)
	}
	maxR := top
	if mainTop > maxR {
		maxR = mainTop
	}
	in.Rounds = allRounds(maxR)
	for rn := 1; rn <= mainTop; rn++ {
		in.Ops = append(in.Ops, fop{"add", mainIdx[rn]})
		if rn >= 4 {
			in.Ops = append(in.Ops, fop{"finalize", rn})
		}
	}
	for _, f := range fork {
		in.Ops = append(in.Ops, fop{"add", f})
	}
	in.Ops = append(in.Ops, fop{"finalize", top})
	if r.Chance(1, 2) {
		in.Ops = append(in.Ops, fop{"finalize", top})
	}
	return in
}

// exhaustive trees: every way to hang up to maxBlocks blocks under genesis in rounds 1..maxRound
// (parent in the previous round), every choice of which blocks are known as notarized.
func exhaustive(maxBlocks, maxRound int, f func(in *input)) int {
	count := 0
	var rec func(bs []blk)
	rec = func(bs []blk) {
		if len(bs) > 1 {
			n := len(bs) - 1
			top := bs[n].Round
			for mask := 1; mask < 1<<n; mask++ {
				in := &input{Kind: "compute", Blocks: append([]blk{}, bs...), Rounds: allRounds(top), R: top, Lfbr: 0}
				in.Known = make([][]int, top+1)
				for i := 1; i <= n; i++ {
					if mask&(1<<(i-1)) != 0 {
						in.Known[bs[i].Round] = append(in.Known[bs[i].Round], i)
					}
				}
				f(in)
				count++
				// the same tree where the blocks of every round with at most one notarized block all
				// carry the same rank (different timeout counts)
				in2 := *in
				for rn, ids := range in.Known {
					if rn > 0 && len(ids) <= 1 {
						in2.SameRank = append(in2.SameRank, rn)
					}
				}
				if len(in2.SameRank) > 0 {
					f(&in2)
					count++
				}
			}
		}
		if len(bs)-1 == maxBlocks {
			return
		}
		last := bs[len(bs)-1]
		// next block: same round as the last one (canonical order: parent index not below the last block's parent) or the next round
		for _, rn := range []int{last.Round, last.Round + 1} {
			if rn == 0 || rn > maxRound {
				continue
			}
			for p := range bs {
				if bs[p].Round != rn-1 {
					continue
				}
				if rn == last.Round && p < last.Parent {
					continue
				}
				rec(append(bs, blk{rn, p}))
			}
		}
	}
	rec([]blk{{0, -1}})
	return count
}

func key(in *input) string {
	var b strings.Builder
	fmt.Fprintf(&b, "%v|%s|%v|%v|%v|%d|%d|%d|%v", in.SameRank, in.Kind, in.Blocks, in.Rounds, in.Known, in.Lfbr, in.R, in.Ahead, in.Ops)
	return b.String()
}

func main() {
	o := vh.ParseFlags()
	logging.Logger = zap.NewNop()
	logging.N2n = zap.NewNop()
	client.SetClientSignatureScheme("ed25519")
	round.SetupEntity(memorystore.GetStorageProvider())
	block.SetupEntity(memorystore.GetStorageProvider())
	block.SetupBlockSummaryEntity(memorystore.GetStorageProvider())
	dbdir := filepath.Join(o.Out, fmt.Sprintf("statedb-%d", os.Getpid()))
	_ = os.MkdirAll(filepath.Join(dbdir, "data/rocksdb/state/log"), 0o755)
	defer os.RemoveAll(dbdir)
	chain.SetupStateDB(dbdir) // SetLatestFinalizedBlock records the LFB round in the state DB
	node.Self.Node.Type = node.NodeTypeSharder

	rep := vh.NewReport("finalize", "C36", o)
	rep.Rule = "compute: every tree of up to N blocks over up to 4 rounds under genesis (parent in the previous round) x every set of " +
		"blocks known as notarized, plus random forests (up to 7 rounds, up to 3 blocks a round, 1 in 12 with missing previous blocks, " +
		"1 in 8 with a missing round object, random LFB round and target round); history: random forests over 4-10 rounds learned " +
		"block by block (1 in 3 with late arrivals) with finalizeRound calls in between, ahead 2-5. Non-trivial = compute: the " +
		"notarized round has a fork or no common ancestor; history: the worker accepted and the LFB advanced at least twice; distinct by full input"
	cf := &vh.CasesFile{Imports: []string{"Base.Corr", "Model.Finalize", "Corr.Finalize"}, CaseType: "fz_case", CheckFn: "fz_check"}

	handle := func(in *input, toCoq bool) {
		var cs, fail string
		nontriv := false
		switch in.Kind {
		case "compute":
			var kind string
			cs, fail, kind = runCompute(in)
			rep.Count("compute-" + kind)
			nontriv = kind == "fork" || kind == "no-common-ancestor"
		case "history":
			var kinds map[string]int
			cs, fail, kinds = runHistory(in)
			for k, n := range kinds {
				rep.CountN(k, n)
			}
			nontriv = kinds["worker-accepted"] > 0 && kinds["finalize-advanced"] >= 2
		default:
			panic("unknown kind " + in.Kind)
		}
		rep.Case(key(in), nontriv, in)
		if toCoq {
			cf.Add(cs)
			rep.CaseInputs = append(rep.CaseInputs, in)
		}
		if fail == "" {
			return
		}
		min := in
		if in.Kind == "history" {
			keep := vh.ShrinkIdx(len(in.Ops), func(keep []int) bool {
				in2 := *in
				in2.Ops = nil
				for _, i := range keep {
					in2.Ops = append(in2.Ops, in.Ops[i])
				}
				_, f2, _ := runHistory(&in2)
				return f2 == fail
			})
			in2 := *in
			in2.Ops = nil
			for _, i := range keep {
				in2.Ops = append(in2.Ops, in.Ops[i])
			}
			min = &in2
		} else {
			// drop known blocks while the failure stays
			type kb struct{ r, b int }
			var all []kb
			for i, ids := range in.Known {
				for _, b := range ids {
					all = append(all, kb{i, b})
				}
			}
			mk := func(keep []int) *input {
				in2 := *in
				in2.Known = make([][]int, len(in.Known))
				for _, i := range keep {
					in2.Known[all[i].r] = append(in2.Known[all[i].r], all[i].b)
				}
				return &in2
			}
			keep := vh.ShrinkIdx(len(all), func(keep []int) bool {
				_, f2, _ := runCompute(mk(keep))
				return f2 == fail
			})
			min = mk(keep)
		}
		rep.Violate("C36:"+fail, "finalization: "+fail, min)
	}
	finish := func() {
		files, err := cf.Write(o.Out, "C36")
		if err != nil {
			panic(err)
		}
		rep.CaseFiles = files
		rep.ShardSize = 400
		rep.Write(o.Out)
	}

	var rin input
	if o.LoadReplay(&rin) {
		handle(&rin, true)
		finish()
		return
	}
	// directed histories: a fork that is notarized in the same round as the main line after the
	// main line was finalized (the premise of the property fails: finalizeRound rolls the LFB back
	// to the common ancestor), a fork that dies, a chain longer than the walk-back limit
	fork := []blk{{0, -1}, {1, 0}, {2, 1}, {3, 2}, {4, 3}, {5, 4}, {6, 5}, {2, 1}, {3, 7}, {4, 8}, {5, 9}, {6, 10}, {7, 6}, {8, 12}}
	long := []blk{{0, -1}}
	for i := 1; i <= 9; i++ {
		long = append(long, blk{i, i - 1})
	}
	adds := func(ids ...int) []fop {
		var out []fop
		for _, i := range ids {
			out = append(out, fop{"add", i})
		}
		return out
	}
	cat := func(xs ...[]fop) []fop {
		var out []fop
		for _, x := range xs {
			out = append(out, x...)
		}
		return out
	}
	fin := func(r int) []fop { return []fop{{"finalize", r}} }
	for _, in := range []*input{
		{Kind: "history", Blocks: fork, Rounds: allRounds(8), Ahead: 5,
			Ops: cat(adds(1, 2, 3, 4, 5), fin(5), adds(6, 7, 8, 9, 10, 11), fin(6), adds(12, 13), fin(8), fin(8))},
		{Kind: "history", Blocks: fork, Rounds: allRounds(8), Ahead: 5,
			Ops: cat(adds(1, 2, 7, 3, 8, 4, 5), fin(5), adds(6, 12), fin(7), adds(9, 10, 11), fin(7), adds(13), fin(8))},
		{Kind: "history", Blocks: long, Rounds: allRounds(9), Ahead: 3,
			Ops: cat(adds(1, 2, 3, 4, 5, 6, 7, 8, 9), fin(9), fin(5), fin(6), fin(7), fin(8), fin(9))},
		{Kind: "history", Blocks: long, Rounds: allRounds(9), Ahead: 5,
			Ops: cat(adds(1, 2, 3, 4), fin(4), fin(4), adds(5, 6), fin(6), adds(7, 8, 9), fin(9), fin(3), fin(9))},
	} {
		handle(in, true)
	}
	rnd := vh.NewRand(o.Seed)
	// forks that do not contain the LFB, with the computed block at every distance around the walk-back limit
	for _, ahead := range []int{3, 4, 5} {
		for delta := -2; delta <= 2; delta++ {
			for k := 0; k < o.N(2, 10); k++ {
				handle(genForkHistory(rnd, ahead, delta), true)
			}
		}
	}
	for i := 0; i < o.N(250, 2500); i++ {
		handle(genCompute(rnd), true)
	}
	for i := 0; i < o.N(150, 1500); i++ {
		handle(genHistory(rnd), true)
	}
	maxBlocks := o.N(5, 7)
	coqBudget := o.N(200, 1500)
	n := exhaustive(maxBlocks, 4, func(in *input) {
		toCoq := false
		if coqBudget > 0 && len(in.Blocks) <= 5 {
			// a spread of the small trees also goes to the model
			sum := 0
			for _, ids := range in.Known {
				sum += len(ids)
			}
			if (len(in.Blocks)*7+sum*3+in.Blocks[len(in.Blocks)-1].Parent)%3 == 0 {
				toCoq = true
				coqBudget--
			}
		}
		handle(in, toCoq)
	})
	rep.Note("exhaustive: %d (tree, notarized set) pairs: all trees with up to %d blocks over up to 4 rounds under genesis, every non-empty set of blocks known as notarized, on the implementation oracle; a spread of those with at most 4 blocks also compared with the model", n, maxBlocks)
	finish()
}
