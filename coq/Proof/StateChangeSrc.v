(* C28: the apply that the source tree contains, as reported by translators/applycheck. *)
From ZC Require Import Model.StateChange Proof.StateChange Gen.StateChangeApply.

Section Src.
  Variables (node hash bhash : Type).
  Variable heqb : hash -> hash -> bool.
  Variable bheqb : bhash -> bhash -> bool.
  Variable H : node -> hash.
  Variable children : node -> list hash.
  Hypothesis heqb_spec : forall a b, heqb a b = true <-> a = b.
  Hypothesis bheqb_spec : forall a b, bheqb a b = true <-> a = b.
  Hypothesis H_inj : forall a b, H a = H b -> a = b.

  Definition sc_sync_src (local : sc_db node) (b : sc_block hash bhash) (cs : sc_change node hash bhash) : sc_res node hash :=
    if sc_refs_checked then sc_sync_fix node hash bhash heqb bheqb H children local b cs
    else sc_sync node hash bhash heqb bheqb H children local b cs.

  (* whatever the source's apply accepts passed every check of the modelled apply *)
  Lemma sc_src_ok_inv local b cs db' r : sc_sync_src local b cs = ScOk db' r ->
    sc_sync node hash bhash heqb bheqb H children local b cs = ScOk db' r.
  Proof.
    unfold sc_sync_src. destruct sc_refs_checked; [|auto]. intros Hok.
    apply (sc_sync_fix_inv node hash bhash heqb bheqb H children) in Hok. tauto.
  Qed.

  Lemma sc_src_integrity local b cs db' r dbH :
    sc_sync_src local b cs = ScOk db' r -> sc_complete node hash heqb H children dbH (sb_state b) ->
    r = sb_state b /\
    (forall n, In n (sc_nodes cs) -> sc_reach node hash heqb H children dbH r n) /\
    (forall n, sc_reach node hash heqb H children db' r n -> sc_reach node hash heqb H children dbH r n).
  Proof.
    intros Hok Hc. apply sc_src_ok_inv in Hok.
    exact (sc_accepted_integrity node hash bhash heqb bheqb H children heqb_spec bheqb_spec H_inj local b cs db' r dbH Hok Hc).
  Qed.

  (* the accepted state is complete when the source has the reference check *)
  Lemma sc_src_complete local b cs db' r :
    sc_sync_src local b cs = ScOk db' r -> sc_closed node hash heqb H children local ->
    if sc_refs_checked then sc_complete node hash heqb H children db' r else True.
  Proof.
    unfold sc_sync_src. destruct sc_refs_checked; [|auto]. intros Hok Hcl.
    eapply (sc_fix_accepted_complete node hash bhash heqb bheqb H children heqb_spec bheqb_spec); eauto.
  Qed.
End Src.
