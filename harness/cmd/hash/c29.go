package main

// C29: block hash commits to contents; Block.Validate rejects hash mismatch / bad generator
// signature / repeated transactions. Everything runs on the real chaincore/block code.

import (
	"context"
	"encoding/hex"
	"fmt"
	"reflect"
	"sort"
	"strings"

	"0chain.net/chaincore/block"
	"0chain.net/chaincore/node"
	"0chain.net/chaincore/transaction"
	"0chain.net/core/common"
	"0chain.net/core/config"
	"0chain.net/core/encryption"
	"github.com/0chain/common/core/currency"
	"github.com/0chain/common/core/util"
	"verifharness/vh"
)

// ---------- generators ----------

var edgeI64 = []int64{0, 1, -1, 2, 7, 1 << 31, 1<<53 - 1, 1 << 53, 1<<53 + 1, 1<<63 - 1, -1 << 63, 1700000000}

func genTxn(r *vh.Rand, scheme string, now int64) (*transaction.Transaction, encryption.SignatureScheme) {
	k := schemeKey(r, scheme)
	t := &transaction.Transaction{}
	t.Version = "1.0"
	t.PublicKey = k.GetPublicKey()
	if r.Chance(2, 3) {
		t.ClientID = encryption.Hash(mustHex(t.PublicKey))
	}
	t.ToClientID = randHash(r)
	if r.Chance(1, 10) {
		t.ToClientID = ""
	}
	t.ChainID = config.GetServerChainID()
	if r.Chance(1, 4) {
		t.ChainID = ""
	}
	t.CreationDate = common.Timestamp(now + int64(r.Range(-500, 500)))
	t.Nonce = r.Pick64([]int64{1, 2, 3, 1 << 40, 1<<63 - 1, int64(r.Intn(1000) + 1)})
	t.Value = currency.Coin(r.PickU64([]uint64{0, 1, 5, 1 << 53, 1<<63 - 1, 1 << 63, 1<<64 - 1, uint64(r.Intn(1000000))}))
	t.Fee = currency.Coin(r.PickU64([]uint64{0, 1, 1000, 1 << 40}))
	switch r.Intn(3) {
	case 0:
		t.TransactionType = transaction.TxnTypeSend
		t.TransactionData = ""
	case 1:
		t.TransactionType = transaction.TxnTypeData
		t.TransactionData = "note " + randHash(r)[:r.Range(0, 20)]
	default:
		t.TransactionType = transaction.TxnTypeSmartContract
		t.TransactionData = fmt.Sprintf(`{"name":"f%d","input":{"a":%d}}`, r.Intn(5), r.Intn(100))
	}
	if err := t.ComputeProperties(); err != nil {
		panic(err)
	}
	if _, err := t.Sign(k); err != nil {
		panic(err)
	}
	return t, k
}

func mustHex(s string) []byte {
	b, err := hex.DecodeString(s)
	if err != nil {
		panic(err)
	}
	return b
}

type genOpts struct {
	mb          int // 0 none, 1 with preset hash, 2 with empty hash
	ntx         int
	txnsMapKind int // 0 nil, 1 computed
}

func genBlock(r *vh.Rand, o genOpts) (*block.Block, *minerNode) {
	ms := getMiners()
	m := ms[r.Intn(len(ms))]
	now := int64(1700000000 + r.Intn(1000000))
	b := &block.Block{}
	b.Version = "1.0"
	b.CreationDate = common.Timestamp(now)
	b.LatestFinalizedMagicBlockHash = randHash(r)
	b.LatestFinalizedMagicBlockRound = int64(r.Intn(1000))
	b.PrevHash = randHash(r)
	b.PrevBlockVerificationTickets = []*block.VerificationTicket{{VerifierID: ms[0].nd.GetKey(), Signature: randHash(r)}}
	b.MinerID = m.nd.GetKey()
	b.Round = r.Pick64(edgeI64)
	if r.Chance(1, 2) {
		b.Round = int64(r.Intn(100000))
	}
	b.RoundRandomSeed = r.Pick64(edgeI64)
	if r.Chance(1, 2) {
		b.RoundRandomSeed = int64(r.U64())
	}
	b.RoundTimeoutCount = r.Intn(3)
	b.ClientStateHash = util.Key(randBytes(r, 32))
	b.ChainID = config.GetServerChainID()
	b.RunningTxnCount = int64(r.Intn(100000))
	b.StateChangesCount = r.Intn(500)
	b.VerificationTickets = []*block.VerificationTicket{{VerifierID: ms[1].nd.GetKey(), Signature: randHash(r)}}
	for i := 0; i < o.ntx; i++ {
		t, _ := genTxn(r, encryption.SignatureSchemeBls0chain, now)
		t.TransactionOutput = "out-" + randHash(r)[:8]
		if r.Chance(1, 5) {
			t.TransactionOutput = ""
		}
		t.OutputHash = t.ComputeOutputHash()
		t.Status = transaction.TxnSuccess
		b.Txns = append(b.Txns, t)
	}
	if o.mb > 0 {
		mb := block.NewMagicBlock()
		mb.PreviousMagicBlockHash = randHash(r)
		mb.MagicBlockNumber = int64(r.Intn(50) + 1)
		mb.StartingRound = int64(r.Intn(100000))
		mb.T, mb.K, mb.N = 2, 3, 4
		mb.Miners = node.NewPool(node.NodeTypeMiner)
		mb.Sharders = node.NewPool(node.NodeTypeSharder)
		if o.mb == 1 {
			mb.Hash = mb.GetHash()
		}
		b.MagicBlock = mb
	}
	if o.txnsMapKind == 1 {
		b.ComputeTxnMap()
	}
	return b, m
}

func signBlock(b *block.Block, m *minerNode) {
	b.HashBlock()
	sig, err := m.key.Sign(b.Hash)
	if err != nil {
		panic(err)
	}
	b.Signature = sig
}

// ---------- reflection over the fields of a block ----------

type leaf struct {
	path string
	v    reflect.Value
}

func scalarKind(v reflect.Value) bool {
	switch v.Kind() {
	case reflect.String, reflect.Bool, reflect.Int, reflect.Int8, reflect.Int16, reflect.Int32, reflect.Int64,
		reflect.Uint, reflect.Uint8, reflect.Uint16, reflect.Uint32, reflect.Uint64:
		return true
	case reflect.Slice:
		return v.Type().Elem().Kind() == reflect.Uint8
	}
	return false
}

// scalarLeaves lists the exported scalar fields of struct v (embedded structs flattened).
func scalarLeaves(v reflect.Value, prefix string, out *[]leaf) {
	t := v.Type()
	for i := 0; i < t.NumField(); i++ {
		f := t.Field(i)
		if f.PkgPath != "" {
			continue
		}
		fv := v.Field(i)
		switch {
		case fv.Kind() == reflect.Struct && f.Anonymous:
			scalarLeaves(fv, prefix, out)
		case scalarKind(fv):
			*out = append(*out, leaf{prefix + f.Name, fv})
		}
	}
}

func isHexStr(s string) bool {
	if len(s) == 0 || len(s)%2 != 0 {
		return false
	}
	_, err := hex.DecodeString(s)
	return err == nil
}

func mutateScalar(v reflect.Value, r *vh.Rand) {
	switch v.Kind() {
	case reflect.String:
		s := v.String()
		if isHexStr(s) {
			v.SetString(flipHexBit(s, r.Intn(len(s)*4)))
		} else {
			v.SetString(s + "x")
		}
	case reflect.Bool:
		v.SetBool(!v.Bool())
	case reflect.Int, reflect.Int8, reflect.Int16, reflect.Int32, reflect.Int64:
		v.SetInt(v.Int() + 1)
	case reflect.Uint, reflect.Uint8, reflect.Uint16, reflect.Uint32, reflect.Uint64:
		v.SetUint(v.Uint() + 1)
	case reflect.Slice:
		b := append([]byte{}, v.Bytes()...)
		if len(b) == 0 {
			b = []byte{1}
		} else {
			b[r.Intn(len(b))] ^= 1 << uint(r.Intn(8))
		}
		v.SetBytes(b)
	}
}

// blockPaths enumerates everything of a block the engine knows how to mutate.
func blockPaths(b *block.Block) []string {
	var ls []leaf
	scalarLeaves(reflect.ValueOf(b).Elem(), "", &ls)
	var ps []string
	for _, l := range ls {
		ps = append(ps, l.path)
	}
	ps = append(ps, "MagicBlock", "PrevBlockVerificationTickets", "VerificationTickets", "TxnsMap")
	if b.MagicBlock != nil {
		var ms []leaf
		scalarLeaves(reflect.ValueOf(b.MagicBlock).Elem(), "MagicBlock.", &ms)
		for _, l := range ms {
			ps = append(ps, l.path)
		}
	}
	if len(b.Txns) > 0 {
		var ts []leaf
		scalarLeaves(reflect.ValueOf(b.Txns[0]).Elem(), "Txns[].", &ts)
		for _, l := range ts {
			ps = append(ps, l.path)
		}
		ps = append(ps, "Txns:drop", "Txns:append", "Txns:swap")
	} else {
		ps = append(ps, "Txns:append")
	}
	sort.Strings(ps)
	return ps
}

// applyMutation changes exactly the named path of b. Returns the model-level path name.
func applyMutation(b *block.Block, path string, r *vh.Rand) (modelPath string, ok bool) {
	switch {
	case path == "MagicBlock":
		if b.MagicBlock == nil {
			mb := block.NewMagicBlock()
			mb.Miners = node.NewPool(node.NodeTypeMiner)
			mb.Sharders = node.NewPool(node.NodeTypeSharder)
			mb.StartingRound = 5
			mb.Hash = mb.GetHash()
			b.MagicBlock = mb
		} else {
			b.MagicBlock = nil
		}
		return "MagicBlock", true
	case path == "PrevBlockVerificationTickets":
		b.PrevBlockVerificationTickets = append(b.PrevBlockVerificationTickets, &block.VerificationTicket{VerifierID: "v", Signature: "s"})
		return path, true
	case path == "VerificationTickets":
		b.VerificationTickets = append(b.VerificationTickets, &block.VerificationTicket{VerifierID: "v", Signature: "s"})
		return path, true
	case path == "TxnsMap":
		if b.TxnsMap == nil {
			b.TxnsMap = map[string]bool{}
		}
		b.TxnsMap["extra-"+randHash(r)] = true
		return path, true
	case path == "Txns:drop":
		if len(b.Txns) == 0 {
			return "", false
		}
		b.Txns = b.Txns[:len(b.Txns)-1]
		return "Txns[].Hash", true
	case path == "Txns:append":
		t, _ := genTxn(r, encryption.SignatureSchemeBls0chain, int64(b.CreationDate))
		t.OutputHash = t.ComputeOutputHash()
		b.Txns = append(b.Txns, t)
		return "Txns[].Hash", true
	case path == "Txns:swap":
		if len(b.Txns) < 2 {
			return "", false
		}
		b.Txns[0], b.Txns[1] = b.Txns[1], b.Txns[0]
		return "Txns[].Hash", true
	case strings.HasPrefix(path, "Txns[]."):
		if len(b.Txns) == 0 {
			return "", false
		}
		var ls []leaf
		scalarLeaves(reflect.ValueOf(b.Txns[r.Intn(len(b.Txns))]).Elem(), "Txns[].", &ls)
		for _, l := range ls {
			if l.path == path {
				mutateScalar(l.v, r)
				return path, true
			}
		}
		return "", false
	case strings.HasPrefix(path, "MagicBlock."):
		if b.MagicBlock == nil {
			return "", false
		}
		var ls []leaf
		scalarLeaves(reflect.ValueOf(b.MagicBlock).Elem(), "MagicBlock.", &ls)
		for _, l := range ls {
			if l.path == path {
				mutateScalar(l.v, r)
				return path, true
			}
		}
		return "", false
	}
	var ls []leaf
	scalarLeaves(reflect.ValueOf(b).Elem(), "", &ls)
	for _, l := range ls {
		if l.path == path {
			mutateScalar(l.v, r)
			return path, true
		}
	}
	return "", false
}

// ---------- Coq printing ----------

func coqVal(v reflect.Value) (string, bool) {
	switch v.Kind() {
	case reflect.String:
		return "(VStr " + vh.Str(v.String()) + ")", true
	case reflect.Int, reflect.Int8, reflect.Int16, reflect.Int32, reflect.Int64:
		return "(VInt " + vh.Z(v.Int()) + ")", true
	case reflect.Uint, reflect.Uint8, reflect.Uint16, reflect.Uint32, reflect.Uint64:
		return "(VInt " + vh.ZU(v.Uint()) + ")", true
	}
	return "", false
}

// merklePairs records MHash for the adjacent pairs of every level, in the shape of
// util.MerkleTree.ComputeTree, using the real util.MHash.
func merklePairs(leaves []string, tab map[[2]string]string) {
	l := leaves
	for len(l) >= 1 {
		var next []string
		for i := 0; i < len(l); i += 2 {
			a, b := l[i], l[i]
			if i+1 < len(l) {
				b = l[i+1]
			}
			h := util.MHash(a, b)
			tab[[2]string{a, b}] = h
			next = append(next, h)
		}
		if len(next) == 1 {
			return
		}
		l = next
	}
}

func coqPairsTable(tab map[[2]string]string) string {
	keys := make([][2]string, 0, len(tab))
	for k := range tab {
		keys = append(keys, k)
	}
	sort.Slice(keys, func(i, j int) bool {
		if keys[i][0] != keys[j][0] {
			return keys[i][0] < keys[j][0]
		}
		return keys[i][1] < keys[j][1]
	})
	out := make([]string, len(keys))
	for i, k := range keys {
		out[i] = vh.Pair(vh.Pair(vh.Str(k[0]), vh.Str(k[1])), vh.Str(tab[k]))
	}
	return vh.List(out)
}

// blockObject dumps every exported scalar of the block (a superset of what any table can name)
// as a Coq association list; must be called BEFORE ComputeHash (which fills MagicBlock.Hash).
func blockObject(b *block.Block) (obj string, mhs string) {
	var ls []leaf
	scalarLeaves(reflect.ValueOf(b).Elem(), "", &ls)
	var kv []string
	for _, l := range ls {
		if s, ok := coqVal(l.v); ok {
			kv = append(kv, vh.Pair(vh.Str(l.path), s))
		}
	}
	tab := map[[2]string]string{}
	// one list per string field of the transactions
	if n := len(b.Txns); n >= 0 {
		fields := map[string][]string{}
		var order []string
		for _, t := range b.Txns {
			var ts []leaf
			scalarLeaves(reflect.ValueOf(t).Elem(), "Txns[].", &ts)
			for _, l := range ts {
				if l.v.Kind() == reflect.String {
					if _, ok := fields[l.path]; !ok {
						order = append(order, l.path)
					}
					fields[l.path] = append(fields[l.path], l.v.String())
				}
			}
		}
		if n == 0 {
			order = []string{"Txns[].Hash", "Txns[].OutputHash"}
		}
		for _, p := range order {
			items := make([]string, len(fields[p]))
			for i, s := range fields[p] {
				items[i] = vh.Str(s)
			}
			kv = append(kv, vh.Pair(vh.Str(p), "(VList "+vh.List(items)+")"))
			if p == "Txns[].Hash" || p == "Txns[].OutputHash" {
				merklePairs(fields[p], tab)
			}
		}
	}
	if b.MagicBlock != nil {
		kv = append(kv, vh.Pair(vh.Str("MagicBlock"), "(VStr \"\")"))
		var ms []leaf
		scalarLeaves(reflect.ValueOf(b.MagicBlock).Elem(), "MagicBlock.", &ms)
		for _, l := range ms {
			if s, ok := coqVal(l.v); ok {
				kv = append(kv, vh.Pair(vh.Str(l.path), s))
			}
		}
		kv = append(kv, vh.Pair(vh.Str("MagicBlock.GetHash()"), "(VStr "+vh.Str(b.MagicBlock.GetHash())+")"))
	}
	return vh.List(kv), coqPairsTable(tab)
}

// ---------- Validate: inputs and verdict classes ----------

func blockVerdict(err error) string {
	switch {
	case err == nil:
		return "BkOk"
	case err == config.ErrSupportedChain:
		return "BkBadChain"
	}
	switch errCode(err) {
	case "invalid_request":
		return "BkNoHash"
	case "unknown_miner":
		return "BkUnknownMiner"
	case "duplicate_transactions":
		return "BkDuplicateTxns"
	case "incorrect_block_hash":
		return "BkHashMismatch"
	case "signature invalid":
		return "BkBadSignature"
	}
	return "BkSigError"
}

func coqOptBool(known bool, v bool) string {
	if !known {
		return "None"
	}
	return vh.Some(vh.Bool(v))
}

func blockCase(b *block.Block) (coq string, verdict string) {
	chainOK := config.ValidChain(b.ChainID) == nil
	nd := node.GetNode(b.MinerID)
	txmap := "None"
	if b.TxnsMap != nil {
		txmap = vh.Some(vh.Nat(len(b.TxnsMap)))
	}
	computed := b.ComputeHash()
	sig := "None"
	if nd != nil {
		ok, err := nd.Verify(b.Signature, b.Hash)
		sig = coqOptBool(err == nil, ok)
	}
	err := b.Validate(context.Background())
	verdict = blockVerdict(err)
	coq = fmt.Sprintf("(HcBlk {| bki_chain_ok := %s; bki_hash := %s; bki_miner := %s; bki_miner_known := %s; bki_ntxns := %s; bki_txnsmap := %s; bki_computed := %s; bki_sig := %s |} %s)",
		vh.Bool(chainOK), vh.Str(b.Hash), vh.Str(b.MinerID), vh.Bool(nd != nil), vh.Nat(len(b.Txns)), txmap, vh.Str(computed), sig, verdict)
	return coq, verdict
}

// ---------- the property's own list (oracle; independent of the generated table) ----------

type reqField struct {
	name  string // as in the property statement
	paths []string
}

var c29Required = []reqField{
	{"generator", []string{"MinerID"}},
	{"parent", []string{"PrevHash"}},
	{"round", []string{"Round"}},
	{"seed", []string{"RoundRandomSeed"}},
	{"transactions", []string{"Txns[].Hash", "Txns:drop", "Txns:append", "Txns:swap"}},
	{"outputs", []string{"Txns[].OutputHash"}},
	{"resulting state", []string{"ClientStateHash"}},
	{"magic block", []string{"MagicBlock", "MagicBlock.Hash", "MagicBlock.StartingRound", "MagicBlock.MagicBlockNumber", "MagicBlock.PreviousMagicBlockHash"}},
}

func c29RequiredOf(path string) (string, bool) {
	for _, rf := range c29Required {
		for _, p := range rf.paths {
			if p == path {
				return rf.name, true
			}
		}
	}
	return "", false
}

// violation signature for an unbound required path
func c29Sig(path string) string {
	switch {
	case strings.HasPrefix(path, "Txns"):
		return "C29:field-not-bound:" + strings.ReplaceAll(strings.ReplaceAll(path, "[]", ""), ":", ".")
	case strings.HasPrefix(path, "MagicBlock.") && path != "MagicBlock.Hash":
		return "C29:field-not-bound:MagicBlock.contents"
	}
	return "C29:field-not-bound:" + path
}

type c29Input struct {
	item
	Opts struct {
		MB, NTx, TxMap int
	} `json:"opts"`
}

func (in c29Input) opts() genOpts { return genOpts{in.Opts.MB, in.Opts.NTx, in.Opts.TxMap} }

func runC29(o vh.Opts) {
	initEnv()
	rep := vh.NewReport("hash", "C29", o)
	rep.Rule = "random real blocks (0-7 signed transactions with outputs, 3 generators, magic block absent / with stored hash / with empty hash, " +
		"edge int64 rounds and seeds); per block: every exported scalar field, every transaction field, every magic-block field and the " +
		"ticket/transaction lists are mutated one at a time and ComputeHash/Validate observed; plus tampered hash, tampered and foreign " +
		"generator signature, unknown generator, repeated transactions. Non-trivial = the block has transactions, at least one mutation " +
		"changed the hash and at least one did not; distinct by (seed, stream, index)"
	cf := &vh.CasesFile{Imports: []string{"Base.Corr", "Model.HashEnc", "Corr.HashEnc"}, CaseType: "hc_case", CheckFn: "hc_check"}
	addCase := func(term string, in interface{}) {
		cf.Add(term)
		rep.CaseInputs = append(rep.CaseInputs, in)
	}

	handle := func(in c29Input, toCoq bool) {
		r := in.rand()
		fresh := func() (*block.Block, *minerNode) { return genBlock(in.rand(), in.opts()) }
		_ = r
		b0, m := fresh()
		// 1. hashed string vs model
		obj, mhs := blockObject(b0)
		signBlock(b0, m)
		data := b0.VerifHashData()
		if toCoq {
			addCase(fmt.Sprintf("(HcData false %s [] %s (Some %s))", obj, mhs, vh.Str(data)), in)
		}
		rep.Count(fmt.Sprintf("blocks-ntx-%d", len(b0.Txns)))
		rep.Count(fmt.Sprintf("blocks-mb-%d", in.Opts.MB))
		if err := b0.Validate(context.Background()); err != nil {
			rep.Violate("C29:valid-block-rejected", "a correctly hashed and signed block is rejected: "+err.Error(), in)
			return
		}
		// 2. one mutation per path
		changed, unchanged := 0, 0
		mr := in.rand().Fork()
		for _, p := range blockPaths(b0) {
			b, m2 := fresh()
			signBlock(b, m2)
			lazyEmpty := in.Opts.MB == 2
			// the stored magic block hash was filled by signBlock->ComputeHash; restore the generated state
			if lazyEmpty && b.MagicBlock != nil {
				b.MagicBlock.Hash = ""
			}
			if p == "MinerID" { // stay inside the known generators so that the hash check is reached
				ms := getMiners()
				for _, x := range ms {
					if x.nd.GetKey() != b.MinerID {
						b.MinerID = x.nd.GetKey()
						break
					}
				}
			} else if p == "MagicBlock.Hash" && lazyEmpty {
				b.MagicBlock.Hash = randHash(mr)
			}
			mp := p
			if p != "MinerID" && !(p == "MagicBlock.Hash" && lazyEmpty) {
				mbBefore := ""
				if b.MagicBlock != nil {
					mbBefore = b.MagicBlock.GetHash()
				}
				var ok bool
				mp, ok = applyMutation(b, p, mr)
				if !ok {
					continue
				}
				// for the model the contents of the magic block are one pseudo field: what GetHash() returns
				if strings.HasPrefix(p, "MagicBlock.") && p != "MagicBlock.Hash" && b.MagicBlock.GetHash() != mbBefore {
					mp = "MagicBlock.GetHash()"
					rep.Count("magic-block-content-mutations-changing-GetHash")
				}
			}
			newHash := b.ComputeHash()
			ch := newHash != b0.Hash
			if ch {
				changed++
			} else {
				unchanged++
			}
			if toCoq {
				mi := in
				mi.Tamper = p
				addCase(fmt.Sprintf("(HcMut false %s %s %s)", vh.Bool(lazyEmpty), vh.Str(mp), vh.Bool(ch)), mi)
			}
			// oracle: the property's own list
			if name, req := c29RequiredOf(p); req {
				rep.Count("required-mutations")
				// a stored magic block hash that ComputeHash has just recomputed from the contents is not a
				// tampering any more (nothing differing from the contents survives)
				healed := p == "MagicBlock.Hash" && b.MagicBlock != nil && b.MagicBlock.Hash == b.MagicBlock.GetHash()
				if !ch && healed {
					rep.Count("stored-magic-block-hash-recomputed")
				} else if !ch {
					mi := in
					mi.Tamper = p
					mi.Note = "required: " + name
					rep.Violate(c29Sig(p), fmt.Sprintf("changing %s (%s) does not change the block hash; Validate=%v", p, name, b.Validate(context.Background())), mi)
				} else if err := b.Validate(context.Background()); err == nil {
					mi := in
					mi.Tamper = p
					rep.Violate("C29:tampered-block-accepted", fmt.Sprintf("changing %s changes ComputeHash but Validate accepts the block with the old hash", p), mi)
				}
			} else if !ch {
				rep.Count("unlisted-field-not-hashed")
			}
			if toCoq && (ch || p == "TxnsMap" || p == "ChainID" || p == "Hash" || p == "Signature") {
				c, v := blockCase(b)
				mi := in
				mi.Tamper = p
				addCase(c, mi)
				rep.Count("verdict-" + v)
			}
		}
		// 3. malformed stream on this block
		type tam struct {
			name string
			f    func(b *block.Block, m *minerNode)
			must string // signature kind if accepted
		}
		ms := getMiners()
		other := ms[0]
		if other == m {
			other = ms[1]
		}
		tams := []tam{
			{"hash-first-bit", func(b *block.Block, m *minerNode) {
				b.Hash = flipHexBit(b.Hash, 0)
				b.Signature, _ = m.key.Sign(b.Hash)
			}, "C29:hash-mismatch-accepted"},
			{"hash-last-bit", func(b *block.Block, m *minerNode) {
				b.Hash = flipHexBit(b.Hash, 255)
				b.Signature, _ = m.key.Sign(b.Hash)
			}, "C29:hash-mismatch-accepted"},
			{"hash-random-bit", func(b *block.Block, m *minerNode) {
				b.Hash = flipHexBit(b.Hash, mr.Intn(256))
				b.Signature, _ = m.key.Sign(b.Hash)
			}, "C29:hash-mismatch-accepted"},
			{"hash-upper-case", func(b *block.Block, m *minerNode) { b.Hash = strings.ToUpper(b.Hash) }, "C29:hash-mismatch-accepted"},
			{"hash-one-letter-case", func(b *block.Block, m *minerNode) { b.Hash = flipOneLetterCase(b.Hash, mr) }, "C29:hash-mismatch-accepted"},
			{"hash-upper-case-resigned", func(b *block.Block, m *minerNode) {
				b.Hash = strings.ToUpper(b.Hash)
				b.Signature, _ = m.key.Sign(b.Hash)
			}, "C29:hash-mismatch-accepted"},
			{"sig-foreign-key", func(b *block.Block, m *minerNode) { b.Signature, _ = other.key.Sign(b.Hash) }, "C29:bad-signature-accepted"},
			{"sig-bit", func(b *block.Block, m *minerNode) { b.Signature = flipHexBit(b.Signature, mr.Intn(256)) }, "C29:bad-signature-accepted"},
			{"sig-of-other-hash", func(b *block.Block, m *minerNode) { b.Signature, _ = m.key.Sign(randHash(mr)) }, "C29:bad-signature-accepted"},
			{"sig-empty", func(b *block.Block, m *minerNode) { b.Signature = "" }, "C29:bad-signature-accepted"},
			{"unknown-miner", func(b *block.Block, m *minerNode) { b.MinerID = randHash(mr); signBlock(b, m) }, "C29:unknown-generator-accepted"},
			{"empty-hash", func(b *block.Block, m *minerNode) { b.Hash = "" }, "C29:hash-mismatch-accepted"},
			{"empty-miner", func(b *block.Block, m *minerNode) { b.MinerID = ""; signBlock(b, m) }, "C29:unknown-generator-accepted"},
			{"wrong-chain", func(b *block.Block, m *minerNode) { b.ChainID = randHash(mr) }, "C29:wrong-chain-accepted"},
		}
		if len(b0.Txns) > 0 {
			tams = append(tams,
				tam{"dup-last-txn", func(b *block.Block, m *minerNode) {
					b.Txns = append(b.Txns, b.Txns[len(b.Txns)-1])
					signBlock(b, m)
					b.ComputeTxnMap()
				}, "C29:duplicate-transaction-accepted"},
				tam{"dup-first-txn", func(b *block.Block, m *minerNode) {
					b.Txns = append(b.Txns, b.Txns[0])
					signBlock(b, m)
					b.ComputeTxnMap()
				}, "C29:duplicate-transaction-accepted"},
				tam{"dup-via-compute-properties", func(b *block.Block, m *minerNode) {
					b.Txns = append(b.Txns, b.Txns[mr.Intn(len(b.Txns))].Clone())
					signBlock(b, m)
					if err := b.ComputeProperties(); err != nil {
						panic(err)
					}
				}, "C29:duplicate-transaction-accepted"},
				tam{"dup-without-txnsmap", func(b *block.Block, m *minerNode) {
					b.Txns = append(b.Txns, b.Txns[len(b.Txns)-1])
					b.TxnsMap = nil
					signBlock(b, m)
				}, ""},
			)
		}
		for _, t := range tams {
			b, m2 := fresh()
			signBlock(b, m2)
			oldHash := b.Hash
			t.f(b, m2)
			if t.name == "dup-last-txn" && len(b.Txns)%2 == 0 {
				// the Merkle root ignores a repeated last leaf of an odd level
				if b.Hash == oldHash {
					rep.Count("merkle-root-blind-to-repeated-last-leaf")
				} else {
					rep.Violate("C29:merkle-shape", "repeating the last of an odd number of transactions changed the hash (model shape wrong)", in)
				}
				if toCoq {
					bb, _ := fresh()
					bb.Txns = append(bb.Txns, bb.Txns[len(bb.Txns)-1])
					obj2, mhs2 := blockObject(bb)
					mi := in
					mi.Tamper = t.name
					addCase(fmt.Sprintf("(HcData false %s [] %s (Some %s))", obj2, mhs2, vh.Str(bb.VerifHashData())), mi)
				}
			}
			err := b.Validate(context.Background())
			rep.Count("tamper-" + t.name + "-" + blockVerdict(err))
			if strings.HasPrefix(t.name, "hash-") && b.Hash == b.ComputeHash() {
				rep.Count("tamper-" + t.name + "-no-letters")
				continue // the hash had no letter to change: not a tampering
			}
			// the property: a received block whose Hash field is not exactly ComputeHash() is rejected
			if err == nil && b.Hash != b.ComputeHash() {
				mi := in
				mi.Tamper = t.name
				rep.Violate("C29:hash-mismatch-accepted", "Block.Validate accepts a block whose Hash field differs from ComputeHash() ("+t.name+")", mi)
			}
			if err == nil && t.must != "" {
				mi := in
				mi.Tamper = t.name
				rep.Violate(t.must, "Block.Validate accepts a block with "+t.name, mi)
			}
			if toCoq {
				c, _ := blockCase(b)
				mi := in
				mi.Tamper = t.name
				addCase(c, mi)
			}
		}
		rep.Case(fmt.Sprintf("%d/%s/%d", in.Seed, in.Stream, in.Index), len(b0.Txns) > 0 && changed > 0 && unchanged > 0, in)
	}

	var rin c29Input
	if o.LoadReplay(&rin) {
		handle(rin, true)
	} else {
		n := o.N(40, 600)
		coqBlocks := o.N(6, 30)
		rnd := vh.NewRand(o.Seed)
		for i := 0; i < n; i++ {
			in := c29Input{item: item{Prop: "C29", Stream: "blocks", Seed: o.Seed, Index: i}}
			in.Opts.MB = []int{0, 0, 1, 2}[rnd.Intn(4)]
			in.Opts.NTx = []int{0, 1, 2, 3, 3, 4, 5, 7}[rnd.Intn(8)]
			in.Opts.TxMap = rnd.Intn(2)
			if i < 3 { // make sure the three magic-block shapes and an odd transaction count are always present
				in.Opts.MB, in.Opts.NTx, in.Opts.TxMap = i, 3, 1
			}
			handle(in, i < coqBlocks)
		}
	}
	files, err := cf.Write(o.Out, "C29")
	if err != nil {
		panic(err)
	}
	rep.CaseFiles = files
	rep.ShardSize = 400
	rep.Write(o.Out)
}
