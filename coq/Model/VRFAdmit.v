(* Admission of VRF shares for one round (property C33): the control flow of
     miner/protocol_bls.go  (mc *Chain) AddVRFShare
     chaincore/round/entity.go  (r *Round) AddVRFShare
   generic in the share type and in the verification function, so that the algebraic model
   (Model/VRF.v) and the executable instance used by the correspondence check (Corr/VRF.v) share
   it.  Definitions only (stdlib style). *)
From Coq Require Import List Bool Arith.
Import ListNotations.
Set Implicit Arguments.

(* minersc contributeMpk (smartcontract/minersc/dkg.go), in the Contribute phase: the public
   polynomial of a miner is recorded only if the sender is in the DKG miner set, has not
   contributed yet, and the polynomial has exactly T coefficients (degree < T); the seed
   theorems need every recorded polynomial to have at most T coefficients *)
Definition va_mpk_accept (t : nat) (member already : bool) (len : nat) : bool :=
  member && negb already && Nat.eqb len t.

Section Admit.
Variable Sh : Type.
Variable va_tc_ok : Sh -> bool.      (* the share's timeout count equals the round's *)
Variable va_same : Sh -> Sh -> bool. (* same sending miner (shares are keyed by the party's key) *)
Variable va_verify : Sh -> bool.     (* verifyVRFShare *)

(* state = the shares admitted so far (a map keyed by miner in the code), result = new state and
   the boolean AddVRFShare returns.  Order of the tests as in the code: timeout count, already
   have a share of that miner, already at threshold, signature verification. *)
Definition va_add (t : nat) (st : list Sh) (sh : Sh) : list Sh * bool :=
  if negb (va_tc_ok sh) then (st, false)
  else if existsb (va_same sh) st then (st, false)
  else if t <=? length st then (st, false)
  else if negb (va_verify sh) then (st, false)
  else (st ++ [sh], true).

Fixpoint va_run (t : nat) (st : list Sh) (evs : list Sh) : list Sh * list bool :=
  match evs with
  | [] => (st, [])
  | sh :: tl => let '(st1, ok) := va_add t st sh in
                let '(st2, oks) := va_run t st1 tl in (st2, ok :: oks)
  end.

(* ThresholdNumBLSSigReceived: a seed is computed only with at least t admitted shares *)
Definition va_has_seed (t : nat) (st : list Sh) : bool := t <=? length st.

End Admit.
