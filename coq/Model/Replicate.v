(* Model of the replicating-sharder choice (property C42):
     core/encryption/hash_score.go   XORHashScorer.Score
     chaincore/node/node_pool.go     Pool.AddNode / computeNodePositions (SetIndex)
     chaincore/node/node_pool_scorer.go  HashPoolScorer.ScoreHash, Node.IsInTop, IsInTopWithNodes
     chaincore/chain/entity.go       IsBlockSharder(FromHash), CanShardBlockWithReplicators
   Definitions only; proofs are in Proof/Replicate.v.
   A node is its key (the id, hex string; modelled by the integer it denotes, same order for
   equal-length lower-case hex) and its idBytes (set only by Node.SetID; empty otherwise).
   Pointer identity of nodes inside one pool is modelled by key equality (keys are unique in a
   pool).  Scores are int32 in Go: with id lengths below 2^28 bytes no overflow is possible. *)
From Coq Require Export List ZArith Bool Arith Lia.
Export ListNotations.
Open Scope Z_scope.

Record rp_node := { rp_key : Z; rp_idb : list Z }.

(* for i := 0; i < 8; i++ { score += int32(x & 1); x >>= 1 } *)
Fixpoint rp_pop (fuel : nat) (x : Z) : Z :=
  match fuel with
  | O => 0
  | S f => x mod 2 + rp_pop f (x / 2)
  end.

(* Score(hash1 = idBytes, hash2 = block hash): ranges over hash1 and indexes hash2; None = the
   Go code panics (index out of range) because the hash is shorter than the id *)
Fixpoint rp_score (idb hash : list Z) : option Z :=
  match idb with
  | [] => Some 0
  | b :: t =>
      match hash with
      | [] => None
      | h :: ht => option_map (Z.add (rp_pop 8 (Z.lxor b h))) (rp_score t ht)
      end
  end.

(* ---- Pool.AddNode + computeNodePositions: sort.SliceStable by key ---- *)
Fixpoint rp_ins_key (x : rp_node) (l : list rp_node) : list rp_node :=
  match l with
  | [] => [x]
  | y :: t => if Z.ltb (rp_key y) (rp_key x) then y :: rp_ins_key x t else x :: y :: t
  end.

Definition rp_sort_key (l : list rp_node) : list rp_node := fold_right rp_ins_key [] l.

Definition rp_has_key (l : list rp_node) (k : Z) : bool :=
  existsb (fun y => Z.eqb (rp_key y) k) l.

Fixpoint rp_replace (n : rp_node) (l : list rp_node) : list rp_node :=
  match l with
  | [] => []
  | y :: t => if Z.eqb (rp_key y) (rp_key n) then n :: t else y :: rp_replace n t
  end.

Definition rp_add (pool : list rp_node) (n : rp_node) : list rp_node :=
  rp_sort_key (if rp_has_key pool (rp_key n) then rp_replace n pool else pool ++ [n]).

(* a pool built by adding the nodes in the given order; position in the result = SetIndex *)
Definition rp_build (l : list rp_node) : list rp_node := fold_left rp_add l [].

(* ---- HashPoolScorer.ScoreHash ---- *)
Record rp_sc := { rp_idx : Z; rp_nd : rp_node; rp_val : Z }.

Fixpoint rp_scores_from (i : Z) (pool : list rp_node) (hash : list Z) : option (list rp_sc) :=
  match pool with
  | [] => Some []
  | n :: t =>
      match rp_score (rp_idb n) hash, rp_scores_from (i + 1) t hash with
      | Some s, Some r => Some ({| rp_idx := i; rp_nd := n; rp_val := s |} :: r)
      | _, _ => None
      end
  end.

(* less(i,j): equal score -> greater SetIndex first; else greater score first *)
Definition rp_less (a b : rp_sc) : bool :=
  if Z.eqb (rp_val a) (rp_val b) then Z.gtb (rp_idx a) (rp_idx b) else Z.gtb (rp_val a) (rp_val b).

Fixpoint rp_ins_sc (x : rp_sc) (l : list rp_sc) : list rp_sc :=
  match l with
  | [] => [x]
  | y :: t => if rp_less y x then y :: rp_ins_sc x t else x :: y :: t
  end.

Definition rp_sort_sc (l : list rp_sc) : list rp_sc := fold_right rp_ins_sc [] l.

Definition rp_score_hash (pool : list rp_node) (hash : list Z) : option (list rp_sc) :=
  option_map rp_sort_sc (rp_scores_from 0 pool hash).

(* ScoreHashString: a hash that is not hex gives nil scores *)
Definition rp_score_hash_string (pool : list rp_node) (hash : option (list Z)) : option (list rp_sc) :=
  match hash with
  | None => Some []
  | Some h => rp_score_hash pool h
  end.

(* ---- IsInTop / IsInTopWithNodes ---- *)
Definition rp_sc_dflt : rp_sc := {| rp_idx := 0; rp_nd := {| rp_key := 0; rp_idb := [] |}; rp_val := 0 |}.

Fixpoint rp_in_top_loop (l : list rp_sc) (min key : Z) : bool :=
  match l with
  | [] => false
  | x :: t => if Z.ltb (rp_val x) min then false
              else if Z.eqb (rp_key (rp_nd x)) key then true else rp_in_top_loop t min key
  end.

Fixpoint rp_top_loop (l : list rp_sc) (min : Z) : list rp_sc :=
  match l with
  | [] => []
  | x :: t => if Z.ltb (rp_val x) min then [] else x :: rp_top_loop t min
  end.

(* None = the Go code panics (nodeScores[topN-1] with topN <= 0) *)
Definition rp_min_score (sc : list rp_sc) (k : Z) : option (option Z) :=
  if Z.leb k (Z.of_nat (length sc)) then
    if Z.leb k 0 then None else Some (Some (rp_val (nth (Z.to_nat (k - 1)) sc rp_sc_dflt)))
  else Some None.

Definition rp_is_in_top (sc : list rp_sc) (k key : Z) : option bool :=
  match rp_min_score sc k with
  | None => None
  | Some None => Some false
  | Some (Some min) => Some (rp_in_top_loop sc min key)
  end.

Definition rp_is_in_top_with_nodes (sc : list rp_sc) (k key : Z) : option (bool * list rp_node) :=
  match rp_min_score sc k with
  | None => None
  | Some None => Some (false, [])
  | Some (Some min) =>
      let top := map rp_nd (rp_top_loop sc min) in Some (rp_has_key top key, top)
  end.

(* ---- Chain level; k = NumReplicators ---- *)
Definition rp_is_block_sharder (k : Z) (pool : list rp_node) (hash : option (list Z)) (key : Z) : option bool :=
  if Z.leb k 0 then Some true
  else match rp_score_hash_string pool hash with
       | None => None
       | Some sc => rp_is_in_top sc k key
       end.

Definition rp_can_shard_with_replicators (k : Z) (pool : list rp_node) (hash : option (list Z)) (key : Z)
  : option (bool * list rp_node) :=
  if Z.leb k 0 then Some (true, pool)
  else match rp_score_hash_string pool hash with
       | None => None
       | Some sc => rp_is_in_top_with_nodes sc k key
       end.

(* ---- the same with the SetIndex fields as recorded inputs ----
   Node.SetIndex lives in the node object and is rewritten by whichever pool computed positions
   last; when a node object is shared between pools the values seen by ScoreHash need not be the
   positions in this pool.  [idxs] = the SetIndex values observed, in pool order. *)
Fixpoint rp_scores_ix (idxs : list Z) (pool : list rp_node) (hash : list Z) : option (list rp_sc) :=
  match pool with
  | [] => Some []
  | n :: t =>
      match rp_score (rp_idb n) hash, rp_scores_ix (tl idxs) t hash with
      | Some s, Some r => Some ({| rp_idx := hd 0 idxs; rp_nd := n; rp_val := s |} :: r)
      | _, _ => None
      end
  end.

Definition rp_score_hash_string_ix (idxs : list Z) (pool : list rp_node) (hash : option (list Z)) : option (list rp_sc) :=
  match hash with
  | None => Some []
  | Some h => option_map rp_sort_sc (rp_scores_ix idxs pool h)
  end.

Definition rp_is_block_sharder_ix (idxs : list Z) (k : Z) (pool : list rp_node) (hash : option (list Z)) (key : Z) : option bool :=
  if Z.leb k 0 then Some true
  else match rp_score_hash_string_ix idxs pool hash with
       | None => None
       | Some sc => rp_is_in_top sc k key
       end.

Definition rp_can_shard_with_replicators_ix (idxs : list Z) (k : Z) (pool : list rp_node) (hash : option (list Z)) (key : Z)
  : option (bool * list rp_node) :=
  if Z.leb k 0 then Some (true, pool)
  else match rp_score_hash_string_ix idxs pool hash with
       | None => None
       | Some sc => rp_is_in_top_with_nodes sc k key
       end.

(* specification-side measure: how many nodes score strictly better than v *)
Definition rp_count_gt (sc : list rp_sc) (v : Z) : nat :=
  length (filter (fun x => Z.gtb (rp_val x) v) sc).
