(* C36: Finalization picks the common ancestor and extends a single chain.
   Only statements; each is closed by [exact] of a lemma in Proof/Finalize.v. *)
From ZC Require Import Model.Finalize Proof.Finalize.

(* ComputeFinalizedBlock: the block returned is, for the notarized blocks S of the latest round in
   (lfb round, r] that has any, the nearest block that is the same-generation ancestor of every
   block of S: it is reached from each in k >= 1 steps, and any block reached from each of them
   in the same number j >= 1 of steps lies k <= j and is an ancestor of the result.  It is not a
   block of round r.  (No assumption on the shape of the tree.) *)
Theorem C36_finalized_is_nearest_common_ancestor :
  forall t known lfbr r fb, fz_compute t known lfbr r = FzSome fb ->
  exists rho S k, fz_latest_nonempty known lfbr r rho S /\ 1 <= k /\
    (forall b, In b S -> fz_anc t k b = Some fb) /\
    (forall j c, 1 <= j -> (forall b, In b S -> fz_anc t j b = Some c) -> k <= j /\ fz_anc t (j - k) fb = Some c) /\
    fz_rnd t fb <> r.
Proof. exact fz_compute_some. Qed.
Print Assumptions C36_finalized_is_nearest_common_ancestor.

(* With every block one round after its previous block (as in the protocol): the result lies
   in an earlier round than those notarized blocks, is an ancestor of each of them, and every
   block that is a proper ancestor of each of them is an ancestor of the result - it is the
   most recent common ancestor in an earlier round. *)
Theorem C36_finalized_is_deepest_common_ancestor :
  forall t known lfbr r fb, fz_uniform t -> fz_known_ok t known -> fz_compute t known lfbr r = FzSome fb ->
  exists rho S, fz_latest_nonempty known lfbr r rho S /\
    fz_rnd t fb < rho /\
    (forall b, In b S -> fz_ancestor t fb b) /\
    (forall c, (forall b, In b S -> fz_ancestor t c b /\ c <> b) -> fz_ancestor t c fb).
Proof. exact fz_compute_deepest_common_ancestor. Qed.
Print Assumptions C36_finalized_is_deepest_common_ancestor.

(* nil is returned only when no round in (lfb round, r] has a notarized block the scan can reach,
   or the notarized blocks have no common ancestor that can be reached (a previous block is
   missing before the paths meet). *)
Theorem C36_no_block_only_without_common_ancestor :
  forall t known lfbr r, fz_uniform t -> fz_known_ok t known -> fz_compute t known lfbr r = FzNone ->
  (forall rho S, ~ fz_latest_nonempty known lfbr r rho S) \/
  (exists rho S, fz_latest_nonempty known lfbr r rho S /\
     forall j c, 1 <= j -> ~ (forall b, In b S -> fz_anc t j b = Some c)).
Proof. exact fz_compute_none. Qed.
Print Assumptions C36_no_block_only_without_common_ancestor.

(* the loops of ComputeFinalizedBlock end (previous blocks lie in earlier rounds) *)
Theorem C36_compute_terminates :
  forall t known lfbr r, fz_decreasing t -> fz_known_ok t known -> fz_compute t known lfbr r <> FzFuel.
Proof. exact fz_compute_terminates. Qed.
Print Assumptions C36_compute_terminates.

(* finalizeRound: when the notarized blocks known above the LFB (up to r) descend from the LFB,
   the new LFB descends from the old one, every block the worker accepted lies between them on
   that line, and the bookkeeping invariant (the LFB's round is finalized with the LFB, no later
   round is finalized) is kept. *)
Theorem C36_finalized_extends_lfb :
  forall t ahead st r, fz_uniform t -> fz_known_ok t (fz_known st) -> fz_inv t st ->
  fz_descend_from_lfb t st r -> fz_extends t st (fz_finalize t ahead st r).
Proof. exact fz_finalize_extends. Qed.
Print Assumptions C36_finalized_extends_lfb.

(* Over any history of learning notarized blocks and running finalizeRound, under the same
   condition at every finalizeRound: each LFB descends from the previous one and every accepted
   block lies on that line - the finalized blocks form one chain. *)
Theorem C36_single_chain :
  forall t ahead, fz_uniform t -> forall ops st,
  fz_known_ok t (fz_known st) -> fz_inv t st -> fz_good_run t ahead st ops -> fz_chain_run t ahead st ops.
Proof. exact fz_single_chain. Qed.
Print Assumptions C36_single_chain.

(* the start state (genesis finalized) satisfies the invariant *)
Theorem C36_initial_state_ok :
  forall t g rounds, fz_rnd t g = 0 -> fz_inv t (fz_init g rounds) /\ fz_known_ok t (fz_known (fz_init g rounds)).
Proof. exact fz_init_inv. Qed.
Print Assumptions C36_initial_state_ok.

(* Non-vacuity: a fork at round 2 that is resolved later.
     0 <- 1 <- 2 <- 4 <- 6 <- 7 <- 8        (round of block: 0 1 2 3 4 5 6)
               \- 3 <- 5                      (3 in round 2, 5 in round 3) *)
Example C36_example :
  let B i r p := {| fz_id := i; fz_round := r; fz_parent := p |} in
  let t := [B 0 0 None; B 1 1 (Some 0); B 2 2 (Some 1); B 3 2 (Some 1); B 4 3 (Some 2); B 5 3 (Some 3);
            B 6 4 (Some 4); B 7 5 (Some 6); B 8 6 (Some 7)] in
  let known := [(0, []); (1, [1]); (2, [2; 3]); (3, [4; 5]); (4, [6]); (5, [7]); (6, [8])] in
  fz_compute t known 0 3 = FzSome 1 /\ fz_compute t known 0 4 = FzSome 4 /\ fz_compute t known 0 7 = FzNone /\
  map (fun x => (fz_lfb (fst x), snd x))
      (fz_run t 5 (fz_init 0 [0; 1; 2; 3; 4; 5; 6]) [FzAdd 1; FzAdd 2; FzAdd 3; FzAdd 4; FzAdd 5; FzFinalize 3;
                                                        FzAdd 6; FzFinalize 4; FzAdd 7; FzAdd 8; FzFinalize 6])
  = [(0, []); (0, []); (0, []); (0, []); (0, []); (0, []); (0, []); (1, [(1, true)]); (1, []); (1, []);
     (4, [(2, true); (4, true)])].
Proof. vm_compute. repeat split. Qed.

(* Every block finalizeRound hands to the finalized-block worker - accepted or not - descends
   from the LFB, unless the computed block lies more than [ahead] rounds above the LFB (then
   the walk is cut short before it can be connected and the worker's own test decides).  No
   premise on the known notarized blocks: a fork that does not contain the LFB is refused by
   the walk's connectivity test, which precedes the cut-off. *)
Theorem C36_handed_blocks_descend_from_lfb :
  forall t ahead st r fb v, fz_uniform t ->
  In (fb, v) (snd (fz_finalize t ahead st r)) ->
  fz_ancestor t (fz_lfb st) fb \/
  exists l, fz_compute t (fz_known st) (fz_rnd t (fz_lfb st)) r = FzSome l /\ fz_rnd t (fz_lfb st) + ahead < fz_rnd t l.
Proof. exact fz_handed_blocks_descend. Qed.
Print Assumptions C36_handed_blocks_descend_from_lfb.
