(* C16: Vesting pays each destination at most its amount, on schedule.
   Only statements; each is closed by [exact] of a lemma in Proof/Vesting*.v.

   The model (Model/Vesting.v) takes the function that computes the share of a period as a
   parameter. [vs_share_int] is what destination.unlock computes (the whole remainder at the end,
   else left * period / full in integers, rounded down); the theorems below are about it, for all
   amounts up to 2^64 and all histories. [vs_share_f64] is what the code computed before commit
   2bd0df4 of /repo; the last section records, as history, the inputs on which that version
   overpaid (oracle signatures C16:float64-rounding-of-remainder-at-expiry and
   C16:ahead-of-schedule-by-float64-rounding, which must not fire any more). *)
From ZC Require Import Model.Vesting Proof.Vesting Proof.VestingWitness.
Open Scope Z_scope.

(* After any history (requests in the ranges of vs_op_wf: coins uint64, timestamps in [0, 2^61]):
   - vs_st_inv: for every destination 0 <= vested <= amount and start <= last transfer <= expiry;
     the pool balance is at least the sum of the unvested remainders;
   - vs_st_sched: never ahead of the linear schedule: vested * (expiry - start) <=
     amount * (time of the last transfer - start), hence at every later time as well. *)
Theorem C16_vested_within_amount_on_schedule_and_pool_covers_remainder :
  forall conf ops, Forall (vs_op_wf vs_two64) ops ->
    vs_st_inv vs_two64 (fst (vs_run vs_share_int conf None ops)) /\
    vs_st_sched (fst (vs_run vs_share_int conf None ops)).
Proof. exact vs_exact_full. Qed.
Print Assumptions C16_vested_within_amount_on_schedule_and_pool_covers_remainder.

(* vested never decreases: every request, every share function, no side condition *)
Theorem C16_vested_monotone :
  forall share conf p o p', fst (vs_step share conf (Some p) o) = Some p' ->
    vs_dests_mono (vp_dests p) (vp_dests p').
Proof. exact vs_step_mono. Qed.
Print Assumptions C16_vested_monotone.

(* In every pool satisfying the invariant (hence every reachable one):
   - the owner can delete it as soon as the clock is not behind the last transfer: the request
     succeeds, everything the pool holds is paid out and the pool is gone;
   - by expiry a destination can receive exactly its amount: its unlock at/after expiry succeeds,
     pays exactly the remainder and leaves vested = amount;
   - the owner can always withdraw the excess: refused only when there is none, and then exactly
     balance - remainders is paid. *)
Theorem C16_owner_and_destination_rights :
  (forall conf p now, vs_inv vs_two64 p ->
     Forall (fun d => vd_move d <= vs_clamp p now) (vp_dests p) ->
     exists tr, vs_step vs_share_int conf (Some p) (VsDelete (vp_owner p) now) = (None, VsOk tr) /\
                vs_tr_sum tr = vp_balance p) /\
  (forall conf p c now d, vs_inv vs_two64 p ->
     c <> vp_owner p -> vp_expire p <= now -> vs_find c (vp_dests p) = Some d -> 0 < vs_rem d ->
     exists p' d', vs_step vs_share_int conf (Some p) (VsUnlock c now) = (Some p', VsOk [(vs_contract, c, vs_rem d)]) /\
       vs_find c (vp_dests p') = Some d' /\ vd_vested d' = vd_amount d' /\ vd_amount d' = vd_amount d /\
       vp_balance p' = vp_balance p - vs_rem d) /\
  (forall conf p now, vs_inv vs_two64 p ->
     let excess := vp_balance p - vs_rem_sum (vp_dests p) in
     vs_step vs_share_int conf (Some p) (VsUnlock (vp_owner p) now) =
     if excess =? 0 then (Some p, VsFail)
     else (Some (vs_set_balance p (vs_rem_sum (vp_dests p))), VsOk [(vs_contract, vp_owner p, excess)])).
Proof. exact vs_exact_rights. Qed.
Print Assumptions C16_owner_and_destination_rights.

(* the owner's trigger is never refused on a pool with tokens and destinations (same clock condition) *)
Theorem C16_owner_trigger_not_refused :
  forall conf p now, vs_inv vs_two64 p -> vp_dests p <> [] -> 0 < vp_balance p ->
    Forall (fun d => vd_move d <= vs_clamp p now) (vp_dests p) ->
    exists p' tr, vs_step vs_share_int conf (Some p) (VsTrigger (vp_owner p) now) = (Some p', VsOk tr) /\
                  vp_balance p' = vp_balance p - vs_tr_sum tr.
Proof. exact vs_exact_trigger. Qed.
Print Assumptions C16_owner_trigger_not_refused.

(* ---- history: the float64 share used before 2bd0df4 ----
   amount 2^53+3: with 10 tokens of excess the destination was paid amount+1 and the owner's
   withdrawal and delete failed; with no excess every later request failed *)
Theorem C16_history_float64_share_overpaid_at_expiry :
  snd (vs_run vs_share_f64 vw_conf None vw_ops_excess) =
    [VsOk [(0, vs_contract, vw_amount + 10)]; VsOk [(vs_contract, 1, vw_amount + 1)]; VsFail; VsFail] /\
  snd (vs_run vs_share_f64 vw_conf None vw_ops_exact) =
    [VsOk [(0, vs_contract, vw_amount)]; VsFail; VsFail; VsFail; VsFail].
Proof. exact vw_owner_locked_out. Qed.
Print Assumptions C16_history_float64_share_overpaid_at_expiry.

(* ... and the same requests on the integer share *)
Example C16_former_witnesses_now :
  snd (vs_run vs_share_int vw_conf None vw_ops_excess) =
    [VsOk [(0, vs_contract, vw_amount + 10)]; VsOk [(vs_contract, 1, vw_amount)]; VsOk [(vs_contract, 0, 10)]; VsOk []] /\
  snd (vs_run vs_share_int vw_conf None vw_ops_exact) =
    [VsOk [(0, vs_contract, vw_amount)]; VsOk [(vs_contract, 1, vw_amount)]; VsFail; VsOk []; VsFail] /\
  match fst (vs_run vs_share_int vw_conf_long None vw_ops_sched) with
  | Some p => map vd_vested (vp_dests p) = [509978926160]
  | None => False
  end.
Proof. vm_compute. repeat split; reflexivity. Qed.

(* Non-vacuity: a pool with two destinations through unlock, trigger, owner withdrawal, stop,
   expiry and delete; every state met satisfies the hypotheses above *)
Example C16_example :
  snd (vs_run vs_share_int vw_conf None
    [VsAdd 0 1000 1000 (Some 1000) 1000 (100 * vs_second) [(1, 300); (2, 600)];
     VsUnlock 1 1010; VsTrigger 0 1033; VsUnlock 0 1034; VsStop 0 1050 2; VsUnlock 0 1051;
     VsUnlock 1 1100; VsUnlock 1 1101; VsDelete 0 1200])
  = [VsOk [(0, vs_contract, 1000)]; VsOk [(vs_contract, 1, 30)]; VsOk [(vs_contract, 1, 69); (vs_contract, 2, 198)];
     VsOk [(vs_contract, 0, 100)]; VsOk [(vs_contract, 2, 102)]; VsOk [(vs_contract, 0, 300)];
     VsOk [(vs_contract, 1, 201)]; VsFail; VsOk []].
Proof. vm_compute. reflexivity. Qed.
