(* C40: Magic-block lookup returns the block in force for a round.
   Only statements; each is closed by [exact] of a lemma in Proof/RoundStorage.v.
   Domain of the property (rs_hist_ok): starting rounds are >= 0 and a Prune removes older
   entries only, i.e. some stored starting round is greater than the pruned one (the only
   caller, Chain.PruneRoundStorage, always keeps at least one entry: C40_prune_storage). *)
From ZC Require Import Model.RoundStorage Proof.RoundStorage.
From Coq Require Import Sorting.Sorted.
Open Scope Z_scope.

(* After ANY history (no domain restriction) the starting rounds are strictly increasing,
   without repeats, and are exactly the keys of the stored set. *)
Theorem C40_rounds_sorted_nodup :
  forall ops, let s := rs_exec ops in
    StronglySorted Z.lt (rs_rounds s) /\ NoDup (rs_rounds s) /\
    forall k, rs_lookup (rs_items s) k <> None <-> In k (rs_rounds s).
Proof. exact rs_reachable_sorted_nodup. Qed.
Print Assumptions C40_rounds_sorted_nodup.

(* The stored set after a history of Put/Prune/queries is the plain function computed by
   rs_abs_run (Put overwrites; Prune(r) of a stored r removes every key <= r), whatever the
   insertion order. *)
Theorem C40_stored_set :
  forall ops, forallb rs_plain_op ops = true ->
  forall k, rs_lookup (rs_items (rs_exec ops)) k = rs_abs_run ops k.
Proof. exact rs_exec_abs. Qed.
Print Assumptions C40_stored_set.

(* The property: after any in-domain history, GetMagicBlock(q) is the entity with the greatest
   starting round <= q' (q' = q for q <= 4, q - 4 otherwise: the view-change offset), or the
   one with the greatest starting round of all when none is <= q'; it fails (Go: panic) only
   when nothing is stored. Stated on the stored set m alone. *)
Theorem C40_lookup_in_force :
  forall ops q,
  forallb rs_plain_op ops = true -> rs_hist_ok rs_new ops = true ->
  let m := rs_abs_run ops in
  let q' := if Z.leb q 4 then q else q - 4 in
  match rs_get_mb (rs_exec ops) q with
  | Some e =>
      (exists f, m f = Some e /\ f <= q' /\ forall y, m y <> None -> y <= q' -> y <= f) \/
      ((forall y, m y <> None -> q' < y) /\ exists f, m f = Some e /\ forall y, m y <> None -> y <= f)
  | None => forall y, m y = None
  end.
Proof. exact rs_lookup_in_force. Qed.
Print Assumptions C40_lookup_in_force.

(* The same on every reachable in-domain state, histories with PruneRoundStorage included. *)
Theorem C40_get_is_floor :
  forall ops q, rs_hist_ok rs_new ops = true ->
  let s := rs_exec ops in
  let q' := if Z.leb q 4 then q else q - 4 in
  match rs_get_mb s q with
  | Some e =>
      (exists f, rs_is_floor (rs_rounds s) q' f /\ rs_lookup (rs_items s) f = Some e) \/
      (rs_no_floor (rs_rounds s) q' /\ exists f, rs_is_latest (rs_rounds s) f /\ rs_lookup (rs_items s) f = Some e)
  | None => rs_rounds s = [] /\ forall k, rs_lookup (rs_items s) k = None
  end.
Proof. exact rs_get_mb_reachable. Qed.
Print Assumptions C40_get_is_floor.

(* GetPrevMagicBlock(q): the entity stored just before the one in force, or the chain's
   PreviousMagicBlock (None) when the one in force is the first stored or there is none. *)
Theorem C40_get_prev_is_predecessor :
  forall ops q, rs_hist_ok rs_new ops = true ->
  let s := rs_exec ops in
  let q' := if Z.leb q 4 then q else q - 4 in
  match rs_get_prev s q with
  | Some e => exists f p, rs_is_floor (rs_rounds s) q' f /\ rs_is_pred (rs_rounds s) f p /\
                          rs_lookup (rs_items s) p = Some e
  | None => rs_no_floor (rs_rounds s) q' \/
            (exists f, rs_is_floor (rs_rounds s) q' f /\ forall y, In y (rs_rounds s) -> f <= y)
  end.
Proof. exact rs_get_prev_reachable. Qed.
Print Assumptions C40_get_prev_is_predecessor.

(* Pruning: after any in-domain history, a successful Prune(r) of an older entry retains exactly
   the starting rounds > r, leaves the latest magic block unchanged and leaves GetMagicBlock(q)
   unchanged for every q whose lookup round is at or after the first retained starting round. *)
Theorem C40_prune_preserves_from_first_retained :
  forall ops r s', rs_hist_ok rs_new ops = true ->
  let s := rs_exec ops in
  rs_op_ok s (RsPrune r) = true -> rs_prune s r = (s', true) ->
  rs_get_latest s' = rs_get_latest s /\
  forall q, hd 0 (rs_rounds s') <= rs_mb_round_offset q -> rs_get_mb s' q = rs_get_mb s q.
Proof. exact rs_prune_preserves_hist. Qed.
Print Assumptions C40_prune_preserves_from_first_retained.

Theorem C40_prune_retains :
  forall ops r s', let s := rs_exec ops in
  rs_prune s r = (s', true) -> forall y, In y (rs_rounds s') <-> In y (rs_rounds s) /\ r < y.
Proof. exact rs_prune_retains_hist. Qed.
Print Assumptions C40_prune_retains.

(* Chain.PruneRoundStorage with any target count is a no-op or an in-domain Prune that leaves
   exactly [target] entries: it never removes the latest entry. *)
Theorem C40_prune_storage :
  forall ops t, let s := rs_exec ops in
  rs_prune_storage s t = s \/
  exists r, rs_prune_storage s t = fst (rs_prune s r) /\ rs_op_ok s (RsPrune r) = true /\
            snd (rs_prune s r) = true /\ length (rs_rounds (rs_prune_storage s t)) = t.
Proof. exact rs_prune_storage_reachable. Qed.
Print Assumptions C40_prune_storage.

(* Non-vacuity: an in-domain history with out-of-order insertion, overwrite, prune, offset. *)
Example C40_example :
  let ops := [RsPut 1 100; RsPut 2 0; RsPut 3 50; RsPut 4 50; RsPut 5 200; RsPrune 0;
              RsGetMB 53; RsGetMB 54; RsGetMB 3; RsGetMB 1000; RsGetPrev 204; RsGetPrev 60;
              RsPruneStorage 1%nat; RsRounds] in
  rs_hist_ok rs_new ops = true /\
  snd (rs_run rs_new ops) =
    [RsOk; RsOk; RsOk; RsOk; RsOk; RsOk;
     RsEnt (Some 5); RsEnt (Some 4); RsEnt (Some 5); RsEnt (Some 5); RsEnt (Some 1); RsEnt None;
     RsOk; RsList [200]].
Proof. vm_compute. split; reflexivity. Qed.

(* Reading "pruned point" as the pruned round r itself would be false of the code (and of any
   implementation that deletes r): r's own entity is gone, queries in [r, next) fall back to
   the latest. This is why the theorem speaks of the first retained starting round. *)
Example C40_pruned_round_itself_changes :
  let s := rs_exec [RsPut 1 10; RsPut 2 20; RsPut 3 30] in
  rs_get_mb_no_offset s 15 = Some 1 /\ rs_get_mb_no_offset (fst (rs_prune s 10)) 15 = Some 3.
Proof. vm_compute. split; reflexivity. Qed.

(* Outside the domain (documented edge): Prune of the greatest starting round leaves [max]
   stale; a later Put of a smaller round then makes GetLatest and Get above the stale max
   return nil although an entry is stored (GetMagicBlock panics). *)
Example C40_prune_max_edge :
  let ops := [RsPut 1 10; RsPrune 10; RsPut 2 5] in
  rs_hist_ok rs_new ops = false /\
  rs_get_mb (rs_exec ops) 20 = None /\ rs_get_latest (rs_exec ops) = None /\
  rs_lookup (rs_items (rs_exec ops)) 5 = Some 2.
Proof. vm_compute. repeat split; reflexivity. Qed.
