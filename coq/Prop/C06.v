(* C06: Block execution is deterministic.
   Only statements; each is closed by [exact] of a lemma in Proof/Determinism.v. The table of
   nondeterminism sites is Gen/NdSites.v (translator ndsites: every range over a map, clock read, global
   rand, go statement and select in the packages contract execution reaches, with its syntactic class,
   and the justified allow list checks/C06_allow.json). *)
From ZC Require Import Model.Determinism Proof.Determinism.
Open Scope Z_scope.

(* class OrderFree: a loop whose body commutes gives the same state in every iteration order *)
Theorem C06_order_free_loop_independent :
  forall (S E : Type) (body : S -> E -> S), nd_commutes S E body ->
  forall es es', Permutation es es' -> forall s, nd_loop S E body s es = nd_loop S E body s es'.
Proof. exact nd_loop_perm. Qed.
Print Assumptions C06_order_free_loop_independent.

Theorem C06_integer_accumulation_commutes :
  forall (E : Type) (f : E -> Z), nd_commutes Z E (fun s e => (s + f e) mod 2 ^ 64).
Proof. exact nd_add_commutes. Qed.
Print Assumptions C06_integer_accumulation_commutes.

(* class ExistsCheck *)
Theorem C06_exists_check_independent :
  forall (E : Type) (p : E -> bool) es es', Permutation es es' -> nd_exists E p es = nd_exists E p es'.
Proof. exact nd_exists_perm. Qed.
Print Assumptions C06_exists_check_independent.

(* class CollectSort *)
Theorem C06_collect_then_sort_independent :
  forall (E : Type) (key : E -> Z) es es', Permutation es es' -> nd_collect_sort key es = nd_collect_sort key es'.
Proof. exact nd_collect_sort_perm. Qed.
Print Assumptions C06_collect_then_sort_independent.

(* a block whose steps are all order-free ends in the same state whatever orders the runtime picks *)
Theorem C06_exec_oracle_independent :
  forall (S : Type) (steps : list (nd_step S * list Z)),
    Forall (fun p => nd_order_free (fst p)) steps ->
    forall o1 o2, Forall2 (fun a b => Permutation a b) o1 o2 ->
    Forall2 (fun p o => Permutation (snd p) o) steps o1 ->
    forall s, nd_run steps o1 s = nd_run steps o2 s.
Proof. exact nd_run_independent. Qed.
Print Assumptions C06_exec_oracle_independent.

(* cache warmth: with a coherent state cache (C07) a step that reads through the cache gives the same result on a
   node that holds the earlier blocks' values in its cache and on a node that starts from the committed trie.
   Tie: the warm/cold executions of the engine (one StateCache kept across blocks vs a fresh one per block),
   including a contract call that fails after writing followed by a later read of the same key *)
Theorem C06_cache_warmth_independent :
  forall (S : Type) (step : S -> (Z -> option Z) -> S) warm1 warm2 cache1 cache2 trie,
    nd_cache_coherent warm1 cache1 trie -> nd_cache_coherent warm2 cache2 trie ->
    (forall s r r', (forall k, r k = r' k) -> step s r = step s r') ->
    forall s, step s (nd_read warm1 cache1 trie) = step s (nd_read warm2 cache2 trie).
Proof. exact nd_step_warmth_independent. Qed.
Print Assumptions C06_cache_warmth_independent.

(* every site found in the sources is in a class with one of the lemmas above, or is listed with a
   justification or as a known finding. A new unclassified range over a map, clock read, go statement ...
   in the scope makes this fail; so does a fan-in call whose callback starts to mention the item in an error text
   (class ClFanInItem: no justification entry fits it). *)
Theorem C06_all_sites_classified :
  forall x, In x gen_nd_sites ->
    nd_class_independent (nd_site_class x) = true \/ exists a, In a gen_nd_allow /\ fst (fst a) = nd_site_key x.
Proof. exact nd_all_sites_classified. Qed.
Print Assumptions C06_all_sites_classified.

(* ... and none of the listed sites is a confirmed divergence: every site is independent, justified harmless, or a
   documented limitation (wall-clock contract timeout, event order of createMagicBlock: not driven; error choice of
   the fan-in reads: driven by the fan-in scenarios, divergence for requests that name providers of different wrong
   types is reported under C06:fan-in-error-depends-on-schedule:*:mixed-provider-types) *)
Theorem C06_no_confirmed_dependent_site :
  forall x, In x gen_nd_sites ->
    nd_class_independent (nd_site_class x) = true \/
    exists a, In a gen_nd_allow /\ fst (fst a) = nd_site_key x /\ snd (fst a) <> AlFinding.
Proof. exact nd_all_sites_no_finding. Qed.
Print Assumptions C06_no_confirmed_dependent_site.

(* fan-in (one goroutine per item, the first error to arrive is returned): when every error is the same whatever
   item produced it, the finishing order of the goroutines is not observable. Tie: the fan-in scenarios of the
   engine (requests with two or more items failing with an error other than not-present, repeated on one state) *)
Theorem C06_fan_in_constant_error_independent :
  forall (E : Type) (err : E -> option Z) c arrival arrival',
    (forall e x, err e = Some x -> x = c) -> Permutation arrival arrival' ->
    nd_fanin_first E err arrival = nd_fanin_first E err arrival'.
Proof. exact nd_fanin_const_independent. Qed.
Print Assumptions C06_fan_in_constant_error_independent.

(* no call of a fan-in function in the scope can surface an error whose text mentions the item (its id, a string of
   the loaded value): the translator follows the callback through the repository and fails closed *)
Theorem C06_no_fan_in_error_mentions_item :
  forallb (fun x => match nd_site_class x with ClFanInItem => false | _ => true end) gen_nd_sites = true.
Proof. exact nd_no_fan_in_item_error. Qed.
Print Assumptions C06_no_fan_in_error_mentions_item.

(* ... and every fan-in call whose error text is formatted from loaded data is listed with exactly that side condition *)
Theorem C06_fan_in_value_sites_carry_condition :
  forall x, In x gen_nd_sites -> nd_site_class x = ClFanInValue ->
    nd_cond_of gen_nd_allow_cond (nd_site_key x) = nd_fan_in_no_item_id.
Proof. exact nd_fan_in_value_conditions. Qed.
Print Assumptions C06_fan_in_value_sites_carry_condition.

(* the governance update loops visit the keys in sorted order: the first error is the same on every node *)
Theorem C06_sorted_first_error_independent :
  forall (err : Z -> option Z) ks ks', Permutation ks ks' -> nd_first_error_sorted err ks = nd_first_error_sorted err ks'.
Proof. exact nd_first_error_sorted_perm. Qed.
Print Assumptions C06_sorted_first_error_independent.

(* whether a request fails at all never depended on the order *)
Theorem C06_first_error_presence_independent :
  forall (E : Type) (err : E -> option Z) es es', Permutation es es' ->
    (nd_first_error E err es = None <-> nd_first_error E err es' = None).
Proof. exact nd_first_error_some_perm. Qed.
Print Assumptions C06_first_error_presence_independent.

(* user events are emitted in sorted user-id order: the event list is the same on every node *)
Theorem C06_sorted_emission_independent :
  forall events ks ks', Permutation ks ks' -> nd_emit_sorted events ks = nd_emit_sorted events ks'.
Proof. exact nd_emit_sorted_perm. Qed.
Print Assumptions C06_sorted_emission_independent.

(* Non-vacuity: a block of three order-free steps run under two different choices of the runtime *)
Example C06_example :
  nd_run nd_demo_steps [[1; 2; 3]; [2; 3; 1]; [3; 2; 1]] (0, false, []) = (6, true, [1; 2; 3]) /\
  nd_run nd_demo_steps [[3; 2; 1]; [1; 3; 2]; [2; 1; 3]] (0, false, []) = (6, true, [1; 2; 3]).
Proof. exact nd_demo. Qed.

(* why the sort matters: the same loops in plain map order depend on the order, the sorted ones do not *)
Example C06_example_first_error :
  Permutation [1; 0; 2] [2; 0; 1] /\ nd_first_error Z nd_err_demo [1; 0; 2] <> nd_first_error Z nd_err_demo [2; 0; 1] /\
  nd_first_error_sorted nd_err_demo [1; 0; 2] = nd_first_error_sorted nd_err_demo [2; 0; 1].
Proof. exact nd_first_error_order_dependent. Qed.

Example C06_example_incoherent_cache :
  let trie := fun k : Z => None in
  let cache := fun k : Z => if Z.eqb k 7 then Some 1 else None in
  nd_read (fun _ => true) cache trie 7 <> nd_read (fun _ => false) cache trie 7.
Proof. exact nd_incoherent_cache_example. Qed.

Example C06_example_emission :
  nd_emit_all Z [] [1; 2] <> nd_emit_all Z [] [2; 1] /\ nd_emit_sorted [] [1; 2] = nd_emit_sorted [] [2; 1].
Proof. exact nd_emit_order_dependent. Qed.

(* why the condition matters: an error text that mentions the item gives two outputs for two finishing orders *)
Example C06_example_fan_in_item_error :
  nd_fanin_first Z (fun i => Some i) [1; 2] = Some 1 /\ nd_fanin_first Z (fun i => Some i) [2; 1] = Some 2 /\ Permutation [1; 2] [2; 1].
Proof. exact nd_fanin_item_example. Qed.
