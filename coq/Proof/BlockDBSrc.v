(* C26: the theorems instantiated to the loop that the source tree contains, as reported by the
   translator harness/translators/blockdbloop (Gen/BlockDBLoop.v). *)
From ZC Require Import Model.BlockDB Proof.BlockDB Gen.BlockDBLoop.
Open Scope Z_scope.

Definition bd_read_src (fuel klen : nat) (buf data key : list Z) : bd_read_res :=
  if bd_loop_repaired then bd_read_fix fuel klen buf data key else bd_read fuel klen buf data key.

Lemma bd_src_present comp decomp : (forall x, decomp (comp x) = Some x) ->
  forall klen c ws (sh : list Z),
    let sws := bd_stored_ws comp c ws in
    let db := bd_write_all bd_create sws in
    bd_ws_ok klen sws ->
    forall key p fuel, bd_last_written ws key = Some p ->
      (bd_fuel (bd_index_body (bd_idx db)) klen <= fuel)%nat ->
      bd_read_src fuel klen (bd_index_body (bd_idx db)) (bd_data db) key = BdRec (bd_store comp c p).
Proof.
  intros Hrt klen c ws sh sws db Hok key p fuel Hlw Hf. unfold bd_read_src.
  destruct bd_loop_repaired.
  - eapply bd_present_repaired; eauto.
  - destruct (bd_read_after_save_open comp decomp Hrt klen c ws sh Hok) as (_ & H).
    apply H; assumption.
Qed.

Lemma bd_src_absent comp klen c ws :
  let sws := bd_stored_ws comp c ws in
  let db := bd_write_all bd_create sws in
  let buf := bd_index_body (bd_idx db) in
  bd_ws_ok klen sws -> forall key, bd_last_written ws key = None ->
  if bd_loop_repaired
  then forall fuel, (bd_fuel buf klen <= fuel)%nat -> bd_read_src fuel klen buf (bd_data db) key = BdReadNotFound
  else forall fuel, bd_read_src fuel klen buf (bd_data db) key = BdReadNotFound \/
                    bd_read_src fuel klen buf (bd_data db) key = BdReadFuel.
Proof.
  intros sws db buf Hok key Hn. unfold bd_read_src. destruct bd_loop_repaired.
  - intros fuel Hf. apply bd_absent_not_found_repaired; assumption.
  - intros fuel. apply bd_absent_never_a_record; assumption.
Qed.

(* a record returned by the repaired loop is returned by the loop as found, too *)
Lemma bd_get_fix_found_go buf klen key fuel : forall lo hi o,
  bd_get_fix fuel buf klen key lo hi = BdFound o -> bd_get_go fuel buf klen key lo hi = BdFound o.
Proof.
  induction fuel as [|f IH]; intros lo hi o H; [discriminate|].
  cbn [bd_get_fix bd_get_go] in *. destruct (lo <=? hi); [|discriminate].
  destruct (bd_cmp _ key); [exact H| |]; destruct (lo =? hi); try discriminate; apply IH; exact H.
Qed.

Lemma bd_read_src_rec_go fuel klen buf d key s :
  bd_read_src fuel klen buf d key = BdRec s -> bd_read fuel klen buf d key = BdRec s.
Proof.
  unfold bd_read_src. destruct bd_loop_repaired; [|auto].
  unfold bd_read_fix, bd_read, bd_get_offset_fix, bd_get_offset.
  destruct (bd_get_fix fuel buf klen key 0 (bd_numkeys buf klen - 1)) eqn:E; cbn; try discriminate.
  rewrite (bd_get_fix_found_go _ _ _ _ _ _ _ E). auto.
Qed.

Lemma bd_src_crash_prefix_safe comp decomp : (forall x, decomp (comp x) = Some x) ->
  forall klen c ws sh,
    let sws := bd_stored_ws comp c ws in
    let db := bd_write_all bd_create sws in
    bd_ws_ok klen sws ->
    forall d' h', bd_prefix d' (bd_data db) -> bd_prefix h' (bd_header_file db sh) ->
    match bd_open klen h' with
    | BdOpenPanic => False
    | BdOpenErr => True
    | BdOpened buf rest =>
        buf = bd_index_body (bd_idx db) /\ bd_prefix rest sh /\
        forall fuel key s, bd_read_src fuel klen buf d' key = BdRec s ->
          exists p, bd_last_written ws key = Some p /\ s = bd_store comp c p /\
                    bd_read_rec decomp c (BdRec s) = Some p
    end.
Proof.
  intros Hrt klen c ws sh sws db Hok d' h' Hd Hh.
  pose proof (bd_crash_prefix_safe comp decomp Hrt klen c ws sh Hok d' h' Hd Hh) as H.
  destruct (bd_open klen h') as [buf rest| |]; [|exact I|exact H].
  destruct H as (Ha & Hb & Hc). split; [exact Ha|]. split; [exact Hb|].
  intros fuel key s Hr. apply (Hc fuel). apply bd_read_src_rec_go. exact Hr.
Qed.

(* ---- Create over a leftover data file ---- *)

Lemma bd_read_src_prefix fuel klen buf d tail key s :
  bd_read_src fuel klen buf d key = BdRec s -> bd_read_src fuel klen buf (d ++ tail) key = BdRec s.
Proof.
  unfold bd_read_src, bd_read, bd_read_fix. destruct bd_loop_repaired; apply bd_read_with_prefix.
Qed.

Lemma bd_src_recreate_present comp decomp : (forall x, decomp (comp x) = Some x) ->
  forall klen c ws (sh : list Z) old,
    let sws := bd_stored_ws comp c ws in
    let db := bd_write_all bd_create sws in
    bd_ws_ok klen sws ->
    forall key p fuel, bd_last_written ws key = Some p ->
      (bd_fuel (bd_index_body (bd_idx db)) klen <= fuel)%nat ->
      bd_read_src fuel klen (bd_index_body (bd_idx db)) (bd_data_over old (bd_data db)) key
      = BdRec (bd_store comp c p).
Proof.
  intros Hrt klen c ws sh old sws db Hok key p fuel Hlw Hf. unfold bd_data_over.
  apply bd_read_src_prefix. eapply bd_src_present; eauto.
Qed.

Lemma bd_src_recreate_crash_prefix_safe comp decomp : (forall x, decomp (comp x) = Some x) ->
  forall klen c ws sh old,
    let sws := bd_stored_ws comp c ws in
    let db := bd_write_all bd_create sws in
    bd_ws_ok klen sws ->
    forall d' h', bd_prefix d' (bd_data db) -> bd_prefix h' (bd_header_file db sh) ->
    (h' <> [] -> d' = bd_data db) ->
    match bd_open klen h' with
    | BdOpenPanic => False
    | BdOpenErr => True
    | BdOpened buf rest =>
        buf = bd_index_body (bd_idx db) /\ bd_prefix rest sh /\
        forall fuel key s, bd_read_src fuel klen buf (bd_data_over old d') key = BdRec s ->
          exists p, bd_last_written ws key = Some p /\ s = bd_store comp c p /\
                    bd_read_rec decomp c (BdRec s) = Some p
    end.
Proof.
  intros Hrt klen c ws sh old sws db Hok d' h' Hd Hh Hseq.
  pose proof (bd_recreate_crash_prefix_safe comp decomp Hrt klen c ws sh Hok old d' h' Hd Hh Hseq) as H.
  destruct (bd_open klen h') as [buf rest| |]; [|exact I|exact H].
  destruct H as (Ha & Hb & Hc). split; [exact Ha|]. split; [exact Hb|].
  intros fuel key s Hr. apply (Hc fuel). apply bd_read_src_rec_go. exact Hr.
Qed.

(* ---- full strength for the loop in the source tree (holds because the translator reports the
   repaired loop; if the source goes back to `break` inside the switch this lemma stops
   type-checking and the check reports the broken obligation) ---- *)
Lemma bd_src_absent_full comp klen c ws :
  let sws := bd_stored_ws comp c ws in
  let db := bd_write_all bd_create sws in
  let buf := bd_index_body (bd_idx db) in
  bd_ws_ok klen sws -> forall key, bd_last_written ws key = None ->
  forall fuel, (bd_fuel buf klen <= fuel)%nat -> bd_read_src fuel klen buf (bd_data db) key = BdReadNotFound.
Proof. exact (bd_src_absent comp klen c ws). Qed.
