// Engine for C31: a real miner chain (chain.Chain + miner.Chain, magic block of n miners with
// real BLS keys); ticket messages go through the real handleVerificationTicketMessage, a
// received block carrying tickets through the real processVerifyBlock, ticket lists through the
// real VerifyNotarization.  Oracle = the property: whenever the node treats the block as
// notarized (block flag / round's notarized blocks / VerifyNotarization accepts), the tickets it
// counted contain at least threshold valid signatures of distinct miners of the round's magic block.
package main

import (
	"bytes"
	"context"
	"encoding/hex"
	"fmt"
	"math/big"
	"sort"
	"strings"
	"time"

	"0chain.net/chaincore/block"
	"0chain.net/chaincore/node"
	"0chain.net/chaincore/round"
	"0chain.net/core/common"
	"0chain.net/core/datastore"
	"0chain.net/core/encryption"
	"0chain.net/miner"
	hb "github.com/herumi/bls-go-binary/bls"
	"verifharness/cryptoh"
	"verifharness/vh"
)

// tk describes one ticket: who it claims to be from and how its signature was made.
type tk struct {
	V    int    `json:"v"`    // claimed verifier: 0..n-1 miner of the round's magic block, n.. = a registered node outside it, -1 = made-up id
	Kind string `json:"kind"` // valid | otherkey (signed by miner V+1) | otherhash | garbage | plus (valid + X) | minus (valid - X)
}

type scen struct {
	N         int    `json:"n"`
	WorldSeed uint64 `json:"world_seed"`
	Self      int    `json:"self"`
	Gen       int    `json:"gen"` // generator of the received block (a miner, possibly byzantine)
	Arrivals  []tk   `json:"arrivals"`
	Own       []tk   `json:"own"`
	Lists     [][]tk `json:"lists"`
	Nots      []notm `json:"nots,omitempty"` // Notarization messages, each for a fresh block of the same generator
	JSON      bool   `json:"json"`           // pass the block through its JSON encoding first, as the network does
}

// notm is one Notarization message: the (valid) tickets the block already holds and the message's tickets.
type notm struct {
	Own []tk `json:"own"`
	In  []tk `json:"in"`
}

var groupOrder, _ = new(big.Int).SetString("16798108731015832284940804142231733909759579603404752749028378864165570215949", 10)

type keyed struct {
	m  *cryptoh.Miner
	sk hb.SecretKey
}

func secretOf(m *cryptoh.Miner) hb.SecretKey {
	var buf bytes.Buffer
	if err := m.Scheme.WriteKeys(&buf); err != nil {
		panic(err)
	}
	lines := strings.Split(strings.TrimSpace(buf.String()), "\n")
	b, _ := hex.DecodeString(lines[1])
	var sk hb.SecretKey
	if err := sk.SetLittleEndian(b); err != nil {
		panic(err)
	}
	return sk
}

var worlds = map[string]*cryptoh.World{}
var outsiders = map[string][]*cryptoh.Miner{}

func world(n int, seed uint64) (*cryptoh.World, []*cryptoh.Miner) {
	k := fmt.Sprintf("%d/%d", n, seed)
	if w, ok := worlds[k]; ok {
		return w, outsiders[k]
	}
	w := cryptoh.NewWorld(1, n, seed)
	var out []*cryptoh.Miner
	cryptoh.WithRand(seed^0xabcdef, func() {
		for i := 0; i < 3; i++ {
			out = append(out, cryptoh.NewMinerKey(node.NodeTypeMiner, 8000+i))
		}
	})
	worlds[k] = w
	outsiders[k] = out
	return w, out
}

type env struct {
	s    scen
	w    *cryptoh.World
	out  []*cryptoh.Miner
	hash string
	raw  string
	xsk  hb.SecretKey // the offset X = xsk * H(hash) used by plus/minus
}

// build makes the real ticket and its abstraction (verifier number, error term).
func (e *env) build(t tk) (*block.VerificationTicket, string) {
	n := e.s.N
	var who *cryptoh.Miner
	vid := t.V
	switch {
	case t.V >= 0 && t.V < n:
		who = e.w.Miners[t.V]
	case t.V >= n:
		who = e.out[(t.V-n)%len(e.out)]
		vid = n + (t.V-n)%len(e.out)
	}
	vt := &block.VerificationTicket{}
	if who != nil {
		vt.VerifierID = who.ID
	} else {
		vt.VerifierID = encryption.Hash(fmt.Sprintf("made up verifier %d", t.V))
		vid = n + 100 - t.V
	}
	signer := who
	if signer == nil {
		signer = e.w.Miners[0]
	}
	own := secretOf(signer)
	errTerm := "None"
	dl := func(claimed hb.SecretKey) string { // (claimed - own) mod r
		a, _ := new(big.Int).SetString(claimed.GetDecString(), 10)
		b, _ := new(big.Int).SetString(own.GetDecString(), 10)
		a.Sub(a, b).Mod(a, groupOrder)
		return fmt.Sprintf("(Some 0x%x)", a)
	}
	switch t.Kind {
	case "valid":
		vt.Signature, _ = signer.Scheme.Sign(e.hash)
		errTerm = "(Some 0x0)"
	case "otherkey":
		o := e.w.Miners[(vid+1)%n]
		vt.Signature, _ = o.Scheme.Sign(e.hash)
		errTerm = dl(secretOf(o))
	case "otherhash":
		vt.Signature, _ = signer.Scheme.Sign(encryption.Hash("another block " + e.hash))
	case "garbage":
		vt.Signature = "zz"
	case "upper", "mixed":
		// the same valid signature, its hex string spelled in another letter case
		sg, _ := signer.Scheme.Sign(e.hash)
		if t.Kind == "upper" {
			sg = strings.ToUpper(sg)
		} else {
			b := []byte(sg)
			for i := range b {
				if i%2 == 0 {
					b[i] = strings.ToUpper(string(b[i]))[0]
				}
			}
			sg = string(b)
		}
		vt.Signature = sg
		errTerm = "(Some 0x0)"
	default:
		// plus = off+1, minus = off-1, off<k>: the valid signature plus k*X (errors k*x; a list whose
		// offsets sum to 0 passes an aggregate-only check)
		k := 0
		switch {
		case t.Kind == "plus":
			k = 1
		case t.Kind == "minus":
			k = -1
		case strings.HasPrefix(t.Kind, "off"):
			if _, err := fmt.Sscanf(t.Kind[3:], "%d", &k); err != nil {
				panic("bad ticket kind " + t.Kind)
			}
		default:
			panic("bad ticket kind " + t.Kind)
		}
		xi, _ := new(big.Int).SetString(e.xsk.GetDecString(), 10)
		xi.Mul(xi, big.NewInt(int64(k))).Mod(xi, groupOrder)
		sk := own
		if xi.Sign() != 0 {
			var x hb.SecretKey
			if err := x.SetDecString(xi.String()); err != nil {
				panic(err)
			}
			sk.Add(&x)
		}
		vt.Signature = sk.Sign(e.raw).SerializeToHexStr()
		errTerm = dl(sk)
	}
	return vt, fmt.Sprintf("(Build_nt_ticket %s %s)", vh.Nat(vid), errTerm)
}

// errOf is the ticket's error term as a number (nil when it has none: undecodable or for another hash).
func (e *env) errOf(t tk) *big.Int {
	_, term := e.build(t)
	i := strings.Index(term, "(Some 0x")
	if i < 0 {
		return nil
	}
	h := strings.TrimSuffix(term[i+len("(Some 0x"):], "))")
	v, ok := new(big.Int).SetString(h, 16)
	if !ok {
		return nil
	}
	return v
}

func (e *env) isValid(t tk) bool {
	return t.V >= 0 && t.V < e.s.N && (t.Kind == "valid" || t.Kind == "upper" || t.Kind == "mixed" || t.Kind == "off0" || (t.Kind == "otherkey" && e.s.N == 1))
}

// validMiners = the property's measure on a ticket list.
func (e *env) validMiners(ts []tk) int {
	seen := map[int]bool{}
	for _, t := range ts {
		if e.isValid(t) {
			seen[t.V] = true
		}
	}
	return len(seen)
}

type outcome struct {
	fails []string
	descs map[string]string
	hist  map[string]int
	coq   string
}

func (o *outcome) fail(k, d string) {
	if _, ok := o.descs[k]; !ok {
		o.fails = append(o.fails, k)
		o.descs[k] = d
	}
}

const prevHash = "ed79cae70d439c11258236da1dfa6fc550f7cc569768304623e8fbd7d70efae4"

// run executes one scenario; a panic of the code under test is reported as a failure of the
// scenario (the node would crash on that input).
func run(s scen) (res *outcome) {
	defer func() {
		if r := recover(); r != nil {
			res = &outcome{descs: map[string]string{}, hist: map[string]int{}}
			res.fail("node-panics", fmt.Sprintf("the code under test panicked: %v", r))
		}
	}()
	return run1(s)
}

func run1(s scen) *outcome {
	o := &outcome{descs: map[string]string{}, hist: map[string]int{}}
	w, out := world(s.N, s.WorldSeed)
	for _, m := range w.Miners {
		node.RegisterNode(m.Node)
	}
	for _, m := range out {
		node.RegisterNode(m.Node)
	}
	v := w.NewView(s.Self, false, 66)
	defer v.Close()
	c := v.C
	rn := int64(10)
	pb := block.NewBlock(c.GetKey(), rn-1)
	pb.Hash = prevHash
	pb.MinerID = w.Miners[s.Gen].ID
	pb.CreationDate = common.Now() - 10
	pb.MagicBlock = w.MB
	pb.SetRoundRandomSeed(777)
	pb.SetStateStatus(block.StateSuccessful)
	pb.SetBlockState(block.StateNotarized)
	pb.SetBlockNotarized() // the previous block is settled: processVerifyBlock's background update of it returns at once
	c.SetLatestFinalizedMagicBlock(pb)
	c.SetLatestFinalizedBlock(pb)
	c.AddBlock(pb)
	pr := v.MC.AddRound(v.MC.CreateRound(round.NewRound(rn - 1)))
	v.MC.SetRandomSeed(pr, 777)
	v.MC.SetRandomSeed(v.MC.AddRound(v.MC.CreateRound(round.NewRound(rn))), 888)
	c.SetCurrentRound(rn + 1)
	mr := v.MC.GetMinerRound(rn)
	thr := c.GetNotarizationThresholdCount(s.N)

	// the block of the (possibly byzantine) generator
	b := block.NewBlock(c.GetKey(), rn)
	b.MinerID = w.Miners[s.Gen].ID
	b.PrevHash = pb.Hash
	b.CreationDate = common.Now()
	b.SetRoundRandomSeed(888)
	b.LatestFinalizedMagicBlockHash = pb.Hash
	b.LatestFinalizedMagicBlockRound = w.MB.StartingRound
	b.HashBlock()
	sig, err := w.Miners[s.Gen].Scheme.Sign(b.Hash)
	if err != nil {
		panic(err)
	}
	b.Signature = sig
	rawHash, _ := hex.DecodeString(b.Hash)
	e := &env{s: s, w: w, out: out, hash: b.Hash, raw: string(rawHash)}
	if err := e.xsk.SetDecString("123456789123456789"); err != nil {
		panic(err)
	}
	ctx := context.Background()

	// 1. ticket messages
	var coqArr []string
	for _, t := range s.Arrivals {
		vt, term := e.build(t)
		coqArr = append(coqArr, term)
		bvt := &block.BlockVerificationTicket{VerificationTicket: *vt, Round: rn, BlockID: b.Hash}
		msg := miner.NewBlockMessage(miner.MessageVerificationTicket, nil, nil, nil)
		msg.BlockVerificationTicket = bvt
		v.MC.VerifHandleVerificationTicketMessage(ctx, msg)
		o.hist["arrival-"+t.Kind]++
	}
	idOf := map[string]int{}
	for i, m := range w.Miners {
		idOf[m.ID] = i
	}
	for i, m := range out {
		idOf[m.ID] = s.N + i
	}
	stored := mr.GetVerificationTickets(b.Hash)
	var coqStore []int
	for _, vt := range stored {
		i, ok := idOf[vt.VerifierID]
		if !ok {
			i = 9999
		}
		coqStore = append(coqStore, i)
		if i >= s.N || !verifies(w.Miners[i], vt.Signature, b.Hash) {
			o.fail("invalid-ticket-stored", fmt.Sprintf("the round's ticket store holds a ticket of verifier %s that is not a valid signature of a miner of the magic block", vt.VerifierID))
		}
	}
	sort.Ints(coqStore)

	// 2. the received block with attached tickets
	var coqOwn []string
	for _, t := range s.Own {
		vt, term := e.build(t)
		coqOwn = append(coqOwn, term)
		b.VerificationTickets = append(b.VerificationTickets, vt)
	}
	rb := b
	if s.JSON {
		rb = block.NewBlock(c.GetKey(), rn)
		if err := datastore.FromJSON(datastore.ToJSON(b), rb); err != nil {
			panic(err)
		}
	}
	perr := v.MC.VerifProcessVerifyBlock(ctx, rb)
	time.Sleep(3 * time.Millisecond)
	notarized := rb.IsBlockNotarized()
	inRound := false
	for _, nb := range mr.GetNotarizedBlocks() {
		if nb.Hash == rb.Hash {
			inRound = true
		}
	}
	o.hist[fmt.Sprintf("process-notarized-%v", notarized)]++
	if perr != nil {
		o.hist["process-error"]++
		if len(perr.Error()) > 60 {
			o.hist["process-error: "+perr.Error()[:60]]++
		} else {
			o.hist["process-error: "+perr.Error()]++
		}
	}
	// what was counted: the block's tickets after merging
	var merged []int
	counted := map[int]bool{}
	for _, vt := range rb.GetVerificationTickets() {
		i, ok := idOf[vt.VerifierID]
		if !ok {
			i = -1
			for k, t := range s.Own {
				if t.V < 0 && vt.VerifierID == encryption.Hash(fmt.Sprintf("made up verifier %d", t.V)) {
					i = s.N + 100 - s.Own[k].V
				}
			}
		}
		merged = append(merged, i)
		if i >= 0 && i < s.N && verifies(w.Miners[i], vt.Signature, b.Hash) {
			counted[i] = true
		}
	}
	if (notarized || inRound) && len(counted) < thr {
		kind := "unverified-attached-tickets-counted"
		ownValid := e.validMiners(s.Own)
		allOwnGood := ownValid == len(s.Own)
		if allOwnGood {
			kind = "notarized-below-threshold" // not the known trigger
		}
		o.fail(kind, fmt.Sprintf("processVerifyBlock treated the block as notarized (flag=%v, in round=%v) with %d valid tickets of distinct miners among %d merged, threshold %d of %d miners",
			notarized, inRound, len(counted), len(merged), thr, s.N))
	}

	// 3. VerifyNotarization on ticket lists
	var coqLists []string
	for _, l := range s.Lists {
		var vts []*block.VerificationTicket
		var terms []string
		for _, t := range l {
			vt, term := e.build(t)
			vts = append(vts, vt)
			terms = append(terms, term)
		}
		verr := c.VerifyNotarization(ctx, b.Hash, vts, rn)
		o.hist[fmt.Sprintf("verify-notarization-%v", verr == nil)]++
		coqLists = append(coqLists, "("+vh.List(terms)+", "+vh.Bool(verr == nil)+")")
		if verr == nil {
			// distinct members, enough of them, and individually valid unless errors cancel
			ids := map[int]bool{}
			okAll := true
			invalid := 0
			for _, t := range l {
				if t.V < 0 || t.V >= s.N || ids[t.V] {
					okAll = false
				}
				ids[t.V] = true
				if !e.isValid(t) {
					invalid++
				}
			}
			if !okAll || len(ids) < thr {
				o.fail("notarization-accepted-without-threshold-miners", fmt.Sprintf("VerifyNotarization accepted %+v (threshold %d of %d)", l, thr, s.N))
			} else if invalid == 1 {
				// one bad signature cannot cancel in the aggregate check
				o.fail("notarization-accepted-with-invalid-ticket", fmt.Sprintf("VerifyNotarization accepted %+v with one invalid ticket (threshold %d)", l, thr))
			} else if invalid >= 2 {
				// two or more bad signatures pass the plain-sum aggregate check exactly when their errors
				// cancel: C32's finding (cancelling forgeries); anything else is a failure of this property
				sum, none := big.NewInt(0), false
				for _, t := range l {
					if d := e.errOf(t); d == nil {
						none = true
					} else {
						sum.Add(sum, d)
					}
				}
				if none || sum.Mod(sum, groupOrder).Sign() != 0 {
					o.fail("notarization-accepted-with-invalid-ticket", fmt.Sprintf("VerifyNotarization accepted %+v with %d invalid tickets whose errors do not cancel (threshold %d)", l, invalid, thr))
				} else {
					o.hist["verify-notarization-accepted-cancelling-errors"]++
				}
			}
		} else if e.validMiners(l) == len(l) && len(l) >= thr && distinctV(l) {
			o.fail("valid-notarization-rejected", fmt.Sprintf("VerifyNotarization rejected %d valid tickets of distinct miners (threshold %d): %v", len(l), thr, verr))
		}
	}
	// 4. Notarization messages through the real notarizationProcess, each on a fresh block
	var coqNots []string
	for k, nm := range s.Nots {
		b2 := block.NewBlock(c.GetKey(), rn)
		b2.MinerID = w.Miners[s.Gen].ID
		b2.PrevHash = pb.Hash
		b2.CreationDate = b.CreationDate + common.Timestamp(k+1)
		b2.SetRoundRandomSeed(888)
		b2.LatestFinalizedMagicBlockHash = pb.Hash
		b2.LatestFinalizedMagicBlockRound = w.MB.StartingRound
		b2.HashBlock()
		b2.Signature, _ = w.Miners[s.Gen].Scheme.Sign(b2.Hash)
		b2.SetStateStatus(block.StateSuccessful)
		raw2, _ := hex.DecodeString(b2.Hash)
		e2 := &env{s: s, w: w, out: out, hash: b2.Hash, raw: string(raw2), xsk: e.xsk}
		var ownTerms, inTerms []string
		for _, t := range nm.Own {
			vt, term := e2.build(t)
			if !e2.isValid(t) {
				continue // only verified tickets get into a block on the paths modelled here
			}
			if b2.AddVerificationTicket(vt) {
				ownTerms = append(ownTerms, term)
			}
		}
		b2 = c.AddBlock(b2)
		not := &miner.Notarization{BlockID: b2.Hash, Round: rn}
		for _, t := range nm.In {
			vt, term := e2.build(t)
			not.VerificationTickets = append(not.VerificationTickets, vt)
			inTerms = append(inTerms, term)
		}
		nerr := v.MC.VerifNotarizationProcess(ctx, not)
		time.Sleep(time.Millisecond)
		flag := b2.IsBlockNotarized()
		inR := false
		for _, nb := range mr.GetNotarizedBlocks() {
			if nb.Hash == b2.Hash {
				inR = true
			}
		}
		treated := flag || inR
		o.hist[fmt.Sprintf("notarization-message-notarized-%v", treated)]++
		if nerr != nil {
			o.hist["notarization-message-error"]++
		}
		var after []int
		seenV := map[int]bool{}
		validV := map[int]bool{}
		repeated := false
		for _, vt := range b2.GetVerificationTickets() {
			i, ok := idOf[vt.VerifierID]
			if !ok {
				i = 9999
				for _, t := range nm.In {
					if t.V < 0 && vt.VerifierID == encryption.Hash(fmt.Sprintf("made up verifier %d", t.V)) {
						i = s.N + 100 - t.V
					}
				}
			}
			after = append(after, i)
			if seenV[i] {
				repeated = true
			}
			seenV[i] = true
			if i < s.N && verifies(w.Miners[i], vt.Signature, b2.Hash) {
				validV[i] = true
			}
		}
		one := s
		one.Arrivals, one.Own, one.Lists, one.Nots = nil, nil, nil, []notm{nm}
		_ = one
		if repeated {
			o.fail("block-tickets-repeat-a-verifier", fmt.Sprintf("after the notarization message %+v the block's ticket list has verifiers %v", nm, after))
		}
		if treated && len(validV) < thr {
			// only errors that cancel in the aggregate check (C32) excuse this
			sum, none, members := big.NewInt(0), false, true
			for _, t := range nm.In {
				if d := e2.errOf(t); d == nil {
					none = true
				} else {
					sum.Add(sum, d)
				}
				if t.V < 0 || t.V >= s.N {
					members = false
				}
			}
			if repeated || none || !members || len(seenV) < thr || sum.Mod(sum, groupOrder).Sign() != 0 {
				o.fail("notarization-message-below-threshold", fmt.Sprintf("notarization message %+v: block treated as notarized (flag=%v, in round=%v) with %d distinct valid miner tickets, threshold %d of %d", nm, flag, inR, len(validV), thr, s.N))
			} else {
				o.hist["notarization-message-cancelling-errors"]++
			}
		}
		coqNots = append(coqNots, fmt.Sprintf("((%s, %s), (%s, %s))", vh.List(ownTerms), vh.List(inTerms), vh.Bool(treated), vh.NatList(after)))
	}
	o.coq = fmt.Sprintf("(Build_ntc_case (%s) (%s) (%s) (%s) (%s) (%s) (%s) (%s) (%s))",
		vh.Nat(s.N), vh.Nat(thr), vh.List(coqArr), vh.NatList(coqStore), vh.List(coqOwn), vh.Bool(notarized), vh.NatList(merged), vh.List(coqLists), vh.List(coqNots))
	return o
}

func distinctV(l []tk) bool {
	m := map[int]bool{}
	for _, t := range l {
		if m[t.V] {
			return false
		}
		m[t.V] = true
	}
	return true
}

func verifies(m *cryptoh.Miner, sig, hash string) bool {
	s := encryption.NewBLS0ChainScheme()
	if err := s.SetPublicKey(m.Pub); err != nil {
		return false
	}
	ok, err := s.Verify(sig, hash)
	return ok && err == nil
}

// ---------- generation ----------

var kinds = []string{"valid", "valid", "valid", "otherkey", "otherhash", "garbage"}

func genTickets(r *vh.Rand, n, k int, mostlyValid bool) []tk {
	var out []tk
	perm := r.Perm(n)
	for i := 0; i < k; i++ {
		t := tk{V: perm[i%n], Kind: "valid"}
		if !mostlyValid || r.Chance(1, 4) {
			t.Kind = kinds[r.Intn(len(kinds))]
		}
		switch r.Intn(12) {
		case 0:
			t.V = n + r.Intn(3) // registered node outside the magic block
		case 1:
			t.V = -1 - r.Intn(3) // made-up id
		case 2:
			t.V = perm[0] // duplicate verifier
		}
		out = append(out, t)
	}
	return out
}

func gen(r *vh.Rand, n int, wseed uint64) scen {
	s := scen{N: n, WorldSeed: wseed, Self: r.Intn(n), JSON: r.Bool()}
	s.Gen = (s.Self + 1 + r.Intn(max(1, n-1))) % n
	thr := (n*66 + 99) / 100
	switch r.Intn(6) {
	case 0: // a block carrying forged tickets only
		for i := 0; i < thr+r.Intn(2); i++ {
			s.Own = append(s.Own, tk{V: -1 - i, Kind: "garbage"})
		}
	case 1: // tickets only by messages
		s.Arrivals = genTickets(r, n, r.Range(0, n+1), true)
	case 2: // one valid ticket repeated
		for i := 0; i < thr; i++ {
			s.Own = append(s.Own, tk{V: s.Gen, Kind: "valid"})
		}
	default:
		s.Arrivals = genTickets(r, n, r.Range(0, n), true)
		s.Own = genTickets(r, n, r.Range(0, n), r.Bool())
	}
	// lists for VerifyNotarization
	for k := 0; k < 4; k++ {
		s.Lists = append(s.Lists, genTickets(r, n, r.Range(1, n+1), r.Chance(3, 4)))
	}
	full := make([]tk, 0, n)
	for _, i := range r.Perm(n)[:thr] {
		full = append(full, tk{V: i, Kind: "valid"})
	}
	s.Lists = append(s.Lists, full)
	if thr >= 2 { // a cancelling pair among valid tickets
		cp := append([]tk{}, full...)
		cp[0].Kind, cp[1].Kind = "plus", "minus"
		s.Lists = append(s.Lists, cp)
		one := append([]tk{}, full...)
		one[0].Kind = "plus"
		s.Lists = append(s.Lists, one)
	}
	if thr >= 2 {
		s.Lists = append(s.Lists, full[:thr-1])
	}
	// one miner listing itself threshold-many (or more) times: the identical ticket, the same signature
	// re-spelled (hex letter case), and split signatures whose sum is the right aggregate
	byz := r.Intn(n)
	k := thr + r.Intn(2)
	var same, spelled, split []tk
	off := 0
	for i := 0; i < k; i++ {
		same = append(same, tk{V: byz, Kind: "valid"})
		spelled = append(spelled, tk{V: byz, Kind: []string{"valid", "upper", "mixed"}[i%3]})
		if i < k-1 {
			split = append(split, tk{V: byz, Kind: fmt.Sprintf("off%d", i+1)})
			off += i + 1
		} else {
			split = append(split, tk{V: byz, Kind: fmt.Sprintf("off%d", -off)})
		}
	}
	s.Lists = append(s.Lists, same, spelled, split)
	// re-spelled signatures of distinct miners are ordinary valid tickets
	resp := append([]tk{}, full...)
	for i := range resp {
		resp[i].Kind = []string{"upper", "mixed", "valid"}[i%3]
	}
	s.Lists = append(s.Lists, resp)
	if thr >= 2 { // the byzantine miner split in two plus honest tickets, threshold tickets in all
		l := []tk{{V: full[0].V, Kind: "off5"}, {V: full[0].V, Kind: "off-5"}}
		l = append(l, full[1:thr-1]...)
		s.Lists = append(s.Lists, l)
	}
	// notarization messages
	rep := func(t tk, k int) []tk {
		var l []tk
		for i := 0; i < k; i++ {
			l = append(l, t)
		}
		return l
	}
	one := tk{V: r.Intn(n), Kind: "valid"}
	s.Nots = append(s.Nots, notm{In: rep(one, thr+r.Intn(2))})                        // one valid ticket repeated
	s.Nots = append(s.Nots, notm{In: append([]tk{}, full...)})                        // exactly threshold distinct valid
	s.Nots = append(s.Nots, notm{In: append(rep(full[0], 2), full[1:]...)})           // threshold distinct with a repeat
	s.Nots = append(s.Nots, notm{Own: []tk{one}, In: append(rep(one, thr), full...)}) // block holds one, message repeats it
	if thr >= 2 {
		s.Nots = append(s.Nots, notm{In: append(rep(full[0], 2), full[1:thr-1]...)}) // threshold-1 distinct, threshold tickets
	}
	s.Nots = append(s.Nots, notm{Own: genTickets(r, n, r.Intn(n), true), In: genTickets(r, n, r.Range(1, n+2), r.Chance(3, 4))})
	return s
}

func max(a, b int) int {
	if a > b {
		return a
	}
	return b
}

func key(s scen) string { return fmt.Sprintf("%+v", s) }

func main() {
	o := vh.ParseFlags()
	cryptoh.Setup()
	defer cryptoh.Cleanup()
	rep := vh.NewReport("cryptonotar", "C31", o)
	rep.Rule = "magic blocks of 1-10 miners with real BLS keys; per scenario: ticket messages (valid, signed by another key, for another hash, undecodable, " +
		"from a registered node outside the magic block, from a made-up id, duplicates) through the real handleVerificationTicketMessage, then a block of " +
		"another miner carrying such tickets (or only forged ones, or one valid ticket repeated) through the real processVerifyBlock (optionally via its JSON " +
		"encoding), then Notarization messages through the real notarizationProcess on fresh blocks holding zero or one ticket (one valid ticket repeated >= threshold times, threshold distinct, repeats mixed in, random lists), then VerifyNotarization on ticket lists incl. exactly threshold valid ones, threshold-1, pairs of signatures whose errors cancel, and one miner listed threshold-many times (identical ticket, the same signature re-spelled in another hex letter case, split signatures summing to the right aggregate); " +
		"all orders of up to 6 tickets for one small instance; non-trivial = a scenario with at least one rejected and one stored ticket message, or a block carrying tickets"
	cf := &vh.CasesFile{Imports: []string{"Base.Corr", "Model.Notarize", "Corr.Notarize"}, CaseType: "ntc_case", CheckFn: "ntc_check", Shard: 14}

	handle := func(s scen) {
		out := run(s)
		for k, n := range out.hist {
			rep.CountN(k, n)
		}
		rep.Count(fmt.Sprintf("n=%d", s.N))
		rep.Case(key(s), len(s.Own) > 0 || len(s.Arrivals) > 1, s)
		if out.coq != "" {
			cf.Add(out.coq)
			rep.CaseInputs = append(rep.CaseInputs, s)
		}
		for _, k := range out.fails {
			min := s
			// minimise the three ticket lists while the same failure remains
			shrink := func(get func(*scen) *[]tk) {
				cur := *get(&min)
				keep := vh.ShrinkIdx(len(cur), func(keep []int) bool {
					s2 := min
					var l []tk
					for _, i := range keep {
						l = append(l, cur[i])
					}
					*get(&s2) = l
					_, bad := run(s2).descs[k]
					return bad
				})
				var l []tk
				for _, i := range keep {
					l = append(l, cur[i])
				}
				*get(&min) = l
			}
			if !strings.HasPrefix(k, "notarization-accepted") && k != "valid-notarization-rejected" {
				min.Lists = nil
			}
			if len(min.Lists) > 1 {
				for _, l := range min.Lists {
					s2 := min
					s2.Lists = [][]tk{l}
					if _, bad := run(s2).descs[k]; bad {
						min = s2
						break
					}
				}
			}
			if len(min.Nots) > 1 {
				for _, nm := range min.Nots {
					s2 := min
					s2.Nots = []notm{nm}
					if _, bad := run(s2).descs[k]; bad {
						min = s2
						break
					}
				}
			}
			if _, bad := func() (string, bool) { s2 := min; s2.Nots = nil; d, b := run(s2).descs[k]; return d, b }(); bad {
				min.Nots = nil
			}
			shrink(func(x *scen) *[]tk { return &x.Arrivals })
			shrink(func(x *scen) *[]tk { return &x.Own })
			desc := out.descs[k]
			if d2, ok := run(min).descs[k]; ok {
				desc = d2
			} else {
				min = s
			}
			rep.Violate("C31:"+k, desc, min)
		}
	}
	finish := func() {
		files, err := cf.Write(o.Out, "C31")
		if err != nil {
			panic(err)
		}
		rep.CaseFiles = files
		rep.ShardSize = 14
		rep.Write(o.Out)
	}
	var rs scen
	if o.LoadReplay(&rs) {
		handle(rs)
		finish()
		return
	}
	rnd := vh.NewRand(o.Seed)
	// the suspected defect F-31 first, in its plainest form: 4 miners (threshold 3), a block of miner 1
	// received by miner 0 over the wire format with 3 tickets of made-up verifiers and undecodable signatures
	handle(scen{N: 4, WorldSeed: 31, Self: 0, Gen: 1, JSON: true,
		Own: []tk{{-1, "garbage"}, {-2, "garbage"}, {-3, "garbage"}}})
	for _, n := range []int{4, 2, 3, 1, 5, 7, 10} {
		wseed := rnd.U64() % 1000000
		for k := 0; k < o.N(8, 120); k++ {
			handle(gen(rnd, n, wseed))
		}
	}
	// all arrival orders of a fixed small ticket set (4 miners, threshold 3)
	base := []tk{{0, "valid"}, {1, "valid"}, {2, "otherkey"}, {3, "valid"}, {4, "valid"}, {-1, "garbage"}}
	wseed := rnd.U64() % 1000000
	var perms [][]int
	var rec func(cur []int, used int)
	rec = func(cur []int, used int) {
		if len(cur) == len(base) {
			perms = append(perms, append([]int{}, cur...))
			return
		}
		for i := range base {
			if used&(1<<i) == 0 {
				rec(append(cur, i), used|1<<i)
			}
		}
	}
	rec(nil, 0)
	step := o.N(24, 1)
	for pi := 0; pi < len(perms); pi += step {
		s := scen{N: 4, WorldSeed: wseed, Self: 0, Gen: 1}
		cut := pi % (len(base) + 1)
		for k, i := range perms[pi] {
			if k < cut {
				s.Arrivals = append(s.Arrivals, base[i])
			} else {
				s.Own = append(s.Own, base[i])
			}
		}
		handle(s)
	}
	rep.Note("arrival orders: %d of the %d orders of a 6-ticket set (4 miners, threshold 3), split at every position between ticket messages and tickets attached to the block", (len(perms)+step-1)/step, len(perms))
	finish()
}
