(* C09 (storage contract part): liabilities never grow without backing.
   Statements only; proofs in Proof/StorageLedger.v.
   [ss_liab s]: what the storage contract records as owed in the model state - every write pool
   and challenge pool of the open allocations, every blobber's staked tokens and unpaid stake-pool
   rewards, every validator's stake and unpaid rewards, every read pool.
   [ss_wallet c s]: the balance of the contract's address.
   [ss_backed c s s']: ss_liab s' - ss_liab s <= ss_wallet c s' - ss_wallet c s (the storage
   contract mints nothing in the modelled operations, so no reward term appears).
   One defect is listed as a known finding and stays in the faithful model:
   free_allocation_request credits the read-pool share of the marker to the recipient's read pool
   without any transfer ([ss_free_read_grant] > 0). *)
From Coq Require Import ZArith List Bool Lia.
From ZC Require Import Model.F64 Model.Storage Proof.StorageUtil Proof.Storage Proof.StorageLedger Proof.StorageF64 Proof.StorageLedgerFull Proof.StorageWitness.
Import ListNotations.
Open Scope Z_scope.

(* [st_c09 B]: the C12 invariant (challenge pool = sum of the blobbers' values, write pool >= 0),
   every delegate pool in [0, B) and non-negative read pools - uint64 fields in the Go code, so
   B = 2^64 is their type; kill / shut-down need B <= 2^53 (see C09_step).
   [ss_op_wf09]: transaction values are non-negative, a passed challenge names a validator, the
   contract's own address signs nothing. *)
Definition C09_full_statement : Prop :=
  forall B c s t, cf_owner c <> cf_sc c -> st_c09 B s -> ss_op_wf09 c (snd t) -> ss_backed c s (fst (ss_step c s t)).

(* Known finding: a free allocation with read_pool_fraction > 0. *)
Theorem C09_refuted_free_allocation :
  cf_owner sw_free_conf <> cf_sc sw_free_conf /\ st_c09 (2 ^ 53) sw_free_state /\ ss_op_wf09 sw_free_conf (snd sw_free_txn) /\
  ss_liab sw_free_state = ss_wallet sw_free_conf sw_free_state /\
  ~ ss_backed sw_free_conf sw_free_state (fst (ss_step sw_free_conf sw_free_state sw_free_txn)).
Proof.
  split; [vm_compute; discriminate|]. split; [apply st_c09b_true; vm_compute; reflexivity|].
  split; [vm_compute; split; exact I|]. split; [vm_compute; reflexivity|].
  unfold ss_backed. vm_compute. intros H. apply H. reflexivity.
Qed.
Print Assumptions C09_refuted_free_allocation.

Theorem C09_full_statement_refuted : ~ C09_full_statement.
Proof. intros H. destruct C09_refuted_free_allocation as [H1 [H2 [H3 [_ H4]]]]. apply H4. apply (H (2 ^ 53)); assumption. Qed.
Print Assumptions C09_full_statement_refuted.

(* The excess of a free allocation is exactly bounded by the read-pool share of the marker. *)
Theorem C09_free_allocation_excess :
  forall B c s now id sender assigner recipient coin nonce sg bl s',
  cf_owner c <> cf_sc c -> st_ok B s -> rp_nonneg s ->
  ss_free_alloc c s now id sender assigner recipient coin nonce sg bl = Some s' ->
  ss_liab s' - ss_liab s <= ss_wallet c s' - ss_wallet c s + ss_free_read_grant c coin /\ 0 <= ss_free_read_grant c coin /\
  st_ok B s' /\ rp_nonneg s'.
Proof. exact ss_free_alloc_ledger. Qed.
Print Assumptions C09_free_allocation_excess.

(* Every modelled transaction except a free allocation with a non-zero read-pool share is backed
   and keeps the invariant: new_allocation_request, write_pool_lock, commit_connection,
   generate_challenge, challenge_response, update_allocation_request (extend with
   adjustChallengePool, add / replace / remove a blobber incl. the killed branch and
   payChallengePoolPassPaymentsToRemoveBlobber), finalize / cancel_allocation, read_pool_lock /
   unlock, read_redeem, kill_blobber, shutdown_blobber, update_blobber_settings,
   add_free_storage_assigner, free_allocation_request without read share.
   kill / shut-down multiply every delegate pool by the binary64 fraction 1 - kill_slash (half
   of it for shut-down): for pools below 2^53 (exactly representable) the product never exceeds the
   pool, which is proved with Flocq and brings in the real-number axioms of the standard library.
   [f64_wf]: the configured kill_slash is a valid binary64 value and not a NaN. *)
Theorem C09_step :
  forall B c s now round o s',
  B <= 2 ^ 53 -> cf_owner c <> cf_sc c -> f64_wf (cf_kill_slash c) ->
  st_c09 B s -> ss_op_wf09 c o -> ss_c09_scope_full c o ->
  ss_apply c s now round o = Some s' -> ss_backed c s s' /\ st_c09 B s'.
Proof. intros B c s now round o s' HB. exact (ss_apply_c09_full B HB c s now round o s'). Qed.
Print Assumptions C09_step.

Theorem C09_history :
  forall B c ts s,
  B <= 2 ^ 53 -> cf_owner c <> cf_sc c -> f64_wf (cf_kill_slash c) -> st_c09 B s ->
  Forall (ss_c09_ok_full c) ts -> ss_backed c s (fst (ss_run c s ts)) /\ st_c09 B (fst (ss_run c s ts)).
Proof. intros B c ts s HB. exact (ss_run_c09_full B HB c ts s). Qed.
Print Assumptions C09_history.

(* a contract that starts solvent stays solvent *)
Theorem C09_solvent :
  forall B c ts s,
  B <= 2 ^ 53 -> cf_owner c <> cf_sc c -> f64_wf (cf_kill_slash c) -> st_c09 B s ->
  Forall (ss_c09_ok_full c) ts -> ss_liab s <= ss_wallet c s ->
  ss_liab (fst (ss_run c s ts)) <= ss_wallet c (fst (ss_run c s ts)).
Proof. intros B c ts s HB. exact (ss_run_solvent_full B HB c ts s). Qed.
Print Assumptions C09_solvent.

(* Without kill / shut-down ([ss_c09_scope]) the same holds for every pool bound (B = 2^64: the
   uint64 type) and does not depend on any axiom. *)
Theorem C09_step_partial :
  forall B c s now round o s',
  cf_owner c <> cf_sc c -> st_c09 B s -> ss_op_wf09 c o -> ss_c09_scope c o ->
  ss_apply c s now round o = Some s' -> ss_backed c s s' /\ st_c09 B s'.
Proof. exact ss_apply_c09. Qed.
Print Assumptions C09_step_partial.

Theorem C09_history_partial :
  forall B c ts s, cf_owner c <> cf_sc c -> st_c09 B s -> Forall (ss_c09_ok c) ts ->
  ss_backed c s (fst (ss_run c s ts)) /\ st_c09 B (fst (ss_run c s ts)).
Proof. exact ss_run_c09. Qed.
Print Assumptions C09_history_partial.

Theorem C09_solvent_partial :
  forall B c ts s, cf_owner c <> cf_sc c -> st_c09 B s -> Forall (ss_c09_ok c) ts ->
  ss_liab s <= ss_wallet c s -> ss_liab (fst (ss_run c s ts)) <= ss_wallet c (fst (ss_run c s ts)).
Proof. exact ss_run_solvent. Qed.
Print Assumptions C09_solvent_partial.

(* update_allocation_request on its own *)
Theorem C09_update_backed :
  forall B c s now round sender alloc value size ext tpe add rem own s' f,
  st_c12 s -> st_ok B s -> 0 <= value -> sender <> cf_sc c ->
  ss_update_f c s now round sender alloc value size ext tpe add rem own = Some (s', f) -> ss_backed c s s' /\ st_ok B s'.
Proof. exact ss_update_f_backed. Qed.
Print Assumptions C09_update_backed.

(* StakePool.Kill: no delegate pool below 2^53 grows *)
Theorem C09_kill_slash_never_raises :
  forall b (k : Flocq.IEEE754.BinarySingleNaN.binary_float 53 1024) b',
  Flocq.IEEE754.BinarySingleNaN.is_nan k = false ->
  Forall (fun p => 0 <= p < 2 ^ 53) (bl_pools b) ->
  ss_sp_kill b (Flocq.IEEE754.BinarySingleNaN.B2SF k) = Some b' ->
  pools_le (bl_pools b) (bl_pools b') /\ bl_rewards b' = bl_rewards b /\ bl_id b' = bl_id b.
Proof. exact ss_sp_kill_le. Qed.
Print Assumptions C09_kill_slash_never_raises.

(* the individual movements *)
Theorem C09_close_backed :
  forall B c s now round a s',
  al_c12 a -> ss_find_alloc (al_id a) (st_allocs s) = Some a -> st_ok B s ->
  ss_close c s now round a = Some s' -> ss_backed c s s' /\ st_ok B s'.
Proof. exact ss_close_backed. Qed.
Print Assumptions C09_close_backed.

Theorem C09_challenge_response_backed :
  forall B c s now round sender ch tok pass vals s',
  st_ok B s -> ss_chal_resp c s now round sender ch tok pass vals = Some s' -> ss_backed c s s' /\ st_ok B s'.
Proof. exact ss_chal_resp_backed. Qed.
Print Assumptions C09_challenge_response_backed.

Theorem C09_validators_paid_from_pool :
  forall vs ids cp reward vs' cp', ss_to_validators vs ids cp reward = Some (vs', cp') -> 0 <= reward ->
  ss_sum (map vl_owed vs') - ss_sum (map vl_owed vs) <= cp - cp'.
Proof. exact ss_to_validators_owed. Qed.
Print Assumptions C09_validators_paid_from_pool.

(* Non-vacuity: the free-allocation witness moves 9*10^9 into the wallet and books 10^10; the
   healthy history (upload, lock, cancel) is accepted, stays backed and releases tokens. *)
Example C09_example :
  snd (ss_step sw_free_conf sw_free_state sw_free_txn) = true /\
  ss_free_read_grant sw_free_conf (Some 10000000000) = 1000000000 /\
  (let s' := fst (ss_step sw_free_conf sw_free_state sw_free_txn) in
   (ss_liab s' - ss_liab sw_free_state, ss_wallet sw_free_conf s' - ss_wallet sw_free_conf sw_free_state)) = (10000000000, 9000000000) /\
  st_c09b (2 ^ 53) sw_killed_state = true /\ f64_wf (cf_kill_slash sw_conf) /\
  snd (ss_run sw_conf sw_killed_state sw_ok_txns) = [true; true; true] /\
  (let s' := fst (ss_run sw_conf sw_killed_state sw_ok_txns) in
   (ss_liab s' - ss_liab sw_killed_state <=? ss_wallet sw_conf s' - ss_wallet sw_conf sw_killed_state)) = true.
Proof. vm_compute. repeat split; reflexivity. Qed.
